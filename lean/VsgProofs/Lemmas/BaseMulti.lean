/-
  Layer B, multi-line structure family: effect lemmas for the `_fix_violation` models of
  `VsgModel/Base/Multi.lean` (all actions, all token lists).
-/
import VsgProofs.Lemmas.BaseLineStruct
import VsgModel.Base.Multi
import VsgModel.Base.Dispatch
namespace Vsgm.Base.Multi
open Vsgm Vsgm.Base Vsgm.Base.LineStruct

/-! ## Python list access on `cons` lists; closed forms of the inserting helpers -/

theorem pyGet_zero {α : Type} (l : List α) (x : α) (h : pyGet l 0 = .ok x) : ∃ r, l = x :: r := by
  cases l with
  | nil => simp [pyGet, pyIdx] at h
  | cons a r =>
    simp [pyGet, pyIdx] at h
    exact ⟨r, by rw [h]⟩

theorem pyGet_one {α : Type} (l : List α) (x : α) (h : pyGet l 1 = .ok x) : ∃ a r, l = a :: x :: r := by
  cases l with
  | nil => simp [pyGet, pyIdx] at h
  | cons a r =>
    cases r with
    | nil => simp [pyGet, pyIdx] at h
    | cons b r' =>
      have hc : (1 : Int) < ↑r'.length + 1 + 1 := by omega
      simp [pyGet, pyIdx, hc] at h
      exact ⟨a, r', by rw [h]⟩

theorem insertToken_zero_cons {α : Type} (t : α) (r : List α) (x : α) :
    insertToken (t :: r) 0 x = .ok (x :: t :: r) := by
  have hm : min (0 : Int) (↑r.length + 1) = 0 := by omega
  simp [insertToken, pyInsert, hm]

theorem insertToken_one_cons {α : Type} (t : α) (r : List α) (x : α) :
    insertToken (t :: r) 1 x = .ok (t :: x :: r) := by
  have hm : min (1 : Int) (↑r.length + 1) = 1 := by omega
  simp [insertToken, pyInsert, hm]

/-- closed form of `breakBefore` -/
theorem breakBefore_eq (c : Cls) (l new : List Tok) (h : breakBefore c l = .ok new) :
    ∃ t r, l = t :: r ∧ new = (if isWs t then [mkCr c] else [mkCr c, LineStruct.mkWs c]) ++ l := by
  unfold breakBefore at h
  cases h0 : pyGet l 0 with
  | error e => simp [h0, bind, Except.bind] at h
  | ok t0 =>
    obtain ⟨r, rfl⟩ := pyGet_zero l t0 h0
    refine ⟨t0, r, rfl, ?_⟩
    simp only [h0, bind, Except.bind] at h
    by_cases hw : isWs t0 = true
    · simp [hw, insertCr, insertToken_zero_cons] at h
      simp [hw, ← h]
    · have hw' : isWs t0 = false := by simpa using hw
      simp [hw', LineStruct.insertWs, insertCr, insertToken_zero_cons] at h
      simp [hw', ← h]

/-- closed form of `breakAfterFirst` -/
theorem breakAfterFirst_eq (c : Cls) (l new : List Tok) (h : breakAfterFirst c l = .ok new) :
    ∃ t r, l = t :: r ∧ new = t :: (if isWs t then [mkCr c] else [mkCr c, LineStruct.mkWs c]) ++ r := by
  unfold breakAfterFirst at h
  cases h0 : pyGet l 0 with
  | error e => simp [h0, bind, Except.bind] at h
  | ok t0 =>
    obtain ⟨r, rfl⟩ := pyGet_zero l t0 h0
    refine ⟨t0, r, rfl, ?_⟩
    simp only [h0, bind, Except.bind] at h
    by_cases hw : isWs t0 = true
    · simp [hw, insertCr, insertToken_one_cons] at h
      simp [hw, ← h]
    · have hw' : isWs t0 = false := by simpa using hw
      simp [hw', LineStruct.insertWs, insertCr, insertToken_one_cons] at h
      simp [hw', ← h]

theorem breakAtEnd_eq (c : Cls) (l new : List Tok) (h : breakAtEnd c l = .ok new) :
    l ≠ [] ∧ new = l ++ [mkCr c, LineStruct.mkWs c] := by
  unfold breakAtEnd appendTok at h
  cases l with
  | nil => simp [bind, Except.bind] at h
  | cons t r =>
    simp [bind, Except.bind] at h
    simp [← h]

theorem breakAfterComma_eq (c : Cls) (l new : List Tok) (h : breakAfterComma c l = .ok new) :
    ∃ a t r, l = a :: t :: r ∧ new = a :: (if isWs t then [mkCr c] else [mkCr c, LineStruct.mkWs c]) ++ t :: r := by
  unfold breakAfterComma at h
  cases h1 : pyGet l 1 with
  | error e => simp [h1, bind, Except.bind] at h
  | ok t1 =>
    obtain ⟨a, r, rfl⟩ := pyGet_one l t1 h1
    refine ⟨a, t1, r, rfl, ?_⟩
    simp only [h1, bind, Except.bind] at h
    by_cases hw : isWs t1 = true
    · simp [hw, insertCr, insertToken_one_cons] at h
      simp [hw, ← h]
    · have hw' : isWs t1 = false := by simpa using hw
      simp [hw', LineStruct.insertWs, insertCr, insertToken_one_cons] at h
      simp [hw', ← h]


/-- the line break (with its indentation blank) the inserting fixes create -/
def brk (c : Cls) (t : Tok) : List Tok := if isWs t then [mkCr c] else [mkCr c, LineStruct.mkWs c]

theorem brk_layout (c : Cls) (t : Tok) : ∀ x ∈ brk c t, x.isLayout = true := by
  intro x hx
  unfold brk at hx
  split at hx <;> simp at hx
  · subst hx; rfl
  · rcases hx with rfl | rfl <;> rfl

theorem brk_noLC (c : Cls) (t : Tok) : ∀ x ∈ brk c t, isLC x = false := by
  intro x hx
  unfold brk at hx
  split at hx <;> simp at hx
  · subst hx; rfl
  · rcases hx with rfl | rfl <;> rfl

theorem brk_startsCr (c : Cls) (t : Tok) : startsCr (brk c t) = true := by
  unfold brk; split <;> rfl

theorem nonLayout_allLayout (l : List Tok) (h : ∀ t ∈ l, t.isLayout = true) : nonLayout l = [] := by
  unfold nonLayout
  rw [List.filter_eq_nil_iff]
  intro t ht; simp [h t ht]

/-- inserting layout tokens anywhere changes nothing but layout -/
theorem layoutOnly_insert (a ins b : List Tok) (hl : ∀ t ∈ ins, t.isLayout = true) :
    LayoutOnly (a ++ b) (a ++ ins ++ b) := by
  unfold LayoutOnly
  rw [nonLayout_append, nonLayout_append, nonLayout_append, nonLayout_allLayout ins hl, List.append_nil]

/-- deleting layout tokens anywhere changes nothing but layout -/
theorem layoutOnly_delete (a del b : List Tok) (hl : ∀ t ∈ del, t.isLayout = true) :
    LayoutOnly (a ++ del ++ b) (a ++ b) :=
  LayoutOnly.symm' (layoutOnly_insert a del b hl)

/-- inserting comment-free tokens between `P` and `Q` keeps every comment at its line end when the
    inserted run starts with a line break or `P` does not end in a comment -/
theorem cel_insert_list (P Q ins : List Tok) (hno : ∀ t ∈ ins, isLC t = false)
    (hc : commentEndsLine (P ++ Q) = true) (hok : startsCr ins = true ∨ endsLC P = false) :
    commentEndsLine (P ++ (ins ++ Q)) = true := by
  by_cases hi : ins = []
  · subst hi; simpa using hc
  · rw [cel_append] at hc ⊢
    rw [cel_append ins Q, cel_noLC ins hno, endsLC_noLC ins hno, startsCr_append_ne ins Q hi]
    simp only [Bool.and_eq_true, Bool.or_eq_true, Bool.not_eq_true'] at hc ⊢
    rcases hok with h | h
    · exact ⟨⟨hc.1.1, by simp [hc.1.2]⟩, Or.inr h⟩
    · exact ⟨⟨hc.1.1, by simp [hc.1.2]⟩, Or.inl h⟩

/-- a run that starts with a line break and holds no comment can be inserted ANYWHERE -/
theorem celSafe_insert_cr (a ins b : List Tok) (hno : ∀ t ∈ ins, isLC t = false) (hs : startsCr ins = true) :
    CelSafe (a ++ b) (a ++ ins ++ b) := by
  intro pre post hc
  have e1 : pre ++ (a ++ b) ++ post = (pre ++ a) ++ (b ++ post) := by simp [List.append_assoc]
  have e2 : pre ++ (a ++ ins ++ b) ++ post = (pre ++ a) ++ (ins ++ (b ++ post)) := by simp [List.append_assoc]
  rw [e1] at hc; rw [e2]
  exact cel_insert_list _ _ ins hno hc (Or.inl hs)

/-- comment-free tokens can be inserted behind a non-empty prefix that does not end in a comment -/
theorem celSafe_insert_after (a ins b : List Tok) (hno : ∀ t ∈ ins, isLC t = false) (ha : a ≠ [])
    (he : endsLC a = false) : CelSafe (a ++ b) (a ++ ins ++ b) := by
  intro pre post hc
  have e1 : pre ++ (a ++ b) ++ post = (pre ++ a) ++ (b ++ post) := by simp [List.append_assoc]
  have e2 : pre ++ (a ++ ins ++ b) ++ post = (pre ++ a) ++ (ins ++ (b ++ post)) := by simp [List.append_assoc]
  rw [e1] at hc; rw [e2]
  exact cel_insert_list _ _ ins hno hc (Or.inr (by rw [endsLC_append_ne _ _ ha]; exact he))

theorem breakBefore_spec (c : Cls) (l new : List Tok) (h : breakBefore c l = .ok new) :
    LayoutOnly l new ∧ CelSafe l new := by
  obtain ⟨t, r, rfl, rfl⟩ := breakBefore_eq c l new h
  have e : (if isWs t then [mkCr c] else [mkCr c, LineStruct.mkWs c]) = brk c t := rfl
  rw [e]
  have h1 := layoutOnly_insert [] (brk c t) (t :: r) (brk_layout c t)
  have h2 := celSafe_insert_cr [] (brk c t) (t :: r) (brk_noLC c t) (brk_startsCr c t)
  simpa using And.intro h1 h2

theorem breakAfterFirst_spec (c : Cls) (l new : List Tok) (h : breakAfterFirst c l = .ok new) :
    LayoutOnly l new ∧ CelSafe l new := by
  obtain ⟨t, r, rfl, rfl⟩ := breakAfterFirst_eq c l new h
  have e : (if isWs t then [mkCr c] else [mkCr c, LineStruct.mkWs c]) = brk c t := rfl
  rw [e]
  have h1 := layoutOnly_insert [t] (brk c t) r (brk_layout c t)
  have h2 := celSafe_insert_cr [t] (brk c t) r (brk_noLC c t) (brk_startsCr c t)
  simpa using And.intro h1 h2

theorem breakAtEnd_spec (c : Cls) (l new : List Tok) (h : breakAtEnd c l = .ok new) :
    LayoutOnly l new ∧ CelSafe l new := by
  obtain ⟨_, rfl⟩ := breakAtEnd_eq c l new h
  have h1 := layoutOnly_insert l [mkCr c, LineStruct.mkWs c] [] (by intro t ht; simp at ht; rcases ht with rfl | rfl <;> rfl)
  have h2 := celSafe_insert_cr l [mkCr c, LineStruct.mkWs c] [] (by intro t ht; simp at ht; rcases ht with rfl | rfl <;> rfl) rfl
  simpa using And.intro h1 h2

theorem breakAfterComma_spec (c : Cls) (l new : List Tok) (h : breakAfterComma c l = .ok new) :
    LayoutOnly l new ∧ CelSafe l new := by
  obtain ⟨a, t, r, rfl, rfl⟩ := breakAfterComma_eq c l new h
  have e : (if isWs t then [mkCr c] else [mkCr c, LineStruct.mkWs c]) = brk c t := rfl
  rw [e]
  have h1 := layoutOnly_insert [a] (brk c t) (t :: r) (brk_layout c t)
  have h2 := celSafe_insert_cr [a] (brk c t) (t :: r) (brk_noLC c t) (brk_startsCr c t)
  simpa using And.intro h1 h2

/-- a list of at least two tokens: first, middle, last -/
theorem first_mid_last {α : Type} (l : List α) (a b : α) (h0 : pyGet l 0 = .ok a) (h1 : pyGet l (-1) = .ok b)
    (hlen : 2 ≤ l.length) : l = a :: (l.drop 1).dropLast ++ [b] := by
  obtain ⟨r, rfl⟩ := pyGet_zero l a h0
  have hl := pyGet_last (a :: r) b h1
  cases r with
  | nil => simp at hlen
  | cons x r' =>
    simp only [List.dropLast_cons_cons] at hl
    simp only [List.drop_succ_cons, List.drop_zero]
    exact hl

theorem firstLast_eq (l new : List Tok) (h : firstLast l = .ok new) :
    ∃ a b, pyGet l 0 = .ok a ∧ pyGet l (-1) = .ok b ∧ new = [a, b] := by
  unfold firstLast at h
  cases h0 : pyGet l 0 with
  | error e => simp [h0, bind, Except.bind] at h
  | ok a =>
    cases h1 : pyGet l (-1) with
    | error e => simp [h0, h1, bind, Except.bind] at h
    | ok b =>
      simp [h0, h1, bind, Except.bind] at h
      exact ⟨a, b, rfl, rfl, h.symm⟩

theorem firstWsLast_eq (c : Cls) (l new : List Tok) (h : firstWsLast c l = .ok new) :
    ∃ a b, pyGet l 0 = .ok a ∧ pyGet l (-1) = .ok b ∧ new = [a, LineStruct.mkWs c, b] := by
  unfold firstWsLast at h
  cases h0 : pyGet l 0 with
  | error e => simp [h0, bind, Except.bind] at h
  | ok a =>
    cases h1 : pyGet l (-1) with
    | error e => simp [h0, h1, bind, Except.bind] at h
    | ok b =>
      simp [h0, h1, bind, Except.bind] at h
      exact ⟨a, b, rfl, rfl, h.symm⟩

/-- the tokens strictly between the first and the last token of the region -/
def middle (l : List Tok) : List Tok := (l.drop 1).dropLast

/-- replacing the middle of a region by layout tokens: the exact loss is the middle's non-layout part -/
theorem nonLayout_collapse (a b : Tok) (mid ins : List Tok) (hl : ∀ t ∈ ins, t.isLayout = true) :
    nonLayout (a :: ins ++ [b]) = nonLayout [a] ++ nonLayout [b] ∧
    nonLayout (a :: mid ++ [b]) = nonLayout [a] ++ nonLayout mid ++ nonLayout [b] := by
  constructor
  · have : a :: ins ++ [b] = [a] ++ ins ++ [b] := by simp
    rw [this, nonLayout_append, nonLayout_append, nonLayout_allLayout ins hl, List.append_nil]
  · have : a :: mid ++ [b] = [a] ++ mid ++ [b] := by simp
    rw [this, nonLayout_append, nonLayout_append]

/-- `[first, last]` / `[first, blank, last]`: layout-only exactly when nothing but layout stood between
    them (for a region of at least two tokens) -/
theorem collapse_layoutOnly_iff (l : List Tok) (a b : Tok) (ins : List Tok) (hl : ∀ t ∈ ins, t.isLayout = true)
    (h0 : pyGet l 0 = .ok a) (h1 : pyGet l (-1) = .ok b) (hlen : 2 ≤ l.length) :
    LayoutOnly l (a :: ins ++ [b]) ↔ ∀ t ∈ middle l, t.isLayout = true := by
  have hl' := first_mid_last l a b h0 h1 hlen
  obtain ⟨e1, e2⟩ := nonLayout_collapse a b (middle l) ins hl
  unfold LayoutOnly
  rw [e1]
  conv => lhs; lhs; rw [hl']
  have : (a :: (l.drop 1).dropLast ++ [b]) = a :: middle l ++ [b] := rfl
  rw [this, e2]
  constructor
  · intro h
    have h' : nonLayout (middle l) = [] := by
      have := congrArg List.length h
      simp only [List.length_append] at this
      exact List.eq_nil_of_length_eq_zero (by omega)
    intro t ht
    unfold nonLayout at h'
    rw [List.filter_eq_nil_iff] at h'
    simpa using h' t ht
  · intro h
    rw [nonLayout_allLayout _ h, List.append_nil]

/-- context form for a collapsed region: safe when the first token is no comment -/
theorem collapse_celSafe (l : List Tok) (a b : Tok) (ins : List Tok) (hno : ∀ t ∈ ins, isLC t = false)
    (h0 : pyGet l 0 = .ok a) (h1 : pyGet l (-1) = .ok b) (hlen : 2 ≤ l.length) (ha : isLC a = false) :
    CelSafe l (a :: ins ++ [b]) := by
  have hl' := first_mid_last l a b h0 h1 hlen
  intro pre post hc
  rw [hl'] at hc
  -- old: pre ++ [a] ++ mid ++ [b] ++ post ; new: pre ++ [a] ++ ins ++ [b] ++ post
  have e1 : pre ++ (a :: (l.drop 1).dropLast ++ [b]) ++ post = (pre ++ [a]) ++ ((l.drop 1).dropLast ++ (b :: post)) := by
    simp [List.append_assoc]
  have e2 : pre ++ (a :: ins ++ [b]) ++ post = (pre ++ [a]) ++ (ins ++ (b :: post)) := by simp [List.append_assoc]
  rw [e1] at hc; rw [e2]
  have hP : endsLC (pre ++ [a]) = false := by rw [endsLC_append_singleton]; exact ha
  have hcP : commentEndsLine (pre ++ [a]) = true := by
    rw [cel_append] at hc; simp only [Bool.and_eq_true] at hc; exact hc.1.1
  have hcQ : commentEndsLine (b :: post) = true := by
    rw [cel_append] at hc; simp only [Bool.and_eq_true] at hc
    have := hc.1.2
    rw [cel_append] at this; simp only [Bool.and_eq_true] at this; exact this.1.2
  have hbase : commentEndsLine ((pre ++ [a]) ++ (b :: post)) = true := by
    rw [cel_append, hcP, hcQ, hP]; rfl
  exact cel_insert_list _ _ ins hno hbase (Or.inr hP)

/-! ## `_fix_assign_on_single_line` -/

theorem isCommentInst_commentLike {t : Tok} (h : isCommentInst t = true) : t.isCommentLike = true := by
  unfold isCommentInst at h; unfold Tok.isCommentLike Kind.isCommentLike
  cases hk : t.kind <;> simp_all

theorem removeComments_codeSeq (fold : Str → Str) (l : List Tok) : codeSeq fold (removeComments l) = codeSeq fold l := by
  induction l with
  | nil => rfl
  | cons t l ih =>
    unfold removeComments at ih ⊢
    by_cases hc : isCommentInst t = true
    · have hn : t.isCode = false := isCommentInst_nonCode hc
      simp only [List.filter_cons, hc, Bool.not_true, Bool.false_eq_true, if_false]
      rw [ih]
      simp [codeSeq, codeOf, hn]
    · have hc' : isCommentInst t = false := by simpa using hc
      simp only [List.filter_cons, hc', Bool.not_false, if_true]
      simp only [codeSeq, List.flatMap_cons] at ih ⊢
      rw [ih]

theorem removeComments_removeCr (l : List Tok) : removeComments (removeCr l) = removeCr (removeComments l) := by
  unfold removeComments removeCr
  rw [List.filter_filter, List.filter_filter]
  congr 1
  funext t
  exact Bool.and_comm _ _

/-- code kept: the single-line join removes only line breaks, comments and doubled blanks -/
theorem joinAssign_codeSeq (fold : Str → Str) (l : List Tok) : codeSeq fold (joinAssign l) = codeSeq fold l := by
  unfold joinAssign
  rw [← (rcw_layoutOnly _).codeSeq, removeComments_codeSeq, ← (removeCr_layoutOnly l).codeSeq]

/-- **what the documented comment removal does**: the comment sequence of the result is that of the
    region without its `parser.comment` instances (`--` comments, pragmas, `/*` and `*/`; the TEXT of a
    delimited comment and preprocessor lines stay) -/
theorem joinAssign_commentSeq (l : List Tok) : commentSeq (joinAssign l) = commentSeq (removeComments l) := by
  unfold joinAssign
  rw [← (rcw_layoutOnly _).commentSeq, removeComments_removeCr, ← (removeCr_layoutOnly _).commentSeq]

theorem removeComments_id (l : List Tok) (h : ∀ t ∈ l, isCommentInst t = false) : removeComments l = l := by
  unfold removeComments
  rw [List.filter_eq_self]
  intro t ht; simp [h t ht]

/-- no `parser.comment` instance in the region: layout-only -/
theorem joinAssign_layoutOnly (l : List Tok) (h : ∀ t ∈ l, isCommentInst t = false) : LayoutOnly l (joinAssign l) := by
  unfold joinAssign
  rw [removeComments_removeCr, removeComments_id l h]
  exact LayoutOnly.trans' (removeCr_layoutOnly l) (rcw_layoutOnly _)

theorem mem_joinAssign (l : List Tok) : ∀ t ∈ joinAssign l, t ∈ l ∧ isCr t = false ∧ isCommentInst t = false := by
  intro t ht
  unfold joinAssign at ht
  have h1 := mem_rcw _ t ht
  unfold removeComments at h1
  rw [List.mem_filter] at h1
  obtain ⟨h2, h3⟩ := h1
  obtain ⟨h4, h5⟩ := mem_removeCr l t h2
  exact ⟨h4, h5, by simpa using h3⟩

/-- every comment and every line break is gone: nothing is left that could swallow code; in a region
    that does not start with a line break the join is safe in every context -/
theorem joinAssign_celSafe (l : List Tok) (hs : startsCr l = false) : CelSafe l (joinAssign l) := by
  apply celSafe_of_right l _ hs
  intro post hc
  have hno : ∀ t ∈ joinAssign l, isLC t = false := by
    intro t ht
    have := (mem_joinAssign l t ht).2.2
    cases hl : isLC t
    · rfl
    · rw [isLC_commentInst hl] at this; cases this
  rw [cel_append] at hc ⊢
  simp only [Bool.and_eq_true] at hc
  rw [cel_noLC _ hno, hc.1.2, endsLC_noLC _ hno]; rfl

/-- no line break survives while every blank_line token does: a blank line inside the joined
    region leaves its `blank_line` token in the middle of a code line (C08) -/
theorem joinAssign_blank (l : List Tok) :
    (∀ t ∈ joinAssign l, isCr t = false) ∧ (joinAssign l).filter isBlank = l.filter isBlank := by
  refine ⟨fun t ht => (mem_joinAssign l t ht).2.1, ?_⟩
  have hrcwGo : ∀ (p : Tok) (m : List Tok), (rcwGo p m).filter isBlank = m.filter isBlank := by
    intro p m
    induction m generalizing p with
    | nil => rfl
    | cons t r ih =>
      unfold rcwGo
      split
      · rename_i hw
        simp only [Bool.and_eq_true] at hw
        have : isBlank t = false := by
          have := hw.1; unfold isWs at this; unfold isBlank
          have hk : t.kind = .ws := by simpa using this
          simp [hk]
        rw [ih, List.filter_cons, this]; simp
      · rw [List.filter_cons, List.filter_cons, ih]
  have hrcw : ∀ m : List Tok, (LineStruct.rcw m).filter isBlank = m.filter isBlank := by
    intro m
    cases m with
    | nil => rfl
    | cons t r => unfold LineStruct.rcw; rw [List.filter_cons, List.filter_cons, hrcwGo]
  unfold joinAssign
  rw [hrcw]
  unfold removeComments removeCr
  rw [List.filter_filter, List.filter_filter]
  apply List.filter_congr
  intro t _
  unfold isBlank isCommentInst isCr
  cases hk : t.kind <;> decide

/-! ## `_fix_last_paren_new_line`, action insert_and_move_comment -/

/-- closed form: with `old ≈ t0 :: M ++ D` (up to one inserted blank), `D` = what stands behind the first
    instance of the semicolon class, the result is `t0 :: D ++ [line break] ++ M` -/
theorem moveCommentCore_eq (c : Cls) (isa : Nat → Nat → Bool) (semi : Option Nat) (t0 : Tok) (R new : List Tok)
    (h : moveCommentCore c isa semi (t0 :: R) = .ok new) :
    ∃ j, new = t0 :: R.drop j ++ mkCr c :: R.take j := by
  unfold moveCommentCore at h
  cases semi with
  | none => simp at h
  | some sc =>
    simp only at h
    cases hf : (t0 :: R).findIdx? (fun t => isa t.cls sc) with
    | none => simp [hf] at h
    | some j =>
      have hg : pyGet (t0 :: R) 0 = .ok t0 := by simp [pyGet, pyIdx]
      simp only [hf, hg] at h
      refine ⟨j, ?_⟩
      have := Except.ok.inj h
      rw [← this]
      simp [List.take_succ_cons, List.drop_succ_cons]

theorem moveComment_eq (c : Cls) (isa : Nat → Nat → Bool) (semi : Option Nat) (l new : List Tok)
    (h : moveComment c isa semi l = .ok new) :
    ∃ t0 M D, LayoutOnly l (t0 :: M ++ D) ∧ new = t0 :: D ++ mkCr c :: M := by
  unfold moveComment at h
  cases h0 : pyGet l 0 with
  | error e => simp [h0, bind, Except.bind] at h
  | ok t0 =>
    obtain ⟨r, rfl⟩ := pyGet_zero l t0 h0
    simp only [h0, bind, Except.bind] at h
    by_cases hw : isWs t0 = true
    · simp only [hw, Bool.not_true, Bool.false_eq_true, if_false] at h
      obtain ⟨j, hj⟩ := moveCommentCore_eq c isa semi t0 r new h
      exact ⟨t0, r.take j, r.drop j, by rw [List.cons_append, List.take_append_drop]; exact LayoutOnly.rfl' _, hj⟩
    · have hw' : isWs t0 = false := by simpa using hw
      simp only [hw', Bool.not_false, if_true, LineStruct.insertWs, insertToken_one_cons] at h
      obtain ⟨j, hj⟩ := moveCommentCore_eq c isa semi t0 (LineStruct.mkWs c :: r) new h
      refine ⟨t0, (LineStruct.mkWs c :: r).take j, (LineStruct.mkWs c :: r).drop j, ?_, hj⟩
      rw [List.cons_append, List.take_append_drop]
      have := layoutOnly_insert [t0] [LineStruct.mkWs c] r (by intro t ht; simp at ht; subst ht; rfl)
      simpa using this

/-- exact condition for a layout-blind projection (code sequence, comment sequence) to survive the
    comment move: the images of the moved tail `D` and of the jumped tokens `M` commute -/
theorem moveComment_proj {β : Type} (π : List Tok → List β) (hπ : Blind π) (c : Cls) (t0 : Tok) (M D l : List Tok)
    (hl : LayoutOnly l (t0 :: M ++ D)) :
    π (t0 :: D ++ mkCr c :: M) = π l ↔ π D ++ π M = π M ++ π D := by
  rw [hπ.layoutOnly hl]
  have e1 : t0 :: D ++ mkCr c :: M = [t0] ++ (D ++ ([mkCr c] ++ M)) := by simp
  have e2 : t0 :: M ++ D = [t0] ++ (M ++ D) := by simp
  rw [e1, e2, hπ.hom, hπ.hom, hπ.hom, hπ.hom, hπ.hom, hπ.layout _ (mkCr_layout c), List.nil_append,
    List.append_right_inj]

/-! ## vsg/rules/fix.py -/

theorem blind_nonLayout : Blind nonLayout where
  hom := nonLayout_append
  layout := fun t ht => by simp [nonLayout, ht]

theorem removeLeadingWs_layoutOnly (l : List Tok) : LayoutOnly l (removeLeadingWs l) := by
  unfold removeLeadingWs
  split
  · rename_i t u r
    split
    · rename_i hw
      have := layoutOnly_delete [] [t] (u :: r) (by intro x hx; simp at hx; subst hx; exact isWs_layout hw)
      simpa using this
    · exact LayoutOnly.rfl' _
  · exact LayoutOnly.rfl' _

theorem mem_removeLeadingWs (l : List Tok) : ∀ t ∈ removeLeadingWs l, t ∈ l := by
  intro t ht
  unfold removeLeadingWs at ht
  split at ht
  · split at ht
    · exact List.mem_cons_of_mem _ ht
    · exact ht
  · exact ht

/-- dropping a leading blank of the region is safe in every context -/
theorem removeLeadingWs_celSafe (l : List Tok) : CelSafe l (removeLeadingWs l) := by
  unfold removeLeadingWs
  split
  · rename_i t u r
    split
    · rename_i hw
      intro pre post hc
      have e : pre ++ t :: u :: r ++ post = pre ++ t :: (u :: r ++ post) := by simp
      rw [e] at hc
      have := (cel_erase pre (u :: r ++ post) t hc (isWs_nonCr hw)).1
      simpa [List.append_assoc] using this
    · exact CelSafe.refl' _
  · exact CelSafe.refl' _

theorem wsToSingle_nonLayout (l : List Tok) : nonLayout (wsToSingle l) = nonLayout l := by
  induction l with
  | nil => rfl
  | cons t l ih =>
    unfold wsToSingle at ih ⊢
    simp only [List.map_cons]
    by_cases hw : isWs t = true
    · have h1 : t.isLayout = true := isWs_layout hw
      have h2 : ({ t with val := [' '] } : Tok).isLayout = true := h1
      simp only [hw, if_true]
      rw [nonLayout_cons_layout h2, nonLayout_cons_layout h1, ih]
    · have hw' : isWs t = false := by simpa using hw
      simp only [hw', Bool.false_eq_true, if_false]
      rw [nonLayout_cons t, ih, ← nonLayout_cons t]

theorem wsToSingle_layoutOnly (l : List Tok) : LayoutOnly l (wsToSingle l) := (wsToSingle_nonLayout l).symm

/-- every token of `wsToSingle l` has the kind of a token of `l` -/
theorem mem_wsToSingle (l : List Tok) : ∀ t ∈ wsToSingle l, ∃ s ∈ l, s.kind = t.kind := by
  intro t ht
  unfold wsToSingle at ht
  rw [List.mem_map] at ht
  obtain ⟨s, hs, rfl⟩ := ht
  refine ⟨s, hs, ?_⟩
  split <;> rfl

theorem mem_removeTrailingWs (l : List Tok) : ∀ t ∈ removeTrailingWs l, t ∈ l := by
  intro t ht
  unfold removeTrailingWs at ht
  simp only at ht
  by_cases hd : (l.reverse.dropWhile isWsLike).isEmpty = true
  · simp only [hd, if_true] at ht
    simpa using ht
  · simp only [hd, Bool.false_eq_true, if_false] at ht
    have : t ∈ l.reverse.dropWhile isWsLike := by simpa using ht
    have := (List.dropWhile_sublist _).subset this
    simpa using this

theorem isLC_kind {s t : Tok} (h : s.kind = t.kind) : isLC s = isLC t := by unfold isLC; rw [h]
theorem isCr_kind {s t : Tok} (h : s.kind = t.kind) : isCr s = isCr t := by unfold isCr; rw [h]

/-- `fix.add_new_line`: layout-only, safe in every context -/
theorem addNewLine_spec (c : Cls) (l new : List Tok) (h : addNewLine c l = .ok new) :
    LayoutOnly l new ∧ CelSafe l new := by
  unfold addNewLine at h
  cases hX : removeLeadingWs l with
  | nil => simp [hX, LineStruct.insertWs, insertToken, bind, Except.bind] at h
  | cons t r =>
    simp only [hX, LineStruct.insertWs, insertCr, insertToken_zero_cons, bind, Except.bind] at h
    have hn := Except.ok.inj h
    have hL1 : LayoutOnly l (t :: r) := by rw [← hX]; exact removeLeadingWs_layoutOnly l
    have hC1 : CelSafe l (t :: r) := by rw [← hX]; exact removeLeadingWs_celSafe l
    have hins : ∀ x ∈ [mkCr c, LineStruct.mkWs c], x.isLayout = true := by
      intro x hx; simp at hx; rcases hx with rfl | rfl <;> rfl
    have hins' : ∀ x ∈ [mkCr c, LineStruct.mkWs c], isLC x = false := by
      intro x hx; simp at hx; rcases hx with rfl | rfl <;> rfl
    have hL2 := layoutOnly_insert [] [mkCr c, LineStruct.mkWs c] (t :: r) hins
    have hC2 := celSafe_insert_cr [] [mkCr c, LineStruct.mkWs c] (t :: r) hins' rfl
    simp only [List.nil_append, List.cons_append] at hL2 hC2
    rw [← hn]
    exact ⟨LayoutOnly.trans' hL1 (LayoutOnly.trans' hL2 (rcw_layoutOnly _)),
      CelSafe.trans' hC1 (CelSafe.trans' hC2 (celSafe_rcw _))⟩

/-- the list `fix.remove_new_line` returns -/
theorem removeNewLine_eq (l new : List Tok) (h : removeNewLine l = .ok new) :
    new = removeTrailingWs (wsToSingle (removeLeadingWs (LineStruct.rcw (removeCr l)))) := by
  unfold removeNewLine at h; exact (Except.ok.inj h).symm

/-- every token of the result has the kind of a token of the region that is not a line break -/
theorem mem_removeNewLine (l new : List Tok) (h : removeNewLine l = .ok new) :
    ∀ t ∈ new, ∃ s ∈ l, s.kind = t.kind ∧ isCr s = false := by
  intro t ht
  rw [removeNewLine_eq l new h] at ht
  obtain ⟨s, hs, hk⟩ := mem_wsToSingle _ t (mem_removeTrailingWs _ t ht)
  have h2 := mem_rcw _ s (mem_removeLeadingWs _ s hs)
  obtain ⟨h3, h4⟩ := mem_removeCr l s h2
  exact ⟨s, h3, hk, h4⟩

/-- `fix.remove_new_line` keeps the code sequence, whatever the region holds -/
theorem removeNewLine_codeSeq (fold : Str → Str) (l new : List Tok) (h : removeNewLine l = .ok new) :
    codeSeq fold new = codeSeq fold l := by
  rw [removeNewLine_eq l new h]
  rw [removeTrailingWs_blind (blind_codeSeq fold) _ (fun t _ hw => codeSeq_wsLike fold t hw)]
  rw [← (wsToSingle_layoutOnly _).codeSeq, ← (removeLeadingWs_layoutOnly _).codeSeq, ← (rcw_layoutOnly _).codeSeq,
    ← (removeCr_layoutOnly l).codeSeq]

/-- … and is layout-only when the region holds no preprocessor token (`remove_trailing_whitespace`
    counts a trailing preprocessor line as whitespace and deletes it) -/
theorem removeNewLine_layoutOnly (l new : List Tok) (h : removeNewLine l = .ok new)
    (hp : ∀ t ∈ l, t.kind ≠ .preproc) : LayoutOnly l new := by
  rw [removeNewLine_eq l new h]
  unfold LayoutOnly
  have hstep : nonLayout (removeTrailingWs (wsToSingle (removeLeadingWs (LineStruct.rcw (removeCr l))))) =
      nonLayout (wsToSingle (removeLeadingWs (LineStruct.rcw (removeCr l)))) := by
    apply removeTrailingWs_blind blind_nonLayout
    intro t ht hw
    obtain ⟨s, hs, hk⟩ := mem_wsToSingle _ t ht
    have hsl := (mem_removeCr l s (mem_rcw _ s (mem_removeLeadingWs _ s hs))).1
    have hnp : t.kind ≠ .preproc := by rw [← hk]; exact hp s hsl
    have hl : t.isLayout = true := by
      unfold isWsLike at hw; unfold Tok.isLayout Kind.isLayout
      cases hk2 : t.kind <;> simp_all
    simp [nonLayout, hl]
  rw [hstep, wsToSingle_nonLayout, ← (removeLeadingWs_layoutOnly _), ← (rcw_layoutOnly _), ← (removeCr_layoutOnly l)]

/-- the cause of the C08 findings "stray blank_line token inside a non-blank line" at the owners that
    use fix.py: NO carriage return survives `remove_new_line` (while `blank_line` tokens are not
    touched unless they trail), so a surviving blank_line token is never preceded by a line break -/
theorem removeNewLine_noCr (l new : List Tok) (h : removeNewLine l = .ok new) : ∀ t ∈ new, isCr t = false := by
  intro t ht
  obtain ⟨s, _, hk, hcr⟩ := mem_removeNewLine l new h t ht
  rw [← isCr_kind hk]; exact hcr

/-- with no `--` comment in a region that does not start with a line break the join is safe in every
    context -/
theorem removeNewLine_celSafe (l new : List Tok) (h : removeNewLine l = .ok new)
    (hs : startsCr l = false) (hno : ∀ t ∈ l, isLC t = false) : CelSafe l new := by
  apply celSafe_of_right l _ hs
  intro post hc
  have hno' : ∀ t ∈ new, isLC t = false := by
    intro t ht
    obtain ⟨s, hs', hk, _⟩ := mem_removeNewLine l new h t ht
    rw [← isLC_kind hk]; exact hno s hs'
  rw [cel_append] at hc ⊢
  simp only [Bool.and_eq_true] at hc
  rw [cel_noLC _ hno', hc.1.2, endsLC_noLC _ hno']; rfl

/-- a replacement that holds no comment and starts with a line break is safe in every context -/
theorem celSafe_of_noLC_startsCr (l new : List Tok) (hnew : ∀ t ∈ new, isLC t = false) (hne : new ≠ [])
    (hs : startsCr new = true) : CelSafe l new := by
  intro pre post hc
  have hpre : commentEndsLine pre = true := by
    rw [List.append_assoc, cel_append] at hc; simp only [Bool.and_eq_true] at hc; exact hc.1.1
  have hpost : commentEndsLine post = true := by
    rw [cel_append] at hc; simp only [Bool.and_eq_true] at hc; exact hc.1.2
  rw [List.append_assoc, cel_append, cel_append new post, hpre, cel_noLC new hnew, hpost, endsLC_noLC new hnew,
    startsCr_append_ne new post hne, hs]
  simp

theorem mem_addNewLineRemoveCr (c : Cls) (l new : List Tok) (h : addNewLineRemoveCr c l = .ok new) :
    (∃ X, new = wsToSingle (mkCr c :: LineStruct.mkWs c :: X) ∧ LayoutOnly l X ∧ ∀ t ∈ X, t ∈ l) := by
  unfold addNewLineRemoveCr at h
  cases hX : removeLeadingWs (removeCr l) with
  | nil => simp [hX, LineStruct.insertWs, insertToken, bind, Except.bind] at h
  | cons t r =>
    simp only [hX, LineStruct.insertWs, insertCr, insertToken_zero_cons, bind, Except.bind] at h
    refine ⟨t :: r, (Except.ok.inj h).symm, ?_, ?_⟩
    · rw [← hX]; exact LayoutOnly.trans' (removeCr_layoutOnly l) (removeLeadingWs_layoutOnly _)
    · intro x hx
      rw [← hX] at hx
      exact (mem_removeCr l x (mem_removeLeadingWs _ x hx)).1

/-- `fix.add_new_line_and_remove_carraige_returns`: layout-only; safe in every context when the region
    holds no `--` comment (every line break of the region goes) -/
theorem addNewLineRemoveCr_spec (c : Cls) (l new : List Tok) (h : addNewLineRemoveCr c l = .ok new) :
    LayoutOnly l new ∧ ((∀ t ∈ l, isLC t = false) → CelSafe l new) := by
  obtain ⟨X, hn, hL, hmem⟩ := mem_addNewLineRemoveCr c l new h
  constructor
  · rw [hn]
    refine LayoutOnly.trans' hL (LayoutOnly.trans' ?_ (wsToSingle_layoutOnly _))
    have := layoutOnly_insert [] [mkCr c, LineStruct.mkWs c] X (by intro x hx; simp at hx; rcases hx with rfl | rfl <;> rfl)
    simpa using this
  · intro hno
    apply celSafe_of_noLC_startsCr
    · intro t ht
      rw [hn] at ht
      obtain ⟨s, hs, hk⟩ := mem_wsToSingle _ t ht
      rw [← isLC_kind hk]
      simp only [List.mem_cons] at hs
      rcases hs with rfl | rfl | hs
      · rfl
      · rfl
      · exact hno s (hmem s hs)
    · rw [hn]; simp [wsToSingle]
    · rw [hn]; simp [wsToSingle, startsCr, isWs, mkCr, isCr]

/-- which of its branches `fix.fix_violation` takes -/
inductive NLKind where
  | add | remove | addRemoveCr | noop
  deriving DecidableEq, Repr

def nlKind (act : Val) : NLKind :=
  if valIs act "add_new_line" then .add
  else if valIs act "remove_new_line" then .remove
  else if valIs act "add_new_line_and_remove_carraige_returns" then .addRemoveCr
  else .noop

theorem fixNL_cases (c : Cls) (action : KV) (l new : List Tok) (h : fixNL c action l = .ok new) :
    ∃ act, dget action "action" = .ok act ∧
      (match nlKind act with
       | .add => addNewLine c l = .ok new
       | .remove => removeNewLine l = .ok new
       | .addRemoveCr => addNewLineRemoveCr c l = .ok new
       | .noop => new = l) := by
  unfold fixNL at h
  cases ha : dget action "action" with
  | error e => simp [ha, bind, Except.bind] at h
  | ok act =>
    simp only [ha, bind, Except.bind] at h
    refine ⟨act, rfl, ?_⟩
    unfold nlKind
    by_cases h1 : valIs act "add_new_line" = true
    · simp only [h1, if_true] at h ⊢; exact h
    · by_cases h2 : valIs act "remove_new_line" = true
      · simp only [h1, h2, if_true, if_false] at h ⊢; exact h
      · by_cases h3 : valIs act "add_new_line_and_remove_carraige_returns" = true
        · simp only [h1, h2, h3, if_true, if_false] at h ⊢; exact h
        · simp only [h1, h2, h3, if_false] at h ⊢; exact (Except.ok.inj h).symm

/-- **fix.py, every action**: the code sequence is kept -/
theorem fixNL_codeSeq (fold : Str → Str) (c : Cls) (action : KV) (l new : List Tok) (h : fixNL c action l = .ok new) :
    codeSeq fold new = codeSeq fold l := by
  obtain ⟨act, _, hk⟩ := fixNL_cases c action l new h
  cases hkk : nlKind act <;> simp only [hkk] at hk
  · exact ((addNewLine_spec c l new hk).1.codeSeq fold).symm
  · exact removeNewLine_codeSeq fold l new hk
  · exact ((addNewLineRemoveCr_spec c l new hk).1.codeSeq fold).symm
  · rw [hk]

/-- **fix.py, every action**: layout-only when the region holds no preprocessor token -/
theorem fixNL_layoutOnly (c : Cls) (action : KV) (l new : List Tok) (h : fixNL c action l = .ok new)
    (hp : ∀ t ∈ l, t.kind ≠ .preproc) : LayoutOnly l new := by
  obtain ⟨act, _, hk⟩ := fixNL_cases c action l new h
  cases hkk : nlKind act <;> simp only [hkk] at hk
  · exact (addNewLine_spec c l new hk).1
  · exact removeNewLine_layoutOnly l new hk hp
  · exact (addNewLineRemoveCr_spec c l new hk).1
  · rw [hk]; exact LayoutOnly.rfl' _

/-- **fix.py, every action**: comments stay at their line ends in every context when the region holds
    no `--` comment and does not start with a line break; action `add_new_line` needs neither -/
theorem fixNL_celSafe (c : Cls) (action : KV) (l new : List Tok) (h : fixNL c action l = .ok new) :
    (∀ act, dget action "action" = .ok act → nlKind act = .add → CelSafe l new) ∧
    (startsCr l = false → (∀ t ∈ l, isLC t = false) → CelSafe l new) := by
  obtain ⟨act, ha, hk⟩ := fixNL_cases c action l new h
  constructor
  · intro act' ha' hadd
    rw [ha] at ha'
    cases ha'
    simp only [hadd] at hk
    exact (addNewLine_spec c l new hk).2
  · intro hs hno
    cases hkk : nlKind act <;> simp only [hkk] at hk
    · exact (addNewLine_spec c l new hk).2
    · exact removeNewLine_celSafe l new hk hs hno
    · exact (addNewLineRemoveCr_spec c l new hk).2 hno
    · rw [hk]; exact CelSafe.refl' _

/-! ## multiline_structure.py / multiline_simple_structure.py: which branch runs, and its effect -/

/-- what one fix function of multiline_structure.py does for one action string -/
inductive MSKind where
  | insert        -- a line break (and its blank) is inserted
  | collapse      -- `[first, last]` / `[first, blank, last]`: everything between goes
  | moveComment   -- insert_and_move_comment
  | join          -- `_fix_assign_on_single_line`: line breaks and comments go
  | noop          -- an action string the function does not test for
  deriving DecidableEq, Repr

def msKind (f : MSFn) (act : Val) (l : List Tok) : MSKind :=
  match f with
  | .assign => if valIs act "remove" then .join else .noop
  | .lastParen =>
    if valIs act "insert" then .insert else if valIs act "remove" then (if keepGuard l then .noop else .collapse)
    else if valIs act "insert_and_move_comment" then .moveComment else .noop
  | _ => if valIs act "insert" then .insert else if valIs act "remove" then (if keepGuard l then .noop else .collapse) else .noop

/-- the effect of each branch -/
def MSEffect (c : Cls) (k : MSKind) (l new : List Tok) : Prop :=
  match k with
  | .insert => LayoutOnly l new ∧ CelSafe l new
  | .collapse => ∃ a b ins, pyGet l 0 = .ok a ∧ pyGet l (-1) = .ok b ∧ (ins = [] ∨ ins = [LineStruct.mkWs c]) ∧
      new = a :: ins ++ [b]
  | .moveComment => ∃ t0 M D, LayoutOnly l (t0 :: M ++ D) ∧ new = t0 :: D ++ mkCr c :: M
  | .join => new = joinAssign l
  | .noop => new = l

theorem firstLast_effect (c : Cls) (l new : List Tok) (h : firstLast l = .ok new) : MSEffect c .collapse l new := by
  obtain ⟨a, b, h0, h1, hn⟩ := firstLast_eq l new h
  exact ⟨a, b, [], h0, h1, Or.inl rfl, by simpa using hn⟩

theorem firstWsLast_effect (c : Cls) (l new : List Tok) (h : firstWsLast c l = .ok new) : MSEffect c .collapse l new := by
  obtain ⟨a, b, h0, h1, hn⟩ := firstWsLast_eq c l new h
  exact ⟨a, b, [LineStruct.mkWs c], h0, h1, Or.inr rfl, by simpa using hn⟩

/-- **multiline_structure, every fix function and every action string** -/
theorem fixMSFn_effect (c : Cls) (isa : Nat → Nat → Bool) (f : MSFn) (act : Val) (semi : Option Nat)
    (l new : List Tok) (h : fixMSFn c isa f act semi l = .ok new) : MSEffect c (msKind f act l) l new := by
  unfold fixMSFn at h
  unfold msKind
  cases f <;> simp only at h ⊢
  · -- firstParen
    by_cases h1 : valIs act "insert" = true
    · simp only [h1, if_true] at h ⊢; exact breakBefore_spec c l new h
    · by_cases h2 : valIs act "remove" = true
      · by_cases hg : keepGuard l = true
        · simp only [h1, h2, hg, if_true] at h ⊢; exact (Except.ok.inj h).symm
        · simp only [h1, h2, hg, if_true] at h ⊢; exact firstWsLast_effect c l new h
      · simp only [h1, h2] at h ⊢; exact (Except.ok.inj h).symm
  · -- lastParen
    by_cases h1 : valIs act "insert" = true
    · simp only [h1, if_true] at h ⊢; exact breakAfterFirst_spec c l new h
    · by_cases h2 : valIs act "remove" = true
      · by_cases hg : keepGuard l = true
        · simp only [h1, h2, hg, if_true] at h ⊢; exact (Except.ok.inj h).symm
        · simp only [h1, h2, hg, if_true] at h ⊢; exact firstLast_effect c l new h
      · by_cases h3 : valIs act "insert_and_move_comment" = true
        · simp only [h1, h2, h3, if_true] at h ⊢; exact moveComment_eq c isa semi l new h
        · simp only [h1, h2, h3] at h ⊢; exact (Except.ok.inj h).symm
  · -- openParen
    by_cases h1 : valIs act "insert" = true
    · simp only [h1, if_true] at h ⊢; exact breakAtEnd_spec c l new h
    · by_cases h2 : valIs act "remove" = true
      · by_cases hg : keepGuard l = true
        · simp only [h1, h2, hg, if_true] at h ⊢; exact (Except.ok.inj h).symm
        · simp only [h1, h2, hg, if_true] at h ⊢; exact firstLast_effect c l new h
      · simp only [h1, h2] at h ⊢; exact (Except.ok.inj h).symm
  · -- closeParen
    by_cases h1 : valIs act "insert" = true
    · simp only [h1, if_true] at h ⊢; exact breakAfterFirst_spec c l new h
    · by_cases h2 : valIs act "remove" = true
      · by_cases hg : keepGuard l = true
        · simp only [h1, h2, hg, if_true] at h ⊢; exact (Except.ok.inj h).symm
        · simp only [h1, h2, hg, if_true] at h ⊢; exact firstLast_effect c l new h
      · simp only [h1, h2] at h ⊢; exact (Except.ok.inj h).symm
  · -- comma
    by_cases h1 : valIs act "insert" = true
    · simp only [h1, if_true] at h ⊢; exact breakAfterComma_spec c l new h
    · by_cases h2 : valIs act "remove" = true
      · by_cases hg : keepGuard l = true
        · simp only [h1, h2, hg, if_true] at h ⊢; exact (Except.ok.inj h).symm
        · simp only [h1, h2, hg, if_true] at h ⊢; exact firstWsLast_effect c l new h
      · simp only [h1, h2] at h ⊢; exact (Except.ok.inj h).symm
  · -- assign
    by_cases h1 : valIs act "remove" = true
    · simp only [h1, if_true] at h ⊢; exact (Except.ok.inj h).symm
    · simp only [h1] at h ⊢; exact (Except.ok.inj h).symm

theorem fixMS_effect (c : Cls) (isa : Nat → Nat → Bool) (action : KV) (l new : List Tok)
    (h : fixMS c isa action l = .ok new) :
    ∃ ty f act, dget action "type" = .ok ty ∧ msFnOf ty = .ok f ∧ dget action "action" = .ok act ∧
      MSEffect c (msKind f act l) l new := by
  unfold fixMS at h
  cases h1 : dget action "type" with
  | error e => simp [h1, bind, Except.bind] at h
  | ok ty =>
    cases h2 : msFnOf ty with
    | error e => simp [h1, h2, bind, Except.bind] at h
    | ok f =>
      cases h3 : dget action "action" with
      | error e => simp [h1, h2, h3, bind, Except.bind] at h
      | ok act =>
        simp only [h1, h2, h3, bind, Except.bind] at h
        exact ⟨ty, f, act, rfl, h2, rfl, fixMSFn_effect c isa f act (semiOf action) l new h⟩

/-- multiline_simple_structure: the same two branches as `_fix_first_paren_new_line` -/
def simpleKind (ty act : Val) : MSKind :=
  if valIs ty "new_line_after_assign" then
    (if valIs act "insert" then .insert else if valIs act "remove" then .collapse else .noop)
  else .noop

theorem fixSimple_effect (c : Cls) (action : KV) (l new : List Tok) (h : fixSimple c action l = .ok new) :
    ∃ ty, dget action "type" = .ok ty ∧
      ((valIs ty "new_line_after_assign" = false ∧ new = l) ∨
       (valIs ty "new_line_after_assign" = true ∧ ∃ act, dget action "action" = .ok act ∧
          MSEffect c (simpleKind ty act) l new)) := by
  unfold fixSimple at h
  cases h1 : dget action "type" with
  | error e => simp [h1, bind, Except.bind] at h
  | ok ty =>
    simp only [h1, bind, Except.bind] at h
    refine ⟨ty, rfl, ?_⟩
    by_cases ht : valIs ty "new_line_after_assign" = true
    · right
      simp only [ht, if_true] at h
      cases h3 : dget action "action" with
      | error e => simp [h3] at h
      | ok act =>
        simp only [h3] at h
        refine ⟨ht, act, rfl, ?_⟩
        unfold simpleKind
        simp only [ht, if_true]
        by_cases a1 : valIs act "insert" = true
        · simp only [a1, if_true] at h ⊢; exact breakBefore_spec c l new h
        · by_cases a2 : valIs act "remove" = true
          · simp only [a1, a2, if_true] at h ⊢; exact firstWsLast_effect c l new h
          · simp only [a1, a2] at h ⊢; exact (Except.ok.inj h).symm
    · left
      have ht' : valIs ty "new_line_after_assign" = false := by simpa using ht
      simp only [ht'] at h
      exact ⟨ht', (Except.ok.inj h).symm⟩

/-! ### consequences of `MSEffect` -/

theorem collapse_codeSeq_iff (fold : Str → Str) (c : Cls) (l new : List Tok) (h : MSEffect c .collapse l new)
    (hlen : 2 ≤ l.length) : codeSeq fold new = codeSeq fold l ↔ codeSeq fold (middle l) = [] := by
  obtain ⟨a, b, ins, h0, h1, hins, rfl⟩ := h
  have hl := first_mid_last l a b h0 h1 hlen
  have hi : codeSeq fold ins = [] := by
    rcases hins with rfl | rfl
    · rfl
    · simp [codeSeq, codeOf, Tok.isCode, LineStruct.mkWs]
  have e1 : codeSeq fold (a :: ins ++ [b]) = codeSeq fold [a] ++ codeSeq fold [b] := by
    have : a :: ins ++ [b] = [a] ++ ins ++ [b] := by simp
    rw [this, codeSeq_append, codeSeq_append, hi, List.append_nil]
  have e2 : codeSeq fold l = codeSeq fold [a] ++ codeSeq fold (middle l) ++ codeSeq fold [b] := by
    conv => lhs; rw [hl]
    have : a :: (l.drop 1).dropLast ++ [b] = [a] ++ middle l ++ [b] := by simp [middle]
    rw [this, codeSeq_append, codeSeq_append]
  rw [e1, e2]
  constructor
  · intro h
    have := congrArg List.length h
    simp only [List.length_append] at this
    exact List.eq_nil_of_length_eq_zero (by omega)
  · intro h; rw [h, List.append_nil]

theorem collapse_commentSeq_iff (c : Cls) (l new : List Tok) (h : MSEffect c .collapse l new)
    (hlen : 2 ≤ l.length) : commentSeq new = commentSeq l ↔ commentSeq (middle l) = [] := by
  obtain ⟨a, b, ins, h0, h1, hins, rfl⟩ := h
  have hl := first_mid_last l a b h0 h1 hlen
  have hi : commentSeq ins = [] := by
    rcases hins with rfl | rfl
    · rfl
    · simp [commentSeq, Tok.isCommentLike, Kind.isCommentLike, LineStruct.mkWs]
  have e1 : commentSeq (a :: ins ++ [b]) = commentSeq [a] ++ commentSeq [b] := by
    have : a :: ins ++ [b] = [a] ++ ins ++ [b] := by simp
    rw [this, commentSeq_append, commentSeq_append, hi, List.append_nil]
  have e2 : commentSeq l = commentSeq [a] ++ commentSeq (middle l) ++ commentSeq [b] := by
    conv => lhs; rw [hl]
    have : a :: (l.drop 1).dropLast ++ [b] = [a] ++ middle l ++ [b] := by simp [middle]
    rw [this, commentSeq_append, commentSeq_append]
  rw [e1, e2]
  constructor
  · intro h
    have := congrArg List.length h
    simp only [List.length_append] at this
    exact List.eq_nil_of_length_eq_zero (by omega)
  · intro h; rw [h, List.append_nil]

theorem collapse_layoutOnly (c : Cls) (l new : List Tok) (h : MSEffect c .collapse l new) (hlen : 2 ≤ l.length) :
    LayoutOnly l new ↔ ∀ t ∈ middle l, t.isLayout = true := by
  obtain ⟨a, b, ins, h0, h1, hins, rfl⟩ := h
  apply collapse_layoutOnly_iff l a b ins _ h0 h1 hlen
  rcases hins with rfl | rfl
  · intro t ht; cases ht
  · intro t ht; simp at ht; subst ht; rfl

theorem collapse_celSafe' (c : Cls) (l new : List Tok) (h : MSEffect c .collapse l new) (hlen : 2 ≤ l.length)
    (ha : endsLC (l.take 1) = false) : CelSafe l new := by
  obtain ⟨a, b, ins, h0, h1, hins, rfl⟩ := h
  apply collapse_celSafe l a b ins _ h0 h1 hlen
  · obtain ⟨r, rfl⟩ := pyGet_zero l a h0
    simpa [endsLC] using ha
  · rcases hins with rfl | rfl
    · intro t ht; cases ht
    · intro t ht; simp at ht; subst ht; rfl

/-- a region of ONE token: `[lTokens[0], lTokens[-1]]` doubles it -/
theorem collapse_single (c : Cls) (a : Tok) (new : List Tok) (h : MSEffect c .collapse [a] new) :
    new = [a, a] ∨ new = [a, LineStruct.mkWs c, a] := by
  obtain ⟨a', b, ins, h0, h1, hins, rfl⟩ := h
  have e0 : a' = a := by simp [pyGet, pyIdx] at h0; exact h0.symm
  have e1 : b = a := by simp [pyGet, pyIdx] at h1; exact h1.symm
  subst e0; subst e1
  rcases hins with rfl | rfl <;> simp

/-! ## the single rules -/

/-! ### comment_011: the line is rotated -/

theorem fixComment011_eq (c : Cls) (action : KV) (l new : List Tok) (h : fixComment011 c action l = .ok new) :
    ∃ v b, dget action "iToken" = .ok v ∧ asBound v = .ok b ∧ new = sliceFrom l b ++ [mkCr c] ++ sliceTo l b := by
  unfold fixComment011 at h
  cases h1 : dget action "iToken" with
  | error e => simp [h1, bind, Except.bind] at h
  | ok v =>
    cases h2 : asBound v with
    | error e => simp [h1, h2, bind, Except.bind] at h
    | ok b =>
      simp only [h1, h2, bind, Except.bind] at h
      exact ⟨v, b, rfl, h2, (Except.ok.inj h).symm⟩

/-- exact condition for a layout-blind projection to survive the rotation at cut point `k`: the images
    of the two parts commute -/
theorem rotate_proj {β : Type} (π : List Tok → List β) (hπ : Blind π) (c : Cls) (l : List Tok) (k : Nat) :
    π (l.drop k ++ [mkCr c] ++ l.take k) = π l ↔ π (l.drop k) ++ π (l.take k) = π (l.take k) ++ π (l.drop k) := by
  conv => lhs; rhs; rw [← List.take_append_drop k l]
  rw [hπ.hom, hπ.hom, hπ.hom, hπ.layout _ (mkCr_layout c), List.append_nil]

/-- context form for the rotation: safe when the part that moves behind (`T` = the tokens in front of
    the cut) does not start with a line break and does not end in a comment -/
theorem rotate_celSafe (c : Cls) (l : List Tok) (k : Nat)
    (h1 : l.take k = [] ∨ startsCr (l.take k) = false) (h2 : endsLC (l.take k) = false) :
    CelSafe l (l.drop k ++ [mkCr c] ++ l.take k) := by
  intro pre post hc
  rw [← List.take_append_drop k l] at hc
  generalize l.take k = T at *
  generalize l.drop k = D at *
  have hcr : isLC (mkCr c) = false := rfl
  -- facts from the old list  pre ++ T ++ D ++ post
  have e0 : pre ++ (T ++ D) ++ post = pre ++ (T ++ (D ++ post)) := by simp [List.append_assoc]
  rw [e0, cel_append, cel_append T, cel_append D] at hc
  simp only [Bool.and_eq_true, Bool.or_eq_true, Bool.not_eq_true'] at hc
  obtain ⟨⟨hpre, ⟨⟨hT, ⟨⟨hD, hpost⟩, hDp⟩⟩, hTD⟩⟩, hpT⟩ := hc
  have e1 : pre ++ (D ++ [mkCr c] ++ T) ++ post = pre ++ (D ++ (mkCr c :: (T ++ post))) := by simp [List.append_assoc]
  rw [e1, cel_append, cel_append D, cel_cons_nonLC hcr, cel_append T, hpre, hD, hT, hpost, h2]
  have hA : startsCr (mkCr c :: (T ++ post)) = true := rfl
  rw [hA]
  simp only [Bool.and_true, Bool.true_and, Bool.not_false, Bool.true_or, Bool.or_true, Bool.or_eq_true,
    Bool.not_eq_true']
  -- what is left: the token in front of the region is no comment, unless the moved part starts with a line break
  rcases h1 with hT0 | hT0
  · subst hT0
    simp only [List.nil_append] at hpT
    by_cases hD0 : D = []
    · subst hD0; right; rfl
    · rw [startsCr_append_ne D _ hD0] at hpT ⊢
      exact hpT
  · have hTne : T ≠ [] := by intro e; rw [e] at hT0; cases hT0
    rw [startsCr_append_ne T _ hTne, hT0] at hpT
    left
    rcases hpT with h | h
    · exact h
    · cases h

/-! ### conditional_waveforms_001 -/

theorem fixCondWave_spec (c : Cls) (l new : List Tok) (h : fixCondWave c l = .ok new) :
    LayoutOnly l new ∧ CelSafe l new := by
  unfold fixCondWave at h
  have hn := (Except.ok.inj h).symm
  subst hn
  have h1 := layoutOnly_insert l [mkCr c] [] (by intro t ht; simp at ht; subst ht; rfl)
  have h2 := celSafe_insert_cr l [mkCr c] [] (by intro t ht; simp at ht; subst ht; rfl) rfl
  simpa using And.intro h1 h2

/-! ### when_001 -/

/-- closed form: with `old = m ++ [x]` or `old = m ++ [x, w]` (`w` a trailing blank), the result is
    `[blank, x] ++ m` -/
theorem fixWhen001_eq (c : Cls) (l new : List Tok) (h : fixWhen001 c l = .ok new) :
    ∃ m x tail, l = m ++ [x] ++ tail ∧ (∀ t ∈ tail, isWs t = true) ∧ m ≠ [] ∧ new = LineStruct.mkWs c :: x :: m := by
  unfold fixWhen001 at h
  cases h0 : pyGet l (-1) with
  | error e => simp [h0, bind, Except.bind] at h
  | ok tl =>
    simp only [h0, bind, Except.bind] at h
    have hl := pyGet_last l tl h0
    cases hp : pyPop (if isWs tl = true then l.dropLast else l) (-1) with
    | error e => simp [hp] at h
    | ok xr =>
      obtain ⟨x, l2⟩ := xr
      simp only [hp] at h
      obtain ⟨hl1, _⟩ := pyPop_last _ x l2 hp
      cases l2 with
      | nil => simp [insertToken] at h
      | cons y r =>
        simp only [insertToken_zero_cons, LineStruct.insertWs] at h
        have hn := (Except.ok.inj h).symm
        by_cases hw : isWs tl = true
        · simp only [hw, if_true] at hl1
          refine ⟨y :: r, x, [tl], ?_, ?_, by simp, hn⟩
          · rw [← hl1]; exact hl
          · intro t ht; simp at ht; subst ht; exact hw
        · simp only [hw, if_false] at hl1
          exact ⟨y :: r, x, [], by simpa using hl1, by simp, by simp, hn⟩

/-- exact condition for a layout-blind projection: the moved token commutes with what it jumps over -/
theorem when001_proj {β : Type} (π : List Tok → List β) (hπ : Blind π) (c : Cls) (m : List Tok) (x : Tok)
    (tail : List Tok) (ht : ∀ t ∈ tail, isWs t = true) :
    π (LineStruct.mkWs c :: x :: m) = π (m ++ [x] ++ tail) ↔ π [x] ++ π m = π m ++ π [x] := by
  have htl : π tail = [] := by
    induction tail with
    | nil => exact hπ.nil
    | cons t r ih =>
      rw [hπ.cons, hπ.layout t (isWs_layout (ht t (List.mem_cons_self ..))), ih (fun s hs => ht s (List.mem_cons_of_mem _ hs))]
      rfl
  rw [hπ.cons, hπ.layout _ (mkWs_layout c), List.nil_append, hπ.cons x m, hπ.hom, hπ.hom, htl, List.append_nil]

/-- context form: in a region that does not start with a line break the move is safe when the moved
    token is neither a comment nor a line break -/
theorem when001_celSafe (c : Cls) (m : List Tok) (x : Tok) (tail : List Tok) (ht : ∀ t ∈ tail, isWs t = true)
    (hm : m ≠ []) (hs : startsCr m = false) (hx : isLC x = false) (hxc : isCr x = false) :
    CelSafe (m ++ [x] ++ tail) (LineStruct.mkWs c :: x :: m) := by
  have hs' : startsCr (m ++ [x] ++ tail) = false := by
    rw [List.append_assoc, startsCr_append_ne m _ hm]; exact hs
  apply celSafe_of_right _ _ hs'
  intro post hc
  have htno : ∀ t ∈ tail, isLC t = false := fun t h => isWs_nonLC (ht t h)
  have e0 : m ++ [x] ++ tail ++ post = m ++ (x :: (tail ++ post)) := by simp [List.append_assoc]
  rw [e0, cel_append] at hc
  simp only [Bool.and_eq_true, Bool.or_eq_true, Bool.not_eq_true'] at hc
  obtain ⟨⟨hcm, hcx⟩, hmx⟩ := hc
  have hme : endsLC m = false := by
    rcases hmx with h | h
    · exact h
    · simp only [startsCr] at h; rw [hxc] at h; cases h
  have hpost : commentEndsLine post = true := by
    rw [cel_cons_nonLC hx, cel_append] at hcx
    simp only [Bool.and_eq_true] at hcx
    exact hcx.1.2
  have e1 : LineStruct.mkWs c :: x :: m ++ post = LineStruct.mkWs c :: x :: (m ++ post) := by simp
  rw [e1, cel_cons_nonLC (mkWs_nonLC c), cel_cons_nonLC hx, cel_append, hcm, hpost, hme]
  rfl

/-! ### instantiation_005 -/

theorem fixInst005_add_spec (c : Cls) (action : KV) (l new : List Tok) (h : fixInst005 c action l = .ok new)
    (ha : action.get "_str" = some (.str "add".toList)) : LayoutOnly l new ∧ CelSafe l new := by
  unfold fixInst005 at h
  simp only [ha, if_true] at h
  cases h0 : pyGet l (-1) with
  | error e => simp [h0, bind, Except.bind] at h
  | ok tl =>
    simp only [h0, bind, Except.bind] at h
    by_cases hw : isWs tl = true
    · simp only [hw, if_true] at h
      exact insertCr_spec c l new (-1) h
    · simp only [hw, if_false] at h
      unfold insertEnd at h
      cases l with
      | nil => simp at h
      | cons t r =>
        simp at h
        have hn : new = (t :: r) ++ [mkCr c, LineStruct.mkWs c] := by simp [← h]
        subst hn
        have h1 := layoutOnly_insert (t :: r) [mkCr c, LineStruct.mkWs c] [] (by intro t ht; simp at ht; rcases ht with rfl | rfl <;> rfl)
        have h2 := celSafe_insert_cr (t :: r) [mkCr c, LineStruct.mkWs c] [] (by intro t ht; simp at ht; rcases ht with rfl | rfl <;> rfl) rfl
        simp only [List.append_nil] at h1 h2
        exact ⟨h1, h2⟩

/-- "remove": only the first token survives, followed by one blank -/
theorem fixInst005_remove_eq (c : Cls) (action : KV) (l new : List Tok) (h : fixInst005 c action l = .ok new)
    (ha : action.get "_str" = some (.str "remove".toList)) : ∃ t r, l = t :: r ∧ new = [t, LineStruct.mkWs c] := by
  unfold fixInst005 at h
  have hne : ("remove".toList == "add".toList) = false := by decide
  simp only [ha, hne, Bool.false_eq_true, if_false, if_true] at h
  cases h0 : pyGet l 0 with
  | error e => simp [h0, bind, Except.bind] at h
  | ok t0 =>
    obtain ⟨r, rfl⟩ := pyGet_zero l t0 h0
    simp [h0, bind, Except.bind, insertEnd] at h
    exact ⟨t0, r, rfl, h.symm⟩

/-- any other action object: nothing happens -/
theorem fixInst005_other (c : Cls) (action : KV) (l new : List Tok) (h : fixInst005 c action l = .ok new)
    (h1 : action.get "_str" ≠ some (.str "add".toList)) (h2 : action.get "_str" ≠ some (.str "remove".toList)) :
    new = l := by
  unfold fixInst005 at h
  split at h
  · rename_i s hs
    by_cases e1 : (s == "add".toList) = true
    · have : s = "add".toList := by simpa using e1
      subst this; exact absurd hs h1
    · by_cases e2 : (s == "remove".toList) = true
      · have : s = "remove".toList := by simpa using e2
        subst this; exact absurd hs h2
      · simp only [e1, e2, if_false] at h
        exact (Except.ok.inj h).symm
  · exact (Except.ok.inj h).symm

/-! ### the alignment fixers: concurrent_008, after_002, signal_012, library_009, process_028 -/

theorem mkWsStr_layout (c : Cls) (s : Str) : (mkWsStr c s).isLayout = true := rfl

/-- `lTokens[i].set_value(v)` changes nothing but layout exactly when the token at `i` is a layout
    token (or the value stays the same) -/
theorem pySet_val_layoutOnly (l r : List Tok) (i : Int) (t : Tok) (v : Str) (hg : pyGet l i = .ok t)
    (hs : pySet l i { t with val := v } = .ok r) (hl : t.isLayout = true) : LayoutOnly l r := by
  obtain ⟨k, hk, hx⟩ := pyGet_some l i t hg
  obtain ⟨k', hk', hr⟩ := pySet_eq _ _ _ _ hs
  rw [hk] at hk'; cases hk'
  subst hr
  unfold LayoutOnly
  exact (nonLayout_set_layout l k t { t with val := v } hx hl hl).symm

/-- concurrent_008 / after_002, every token index and every adjust: layout-only -/
theorem fixAlignComment_layoutOnly (c : Cls) (b : Bool) (action : KV) (l new : List Tok)
    (h : fixAlignComment c b action l = .ok new) : LayoutOnly l new := by
  unfold fixAlignComment at h
  cases h1 : dgetInt action "token_index" with
  | error e => simp [h1, bind, Except.bind] at h
  | ok ti =>
    simp only [h1, bind, Except.bind] at h
    cases h2 : pyGet l (ti - 1) with
    | error e => simp [h2] at h
    | ok prev =>
      simp only [h2] at h
      by_cases hw : isWs prev = true
      · simp only [hw, if_true] at h
        cases h3 : dgetInt action "adjust" with
        | error e => simp [h3, bind, Except.bind] at h
        | ok adj =>
          simp only [h3, bind, Except.bind] at h
          exact pySet_val_layoutOnly l new (ti - 1) prev _ h2 h (isWs_layout hw)
      · simp only [hw, if_false] at h
        cases b with
        | true =>
          simp only [if_true] at h
          cases h3 : dgetInt action "adjust" with
          | error e => simp [h3, bind, Except.bind] at h
          | ok adj =>
            simp only [h3, bind, Except.bind] at h
            exact insertLayout_layoutOnly l new ti _ (mkWsStr_layout c _) h
        | false =>
          simp only [Bool.false_eq_true, if_false] at h
          exact insertLayout_layoutOnly l new ti _ (mkWs_layout c) h

/-- signal_012: layout-only when the region has exactly two tokens or its second token is a layout
    token -/
theorem fixSignal012_layoutOnly (c : Cls) (action : KV) (l new : List Tok) (h : fixSignal012 c action l = .ok new)
    (hg : l.length = 2 ∨ ∃ t, pyGet l 1 = .ok t ∧ t.isLayout = true) : LayoutOnly l new := by
  unfold fixSignal012 at h
  by_cases h2 : (l.length == 2) = true
  · simp only [h2, if_true] at h
    exact insertLayout_layoutOnly l new 1 _ (mkWs_layout c) h
  · simp only [h2, if_false] at h
    rcases hg with hg | ⟨t, ht, hl⟩
    · simp [hg] at h2
    · simp only [ht, bind, Except.bind] at h
      cases h3 : dgetInt action "adjust" with
      | error e => simp [h3, bind, Except.bind] at h
      | ok adj =>
        simp only [h3, bind, Except.bind] at h
        exact pySet_val_layoutOnly l new 1 t _ ht h hl

/-- library_009 (`k = 0`) / process_028 (`k = -2`): action "insert" is layout-only; any other action
    string rewrites the value of the token at `k`, layout-only when that is a layout token -/
theorem fixSetWs_layoutOnly (c : Cls) (k : Int) (action : KV) (l new : List Tok) (h : fixSetWs c k action l = .ok new) :
    (∀ a, dget action "action" = .ok a → valIs a "insert" = true → LayoutOnly l new) ∧
    ((∃ t, pyGet l k = .ok t ∧ t.isLayout = true) → LayoutOnly l new) := by
  unfold fixSetWs at h
  cases h1 : dget action "action" with
  | error e => simp [h1, bind, Except.bind] at h
  | ok a =>
    simp only [h1, bind, Except.bind] at h
    by_cases hi : valIs a "insert" = true
    · simp only [hi, if_true] at h
      cases h3 : dgetStr action "whitespace" with
      | error e => simp [h3, bind, Except.bind] at h
      | ok w =>
        simp only [h3, bind, Except.bind] at h
        have := insertLayout_layoutOnly l new _ _ (mkWsStr_layout c w) h
        exact ⟨fun _ _ _ => this, fun _ => this⟩
    · simp only [hi, if_false] at h
      constructor
      · intro a' ha' hins
        cases ha'
        exact absurd hins hi
      · rintro ⟨t, ht, hl⟩
        simp only [ht] at h
        cases h3 : dgetStr action "whitespace" with
        | error e => simp [h3, bind, Except.bind] at h
        | ok w =>
          simp only [h3, bind, Except.bind] at h
          exact pySet_val_layoutOnly l new k t _ ht h hl

/-! ### process_021 -/

/-- every blank_line token is directly followed by a carriage return -/
def blankThenCr : List Tok → Bool
  | [] => true
  | [t] => !isBlank t
  | t :: u :: r => (!isBlank t || isCr u) && blankThenCr (u :: r)

theorem isBlank_layout {t : Tok} (h : isBlank t = true) : t.isLayout = true := by
  unfold isBlank at h; unfold Tok.isLayout Kind.isLayout
  have : t.kind = .blank := by simpa using h
  simp [this]

/-- style no_blank_line, on a region whose blank_line tokens are each followed by their line break:
    exactly those pairs go -/
theorem dropBlankAndNext_layoutOnly (l new : List Tok) (h : dropBlankAndNext l = .ok new) (hg : blankThenCr l = true) :
    LayoutOnly l new ∧ (∀ t u r, l = t :: u :: r → isBlank t = false → new.head? = some t) := by
  induction l generalizing new with
  | nil =>
    simp [dropBlankAndNext] at h; subst h
    exact ⟨LayoutOnly.rfl' _, by intro t u r e; cases e⟩
  | cons t r ih =>
    unfold dropBlankAndNext at h
    cases hr : dropBlankAndNext r with
    | error e => simp [hr] at h
    | ok acc =>
      simp only [hr] at h
      cases r with
      | nil =>
        simp [dropBlankAndNext] at hr; subst hr
        simp only [blankThenCr, Bool.not_eq_true'] at hg
        simp only [hg, Bool.false_eq_true, if_false] at h
        cases h
        exact ⟨LayoutOnly.rfl' _, by intro t' u r' e; cases e⟩
      | cons u r' =>
        simp only [blankThenCr, Bool.and_eq_true, Bool.or_eq_true, Bool.not_eq_true'] at hg
        obtain ⟨ihL, ihH⟩ := ih acc hr hg.2
        by_cases hb : isBlank t = true
        · simp only [hb, if_true] at h
          have hu : isCr u = true := by
            rcases hg.1 with h' | h'
            · rw [hb] at h'; cases h'
            · exact h'
          have hub : isBlank u = false := by
            unfold isCr at hu; unfold isBlank
            have : u.kind = .cr := by simpa using hu
            simp [this]
          -- the accumulator starts with `u`
          have hhead : acc.head? = some u := by
            cases r' with
            | nil =>
              simp [dropBlankAndNext, hub] at hr
              subst hr; rfl
            | cons v r'' => exact ihH u v r'' rfl hub
          cases acc with
          | nil => simp at hhead
          | cons a acc' =>
            simp only [List.head?_cons, Option.some.injEq] at hhead
            subst hhead
            cases h
            refine ⟨?_, by intro t' u' r'' e hbt; cases e; rw [hb] at hbt; cases hbt⟩
            unfold LayoutOnly at ihL ⊢
            rw [nonLayout_cons_layout (isBlank_layout hb), ihL, nonLayout_cons_layout (isCr_layout hu)]
        · have hb' : isBlank t = false := by simpa using hb
          simp only [hb', Bool.false_eq_true, if_false] at h
          cases h
          refine ⟨?_, by intro t' u' r'' e _; cases e; rfl⟩
          unfold LayoutOnly at ihL ⊢
          rw [nonLayout_cons t, nonLayout_cons t acc, ihL]

theorem insert_two {α : Type} (l : List α) (p : Nat) (hp : p ≤ l.length) (x y : α) :
    (l.take p ++ [x] ++ l.drop p).take (p + 1) ++ [y] ++ (l.take p ++ [x] ++ l.drop p).drop (p + 1) =
      l.take p ++ [x, y] ++ l.drop p := by
  have hlen : (l.take p ++ [x]).length = p + 1 := by simp [Nat.min_eq_left hp]
  rw [List.take_left' hlen, List.drop_left' hlen]
  simp

/-- style require_blank_line on a region of at least three tokens: the new `blank_line` token and its
    line break are inserted IN FRONT of the line break that ends the previous line -/
theorem insertBlankBeforeLast_eq (c : Cls) (l new : List Tok) (h : insertBlankBeforeLast c l = .ok new)
    (hlen : 3 ≤ l.length) :
    ∃ t, pyGet l (-2) = .ok t ∧
      new = l.take (l.length - (if isWs t then 3 else 2)) ++ [mkBlank c, mkCr c] ++
        l.drop (l.length - (if isWs t then 3 else 2)) := by
  unfold insertBlankBeforeLast at h
  cases h0 : pyGet l (-2) with
  | error e => simp [h0, bind, Except.bind] at h
  | ok t =>
    simp only [h0, bind, Except.bind] at h
    refine ⟨t, rfl, ?_⟩
    cases h1 : insertBlank c l (if isWs t = true then -3 else -2) with
    | error e => simp [h1] at h
    | ok l1 =>
      simp only [h1] at h
      obtain ⟨_, e1⟩ := insertToken_eq l l1 _ _ h1
      obtain ⟨_, e2⟩ := insertToken_eq l1 new _ _ h
      have hl1 : l1.length = l.length + 1 := by rw [e1]; simp; omega
      by_cases hw : isWs t = true
      · simp only [hw, if_true] at e1 e2 ⊢
        have p1 : insPos l.length (-3) = l.length - 3 := by unfold insPos; simp; omega
        have p2 : insPos l1.length (-3) = l.length - 3 + 1 := by unfold insPos; rw [hl1]; simp; omega
        rw [p1] at e1; rw [p2] at e2
        rw [e2, e1]
        exact insert_two l (l.length - 3) (by omega) _ _
      · have hw' : isWs t = false := by simpa using hw
        simp only [hw', Bool.false_eq_true, if_false] at e1 e2 ⊢
        have p1 : insPos l.length (-2) = l.length - 2 := by unfold insPos; simp; omega
        have p2 : insPos l1.length (-2) = l.length - 2 + 1 := by unfold insPos; rw [hl1]; simp; omega
        rw [p1] at e1; rw [p2] at e2
        rw [e2, e1]
        exact insert_two l (l.length - 2) (by omega) _ _

theorem insertBlankBeforeLast_layoutOnly (c : Cls) (l new : List Tok) (h : insertBlankBeforeLast c l = .ok new) :
    LayoutOnly l new := by
  unfold insertBlankBeforeLast at h
  cases h0 : pyGet l (-2) with
  | error e => simp [h0, bind, Except.bind] at h
  | ok t =>
    simp only [h0, bind, Except.bind] at h
    cases h1 : insertBlank c l (if isWs t = true then -3 else -2) with
    | error e => simp [h1] at h
    | ok l1 =>
      simp only [h1] at h
      exact LayoutOnly.trans' (insertLayout_layoutOnly l l1 _ _ (mkBlank_layout c) h1)
        (insertLayout_layoutOnly l1 new _ _ (mkCr_layout c) h)

/-! ### process_026 / process_027 -/

/-- action "Insert": `[blank_line, carriage_return]` lands at the (clamped) index, layout-only -/
theorem insertBlankAt_eq (c : Cls) (action : KV) (l new : List Tok) (h : insertBlankAt c action l = .ok new) :
    LayoutOnly l new ∧ ∃ i, dgetInt action "index" = .ok i ∧
      (0 ≤ i → i ≤ l.length → new = l.take (insPos l.length i) ++ [mkBlank c, mkCr c] ++ l.drop (insPos l.length i)) := by
  unfold insertBlankAt at h
  cases h1 : dget action "index" with
  | error e => simp [h1, bind, Except.bind] at h
  | ok v =>
    simp only [h1, bind, Except.bind] at h
    cases h2 : asInt v with
    | error e => simp only [h2] at h; split at h <;> cases h
    | ok i =>
      simp only [h2] at h
      cases h3 : insertCr c l i with
      | error e => simp [h3] at h
      | ok l1 =>
        simp only [h3] at h
        refine ⟨LayoutOnly.trans' (insertLayout_layoutOnly l l1 _ _ (mkCr_layout c) h3)
          (insertLayout_layoutOnly l1 new _ _ (mkBlank_layout c) h), i, by simp [dgetInt, h1, h2], ?_⟩
        intro hi0 hin
        obtain ⟨_, e1⟩ := insertToken_eq l l1 _ _ h3
        obtain ⟨_, e2⟩ := insertToken_eq l1 new _ _ h
        have hl1 : l1.length = l.length + 1 := by rw [e1]; simp; omega
        have hp : insPos l.length i ≤ l.length := insPos_le _ _
        -- the second insertion uses the same clamped position (or the position of the inserted token)
        rcases insPos_succ l.length i with hs | hs
        · rw [hl1, hs] at e2
          rw [e2, e1]
          have hlen : (l.take (insPos l.length i)).length = insPos l.length i := by simp [Nat.min_eq_left hp]
          have e3 : l.take (insPos l.length i) ++ [mkCr c] ++ l.drop (insPos l.length i) =
              l.take (insPos l.length i) ++ ([mkCr c] ++ l.drop (insPos l.length i)) := by simp
          rw [e3, List.take_left' hlen, List.drop_left' hlen]
          simp
        · -- only a negative index lands one further right on the longer list
          exfalso
          have hi : ¬ i < 0 := by omega
          simp only [insPos, hi, if_false] at hs; omega

/-- the removing branch of process_026 / process_027: `lTokens[:start] + lTokens[end:]` -/
theorem cutOut_eq (action : KV) (l new : List Tok) (h : cutOut action l = .ok new) :
    ∃ sv ev sb eb, dget action "start" = .ok sv ∧ dget action "end" = .ok ev ∧ asBound sv = .ok sb ∧
      asBound ev = .ok eb ∧ new = sliceTo l sb ++ sliceFrom l eb := by
  unfold cutOut at h
  cases h1 : dget action "start" with
  | error e => simp [h1, bind, Except.bind] at h
  | ok sv =>
    cases h2 : dget action "end" with
    | error e => simp [h1, h2, bind, Except.bind] at h
    | ok ev =>
      cases h3 : asBound sv with
      | error e => simp [h1, h2, h3, bind, Except.bind] at h
      | ok sb =>
        cases h4 : asBound ev with
        | error e => simp [h1, h2, h3, h4, bind, Except.bind] at h
        | ok eb =>
          simp only [h1, h2, h3, h4, bind, Except.bind] at h
          exact ⟨sv, ev, sb, eb, rfl, rfl, h3, h4, (Except.ok.inj h).symm⟩

/-- cutting `l[s:e]` out (`s ≤ e`): a layout-blind projection loses exactly the image of the cut -/
theorem cut_proj {β : Type} (π : List Tok → List β) (hπ : Blind π) (l : List Tok) (s e : Nat) (hse : s ≤ e) :
    π l = π (l.take s) ++ π ((l.take e).drop s) ++ π (l.drop e) := by
  have h1 : l = l.take e ++ l.drop e := (List.take_append_drop e l).symm
  have h2 : l.take e = (l.take e).take s ++ (l.take e).drop s := (List.take_append_drop s _).symm
  have h3 : (l.take e).take s = l.take s := by rw [List.take_take, Nat.min_eq_left hse]
  conv => lhs; rw [h1, h2, h3]
  rw [hπ.hom, hπ.hom]

/-- layout-only exactly when the cut holds nothing but layout (cut points `s ≤ e`) -/
theorem cut_layoutOnly_iff (l : List Tok) (s e : Nat) (hse : s ≤ e) :
    LayoutOnly l (l.take s ++ l.drop e) ↔ ∀ t ∈ (l.take e).drop s, t.isLayout = true := by
  unfold LayoutOnly
  rw [cut_proj nonLayout blind_nonLayout l s e hse, nonLayout_append]
  constructor
  · intro h
    have := congrArg List.length h
    simp only [List.length_append] at this
    have h0 : nonLayout ((l.take e).drop s) = [] := List.eq_nil_of_length_eq_zero (by omega)
    intro t ht
    unfold nonLayout at h0
    rw [List.filter_eq_nil_iff] at h0
    simpa using h0 t ht
  · intro h; rw [nonLayout_allLayout _ h, List.append_nil]

/-! ### after_001 / after_003 / process_029: the documented code changes, exactly -/

theorem fixAfter001_eq (E : MEnv) (params : KV) (l new : List Tok) (h : fixAfter001 E params l = .ok new) :
    ∃ mv m uv u, pget params "magnitude" = .ok mv ∧ pyStr mv = .ok m ∧ pget params "units" = .ok uv ∧
      asStr "units" uv = .ok u ∧ new = afterClause E m u ++ l := by
  unfold fixAfter001 at h
  cases h1 : pget params "magnitude" with
  | error e => simp [h1, bind, Except.bind] at h
  | ok mv =>
    cases h2 : pyStr mv with
    | error e => simp [h1, h2, bind, Except.bind] at h
    | ok m =>
      cases h3 : pget params "units" with
      | error e => simp [h1, h2, h3, bind, Except.bind] at h
      | ok uv =>
        cases h4 : asStr "units" uv with
        | error e => simp [h1, h2, h3, h4, bind, Except.bind] at h
        | ok u =>
          simp only [h1, h2, h3, h4, bind, Except.bind] at h
          exact ⟨mv, m, uv, u, rfl, h2, rfl, h4, (Except.ok.inj h).symm⟩

/-- after_001 ADDS exactly the code tokens of ` after <magnitude> <units>` in front of the region -/
theorem afterClause_codeSeq (fold : Str → Str) (E : MEnv) (m u : Str) (l : List Tok) :
    codeSeq fold (afterClause E m u ++ l) =
      codeSeq fold [E.inst E.afterCls "after".toList, E.inst E.todoCls m, E.inst E.todoCls u] ++ codeSeq fold l := by
  unfold afterClause
  simp [codeSeq, codeOf, Tok.isCode, LineStruct.mkWs]

theorem afterClause_commentSeq (E : MEnv) (m u : Str) (l : List Tok) :
    commentSeq (afterClause E m u ++ l) =
      commentSeq [E.inst E.afterCls "after".toList, E.inst E.todoCls m, E.inst E.todoCls u] ++ commentSeq l := by
  unfold afterClause
  simp [commentSeq, Tok.isCommentLike, Kind.isCommentLike, LineStruct.mkWs]

/-- after_003 keeps the last token of its region and REMOVES everything else -/
theorem fixAfter003_eq (l new : List Tok) (h : fixAfter003 l = .ok new) :
    ∃ x, l = l.dropLast ++ [x] ∧ new = [x] := by
  unfold fixAfter003 at h
  cases h0 : pyGet l (-1) with
  | error e => simp [h0, bind, Except.bind] at h
  | ok x =>
    simp only [h0, bind, Except.bind] at h
    exact ⟨x, pyGet_last l x h0, (Except.ok.inj h).symm⟩

/-- process_029 REPLACES the region by a list built from the action alone -/
theorem fixProcess029_eq (E : MEnv) (action : KV) (l new : List Tok) (h : fixProcess029 E action l = .ok new) :
    ∃ conv, dget action "convert_to" = .ok conv ∧
      ((valIs conv "edge" = true ∧ ∃ e clk, dget action "edge" = .ok e ∧ dgetStr action "clock" = .ok clk ∧
          new = edgeCall E (valIs e "rising_edge") clk) ∨
       (valIs conv "edge" = false ∧ ∃ clk e, dgetStr action "clock" = .ok clk ∧ dgetStr action "edge" = .ok e ∧
          new = eventExpr E clk e)) := by
  unfold fixProcess029 at h
  cases h1 : dget action "convert_to" with
  | error e => simp [h1, bind, Except.bind] at h
  | ok conv =>
    simp only [h1, bind, Except.bind] at h
    refine ⟨conv, rfl, ?_⟩
    by_cases hc : valIs conv "edge" = true
    · left
      simp only [hc, if_true] at h
      cases h2 : dget action "edge" with
      | error e => simp [h2] at h
      | ok e =>
        cases h3 : dgetStr action "clock" with
        | error e' => simp [h2, h3] at h
        | ok clk =>
          simp only [h2, h3] at h
          exact ⟨hc, e, clk, rfl, rfl, (Except.ok.inj h).symm⟩
    · right
      have hc' : valIs conv "edge" = false := by simpa using hc
      simp only [hc', Bool.false_eq_true, if_false] at h
      cases h3 : dgetStr action "clock" with
      | error e' => simp [h3] at h
      | ok clk =>
        cases h2 : dgetStr action "edge" with
        | error e => simp [h2, h3] at h
        | ok e =>
          simp only [h2, h3] at h
          exact ⟨hc', clk, e, rfl, rfl, (Except.ok.inj h).symm⟩

/-! ## dispatch -/

theorem multiOwners_not_other : ∀ o ∈ Multi.allOwners,
    o ∉ Base.alignOwners ∧ o ∉ Base.indentOwners ∧ o ∉ Base.blankBelowOwners ∧ o ∉ Base.blankAboveOwners ∧
    o ∉ Base.excessAboveOwners ∧ o ∉ Base.excessBelowOwners ∧ o ∉ Base.removeAboveOwners ∧ o ∉ Base.ws200Owners ∧
    o ∉ Base.betweenPairsOwners ∧ o ∉ Base.wsOwners ∧ o ∉ Base.caseTokenOwners ∧ o ∉ Base.caseFormalOwners ∧
    o ∉ Base.caseConsistentOwners ∧ o ∉ Base.caseInterfaceOwners ∧ o ∉ LineStruct.allOwners := by decide +kernel

/-- the global dispatch hands every owner of this family to `Multi.fixByOwner` -/
theorem fixByOwner_multi (owner : String) (p a : KV) (old : List Tok) (ho : owner ∈ Multi.allOwners) :
    Base.fixByOwner owner p a old = Multi.fixByOwner Base.multiEnv owner p a old := by
  obtain ⟨h1, h2, h3, h4, h5, h6, h7, h8, h9, h10, h11, h12, h13, h14, h15⟩ := multiOwners_not_other owner ho
  unfold Base.fixByOwner
  simp only [h1, h2, h3, h4, h5, h6, h7, h8, h9, h10, h11, h12, h13, h14, h15, ho, if_true, if_false]

theorem mownerOf_name : ∀ o ∈ MOwner.all, mownerOf o.name = some o := by decide +kernel

theorem mownerOf_mem (owner : String) (o : MOwner) (h : mownerOf owner = some o) : owner ∈ Multi.allOwners ∧ o.name = owner := by
  unfold mownerOf at h
  have h1 := List.find?_some h
  have h2 := List.mem_of_find?_eq_some h
  have e : o.name = owner := by simpa using h1
  exact ⟨by rw [← e]; exact List.mem_map_of_mem h2, e⟩

/-- what `Base.fixByOwner` computes for an owner of this family -/
theorem fixByOwner_fixM (owner : String) (o : MOwner) (p a : KV) (old : List Tok) (ho : mownerOf owner = some o) :
    Base.fixByOwner owner p a old = some (fixM Base.multiEnv o p a old) := by
  rw [fixByOwner_multi owner p a old (mownerOf_mem owner o ho).1]
  unfold Multi.fixByOwner
  rw [ho]; rfl

end Vsgm.Base.Multi
