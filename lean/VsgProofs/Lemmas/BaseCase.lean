/-
  The analysis of the case family (`case_utils.check_for_case_violation`), for every value and every
  parameter setting, under the table hypotheses `CharWise`:
    * `check_sound`      the expected value equals the value after folding (same length, same literal-ness)
    * `check_index`      the recorded index is the token index (unconditional since the repo repair of check_for_exception)
    * `check_second`     analysing the expected value again asks for nothing new (idempotence)
-/
import VsgProofs.Lemmas.BaseCaseStr
namespace Vsgm.Base.Case
open Vsgm Vsgm.Base

/-! ### the (prefix, word, suffix) the four `dChecker` functions hand to the checker -/

def cutPrefix (v dp : Str) : Str := removePrefix v (extractPrefix v dp)
def cutSuffix (v ds : Str) : Str := removeSuffix v (extractSuffix v ds)

section decomp
variable (E : Env)

def decompPrefix (p : Params) (v : Str) : Except PyErr (Str × Str × Str) :=
  if prefixDetected E v p.prefixes then
    match getMatchedPrefix E v p.prefixes with
    | none => .error .typeError
    | some dp => .ok (dp, cutPrefix v dp, [])
  else .ok ([], v, [])

def decompSuffix (p : Params) (v : Str) : Except PyErr (Str × Str × Str) :=
  if suffixDetected E v p.suffixes then
    match getMatchedSuffix E v p.suffixes with
    | none => .error .typeError
    | some ds => .ok ([], cutSuffix v ds, ds)
  else .ok ([], v, [])

/-- the prefix is split off first; the suffix is looked for in what is left -/
def decompBoth (p : Params) (v : Str) : Except PyErr (Str × Str × Str) :=
  match decompPrefix E p v with
  | .error e => .error e
  | .ok (dp, c, _) =>
    match decompSuffix E p c with
    | .error e => .error e
    | .ok (_, w, ds) => .ok (dp, w, ds)

def decomp (cp cs : Bool) (p : Params) (v : Str) : Except PyErr (Str × Str × Str) :=
  match cp, cs with
  | false, false => .ok ([], v, [])
  | false, true => decompSuffix E p v
  | true, false => decompPrefix E p v
  | true, true => decompBoth E p v

theorem dChecker_eq (cp cs : Bool) (p : Params) (v : Str) (idx : Int) (f : Checker) :
    dChecker E cp cs p v idx f = (decomp E cp cs p v).map (fun d => f v d.1 d.2.1 d.2.2 idx) := by
  cases cp <;> cases cs
  · rfl
  · simp only [dChecker, decomp, checkForSuffixException, decompSuffix, cutSuffix]
    by_cases hs : suffixDetected E v p.suffixes = true
    · simp only [hs, if_true]
      cases getMatchedSuffix E v p.suffixes <;> rfl
    · simp only [hs, Bool.false_eq_true, if_false]; rfl
  · simp only [dChecker, decomp, checkForPrefixException, decompPrefix, cutPrefix]
    by_cases hp : prefixDetected E v p.prefixes = true
    · simp only [hp, if_true]
      cases getMatchedPrefix E v p.prefixes <;> rfl
    · simp only [hp, Bool.false_eq_true, if_false]; rfl
  · simp only [dChecker, decomp, checkForPrefixAndSuffixExceptions, decompBoth, decompPrefix, decompSuffix,
      cutPrefix, cutSuffix]
    by_cases hp : prefixDetected E v p.prefixes = true
    · simp only [hp, if_true]
      cases getMatchedPrefix E v p.prefixes with
      | none => rfl
      | some dp =>
        simp only
        by_cases hs : suffixDetected E (removePrefix v (extractPrefix v dp)) p.suffixes = true
        · simp only [hs, if_true]
          cases getMatchedSuffix E (removePrefix v (extractPrefix v dp)) p.suffixes <;> rfl
        · simp only [hs, Bool.false_eq_true, if_false]; rfl
    · simp only [hp, Bool.false_eq_true, if_false]
      by_cases hs : suffixDetected E v p.suffixes = true
      · simp only [hs, if_true]
        cases getMatchedSuffix E v p.suffixes <;> rfl
      · simp only [hs, Bool.false_eq_true, if_false]; rfl

end decomp

section facts
variable {E : Env} {fold : Str → Str} {lc uc fc : Char → Char}

theorem cutPrefix_eq (v dp : Str) (h : dp.length ≤ v.length) : cutPrefix v dp = v.drop dp.length := by
  unfold cutPrefix removePrefix extractPrefix
  rw [List.length_take, Nat.min_eq_left h]

theorem cutSuffix_eq (v ds : Str) (h : ds.length ≤ v.length) : cutSuffix v ds = v.take (v.length - ds.length) := by
  unfold cutSuffix removeSuffix extractSuffix
  rw [pySliceFrom_nonneg v ds.length h, List.length_drop]
  have : v.length - (v.length - ds.length) = ds.length := by omega
  rw [this, pySliceTo_nonneg v ds.length h]

theorem matchedPrefix_cut (T : CharWise E fold lc uc fc) {v dp : Str} {ps : List Str}
    (h : getMatchedPrefix E v ps = some dp) :
    (v.take dp.length).map lc = dp.map lc ∧ dp.length ≤ v.length := by
  unfold getMatchedPrefix at h
  have := List.find?_some h
  rw [T.lower_eq, T.lower_eq] at this
  exact prefix_cut lc dp v this

theorem matchedSuffix_cut (T : CharWise E fold lc uc fc) {v ds : Str} {ss : List Str}
    (h : getMatchedSuffix E v ss = some ds) :
    (v.drop (v.length - ds.length)).map lc = ds.map lc ∧ ds.length ≤ v.length := by
  unfold getMatchedSuffix at h
  have := List.find?_some h
  rw [T.lower_eq, T.lower_eq] at this
  exact suffix_cut lc ds v this

/-- prefix + rest is the value, after `lower()` -/
theorem prefix_le (T : CharWise E fold lc uc fc) {v dp : Str} {ps : List Str}
    (h : getMatchedPrefix E v ps = some dp) : (dp ++ cutPrefix v dp).map lc = v.map lc := by
  obtain ⟨h1, h2⟩ := matchedPrefix_cut T h
  rw [cutPrefix_eq v dp h2, List.map_append, ← h1, ← List.map_append, List.take_append_drop]

theorem suffix_le (T : CharWise E fold lc uc fc) {v ds : Str} {ss : List Str}
    (h : getMatchedSuffix E v ss = some ds) : (cutSuffix v ds ++ ds).map lc = v.map lc := by
  obtain ⟨h1, h2⟩ := matchedSuffix_cut T h
  rw [cutSuffix_eq v ds h2, List.map_append, ← h1, ← List.map_append, List.take_append_drop]

theorem decompPrefix_le (T : CharWise E fold lc uc fc) {p : Params} {v pre w suf : Str}
    (h : decompPrefix E p v = .ok (pre, w, suf)) : (pre ++ w ++ suf).map lc = v.map lc := by
  unfold decompPrefix at h
  split at h
  · split at h
    · cases h
    · rename_i dp hdp
      cases h
      simpa using prefix_le T hdp
  · cases h; simp

theorem decompSuffix_le (T : CharWise E fold lc uc fc) {p : Params} {v pre w suf : Str}
    (h : decompSuffix E p v = .ok (pre, w, suf)) : (pre ++ w ++ suf).map lc = v.map lc := by
  unfold decompSuffix at h
  split at h
  · split at h
    · cases h
    · rename_i ds hds
      cases h
      simpa using suffix_le T hds
  · cases h; simp

/-- the third component of `decompPrefix` and the first of `decompSuffix` are empty -/
theorem decompPrefix_third {p : Params} {v pre w suf : Str} (h : decompPrefix E p v = .ok (pre, w, suf)) : suf = [] := by
  unfold decompPrefix at h
  split at h
  · split at h
    · cases h
    · cases h; rfl
  · cases h; rfl

theorem decompSuffix_first {p : Params} {v pre w suf : Str} (h : decompSuffix E p v = .ok (pre, w, suf)) : pre = [] := by
  unfold decompSuffix at h
  split at h
  · split at h
    · cases h
    · cases h; rfl
  · cases h; rfl

/-- `decompBoth` is the composition of the two one-sided decompositions -/
theorem decompBoth_ok {p : Params} {v pre w suf : Str} (h : decompBoth E p v = .ok (pre, w, suf)) :
    ∃ c, decompPrefix E p v = .ok (pre, c, []) ∧ decompSuffix E p c = .ok ([], w, suf) := by
  unfold decompBoth at h
  cases h1 : decompPrefix E p v with
  | error e => simp [h1] at h
  | ok r1 =>
    obtain ⟨dp, c, s1⟩ := r1
    simp only [h1] at h
    cases h2 : decompSuffix E p c with
    | error e => simp [h2] at h
    | ok r2 =>
      obtain ⟨p2, w2, ds⟩ := r2
      simp only [h2] at h
      cases h
      have e1 := decompPrefix_third h1
      have e2 := decompSuffix_first h2
      subst e1; subst e2
      exact ⟨c, rfl, h2⟩

theorem decompBoth_le (T : CharWise E fold lc uc fc) {p : Params} {v pre w suf : Str}
    (h : decompBoth E p v = .ok (pre, w, suf)) : (pre ++ w ++ suf).map lc = v.map lc := by
  obtain ⟨c, h1, h2⟩ := decompBoth_ok h
  have e1 := decompPrefix_le T h1
  have e2 := decompSuffix_le T h2
  simp only [List.append_nil, List.nil_append] at e1 e2
  rw [List.append_assoc, List.map_append, e2, ← List.map_append, e1]

/-- D1: whatever the flags and the exception lists, prefix + word + suffix is the value after `lower()` -/
theorem decomp_le (T : CharWise E fold lc uc fc) {cp cs : Bool} {p : Params} {v pre w suf : Str}
    (h : decomp E cp cs p v = .ok (pre, w, suf)) : (pre ++ w ++ suf).map lc = v.map lc := by
  cases cp <;> cases cs <;> simp only [decomp] at h
  · cases h; simp
  · exact decompSuffix_le T h
  · exact decompPrefix_le T h
  · exact decompBoth_le T h

/-! ### stability: the decomposition of `prefix ++ w' ++ suffix` when `w'` is `w` in another case -/

theorem detect_congr_prefix {v v' : Str} (hv : E.lowerS v' = E.lowerS v) (ps : List Str) :
    prefixDetected E v' ps = prefixDetected E v ps ∧ getMatchedPrefix E v' ps = getMatchedPrefix E v ps := by
  unfold prefixDetected getMatchedPrefix; rw [hv]; exact ⟨rfl, rfl⟩

theorem detect_congr_suffix {v v' : Str} (hv : E.lowerS v' = E.lowerS v) (ss : List Str) :
    suffixDetected E v' ss = suffixDetected E v ss ∧ getMatchedSuffix E v' ss = getMatchedSuffix E v ss := by
  unfold suffixDetected getMatchedSuffix; rw [hv]; exact ⟨rfl, rfl⟩

theorem cutPrefix_append (dp r : Str) : cutPrefix (dp ++ r) dp = r := by
  rw [cutPrefix_eq _ _ (by simp)]; simp

theorem cutSuffix_append (r ds : Str) : cutSuffix (r ++ ds) ds = r := by
  rw [cutSuffix_eq _ _ (by simp)]; simp

theorem decompPrefix_stable (T : CharWise E fold lc uc fc) {p : Params} {v pre w suf w' : Str}
    (h : decompPrefix E p v = .ok (pre, w, suf)) (hw : w'.map lc = w.map lc) :
    decompPrefix E p (pre ++ w' ++ suf) = .ok (pre, w', suf) := by
  have hle := decompPrefix_le T h
  have hv : E.lowerS (pre ++ w' ++ suf) = E.lowerS v := by
    rw [T.lower_eq, T.lower_eq, ← hle]; simp [hw]
  obtain ⟨hd, hm⟩ := detect_congr_prefix hv p.prefixes
  unfold decompPrefix at h ⊢
  rw [hd, hm]
  by_cases hpd : prefixDetected E v p.prefixes = true
  · simp only [hpd, if_true] at h ⊢
    cases hmp : getMatchedPrefix E v p.prefixes with
    | none => simp [hmp] at h
    | some dp =>
      simp only [hmp] at h ⊢
      cases h
      simp only [List.append_nil, cutPrefix_append]
  · simp only [hpd, Bool.false_eq_true, if_false] at h ⊢
    cases h; simp

theorem decompSuffix_stable (T : CharWise E fold lc uc fc) {p : Params} {v pre w suf w' : Str}
    (h : decompSuffix E p v = .ok (pre, w, suf)) (hw : w'.map lc = w.map lc) :
    decompSuffix E p (pre ++ w' ++ suf) = .ok (pre, w', suf) := by
  have hle := decompSuffix_le T h
  have hv : E.lowerS (pre ++ w' ++ suf) = E.lowerS v := by
    rw [T.lower_eq, T.lower_eq, ← hle]; simp [hw]
  obtain ⟨hd, hm⟩ := detect_congr_suffix hv p.suffixes
  unfold decompSuffix at h ⊢
  rw [hd, hm]
  by_cases hsd : suffixDetected E v p.suffixes = true
  · simp only [hsd, if_true] at h ⊢
    cases hms : getMatchedSuffix E v p.suffixes with
    | none => simp [hms] at h
    | some ds =>
      simp only [hms] at h ⊢
      cases h
      simp only [List.nil_append, cutSuffix_append]
  · simp only [hsd, Bool.false_eq_true, if_false] at h ⊢
    cases h; simp

theorem decompBoth_stable (T : CharWise E fold lc uc fc) {p : Params} {v pre w suf w' : Str}
    (h : decompBoth E p v = .ok (pre, w, suf)) (hw : w'.map lc = w.map lc) :
    decompBoth E p (pre ++ w' ++ suf) = .ok (pre, w', suf) := by
  obtain ⟨c, h1, h2⟩ := decompBoth_ok h
  have e2 := decompSuffix_le T h2
  simp only [List.nil_append] at e2
  -- the prefix step on the new value: what is left is `w' ++ suf`, the old rest after `lower()`
  have s1 : decompPrefix E p (pre ++ (w' ++ suf) ++ []) = .ok (pre, w' ++ suf, []) :=
    decompPrefix_stable T h1 (by rw [← e2]; simp [hw])
  have s2 : decompSuffix E p ([] ++ w' ++ suf) = .ok ([], w', suf) := decompSuffix_stable T h2 hw
  simp only [List.append_nil, List.nil_append] at s1 s2
  unfold decompBoth
  rw [List.append_assoc, s1]
  simp only [s2]

/-- D2 -/
theorem decomp_stable (T : CharWise E fold lc uc fc) {cp cs : Bool} {p : Params} {v pre w suf w' : Str}
    (h : decomp E cp cs p v = .ok (pre, w, suf)) (hw : w'.map lc = w.map lc) :
    decomp E cp cs p (pre ++ w' ++ suf) = .ok (pre, w', suf) := by
  cases cp <;> cases cs <;> simp only [decomp] at h ⊢
  · cases h; simp
  · exact decompSuffix_stable T h hw
  · exact decompPrefix_stable T h hw
  · exact decompBoth_stable T h hw

end facts

/-! ### totality of the decomposition (since the repair of `check_for_prefix_and_suffix_exceptions`) -/
section total
variable (E : Env)

theorem matchedPrefix_of_detected {v : Str} {ps : List Str} (h : prefixDetected E v ps = true) :
    ∃ dp, getMatchedPrefix E v ps = some dp := by
  unfold prefixDetected at h; unfold getMatchedPrefix
  obtain ⟨x, hx, hq⟩ := List.any_eq_true.mp h
  cases hf : ps.find? (fun p => (E.lowerS p).isPrefixOf (E.lowerS v)) with
  | some dp => exact ⟨dp, rfl⟩
  | none => rw [List.find?_eq_none] at hf; exact absurd hq (hf x hx)

theorem matchedSuffix_of_detected {v : Str} {ss : List Str} (h : suffixDetected E v ss = true) :
    ∃ ds, getMatchedSuffix E v ss = some ds := by
  unfold suffixDetected at h; unfold getMatchedSuffix
  obtain ⟨x, hx, hq⟩ := List.any_eq_true.mp h
  cases hf : ss.find? (fun x => (E.lowerS x).isSuffixOf (E.lowerS v)) with
  | some ds => exact ⟨ds, rfl⟩
  | none => rw [List.find?_eq_none] at hf; exact absurd hq (hf x hx)

theorem decompPrefix_total (p : Params) (v : Str) : ∃ d, decompPrefix E p v = .ok d := by
  unfold decompPrefix
  by_cases h : prefixDetected E v p.prefixes = true
  · obtain ⟨dp, hdp⟩ := matchedPrefix_of_detected E h
    simp only [h, if_true, hdp]; exact ⟨_, rfl⟩
  · simp only [h, Bool.false_eq_true, if_false]; exact ⟨_, rfl⟩

theorem decompSuffix_total (p : Params) (v : Str) : ∃ d, decompSuffix E p v = .ok d := by
  unfold decompSuffix
  by_cases h : suffixDetected E v p.suffixes = true
  · obtain ⟨ds, hds⟩ := matchedSuffix_of_detected E h
    simp only [h, if_true, hds]; exact ⟨_, rfl⟩
  · simp only [h, Bool.false_eq_true, if_false]; exact ⟨_, rfl⟩

/-- every name has a (prefix, word, suffix) decomposition, whatever the flags and the exception lists:
    none of the four `dChecker` functions can raise -/
theorem decomp_total (cp cs : Bool) (p : Params) (v : Str) : ∃ d, decomp E cp cs p v = .ok d := by
  cases cp <;> cases cs <;> simp only [decomp]
  · exact ⟨_, rfl⟩
  · exact decompSuffix_total E p v
  · exact decompPrefix_total E p v
  · unfold decompBoth
    obtain ⟨⟨dp, c, s1⟩, h1⟩ := decompPrefix_total E p v
    obtain ⟨⟨p2, w, ds⟩, h2⟩ := decompSuffix_total E p c
    simp only [h1, h2]; exact ⟨_, rfl⟩

theorem dChecker_total (cp cs : Bool) (p : Params) (v : Str) (idx : Int) (f : Checker) :
    ∃ o, dChecker E cp cs p v idx f = .ok o := by
  obtain ⟨d, hd⟩ := decomp_total E cp cs p v
  rw [dChecker_eq, hd]; exact ⟨_, rfl⟩

/-- what `check_for_case_violation` can raise: KeyError (unknown `case` option) or the ValueError /
    IndexError of `check_for_exception` — never a TypeError -/
theorem checkForCaseViolation_errors (p : Params) (cp cs : Bool) (v : Str) (idx : Int) (e : PyErr)
    (h : checkForCaseViolation E p cp cs v idx = .error e) :
    (∃ n, e = .keyError n) ∨ e = .valueError ∨ e = .indexError := by
  unfold checkForCaseViolation at h
  split at h
  · cases h
  · split at h
    · unfold checkForException at h
      split at h
      · cases h; exact Or.inr (Or.inl rfl)
      · split at h
        · cases h; exact Or.inr (Or.inr rfl)
        · cases h
    · cases hl : lookupCheck E p.style with
      | error e' =>
        simp only [hl, bind, Except.bind] at h
        cases h
        cases hs : p.style <;> simp [hs, lookupCheck] at hl
        rename_i n
        exact Or.inl ⟨n, hl.symm⟩
      | ok f =>
        simp only [hl, bind, Except.bind] at h
        obtain ⟨o, ho⟩ := dChecker_total E cp cs p v idx f
        rw [ho] at h; cases h

end total

/-! ### `check_for_case_violation` -/
section check
variable {E : Env} {fold : Str → Str} {lc uc fc : Char → Char}

theorem findIdx?_some_spec {α : Type} (q : α → Bool) (l : List α) (i : Nat) (h : l.findIdx? q = some i) :
    ∃ x, l[i]? = some x ∧ q x = true := by
  induction l generalizing i with
  | nil => simp at h
  | cons a l ih =>
    rw [List.findIdx?_cons] at h
    by_cases hq : q a = true
    · simp only [hq, if_true, Option.some.injEq] at h
      subst h
      exact ⟨a, by simp, hq⟩
    · simp only [hq, Bool.false_eq_true, if_false, Option.map_eq_some_iff] at h
      obtain ⟨j, hj, rfl⟩ := h
      obtain ⟨x, hx, hqx⟩ := ih j hj
      exact ⟨x, by simpa using hx, hqx⟩

theorem findIdx?_of_mem {α : Type} (q : α → Bool) (l : List α) (x : α) (hx : x ∈ l) (hq : q x = true) :
    ∃ i, l.findIdx? q = some i := by
  induction l with
  | nil => cases hx
  | cons a l ih =>
    rw [List.findIdx?_cons]
    by_cases hqa : q a = true
    · exact ⟨0, by simp [hqa]⟩
    · have : x ∈ l := by
        cases hx with
        | head => exact absurd hq hqa
        | tail _ h => exact h
      obtain ⟨i, hi⟩ := ih this
      exact ⟨i + 1, by simp [hqa, hi]⟩

/-- the whole-word exception path: the value written is an entry of `case_exceptions` that equals
    the value after `lower()` -/
theorem checkForException_sound {p : Params} {v : Str} {idx : Int} {a : Action}
    (h : checkForException E p v idx = .ok (some a)) :
    ∃ e, a.value = some e ∧ E.lowerS e = E.lowerS v ∧ e ∈ p.exceptions ∧ a.index = idx := by
  unfold checkForException at h
  cases hi : (p.exceptions.map E.lowerS).findIdx? (· == E.lowerS v) with
  | none => simp [hi] at h
  | some i =>
    simp only [hi] at h
    cases he : p.exceptions[i]? with
    | none => simp [he] at h
    | some e =>
      simp only [he] at h
      obtain ⟨x, hx, hqx⟩ := findIdx?_some_spec _ _ _ hi
      rw [List.getElem?_map, he] at hx
      simp only [Option.map_some, Option.some.injEq] at hx
      subst hx
      by_cases hne : (v != e) = true
      · simp only [hne, if_true, Except.ok.injEq, Option.some.injEq] at h
        subst h
        exact ⟨e, rfl, by simpa using hqx, List.mem_of_getElem? he, rfl⟩
      · simp [hne] at h

/-- with no duplicate-by-case entries the whole-word exception path never reports anything -/
theorem checkForException_mem {p : Params} {v : Str} {idx : Int} (hnd : NoCaseDup E p.exceptions)
    (hv : v ∈ p.exceptions) : checkForException E p v idx = .ok none := by
  unfold checkForException
  have hm : E.lowerS v ∈ p.exceptions.map E.lowerS := List.mem_map_of_mem hv
  obtain ⟨i, hi⟩ := findIdx?_of_mem (· == E.lowerS v) _ _ hm (by simp)
  simp only [hi]
  obtain ⟨x, hx, hqx⟩ := findIdx?_some_spec _ _ _ hi
  rw [List.getElem?_map] at hx
  cases he : p.exceptions[i]? with
  | none => simp [he] at hx
  | some e =>
    simp only [he, Option.map_some, Option.some.injEq] at hx
    subst hx
    have : e = v := hnd e (List.mem_of_getElem? he) v hv (by simpa using hqx)
    subst this
    simp

theorem check_skip {p : Params} {cp cs : Bool} {v : Str} {idx : Int}
    (hs : (p.name != bitStringLiteral && doesNotContainAnyAlpha v) = true) :
    checkForCaseViolation E p cp cs v idx = .ok none := by
  unfold checkForCaseViolation
  rw [if_pos hs]

theorem check_exc {p : Params} {cp cs : Bool} {v : Str} {idx : Int}
    (hs : (p.name != bitStringLiteral && doesNotContainAnyAlpha v) = false)
    (hx : p.exceptions.contains v = true) :
    checkForCaseViolation E p cp cs v idx = checkForException E p v idx := by
  unfold checkForCaseViolation
  rw [if_neg (by simp [hs]), if_pos hx]

/-- a reported value was not skipped as a literal -/
theorem check_not_skipped {p : Params} {cp cs : Bool} {v : Str} {idx : Int} {a : Action}
    (h : checkForCaseViolation E p cp cs v idx = .ok (some a)) :
    (p.name != bitStringLiteral && doesNotContainAnyAlpha v) = false := by
  by_cases hs : (p.name != bitStringLiteral && doesNotContainAnyAlpha v) = true
  · rw [check_skip hs] at h; cases h
  · simpa using hs

/-- the style path in one piece -/
theorem check_style_path {p : Params} {cp cs : Bool} {v : Str} {idx : Int} {o : Option Action}
    (hx : p.exceptions.contains v = false)
    (h : checkForCaseViolation E p cp cs v idx = .ok o) :
    (o = none ∧ (p.name != bitStringLiteral && doesNotContainAnyAlpha v) = true) ∨
    ∃ f pre w suf, lookupCheck E p.style = .ok f ∧ decomp E cp cs p v = .ok (pre, w, suf) ∧
      o = f v pre w suf idx := by
  unfold checkForCaseViolation at h
  by_cases hs : (p.name != bitStringLiteral && doesNotContainAnyAlpha v) = true
  · simp only [hs, if_true, Except.ok.injEq] at h
    exact .inl ⟨h.symm, hs⟩
  · simp only [hs, Bool.false_eq_true, if_false, hx] at h
    right
    cases hl : lookupCheck E p.style with
    | error e => simp [hl, bind, Except.bind] at h
    | ok f =>
      simp only [hl, bind, Except.bind] at h
      rw [dChecker_eq] at h
      cases hd : decomp E cp cs p v with
      | error e => simp [hd, Except.map] at h
      | ok d =>
        simp only [hd, Except.map, Except.ok.injEq] at h
        exact ⟨f, d.1, d.2.1, d.2.2, rfl, rfl, h.symm⟩

/-- what a style checker returns when it reports -/
theorem style_cases (T : CharWise E fold lc uc fc) {st : Style} {f : Checker}
    (hst : lookupCheck E st = .ok f) (v pre w suf : Str) (idx : Int) (a : Action)
    (hf : f v pre w suf idx = some a) :
    a.index = idx ∧
    ((st = .lower ∧ a.value = some (pre ++ w.map lc ++ suf)) ∨
     (st = .upper ∧ a.value = some (pre ++ w.map uc ++ suf)) ∨
     (st = .upperOrLower ∧ a.value = none) ∨
     (∃ n, st = .pattern n ∧ a.value = some (pre ++ w ++ suf))) := by
  cases st with
  | lower =>
    simp only [lookupCheck, Except.ok.injEq] at hst; subst hst
    simp only [checkLower] at hf
    split at hf
    · cases hf
    · cases hf
      exact ⟨rfl, .inl ⟨rfl, by rw [T.lower_eq]⟩⟩
  | upper =>
    simp only [lookupCheck, Except.ok.injEq] at hst; subst hst
    simp only [checkUpper] at hf
    split at hf
    · cases hf
    · cases hf
      exact ⟨rfl, .inr (.inl ⟨rfl, by rw [T.upper_eq]⟩)⟩
  | upperOrLower =>
    simp only [lookupCheck, Except.ok.injEq] at hst; subst hst
    simp only [checkUpperOrLower] at hf
    split at hf
    · cases hf
      exact ⟨rfl, .inr (.inr (.inl ⟨rfl, rfl⟩))⟩
    · cases hf
  | pattern n =>
    simp only [lookupCheck, Except.ok.injEq] at hst; subst hst
    simp only [checkPattern] at hf
    split at hf
    · cases hf
    · cases hf
      exact ⟨rfl, .inr (.inr (.inr ⟨n, rfl, rfl⟩))⟩
  | unknown n => simp [lookupCheck] at hst

/-- SOUNDNESS OF THE ANALYSIS: for every value and every parameter setting, the expected value
    equals the value after folding -/
theorem check_sound (T : CharWise E fold lc uc fc) {p : Params} {cp cs : Bool} {v : Str} {idx : Int}
    {a : Action} (h : checkForCaseViolation E p cp cs v idx = .ok (some a)) (e : Str)
    (he : a.value = some e) : e.map fc = v.map fc := by
  by_cases hx : p.exceptions.contains v = true
  · rw [check_exc (check_not_skipped h) hx] at h
    obtain ⟨e', he', hl, _⟩ := checkForException_sound h
    rw [he] at he'; cases he'
    rw [T.lower_eq, T.lower_eq] at hl
    exact T.fe_of_le hl
  · have hx' : p.exceptions.contains v = false := by simpa using hx
    rcases check_style_path hx' h with ⟨h0, _⟩ | ⟨f, pre, w, suf, hl, hd, ho⟩
    · cases h0
    · have hle := T.fe_of_le (decomp_le T hd)
      obtain ⟨_, hc⟩ := style_cases T hl v pre w suf idx a ho.symm
      rcases hc with ⟨_, hv⟩ | ⟨_, hv⟩ | ⟨_, hv⟩ | ⟨n, _, hv⟩
      · rw [he] at hv; cases hv
        rw [← hle]; simp [T.map_fc_lc]
      · rw [he] at hv; cases hv
        rw [← hle]; simp [T.map_fc_uc]
      · rw [he] at hv; cases hv
      · rw [he] at hv; cases hv
        exact hle

/-- the recorded index is the token index — for every exception list (since the repair of
    `check_for_exception`; before it the hypothesis "no duplicate-by-case `case_exceptions`" was needed) -/
theorem check_index (T : CharWise E fold lc uc fc) {p : Params} {cp cs : Bool} {v : Str} {idx : Int}
    {a : Action}
    (h : checkForCaseViolation E p cp cs v idx = .ok (some a)) : a.index = idx := by
  by_cases hx : p.exceptions.contains v = true
  · rw [check_exc (check_not_skipped h) hx] at h
    obtain ⟨_, _, _, _, hi⟩ := checkForException_sound h
    exact hi
  · have hx' : p.exceptions.contains v = false := by simpa using hx
    rcases check_style_path hx' h with ⟨h0, _⟩ | ⟨f, pre, w, suf, hl, hd, ho⟩
    · cases h0
    · exact (style_cases T hl v pre w suf idx a ho.symm).1

/-- `upper_or_lower` is unrepairable: the recorded value is None (style path) -/
theorem check_upperOrLower (T : CharWise E fold lc uc fc) {p : Params} {cp cs : Bool} {v : Str} {idx : Int}
    {a : Action} (hst : p.style = .upperOrLower) (hx : p.exceptions.contains v = false)
    (h : checkForCaseViolation E p cp cs v idx = .ok (some a)) : a.value = none := by
  rcases check_style_path hx h with ⟨h0, _⟩ | ⟨f, pre, w, suf, hl, hd, ho⟩
  · cases h0
  · obtain ⟨_, hc⟩ := style_cases T hl v pre w suf idx a ho.symm
    rw [hst] at hc
    rcases hc with ⟨h1, _⟩ | ⟨h1, _⟩ | ⟨_, hv⟩ | ⟨n, h1, _⟩
    · cases h1
    · cases h1
    · exact hv
    · cases h1

/-- IDEMPOTENCE AT VALUE LEVEL: analyse the expected value again — `lower` / `upper` report nothing,
    `upper_or_lower` records None, the pattern styles record the value itself.  In every case a
    second fix leaves the token as it is. -/
theorem check_second (T : CharWiseIdem E fold lc uc fc) {p : Params} {cp cs : Bool} {v : Str}
    {idx idx' : Int} {a : Action} (hnd : NoCaseDup E p.exceptions)
    (h : checkForCaseViolation E p cp cs v idx = .ok (some a)) (e : Str) (he : a.value = some e) :
    ∃ o, checkForCaseViolation E p cp cs e idx' = .ok o ∧
      (((p.style = .lower ∨ p.style = .upper) → o = none) ∧
       ∀ a', o = some a' → a'.value = none ∨ a'.value = some e) := by
  have T' := T.toCharWise
  by_cases hxe : p.exceptions.contains e = true
  · -- the new value is a listed word: nothing is reported
    refine ⟨none, ?_, fun _ => rfl, fun a' h' => by cases h'⟩
    by_cases hs : (p.name != bitStringLiteral && doesNotContainAnyAlpha e) = true
    · exact check_skip hs
    · rw [check_exc (by simpa using hs) hxe]
      exact checkForException_mem hnd (by simpa using hxe)
  · have hxe' : p.exceptions.contains e = false := by simpa using hxe
    by_cases hx : p.exceptions.contains v = true
    · -- the value came from the exception list: it IS a listed word
      exfalso
      rw [check_exc (check_not_skipped h) hx] at h
      obtain ⟨e', he', _, hm⟩ := checkForException_sound h
      rw [he] at he'; cases he'
      simp [hm] at hxe'
    · have hx' : p.exceptions.contains v = false := by simpa using hx
      rcases check_style_path hx' h with ⟨h0, _⟩ | ⟨f, pre, w, suf, hl, hd, ho⟩
      · cases h0
      · obtain ⟨_, hc⟩ := style_cases T' hl v pre w suf idx a ho.symm
        -- the second analysis: skipped, or the same checker on the stable decomposition
        by_cases hs : (p.name != bitStringLiteral && doesNotContainAnyAlpha e) = true
        · exact ⟨none, check_skip hs, fun _ => rfl, fun a' h' => by cases h'⟩
        · have key : ∀ w', w'.map lc = w.map lc → e = pre ++ w' ++ suf →
              checkForCaseViolation E p cp cs e idx' = .ok (f e pre w' suf idx') := by
            intro w' hw hew
            unfold checkForCaseViolation
            simp only [hs, Bool.false_eq_true, if_false, hxe', hl, bind, Except.bind]
            rw [dChecker_eq, hew, decomp_stable T' hd hw]
            rfl
          rcases hc with ⟨hst, hv⟩ | ⟨hst, hv⟩ | ⟨hst, hv⟩ | ⟨n, hst, hv⟩
          · rw [he] at hv; cases hv
            have hw : (w.map lc).map lc = w.map lc := by
              rw [List.map_map]; congr 1; funext c; exact T.lower_idem c
            refine ⟨_, key _ hw rfl, ?_, ?_⟩
            · intro _
              rw [hst] at hl; simp only [lookupCheck, Except.ok.injEq] at hl; subst hl
              simp [checkLower, T'.lower_eq, hw]
            · intro a' ha'
              rw [hst] at hl; simp only [lookupCheck, Except.ok.injEq] at hl; subst hl
              simp [checkLower, T'.lower_eq, hw] at ha'
          · rw [he] at hv; cases hv
            have hw : (w.map uc).map lc = w.map lc := by
              rw [List.map_map]; congr 1; funext c; exact T.lower_upper c
            have hu : (w.map uc).map uc = w.map uc := by
              rw [List.map_map]; congr 1; funext c; exact T.upper_idem c
            refine ⟨_, key _ hw rfl, ?_, ?_⟩
            · intro _
              rw [hst] at hl; simp only [lookupCheck, Except.ok.injEq] at hl; subst hl
              simp [checkUpper, T'.upper_eq, hu]
            · intro a' ha'
              rw [hst] at hl; simp only [lookupCheck, Except.ok.injEq] at hl; subst hl
              simp [checkUpper, T'.upper_eq, hu] at ha'
          · rw [he] at hv; cases hv
          · rw [he] at hv; cases hv
            refine ⟨_, key w rfl rfl, ?_, ?_⟩
            · intro h'
              rw [hst] at h'; rcases h' with h' | h' <;> cases h'
            · intro a' ha'
              rw [hst] at hl; simp only [lookupCheck, Except.ok.injEq] at hl; subst hl
              simp only [checkPattern] at ha'
              split at ha'
              · cases ha'
              · cases ha'; exact .inr rfl

end check
end Vsgm.Base.Case
