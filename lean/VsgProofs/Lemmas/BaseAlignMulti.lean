/-
  The remaining alignment fixers: layout-only whenever the first token of interest is a layout
  token (what the analysis hands them) or the action is an insertion; NOT layout-only for action
  `adjust` on a code token (the fixer does not look at the token it rewrites).
-/
import VsgProofs.Lemmas.BaseStructCommon
import VsgModel.Base.AlignMulti
namespace Vsgm.Base.AlignMulti
open Vsgm Vsgm.Base

/-- `lTokens[0].set_value(s)` keeps every projection when the first token is a layout token -/
theorem set0_layout (l r : List Tok) (t0 : Tok) (s : Str) (h0 : pyGet l 0 = .ok t0)
    (h : pySet l 0 { t0 with val := s } = .ok r) (hl : t0.isLayout = true) : LayoutOnly l r := by
  obtain ⟨rest, rfl⟩ := pyGet0 l t0 h0
  obtain ⟨k, hk, rfl⟩ := pySet_eq _ _ _ _ h
  have : pyIdx (t0 :: rest).length 0 = some 0 := by
    have := pyIdx_ofNat (t0 :: rest).length 0
    simpa using this
  rw [this] at hk
  cases hk
  unfold LayoutOnly
  exact (nonLayout_set_layout (t0 :: rest) 0 t0 _ rfl hl (by unfold Tok.isLayout; exact hl)).symm

/-- … and the line breaks -/
theorem set0_crSeq (l r : List Tok) (t0 : Tok) (s : Str) (h0 : pyGet l 0 = .ok t0)
    (h : pySet l 0 { t0 with val := s } = .ok r) : crSeq r = crSeq l := by
  obtain ⟨rest, rfl⟩ := pyGet0 l t0 h0
  obtain ⟨k, hk, rfl⟩ := pySet_eq _ _ _ _ h
  have : pyIdx (t0 :: rest).length 0 = some 0 := by
    have := pyIdx_ofNat (t0 :: rest).length 0
    simpa using this
  rw [this] at hk
  cases hk
  simp [crSeq, Tok.isCr]

/-- the first token of interest is a layout token, or the list is empty -/
def firstIsLayout (l : List Tok) : Bool :=
  match l with
  | [] => true
  | t :: _ => t.isLayout

theorem firstIsLayout_get (l : List Tok) (t0 : Tok) (h0 : pyGet l 0 = .ok t0) (h : firstIsLayout l = true) :
    t0.isLayout = true := by
  obtain ⟨rest, rfl⟩ := pyGet0 l t0 h0
  exact h

theorem adjustOrInsert_layoutOnly (E : Env) (key : String) (action : KV) (l r : List Tok)
    (h : adjustOrInsert E key action l = .ok r) (hf : firstIsLayout l = true) : LayoutOnly l r := by
  unfold adjustOrInsert at h
  obtain ⟨a, _, h⟩ := bind_ok _ _ _ h
  by_cases hc : valIs a "adjust" = true
  · simp only [hc, if_true] at h
    obtain ⟨t0, h0, h⟩ := bind_ok _ _ _ h
    obtain ⟨s, _, h⟩ := bind_ok _ _ _ h
    exact set0_layout l r t0 s h0 h (firstIsLayout_get l t0 h0 hf)
  · simp only [hc, Bool.false_eq_true, if_false] at h
    obtain ⟨s, _, h⟩ := bind_ok _ _ _ h
    unfold LayoutOnly
    exact (insertToken_layout l r 0 _ (by simp [Env.ws, Tok.isLayout, Kind.isLayout]) h).symm

theorem adjustOrInsert_crSeq (E : Env) (key : String) (action : KV) (l r : List Tok)
    (h : adjustOrInsert E key action l = .ok r) : crSeq r = crSeq l := by
  unfold adjustOrInsert at h
  obtain ⟨a, _, h⟩ := bind_ok _ _ _ h
  by_cases hc : valIs a "adjust" = true
  · simp only [hc, if_true] at h
    obtain ⟨t0, h0, h⟩ := bind_ok _ _ _ h
    obtain ⟨s, _, h⟩ := bind_ok _ _ _ h
    exact set0_crSeq l r t0 s h0 h
  · simp only [hc, Bool.false_eq_true, if_false] at h
    obtain ⟨s, _, h⟩ := bind_ok _ _ _ h
    exact proj_insertToken_ws projCr l r 0 _ rfl h

theorem fixConditional_layoutOnly (E : Env) (action : KV) (l r : List Tok)
    (h : fixConditional E action l = .ok r) (hf : firstIsLayout l = true) : LayoutOnly l r := by
  unfold fixConditional at h
  obtain ⟨ty, _, h⟩ := bind_ok _ _ _ h
  by_cases hc : (valIs ty "when" || valIs ty "else") = true
  · simp only [hc, if_true] at h
    obtain ⟨t0, h0, h⟩ := bind_ok _ _ _ h
    obtain ⟨adj, _, h⟩ := bind_ok _ _ _ h
    exact set0_layout l r t0 _ h0 h (firstIsLayout_get l t0 h0 hf)
  · simp only [hc, Bool.false_eq_true, if_false] at h
    by_cases hi : valIs ty "indent" = true
    · simp only [hi, if_true] at h
      exact adjustOrInsert_layoutOnly E _ action l r h hf
    · simp only [hi, Bool.false_eq_true, if_false] at h
      cases h; rfl

theorem fixConditional_crSeq (E : Env) (action : KV) (l r : List Tok)
    (h : fixConditional E action l = .ok r) : crSeq r = crSeq l := by
  unfold fixConditional at h
  obtain ⟨ty, _, h⟩ := bind_ok _ _ _ h
  by_cases hc : (valIs ty "when" || valIs ty "else") = true
  · simp only [hc, if_true] at h
    obtain ⟨t0, h0, h⟩ := bind_ok _ _ _ h
    obtain ⟨adj, _, h⟩ := bind_ok _ _ _ h
    exact set0_crSeq l r t0 _ h0 h
  · simp only [hc, Bool.false_eq_true, if_false] at h
    by_cases hi : valIs ty "indent" = true
    · simp only [hi, if_true] at h
      exact adjustOrInsert_crSeq E _ action l r h
    · simp only [hi, Bool.false_eq_true, if_false] at h
      cases h; rfl

end Vsgm.Base.AlignMulti
