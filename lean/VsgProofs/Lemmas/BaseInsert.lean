/-
  Effect of the insert-family fixers, for every projection that does not see whitespace tokens
  (`codeSeq`, `commentSeq`, `crSeq`, `nonLayout`), every action and every token list:
  the projection of the result is the projection of the input with the projection of the designated
  token(s) inserted at one place (`InsSeg`), or — with `action: remove` — the projection of the
  first token of interest.
-/
import VsgProofs.Lemmas.BaseStructCommon
import VsgModel.Base.Insert
namespace Vsgm.Base.Insert
open Vsgm Vsgm.Base

variable {β : Type} (P : Proj β)

/-- token, then a whitespace token, inserted by two `list.insert`s -/
theorem two_inserts (E : Env) (l l1 r : List Tok) (i j : Int) (tok : Tok)
    (h1 : insertToken l i tok = .ok l1) (h2 : insertWs E l1 j = .ok r) :
    InsSeg (P.π [tok]) (P.π l) (P.π r) := by
  rw [proj_insertWs P E l1 r j h2]
  exact proj_insertToken P l l1 i tok h1

theorem addOptionalItem_proj (E : Env) (isAnchor : Tok → Bool) (ins : Str → Tok) (right : Bool)
    (value : Option Str) (l r : List Tok) (h : addOptionalItem E isAnchor ins right value l = .ok r) :
    r = l ∨ ∃ v, value = some v ∧ InsSeg (P.π [ins v]) (P.π l) (P.π r) := by
  unfold addOptionalItem at h
  cases value with
  | none => simp at h; exact Or.inl h.symm
  | some v =>
    simp only at h
    cases hi : lastIdx isAnchor l with
    | none => simp [hi] at h; exact Or.inl h.symm
    | some i =>
      simp only [hi] at h
      refine Or.inr ⟨v, rfl, ?_⟩
      by_cases hr : right = true
      · simp only [hr, if_true] at h
        obtain ⟨l1, h1, h2⟩ := bind_ok _ _ _ h
        exact two_inserts P E l l1 r _ _ _ h1 h2
      · simp only [hr, Bool.false_eq_true, if_false] at h
        obtain ⟨l1, h1, h2⟩ := bind_ok _ _ _ h
        obtain ⟨prev, _, h3⟩ := bind_ok _ _ _ h2
        by_cases hw : (prev.kind == Kind.ws) = true
        · simp only [hw, if_true] at h3
          cases h3
          exact proj_insertToken P l _ _ _ h1
        · simp only [hw, Bool.false_eq_true, if_false] at h3
          exact two_inserts P E l l1 r _ _ _ h1 h3

theorem fixRightOf_add_proj (E : Env) (tok : Tok) (l r : List Tok) (h : fixRightOf E false tok l = .ok r) :
    InsSeg (P.π [tok]) (P.π l) (P.π r) := by
  unfold fixRightOf at h
  simp only [Bool.false_eq_true, if_false] at h
  obtain ⟨t1, _, h⟩ := bind_ok _ _ _ h
  obtain ⟨c, _, h⟩ := bind_ok _ _ _ h
  by_cases hc : c = true
  · simp only [hc, if_true] at h
    exact proj_insertToken P l r _ _ h
  · simp only [hc, Bool.false_eq_true, if_false] at h
    obtain ⟨l1, h1, h2⟩ := bind_ok _ _ _ h
    exact two_inserts P E l l1 r _ _ _ h1 h2

theorem fixRightOfPossible_add_proj (E : Env) (tok : Tok) (action : KV) (l r : List Tok)
    (h : fixRightOfPossible E false tok action l = .ok r) : InsSeg (P.π [tok]) (P.π l) (P.π r) := by
  unfold fixRightOfPossible at h
  simp only [Bool.false_eq_true, if_false] at h
  obtain ⟨t0, _, h⟩ := bind_ok _ _ _ h
  have dflt : ∀ r, (do let l1 ← insertToken l 1 tok; insertWs E l1 1 : Except PyErr (List Tok)) = .ok r →
      InsSeg (P.π [tok]) (P.π l) (P.π r) := by
    intro r h
    obtain ⟨l1, h1, h2⟩ := bind_ok _ _ _ h
    exact two_inserts P E l l1 r _ _ _ h1 h2
  by_cases hc : E.isa t0.cls E.closeParenCls = true
  · simp only [hc, if_true] at h
    obtain ⟨cr, _, h⟩ := bind_ok _ _ _ h
    by_cases hcr : cr = true
    · simp only [hcr, if_true] at h
      exact proj_insertToken P l r _ _ h
    · simp only [hcr, Bool.false_eq_true, if_false] at h
      obtain ⟨w, _, h⟩ := bind_ok _ _ _ h
      by_cases hw : w = true
      · simp only [hw, Bool.not_true, Bool.false_eq_true, if_false] at h
        exact dflt r h
      · have hw' : w = false := by simpa using hw
        simp only [hw', Bool.not_false, if_true] at h
        obtain ⟨l1, h1, h2⟩ := bind_ok _ _ _ h
        have := proj_insertToken P l1 r _ _ h2
        rw [proj_insertWs P E l l1 _ h1] at this
        exact this
  · simp only [hc, Bool.false_eq_true, if_false] at h
    exact dflt r h

theorem fixLeftOf_add_proj (E : Env) (tok : Tok) (action : KV) (l r : List Tok)
    (h : fixLeftOf E false tok action l = .ok r) : InsSeg (P.π [tok]) (P.π l) (P.π r) := by
  unfold fixLeftOf at h
  simp only [Bool.false_eq_true, if_false] at h
  obtain ⟨i, _, h⟩ := bind_ok _ _ _ h
  obtain ⟨l1, h1, h2⟩ := bind_ok _ _ _ h
  exact two_inserts P E l l1 r _ _ _ h1 h2

theorem fixGenerate011_add_proj (E : Env) (action : KV) (l r : List Tok)
    (h : fixGenerate011 E false action l = .ok r) :
    ∃ lab, needTok action "label" = .ok lab ∧ r = l ++ [E.ws [' '], lab] ∧ InsSeg (P.π [lab]) (P.π l) (P.π r) := by
  unfold fixGenerate011 at h
  simp only [Bool.false_eq_true, if_false] at h
  obtain ⟨lab, hl, h⟩ := bind_ok _ _ _ h
  cases h
  refine ⟨lab, hl, rfl, P.π l, [], by simp, ?_⟩
  rw [P.app, P.cons, P.ws _ rfl]
  simp

theorem fixTokensRightOf_add_proj (E : Env) (toks : List Tok) (action : KV) (l r : List Tok)
    (h : fixTokensRightOf E true toks action l = .ok r) : InsSeg (P.π toks) (P.π l) (P.π r) := by
  unfold fixTokensRightOf at h
  simp only [if_true] at h
  obtain ⟨t0, h0, h⟩ := bind_ok _ _ _ h
  obtain ⟨t1, h1, h⟩ := bind_ok _ _ _ h
  obtain ⟨c, hcdef, h⟩ := bind_ok _ _ _ h
  obtain ⟨a, rest, hl⟩ := pyGet1 l t1 h1
  subst hl
  obtain ⟨rest0, hl0⟩ := pyGet0 _ t0 h0
  cases hl0
  by_cases hc : c = true
  · simp only [hc, if_true] at h
    cases h
    -- `c` can only be true when there is a third token
    have hlen : ∃ t2 rest', rest = t2 :: rest' := by
      by_cases hw : (t1.kind == Kind.ws) = true
      · simp only [hw, if_true] at hcdef
        obtain ⟨t2, h2, _⟩ := bind_ok _ _ _ hcdef
        obtain ⟨_, _, r', hr'⟩ := pyGet2 _ t2 h2
        cases hr'
        exact ⟨t2, r', rfl⟩
      · simp only [hw, Bool.false_eq_true, if_false] at hcdef
        cases hcdef
        cases hc
    obtain ⟨t2, rest', rfl⟩ := hlen
    have hf : pyFrom (t0 :: t1 :: t2 :: rest') 2 = t2 :: rest' := by
      unfold pyFrom clampIdx; simp
    rw [hf]
    refine ⟨P.π [t0, t1], P.π (t2 :: rest'), ?_, ?_⟩
    · rw [← P.app]; rfl
    · rw [P.app, P.app]
  · simp only [hc, Bool.false_eq_true, if_false] at h
    cases h
    have hf : pyFrom (t0 :: t1 :: rest) 1 = t1 :: rest := by
      unfold pyFrom clampIdx; simp
    rw [hf]
    refine ⟨P.π [t0], P.π (t1 :: rest), ?_, ?_⟩
    · rw [← P.app]; rfl
    · rw [P.app, P.app]
      have : P.π [t0, E.ws [' ']] = P.π [t0] := by
        rw [P.cons, P.ws (E.ws [' ']) rfl]; simp
      rw [this]

/-- `action: remove` of `insert_tokens_right_of…`: the tokens from the (clamped) start index up to the
    (clamped) end index disappear, PROVIDED the end index is not before the start index -/
theorem fixTokensRightOf_remove_proj (E : Env) (toks : List Tok) (action : KV) (l r : List Tok)
    (h : fixTokensRightOf E false toks action l = .ok r) :
    ∃ s e, needIntS action "iStartIndex" = .ok s ∧ needIntS action "iEndIndex" = .ok e ∧
      P.π r = P.π (pyTo l s) ++ P.π (pyFrom l e) ∧
      (clampIdx l.length s ≤ clampIdx l.length e →
        InsSeg (P.π ((l.drop (clampIdx l.length s)).take (clampIdx l.length e - clampIdx l.length s))) (P.π r) (P.π l)) := by
  unfold fixTokensRightOf at h
  simp only [Bool.false_eq_true, if_false] at h
  obtain ⟨s, hs, h⟩ := bind_ok _ _ _ h
  obtain ⟨e, he, h⟩ := bind_ok _ _ _ h
  cases h
  refine ⟨s, e, hs, he, ?_, ?_⟩
  · rw [proj_rcw, P.app]
  · intro hle
    rw [proj_rcw, P.app]
    refine ⟨P.π (pyTo l s), P.π (pyFrom l e), rfl, ?_⟩
    unfold pyTo pyFrom
    rw [← P.app, ← P.app]
    congr 1
    generalize clampIdx l.length s = a at hle
    generalize clampIdx l.length e = b at hle
    have hb : b = a + (b - a) := by omega
    conv => lhs; rw [← List.take_append_drop a l]
    rw [List.append_assoc]
    congr 1
    conv => lhs; rw [← List.take_append_drop (b - a) (List.drop a l)]
    congr 1
    rw [List.drop_drop]
    congr 1
    omega

/-- every fixer of the family with `action: remove` (except `insert_tokens_right_of…`) is
    `remove_optional_item` -/
theorem fixNextTo_remove (E : Env) (isAnchor : Tok → Bool) (ins : Str → Tok) (right : Bool) (value : Option Str)
    (l : List Tok) : fixNextTo E true isAnchor ins right value l = removeOptionalItem l := by simp [fixNextTo]
theorem fixRightOf_remove (E : Env) (tok : Tok) (l : List Tok) : fixRightOf E true tok l = removeOptionalItem l := by
  simp [fixRightOf]
theorem fixRightOfPossible_remove (E : Env) (tok : Tok) (a : KV) (l : List Tok) :
    fixRightOfPossible E true tok a l = removeOptionalItem l := by simp [fixRightOfPossible]
theorem fixLeftOf_remove (E : Env) (tok : Tok) (a : KV) (l : List Tok) : fixLeftOf E true tok a l = removeOptionalItem l := by
  simp [fixLeftOf]
theorem fixGenerate011_remove (E : Env) (a : KV) (l : List Tok) : fixGenerate011 E true a l = removeOptionalItem l := by
  simp [fixGenerate011]

end Vsgm.Base.Insert
