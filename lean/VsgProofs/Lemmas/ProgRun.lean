/-
  Layer P: the invariant principle lifted through the step functions and the fuel induction.
  Main result: `inv_run`.
-/
import VsgModel.Prog.Check
import VsgProofs.Lemmas.ProgInv
namespace Vsgm.Prog
open Vsgm Vsgm.Classify

theorem Inv.step {r : Rel} {m : M α} (hm : Inv r m) {st : State} {res : Except Err α} {st' : State}
    (h : m st = (res, st')) : r.I st st' := by
  have := hm st; rw [h] at this; exact this

/-- does `p(vs)` reach one of the writers of the token list? -/
def writesToks : Prim → List Val → Bool
  | .listAppend, [.toks, .tok _] => true
  | .listPop, [.toks] => true
  | .listPop, [.toks, _] => true
  | .listInsert, [.toks, _, .tok _] => true
  | _, _ => false

/-- closes `Inv` goals of straight-line code from `Pres` facts -/
macro "inv_tac" : tactic =>
  `(tactic| repeat (first
    | exact inv_pure _ _ | exact inv_raise _ _ | exact pres_unmod.inv | exact pres_typeErr.inv | exact pres_indexErr.inv
    | exact pres_getSt.inv | exact (pres_getVar _).inv | exact (pres_setVar _ _).inv | exact (pres_getGlobal _).inv
    | exact (pres_allocList _).inv | exact (pres_readList _).inv | exact (pres_writeList _ _).inv
    | exact (pres_strArg _).inv | exact (pres_strArgs _).inv | exact (pres_tokArg _).inv | exact (pres_isinstanceV _ _ _).inv
    | exact (pres_truthy _).inv | exact (pres_cmpVals _ _ _).inv | exact (pres_binopVals _ _ _).inv
    | exact (pres_indexVal _ _).inv | exact (pres_sliceVal _ _ _).inv | exact (pres_construct _ _ _).inv
    | exact (pres_getAttr _ _ _).inv | exact (pres_toIter _).inv | exact (pres_optBound _ _ _).inv
    | assumption
    | (refine inv_bind ?_ (fun _ => ?_)) | (apply inv_ite) | split))

theorem inv_doPrim {S : Sys} {r : Rel} (p : Prim) (vs : List Val)
    (hw : writesToks p vs = true → Inv r (doPrim S p vs)) : Inv r (doPrim S p vs) := by
  by_cases h : writesToks p vs = true
  · exact hw h
  · unfold doPrim
    split <;> first
      | (exfalso; apply h; rfl)
      | inv_tac

/-- the writers respect the relation: then every built-in does -/
theorem inv_doPrim_writers {S : Sys} {r : Rel} (W : Writers S r) (p : Prim) (vs : List Val) : Inv r (doPrim S p vs) := by
  apply inv_doPrim
  intro h
  unfold writesToks at h
  split at h
  · simp only [doPrim]
    refine inv_bind pres_getSt.inv fun st => inv_bind (W.insert _ _) fun _ => inv_pure _ _
  · simp only [doPrim]; exact W.pop _
  · rename_i iv
    simp only [doPrim]
    split
    · exact W.pop _
    · exact pres_typeErr.inv
  · simp only [doPrim]
    split
    · exact inv_bind (W.insert _ _) fun _ => inv_pure _ _
    · exact pres_typeErr.inv
  · exact absurd h (by simp)

/-- what the induction carries about the evaluator of the lower fuel -/
structure RecInv (r : Rel) (C : Chk) (R : Rec) : Prop where
  expr : ∀ e, e.ok C = true → Inv r (R.expr e)
  stmt : ∀ s, s.ok C = true → Inv r (R.stmt s)
  call : ∀ f args, Inv r (R.call f args)
  strLit : ∀ s st, R.expr (.str s) st = (.ok (.str s), st) ∨ ∃ e, R.expr (.str s) st = (.error e, st)

/-- the instance-specific facts: where the checker lets a writer occur, it respects the relation -/
structure Sound (S : Sys) (r : Rel) (C : Chk) : Prop where
  set : C.idxStore = true → ∀ k t, Inv r (toksSet k t)
  retag : ∀ b, C.retag b = true → ∀ l x c, Inv r (retag S l x c b)
  prim : ∀ p args, C.prim p args = true → ∀ R, RecInv r C R → Expr.okList C args = true →
    Inv r (evalArgs R args >>= doPrim S p)

section
variable {S : Sys} {r : Rel} {C : Chk} {R : Rec}

theorem inv_evalArgs (hR : ∀ e, e.ok C = true → Inv r (R.expr e)) :
    ∀ es, Expr.okList C es = true → Inv r (evalArgs R es)
  | [], _ => inv_pure r _
  | e :: es, h => by
    have h' : e.ok C = true ∧ Expr.okList C es = true := by simpa [Expr.okList] using h
    intro st
    unfold evalArgs
    generalize hx : R.expr e st = p
    obtain ⟨res, st1⟩ := p
    have i1 := (hR e h'.1).step hx
    cases res with
    | error x => exact i1
    | ok v =>
      simp only
      generalize hy : evalArgs R es st1 = q
      obtain ⟨res2, st2⟩ := q
      have i2 := (inv_evalArgs hR es h'.2).step hy
      cases res2 <;> exact r.trans _ _ _ i1 i2

theorem inv_evalOpt (hR : ∀ e, e.ok C = true → Inv r (R.expr e)) (o : Option Expr) (h : Expr.okOpt C o = true) :
    Inv r (evalOpt R o) := by
  cases o with
  | none => exact inv_pure _ _
  | some e =>
    simp only [evalOpt]
    exact inv_bind (hR e (by simpa [Expr.okOpt] using h)) fun _ => inv_pure _ _

theorem inv_applyVal (hR : RecInv r C R) (f : Val) (args : List Val) : Inv r (applyVal S R f args) := by
  unfold applyVal
  split
  · exact (pres_construct _ _ _).inv
  · exact hR.call _ _
  · exact pres_typeErr.inv
  · exact pres_unmod.inv

theorem inv_stepExpr (hS : Sound S r C) (hR : RecInv r C R) (e : Expr) (h : e.ok C = true) : Inv r (stepExpr S R e) := by
  have hE := hR.expr
  cases e with
  | none => exact inv_pure _ _
  | bool b => exact inv_pure _ _
  | int i => exact inv_pure _ _
  | str s => exact inv_pure _ _
  | var x => exact (pres_getVar _).inv
  | glob g => exact (pres_getGlobal _).inv
  | clsC c => exact inv_pure _ _
  | modC m => exact inv_pure _ _
  | fnC f => exact inv_pure _ _
  | regexC f => exact inv_pure _ _
  | list es =>
    simp only [stepExpr]
    exact inv_bind (inv_evalArgs hE es (by simpa [Expr.ok] using h)) fun _ => (pres_allocList _).inv
  | tuple es =>
    simp only [stepExpr]
    exact inv_bind (inv_evalArgs hE es (by simpa [Expr.ok] using h)) fun _ => inv_pure _ _
  | binop op a b =>
    have h' : a.ok C = true ∧ b.ok C = true := by simpa [Expr.ok] using h
    simp only [stepExpr]
    exact inv_bind (hE a h'.1) fun _ => inv_bind (hE b h'.2) fun _ => (pres_binopVals _ _ _).inv
  | neg a =>
    simp only [stepExpr]
    refine inv_bind (hE a (by simpa [Expr.ok] using h)) fun _ => ?_
    split
    · exact inv_pure _ _
    · exact pres_typeErr.inv
  | cmp op a b =>
    have h' : a.ok C = true ∧ b.ok C = true := by simpa [Expr.ok] using h
    simp only [stepExpr]
    exact inv_bind (hE a h'.1) fun _ => inv_bind (hE b h'.2) fun _ => (pres_cmpVals _ _ _).inv
  | and a b =>
    have h' : a.ok C = true ∧ b.ok C = true := by simpa [Expr.ok] using h
    simp only [stepExpr]
    refine inv_bind (hE a h'.1) fun _ => inv_bind (pres_truthy _).inv fun t => ?_
    split
    · exact hE b h'.2
    · exact inv_pure _ _
  | or a b =>
    have h' : a.ok C = true ∧ b.ok C = true := by simpa [Expr.ok] using h
    simp only [stepExpr]
    refine inv_bind (hE a h'.1) fun _ => inv_bind (pres_truthy _).inv fun t => ?_
    split
    · exact inv_pure _ _
    · exact hE b h'.2
  | not a =>
    simp only [stepExpr]
    exact inv_bind (hE a (by simpa [Expr.ok] using h)) fun _ => inv_bind (pres_truthy _).inv fun _ => inv_pure _ _
  | index l i =>
    have h' : (C.index = true ∧ l.ok C = true) ∧ i.ok C = true := by simpa [Expr.ok] using h
    simp only [stepExpr]
    exact inv_bind (hE l h'.1.2) fun _ => inv_bind (hE i h'.2) fun _ => (pres_indexVal _ _).inv
  | slice l lo hi =>
    have h' : (l.ok C = true ∧ Expr.okOpt C lo = true) ∧ Expr.okOpt C hi = true := by simpa [Expr.ok] using h
    simp only [stepExpr]
    exact inv_bind (hE l h'.1.1) fun _ => inv_bind (inv_evalOpt hE lo h'.1.2) fun _ =>
      inv_bind (inv_evalOpt hE hi h'.2) fun _ => (pres_sliceVal _ _ _).inv
  | attr e n =>
    simp only [stepExpr]
    exact inv_bind (hE e (by simpa [Expr.ok] using h)) fun _ => (pres_getAttr _ _ _).inv
  | call f args =>
    have h' : f.ok C = true ∧ Expr.okList C args = true := by simpa [Expr.ok] using h
    simp only [stepExpr]
    exact inv_bind (hE f h'.1) fun _ => inv_bind (inv_evalArgs hE args h'.2) fun _ => inv_applyVal hR _ _
  | callF f args =>
    simp only [stepExpr]
    exact inv_bind (inv_evalArgs hE args (by simpa [Expr.ok] using h)) fun _ => hR.call _ _
  | prim p args =>
    have h' : C.prim p args = true ∧ Expr.okList C args = true := by simpa [Expr.ok] using h
    simp only [stepExpr]
    exact hS.prim p args h'.1 R hR h'.2
  | fstr ps =>
    simp only [stepExpr]
    refine inv_bind (inv_evalArgs hE ps (by simpa [Expr.ok] using h)) fun _ => ?_
    split
    · exact inv_pure _ _
    · exact pres_unmod.inv

theorem inv_execBlock (hR : ∀ s, s.ok C = true → Inv r (R.stmt s)) :
    ∀ ss, Stmt.okBlock C ss = true → Inv r (execBlock R ss)
  | [], _ => inv_pure r _
  | s :: ss, h => by
    have h' : s.ok C = true ∧ Stmt.okBlock C ss = true := by simpa [Stmt.okBlock] using h
    intro st
    unfold execBlock
    generalize hx : R.stmt s st = p
    obtain ⟨res, st1⟩ := p
    have i1 := (hR s h'.1).step hx
    split
    · rename_i st2 heq
      have : st2 = st1 := by cases heq; rfl
      subst this
      exact r.trans _ _ _ i1 (inv_execBlock hR ss h'.2 st2)
    · exact i1

theorem inv_assignSimple (hS : Sound S r C) (hR : RecInv r C R)
    (t : Target) (h : t.okSimple C = true) (v : Val) : Inv r (assignSimple R t v) := by
  cases t with
  | var x => exact (pres_setVar _ _).inv
  | tuple ts => exact pres_unmod.inv
  | index l i =>
    have h' : (C.idxStore = true ∧ l.ok C = true) ∧ i.ok C = true := by simpa [Target.okSimple] using h
    simp only [assignSimple]
    exact inv_bind (hR.expr l h'.1.2) fun _ => inv_bind (hR.expr i h'.2) fun _ => inv_storeIndex (hS.set h'.1.1) _ _ _

theorem inv_assignMany (hS : Sound S r C) (hR : RecInv r C R) :
    ∀ (ts : List Target) (vs : List Val), ts.all (Target.okSimple C) = true → Inv r (assignMany R ts vs)
  | [], [], _ => inv_pure r _
  | [], _ :: _, _ => inv_raise r _
  | _ :: _, [], _ => inv_raise r _
  | t :: ts, v :: vs, h => by
    have h' : t.okSimple C = true ∧ ts.all (Target.okSimple C) = true := by simpa using h
    simp only [assignMany]
    exact inv_bind (inv_assignSimple hS hR t h'.1 v) fun _ => inv_assignMany hS hR ts vs h'.2

theorem inv_assignTarget (hS : Sound S r C) (hR : RecInv r C R)
    (t : Target) (h : t.ok C = true) (v : Val) : Inv r (assignTarget R t v) := by
  cases t with
  | var x => exact inv_assignSimple hS hR _ (by simpa [Target.ok] using h) v
  | index l i => exact inv_assignSimple hS hR _ (by simpa [Target.ok] using h) v
  | tuple ts =>
    have h' : ts.all (Target.okSimple C) = true := by simpa [Target.ok] using h
    simp only [assignTarget]
    split
    · exact inv_assignMany hS hR ts _ h'
    · exact inv_bind (pres_readList _).inv fun _ => inv_assignMany hS hR ts _ h'
    · exact pres_unmod.inv
    · exact pres_typeErr.inv

theorem inv_mkIter (hR : RecInv r C R) (it : IterE) (h : it.ok C = true) : Inv r (mkIter R it) := by
  have hE := hR.expr
  cases it with
  | range args =>
    simp only [mkIter]
    refine inv_bind (inv_evalArgs hE args (by simpa [IterE.ok] using h)) fun _ => ?_
    split
    · exact inv_pure _ _
    · exact inv_pure _ _
    · split
      · exact inv_raise _ _
      · exact inv_pure _ _
    · split
      · exact pres_unmod.inv
      · exact pres_typeErr.inv
  | enumFrom l s =>
    have h' : l.ok C = true ∧ s.ok C = true := by simpa [IterE.ok] using h
    simp only [mkIter]
    refine inv_bind (hE l h'.1) fun _ => inv_bind (hE s h'.2) fun _ => ?_
    split
    · exact inv_bind pres_getSt.inv fun _ => inv_bind (pres_optBound _ _ _).inv fun _ => inv_pure _ _
    · exact inv_bind (pres_readList _).inv fun _ => inv_bind (pres_optBound _ _ _).inv fun _ => inv_pure _ _
    · exact pres_typeErr.inv
    · exact pres_unmod.inv
  | enumerate e =>
    simp only [mkIter]
    exact inv_bind (hE e (by simpa [IterE.ok] using h)) fun _ => inv_bind (pres_toIter _).inv fun _ => inv_pure _ _
  | plain e =>
    simp only [mkIter]
    exact inv_bind (hE e (by simpa [IterE.ok] using h)) fun _ => (pres_toIter _).inv

theorem steps_ext (r : Rel) (st : State) (k : Nat) : r.I st { st with steps := k } := r.ext _ _ rfl rfl rfl

theorem inv_whileLoop (hR : RecInv r C R) (ms : Nat) (c : Expr) (body : List Stmt)
    (hc : c.ok C = true) (hb : Stmt.okBlock C body = true) : ∀ k, Inv r (whileLoop ms R c body k)
  | 0 => inv_raise r _
  | k + 1 => by
    intro st
    unfold whileLoop
    split
    · exact r.refl _
    · generalize hx : R.expr c { st with steps := st.steps + 1 } = p
      obtain ⟨res, st1⟩ := p
      have i1 := r.trans _ _ _ (steps_ext r st _) ((hR.expr c hc).step hx)
      cases res with
      | error e => exact i1
      | ok v =>
        simp only
        generalize hy : truthy v st1 = q
        obtain ⟨res2, st2⟩ := q
        have i2 := r.trans _ _ _ i1 ((pres_truthy v).inv.step hy)
        cases res2 with
        | error e => exact i2
        | ok b =>
          cases b with
          | false => exact i2
          | true =>
            simp only
            generalize hz : execBlock R body st2 = w
            obtain ⟨res3, st3⟩ := w
            have i3 := r.trans _ _ _ i2 ((inv_execBlock hR.stmt body hb).step hz)
            cases res3 with
            | error e => exact i3
            | ok f =>
              cases f with
              | brk => exact i3
              | ret v => exact i3
              | normal => exact r.trans _ _ _ i3 (inv_whileLoop hR ms c body hc hb k st3)
              | cont => exact r.trans _ _ _ i3 (inv_whileLoop hR ms c body hc hb k st3)

theorem inv_forLoop (hS : Sound S r C) (hR : RecInv r C R) (ms : Nat)
    (t : Target) (body orelse : List Stmt)
    (ht : t.ok C = true) (hb : Stmt.okBlock C body = true) (ho : Stmt.okBlock C orelse = true) :
    ∀ k it, Inv r (forLoop ms R t body orelse k it)
  | 0, _ => inv_raise r _
  | k + 1, it => by
    intro st
    unfold forLoop
    split
    · exact r.refl _
    · split
      · exact inv_execBlock hR.stmt orelse ho st
      · rename_i v it' _
        generalize hx : assignTarget R t v { st with steps := st.steps + 1 } = p
        obtain ⟨res, st1⟩ := p
        have i1 := r.trans _ _ _ (steps_ext r st _) ((inv_assignTarget hS hR t ht v).step hx)
        cases res with
        | error e => exact i1
        | ok u =>
          simp only
          generalize hz : execBlock R body st1 = w
          obtain ⟨res3, st3⟩ := w
          have i3 := r.trans _ _ _ i1 ((inv_execBlock hR.stmt body hb).step hz)
          cases res3 with
          | error e => exact i3
          | ok f =>
            cases f with
            | brk => exact i3
            | ret v => exact i3
            | normal => exact r.trans _ _ _ i3 (inv_forLoop hS hR ms t body orelse ht hb ho k it' st3)
            | cont => exact r.trans _ _ _ i3 (inv_forLoop hS hR ms t body orelse ht hb ho k it' st3)

theorem okBlock_of_handler {e : Err} : ∀ {hs : List (List Exc × List Stmt)} {b : List Stmt},
    Stmt.okHandlers C hs = true → findHandler e hs = some b → Stmt.okBlock C b = true
  | [], _, _, h => by simp [findHandler] at h
  | (xs, b') :: hs, b, hok, h => by
    have h' : Stmt.okBlock C b' = true ∧ Stmt.okHandlers C hs = true := by simpa [Stmt.okHandlers] using hok
    simp only [findHandler] at h
    split at h
    · cases h; exact h'.1
    · exact okBlock_of_handler h'.2 h

theorem inv_stepStmt (hS : Sound S r C) (hR : RecInv r C R) (n : Nat)
    (s : Stmt) (h : s.ok C = true) : Inv r (stepStmt S R n s) := by
  have hE := hR.expr
  cases s with
  | assign t e =>
    have h' : t.ok C = true ∧ e.ok C = true := by simpa [Stmt.ok] using h
    simp only [stepStmt]
    exact inv_bind (hE e h'.2) fun _ => inv_bind (inv_assignTarget hS hR t h'.1 _) fun _ => inv_pure _ _
  | aug t op e =>
    have h' : t.ok C = true ∧ e.ok C = true := by simpa [Stmt.ok] using h
    simp only [stepStmt]
    split
    · exact inv_bind (pres_getVar _).inv fun _ => inv_bind (hE e h'.2) fun _ =>
        inv_bind (pres_binopVals _ _ _).inv fun _ => inv_bind (pres_setVar _ _).inv fun _ => inv_pure _ _
    · exact pres_unmod.inv
  | expr e =>
    simp only [stepStmt]
    exact inv_bind (hE e (by simpa [Stmt.ok] using h)) fun _ => inv_pure _ _
  | ite c t e =>
    have h' : (c.ok C = true ∧ Stmt.okBlock C t = true) ∧ Stmt.okBlock C e = true := by simpa [Stmt.ok] using h
    simp only [stepStmt]
    refine inv_bind (hE c h'.1.1) fun _ => inv_bind (pres_truthy _).inv fun b => ?_
    split
    · exact inv_execBlock hR.stmt t h'.1.2
    · exact inv_execBlock hR.stmt e h'.2
  | «while» c b =>
    have h' : c.ok C = true ∧ Stmt.okBlock C b = true := by simpa [Stmt.ok] using h
    simp only [stepStmt]
    exact inv_whileLoop hR _ c b h'.1 h'.2 n
  | «for» t it b o =>
    have h' : ((t.ok C = true ∧ it.ok C = true) ∧ Stmt.okBlock C b = true) ∧ Stmt.okBlock C o = true := by
      simpa [Stmt.ok] using h
    simp only [stepStmt]
    exact inv_bind (inv_mkIter hR it h'.1.1.2) fun _ => inv_forLoop hS hR _ t b o h'.1.1.1 h'.1.2 h'.2 n _
  | ret e =>
    simp only [stepStmt]
    exact inv_bind (hE e (by simpa [Stmt.ok] using h)) fun _ => inv_pure _ _
  | brk => exact inv_pure _ _
  | cont => exact inv_pure _ _
  | pass => exact inv_pure _ _
  | «try» b hs =>
    have h' : Stmt.okBlock C b = true ∧ Stmt.okHandlers C hs = true := by simpa [Stmt.ok] using h
    intro st
    simp only [stepStmt]
    generalize hx : execBlock R b st = p
    obtain ⟨res, st1⟩ := p
    have i1 := (inv_execBlock hR.stmt b h'.1).step hx
    cases res with
    | ok f => exact i1
    | error e =>
      simp only
      split
      · rename_i hb hfind
        exact r.trans _ _ _ i1 (inv_execBlock hR.stmt hb (okBlock_of_handler h'.2 hfind) st1)
      · exact i1
  | raise e =>
    have h' : C.raise = true ∧ e.ok C = true := by simpa [Stmt.ok] using h
    simp only [stepStmt]
    refine inv_bind (hE e h'.2) fun v => ?_
    split
    · refine inv_bind (Pres.inv (pres_modSt ?_)) fun _ => inv_raise _ _
      intro _; exact ⟨rfl, rfl, rfl⟩
    · exact pres_unmod.inv
  | del l i => exact pres_unmod.inv
  | retag l x c b =>
    simp only [stepStmt]
    exact inv_bind (hS.retag b (by simpa [Stmt.ok] using h) l x c) fun _ => inv_pure _ _

theorem okList_drop : ∀ (es : List Expr) (k : Nat), Expr.okList C es = true → Expr.okList C (es.drop k) = true
  | es, 0, h => by simpa using h
  | [], _ + 1, _ => by simp [Expr.okList]
  | e :: es, k + 1, h => by
    have h' : e.ok C = true ∧ Expr.okList C es = true := by simpa [Expr.okList] using h
    simpa using okList_drop es k h'.2

theorem inv_stepCall (hR : RecInv r C R) (htab : ∀ fd ∈ S.funs.toList, fd.ok C = true) (f : Nat) (args : List Val) :
    Inv r (stepCall S R f args) := by
  intro st
  unfold stepCall
  split
  · exact r.refl _
  · rename_i fd hfd
    have hmem : fd ∈ S.funs.toList := by
      have := Array.mem_of_getElem? hfd
      exact Array.mem_toList_iff.mpr this
    have hok := htab fd hmem
    have hok' : Expr.okList C fd.defaults = true ∧ Stmt.okBlock C fd.body = true := by simpa [FunDef.ok] using hok
    split
    · exact r.refl _
    · split
      · exact r.refl _
      · split
        · exact r.refl _
        · split
          · exact r.refl _
          · generalize hx : evalArgs R (fd.defaults.drop (args.length + fd.defaults.length - fd.nparams)) st = p
            obtain ⟨res, st1⟩ := p
            have i1 := (inv_evalArgs hR.expr _ (okList_drop fd.defaults _ hok'.1)).step hx
            cases res with
            | error e => exact i1
            | ok dv =>
              simp only
              generalize hz : execBlock R fd.body _ = w
              obtain ⟨res3, st3⟩ := w
              have i3 := (inv_execBlock hR.stmt fd.body hok'.2).step hz
              have i12 : r.I st1 { st1 with frame := mkFrame fd.nlocals (args ++ dv), depth := st1.depth + 1, steps := st1.steps + 1, calls := st1.calls.modify f (· + 1) } := r.ext _ _ rfl rfl rfl
              have i13 := r.trans _ _ _ (r.trans _ _ _ i1 i12) i3
              cases res3 with
              | error e => exact r.trans _ _ _ i13 (r.ext _ _ rfl rfl rfl)
              | ok f => cases f <;> exact r.trans _ _ _ i13 (r.ext _ _ rfl rfl rfl)

/-- the evaluator of every fuel respects the relation: any table that passes the check, any expression /
    statement that passes it, any call -/
theorem inv_run (hS : Sound S r C)
    (htab : ∀ fd ∈ S.funs.toList, fd.ok C = true) : ∀ n, RecInv r C (run S n)
  | 0 =>
    { expr := fun _ _ => inv_raise r _, stmt := fun _ _ => inv_raise r _, call := fun _ _ => inv_raise r _
      strLit := fun _ _ => Or.inr ⟨_, rfl⟩ }
  | n + 1 =>
    have ih := inv_run hS htab n
    { expr := fun e h => inv_stepExpr hS ih e h
      stmt := fun s h => inv_stepStmt hS ih n s h
      call := fun f args => inv_stepCall ih htab f args
      strLit := fun _ _ => Or.inl rfl }

end

end Vsgm.Prog
