/-
  Helper lemmas for C11: the tag state machine seen through `tagOf`, its invariants, and the
  characterisation of the stamped lists by the backwards scans of the specification.
-/
import VsgModel.Engine.CodeTags
namespace Vsgm.CT
open Vsgm

/-- state after the tokens of `l` -/
def run (s : St) (l : List TTok) : St := l.foldl update s

@[simp] theorem run_nil (s : St) : run s [] = s := rfl
@[simp] theorem run_cons (s : St) (c : TTok) (l : List TTok) : run s (c :: l) = run (update s c) l := rfl
theorem run_append (s : St) (a b : List TTok) : run s (a ++ b) = run (run s a) b := by
  simp [run, List.foldl_append]

/-- `update` through the reading of the comment -/
def step (s : St) : TagC → St
  | .cr => if s.ign then { s with ign := false } else { s with next := [] }
  | .on true _ => s.clear
  | .on false ids => ids.foldl St.remove s
  | .off true _ => s.clear.add kAll
  | .off false ids => ids.foldl St.add s
  | .next ids => { ids.foldl St.addNext s with ign := true }
  | .plain => s

theorem update_eq_step (s : St) (c : TTok) : update s c = step s (tagOf c) := by
  cases c with
  | cr => rfl
  | other => rfl
  | comment v =>
    unfold update tagOf
    by_cases h1 : onDetected (.comment v) = true
    · simp only [h1, if_true]
      unfold removeCodeTags
      cases hb : bareCodeTag (values v) <;> simp [step]
    · by_cases h2 : offDetected (.comment v) = true
      · simp only [h1, h2, if_true]
        unfold addCodeTags
        cases hb : bareCodeTag (values v) <;> simp [step]
      · by_cases h3 : nextDetected (.comment v) = true
        · simp [h1, h2, h3, step, addNextLineCodeTags]
        · simp [h1, h2, h3, step]

/-! ### folds -/

theorem foldl_add_tags (ids : List Tag) (s : St) (t : Tag) :
    t ∈ (ids.foldl St.add s).tags ↔ t ∈ s.tags ∨ t ∈ ids := by
  induction ids generalizing s with
  | nil => simp
  | cons a r ih =>
    simp only [List.foldl_cons, ih, List.mem_cons]
    unfold St.add
    by_cases h : a ∈ s.tags
    · simp only [h, if_true]
      constructor
      · rintro (h' | h') <;> simp [h']
      · rintro (h' | h' | h')
        · exact Or.inl h'
        · exact Or.inl (h' ▸ h)
        · exact Or.inr h'
    · simp only [h, if_false, List.mem_append, List.mem_singleton]
      constructor
      · rintro ((h' | h') | h') <;> simp [h']
      · rintro (h' | h' | h') <;> simp [h']

theorem foldl_add_next (ids : List Tag) (s : St) : (ids.foldl St.add s).next = s.next ∧ (ids.foldl St.add s).ign = s.ign := by
  induction ids generalizing s with
  | nil => simp
  | cons a r ih =>
    simp only [List.foldl_cons]
    rw [(ih _).1, (ih _).2]
    unfold St.add
    split <;> simp

theorem foldl_add_nodup (ids : List Tag) (s : St) (h : s.tags.Nodup) : (ids.foldl St.add s).tags.Nodup := by
  induction ids generalizing s with
  | nil => simpa
  | cons a r ih =>
    simp only [List.foldl_cons]
    apply ih
    unfold St.add
    by_cases h' : a ∈ s.tags
    · simpa [h'] using h
    · simp only [h', if_false]
      rw [List.nodup_append]
      refine ⟨h, by simp, ?_⟩
      intro x hx y hy
      simp at hy
      subst hy
      intro e
      exact h' (e ▸ hx)

theorem foldl_remove_other (ids : List Tag) (s : St) : (ids.foldl St.remove s).next = s.next ∧ (ids.foldl St.remove s).ign = s.ign := by
  induction ids generalizing s with
  | nil => simp
  | cons a r ih =>
    simp only [List.foldl_cons]
    rw [(ih _).1, (ih _).2]
    unfold St.remove
    split <;> simp

theorem remove_nodup (s : St) (a : Tag) (h : s.tags.Nodup) : (s.remove a).tags.Nodup := by
  unfold St.remove
  split
  · exact h.erase a
  · exact h

theorem remove_mem (s : St) (a t : Tag) (h : s.tags.Nodup) : t ∈ (s.remove a).tags ↔ t ∈ s.tags ∧ t ≠ a := by
  unfold St.remove
  split
  · simp only [h.mem_erase_iff]
    exact ⟨fun ⟨x, y⟩ => ⟨y, x⟩, fun ⟨x, y⟩ => ⟨y, x⟩⟩
  · rename_i hn
    constructor
    · intro ht
      exact ⟨ht, fun e => hn (e ▸ ht)⟩
    · exact fun x => x.1

theorem foldl_remove_nodup (ids : List Tag) (s : St) (h : s.tags.Nodup) : (ids.foldl St.remove s).tags.Nodup := by
  induction ids generalizing s with
  | nil => simpa
  | cons a r ih => exact ih _ (remove_nodup s a h)

theorem foldl_remove_tags (ids : List Tag) (s : St) (t : Tag) (h : s.tags.Nodup) :
    t ∈ (ids.foldl St.remove s).tags ↔ t ∈ s.tags ∧ t ∉ ids := by
  induction ids generalizing s with
  | nil => simp
  | cons a r ih =>
    simp only [List.foldl_cons, ih _ (remove_nodup s a h), remove_mem s a t h, List.mem_cons, not_or]
    constructor
    · rintro ⟨⟨x, y⟩, z⟩
      exact ⟨x, y, z⟩
    · rintro ⟨x, y, z⟩
      exact ⟨⟨x, y⟩, z⟩

theorem foldl_addNext_next (ids : List Tag) (s : St) (t : Tag) :
    t ∈ (ids.foldl St.addNext s).next ↔ t ∈ s.next ∨ t ∈ ids := by
  induction ids generalizing s with
  | nil => simp
  | cons a r ih =>
    simp only [List.foldl_cons, ih, List.mem_cons]
    unfold St.addNext
    by_cases h : a ∈ s.next
    · simp only [h, if_true]
      constructor
      · rintro (h' | h') <;> simp [h']
      · rintro (h' | h' | h')
        · exact Or.inl h'
        · exact Or.inl (h' ▸ h)
        · exact Or.inr h'
    · simp only [h, if_false, List.mem_append, List.mem_singleton]
      constructor
      · rintro ((h' | h') | h') <;> simp [h']
      · rintro (h' | h' | h') <;> simp [h']

theorem foldl_addNext_other (ids : List Tag) (s : St) : (ids.foldl St.addNext s).tags = s.tags ∧ (ids.foldl St.addNext s).ign = s.ign := by
  induction ids generalizing s with
  | nil => simp
  | cons a r ih =>
    simp only [List.foldl_cons]
    rw [(ih _).1, (ih _).2]
    unfold St.addNext
    split <;> simp

theorem foldl_addNext_nodup (ids : List Tag) (s : St) (h : s.next.Nodup) : (ids.foldl St.addNext s).next.Nodup := by
  induction ids generalizing s with
  | nil => simpa
  | cons a r ih =>
    simp only [List.foldl_cons]
    apply ih
    unfold St.addNext
    by_cases h' : a ∈ s.next
    · simpa [h'] using h
    · simp only [h', if_false]
      rw [List.nodup_append]
      refine ⟨h, by simp, ?_⟩
      intro x hx y hy
      simp at hy
      subst hy
      intro e
      exact h' (e ▸ hx)

/-! ### one step -/

def Inv (s : St) : Prop := s.tags.Nodup ∧ s.next.Nodup

theorem inv_new : Inv St.new := by simp [Inv, St.new]

theorem inv_step (s : St) (e : TagC) (h : Inv s) : Inv (step s e) := by
  obtain ⟨h1, h2⟩ := h
  cases e with
  | cr => simp only [step]; split <;> simp [Inv, h1, h2]
  | on b ids =>
    cases b
    · exact ⟨foldl_remove_nodup ids s h1, by simpa [step, (foldl_remove_other ids s).1] using h2⟩
    · simp [step, Inv, St.clear]
  | off b ids =>
    cases b
    · exact ⟨foldl_add_nodup ids s h1, by simpa [step, (foldl_add_next ids s).1] using h2⟩
    · simp [step, Inv, St.clear, St.add]
  | next ids =>
    exact ⟨by simpa [step, (foldl_addNext_other ids s).1] using h1, foldl_addNext_nodup ids s h2⟩
  | plain => exact ⟨h1, h2⟩

theorem mem_tags_step (s : St) (e : TagC) (t : Tag) (h : s.tags.Nodup) :
    t ∈ (step s e).tags ↔ (e.opens t = true ∨ (e.closes t = false ∧ t ∈ s.tags)) := by
  cases e with
  | cr => simp only [step]; split <;> simp [TagC.opens, TagC.closes]
  | on b ids =>
    cases b
    · simp [step, TagC.opens, TagC.closes, foldl_remove_tags ids s t h, and_comm]
    · simp [step, TagC.opens, TagC.closes, St.clear]
  | off b ids =>
    cases b
    · simp [step, TagC.opens, TagC.closes, foldl_add_tags, or_comm]
    · simp [step, TagC.opens, TagC.closes, St.clear, St.add]
  | next ids => simp [step, TagC.opens, TagC.closes, (foldl_addNext_other ids s).1]
  | plain => simp [step, TagC.opens, TagC.closes]

theorem mem_next_step (s : St) (e : TagC) (t : Tag) :
    t ∈ (step s e).next ↔
      (match e with
       | .cr => s.ign = true ∧ t ∈ s.next
       | .next ids => t ∈ ids ∨ t ∈ s.next
       | .on true _ => False
       | .off true _ => False
       | _ => t ∈ s.next) := by
  cases e with
  | cr => simp only [step]; cases s.ign <;> simp
  | on b ids =>
    cases b
    · simp [step, (foldl_remove_other ids s).1]
    · simp [step, St.clear]
  | off b ids =>
    cases b
    · simp [step, (foldl_add_next ids s).1]
    · simp [step, St.clear, St.add]
  | next ids => simp [step, foldl_addNext_next, or_comm]
  | plain => simp [step]

theorem ign_step (s : St) (e : TagC) :
    (step s e).ign = (match e with | .cr => false | .next _ => true | _ => s.ign) := by
  cases e with
  | cr => simp only [step]; cases s.ign <;> simp
  | on b ids =>
    cases b
    · simp [step, (foldl_remove_other ids s).2]
    · simp [step, St.clear]
  | off b ids =>
    cases b
    · simp [step, (foldl_add_next ids s).2]
    · simp [step, St.clear, St.add]
  | next ids => simp [step]
  | plain => simp [step]

/-! ### the state after a prefix, read off the prefix -/

theorem run_snoc (s : St) (l : List TTok) (c : TTok) : run s (l ++ [c]) = step (run s l) (tagOf c) := by
  rw [run_append, run_cons, run_nil, update_eq_step]

theorem inv_run_rev (r : List TTok) : Inv (run St.new r.reverse) := by
  induction r with
  | nil => exact inv_new
  | cons c r ih => rw [List.reverse_cons, run_snoc]; exact inv_step _ _ ih

theorem inv_run (l : List TTok) : Inv (run St.new l) := by
  have := inv_run_rev l.reverse
  rwa [List.reverse_reverse] at this

theorem offGov_cons (c : TTok) (r : List TTok) (t : Tag) :
    offGov (c :: r) t = (if (tagOf c).opens t then true else if (tagOf c).closes t then false else offGov r t) := rfl

theorem nlGov_cons (p : Bool) (c : TTok) (r : List TTok) (t : Tag) :
    nlGov p (c :: r) t =
      (match tagOf c with
       | .cr => if p then false else nlGov true r t
       | .next ids => if ids.contains t then true else nlGov false r t
       | .on true _ => false
       | .off true _ => false
       | _ => nlGov p r t) := by
  rw [nlGov]
  rfl

/-- `r` = the prefix, nearest token first -/
theorem mem_tags_run (r : List TTok) (t : Tag) : t ∈ (run St.new r.reverse).tags ↔ offGov r t = true := by
  induction r with
  | nil => simp [St.new, offGov]
  | cons c r ih =>
    rw [List.reverse_cons, run_snoc, mem_tags_step _ _ _ (inv_run _).1, ih]
    rw [offGov_cons]
    cases ho : (tagOf c).opens t <;> cases hc : (tagOf c).closes t <;> simp

theorem mem_next_run (r : List TTok) (t : Tag) :
    (t ∈ (run St.new r.reverse).next ↔ nlGov false r t = true) ∧
    ((t ∈ (run St.new r.reverse).next ∧ (run St.new r.reverse).ign = true) ↔ nlGov true r t = true) := by
  induction r with
  | nil => simp [St.new, nlGov]
  | cons c r ih =>
    rw [List.reverse_cons, run_snoc, mem_next_step, ign_step, nlGov_cons, nlGov_cons]
    cases he : tagOf c with
    | cr => simp [← ih.2, and_comm]
    | on b ids => cases b <;> simp [← ih.1, ← ih.2]
    | off b ids => cases b <;> simp [← ih.1, ← ih.2]
    | next ids =>
      by_cases hm : t ∈ ids
      · simp [hm]
      · simp [hm, ← ih.1]
    | plain => simp [← ih.1, ← ih.2]

/-! ### the stamped lists -/

/-- the state whose `get_tags()` is stamped on `c` -/
def stampState (s : St) (c : TTok) : St :=
  match tagOf c with
  | .off _ _ => update s c
  | .next _ => update s c
  | _ => s

theorem setCodeTagsFrom_cons (s : St) (c : TTok) (ts : List TTok) :
    setCodeTagsFrom s (c :: ts) = (stampState s c).getTags :: setCodeTagsFrom (update s c) ts := by
  cases c with
  | cr => simp [setCodeTagsFrom, stampState, tagOf, onDetected, offDetected, nextDetected, startsWith]
  | other => simp [setCodeTagsFrom, stampState, tagOf, onDetected, offDetected, nextDetected, startsWith]
  | comment v =>
    simp only [setCodeTagsFrom, stampState, tagOf]
    by_cases h1 : onDetected (.comment v) = true
    · simp [h1]
    · by_cases h2 : offDetected (.comment v) = true
      · simp [h1, h2]
      · by_cases h3 : nextDetected (.comment v) = true
        · simp [h1, h2, h3]
        · simp [h1, h2, h3]

theorem setCodeTagsFrom_length (s : St) (l : List TTok) : (setCodeTagsFrom s l).length = l.length := by
  induction l generalizing s with
  | nil => simp [setCodeTagsFrom]
  | cons c r ih => simp [setCodeTagsFrom_cons, ih]

theorem setCodeTagsFrom_append (s : St) (a b : List TTok) :
    setCodeTagsFrom s (a ++ b) = setCodeTagsFrom s a ++ setCodeTagsFrom (run s a) b := by
  induction a generalizing s with
  | nil => simp [setCodeTagsFrom]
  | cons c r ih => simp [setCodeTagsFrom_cons, ih]

theorem scope_at (pre : List TTok) (c : TTok) (l : List TTok) :
    run St.new (scope (pre ++ c :: l) pre.length) = stampState (run St.new pre) c := by
  unfold scope stampState
  have hget : (pre ++ c :: l)[pre.length]? = some c := by simp
  rw [hget]
  have h1 : (pre ++ c :: l).take (pre.length + 1) = pre ++ [c] := by
    have : pre ++ c :: l = (pre ++ [c]) ++ l := by simp
    rw [this, List.take_left' (by simp)]
  have h0 : (pre ++ c :: l).take pre.length = pre := List.take_left' rfl
  cases he : tagOf c <;> simp only [he, h0, h1, run_append, run_cons, run_nil]

theorem setCodeTagsFrom_get (l pre : List TTok) (k : Nat) (hk : k < l.length) :
    (setCodeTagsFrom (run St.new pre) l)[k]? = some (run St.new (scope (pre ++ l) (pre.length + k))).getTags := by
  induction l generalizing pre k with
  | nil => simp at hk
  | cons c r ih =>
    rw [setCodeTagsFrom_cons]
    cases k with
    | zero => simp [scope_at]
    | succ k =>
      have := ih (pre ++ [c]) k (by simpa using hk)
      rw [run_append, run_cons, run_nil] at this
      have e1 : pre ++ [c] ++ r = pre ++ c :: r := by simp
      have e2 : (pre ++ [c]).length + k = pre.length + (k + 1) := by simp; omega
      rw [e1, e2] at this
      simpa using this

theorem setCodeTags_get (toks : List TTok) (i : Nat) (h : i < toks.length) :
    (setCodeTags toks)[i]? = some (run St.new (scope toks i)).getTags := by
  have := setCodeTagsFrom_get toks [] i h
  simpa [setCodeTags] using this

theorem mem_stamp (toks : List TTok) (i : Nat) (t : Tag) :
    t ∈ (run St.new (scope toks i)).getTags ↔ specTag toks i t = true := by
  have h1 := mem_tags_run (scope toks i).reverse t
  have h2 := (mem_next_run (scope toks i).reverse t).1
  rw [List.reverse_reverse] at h1 h2
  simp [St.getTags, specTag, h1, h2]

theorem scope_out (toks : List TTok) (i : Nat) (h : toks.length ≤ i) : scope toks i = [] := by
  unfold scope
  rw [List.getElem?_eq_none h]

/-! ### the one-pass form of the specification -/

theorem offGov_filter (r : List TTok) (t : Tag) : offGov (r.filter isTagComment) t = offGov r t := by
  induction r with
  | nil => rfl
  | cons c r ih =>
    rw [List.filter_cons, offGov_cons]
    cases he : tagOf c <;> simp [isTagComment, he, offGov_cons, ih, TagC.opens, TagC.closes]

theorem nlGov_filter (r : List TTok) (p : Bool) (t : Tag) : nlGov p (r.filter notPlain) t = nlGov p r t := by
  induction r generalizing p with
  | nil => rfl
  | cons c r ih =>
    rw [List.filter_cons, nlGov_cons]
    cases he : tagOf c with
    | plain => simp [notPlain, he, ih]
    | cr => simp [notPlain, he, nlGov_cons, ih]
    | next ids => simp [notPlain, he, nlGov_cons, ih]
    | on b ids => cases b <;> simp [notPlain, he, nlGov_cons, ih]
    | off b ids => cases b <;> simp [notPlain, he, nlGov_cons, ih]

theorem specSuppressed_at (pre : List TTok) (c : TTok) (l : List TTok) (id : Tag) :
    specSuppressed (pre ++ c :: l) pre.length id =
      (let sc := match tagOf c with | .off _ _ => c :: pre.reverse | .next _ => c :: pre.reverse | _ => pre.reverse
       (offGov sc kAll || nlGov false sc kAll) || (offGov sc id || nlGov false sc id)) := by
  unfold specSuppressed specTag scope
  have hget : (pre ++ c :: l)[pre.length]? = some c := by simp
  rw [hget]
  have h1 : (pre ++ c :: l).take (pre.length + 1) = pre ++ [c] := by
    have : pre ++ c :: l = (pre ++ [c]) ++ l := by simp
    rw [this, List.take_left' (by simp)]
  have h0 : (pre ++ c :: l).take pre.length = pre := List.take_left' rfl
  cases he : tagOf c <;> simp [he, h0, h1]

theorem specPass_get (ids : List Tag) (l pre : List TTok) (k : Nat) (hk : k < l.length) :
    (specPass ids (pre.reverse.filter isTagComment) (pre.reverse.filter notPlain) l)[k]? =
      some (ids.map (fun id => specSuppressed (pre ++ l) (pre.length + k) id)) := by
  induction l generalizing pre k with
  | nil => simp at hk
  | cons c r ih =>
    have eT : (if isTagComment c then c :: pre.reverse.filter isTagComment else pre.reverse.filter isTagComment)
        = (pre ++ [c]).reverse.filter isTagComment := by
      simp only [List.reverse_append, List.reverse_cons, List.reverse_nil, List.nil_append, List.singleton_append, List.filter_cons]
    have eN : (if notPlain c then c :: pre.reverse.filter notPlain else pre.reverse.filter notPlain)
        = (pre ++ [c]).reverse.filter notPlain := by
      simp only [List.reverse_append, List.reverse_cons, List.reverse_nil, List.nil_append, List.singleton_append, List.filter_cons]
    cases k with
    | zero =>
      simp only [specPass, List.getElem?_cons_zero, Nat.add_zero, Option.some.injEq]
      apply List.map_congr_left
      intro id _
      rw [specSuppressed_at]
      cases he : tagOf c with
      | plain => simp only [offGov_filter, nlGov_filter]
      | cr => simp only [offGov_filter, nlGov_filter]
      | on b ids' => simp only [offGov_filter, nlGov_filter]
      | off b ids' =>
        have hT : isTagComment c = true := by simp [isTagComment, he]
        have hN : notPlain c = true := by simp [notPlain, he]
        have e1 : c :: pre.reverse.filter isTagComment = (c :: pre.reverse).filter isTagComment := by simp [hT]
        have e2 : c :: pre.reverse.filter notPlain = (c :: pre.reverse).filter notPlain := by simp [hN]
        simp only [hT, hN, if_true, e1, e2, offGov_filter, nlGov_filter]
      | next ids' =>
        have hT : isTagComment c = true := by simp [isTagComment, he]
        have hN : notPlain c = true := by simp [notPlain, he]
        have e1 : c :: pre.reverse.filter isTagComment = (c :: pre.reverse).filter isTagComment := by simp [hT]
        have e2 : c :: pre.reverse.filter notPlain = (c :: pre.reverse).filter notPlain := by simp [hN]
        simp only [hT, hN, if_true, e1, e2, offGov_filter, nlGov_filter]
    | succ k =>
      have := ih (pre ++ [c]) k (by simpa using hk)
      have e1 : pre ++ [c] ++ r = pre ++ c :: r := by simp
      have e2 : (pre ++ [c]).length + k = pre.length + (k + 1) := by simp; omega
      rw [e1, e2] at this
      simp only [specPass, List.getElem?_cons_succ, eT, eN]
      exact this

theorem specPass_length (ids : List Tag) (l aT aN : List TTok) : (specPass ids aT aN l).length = l.length := by
  induction l generalizing aT aN with
  | nil => simp [specPass]
  | cons c r ih => simp [specPass, ih]

/-! ### plain stretches -/

/-- no tag comment and no line break -/
def Plain (l : List TTok) : Prop := ∀ d ∈ l, tagOf d = .plain

/-- no tag comment -/
def NoTag (l : List TTok) : Prop := ∀ d ∈ l, tagOf d = .plain ∨ tagOf d = .cr

theorem plain_stamp (l : List TTok) (s : St) (h : Plain l) :
    setCodeTagsFrom s l = List.replicate l.length s.getTags ∧ run s l = s := by
  induction l generalizing s with
  | nil => simp [setCodeTagsFrom]
  | cons c r ih =>
    have hc : tagOf c = .plain := h c (by simp)
    have hr : Plain r := fun d hd => h d (by simp [hd])
    have hu : update s c = s := by rw [update_eq_step, hc]; rfl
    rw [setCodeTagsFrom_cons, run_cons, hu, (ih s hr).1, (ih s hr).2]
    simp [stampState, hc, List.replicate_succ]

theorem notag_stamp (l : List TTok) (s : St) (h : NoTag l) (hn : s.next = []) :
    setCodeTagsFrom s l = List.replicate l.length s.tags ∧ (run s l).tags = s.tags ∧ (run s l).next = [] := by
  induction l generalizing s with
  | nil => simp [setCodeTagsFrom, hn]
  | cons c r ih =>
    have hr : NoTag r := fun d hd => h d (by simp [hd])
    rcases h c (by simp) with hc | hc
    · have hu : update s c = s := by rw [update_eq_step, hc]; rfl
      rw [setCodeTagsFrom_cons, run_cons, hu, (ih s hr hn).1]
      refine ⟨?_, (ih s hr hn).2⟩
      simp [stampState, hc, St.getTags, hn, List.replicate_succ]
    · have hu : (update s c).tags = s.tags ∧ (update s c).next = [] := by
        rw [update_eq_step, hc]; simp only [step]; split <;> simp [hn]
      rw [setCodeTagsFrom_cons, run_cons, (ih _ hr hu.2).1, (ih _ hr hu.2).2.1, (ih _ hr hu.2).2.2, hu.1]
      simp [stampState, hc, St.getTags, hn, List.replicate_succ]

/-! ### the filter -/

theorem foldl_filter {α : Type} (p : α → Bool) (l acc : List α) :
    l.foldl (fun vs v => if p v then vs else vs ++ [v]) acc = acc ++ l.filter (fun v => !p v) := by
  induction l generalizing acc with
  | nil => simp
  | cons a r ih =>
    simp only [List.foldl_cons, ih]
    cases h : p a <;> simp [h]

theorem any_congr_mem {α : Type} (l : List α) (p q : α → Bool) (h : ∀ x ∈ l, p x = q x) : l.any p = l.any q := by
  induction l with
  | nil => rfl
  | cons a r ih =>
    simp only [List.any_cons, h a (by simp), ih (fun x hx => h x (by simp [hx]))]

theorem replicate_three {α : Type} (a b : Nat) (x : α) :
    List.replicate (a + b + 3) x = x :: (List.replicate a x ++ x :: (List.replicate b x ++ [x])) := by
  apply List.ext_getElem
  · simp; omega
  · intro i h1 h2
    have hm : x ∈ x :: (List.replicate a x ++ x :: (List.replicate b x ++ [x])) := by simp
    have : ∀ y ∈ x :: (List.replicate a x ++ x :: (List.replicate b x ++ [x])), y = x := by
      intro y hy
      simp at hy
      rcases hy with h | h | h | h | h
      · exact h
      · exact h.2
      · exact h
      · exact h.2
      · exact h
    rw [List.getElem_replicate]
    exact (this _ (List.getElem_mem h2)).symm

/-! ### pinned vs repaired `has_code_tag` -/

theorem pinned_eq_fixed (tags : List Tag) (id : Tag) (h : kAll ∈ tags → tags = [kAll]) :
    hasCodeTagPinned tags id = hasCodeTagFixed tags id := by
  unfold hasCodeTagPinned hasCodeTagFixed
  by_cases ha : kAll ∈ tags
  · have := h ha
    subst this
    simp
  · have hne : (tags == [kAll]) = false := by
      apply Bool.eq_false_iff.mpr
      intro e
      have : tags = [kAll] := by simpa using e
      exact ha (this ▸ by simp)
    simp [hne, ha]

theorem nodup_all_eq (l : List Tag) (a : Tag) (hn : l.Nodup) (hall : ∀ t ∈ l, t = a) (hm : a ∈ l) : l = [a] := by
  cases l with
  | nil => simp at hm
  | cons x r =>
    have hx : x = a := hall x (by simp)
    subst hx
    cases r with
    | nil => rfl
    | cons y r' =>
      have hy : y = x := hall y (by simp)
      subst hy
      simp at hn

theorem all_eq_not_mem (l : List Tag) (a : Tag) (hall : ∀ t ∈ l, t = a) (hm : a ∉ l) : l = [] := by
  cases l with
  | nil => rfl
  | cons x r =>
    have hx : x = a := hall x (by simp)
    subst hx
    simp at hm

end Vsgm.CT
