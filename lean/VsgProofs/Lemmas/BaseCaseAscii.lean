/-
  The table hypotheses `CharWise` / `CharWiseIdem` DISCHARGED for ASCII, the link to the CPython model
  (`pyLowerS` / `pyUpperS` are the ASCII maps on ASCII strings; the ASCII maps agree with the generated
  CPython tables on code points < 128), and the facts that make the hypotheses necessary:
  CPython's `upper()` does not keep the length ('ß' ↦ "SS").
-/
import VsgProofs.Lemmas.BaseCaseStr
namespace Vsgm.Base.Case
open Vsgm Vsgm.Base

theorem char_cases (P : Char → Prop) (hlow : ∀ n, n < 128 → P (Char.ofNat n))
    (hhigh : ∀ c : Char, 128 ≤ c.toNat → P c) : ∀ c, P c := by
  intro c
  by_cases h : c.toNat < 128
  · have := hlow c.toNat h
    rwa [Char.ofNat_toNat] at this
  · exact hhigh c (by omega)

theorem asciiLowerC_high (c : Char) (h : 128 ≤ c.toNat) : asciiLowerC c = c := by
  unfold asciiLowerC; rw [if_neg (by omega)]

theorem asciiUpperC_high (c : Char) (h : 128 ≤ c.toNat) : asciiUpperC c = c := by
  unfold asciiUpperC; rw [if_neg (by omega)]

theorem isQ_high (c : Char) (h : 128 ≤ c.toNat) : isQ c = false := by
  unfold isQ
  have h1 : c ≠ '"' := by intro hc; subst hc; revert h; decide
  have h2 : c ≠ '\'' := by intro hc; subst hc; revert h; decide
  have h3 : c ≠ '\\' := by intro hc; subst hc; revert h; decide
  simp [h1, h2, h3]

theorem ascii_lower_lower : ∀ c, asciiLowerC (asciiLowerC c) = asciiLowerC c :=
  char_cases _ (by decide +kernel) (fun c h => by rw [asciiLowerC_high c h, asciiLowerC_high c h])

theorem ascii_lower_upper : ∀ c, asciiLowerC (asciiUpperC c) = asciiLowerC c :=
  char_cases _ (by decide +kernel) (fun c h => by rw [asciiUpperC_high c h])

theorem ascii_upper_upper : ∀ c, asciiUpperC (asciiUpperC c) = asciiUpperC c :=
  char_cases _ (by decide +kernel) (fun c h => by rw [asciiUpperC_high c h, asciiUpperC_high c h])

theorem ascii_quote : ∀ c, isQ (asciiLowerC c) = isQ c :=
  char_cases _ (by decide +kernel) (fun c h => by rw [asciiLowerC_high c h])

/-- THE HYPOTHESES HOLD FOR ASCII: lower = A–Z ↦ a–z, upper = a–z ↦ A–Z, fold = lower -/
theorem ascii_charWiseIdem (fm : String → Str → Bool) :
    CharWiseIdem (asciiEnv fm) asciiLowerS asciiLowerC asciiUpperC asciiLowerC where
  lower_eq := fun _ => rfl
  upper_eq := fun _ => rfl
  fold_eq := fun _ => rfl
  fold_lower := ascii_lower_lower
  fold_upper := ascii_lower_upper
  fold_quote := ascii_quote
  lower_idem := ascii_lower_lower
  upper_idem := ascii_upper_upper
  lower_upper := ascii_lower_upper

theorem ascii_charWise (fm : String → Str → Bool) :
    CharWise (asciiEnv fm) asciiLowerS asciiLowerC asciiUpperC asciiLowerC :=
  (ascii_charWiseIdem fm).toCharWise

/-! ### link to the CPython model -/

/-- the environment the driver runs on an all-ASCII request is the one the theorems are
    instantiated with; on other requests it is the CPython tables, which agree with it on every
    ASCII string -/
theorem envFor_ascii (strings : List Str) (fm : String → Str → Bool) (h : strings.all isAsciiS = true) :
    envFor strings fm = asciiEnv fm := by
  simp [envFor, h]

theorem pyLowerS_ascii (v : Str) (h : isAsciiS v = true) : pyLowerS v = asciiLowerS v := by
  simp [pyLowerS, h]

theorem pyUpperS_ascii (v : Str) (h : isAsciiS v = true) : pyUpperS v = asciiUpperS v := by
  simp [pyUpperS, h]

/-- on code points < 128 the generated CPython tables (`Gen.lowerPairs` / `Gen.upperPairs`, rewritten
    from the interpreter on every run) ARE the ASCII maps: the rows with an ASCII key are exactly
    A–Z ↦ a–z resp. a–z ↦ A–Z, and no ASCII character has a multi-character image -/
theorem ascii_agrees_with_cpython_tables :
    Gen.lowerPairs.filter (fun p => p.1 < 128) = (List.range 26).map (fun i => (65 + i, 97 + i)) ∧
    Gen.upperPairs.filter (fun p => p.1 < 128) = (List.range 26).map (fun i => (97 + i, 65 + i)) ∧
    Gen.lowerMultiMap.all (fun e => 128 ≤ e.1) = true ∧ Gen.upperMultiMap.all (fun e => 128 ≤ e.1) = true := by
  decide +kernel

/-- WHY THE LENGTH HYPOTHESIS IS NEEDED: in the generated CPython table 'ß' (223) upper-cases to "SS" -/
theorem cpython_upper_eszett : Gen.upperMultiMap.lookup 223 = some [83, 83] := by decide +kernel

/-- … and 'İ' (304) lower-cases to two characters -/
theorem cpython_lower_dotted_I : Gen.lowerMultiMap.lookup 304 = some [105, 775] := by decide +kernel

/-- every multi-character expansion really is longer than one character: `CharWise.lower_eq` /
    `upper_eq` are FALSE for CPython as soon as one of these code points occurs -/
theorem cpython_multi_longer :
    (∀ e ∈ Gen.upperMultiMap, 2 ≤ e.2.length) ∧ (∀ e ∈ Gen.lowerMultiMap, 2 ≤ e.2.length) ∧
    Gen.upperMultiMap ≠ [] ∧ Gen.lowerMultiMap ≠ [] := by
  decide +kernel

end Vsgm.Base.Case
