/-
  `get_interface_elements_between_tokens` (WP3): the loop invariant — while `bStore` holds, `lTemp`
  is the slice of the file from `iStartIndex` up to the current position.
-/
import VsgProofs.Lemmas.Extract2
namespace Vsgm.TM.X.Lemmas
open Vsgm Vsgm.TM Vsgm.TM.Lemmas Vsgm.TM.X

variable {α : Type}

/-- the loop invariant at file position `n` -/
def IeInv (f : List α) (st : IeState α) (n : Nat) : Prop :=
  (∀ t ∈ st.out, t.Exact f) ∧
  (st.store = true → ∃ p : Nat, st.start = some (p : Int) ∧ SliceAt f p st.tmp ∧ p + st.tmp.length = n) ∧
  (st.store = false → st.tmp = [])

theorem ieStep_inv (V : View α) (P : PCls) (semi : Nat) (f : List α) (st st' : IeState α) (n : Nat) (t : α)
    (hf : f[n]? = some t) (hi : IeInv f st n) (h : ieStep V P semi st (n, t) = .ok st') : IeInv f st' (n + 1) := by
  obtain ⟨hout, hstore, hnost⟩ := hi
  have hn : n < f.length := by
    rcases Nat.lt_or_ge n f.length with h' | h'
    · exact h'
    · rw [List.getElem?_eq_none h'] at hf; cases hf
  unfold ieStep at h
  simp only [bind_ok, pure_ok] at h
  obtain ⟨st3, h3, rfl⟩ := h
  -- the state after the first two `if`s
  generalize hst1 : (if (!V.inst t P.ws && !V.inst t P.cr && !V.inst t P.comment && !st.store) = true
      then ({ st with store := true, start := some ((n : Nat) : Int), lineNo := st.line } : IeState α) else st) = st1 at h3
  have inv1 : (∀ t ∈ st1.out, t.Exact f) ∧
      (st1.store = true → ∃ p : Nat, st1.start = some (p : Int) ∧ SliceAt f p st1.tmp ∧ p + st1.tmp.length = n) ∧
      (st1.store = false → st1.tmp = []) := by
    subst hst1
    split
    · rename_i hc
      have hs : st.store = false := by
        simp only [Bool.and_eq_true, Bool.not_eq_true'] at hc; exact hc.2
      refine ⟨hout, fun _ => ⟨n, rfl, ?_, ?_⟩, fun h' => by simp at h'⟩
      · simp only; rw [hnost hs]; exact sliceAt_nil f n (Nat.le_of_lt hn)
      · simp only; rw [hnost hs]; rfl
    · exact ⟨hout, hstore, hnost⟩
  clear hst1 hout hstore hnost
  obtain ⟨hout, hstore, hnost⟩ := inv1
  generalize hst2 : (if st1.store = true then ({ st1 with tmp := st1.tmp ++ [t] } : IeState α) else st1) = st2 at h3
  have inv2 : (∀ t ∈ st2.out, t.Exact f) ∧
      (st2.store = true → ∃ p : Nat, st2.start = some (p : Int) ∧ SliceAt f p st2.tmp ∧ p + st2.tmp.length = n + 1) ∧
      (st2.store = false → st2.tmp = []) := by
    subst hst2
    split
    · rename_i hs
      obtain ⟨p, hp, hsl, hlen⟩ := hstore hs
      refine ⟨hout, fun _ => ⟨p, hp, ?_, ?_⟩, fun h' => by simp [hs] at h'⟩
      · exact sliceAt_snoc f p st1.tmp t hsl (by rw [hlen]; exact hf)
      · simp; omega
    · rename_i hs
      have hs' : st1.store = false := by simpa using hs
      exact ⟨hout, fun h' => by simp [hs'] at h', hnost⟩
  clear hst2 hout hstore hnost
  obtain ⟨hout, hstore, hnost⟩ := inv2
  have inv3 : IeInv f st3 (n + 1) := by
    split at h3
    · split at h3
      · cases h3
      · rename_i hne
        injection h3 with h3; subst h3
        refine ⟨?_, fun h' => by simp at h', fun _ => rfl⟩
        intro x hx
        rcases List.mem_append.mp hx with hx | hx
        · exact hout x hx
        · simp only [List.mem_singleton] at hx
          subst hx
          cases hs : st2.store with
          | false => exact absurd (hnost hs) (by intro e; simp [e] at hne)
          | true =>
            obtain ⟨p, hp, hsl, _⟩ := hstore hs
            exact exact_of_sliceAt f _ p hp (sliceAt_dropLast f p _ hsl)
    · injection h3 with h3; subst h3
      exact ⟨hout, hstore, hnost⟩
  obtain ⟨h1, h2, h3'⟩ := inv3
  split
  · exact ⟨h1, h2, h3'⟩
  · exact ⟨h1, h2, h3'⟩

theorem ieInner_inv (V : View α) (P : PCls) (semi : Nat) (f : List α) (toks : List α) (n : Nat) (st r : IeState α)
    (hp : ∀ j, j < toks.length → f[n + j]? = toks[j]?) (hi : IeInv f st n)
    (h : foldlE (ieStep V P semi) st (enumFrom n toks) = .ok r) : IeInv f r (n + toks.length) := by
  induction toks generalizing n st with
  | nil => simp [enumFrom, foldlE] at h; subst h; simpa using hi
  | cons t toks ih =>
    simp only [enumFrom] at h
    unfold foldlE at h
    cases hg : ieStep V P semi st (n, t) with
    | error e => simp [hg] at h
    | ok st' =>
      simp only [hg] at h
      have h0 : f[n]? = some t := by simpa using hp 0 (by simp)
      have := ih (n + 1) st' (fun j hj => by
        have := hp (j + 1) (by simp; omega)
        simp only [List.getElem?_cons_succ] at this
        rw [← this]; congr 1; omega) (ieStep_inv V P semi f st st' n t h0 hi hg) h
      simp only [List.length_cons]
      rw [show n + (toks.length + 1) = n + 1 + toks.length by omega]
      exact this

theorem stripTrail_slice (V : View α) (P : PCls) (f : List α) (p : Nat) (n : Nat) (l l' : List α)
    (hs : SliceAt f p l) (h : stripTrail V P n l = .ok l') : SliceAt f p l' := by
  induction n generalizing l with
  | zero => simp [stripTrail] at h; subst h; exact hs
  | succ n ih =>
    unfold stripTrail at h
    split at h
    · cases h
    · split at h
      · exact ih _ (sliceAt_dropLast f p l hs) h
      · exact ih _ hs h

theorem pySlice_prefix (f : List α) (s : Nat) (e : Int) (hs : s ≤ f.length) :
    ∀ j, j < (pySlice f (s : Int) e).length → f[s + j]? = (pySlice f (s : Int) e)[j]? := by
  intro j hj
  unfold pySlice at hj ⊢
  rw [pyNorm_nat, Nat.min_eq_left hs] at hj ⊢
  rw [List.getElem?_take]
  simp only [List.length_take, List.length_drop] at hj
  have : j < pyNorm f.length e - s := by omega
  simp [this]

theorem interfaceElements_exact (V : View α) (P : PCls) (semi : Nat) (f : List α) (a b : Option Key) (r : List (Toi α))
    (h : interfaceElements V P semi f (processTokens V.uid f) a b = .ok r) : ∀ t ∈ r, t.Exact f := by
  unfold interfaceElements at h
  simp only [bind_ok, pure_ok] at h
  obtain ⟨acc, h, rfl⟩ := h
  refine foldlE_inv (ieOuter V P semi f (processTokens V.uid f)) (fun acc => ∀ t ∈ acc.2, t.Exact f) _ _ _ ?_ (by simp) h
  intro acc se acc' hse hacc hstep
  have hlt := fresh_pair_lt V.uid f a b se hse
  unfold ieOuter at hstep
  simp only [bind_ok] at hstep
  obtain ⟨line, _, st, hfold, hstep⟩ := hstep
  have e1 : ((se.1 : Int) + 1) = ((se.1 + 1 : Nat) : Int) := by omega
  rw [e1] at hfold
  have hinv := ieInner_inv V P semi f _ (se.1 + 1) _ st (pySlice_prefix f (se.1 + 1) se.2 (by omega))
    ⟨hacc, fun h' => by simp at h', fun _ => rfl⟩ hfold
  obtain ⟨hout, hstore, hnost⟩ := hinv
  split at hstep
  · rename_i hpos
    simp only [bind_ok, pure_ok] at hstep
    obtain ⟨tmp, htmp, rfl⟩ := hstep
    intro x hx
    rcases List.mem_append.mp hx with hx | hx
    · exact hout x hx
    · simp only [List.mem_singleton] at hx
      subst hx
      cases hs : st.store with
      | false => rw [hnost hs] at hpos; simp at hpos
      | true =>
        obtain ⟨p, hp, hsl, _⟩ := hstore hs
        exact exact_of_sliceAt f _ p hp (stripTrail_slice V P f p 4 _ _ hsl htmp)
  · simp only [pure_ok] at hstep
    subst hstep
    exact hout

end Vsgm.TM.X.Lemmas
