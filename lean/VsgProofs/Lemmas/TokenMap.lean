/-
  Helper lemmas for C18: the association-list map, `process_tokens` against its specification,
  `bisect` as counting, Python slices as `drop`/`take`, the exception plumbing of the extractors.
-/
import VsgModel.Engine.TokenMap
import VsgModel.Engine.Extract
namespace Vsgm.TM.Lemmas
open Vsgm Vsgm.TM

variable {α : Type}

/-! ### the association list -/

theorem find_push (m : Map) (k k' : Key) (i : Nat) :
    (m.push k i).find k' = if k = k' then some (m.get k ++ [i]) else m.find k' := by
  induction m with
  | nil =>
    by_cases h : k = k'
    · subst h; simp [Map.push, Map.find, Map.get, List.lookup]
    · have : (k' == k) = false := by simp; exact fun e => h e.symm
      simp [Map.push, Map.find, List.lookup, h, this]
  | cons p m ih =>
    obtain ⟨k0, l0⟩ := p
    unfold Map.find at ih ⊢
    by_cases h0 : k0 = k
    · subst h0
      by_cases h : k0 = k'
      · subst h; simp [Map.push, Map.get, Map.find, List.lookup]
      · have : (k' == k0) = false := by simp; exact fun e => h e.symm
        simp [Map.push, List.lookup, h, this]
    · simp only [Map.push, h0, if_false]
      by_cases h1 : k' = k0
      · subst h1
        have : ¬ k = k' := fun e => h0 e.symm
        simp [List.lookup, this]
      · have h1' : (k' == k0) = false := by simpa using h1
        simp only [List.lookup, h1']
        rw [ih]
        by_cases h : k = k'
        · subst h; simp [Map.get, Map.find, List.lookup, h1']
        · simp [h]

theorem get_push (m : Map) (k k' : Key) (i : Nat) :
    (m.push k i).get k' = if k = k' then m.get k' ++ [i] else m.get k' := by
  unfold Map.get
  rw [find_push]
  by_cases h : k = k'
  · subst h; simp [Map.get]
  · simp [h]

theorem get_pushNew (m : Map) (k k' : Key) (i : Nat) :
    (m.pushNew k i).get k' = if k = k' ∧ i ∉ m.get k then m.get k' ++ [i] else m.get k' := by
  unfold Map.pushNew
  by_cases hc : (m.get k).contains i = true
  · have : i ∈ m.get k := by simpa using hc
    simp [this]
  · have hn : i ∉ m.get k := by simpa using hc
    simp only [hc, Bool.false_eq_true, if_false]
    rw [get_push]
    by_cases h : k = k'
    · subst h; simp [hn]
    · simp [h]

/-- entries of a map built by `push` are never empty lists -/
def NonEmpty (m : Map) : Prop := ∀ k l, m.find k = some l → l ≠ []

theorem nonEmpty_push (m : Map) (k : Key) (i : Nat) (h : NonEmpty m) : NonEmpty (m.push k i) := by
  intro k' l hl
  rw [find_push] at hl
  by_cases hk : k = k'
  · simp [hk] at hl; subst hl; simp
  · simp [hk] at hl; exact h k' l hl

theorem nonEmpty_pushNew (m : Map) (k : Key) (i : Nat) (h : NonEmpty m) : NonEmpty (m.pushNew k i) := by
  unfold Map.pushNew; split
  · exact h
  · exact nonEmpty_push m k i h

theorem nonEmpty_step (m : Map) (i : Nat) (u : Option Key) (h : NonEmpty m) : NonEmpty (step m i u) := by
  unfold step
  cases u with
  | none => exact h
  | some bs =>
    obtain ⟨b, s⟩ := bs
    simp only
    have h1 := nonEmpty_push m (b, s) i h
    split
    · exact nonEmpty_push _ _ _ h1
    · split
      · exact nonEmpty_pushNew _ _ _ h1
      · split
        · exact nonEmpty_pushNew _ _ _ h1
        · exact h1

theorem nonEmpty_processFrom (us : List (Option Key)) (m : Map) (i : Nat) (h : NonEmpty m) :
    NonEmpty (processFrom m i us) := by
  induction us generalizing m i with
  | nil => exact h
  | cons u us ih => exact ih _ _ (nonEmpty_step m i u h)

theorem find_of_nonEmpty (m : Map) (h : NonEmpty m) (k : Key) :
    m.find k = if m.get k = [] then none else some (m.get k) := by
  unfold Map.get
  cases hf : m.find k with
  | none => simp
  | some l => simp [h k l hf]

/-! ### `process_tokens` against `specFrom` -/

/-- everything stored so far is a position before `i` -/
def Below (m : Map) (i : Nat) : Prop := ∀ k, ∀ j ∈ m.get k, j < i

theorem get_step (m : Map) (i : Nat) (u : Option Key) (k : Key) (hb : Below m i) :
    (step m i u).get k = m.get k ++ List.replicate (contrib k u) i := by
  unfold step contrib
  cases u with
  | none => simp
  | some bs =>
    obtain ⟨b, s⟩ := bs
    simp only
    have hni : ∀ k', i ∉ m.get k' := fun k' hm => Nat.lt_irrefl _ (hb k' i hm)
    by_cases hl : b = kLogical
    · simp only [hl, if_true]
      rw [get_push, get_push]
      by_cases h1 : (kLogical, s) = k <;> by_cases h2 : (kLogical, kLogical) = k <;>
        simp [h1, h2]
    · simp only [hl, if_false]
      by_cases hc : s = kComma
      · simp only [hc, if_true]
        rw [get_pushNew, get_push, get_push]
        by_cases h1 : (b, kComma) = k
        · subst h1
          by_cases h2 : commaKey = (b, kComma)
          · simp [h2]
          · simp [h2]
        · by_cases h2 : commaKey = k
          · subst h2
            have h3 : ¬ (b, kComma) = commaKey := h1
            simp [h1, hni]
          · simp [h1, h2]
      · simp only [hc, if_false]
        by_cases ho : s = kOpenParen
        · simp only [ho, if_true]
          rw [get_pushNew, get_push, get_push]
          by_cases h1 : (b, kOpenParen) = k
          · subst h1
            by_cases h2 : openParenKey = (b, kOpenParen)
            · simp [h2]
            · simp [h2]
          · by_cases h2 : openParenKey = k
            · subst h2
              have h3 : ¬ (b, kOpenParen) = openParenKey := h1
              simp [h1, hni]
            · simp [h1, h2]
        · simp only [ho, if_false]
          rw [get_push]
          by_cases h1 : (b, s) = k <;> simp [h1]

theorem below_step (m : Map) (i : Nat) (u : Option Key) (hb : Below m i) : Below (step m i u) (i + 1) := by
  intro k j hj
  rw [get_step m i u k hb] at hj
  rcases List.mem_append.mp hj with h | h
  · exact Nat.lt_succ_of_lt (hb k j h)
  · have := (List.mem_replicate.mp h).2; omega

theorem get_processFrom (us : List (Option Key)) (m : Map) (i : Nat) (k : Key) (hb : Below m i) :
    (processFrom m i us).get k = m.get k ++ specFrom k i us := by
  induction us generalizing m i with
  | nil => simp [processFrom, specFrom]
  | cons u us ih =>
    simp only [processFrom, specFrom]
    rw [ih _ _ (below_step m i u hb), get_step m i u k hb, List.append_assoc]

theorem below_nil (i : Nat) : Below [] i := by
  intro k j hj; simp [Map.get, Map.find, List.lookup] at hj

theorem nonEmpty_nil : NonEmpty [] := by
  intro k l h; simp [Map.find, List.lookup] at h

/-! ### properties of `specFrom` -/

theorem specFrom_ge (k : Key) (us : List (Option Key)) (i : Nat) : ∀ j ∈ specFrom k i us, i ≤ j := by
  induction us generalizing i with
  | nil => simp [specFrom]
  | cons u us ih =>
    intro j hj
    simp only [specFrom] at hj
    rcases List.mem_append.mp hj with h | h
    · have := (List.mem_replicate.mp h).2; omega
    · have := ih (i + 1) j h; omega

theorem specFrom_lt (k : Key) (us : List (Option Key)) (i : Nat) : ∀ j ∈ specFrom k i us, j < i + us.length := by
  induction us generalizing i with
  | nil => simp [specFrom]
  | cons u us ih =>
    intro j hj
    simp only [specFrom] at hj
    rcases List.mem_append.mp hj with h | h
    · have := (List.mem_replicate.mp h).2; simp; omega
    · have := ih (i + 1) j h; simp; omega

theorem mem_specFrom (k : Key) (us : List (Option Key)) (i j : Nat) :
    j ∈ specFrom k i us ↔ ∃ n u, j = i + n ∧ us[n]? = some u ∧ 0 < contrib k u := by
  induction us generalizing i with
  | nil => simp [specFrom]
  | cons u us ih =>
    simp only [specFrom, List.mem_append, List.mem_replicate, ih]
    constructor
    · rintro (⟨hc, rfl⟩ | ⟨n, u', rfl, hn, hc⟩)
      · exact ⟨0, u, rfl, rfl, Nat.pos_of_ne_zero hc⟩
      · exact ⟨n + 1, u', by omega, by simpa using hn, hc⟩
    · rintro ⟨n, u', rfl, hn, hc⟩
      cases n with
      | zero =>
        simp at hn; subst hn
        exact Or.inl ⟨Nat.pos_iff_ne_zero.mp hc, rfl⟩
      | succ n => exact Or.inr ⟨n, u', by omega, by simpa using hn, hc⟩

theorem specFrom_sorted (k : Key) (us : List (Option Key)) (i : Nat) :
    (specFrom k i us).Pairwise (· ≤ ·) := by
  induction us generalizing i with
  | nil => simp [specFrom]
  | cons u us ih =>
    simp only [specFrom]
    rw [List.pairwise_append]
    refine ⟨?_, ih (i + 1), ?_⟩
    · rw [List.pairwise_replicate]; right; exact Nat.le_refl _
    · intro a ha b hb
      have := (List.mem_replicate.mp ha).2
      have := specFrom_ge k us (i + 1) b hb
      omega

theorem specFrom_strict (k : Key) (us : List (Option Key)) (i : Nat) (h : ∀ u ∈ us, contrib k u ≤ 1) :
    (specFrom k i us).Pairwise (· < ·) := by
  induction us generalizing i with
  | nil => simp [specFrom]
  | cons u us ih =>
    simp only [specFrom]
    rw [List.pairwise_append]
    refine ⟨?_, ih (i + 1) (fun u' hu' => h u' (List.mem_cons_of_mem _ hu')), ?_⟩
    · have := h u (List.mem_cons_self ..)
      rw [List.pairwise_replicate]; left; exact this
    · intro a ha b hb
      have := (List.mem_replicate.mp ha).2
      have := specFrom_ge k us (i + 1) b hb
      omega

/-- the only way to be listed twice: the alias `(logical_operator, logical_operator)` meeting a
    token whose own id is that key -/
theorem contrib_le_one (k : Key) (u : Option Key) (h : u ≠ some (kLogical, kLogical)) : contrib k u ≤ 1 := by
  unfold contrib
  cases u with
  | none => simp
  | some bs =>
    obtain ⟨b, s⟩ := bs
    simp only
    by_cases hl : b = kLogical
    · subst hl
      have hs : s ≠ kLogical := fun e => h (by rw [e])
      by_cases h1 : (kLogical, s) = k
      · subst h1
        have : ¬ ((kLogical, kLogical) = (kLogical, s)) := by
          intro e; exact hs (Prod.mk.inj e).2.symm
        simp [this]
      · simp only [h1, if_false, if_true]; split <;> simp
    · simp only [hl, if_false]
      by_cases h1 : (b, s) = k
      · subst h1
        simp only [if_true, ne_eq, not_true_eq_false, and_false, if_false]
        split
        · simp
        · split <;> simp
      · simp only [h1, if_false]
        split
        · split <;> simp
        · split
          · split <;> simp
          · simp

/-- keys that no alias feeds: the list holds exactly the tokens whose own id is the key -/
def Plain (k : Key) : Prop := k ≠ (kLogical, kLogical) ∧ k ≠ commaKey ∧ k ≠ openParenKey

theorem contrib_plain (k : Key) (hk : Plain k) (u : Option Key) : contrib k u = if u = some k then 1 else 0 := by
  obtain ⟨h1, h2, h3⟩ := hk
  unfold contrib
  cases u with
  | none => simp
  | some bs =>
    obtain ⟨b, s⟩ := bs
    simp only
    have a1 : ∀ b', ¬ ((b', b') = k ∧ b' = kLogical) := by
      rintro b' ⟨e, rfl⟩; exact h1 e.symm
    by_cases hl : b = kLogical
    · have : ¬ (b, b) = k := fun e => a1 b ⟨e, hl⟩
      simp [hl] at this ⊢
      simp [this]
    · have c1 : ¬ commaKey = k := fun e => h2 e.symm
      have c2 : ¬ openParenKey = k := fun e => h3 e.symm
      simp [hl, c1, c2]

theorem plain_cr : Plain crKey := by unfold Plain crKey commaKey openParenKey kLogical kParser kComma kOpenParen; decide
theorem plain_ws : Plain wsKey := by unfold Plain wsKey commaKey openParenKey kLogical kParser kComma kOpenParen; decide

/-! ### `bisect` as counting -/

theorem takeWhile_nil_of_forall {β : Type} (p : β → Bool) (l : List β) (h : ∀ x ∈ l, p x = false) : l.takeWhile p = [] := by
  cases l with
  | nil => rfl
  | cons x l => simp [List.takeWhile, h x (List.mem_cons_self ..)]

theorem takeWhile_replicate_append {β : Type} (p : β → Bool) (x : β) (c : Nat) (l : List β) (h : p x = true) :
    (List.replicate c x ++ l).takeWhile p = List.replicate c x ++ l.takeWhile p := by
  induction c with
  | zero => simp
  | succ c ih => simp [List.replicate, h, ih]

/-- number of entries of a plain key among the first `i` tokens -/
def countKey (k : Key) (us : List (Option Key)) : Nat := (us.filter (fun u => decide (u = some k))).length

theorem bisectLeft_specFrom (k : Key) (hk : Plain k) (us : List (Option Key)) (o i : Nat) :
    bisectLeft (specFrom k o us) ((o + i : Nat) : Int) = countKey k (us.take i) := by
  induction us generalizing o i with
  | nil => simp [specFrom, bisectLeft, countKey]
  | cons u us ih =>
    cases i with
    | zero =>
      simp only [Nat.add_zero, List.take_zero, countKey, List.filter_nil, List.length_nil]
      unfold bisectLeft
      rw [takeWhile_nil_of_forall]; rfl
      intro x hx
      have := specFrom_ge k (u :: us) o x hx
      simp; omega
    | succ i =>
      simp only [specFrom, List.take_succ_cons]
      unfold bisectLeft
      rw [takeWhile_replicate_append _ _ _ _ (by simp; omega)]
      have := ih (o + 1) i
      unfold bisectLeft at this
      have e : ((o + (i + 1) : Nat) : Int) = ((o + 1 + i : Nat) : Int) := by congr 1; omega
      rw [List.length_append, e, this, contrib_plain k hk]
      unfold countKey
      by_cases hu : u = some k <;> simp [hu] <;> omega

theorem bisectLeft_nonpos (l : List Nat) (x : Int) (h : x ≤ 0) : bisectLeft l x = 0 := by
  unfold bisectLeft
  rw [takeWhile_nil_of_forall]; rfl
  intro e _; simp; omega

/-! ### Python slices -/

theorem pyIdx_nat_ok (f : List α) (i : Nat) (t : α) (h : pyIdx f (i : Int) = .ok t) : f[i]? = some t := by
  unfold pyIdx at h
  have h0 : ¬ ((i : Int) < 0) := by omega
  simp only [h0, if_false, Int.toNat_natCast] at h
  cases hg : f[i]? with
  | none => simp [hg] at h
  | some x => simp [hg] at h; rw [h]

theorem single_exact (f : List α) (i : Nat) (t : α) (h : f[i]? = some t) :
    i + [t].length ≤ f.length ∧ [t] = (f.drop i).take [t].length := by
  have hi : i < f.length := by
    rcases Nat.lt_or_ge i f.length with h' | h'
    · exact h'
    · rw [List.getElem?_eq_none h'] at h; cases h
  constructor
  · simp; omega
  · simp only [List.length_singleton]
    rw [List.getElem?_eq_getElem hi] at h
    injection h with h; subst h
    rw [← List.getElem_cons_drop hi]
    rfl

theorem pyNorm_nat (n s : Nat) : pyNorm n (s : Int) = min s n := by
  unfold pyNorm
  have : ¬ ((s : Int) < 0) := by omega
  simp [this]

theorem pySlice_nat_exact (f : List α) (s : Nat) (b : Int) (h : s ≤ f.length) :
    s + (pySlice f (s : Int) b).length ≤ f.length ∧
      pySlice f (s : Int) b = (f.drop s).take (pySlice f (s : Int) b).length := by
  unfold pySlice
  rw [pyNorm_nat, Nat.min_eq_left h]
  constructor
  · simp; omega
  · simp

/-! ### exception plumbing -/

theorem bind_ok {ε β γ : Type} {a : Except ε β} {g : β → Except ε γ} {y : γ} :
    (a >>= g) = .ok y ↔ ∃ x, a = .ok x ∧ g x = .ok y := by
  cases a <;> simp [bind, Except.bind]

theorem mem_mapE {β γ : Type} (g : β → Except PyErr γ) (l : List β) (r : List γ) (h : mapE g l = .ok r) :
    ∀ c ∈ r, ∃ b ∈ l, g b = .ok c := by
  induction l generalizing r with
  | nil => simp [mapE] at h; subst h; simp
  | cons b bs ih =>
    unfold mapE at h
    cases hg : g b with
    | error e => simp [hg] at h
    | ok c0 =>
      cases hr : mapE g bs with
      | error e => simp [hg, hr] at h
      | ok cs =>
        simp [hg, hr] at h; subst h
        intro c hc
        rcases List.mem_cons.mp hc with rfl | hc
        · exact ⟨b, List.mem_cons_self .., hg⟩
        · obtain ⟨b', hb', hgb'⟩ := ih cs hr c hc
          exact ⟨b', List.mem_cons_of_mem _ hb', hgb'⟩

theorem mem_filterMapE {β γ : Type} (g : β → Except PyErr (Option γ)) (l : List β) (r : List γ)
    (h : filterMapE g l = .ok r) : ∀ c ∈ r, ∃ b ∈ l, g b = .ok (some c) := by
  induction l generalizing r with
  | nil => simp [filterMapE] at h; subst h; simp
  | cons b bs ih =>
    unfold filterMapE at h
    cases hg : g b with
    | error e => simp [hg] at h
    | ok c0 =>
      cases hr : filterMapE g bs with
      | error e => simp [hg, hr] at h
      | ok cs =>
        simp [hg, hr] at h; subst h
        intro c hc
        cases c0 with
        | none =>
          obtain ⟨b', hb', hgb'⟩ := ih cs hr c hc
          exact ⟨b', List.mem_cons_of_mem _ hb', hgb'⟩
        | some c1 =>
          rcases List.mem_cons.mp hc with rfl | hc
          · exact ⟨b, List.mem_cons_self .., hg⟩
          · obtain ⟨b', hb', hgb'⟩ := ih cs hr c hc
            exact ⟨b', List.mem_cons_of_mem _ hb', hgb'⟩

theorem zipWith_all_getD {A B : Type} (g : A → B → Bool) (la : List A) (lb : List B) (da : A) (db : B)
    (hlen : la.length = lb.length) (h : (List.zipWith g la lb).all id = true) (hd : g da db = true) (c : Nat) :
    g (la.getD c da) (lb.getD c db) = true := by
  induction la generalizing lb c with
  | nil =>
    cases lb with
    | nil => simpa using hd
    | cons _ _ => simp at hlen
  | cons x la ih =>
    cases lb with
    | nil => simp at hlen
    | cons y lb =>
      simp only [List.zipWith_cons_cons, List.all_cons, Bool.and_eq_true, id] at h
      cases c with
      | zero => simpa using h.1
      | succ c =>
        simpa using ih lb (by simpa using hlen) h.2 c

theorem pure_ok {ε β : Type} {x y : β} : (pure x : Except ε β) = .ok y ↔ x = y := by
  simp [pure, Except.pure]

/-! ### the line number the index assigns to a position -/

/-- one plus the number of tokens before position `i` whose id is `(parser, carriage_return)` -/
def lineNo (uid : α → Option Key) (f : List α) (i : Nat) : Nat := 1 + countKey crKey ((f.map uid).take i)

theorem processTokens_get (uid : α → Option Key) (f : List α) (k : Key) :
    (processTokens uid f).dmap.get k = specFrom k 0 (f.map uid) := by
  unfold processTokens
  simp only
  rw [get_processFrom _ _ _ _ (below_nil 0)]
  simp [Map.get, Map.find, List.lookup]

theorem processTokens_find (uid : α → Option Key) (f : List α) (k : Key) :
    (processTokens uid f).dmap.find k =
      if specFrom k 0 (f.map uid) = [] then none else some (specFrom k 0 (f.map uid)) := by
  have h := find_of_nonEmpty _ (nonEmpty_processFrom (f.map uid) [] 0 nonEmpty_nil) k
  have g := processTokens_get uid f k
  unfold processTokens at g ⊢
  simp only at g ⊢
  rw [h, g]

theorem lineOf_fresh (uid : α → Option Key) (f : List α) (i : Int) (n : Nat)
    (h : (processTokens uid f).lineOf i = .ok n) : n = lineNo uid f i.toNat := by
  unfold Index.lineOf Index.crs at h
  rw [processTokens_find] at h
  by_cases he : specFrom crKey 0 (f.map uid) = []
  · simp [he, bind, Except.bind] at h
  · simp only [he, if_false, bind, Except.bind, pure_ok] at h
    rw [← h]
    unfold lineNo
    by_cases hi : i < 0
    · rw [bisectLeft_nonpos _ _ (by omega)]
      have : i.toNat = 0 := by omega
      simp [this, countKey]
    · have e : ((0 + i.toNat : Nat) : Int) = i := by omega
      have := bisectLeft_specFrom crKey plain_cr (f.map uid) 0 i.toNat
      rw [e] at this
      rw [this]; omega

/-! ### what a key lists; building blocks of the extractor theorems -/

/-- which tokens a key lists: the token's own id, or one of the three aliases of `process_tokens`
    (a `logical_operator` token never reaches the comma / parenthesis aliases) -/
def Hits (k : Key) (u : Option Key) : Prop :=
  ∃ b s, u = some (b, s) ∧
    ((b, s) = k ∨ (b = kLogical ∧ k = (kLogical, kLogical)) ∨
      (b ≠ kLogical ∧ s = kComma ∧ k = commaKey) ∨ (b ≠ kLogical ∧ s = kOpenParen ∧ k = openParenKey))

theorem contrib_pos_iff (k : Key) (u : Option Key) : 0 < contrib k u ↔ Hits k u := by
  unfold contrib Hits
  cases u with
  | none => simp
  | some bs =>
    obtain ⟨b, s⟩ := bs
    have hco : kComma ≠ kOpenParen := by unfold kComma kOpenParen; decide
    simp only
    constructor
    · intro h
      refine ⟨b, s, rfl, ?_⟩
      by_cases h1 : (b, s) = k
      · exact Or.inl h1
      · rw [if_neg h1, Nat.zero_add] at h
        by_cases hl : b = kLogical
        · rw [if_pos hl] at h
          by_cases h2 : (b, b) = k
          · exact Or.inr (Or.inl ⟨hl, by rw [← h2, hl]⟩)
          · rw [if_neg h2] at h; exact absurd h (Nat.lt_irrefl 0)
        · rw [if_neg hl] at h
          by_cases hc : s = kComma
          · rw [if_pos hc] at h
            by_cases h3 : commaKey = k ∧ (b, s) ≠ k
            · exact Or.inr (Or.inr (Or.inl ⟨hl, hc, h3.1.symm⟩))
            · rw [if_neg h3] at h; exact absurd h (Nat.lt_irrefl 0)
          · rw [if_neg hc] at h
            by_cases ho : s = kOpenParen
            · rw [if_pos ho] at h
              by_cases h3 : openParenKey = k ∧ (b, s) ≠ k
              · exact Or.inr (Or.inr (Or.inr ⟨hl, ho, h3.1.symm⟩))
              · rw [if_neg h3] at h; exact absurd h (Nat.lt_irrefl 0)
            · rw [if_neg ho] at h; exact absurd h (Nat.lt_irrefl 0)
    · rintro ⟨b', s', hu, h⟩
      cases hu
      by_cases h1 : (b, s) = k
      · rw [if_pos h1]; omega
      · rw [if_neg h1, Nat.zero_add]
        rcases h with h | ⟨hl, hk⟩ | ⟨hl, hc, hk⟩ | ⟨hl, ho, hk⟩
        · exact absurd h h1
        · rw [if_pos hl, if_pos (by rw [hk, hl])]; exact Nat.one_pos
        · rw [if_neg hl, if_pos hc, if_pos ⟨hk.symm, h1⟩]; exact Nat.one_pos
        · have hc : ¬ s = kComma := by rw [ho]; exact fun e => hco e.symm
          rw [if_neg hl, if_neg hc, if_pos ho, if_pos ⟨hk.symm, h1⟩]; exact Nat.one_pos

theorem singles_spec (f : List α) (ix : Index) (idxs : List Nat) (r : List (Toi α))
    (h : singles f ix idxs = .ok r) :
    ∀ t ∈ r, ∃ i ∈ idxs, ∃ x, t.start = some (i : Int) ∧ ix.lineOf i = .ok t.line ∧ f[i]? = some x ∧ t.toks = [x] := by
  intro t ht
  obtain ⟨i, hi, hb⟩ := mem_mapE _ _ _ h t ht
  simp only [bind_ok, pure_ok] at hb
  obtain ⟨line, hl, x, hx, rfl⟩ := hb
  exact ⟨i, hi, x, rfl, hl, pyIdx_nat_ok f i x hx, rfl⟩

theorem exact_of_single (f : List α) (t : Toi α) (i : Nat) (x : α) (hs : t.start = some (i : Int))
    (hx : f[i]? = some x) (ht : t.toks = [x]) : t.Exact f := by
  refine ⟨i, hs, ?_, ?_⟩ <;> rw [ht]
  · exact (single_exact f i x hx).1
  · exact (single_exact f i x hx).2

theorem exact_of_slice (f : List α) (t : Toi α) (s b : Int) (hs : t.start = some s) (h0 : 0 ≤ s)
    (hl : s.toNat ≤ f.length) (ht : t.toks = pySlice f s b) : t.Exact f := by
  have e : s = (s.toNat : Int) := by omega
  refine ⟨s.toNat, by rw [hs, ← e], ?_, ?_⟩ <;> rw [ht, e]
  · exact (pySlice_nat_exact f s.toNat b hl).1
  · exact (pySlice_nat_exact f s.toNat b hl).2

theorem pyIdx_ok_lt (f : List α) (s : Int) (x : α) (h0 : 0 ≤ s) (h : pyIdx f s = .ok x) : s.toNat < f.length := by
  have e : s = (s.toNat : Int) := by omega
  rw [e] at h
  have := pyIdx_nat_ok f s.toNat x h
  rcases Nat.lt_or_ge s.toNat f.length with h' | h'
  · exact h'
  · rw [List.getElem?_eq_none h'] at this; cases this

theorem isAt_nonneg (ix : Index) (u : Option Key) (i : Int) (h : ix.isAt u i = true) : 0 ≤ i := by
  unfold Index.isAt at h
  cases u with
  | none => simp at h
  | some k =>
    simp only at h
    cases hf : ix.dmap.find k with
    | none => simp [hf] at h
    | some l =>
      simp only [hf] at h
      unfold memInt at h
      simp only [Bool.and_eq_true, decide_eq_true_eq] at h
      exact h.1

/-- positions listed by a fresh index are positions of the list -/
theorem fresh_get_lt (uid : α → Option Key) (f : List α) (u : Option Key) :
    ∀ i ∈ (processTokens uid f).get u, i < f.length := by
  intro i hi
  unfold Index.get at hi
  cases u with
  | none => simp at hi
  | some k =>
    simp only at hi
    rw [processTokens_get] at hi
    simpa using specFrom_lt k (f.map uid) 0 i hi

theorem fresh_idxsOfList_lt (uid : α → Option Key) (f : List α) (cs : List Cls) :
    ∀ i ∈ idxsOfList (processTokens uid f) cs, i < f.length := by
  intro i hi
  unfold idxsOfList sortNat at hi
  rw [List.mem_mergeSort] at hi
  obtain ⟨c, _, hc⟩ := List.mem_flatMap.mp hi
  exact fresh_get_lt uid f c.uid i hc

theorem crBefore_nonneg (ix : Index) (i : Int) (x : Int) (hi : 0 ≤ i) (h : ix.crBefore i = .ok (some x)) : 0 ≤ x := by
  unfold Index.crBefore at h
  by_cases h0 : i = 0
  · simp [h0, pure, Except.pure] at h
  · simp only [h0, if_false, bind_ok] at h
    obtain ⟨c, _, y, _, h⟩ := h
    split at h <;> simp only [pure_ok, Option.some.injEq] at h <;> omega

theorem mem_zip3 {β γ δ : Type} (a : List β) (b : List γ) (c : List δ) (x : β × γ × δ) (h : x ∈ zip3 a b c) :
    x.1 ∈ a := by
  induction a generalizing b c with
  | nil => simp [zip3] at h
  | cons y a ih =>
    cases b with
    | nil => simp [zip3] at h
    | cons z b =>
      cases c with
      | nil => simp [zip3] at h
      | cons w c =>
        simp only [zip3, List.mem_cons] at h
        rcases h with rfl | h
        · simp
        · exact List.mem_cons_of_mem _ (ih b c h)

theorem seqMatches_head (V : View α) (f : List α) (i : Int) (c : Cls) (cs : List Cls)
    (h : seqMatches V f i 0 (c :: cs) = .ok true) : ∃ x, pyIdx f i = .ok x := by
  unfold seqMatches at h
  simp only [bind_ok] at h
  obtain ⟨x, hx, _⟩ := h
  exact ⟨x, by simpa using hx⟩

end Vsgm.TM.Lemmas
