/-
  Lemmas shared by the structure-family proofs: projections (`codeSeq`, `commentSeq`, `crSeq`,
  `nonLayout`) as homomorphisms that do not see whitespace tokens, and what the Python list
  operations (`list.insert`, slices, `remove_consecutive_whitespace_tokens`, …) do to them.
-/
import VsgProofs.Lemmas.BaseCommon
import VsgModel.Base.StructCommon
import VsgModel.Check.Trace
namespace Vsgm.Base
open Vsgm

/-- a projection of token lists that is a monoid homomorphism and does not see whitespace tokens -/
structure Proj (β : Type) where
  π : List Tok → List β
  nil : π [] = []
  app : ∀ a b, π (a ++ b) = π a ++ π b
  ws : ∀ t : Tok, t.kind = .ws → π [t] = []

def projCode (fold : Str → Str) : Proj Str :=
  { π := codeSeq fold, nil := rfl, app := codeSeq_append fold,
    ws := by intro t h; simp [codeSeq, codeOf, Tok.isCode, h] }

def projComment : Proj Str :=
  { π := commentSeq, nil := rfl, app := commentSeq_append,
    ws := by intro t h; simp [commentSeq, Tok.isCommentLike, Kind.isCommentLike, h] }

def projCr : Proj Unit :=
  { π := crSeq, nil := rfl, app := crSeq_append,
    ws := by intro t h; simp [crSeq, Tok.isCr, h] }

def projNonLayout : Proj Tok :=
  { π := nonLayout, nil := rfl, app := nonLayout_append,
    ws := by intro t h; simp [nonLayout, Tok.isLayout, Kind.isLayout, h] }

namespace Proj
variable {β : Type} (P : Proj β)

theorem cons (t : Tok) (l : List Tok) : P.π (t :: l) = P.π [t] ++ P.π l := by
  exact P.app [t] l

theorem take_drop (l : List Tok) (j : Nat) : P.π (l.take j) ++ P.π (l.drop j) = P.π l := by
  rw [← P.app, List.take_append_drop]

/-- a projection maps subsequences to subsequences -/
theorem sublist {k l : List Tok} (h : k.Sublist l) : (P.π k).Sublist (P.π l) := by
  induction h with
  | slnil => exact List.Sublist.refl _
  | @cons l₁ l₂ a _ ih => rw [P.cons a l₂]; exact ih.trans (List.sublist_append_right _ _)
  | @cons_cons l₁ l₂ a _ ih => rw [P.cons a l₁, P.cons a l₂]; exact (List.Sublist.refl _).append ih

end Proj

/-- `b` is `a` with the segment `seg` inserted somewhere -/
def InsSeg {β : Type} (seg a b : List β) : Prop := ∃ p s, a = p ++ s ∧ b = p ++ seg ++ s

theorem InsSeg.sublist {β : Type} {seg a b : List β} (h : InsSeg seg a b) : a.Sublist b := by
  obtain ⟨p, s, rfl, rfl⟩ := h
  rw [List.append_assoc]
  exact (List.Sublist.refl p).append (List.sublist_append_right seg s)

theorem InsSeg.length {β : Type} {seg a b : List β} (h : InsSeg seg a b) : b.length = a.length + seg.length := by
  obtain ⟨p, s, rfl, rfl⟩ := h
  simp; omega

theorem InsSeg.nil {β : Type} {a b : List β} (h : InsSeg [] a b) : a = b := by
  obtain ⟨p, s, rfl, rfl⟩ := h
  simp

theorem InsSeg.refl_nil {β : Type} (a : List β) : InsSeg [] a a := ⟨a, [], by simp, by simp⟩

theorem InsSeg.mem {β : Type} {seg a b : List β} (h : InsSeg seg a b) (x : β) (hx : x ∈ b) : x ∈ seg ∨ x ∈ a := by
  obtain ⟨p, s, rfl, rfl⟩ := h
  simp only [List.mem_append] at hx ⊢
  rcases hx with (hx | hx) | hx
  · exact Or.inr (Or.inl hx)
  · exact Or.inl hx
  · exact Or.inr (Or.inr hx)

/-! ### monadic plumbing and constant-index access -/

theorem bind_ok {ε α β : Type} (x : Except ε α) (f : α → Except ε β) (r : β) (h : (x >>= f) = .ok r) :
    ∃ a, x = .ok a ∧ f a = .ok r := by
  cases x with
  | error e => simp [bind, Except.bind] at h
  | ok a => exact ⟨a, rfl, by simpa [bind, Except.bind] using h⟩

theorem pyIdx_ofNat (n k : Nat) : pyIdx n (k : Int) = if k < n then some k else none := by
  unfold pyIdx
  have h0 : ¬ ((k : Int) < 0) := by omega
  simp only [h0, if_false]
  by_cases hk : k < n
  · have : (0 : Int) ≤ k ∧ (k : Int) < n := ⟨by omega, by omega⟩
    simp [hk]
  · have : ¬ ((0 : Int) ≤ k ∧ (k : Int) < n) := by omega
    simp [this, hk]

theorem pyGet_ofNat {α : Type} (l : List α) (k : Nat) (x : α) (h : pyGet l (k : Int) = .ok x) : l[k]? = some x := by
  obtain ⟨k', hk', hx⟩ := pyGet_some l _ x h
  rw [pyIdx_ofNat] at hk'
  split at hk'
  · cases hk'; exact hx
  · cases hk'

theorem pyGet0 {α : Type} (l : List α) (x : α) (h : pyGet l 0 = .ok x) : ∃ r, l = x :: r := by
  have := pyGet_ofNat l 0 x h
  cases l with
  | nil => simp at this
  | cons a r => simp at this; exact ⟨r, by rw [this]⟩

theorem pyGet1 {α : Type} (l : List α) (x : α) (h : pyGet l 1 = .ok x) : ∃ a r, l = a :: x :: r := by
  have := pyGet_ofNat l 1 x h
  match l, this with
  | [_], this => simp at this
  | a :: b :: r, this => simp at this; exact ⟨a, r, by rw [this]⟩

theorem pyGet2 {α : Type} (l : List α) (x : α) (h : pyGet l 2 = .ok x) : ∃ a b r, l = a :: b :: x :: r := by
  have := pyGet_ofNat l 2 x h
  match l, this with
  | [_], this => simp at this
  | [_, _], this => simp at this
  | a :: b :: c :: r, this => simp at this; exact ⟨a, b, r, by rw [this]⟩

/-! ### `list.insert` -/

theorem pyInsert_eqS {α : Type} (l : List α) (i : Int) (x : α) :
    ∃ j, pyInsert l i x = l.take j ++ [x] ++ l.drop j := ⟨_, rfl⟩

theorem proj_pyInsert {β : Type} (P : Proj β) (l : List Tok) (i : Int) (x : Tok) :
    InsSeg (P.π [x]) (P.π l) (P.π (pyInsert l i x)) := by
  obtain ⟨j, hj⟩ := pyInsert_eqS l i x
  refine ⟨P.π (l.take j), P.π (l.drop j), (P.take_drop l j).symm, ?_⟩
  rw [hj, P.app, P.app]

theorem proj_pyInsert_ws {β : Type} (P : Proj β) (l : List Tok) (i : Int) (x : Tok) (hx : x.kind = .ws) :
    P.π (pyInsert l i x) = P.π l := by
  have h := proj_pyInsert P l i x
  rw [P.ws x hx] at h
  exact h.nil.symm

theorem insertToken_okS {α : Type} (l r : List α) (i : Int) (x : α) (h : insertToken l i x = .ok r) :
    r = pyInsert l i x := by
  unfold insertToken at h
  split at h
  · cases h
  · cases h; rfl

theorem proj_insertToken {β : Type} (P : Proj β) (l r : List Tok) (i : Int) (x : Tok)
    (h : insertToken l i x = .ok r) : InsSeg (P.π [x]) (P.π l) (P.π r) := by
  rw [insertToken_okS l r i x h]; exact proj_pyInsert P l i x

theorem proj_insertToken_ws {β : Type} (P : Proj β) (l r : List Tok) (i : Int) (x : Tok) (hx : x.kind = .ws)
    (h : insertToken l i x = .ok r) : P.π r = P.π l := by
  rw [insertToken_okS l r i x h]; exact proj_pyInsert_ws P l i x hx

theorem proj_insertWs {β : Type} (P : Proj β) (E : Env) (l r : List Tok) (i : Int)
    (h : insertWs E l i = .ok r) : P.π r = P.π l :=
  proj_insertToken_ws P l r i _ rfl h

/-! ### slices -/

theorem pyFrom_eq {α : Type} (l : List α) (i : Int) : ∃ j, pyFrom l i = l.drop j := ⟨_, rfl⟩
theorem pyTo_eq {α : Type} (l : List α) (i : Int) : ∃ j, pyTo l i = l.take j := ⟨_, rfl⟩

/-! ### `remove_consecutive_whitespace_tokens` -/

theorem proj_rcwAux {β : Type} (P : Proj β) (prev : Tok) (l : List Tok) : P.π (rcwAux prev l) = P.π l := by
  induction l generalizing prev with
  | nil => rfl
  | cons t r ih =>
    unfold rcwAux
    rw [P.app, ih t, P.cons t r]
    by_cases h : (t.kind == Kind.ws && prev.kind == Kind.ws) = true
    · simp only [h, if_true]
      have : t.kind = .ws := by
        simp only [Bool.and_eq_true, beq_iff_eq] at h; exact h.1
      rw [P.ws t this, P.nil]
    · simp only [h, Bool.false_eq_true, if_false]

theorem proj_rcw {β : Type} (P : Proj β) (l : List Tok) : P.π (rcw l) = P.π l := by
  cases l with
  | nil => rfl
  | cons t r =>
    unfold rcw
    rw [P.cons, proj_rcwAux, ← P.cons]

theorem rcwAux_sublist (prev : Tok) (l : List Tok) : (rcwAux prev l).Sublist l := by
  induction l generalizing prev with
  | nil => exact List.Sublist.refl _
  | cons t r ih =>
    unfold rcwAux
    by_cases h : (t.kind == Kind.ws && prev.kind == Kind.ws) = true
    · simp only [h, if_true, List.nil_append]; exact (ih t).cons _
    · simp only [h, Bool.false_eq_true, if_false, List.singleton_append]; exact (ih t).cons_cons _

theorem rcw_sublist (l : List Tok) : (rcw l).Sublist l := by
  cases l with
  | nil => exact List.Sublist.refl _
  | cons t r => unfold rcw; exact (rcwAux_sublist t r).cons_cons _

/-! ### `remove_optional_item` -/

theorem removeOptionalItem_eq (l r : List Tok) (h : removeOptionalItem l = .ok r) :
    ∃ t0 rest, l = t0 :: rest ∧ r = (if t0.kind == .ws then [] else [t0]) := by
  unfold removeOptionalItem at h
  cases l with
  | nil => simp [pyGet, pyIdx, bind, Except.bind] at h
  | cons t0 rest =>
    refine ⟨t0, rest, rfl, ?_⟩
    have hg : pyGet (t0 :: rest) 0 = .ok t0 := by
      simp [pyGet, pyIdx]
    simp only [hg, bind, Except.bind] at h
    by_cases hw : (t0.kind == Kind.ws) = true
    · simp only [hw, if_true] at h ⊢; cases h; rfl
    · simp only [hw, Bool.false_eq_true, if_false] at h ⊢; cases h; rfl

/-- the projection of `[t0]` survives `remove_optional_item` -/
theorem proj_removeOptionalItem {β : Type} (P : Proj β) (l r : List Tok) (h : removeOptionalItem l = .ok r) :
    ∃ t0 rest, l = t0 :: rest ∧ P.π r = P.π [t0] := by
  obtain ⟨t0, rest, hl, hr⟩ := removeOptionalItem_eq l r h
  refine ⟨t0, rest, hl, ?_⟩
  subst hr
  by_cases hw : (t0.kind == Kind.ws) = true
  · simp only [hw, if_true]
    rw [P.nil, P.ws t0 (by simpa using hw)]
  · simp only [hw, Bool.false_eq_true, if_false]

/-! ### `extras` of the step checker on a sequence with an inserted segment -/

theorem extras_of_sublist {α : Type} [DecidableEq α] : ∀ (a b : List α), a.Sublist b →
    ∃ e, Trace.extras a b = some e
  | [], b, _ => ⟨b, by simp [Trace.extras]⟩
  | x :: a, [], h => by cases h
  | x :: a, y :: b, h => by
    unfold Trace.extras
    by_cases hxy : x = y
    · subst hxy
      simp only [if_true]
      exact extras_of_sublist a b (by simpa using h)
    · simp only [hxy, if_false]
      have h' : (x :: a).Sublist b := by
        cases h with
        | cons _ h => exact h
        | cons_cons _ _ => exact absurd rfl hxy
      obtain ⟨e, he⟩ := extras_of_sublist (x :: a) b h'
      exact ⟨y :: e, by simp [he]⟩

end Vsgm.Base
