/-
  Layer B, whitespace family: every `_fix_violation` is an edit script (`Steps`) over the tokens its guard
  names; the effect theorems follow from `BaseWsSteps`.
-/
import VsgProofs.Lemmas.BaseWsSteps
import VsgModel.Base.Whitespace
import VsgModel.Check.Verdict
namespace Vsgm.Base
open Vsgm

/-! ### Python list primitives as edit steps -/

theorem pyIdx_nat (n k : Nat) : pyIdx n (k : Int) = if k < n then some k else none := by
  unfold pyIdx
  have h0 : ¬ ((k : Int) < 0) := by omega
  simp only [h0, if_false]
  by_cases h : k < n
  · have : (0 : Int) ≤ k ∧ (k : Int) < n := ⟨by omega, by omega⟩
    simp [h, this]
  · have : ¬ ((0 : Int) ≤ k ∧ (k : Int) < n) := by omega
    simp [h]

theorem pyIdx_neg1 (n : Nat) : pyIdx n (-1) = if n = 0 then none else some (n - 1) := by
  unfold pyIdx
  simp only [show ((-1 : Int) < 0) from by omega, if_true]
  by_cases h : n = 0
  · subst h; simp
  · have : (0 : Int) ≤ -1 + (n : Int) ∧ -1 + (n : Int) < n := ⟨by omega, by omega⟩
    simp only [this, and_self, if_true, h, if_false]
    congr 1; omega

theorem pyGet_nat_ok {α : Type} (l : List α) (k : Nat) (x : α) (h : pyGet l (k : Int) = .ok x) : l[k]? = some x := by
  obtain ⟨j, hj, hx⟩ := pyGet_some l _ x h
  rw [pyIdx_nat] at hj
  split at hj
  · cases hj; exact hx
  · cases hj

theorem pyGet_neg1_ok {α : Type} (l : List α) (x : α) (h : pyGet l (-1) = .ok x) :
    l ≠ [] ∧ l[l.length - 1]? = some x := by
  obtain ⟨j, hj, hx⟩ := pyGet_some l _ x h
  rw [pyIdx_neg1] at hj
  split at hj
  · cases hj
  · rename_i hn
    cases hj
    exact ⟨by intro he; subst he; simp at hn, hx⟩

theorem pyPop_ok {α : Type} (l : List α) (i : Int) (x : α) (r : List α) (h : pyPop l i = .ok (x, r)) :
    ∃ k, pyIdx l.length i = some k ∧ l[k]? = some x ∧ r = l.eraseIdx k := by
  unfold pyPop at h
  cases hk : pyIdx l.length i with
  | none => simp [hk] at h
  | some k =>
    simp only [hk] at h
    cases hx : l[k]? with
    | none => simp [hx] at h
    | some y =>
      simp only [hx] at h
      cases h
      exact ⟨k, rfl, hx, rfl⟩

/-- position at which `list.insert(i, x)` puts `x` -/
def insPos (n : Nat) (i : Int) : Nat := (if i < 0 then max 0 (i + n) else min i n).toNat

theorem insPos_le (n : Nat) (i : Int) : insPos n i ≤ n := by
  unfold insPos
  split <;> omega

theorem pyInsert_eq {α : Type} (l : List α) (i : Int) (x : α) :
    pyInsert l i x = l.take (insPos l.length i) ++ [x] ++ l.drop (insPos l.length i) := rfl

theorem insertToken_ok {α : Type} (l r : List α) (i : Int) (x : α) (h : insertToken l i x = .ok r) :
    l ≠ [] ∧ r = l.take (insPos l.length i) ++ [x] ++ l.drop (insPos l.length i) := by
  unfold insertToken at h
  split at h
  · cases h
  · rename_i hne
    cases h
    exact ⟨by intro he; subst he; simp at hne, rfl⟩

/-- where `insert_token` with an arbitrary Python index puts the token -/
def insPosV (n : Nat) (idx : Val) : Nat :=
  match asInt idx with
  | some i => insPos n i
  | none => n

theorem insertTokenV_ok {α : Type} (l r : List α) (idx : Val) (x : α) (h : insertTokenV l idx x = .ok r) :
    l ≠ [] ∧ r = l.take (insPosV l.length idx) ++ [x] ++ l.drop (insPosV l.length idx) := by
  unfold insertTokenV at h
  unfold insPosV
  cases hi : asInt idx with
  | some i =>
    simp only [hi] at h ⊢
    exact insertToken_ok l r i x h
  | none =>
    simp only [hi] at h ⊢
    split at h
    · cases h
    · rename_i hne
      split at h
      · cases h
        exact ⟨by intro he; subst he; simp at hne, by simp⟩
      · cases h

theorem insPosV_le (n : Nat) (idx : Val) : insPosV n idx ≤ n := by
  unfold insPosV
  split
  · exact insPos_le _ _
  · exact Nat.le_refl _

section steps
variable {P : Kind → Prop} {Q : Option Tok → Prop}

theorem mkWs_gap (c : Nat) (v : Str) : Kind.isGap (mkWs c v).kind := Or.inl rfl

/-- `insert_whitespace` is one `ins` step -/
theorem insertWhitespace_step (wsCls : Nat) (l r : List Tok) (idx num : Val)
    (h : insertWhitespace wsCls l idx num = .ok r) (hq : Q (prevAt l (insPosV l.length idx))) :
    Step P Q l r := by
  unfold insertWhitespace at h
  cases hv : mulSpace num with
  | error e => simp [hv, bind, Except.bind] at h
  | ok v =>
    simp only [hv, bind, Except.bind] at h
    obtain ⟨_, hr⟩ := insertTokenV_ok l r idx _ h
    subst hr
    exact .ins _ _ (insPosV_le _ _) (mkWs_gap _ _) hq

/-- `lTokens[i].set_value(v)` is one `set` step -/
theorem pySet_step (l r : List Tok) (i : Int) (t : Tok) (v : Str) (hg : pyGet l i = .ok t)
    (hs : pySet l i { t with val := v } = .ok r) (hp : P t.kind) : Step P Q l r := by
  obtain ⟨k, hk, hx⟩ := pyGet_some l i t hg
  obtain ⟨k', hk', hr⟩ := pySet_eq _ _ _ _ hs
  rw [hk] at hk'; cases hk'
  subst hr
  exact .set k t v hx hp

/-- `lTokens.pop(i)` is one `del` step -/
theorem pyPop_step (l r : List Tok) (i : Int) (t : Tok) (h : pyPop l i = .ok (t, r)) (hp : P t.kind) :
    Step P Q l r := by
  obtain ⟨k, _, hx, hr⟩ := pyPop_ok l i t r h
  subst hr
  exact .del k t hx hp

/-- dropping a suffix whose tokens all satisfy `P` -/
theorem steps_drop_suffix (pre suf : List Tok) (h : ∀ t ∈ suf, P t.kind) : Steps P Q (pre ++ suf) pre := by
  induction suf with
  | nil => simpa using Steps.refl pre
  | cons t suf ih =>
    have hstep : Step P Q (pre ++ t :: suf) ((pre ++ t :: suf).eraseIdx pre.length) :=
      .del pre.length t (by simp) (h t (List.mem_cons_self ..))
    have he : (pre ++ t :: suf).eraseIdx pre.length = pre ++ suf := by
      rw [List.eraseIdx_append_of_length_le (Nat.le_refl _)]; simp
    rw [he] at hstep
    exact (Steps.single hstep).trans (ih (fun x hx => h x (List.mem_cons_of_mem _ hx)))

/-- dropping a stretch in the middle -/
theorem steps_drop_middle (a mid b : List Tok) (h : ∀ t ∈ mid, P t.kind) : Steps P Q (a ++ mid ++ b) (a ++ b) := by
  induction mid with
  | nil => simpa using Steps.refl (a ++ b)
  | cons t mid ih =>
    have hstep : Step P Q (a ++ t :: mid ++ b) ((a ++ t :: mid ++ b).eraseIdx a.length) :=
      .del a.length t (by simp [List.append_assoc]) (h t (List.mem_cons_self ..))
    have he : (a ++ t :: mid ++ b).eraseIdx a.length = a ++ mid ++ b := by
      rw [List.append_assoc, List.eraseIdx_append_of_length_le (Nat.le_refl _)]; simp
    rw [he] at hstep
    exact (Steps.single hstep).trans (ih (fun x hx => h x (List.mem_cons_of_mem _ hx)))

end steps

/-! ### whitespace_between_tokens -/

namespace WsBetween

theorem fixV_steps {P : Kind → Prop} {Q : Option Tok → Prop} (wsCls : Nat) (nos : NoS) (action : KV) (l r : List Tok)
    (hws : P .ws) (hg : ∀ t ∈ touched nos l, P t.kind)
    (hq : nos ≠ .int 0 → ∀ t1, l[1]? = some t1 → t1.kind ≠ .ws → Q l[0]?)
    (h : fixV wsCls nos action l = .ok r) : Steps P Q l r := by
  unfold fixV at h
  by_cases h0 : nos = .int 0
  · simp only [h0, beq_self_eq_true, if_true] at h
    cases ha : pyGet l 0 with
    | error e => simp [ha, bind, Except.bind] at h
    | ok a =>
      cases hb : pyGet l 2 with
      | error e => simp [ha, hb, bind, Except.bind] at h
      | ok b =>
        simp only [ha, hb, bind, Except.bind, pure, Except.pure] at h
        cases h
        have ha' := pyGet_nat_ok l 0 a ha
        have hb' := pyGet_nat_ok l 2 b hb
        match l, ha', hb' with
        | x :: y :: z :: rest, ha', hb' =>
          simp at ha' hb'; subst ha'; subst hb'
          have ht : ∀ t ∈ y :: rest, P t.kind := by
            intro t ht
            apply hg t
            simp [touched, h0] at ht ⊢
            exact ht
          have s1 : Steps P Q (x :: y :: z :: rest) [x, y, z] :=
            steps_drop_suffix (Q := Q) [x, y, z] rest (fun t h' => ht t (List.mem_cons_of_mem _ h'))
          have s2 : Steps P Q ([x] ++ [y] ++ [z]) ([x] ++ [z]) :=
            steps_drop_middle [x] [y] [z] (fun t h' => ht t (by simp at h'; simp [h']))
          exact s1.trans s2
  · have hne : (nos == NoS.int 0) = false := by simpa using h0
    simp only [hne, Bool.false_eq_true, if_false] at h
    cases h1 : pyGet l 1 with
    | error e => simp [h1, bind, Except.bind] at h
    | ok t1 =>
      simp only [h1, bind, Except.bind] at h
      have h1' := pyGet_nat_ok l 1 t1 h1
      by_cases hw : (t1.kind == Kind.ws) = true
      · simp only [hw, if_true] at h
        cases hsp : actionGet action "spaces" with
        | error e => simp [hsp] at h
        | ok sp =>
          simp only [hsp] at h
          cases hv : mulSpace sp with
          | error e => simp [hv] at h
          | ok v =>
            simp only [hv] at h
            have : P t1.kind := by
              have : t1.kind = .ws := by simpa using hw
              rw [this]; exact hws
            exact Steps.single (pySet_step l r 1 t1 v h1 h this)
      · simp only [hw, Bool.false_eq_true, if_false] at h
        cases hsp : actionGet action "spaces" with
        | error e => simp [hsp] at h
        | ok sp =>
          simp only [hsp] at h
          apply Steps.single
          apply insertWhitespace_step wsCls l r (.int 1) sp h
          have hlen : 2 ≤ l.length := by
            have := (List.getElem?_eq_some_iff.mp h1').1
            omega
          have hpos : insPosV l.length (.int 1) = 1 := by
            simp only [insPosV, asInt, insPos]
            have : ¬ ((1 : Int) < 0) := by omega
            simp only [this, if_false]
            omega
          rw [hpos]
          have : prevAt l 1 = l[0]? := by simp [prevAt]
          rw [this]
          exact hq h0 t1 h1' (by simpa using hw)

end WsBetween

/-! ### head / last invariants on kind lists (for the two-sided rules) -/

def HeadOk (P : Kind → Prop) (ks : List Kind) : Prop := ∀ k, ks.head? = some k → P k
def LastOk (P : Kind → Prop) (ks : List Kind) : Prop := ∀ k, ks.getLast? = some k → P k

theorem headOk_ins {P : Kind → Prop} (ks : List Kind) (j : Nat) (t : Kind) (h : HeadOk P ks) (ht : P t) :
    HeadOk P (ks.take j ++ [t] ++ ks.drop j) := by
  intro k hk
  cases j with
  | zero => simp at hk; rw [← hk]; exact ht
  | succ j' =>
    cases ks with
    | nil => simp at hk; rw [← hk]; exact ht
    | cons x ks' => simp at hk; exact h k (by simp [hk])

theorem lastOk_ins {P : Kind → Prop} (ks : List Kind) (j : Nat) (t : Kind) (h : LastOk P ks) (ht : P t) :
    LastOk P (ks.take j ++ [t] ++ ks.drop j) := by
  intro k hk
  rw [List.getLast?_append] at hk
  cases hd : (ks.drop j).getLast? with
  | none =>
    simp [hd] at hk
    rw [← hk]; exact ht
  | some y =>
    simp [hd] at hk
    rw [List.getLast?_drop] at hd
    split at hd
    · cases hd
    · exact h k (by rw [hd, hk])

theorem lastOk_tail {P : Kind → Prop} (ks : List Kind) (h : LastOk P ks) : LastOk P ks.tail := by
  intro k hk
  cases ks with
  | nil => simp at hk
  | cons x r =>
    simp only [List.tail_cons] at hk
    apply h k
    cases r with
    | nil => simp at hk
    | cons y r' => simpa [List.getLast?_cons_cons] using hk

theorem map_kind_ins (l : List Tok) (j : Nat) (t : Tok) :
    (l.take j ++ [t] ++ l.drop j).map (·.kind) = (l.map (·.kind)).take j ++ [t.kind] ++ (l.map (·.kind)).drop j := by
  simp [List.map_take, List.map_drop]

/-- `insert_whitespace` keeps the head / last invariants -/
theorem insertWhitespace_inv {P : Kind → Prop} (wsCls : Nat) (l r : List Tok) (idx num : Val)
    (h : insertWhitespace wsCls l idx num = .ok r) (hws : P .ws) :
    (HeadOk P (l.map (·.kind)) → HeadOk P (r.map (·.kind))) ∧ (LastOk P (l.map (·.kind)) → LastOk P (r.map (·.kind))) := by
  unfold insertWhitespace at h
  cases hv : mulSpace num with
  | error e => simp [hv, bind, Except.bind] at h
  | ok v =>
    simp only [hv, bind, Except.bind] at h
    obtain ⟨_, hr⟩ := insertTokenV_ok l r idx _ h
    subst hr
    rw [map_kind_ins]
    exact ⟨fun hh => headOk_ins _ _ _ hh hws, fun hh => lastOk_ins _ _ _ hh hws⟩

theorem pySet_kinds (l r : List Tok) (i : Int) (t : Tok) (v : Str) (hg : pyGet l i = .ok t)
    (hs : pySet l i { t with val := v } = .ok r) : r.map (·.kind) = l.map (·.kind) := by
  obtain ⟨k, hk, hx⟩ := pyGet_some l i t hg
  obtain ⟨k', hk', hr⟩ := pySet_eq _ _ _ _ hs
  rw [hk] at hk'; cases hk'
  subst hr
  exact map_kind_set l k t v hx

theorem head_of_pyGet0 {P : Kind → Prop} (l : List Tok) (t : Tok) (h : pyGet l 0 = .ok t)
    (hh : HeadOk P (l.map (·.kind))) : P t.kind := by
  have := pyGet_nat_ok l 0 t h
  apply hh
  cases l with
  | nil => simp at this
  | cons x r => simp at this; subst this; simp

theorem last_of_pyGetNeg1 {P : Kind → Prop} (l : List Tok) (t : Tok) (h : pyGet l (-1) = .ok t)
    (hh : LastOk P (l.map (·.kind))) : P t.kind := by
  obtain ⟨hne, hx⟩ := pyGet_neg1_ok l t h
  apply hh
  rw [List.getLast?_map, List.getLast?_eq_getElem?, hx]; rfl

/-! ### n_spaces_before_and_after_tokens -/

namespace NSpaces
variable {P : Kind → Prop}

def T : Option Tok → Prop := fun _ => True

theorem stepLeft_ok (wsCls : Nat) (n : Val) (l r : List Tok) (kv : String × Val) (fl fr : Prop) (hws : P .ws)
    (hfl : ∀ a, kv.1 = "left" → subscript kv.2 "action" = .ok a → eqStr a "adjust" = true → fl)
    (inv : (fl → HeadOk P (l.map (·.kind))) ∧ (fr → LastOk P (l.map (·.kind))))
    (h : stepLeft wsCls n l kv = .ok r) :
    Steps P T l r ∧ (fl → HeadOk P (r.map (·.kind))) ∧ (fr → LastOk P (r.map (·.kind))) := by
  unfold stepLeft at h
  by_cases hk : (kv.1 == "left") = true
  · simp only [hk, if_true] at h
    cases ha : subscript kv.2 "action" with
    | error e => simp [ha, bind, Except.bind] at h
    | ok a =>
      simp only [ha, bind, Except.bind] at h
      by_cases hadj : eqStr a "adjust" = true
      · simp only [hadj, if_true] at h
        cases ht : pyGet l 0 with
        | error e => simp [ht] at h
        | ok t =>
          simp only [ht] at h
          cases hv : mulSpace n with
          | error e => simp [hv] at h
          | ok v =>
            simp only [hv] at h
            have hfl' : fl := hfl a (by simpa using hk) ha hadj
            have hp : P t.kind := head_of_pyGet0 l t ht (inv.1 hfl')
            have hkinds := pySet_kinds l r 0 t v ht h
            refine ⟨Steps.single (pySet_step l r 0 t v ht h hp), ?_, ?_⟩
            · rw [hkinds]; exact inv.1
            · rw [hkinds]; exact inv.2
      · simp only [hadj, Bool.false_eq_true, if_false] at h
        obtain ⟨i1, i2⟩ := insertWhitespace_inv (P := P) wsCls l r _ _ h hws
        exact ⟨Steps.single (insertWhitespace_step wsCls l r _ _ h trivial), fun f => i1 (inv.1 f), fun f => i2 (inv.2 f)⟩
  · simp only [hk, Bool.false_eq_true, if_false, pure, Except.pure] at h
    cases h
    exact ⟨Steps.refl _, inv.1, inv.2⟩

theorem stepRight_ok (wsCls : Nat) (n : Val) (l r : List Tok) (kv : String × Val) (fl fr : Prop) (hws : P .ws)
    (hfr : ∀ a, kv.1 = "right" → subscript kv.2 "action" = .ok a → eqStr a "adjust" = true → fr)
    (inv : (fl → HeadOk P (l.map (·.kind))) ∧ (fr → LastOk P (l.map (·.kind))))
    (h : stepRight wsCls n l kv = .ok r) :
    Steps P T l r ∧ (fl → HeadOk P (r.map (·.kind))) ∧ (fr → LastOk P (r.map (·.kind))) := by
  unfold stepRight at h
  by_cases hk : (kv.1 == "right") = true
  · simp only [hk, if_true] at h
    cases ha : subscript kv.2 "action" with
    | error e => simp [ha, bind, Except.bind] at h
    | ok a =>
      simp only [ha, bind, Except.bind] at h
      by_cases hadj : eqStr a "adjust" = true
      · simp only [hadj, if_true] at h
        cases ht : pyGet l (-1) with
        | error e => simp [ht] at h
        | ok t =>
          simp only [ht] at h
          cases hv : mulSpace n with
          | error e => simp [hv] at h
          | ok v =>
            simp only [hv] at h
            have hfr' : fr := hfr a (by simpa using hk) ha hadj
            have hp : P t.kind := last_of_pyGetNeg1 l t ht (inv.2 hfr')
            have hkinds := pySet_kinds l r (-1) t v ht h
            refine ⟨Steps.single (pySet_step l r (-1) t v ht h hp), ?_, ?_⟩
            · rw [hkinds]; exact inv.1
            · rw [hkinds]; exact inv.2
      · simp only [hadj, Bool.false_eq_true, if_false] at h
        obtain ⟨i1, i2⟩ := insertWhitespace_inv (P := P) wsCls l r _ _ h hws
        exact ⟨Steps.single (insertWhitespace_step wsCls l r _ _ h trivial), fun f => i1 (inv.1 f), fun f => i2 (inv.2 f)⟩
  · simp only [hk, Bool.false_eq_true, if_false, pure, Except.pure] at h
    cases h
    exact ⟨Steps.refl _, inv.1, inv.2⟩

theorem wantsAdjust_of_mem (action : KV) (side : String) (kv : String × Val) (a : Val) (hm : kv ∈ action)
    (h1 : kv.1 = side) (h2 : subscript kv.2 "action" = .ok a) (h3 : eqStr a "adjust" = true) :
    wantsAdjust action side = true := by
  unfold wantsAdjust
  rw [List.any_eq_true]
  exact ⟨kv, hm, by simp [h1, h2, h3]⟩

theorem steps_ok (wsCls : Nat) (n : Val) (full : KV) (hws : P .ws) (rem : List (String × Val)) (l r : List Tok)
    (hsub : ∀ kv ∈ rem, kv ∈ full)
    (inv : (wantsAdjust full "left" = true → HeadOk P (l.map (·.kind))) ∧
           (wantsAdjust full "right" = true → LastOk P (l.map (·.kind))))
    (h : steps wsCls n rem l = .ok r) : Steps P T l r := by
  induction rem generalizing l with
  | nil => simp [steps] at h; cases h; exact Steps.refl _
  | cons kv rem ih =>
    simp only [steps, bind, Except.bind] at h
    cases hs : step wsCls n l kv with
    | error e => simp [hs] at h
    | ok l2 =>
      simp only [hs] at h
      unfold step at hs
      simp only [bind, Except.bind] at hs
      cases h1 : stepLeft wsCls n l kv with
      | error e => simp [h1] at hs
      | ok l1 =>
        simp only [h1] at hs
        have hm : kv ∈ full := hsub kv (List.mem_cons_self ..)
        obtain ⟨s1, i1, i1'⟩ := stepLeft_ok wsCls n l l1 kv _ _ hws
          (fun a e1 e2 e3 => wantsAdjust_of_mem full "left" kv a hm e1 e2 e3) inv h1
        obtain ⟨s2, i2, i2'⟩ := stepRight_ok wsCls n l1 l2 kv _ _ hws
          (fun a e1 e2 e3 => wantsAdjust_of_mem full "right" kv a hm e1 e2 e3) ⟨i1, i1'⟩ hs
        exact (s1.trans s2).trans (ih l2 (fun x hx => hsub x (List.mem_cons_of_mem _ hx)) ⟨i2, i2'⟩ h)

theorem headOk_of_opt (l : List Tok) (hh : ∀ t, l.head? = some t → P t.kind) : HeadOk P (l.map (·.kind)) := by
  intro k hk
  cases l with
  | nil => simp at hk
  | cons x r => simp at hk; rw [← hk]; exact hh x rfl

theorem lastOk_of_opt (l : List Tok) (hh : ∀ t, l.getLast? = some t → P t.kind) : LastOk P (l.map (·.kind)) := by
  intro k hk
  rw [List.getLast?_map] at hk
  cases hl : l.getLast? with
  | none => simp [hl] at hk
  | some t => simp [hl] at hk; rw [← hk]; exact hh t hl

theorem fixV_steps (wsCls : Nat) (n : Val) (action : KV) (l r : List Tok) (hws : P .ws)
    (hL : wantsAdjust action "left" = true → ∀ t, l.head? = some t → P t.kind)
    (hR : wantsAdjust action "right" = true → ∀ t, l.getLast? = some t → P t.kind)
    (h : fixV wsCls n action l = .ok r) : Steps P T l r := by
  unfold fixV at h
  split at h
  · cases h
  · exact steps_ok wsCls n action hws action l r (fun _ h => h)
      ⟨fun f => headOk_of_opt l (hL f), fun f => lastOk_of_opt l (hR f)⟩ h

end NSpaces

/-! ### spaces_before_and_after_tokens_when_bounded_by_tokens -/

namespace Bounded
variable {P : Kind → Prop}

theorem fixLeft_ok (wsCls : Nat) (before : Val) (action : KV) (l r : List Tok) (fr : Prop) (hws : P .ws)
    (hL : leftTouches action = true → HeadOk P (l.map (·.kind)))
    (hR : fr → LastOk P (l.map (·.kind)))
    (h : fixLeft wsCls before action l = .ok r) :
    Steps P NSpaces.T l r ∧ (fr → LastOk P (r.map (·.kind))) := by
  unfold fixLeft at h
  cases hd : action.get "left" with
  | none => simp only [hd] at h; cases h; exact ⟨Steps.refl _, hR⟩
  | some d =>
    simp only [hd, bind, Except.bind] at h
    cases ha : subscript d "action" with
    | error e => simp [ha] at h
    | ok a =>
      simp only [ha] at h
      by_cases hadj : eqStr a "adjust" = true
      · simp only [hadj, if_true] at h
        have hlt : leftTouches action = true := by simp [leftTouches, hd, ha, hadj]
        cases ht : pyGet l 0 with
        | error e => simp [ht] at h
        | ok t =>
          simp only [ht] at h
          cases hv : mulSpace before with
          | error e => simp [hv] at h
          | ok v =>
            simp only [hv] at h
            have hp : P t.kind := head_of_pyGet0 l t ht (hL hlt)
            have hkinds := pySet_kinds l r 0 t v ht h
            exact ⟨Steps.single (pySet_step l r 0 t v ht h hp), by rw [hkinds]; exact hR⟩
      · simp only [hadj, Bool.false_eq_true, if_false] at h
        by_cases hrem : eqStr a "remove" = true
        · simp only [hrem, if_true] at h
          have hlt : leftTouches action = true := by simp [leftTouches, hd, ha, hrem]
          cases hpop : pyPop l 0 with
          | error e => simp [hpop] at h
          | ok xr =>
            obtain ⟨x, r'⟩ := xr
            simp only [hpop, pure, Except.pure] at h
            cases h
            obtain ⟨k, hk, hx, hr⟩ := pyPop_ok l 0 x r hpop
            have hk0 : k = 0 := by
              have := pyIdx_nat l.length 0
              simp only [Int.natCast_zero] at this
              rw [this] at hk
              split at hk
              · cases hk; rfl
              · cases hk
            subst hk0
            have hp : P x.kind := by
              apply hL hlt
              cases l with
              | nil => simp at hx
              | cons y t => simp at hx; subst hx; simp
            refine ⟨Steps.single (pyPop_step l r 0 x hpop hp), ?_⟩
            intro f
            subst hr
            have : (l.eraseIdx 0).map (·.kind) = (l.map (·.kind)).tail := by
              cases l <;> simp
            rw [this]
            exact lastOk_tail _ (hR f)
        · simp only [hrem, Bool.false_eq_true, if_false] at h
          obtain ⟨_, i2⟩ := insertWhitespace_inv (P := P) wsCls l r _ _ h hws
          exact ⟨Steps.single (insertWhitespace_step wsCls l r _ _ h trivial), fun f => i2 (hR f)⟩

theorem fixRight_ok (wsCls : Nat) (after : Val) (action : KV) (l r : List Tok) (_hws : P .ws)
    (hR : rightTouches action = true → LastOk P (l.map (·.kind)))
    (h : fixRight wsCls after action l = .ok r) : Steps P NSpaces.T l r := by
  unfold fixRight at h
  cases hd : action.get "right" with
  | none => simp only [hd] at h; cases h; exact Steps.refl _
  | some d =>
    simp only [hd, bind, Except.bind] at h
    cases ha : subscript d "action" with
    | error e => simp [ha] at h
    | ok a =>
      simp only [ha] at h
      by_cases hadj : eqStr a "adjust" = true
      · simp only [hadj, if_true] at h
        have hrt : rightTouches action = true := by simp [rightTouches, hd, ha, hadj]
        cases ht : pyGet l (-1) with
        | error e => simp [ht] at h
        | ok t =>
          simp only [ht] at h
          cases hv : mulSpace after with
          | error e => simp [hv] at h
          | ok v =>
            simp only [hv] at h
            have hp : P t.kind := last_of_pyGetNeg1 l t ht (hR hrt)
            exact Steps.single (pySet_step l r (-1) t v ht h hp)
      · simp only [hadj, Bool.false_eq_true, if_false] at h
        cases hk : asInt after with
        | none => simp [hk] at h
        | some k =>
          simp only [hk] at h
          exact Steps.single (insertWhitespace_step wsCls l r _ _ h trivial)

theorem fixV_steps (wsCls : Nat) (before after : Val) (action : KV) (l r : List Tok) (hws : P .ws)
    (hL : leftTouches action = true → ∀ t, l.head? = some t → P t.kind)
    (hR : rightTouches action = true → ∀ t, l.getLast? = some t → P t.kind)
    (h : fixV wsCls before after action l = .ok r) : Steps P NSpaces.T l r := by
  unfold fixV at h
  split at h
  · cases h
  · simp only [bind, Except.bind] at h
    cases h1 : fixLeft wsCls before action l with
    | error e => simp [h1] at h
    | ok l1 =>
      simp only [h1] at h
      obtain ⟨s1, i1⟩ := fixLeft_ok wsCls before action l l1 (rightTouches action = true) hws
        (fun f => NSpaces.headOk_of_opt l (hL f)) (fun f => NSpaces.lastOk_of_opt l (hR f)) h1
      exact s1.trans (fixRight_ok wsCls after action l1 r hws i1 h)

end Bounded

theorem dropLast_snoc_of_getLast? {α : Type} (l : List α) (x : α) (h : l.getLast? = some x) : l.dropLast ++ [x] = l := by
  rcases List.eq_nil_or_concat l with rfl | ⟨l', a, rfl⟩
  · simp at h
  · simp at h; subst h; simp

theorem eraseIdx_last {α : Type} (l : List α) : l.eraseIdx (l.length - 1) = l.dropLast := by
  rcases List.eq_nil_or_concat l with rfl | ⟨l', a, rfl⟩
  · simp
  · simp only [List.concat_eq_append, List.length_append, List.length_singleton, Nat.add_sub_cancel, List.dropLast_concat]
    rw [List.eraseIdx_append_of_length_le (Nat.le_refl _)]; simp

/-! ### the single-purpose rules -/

theorem RemoveBefore.fixV_steps {P : Kind → Prop} {Q : Option Tok → Prop} (l r : List Tok)
    (hg : ∀ t, l.head? = some t → P t.kind) (h : RemoveBefore.fixV l = .ok r) : Steps P Q l r := by
  unfold RemoveBefore.fixV at h
  cases h
  cases l with
  | nil => exact Steps.refl _
  | cons x t =>
    have : Step P Q (x :: t) ((x :: t).eraseIdx 0) := .del 0 x (by simp) (hg x rfl)
    simpa using Steps.single this

theorem Ws008.fixV_steps {P : Kind → Prop} {Q : Option Tok → Prop} (l r : List Tok)
    (hg : ∀ t, l.getLast? = some t → P t.kind) (h : Ws008.fixV l = .ok r) : Steps P Q l r := by
  unfold Ws008.fixV at h
  simp only [bind, Except.bind] at h
  cases hpop : pyPop l (-1) with
  | error e => simp [hpop] at h
  | ok xr =>
    obtain ⟨x, r'⟩ := xr
    simp only [hpop, pure, Except.pure] at h
    cases h
    obtain ⟨k, hk, hx, _⟩ := pyPop_ok l (-1) x r hpop
    rw [pyIdx_neg1] at hk
    split at hk
    · cases hk
    · cases hk
      have : l.getLast? = some x := by rw [List.getLast?_eq_getElem?]; exact hx
      exact Steps.single (pyPop_step l r (-1) x hpop (hg x this))

theorem Ws005.fixV_steps {P : Kind → Prop} {Q : Option Tok → Prop} (l r : List Tok)
    (hg : ∀ t, l.dropLast.getLast? = some t → P t.kind) (h : Ws005.fixV l = .ok r) : Steps P Q l r := by
  unfold Ws005.fixV at h
  simp only [bind, Except.bind] at h
  cases hpop : pyPop l (-1) with
  | error e => simp [hpop] at h
  | ok xr =>
    obtain ⟨x, r1⟩ := xr
    simp only [hpop] at h
    cases hpop2 : pyPop r1 (-1) with
    | error e => simp [hpop2] at h
    | ok yr =>
      obtain ⟨y, r2⟩ := yr
      simp only [hpop2, pure, Except.pure] at h
      cases h
      obtain ⟨k, hk, hx, hr1⟩ := pyPop_ok l (-1) x r1 hpop
      obtain ⟨k2, hk2, hy, hr2⟩ := pyPop_ok r1 (-1) y r2 hpop2
      rw [pyIdx_neg1] at hk hk2
      split at hk
      · cases hk
      · rename_i hl0
        cases hk
        split at hk2
        · cases hk2
        · rename_i hr10
          cases hk2
          -- l = r2 ++ [y, x]
          have e1 : r1 = l.dropLast := by rw [hr1, eraseIdx_last]
          have e2 : r2 = r1.dropLast := by rw [hr2, eraseIdx_last]
          have hxl : l.getLast? = some x := by rw [List.getLast?_eq_getElem?]; exact hx
          have hyl : r1.getLast? = some y := by rw [List.getLast?_eq_getElem?]; exact hy
          have hl : l = r1 ++ [x] := by
            rw [e1]; exact (dropLast_snoc_of_getLast? l x hxl).symm
          have hr : r1 = r2 ++ [y] := by
            rw [e2]; exact (dropLast_snoc_of_getLast? r1 y hyl).symm
          have hp : P y.kind := hg y (by rw [← e1]; exact hyl)
          rw [hl, hr]
          have := steps_drop_middle (P := P) (Q := Q) r2 [y] [x] (fun t ht => by simp at ht; subst ht; exact hp)
          simpa using this

theorem Ws001.fixV_stepsQ {P : Kind → Prop} {Q : Option Tok → Prop} (blankCls : Nat) (action : KV) (l r : List Tok)
    (hlen : 2 ≤ l.length) (hg : ∀ t ∈ (l.drop 1).dropLast, P t.kind)
    (hq : ∀ first, l[0]? = some first → Q (some first)) (h : Ws001.fixV blankCls action l = .ok r) :
    Steps P Q l r := by
  unfold Ws001.fixV at h
  simp only [bind, Except.bind] at h
  cases ha : actionGet action "action" with
  | error e => simp [ha] at h
  | ok a =>
    simp only [ha] at h
    cases hf : pyGet l 0 with
    | error e => simp [hf] at h
    | ok first =>
      simp only [hf] at h
      cases hl : pyGet l (-1) with
      | error e => simp [hl] at h
      | ok last =>
        simp only [hl] at h
        have hf' := pyGet_nat_ok l 0 first hf
        obtain ⟨_, hl'⟩ := pyGet_neg1_ok l last hl
        have hlast : l.getLast? = some last := by rw [List.getLast?_eq_getElem?]; exact hl'
        -- l = first :: mid ++ [last]
        have hsplit : l = [first] ++ (l.drop 1).dropLast ++ [last] := by
          cases l with
          | nil => simp at hlen
          | cons x t =>
            simp at hf'; subst hf'
            have ht : t ≠ [] := by intro he; subst he; simp at hlen
            have : t.getLast? = some last := by
              rw [List.getLast?_cons] at hlast
              cases hh : t.getLast? with
              | none => simp [List.getLast?_eq_none_iff] at hh; exact absurd hh ht
              | some z => simp [hh] at hlast; rw [hlast]
            simp only [List.drop_succ_cons, List.drop_zero, List.cons_append, List.cons.injEq, true_and]
            exact (dropLast_snoc_of_getLast? t last this).symm
        have s1 : Steps P Q l ([first] ++ [last]) := by
          have := steps_drop_middle (P := P) (Q := Q) [first] ((l.drop 1).dropLast) [last] hg
          rw [← hsplit] at this
          exact this
        by_cases hrm : eqStr a "remove" = true
        · simp only [hrm, if_true, pure, Except.pure] at h
          cases h
          exact s1
        · simp only [hrm, Bool.false_eq_true, if_false, pure, Except.pure] at h
          cases h
          have : Step P Q ([first] ++ [last])
              (([first] ++ [last]).take 1 ++ [({ cls := blankCls, kind := .blank, val := [] } : Tok)] ++ ([first] ++ [last]).drop 1) :=
            .ins 1 _ (by simp) (Or.inr rfl) (by simpa [prevAt] using hq first hf')
          exact s1.trans (Steps.single (by simpa using this))

theorem Ws001.fixV_steps {P : Kind → Prop} (blankCls : Nat) (action : KV) (l r : List Tok)
    (hlen : 2 ≤ l.length) (hg : ∀ t ∈ (l.drop 1).dropLast, P t.kind) (h : Ws001.fixV blankCls action l = .ok r) :
    Steps P NSpaces.T l r :=
  Ws001.fixV_stepsQ blankCls action l r hlen hg (fun _ _ => trivial) h

theorem Ws002.fixV_steps {P : Kind → Prop} (wsCls commentCls : Nat) (action : KV) (l r : List Tok)
    (hact : Ws002.isCommentAction action = false)
    (hg : ∀ t, l.getLast? = some t → P t.kind) (h : Ws002.fixV wsCls commentCls action l = .ok r) :
    Steps P NSpaces.T l r := by
  unfold Ws002.fixV at h
  simp only [bind, Except.bind] at h
  cases ha : actionGet action "action" with
  | error e => simp [ha] at h
  | ok a =>
    simp only [ha] at h
    cases hpop : pyPop l (-1) with
    | error e => simp [hpop] at h
    | ok xr =>
      obtain ⟨x, r1⟩ := xr
      simp only [hpop] at h
      have hna : eqStr a "remove_tab_from_comment" = false := by
        unfold Ws002.isCommentAction at hact
        unfold actionGet at ha
        split at ha
        · cases ha
        · cases hget : action.get "action" with
          | none => simp [hget] at ha
          | some v => simp [hget] at ha hact; rw [← ha]; exact hact
      simp only [hna, Bool.false_eq_true, if_false, pure, Except.pure] at h
      cases h
      obtain ⟨k, hk, hx, _⟩ := pyPop_ok l (-1) x r1 hpop
      rw [pyIdx_neg1] at hk
      split at hk
      · cases hk
      · cases hk
        have hxl : l.getLast? = some x := by rw [List.getLast?_eq_getElem?]; exact hx
        have s1 : Steps P NSpaces.T l r1 := Steps.single (pyPop_step l r1 (-1) x hpop (hg x hxl))
        have : Step P NSpaces.T r1 (r1.take r1.length ++ [mkWs wsCls (untab x.val)] ++ r1.drop r1.length) :=
          .ins r1.length _ (Nat.le_refl _) (mkWs_gap _ _) trivial
        exact s1.trans (Steps.single (by simpa using this))

/-! ### the two rules that edit blanks / tabs INSIDE comment values -/

open Verdict in
theorem filter_untab (v : Str) : (untab v).filter (fun c => !isWsChar c) = v.filter (fun c => !isWsChar c) := by
  induction v with
  | nil => rfl
  | cons c v ih =>
    unfold untab at ih ⊢
    simp only [List.flatMap_cons, List.filter_append]
    rw [ih]
    by_cases hc : c = '\t'
    · subst hc; simp [isWsChar]
    · simp only [beq_iff_eq, hc, if_false, List.filter_cons]
      split <;> simp

open Verdict in
theorem filter_insert_blank (v : Str) (k : Nat) :
    (v.take k ++ [' '] ++ v.drop k).filter (fun c => !isWsChar c) = v.filter (fun c => !isWsChar c) := by
  simp only [List.filter_append]
  have : [' '].filter (fun c => !isWsChar c) = [] := by simp [isWsChar]
  rw [this, List.append_nil, ← List.filter_append, List.take_append_drop]

open Verdict in
/-- replacing the head token by one with the same class and kind whose comment text differs in blanks only -/
theorem layoutOnlyW_head (t t' : Tok) (rest : List Tok) (hc : t'.cls = t.cls) (hk : t'.kind = t.kind)
    (hg : t.isCommentLike = true ∨ t.isLayout = true)
    (hv : t'.val.filter (fun c => !isWsChar c) = t.val.filter (fun c => !isWsChar c)) :
    layoutOnlyW (t :: rest) (t' :: rest) = true := by
  unfold layoutOnlyW
  have hl : t'.isLayout = t.isLayout := by unfold Tok.isLayout; rw [hk]
  have hcl : t'.isCommentLike = t.isCommentLike := by unfold Tok.isCommentLike; rw [hk]
  by_cases hlay : t.isLayout = true
  · simp [nonLayout, hlay, hl]
  · have hlay' : t.isLayout = false := by simpa using hlay
    have hcm : t.isCommentLike = true := by
      rcases hg with h | h
      · exact h
      · exact absurd h hlay
    have hn : normTok t' = normTok t := by
      unfold normTok
      simp only [hcl, hcm, if_true]
      cases t; cases t'
      simp_all
    simp [nonLayout, hlay', hl, hn]

theorem nonLayout_snoc (r : List Tok) (x : Tok) (h : x.isLayout = false) : nonLayout (r ++ [x]) = nonLayout r ++ [x] := by
  simp [nonLayout, h]

theorem notCode_of_guard (t : Tok) (hg : t.isCommentLike = true ∨ t.isLayout = true) : t.isCode = false := by
  unfold Tok.isCode
  unfold Tok.isCommentLike Kind.isCommentLike Tok.isLayout Kind.isLayout at hg
  cases hk : t.kind <;> simp_all

namespace Comment100

theorem fixV_shape (action : KV) (l r : List Tok) (h : fixV action l = .ok r) :
    ∃ t rest v, l = t :: rest ∧ r = { t with val := v } :: rest ∧
      ((∃ i, (action.get "index").bind asInt = some i ∧ v = t.val.take (sliceIdx t.val.length i) ++ [' '] ++ t.val.drop (sliceIdx t.val.length i))
        ∨ (action.get "index" = some Val.none ∧ v = t.val ++ [' '] ++ t.val)) := by
  unfold fixV at h
  simp only [bind, Except.bind] at h
  cases ht : pyGet l 0 with
  | error e => simp [ht] at h
  | ok t =>
    simp only [ht] at h
    cases hi : actionGet action "index" with
    | error e => simp [hi] at h
    | ok iv =>
      simp only [hi] at h
      have hget : action.get "index" = some iv := by
        unfold actionGet at hi
        split at hi
        · cases hi
        · cases hg : action.get "index" with
          | none => simp [hg] at hi
          | some v => simp [hg] at hi; rw [hi]
      have ht' := pyGet_nat_ok l 0 t ht
      cases l with
      | nil => simp at ht'
      | cons x rest =>
        simp at ht'; subst ht'
        have hset : ∀ v, pySet (x :: rest) 0 { x with val := v } = .ok r → r = { x with val := v } :: rest := by
          intro v hs
          obtain ⟨k, hk, hr⟩ := pySet_eq _ _ _ _ hs
          have := pyIdx_nat (x :: rest).length 0
          simp only [Int.natCast_zero] at this
          rw [this] at hk
          simp at hk; subst hk; simpa using hr
        cases iv with
        | none =>
          exact ⟨x, rest, _, rfl, hset _ h, Or.inr ⟨hget, rfl⟩⟩
        | int i =>
          simp only [asInt] at h
          exact ⟨x, rest, _, rfl, hset _ h, Or.inl ⟨i, by simp [hget, asInt], rfl⟩⟩
        | bool b =>
          simp only [asInt] at h
          exact ⟨x, rest, _, rfl, hset _ h, Or.inl ⟨_, by simp [hget, asInt], rfl⟩⟩
        | str s => simp [asInt] at h
        | tok t => simp [asInt] at h
        | list l => simp [asInt] at h
        | dict d => simp [asInt] at h

/-- kinds never change: line structure and comment/line-break adjacency are untouched, for every action -/
theorem fixV_kinds (action : KV) (l r : List Tok) (h : fixV action l = .ok r) : r.map (·.kind) = l.map (·.kind) := by
  obtain ⟨t, rest, v, rfl, rfl, _⟩ := fixV_shape action l r h
  simp

theorem fixV_layoutOnlyW (action : KV) (l r : List Tok) (h : fixV action l = .ok r) (hg : guard action l = true) :
    Verdict.layoutOnlyW l r = true := by
  obtain ⟨t, rest, v, rfl, rfl, hv⟩ := fixV_shape action l r h
  unfold guard at hg
  simp only [Bool.and_eq_true, List.head?_cons] at hg
  have hgt : t.isCommentLike = true ∨ t.isLayout = true := by simpa using hg.2
  apply layoutOnlyW_head t { t with val := v } rest rfl rfl hgt
  rcases hv with ⟨i, _, rfl⟩ | ⟨hn, _⟩
  · exact filter_insert_blank _ _
  · rw [hn] at hg; simp [asInt] at hg

theorem fixV_codeSeq (fold : Str → Str) (action : KV) (l r : List Tok) (h : fixV action l = .ok r)
    (hg : ∀ t, l.head? = some t → t.isCode = false) : codeSeq fold l = codeSeq fold r := by
  obtain ⟨t, rest, v, rfl, rfl, _⟩ := fixV_shape action l r h
  have h1 := hg t rfl
  have h2 : ({ t with val := v } : Tok).isCode = false := h1
  simp [codeSeq, codeOf, h1, h2]

end Comment100

namespace Ws002

theorem fixV_comment_shape (wsCls commentCls : Nat) (action : KV) (l r : List Tok)
    (hact : isCommentAction action = true) (h : fixV wsCls commentCls action l = .ok r) :
    ∃ r1 x, l = r1 ++ [x] ∧ r = r1 ++ [{ cls := commentCls, kind := .comment, val := untab x.val }] := by
  unfold fixV at h
  simp only [bind, Except.bind] at h
  cases ha : actionGet action "action" with
  | error e => simp [ha] at h
  | ok a =>
    simp only [ha] at h
    cases hpop : pyPop l (-1) with
    | error e => simp [hpop] at h
    | ok xr =>
      obtain ⟨x, r1⟩ := xr
      simp only [hpop] at h
      have hya : eqStr a "remove_tab_from_comment" = true := by
        unfold isCommentAction at hact
        unfold actionGet at ha
        split at ha
        · cases ha
        · cases hget : action.get "action" with
          | none => simp [hget] at ha
          | some v => simp [hget] at ha hact; rw [← ha]; exact hact
      simp only [hya, if_true, pure, Except.pure] at h
      cases h
      obtain ⟨k, hk, hx, hr1⟩ := pyPop_ok l (-1) x r1 hpop
      rw [pyIdx_neg1] at hk
      split at hk
      · cases hk
      · cases hk
        have hxl : l.getLast? = some x := by rw [List.getLast?_eq_getElem?]; exact hx
        refine ⟨r1, x, ?_, rfl⟩
        rw [hr1, eraseIdx_last]
        exact (dropLast_snoc_of_getLast? l x hxl).symm

open Verdict in
theorem fixV_comment_layoutOnlyW (wsCls commentCls : Nat) (action : KV) (l r : List Tok)
    (hact : isCommentAction action = true) (h : fixV wsCls commentCls action l = .ok r)
    (hg : commentGuard commentCls l = true) : layoutOnlyW l r = true := by
  obtain ⟨r1, x, rfl, rfl⟩ := fixV_comment_shape wsCls commentCls action l r hact h
  unfold commentGuard at hg
  simp at hg
  obtain ⟨hc, hk⟩ := hg
  unfold layoutOnlyW
  have hx : x.isLayout = false := by simp [Tok.isLayout, Kind.isLayout, hk]
  have hy : ({ cls := commentCls, kind := Kind.comment, val := untab x.val } : Tok).isLayout = false := by
    simp [Tok.isLayout, Kind.isLayout]
  rw [nonLayout_snoc _ _ hx, nonLayout_snoc _ _ hy]
  simp only [List.map_append, List.map_cons, List.map_nil, beq_iff_eq]
  congr 2
  unfold normTok
  have c1 : x.isCommentLike = true := by simp [Tok.isCommentLike, Kind.isCommentLike, hk]
  have c2 : ({ cls := commentCls, kind := Kind.comment, val := untab x.val } : Tok).isCommentLike = true := by
    simp [Tok.isCommentLike, Kind.isCommentLike]
  simp only [c1, c2, if_true]
  cases x
  simp_all [filter_untab]

theorem fixV_comment_kinds (wsCls commentCls : Nat) (action : KV) (l r : List Tok)
    (hact : isCommentAction action = true) (h : fixV wsCls commentCls action l = .ok r)
    (hg : commentGuard commentCls l = true) : r.map (·.kind) = l.map (·.kind) := by
  obtain ⟨r1, x, rfl, rfl⟩ := fixV_comment_shape wsCls commentCls action l r hact h
  unfold commentGuard at hg
  simp at hg
  simp [hg.2]

theorem fixV_comment_codeSeq (fold : Str → Str) (wsCls commentCls : Nat) (action : KV) (l r : List Tok)
    (hact : isCommentAction action = true) (h : fixV wsCls commentCls action l = .ok r)
    (hg : ∀ t, l.getLast? = some t → t.isCode = false) : codeSeq fold l = codeSeq fold r := by
  obtain ⟨r1, x, rfl, rfl⟩ := fixV_comment_shape wsCls commentCls action l r hact h
  have h1 := hg x (by simp)
  have h2 : ({ cls := commentCls, kind := Kind.comment, val := untab x.val } : Tok).isCode = false := by
    simp [Tok.isCode]
  simp [codeSeq, codeOf, h1, h2]

end Ws002

/-- the line-break sequence depends on the kinds only -/
theorem crSeq_of_kinds {a b : List Tok} (h : a.map (·.kind) = b.map (·.kind)) : crSeq a = crSeq b := by
  induction a generalizing b with
  | nil => cases b <;> simp_all
  | cons x a ih =>
    cases b with
    | nil => simp at h
    | cons y b =>
      simp at h
      have hx : x.isCr = y.isCr := by unfold Tok.isCr; rw [h.1]
      have := ih h.2
      simp only [crSeq] at this
      simp only [crSeq, List.flatMap_cons, hx]
      rw [this]

end Vsgm.Base
