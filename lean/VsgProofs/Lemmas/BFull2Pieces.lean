/-
  WP2 — engine lemma for whole-rule reasoning: a file cut into consecutive PIECES, some of which a rule
  replaces.  The edits derived from the pieces form a chain, and `vhdlFile.update` with them yields the
  concatenation of the pieces' new texts.  (Used by the indent family; independent of any rule.)
-/
import VsgModel.Engine.Splice
namespace Vsgm
variable {α : Type}

/-- a consecutive piece of the file: what it is, what it becomes, whether the rule reports it -/
structure Piece (α : Type) where
  old : List α
  new : List α
  hit : Bool

def editsFrom (lo : Nat) : List (Piece α) → List (Edit α)
  | [] => []
  | p :: r =>
    if p.hit then ⟨lo, lo + p.old.length, p.new⟩ :: editsFrom (lo + p.old.length) r
    else editsFrom (lo + p.old.length) r

def olds (ps : List (Piece α)) : List α := (ps.map (·.old)).flatten
def news (ps : List (Piece α)) : List α := (ps.map (·.new)).flatten

theorem olds_cons (p : Piece α) (r : List (Piece α)) : olds (p :: r) = p.old ++ olds r := by simp [olds]
theorem news_cons (p : Piece α) (r : List (Piece α)) : news (p :: r) = p.new ++ news r := by simp [news]

theorem editsFrom_head_ge (lo : Nat) (ps : List (Piece α)) : ∀ e ∈ (editsFrom lo ps).head?, lo ≤ e.start := by
  induction ps generalizing lo with
  | nil => intro e he; simp [editsFrom] at he
  | cons p r ih =>
    intro e he
    unfold editsFrom at he
    split at he
    · simp at he; subst he; exact Nat.le_refl _
    · have := ih _ e he; omega

theorem chain_weaken (n lo lo' : Nat) (es : List (Edit α)) (h : Chain n lo es) (hl : lo' ≤ lo) : Chain n lo' es := by
  cases es with
  | nil => trivial
  | cons e r => exact ⟨Nat.le_trans hl h.1, h.2⟩

/-- the derived edits are sorted, disjoint and in range -/
theorem pieces_chain (pre : List α) (ps : List (Piece α)) (suf : List α) :
    Chain (pre ++ olds ps ++ suf).length pre.length (editsFrom pre.length ps) := by
  induction ps generalizing pre with
  | nil => trivial
  | cons p r ih =>
    have e1 : pre ++ olds (p :: r) ++ suf = (pre ++ p.old) ++ olds r ++ suf := by rw [olds_cons]; simp
    have e2 : (pre ++ p.old).length = pre.length + p.old.length := by simp
    have := ih (pre ++ p.old)
    rw [← e1, e2] at this
    unfold editsFrom
    split
    · refine ⟨Nat.le_refl _, by simp, ?_, this⟩
      simp only [List.length_append, olds_cons]; omega
    · exact chain_weaken _ _ _ _ this (by omega)

theorem segs_skip (f : List α) (lo k : Nat) (es : List (Edit α)) (h : ∀ e ∈ es.head?, lo + k ≤ e.start) :
    segs f lo es = (f.drop lo).take k ++ segs f (lo + k) es := by
  cases es with
  | nil =>
    simp only [segs]
    rw [← List.drop_drop]
    exact (List.take_append_drop k _).symm
  | cons e r =>
    have he := h e (by simp)
    simp only [segs]
    have : e.start - lo = k + (e.start - (lo + k)) := by omega
    rw [this, List.take_add, List.drop_drop]
    simp [List.append_assoc]

/-- **update with the derived edits = the new texts of the pieces** (suffix `suf` untouched) -/
theorem pieces_segs (pre : List α) (ps : List (Piece α)) (suf : List α)
    (h : ∀ p ∈ ps, p.hit = false → p.new = p.old) :
    segs (pre ++ olds ps ++ suf) pre.length (editsFrom pre.length ps) = news ps ++ suf := by
  induction ps generalizing pre with
  | nil => simp [editsFrom, segs, olds, news]
  | cons p r ih =>
    have e1 : pre ++ olds (p :: r) ++ suf = (pre ++ p.old) ++ olds r ++ suf := by rw [olds_cons]; simp
    have e2 : (pre ++ p.old).length = pre.length + p.old.length := by simp
    have ih' := ih (pre ++ p.old) (fun q hq => h q (List.mem_cons_of_mem _ hq))
    rw [← e1, e2] at ih'
    rw [news_cons]
    unfold editsFrom
    split
    · simp only [segs, Nat.sub_self, List.take_zero, List.nil_append]
      rw [ih', List.append_assoc]
    · rename_i hh
      have hn := h p (List.mem_cons_self ..) (by simpa using hh)
      have ht : (List.drop pre.length (pre ++ olds (p :: r) ++ suf)).take p.old.length = p.old := by
        rw [olds_cons]; simp [List.append_assoc]
      rw [segs_skip _ pre.length p.old.length _ (editsFrom_head_ge _ r), ih', hn, ht, List.append_assoc]

theorem pieces_update (ps : List (Piece α)) (h : ∀ p ∈ ps, p.hit = false → p.new = p.old) :
    update (olds ps) (editsFrom 0 ps) = news ps := by
  have hc := pieces_chain ([] : List α) ps []
  have hs := pieces_segs ([] : List α) ps [] h
  simp only [List.nil_append, List.append_nil, List.length_nil] at hc hs
  rw [update_segments _ _ hc, hs]

end Vsgm
