/-
  Layer P, C05 (lifting, partial): chains WITH conditionals on the read-only helper `utils.is_next_token`:
      iCurrent = iToken / iCurrent = utils.assign_next_token…(…)
      if [not] utils.is_next_token("x", iCurrent, lObjects): <block> [else: <block>]      (nested)
      return iCurrent
  `icmd_exec`: the interpreted statements compute `icmdSpec` (the fold of the helpers' specifications, the branch chosen
  by the hand model `isNextToken`); `icmdSpec_layout`: two runs at corresponding positions take the SAME branches
  (`prims_isNextToken_partial`) and end layout-related.  Generic over the program, by induction on its structure.
-/
import VsgProofs.Lemmas.ProgChain
namespace Vsgm.Prog
open Vsgm Vsgm.Classify

abbrev Cfg := Array CTok × Nat

/-- what an `ICmd` computes: `(returned?, token array, index)` -/
def icmdSpec (S : Sys) (T : ClassTables) : ICmd → Cfg → Except Err (Bool × Cfg)
  | .ret, p => .ok (true, p)
  | .skip, p => .ok (false, p)
  | .init k, p => icmdSpec S T k p
  | .step s k, p => match stepSpec S T s p with
    | .ok q => icmdSpec S T k q
    | .error e => .error e
  | .ite neg str t e k, p =>
    match isNextToken T (S.lowerS str) p.2 p.1.toList with
    | .error x => .error (.py x)
    | .ok b =>
      match (if (b != neg) = true then icmdSpec S T t p else icmdSpec S T e p) with
      | .ok (true, q) => .ok (true, q)
      | .ok (false, q) => icmdSpec S T k q
      | .error x => .error x

/-- no `required` step that is reached calls `print_error_message` -/
def IReq (S : Sys) (T : ClassTables) : ICmd → Cfg → Prop
  | .ret, _ => True
  | .skip, _ => True
  | .init k, p => IReq S T k p
  | .step s k, p =>
    (match s with
      | .areq str _ => objectValueIs p.1.toList (findNextToken T p.2 p.1.toList) (S.lowerS str) ≠ .ok false
      | _ => True)
    ∧ (match stepSpec S T s p with
      | .ok q => IReq S T k q
      | .error _ => True)
  | .ite neg str t e k, p =>
    match isNextToken T (S.lowerS str) p.2 p.1.toList with
    | .error _ => True
    | .ok b =>
      (if (b != neg) = true then IReq S T t p else IReq S T e p)
      ∧ (match (if (b != neg) = true then icmdSpec S T t p else icmdSpec S T e p) with
        | .ok (false, q) => IReq S T k q
        | _ => True)

/-- the frame of a chain-like function: `lObjects` in slot 1, the current index in slot `cur` -/
structure Good (st : State) (cur n : Nat) : Prop where
  size : st.frame.size = 3
  toks : st.frame[1]? = some .toks
  idx : st.frame[cur]? = some (.int n)

/-- outcome of executing a block against its specification -/
def Outcome (r : Except Err Flow) (st' : State) (endCur : Nat) : Except Err (Bool × Cfg) → Prop
  | .error e => r = .error e
  | .ok (true, (a, n)) => r = .ok (.ret (.int n)) ∧ st'.toks = a
  | .ok (false, (a, n)) => r = .ok .normal ∧ st'.toks = a ∧ Good st' endCur n

theorem icmdSpec_size (S : Sys) (T : ClassTables) : ∀ (c : ICmd) (p : Cfg) (b : Bool) (q : Cfg),
    icmdSpec S T c p = .ok (b, q) → q.1.size = p.1.size
  | .ret, p, b, q, h => by simp only [icmdSpec] at h; cases h; rfl
  | .skip, p, b, q, h => by simp only [icmdSpec] at h; cases h; rfl
  | .init k, p, b, q, h => icmdSpec_size S T k p b q (by simpa only [icmdSpec] using h)
  | .step s k, p, b, q, h => by
    simp only [icmdSpec] at h
    cases hs : stepSpec S T s p with
    | error e => rw [hs] at h; cases h
    | ok r =>
      rw [hs] at h
      have h1 := icmdSpec_size S T k r b q h
      obtain ⟨a, n⟩ := p
      obtain ⟨a', n'⟩ := r
      rw [h1]; exact stepSpec_size S T s a a' n n' hs
  | .ite neg str t e k, p, b, q, h => by
    simp only [icmdSpec] at h
    cases hb : isNextToken T (S.lowerS str) p.2 p.1.toList with
    | error x => rw [hb] at h; cases h
    | ok bb =>
      rw [hb] at h
      simp only at h
      by_cases hc : (bb != neg) = true
      · simp only [hc, if_true] at h
        cases ht : icmdSpec S T t p with
        | error x => rw [ht] at h; cases h
        | ok r =>
          obtain ⟨rb, rq⟩ := r
          rw [ht] at h
          cases rb with
          | true => (try simp only at h); cases h; exact icmdSpec_size S T t p true q ht
          | false =>
            (try simp only at h)
            rw [icmdSpec_size S T k rq b q h, icmdSpec_size S T t p false rq ht]
      · simp only [hc, if_false] at h
        cases ht : icmdSpec S T e p with
        | error x => rw [ht] at h; cases h
        | ok r =>
          obtain ⟨rb, rq⟩ := r
          rw [ht] at h
          cases rb with
          | true => (try simp only at h); cases h; exact icmdSpec_size S T e p true q ht
          | false =>
            (try simp only at h)
            rw [icmdSpec_size S T k rq b q h, icmdSpec_size S T e p false rq ht]

def flowOf : Except Err Cfg → Except Err Flow
  | .ok _ => .ok .normal
  | .error e => .error e

/-- one helper assignment `iCurrent = helper(…, cur, lObjects)` -/
theorem step_stmt (S : Sys) (T : ClassTables) (K : ChainSig) (hK : ChainTie S T K) (L N : Nat) (s : Step) (cur n : Nat)
    (st : State) (hg : Good st cur n) (hN : st.toks.size = N) (hf : N < L + 4)
    (hs : st.steps + (N + 5) + 1 < S.maxSteps) (hd : st.depth + 1 < S.maxDepth)
    (hreq : match s with
      | .areq str _ => objectValueIs st.toks.toList (findNextToken T n st.toks.toList) (S.lowerS str) ≠ .ok false
      | _ => True) :
    ∃ st', (run S (L + 12)).stmt (.assign (.var 2) (.callF (s.fn K) (s.argsE cur 1))) st
        = (flowOf (stepSpec S T s (st.toks, n)), st')
      ∧ (∀ a' n', stepSpec S T s (st.toks, n) = .ok (a', n') → st'.toks = a' ∧ Good st' 2 n')
      ∧ st'.depth = st.depth ∧ st.steps ≤ st'.steps ∧ st'.steps ≤ st.steps + N + 4 := by
  have g1 := getVar_some hg.toks (by simp)
  have gc := getVar_some hg.idx (by simp)
  obtain ⟨st1, hcall, ht1, hf1, hd1, hh1, hle1, hle1'⟩ := helper_call S T K hK L s n st (by omega) (by omega) hd hreq
  have hargs := evalArgs_step S (L + 9) s cur n st g1 gc
  cases hr : stepSpec S T s (st.toks, n) with
  | error e =>
    rw [hr] at hcall
    refine ⟨st1, ?_, ?_, hd1, hle1, by omega⟩
    · simp only [run_stmt_assign, run_expr, stepStmt, stepExpr, hargs, hcall, specVal, flowOf, bind, M.bind]
    · intro a' n' h; cases h
  | ok q =>
    obtain ⟨a', n'⟩ := q
    rw [hr] at hcall ht1
    simp only [specToks] at ht1
    refine ⟨{ st1 with frame := st1.frame.setIfInBounds 2 (.int n') }, ?_, ?_, hd1, hle1, (by show st1.steps ≤ _; omega)⟩
    · simp only [run_stmt_assign, run_expr, stepStmt, stepExpr, hargs, hcall, specVal, flowOf, assignTarget, assignSimple,
        setVar, modSt, bind, M.bind, pure, M.pure]
    · intro a2 n2 h
      cases h
      refine ⟨ht1, ?_, ?_, ?_⟩
      · show (st1.frame.setIfInBounds 2 _).size = 3; rw [hf1]; simp [hg.size]
      · show (st1.frame.setIfInBounds 2 _)[1]? = _
        rw [hf1, Array.getElem?_setIfInBounds_ne (by decide)]; exact hg.toks
      · show (st1.frame.setIfInBounds 2 _)[2]? = _
        rw [hf1, Array.getElem?_setIfInBounds_self, if_pos (by rw [hg.size]; omega)]

def condVal (neg : Bool) : Except PyErr Bool → Except Err Val
  | .ok b => .ok (.bool (b != neg))
  | .error x => .error (.py x)

/-- the condition `[not] utils.is_next_token(str, iCurrent, lObjects)` -/
theorem cond_exec (S : Sys) (T : ClassTables) (K : ChainSig) (hK : ChainTie S T K) (kIs : Nat)
    (hIs : S.funs[kIs]? = some (isNextTokenDef K.kFind K.kOvi)) (L N : Nat) (neg : Bool) (str : Str) (n : Nat) (st : State)
    (hg : Good st 2 n) (hN : st.toks.size = N) (hf : N < L + 4)
    (hs : st.steps + (N + 5) + 1 < S.maxSteps) (hd : st.depth + 1 < S.maxDepth) :
    ∃ st', (run S (L + 12)).expr (condExpr kIs neg str) st
        = (condVal neg (isNextToken T (S.lowerS str) n st.toks.toList), st')
      ∧ st'.toks = st.toks ∧ st'.frame = st.frame ∧ st'.depth = st.depth
      ∧ st.steps ≤ st'.steps ∧ st'.steps ≤ st.steps + N + 4 := by
  have g1 := getVar_some hg.toks (by simp)
  have g2 := getVar_some hg.idx (by simp)
  cases neg with
  | false =>
    obtain ⟨st1, hcall, a, b, c, _, e, f⟩ := call_is_next_token S T kIs K.kFind K.kOvi (L + 2) n str st hIs hK.find hK.ovi
      (by omega) (by omega) hd
    refine ⟨st1, ?_, a, b, c, e, by omega⟩
    simp only [condExpr, Bool.false_eq_true, if_false, run_expr, stepExpr, evalArgs, g1, g2, hcall, bind, M.bind, pure, M.pure]
    cases isNextToken T (S.lowerS str) n st.toks.toList with
    | error x => rfl
    | ok bb => cases bb <;> rfl
  | true =>
    obtain ⟨st1, hcall, a, b, c, _, e, f⟩ := call_is_next_token S T kIs K.kFind K.kOvi (L + 1) n str st hIs hK.find hK.ovi
      (by omega) (by omega) hd
    refine ⟨st1, ?_, a, b, c, e, by omega⟩
    simp only [condExpr, if_true, run_expr, stepExpr, evalArgs, g1, g2, hcall, bind, M.bind, pure, M.pure]
    cases isNextToken T (S.lowerS str) n st.toks.toList with
    | error x => rfl
    | ok bb => cases bb <;> simp [boolRes, condVal, truthy, bind, M.bind, pure, M.pure]

theorem endCur_wf : ∀ (c : ICmd), c.wf 2 = true → c.endCur 2 = 2
  | .ret, _ => rfl
  | .skip, _ => rfl
  | .init k, h => by simp [ICmd.wf] at h
  | .step _ k, h => endCur_wf k (by simpa [ICmd.wf] using h)
  | .ite _ _ _ _ k, h => endCur_wf k (by
      simp only [ICmd.wf, Bool.and_eq_true] at h; exact h.2)

theorem execBlock_cons (R : Rec) (s : Stmt) (ss : List Stmt) (st : State) :
    execBlock R (s :: ss) st = match R.stmt s st with
      | (.ok .normal, st') => execBlock R ss st'
      | r => r := rfl

/-- **chains with conditionals**: executing the statements = `icmdSpec` -/
theorem icmd_exec (S : Sys) (T : ClassTables) (K : ChainSig) (hK : ChainTie S T K) (kIs : Nat)
    (hIs : S.funs[kIs]? = some (isNextTokenDef K.kFind K.kOvi)) (N : Nat) :
    ∀ (c : ICmd) (L cur n : Nat) (st : State),
      c.wf cur = true → Good st cur n → st.toks.size = N → N + c.depth < L + 4 → c.depth ≤ L →
      st.steps + c.cost * (N + 5) + 1 < S.maxSteps → st.depth + 1 < S.maxDepth → IReq S T c (st.toks, n) →
      ∃ r st', execBlock (run S (L + 12)) (icmdStmts K kIs cur c) st = (r, st')
        ∧ Outcome r st' (c.endCur cur) (icmdSpec S T c (st.toks, n))
        ∧ st'.depth = st.depth ∧ st.steps ≤ st'.steps ∧ st'.steps ≤ st.steps + c.cost * (N + 5) := by
  intro c
  induction c with
  | ret =>
    intro L cur n st _ hg hN _ _ _ _ _
    have gc := getVar_some hg.idx (by simp)
    refine ⟨.ok (.ret (.int n)), st, ?_, ⟨rfl, rfl⟩, rfl, Nat.le_refl _, by simp [ICmd.cost]⟩
    simp [icmdStmts, execBlock, run_stmt_ret, run_expr, stepStmt, stepExpr, gc, bind, M.bind, pure, M.pure]
  | skip =>
    intro L cur n st _ hg hN _ _ _ _ _
    exact ⟨.ok .normal, st, rfl, ⟨rfl, rfl, hg⟩, rfl, Nat.le_refl _, by simp [ICmd.cost]⟩
  | init k ih =>
    intro L cur n st hwf hg hN hf hL hs hd hreq
    simp only [ICmd.wf, Bool.and_eq_true, beq_iff_eq] at hwf
    obtain ⟨hcur, hwfk⟩ := hwf
    subst hcur
    have g0 := getVar_some hg.idx (by simp)
    have hg1 : Good ({ st with frame := st.frame.setIfInBounds 2 (.int n) } : State) 2 n :=
      ⟨by show (st.frame.setIfInBounds 2 _).size = 3; simp [hg.size],
       by show (st.frame.setIfInBounds 2 _)[1]? = _; rw [Array.getElem?_setIfInBounds_ne (by decide)]; exact hg.toks,
       by show (st.frame.setIfInBounds 2 _)[2]? = _
          rw [Array.getElem?_setIfInBounds_self, if_pos (by rw [hg.size]; omega)]⟩
    obtain ⟨r, st', hrun, hout, hd', hle, hle'⟩ := ih L 2 n _ hwfk hg1 hN (by simpa [ICmd.depth] using hf) (by simpa [ICmd.depth] using hL)
      (by simpa [ICmd.cost] using hs) hd (by simpa [IReq] using hreq)
    refine ⟨r, st', ?_, by simpa [ICmd.endCur, icmdSpec] using hout, hd', hle, by simpa [ICmd.cost] using hle'⟩
    simp only [icmdStmts, execBlock_cons, run_stmt_assign, run_expr, stepStmt, stepExpr, g0, assignTarget, assignSimple, setVar,
      modSt, bind, M.bind, pure, M.pure]
    exact hrun
  | step s k ih =>
    intro L cur n st hwf hg hN hf hL hs hd hreq
    simp only [ICmd.wf] at hwf
    simp only [ICmd.depth] at hf hL
    simp only [ICmd.cost, Nat.add_mul, Nat.one_mul] at hs ⊢
    simp only [IReq] at hreq
    obtain ⟨hreq1, hreq2⟩ := hreq
    obtain ⟨st1, hstmt, hok, hd1, hle1, hle1'⟩ := step_stmt S T K hK L N s cur n st hg hN (by omega) (by omega) hd
      (by cases s <;> first | trivial | exact hreq1)
    cases hr : stepSpec S T s (st.toks, n) with
    | error e =>
      rw [hr] at hstmt
      refine ⟨.error e, st1, ?_, ?_, hd1, hle1, by omega⟩
      · rw [icmdStmts, execBlock_cons, hstmt]; rfl
      · simp only [icmdSpec, hr]; exact rfl
    | ok q =>
      obtain ⟨a', n'⟩ := q
      rw [hr] at hstmt hreq2
      obtain ⟨ht1, hg1⟩ := hok a' n' hr
      have hsz' : a'.size = N := by rw [stepSpec_size S T s st.toks a' n n' hr]; exact hN
      obtain ⟨r, st', hrun, hout, hd', hle, hle'⟩ := ih L 2 n' st1 hwf hg1 (by rw [ht1]; exact hsz') hf hL
        (by omega) (by rw [hd1]; exact hd) (by rw [ht1]; exact hreq2)
      refine ⟨r, st', ?_, ?_, by rw [hd', hd1], by omega, by omega⟩
      · rw [icmdStmts, execBlock_cons, hstmt]; exact hrun
      · simp only [icmdSpec, hr, ICmd.endCur]; rw [ht1] at hout; exact hout
  | ite neg str t e k iht ihe ihk =>
    intro L cur n st hwf hg hN hf hL hs hd hreq
    simp only [ICmd.wf, Bool.and_eq_true, beq_iff_eq] at hwf
    obtain ⟨⟨⟨hcur, hwt⟩, hwe⟩, hwk⟩ := hwf
    subst hcur
    have hD1 : max t.depth e.depth + 1 ≤ (ICmd.ite neg str t e k).depth := Nat.le_max_left _ _
    have hD2 : k.depth ≤ (ICmd.ite neg str t e k).depth := Nat.le_max_right _ _
    have hD3 : t.depth ≤ max t.depth e.depth := Nat.le_max_left _ _
    have hD4 : e.depth ≤ max t.depth e.depth := Nat.le_max_right _ _
    generalize (ICmd.ite neg str t e k).depth = D at hf hL hD1 hD2
    generalize max t.depth e.depth = D' at hD1 hD3 hD4
    obtain ⟨L', rfl⟩ : ∃ L', L = L' + 1 := ⟨L - 1, by omega⟩
    simp only [ICmd.cost, Nat.add_mul, Nat.one_mul] at hs ⊢
    obtain ⟨st1, hcond, ht1, hf1, hd1, hle1, hle1'⟩ := cond_exec S T K hK kIs hIs L' N neg str n st hg hN (by omega)
      (by omega) hd
    have hg1 : Good st1 2 n := ⟨by rw [hf1]; exact hg.size, by rw [hf1]; exact hg.toks, by rw [hf1]; exact hg.idx⟩
    have hstmt : (run S (L' + 1 + 12)).stmt (.ite (condExpr kIs neg str) (icmdStmts K kIs 2 t) (icmdStmts K kIs 2 e)) st =
        match condVal neg (isNextToken T (S.lowerS str) n st.toks.toList) with
        | .error x => (.error x, st1)
        | .ok v => (match v with
          | .bool true => execBlock (run S (L' + 12)) (icmdStmts K kIs 2 t) st1
          | _ => execBlock (run S (L' + 12)) (icmdStmts K kIs 2 e) st1) := by
      rw [show L' + 1 + 12 = (L' + 12) + 1 by omega, run_stmt_ite]
      simp only [stepStmt, hcond, bind, M.bind]
      cases isNextToken T (S.lowerS str) n st.toks.toList with
      | error x => rfl
      | ok b => cases hb : (b != neg) <;> simp [condVal, hb, truthy, pure, M.pure]
    simp only [IReq] at hreq
    cases hb : isNextToken T (S.lowerS str) n st.toks.toList with
    | error x =>
      rw [hb] at hstmt
      refine ⟨.error (.py x), st1, ?_, ?_, hd1, hle1, by omega⟩
      · rw [icmdStmts, execBlock_cons, hstmt]; rfl
      · simp only [icmdSpec, hb]; exact rfl
    | ok b =>
      rw [hb] at hstmt hreq
      simp only at hreq
      obtain ⟨hreq1, hreq2⟩ := hreq
      -- the branch taken
      have hbranch : ∃ (br : ICmd), br.wf 2 = true ∧ br.depth ≤ D' ∧ br.cost ≤ t.cost + e.cost
          ∧ (if (b != neg) = true then icmdSpec S T t (st.toks, n) else icmdSpec S T e (st.toks, n)) = icmdSpec S T br (st.toks, n)
          ∧ (if (b != neg) = true then IReq S T t (st.toks, n) else IReq S T e (st.toks, n)) = IReq S T br (st.toks, n)
          ∧ (run S (L' + 1 + 12)).stmt (.ite (condExpr kIs neg str) (icmdStmts K kIs 2 t) (icmdStmts K kIs 2 e)) st
              = execBlock (run S (L' + 12)) (icmdStmts K kIs 2 br) st1
          ∧ (∀ (L cur n : Nat) (st : State), br.wf cur = true → Good st cur n → st.toks.size = N → N + br.depth < L + 4 →
              br.depth ≤ L →
              st.steps + br.cost * (N + 5) + 1 < S.maxSteps → st.depth + 1 < S.maxDepth → IReq S T br (st.toks, n) →
              ∃ r st', execBlock (run S (L + 12)) (icmdStmts K kIs cur br) st = (r, st')
                ∧ Outcome r st' (br.endCur cur) (icmdSpec S T br (st.toks, n))
                ∧ st'.depth = st.depth ∧ st.steps ≤ st'.steps ∧ st'.steps ≤ st.steps + br.cost * (N + 5)) := by
        by_cases hc : (b != neg) = true
        · refine ⟨t, hwt, hD3, Nat.le_add_right _ _, by simp [hc], by simp [hc], ?_, iht⟩
          rw [hstmt]; simp [condVal, hc]
        · refine ⟨e, hwe, hD4, Nat.le_add_left _ _, by simp [hc], by simp [hc], ?_, ihe⟩
          have hc' : (b != neg) = false := by simpa using hc
          rw [hstmt]; simp [condVal, hc']
      obtain ⟨br, hwb, hdb, hcb, hspecb, hreqb, hstmtb, ihb⟩ := hbranch
      rw [hspecb] at hreq2
      rw [hreqb] at hreq1
      have hcbB : br.cost * (N + 5) ≤ t.cost * (N + 5) + e.cost * (N + 5) := by
        rw [← Nat.add_mul]; exact Nat.mul_le_mul_right _ hcb
      obtain ⟨r2, st2, hrun2, hout2, hd2, hle2, hle2'⟩ := ihb L' 2 n st1 hwb hg1 (by rw [ht1]; exact hN) (by omega) (by omega)
        (by omega) (by rw [hd1]; exact hd) (by rw [ht1]; exact hreq1)
      rw [ht1] at hout2
      rw [endCur_wf br hwb] at hout2
      have hspec : icmdSpec S T (.ite neg str t e k) (st.toks, n) =
          match icmdSpec S T br (st.toks, n) with
          | .ok (true, q) => .ok (true, q)
          | .ok (false, q) => icmdSpec S T k q
          | .error x => .error x := by
        simp only [icmdSpec, hb, hspecb]
      cases hsb : icmdSpec S T br (st.toks, n) with
      | error x =>
        rw [hsb] at hout2 hspec
        refine ⟨r2, st2, ?_, ?_, by rw [hd2, hd1], by omega, by omega⟩
        · rw [icmdStmts, execBlock_cons, hstmtb, hrun2]
          have : r2 = .error x := hout2
          subst this; rfl
        · rw [hspec]; exact hout2
      | ok q =>
        obtain ⟨rb, a', n'⟩ := q
        rw [hsb] at hout2 hspec hreq2
        cases rb with
        | true =>
          obtain ⟨hr2, ht2⟩ := hout2
          refine ⟨r2, st2, ?_, ?_, by rw [hd2, hd1], by omega, by omega⟩
          · rw [icmdStmts, execBlock_cons, hstmtb, hrun2]; subst hr2; rfl
          · rw [hspec]; exact ⟨hr2, ht2⟩
        | false =>
          obtain ⟨hr2, ht2, hg2⟩ := hout2
          have hsz2 : a'.size = N := by
            have := icmdSpec_size S T br (st.toks, n) false (a', n') hsb
            simpa [hN] using this
          obtain ⟨r3, st3, hrun3, hout3, hd3, hle3, hle3'⟩ := ihk (L' + 1) 2 n' st2 hwk hg2 (by rw [ht2]; exact hsz2)
            (by omega) (by omega) (by omega) (by rw [hd2, hd1]; exact hd) (by rw [ht2]; exact hreq2)
          refine ⟨r3, st3, ?_, ?_, by rw [hd3, hd2, hd1], by omega, by omega⟩
          · rw [icmdStmts, execBlock_cons, hstmtb, hrun2]; subst hr2; exact hrun3
          · rw [hspec]; simp only [ICmd.endCur]; rw [ht2] at hout3; exact hout3

def icmdRes : Except Err (Bool × Cfg) → Except Err Val
  | .ok (true, (_, n)) => .ok (.int n)
  | .ok (false, _) => .ok .none
  | .error e => .error e

/-- **a call of ANY chain with conditionals** computes `icmdSpec` -/
theorem call_ifchain (S : Sys) (T : ClassTables) (K : ChainSig) (hK : ChainTie S T K) (kIs : Nat)
    (hIs : S.funs[kIs]? = some (isNextTokenDef K.kFind K.kOvi)) (k L : Nat) (c : ICmd)
    (hk : S.funs[k]? = some (icmdDef K kIs c)) (hwf : c.wf 0 = true) (i : Nat) (st : State)
    (hfuel : st.toks.size + c.depth < L + 4) (hL : c.depth ≤ L)
    (hsteps : st.steps + c.cost * (st.toks.size + 5) + 2 < S.maxSteps)
    (hdepth : st.depth + 2 < S.maxDepth) (hreq : IReq S T c (st.toks, i)) :
    ∃ st', (run S (L + 13)).call k [.int i, .toks] st = (icmdRes (icmdSpec S T c (st.toks, i)), st')
      ∧ st'.frame = st.frame ∧ st'.depth = st.depth
      ∧ (∀ b a n, icmdSpec S T c (st.toks, i) = .ok (b, (a, n)) → st'.toks = a) := by
  show ∃ st', stepCall S (run S (L + 12)) k [.int i, .toks] st = _ ∧ _
  rw [stepCall_eq S _ k _ _ st hk rfl rfl rfl (by omega) (by omega)]
  generalize hst1 : callState st k (icmdDef K kIs c) [.int i, .toks] = st1
  have hfr : st1.frame = #[.int i, .toks, .undef] := by rw [← hst1]; rfl
  have htoks : st1.toks = st.toks := by rw [← hst1]; rfl
  have hstp : st1.steps = st.steps + 1 := by rw [← hst1]; rfl
  have hdep : st1.depth = st.depth + 1 := by rw [← hst1]; rfl
  obtain ⟨r, st2, hrun, hout, hd2, _, _⟩ := icmd_exec S T K hK kIs hIs st.toks.size c L 0 i st1 hwf
    ⟨by rw [hfr]; rfl, by rw [hfr]; rfl, by rw [hfr]; rfl⟩ (by rw [htoks]) hfuel hL (by rw [hstp]; omega)
    (by rw [hdep]; omega) (by rw [htoks]; exact hreq)
  have hbody : (icmdDef K kIs c).body = icmdStmts K kIs 0 c := rfl
  rw [hbody, hrun]
  rw [htoks] at hout
  refine ⟨{ st2 with frame := st.frame, depth := st.depth }, ?_, rfl, rfl, ?_⟩
  · cases hs : icmdSpec S T c (st.toks, i) with
    | error e => rw [hs] at hout; have : r = .error e := hout; subst this; rfl
    | ok q =>
      obtain ⟨b, a, n⟩ := q
      rw [hs] at hout
      cases b with
      | true => obtain ⟨hr, _⟩ := hout; subst hr; rfl
      | false => obtain ⟨hr, _⟩ := hout; subst hr; rfl
  · intro b a n hs
    rw [hs] at hout
    cases b with
    | true => exact hout.2
    | false => exact hout.2.1

/-- `is_next_token` at corresponding positions in front of a raw item (as `C05.prims_isNextToken_partial`) -/
theorem prims_isNextToken_eq (T : ClassTables) (s : Str) (l l' : List CTok) (i j : Nat)
    (hv : view (isRaw T) l = view (isRaw T) l') (hr : rank (isRaw T) l i = rank (isRaw T) l' j)
    (hex : rank (isRaw T) l i < (view (isRaw T) l).length) :
    isNextToken T s i l = isNextToken T s j l' := by
  obtain ⟨t, ht⟩ : ∃ t, (view (isRaw T) l)[rank (isRaw T) l i]? = some t :=
    ⟨_, List.getElem?_eq_getElem hex⟩
  have h1 := fwd_found (isRaw T) l i t ht
  have h2 := fwd_found (isRaw T) l' j t (by rw [← hv, ← hr]; exact ht)
  simp only [isNextToken, objectValueIs, findNextToken_eq_fwd, natGet, h1.1, h2.1]

/-- a raw item follows the current position at every helper step and every condition that is reached -/
def IFol (S : Sys) (T : ClassTables) : ICmd → Cfg → Prop
  | .ret, _ => True
  | .skip, _ => True
  | .init k, p => IFol S T k p
  | .step s k, p =>
    rank (isRaw T) p.1.toList p.2 < (view (isRaw T) p.1.toList).length
    ∧ (match stepSpec S T s p with
      | .ok q => IFol S T k q
      | .error _ => True)
  | .ite neg str t e k, p =>
    rank (isRaw T) p.1.toList p.2 < (view (isRaw T) p.1.toList).length
    ∧ (match isNextToken T (S.lowerS str) p.2 p.1.toList with
      | .error _ => True
      | .ok b =>
        (if (b != neg) = true then IFol S T t p else IFol S T e p)
        ∧ (match (if (b != neg) = true then icmdSpec S T t p else icmdSpec S T e p) with
          | .ok (false, q) => IFol S T k q
          | _ => True))

/-- outcomes of two runs of an `ICmd` are layout related: same exception, or same `returned` flag, token arrays with the
    same raw-item view and corresponding indices -/
def IRel (T : ClassTables) : Except Err (Bool × Cfg) → Except Err (Bool × Cfg) → Prop
  | .error e, .error e' => e = e'
  | .ok (b, (a, n)), .ok (b', (a', n')) =>
    b = b' ∧ view (isRaw T) a.toList = view (isRaw T) a'.toList ∧ rank (isRaw T) a.toList n = rank (isRaw T) a'.toList n'
  | _, _ => False

/-- **chains with conditionals are layout blind**: both runs take the same branches -/
theorem icmdSpec_layout (S : Sys) (T : ClassTables) : ∀ (c : ICmd) (p p' : Cfg),
    view (isRaw T) p.1.toList = view (isRaw T) p'.1.toList → rank (isRaw T) p.1.toList p.2 = rank (isRaw T) p'.1.toList p'.2 →
    IFol S T c p → IRel T (icmdSpec S T c p) (icmdSpec S T c p')
  | .ret, (a, n), (a', n'), hv, hr, _ => ⟨rfl, hv, hr⟩
  | .skip, (a, n), (a', n'), hv, hr, _ => ⟨rfl, hv, hr⟩
  | .init k, p, p', hv, hr, hf => by
    simp only [icmdSpec]; exact icmdSpec_layout S T k p p' hv hr (by simpa only [IFol] using hf)
  | .step s k, (a, n), (a', n'), hv, hr, hf => by
    simp only [IFol] at hf
    have h1 := stepSpec_layout S T s a a' n n' hv hr hf.1
    have h2 := hf.2
    simp only [icmdSpec]
    cases hx : stepSpec S T s (a, n) with
    | error e =>
      rw [hx] at h1
      cases hy : stepSpec S T s (a', n') with
      | error e' => rw [hy] at h1; exact h1
      | ok q => rw [hy] at h1; exact h1.elim
    | ok q =>
      rw [hx] at h1 h2
      cases hy : stepSpec S T s (a', n') with
      | error e' => rw [hy] at h1; obtain ⟨_, _⟩ := q; exact h1.elim
      | ok q' =>
        rw [hy] at h1
        obtain ⟨b, m⟩ := q
        obtain ⟨b', m'⟩ := q'
        exact icmdSpec_layout S T k (b, m) (b', m') h1.1 h1.2 h2
  | .ite neg str t e k, (a, n), (a', n'), hv, hr, hf => by
    simp only [IFol] at hf
    obtain ⟨hex, hf2⟩ := hf
    have hsame : isNextToken T (S.lowerS str) n a.toList = isNextToken T (S.lowerS str) n' a'.toList :=
      prims_isNextToken_eq T (S.lowerS str) a.toList a'.toList n n' hv hr hex
    simp only [icmdSpec]
    rw [← hsame]
    cases hb : isNextToken T (S.lowerS str) n a.toList with
    | error x => exact rfl
    | ok b =>
      rw [hb] at hf2
      simp only at hf2 ⊢
      obtain ⟨hf3, hf4⟩ := hf2
      by_cases hc : (b != neg) = true
      · simp only [hc, if_true] at hf3 hf4 ⊢
        have h1 := icmdSpec_layout S T t (a, n) (a', n') hv hr hf3
        cases hx : icmdSpec S T t (a, n) with
        | error x =>
          rw [hx] at h1
          cases hy : icmdSpec S T t (a', n') with
          | error y => rw [hy] at h1; exact h1
          | ok q => rw [hy] at h1; exact h1.elim
        | ok q =>
          obtain ⟨rb, qa, qn⟩ := q
          rw [hx] at h1 hf4
          cases hy : icmdSpec S T t (a', n') with
          | error y => rw [hy] at h1; exact h1.elim
          | ok q' =>
            obtain ⟨rb', qa', qn'⟩ := q'
            rw [hy] at h1
            obtain ⟨hbb, hv2, hr2⟩ := h1
            subst hbb
            cases rb with
            | true => exact ⟨rfl, hv2, hr2⟩
            | false => exact icmdSpec_layout S T k (qa, qn) (qa', qn') hv2 hr2 hf4
      · simp only [hc, if_false] at hf3 hf4 ⊢
        have h1 := icmdSpec_layout S T e (a, n) (a', n') hv hr hf3
        cases hx : icmdSpec S T e (a, n) with
        | error x =>
          rw [hx] at h1
          cases hy : icmdSpec S T e (a', n') with
          | error y => rw [hy] at h1; exact h1
          | ok q => rw [hy] at h1; exact h1.elim
        | ok q =>
          obtain ⟨rb, qa, qn⟩ := q
          rw [hx] at h1 hf4
          cases hy : icmdSpec S T e (a', n') with
          | error y => rw [hy] at h1; exact h1.elim
          | ok q' =>
            obtain ⟨rb', qa', qn'⟩ := q'
            rw [hy] at h1
            obtain ⟨hbb, hv2, hr2⟩ := h1
            subst hbb
            cases rb with
            | true => exact ⟨rfl, hv2, hr2⟩
            | false => exact icmdSpec_layout S T k (qa, qn) (qa', qn') hv2 hr2 hf4

theorem decodeStep_sound (K : ChainSig) (cur : Nat) (s : Stmt) (a : Step) (h : decodeStep K cur s = some a) :
    s = .assign (.var 2) (.callF (a.fn K) (a.argsE cur 1)) := by
  unfold decodeStep at h
  split at h
  · rename_i k c x
    split at h
    · rename_i hc
      simp only [Bool.and_eq_true, beq_iff_eq] at hc
      cases h; obtain ⟨h1, h2⟩ := hc; subst h1; subst h2; rfl
    · cases h
  · rename_i k str c x
    split at h
    · rename_i hx
      simp only [beq_iff_eq] at hx
      subst hx
      split at h
      · rename_i hk; simp only [beq_iff_eq] at hk; cases h; subst hk; rfl
      · split at h
        · rename_i hk; simp only [beq_iff_eq] at hk; cases h; subst hk; rfl
        · split at h
          · rename_i hk; simp only [beq_iff_eq] at hk; cases h; subst hk; rfl
          · cases h
    · cases h
  · cases h

theorem decodeCond_sound (kIs : Nat) (c : Expr) (neg : Bool) (str : Str) (h : decodeCond kIs c = some (neg, str)) :
    c = condExpr kIs neg str := by
  unfold decodeCond at h
  split at h
  · split at h
    · rename_i hk; simp only [beq_iff_eq] at hk; cases h; subst hk; rfl
    · cases h
  · split at h
    · rename_i hk; simp only [beq_iff_eq] at hk; cases h; subst hk; rfl
    · cases h
  · cases h

theorem decodeI_sound (K : ChainSig) (kIs : Nat) : ∀ (f cur : Nat) (body : List Stmt) (c : ICmd),
    decodeI K kIs f cur body = some c → body = icmdStmts K kIs cur c := by
  intro f
  induction f with
  | zero => intro cur body c h; simp [decodeI] at h
  | succ f ih =>
    intro cur body c h
    unfold decodeI at h
    split at h
    · cases h
    · cases h; rfl
    · split at h
      · rename_i hv; simp only [beq_iff_eq] at hv; cases h; subst hv; rfl
      · cases h
    · rename_i cur _ _ _ f' rest heq
      cases heq
      split at h
      · rename_i hc
        simp only [beq_iff_eq] at hc
        subst hc
        simp only [Option.map_eq_some_iff] at h
        obtain ⟨k, hk, rfl⟩ := h
        rw [ih 2 rest k hk]; rfl
      · cases h
    · rename_i cur _ _ _ f' cnd t e rest heq
      cases heq
      split at h
      · rename_i hc
        simp only [beq_iff_eq] at hc
        subst hc
        split at h
        · rename_i neg str a b k h1 h2 h3 h4
          cases h
          rw [decodeCond_sound kIs cnd neg str h1, ih 2 t a h2, ih 2 e b h3, ih 2 rest k h4]; rfl
        · cases h
      · cases h
    · rename_i cur _ _ _ f' s rest _ _ _ heq
      cases heq
      split at h
      · rename_i a k h1 h2
        cases h
        rw [decodeStep_sound K cur s a h1, ih 2 rest k h2]; rfl
      · cases h

theorem decodeIfChain_sound (K : ChainSig) (kIs : Nat) (fd : FunDef) (c : ICmd) (h : decodeIfChain K kIs fd = some c) :
    fd = icmdDef K kIs c ∧ c.wf 0 = true := by
  unfold decodeIfChain at h
  split at h
  · rename_i hc
    simp only [Bool.and_eq_true, beq_iff_eq, Bool.not_eq_true', List.isEmpty_iff] at hc
    obtain ⟨⟨⟨h1, h2⟩, h3⟩, h4⟩ := hc
    split at h
    · rename_i c' hdec
      split at h
      · rename_i hok
        cases h
        simp only [Bool.and_eq_true] at hok
        have hb := decodeI_sound K kIs 64 0 fd.body c hdec
        refine ⟨?_, hok.2⟩
        cases fd
        simp only at h1 h2 h3 h4 hb
        subst h1; subst h2; subst h3; subst h4; subst hb
        rfl
      · cases h
    · cases h
  · cases h

end Vsgm.Prog
