/-
  Layer P: value preservation (C04).  Under `Chk.value` the token list is written only by the fused
  stores of `utils.py` (`L[X] = C(L[X].get_value())`, `L[X] = C()`); such a store keeps the token's
  text (and gives it `lower_value = value.lower()`) or writes the FIXED text of the constructed
  class.  `valRel` is the transitive closure of that step, `call_values` the theorem for calls.
-/
import VsgProofs.Lemmas.ProgThms
namespace Vsgm.Prog
open Vsgm Vsgm.Classify

/-- `(v, lo)` is what some class of the system constructs whatever its argument -/
def fixedPair (S : Sys) (v lo : Str) : Prop := ∃ c, S.ctor1 c = .fixed v lo ∨ S.ctor0 c = some (v, lo)

/-- how one token may differ after evaluation: same text (lower value the old one or `text.lower()`), or the
    fixed text of some class -/
def TokStep (S : Sys) (t t' : CTok) : Prop :=
  (t'.val = t.val ∧ (t'.lower = t.lower ∨ t'.lower = S.lowerS t.val))
  ∨ ∃ v lo, fixedPair S v lo ∧ t'.val = v ∧ (t'.lower = lo ∨ t'.lower = S.lowerS v)

theorem TokStep.refl (S : Sys) (t : CTok) : TokStep S t t := Or.inl ⟨rfl, Or.inl rfl⟩

theorem TokStep.trans {S : Sys} {a b c : CTok} (h1 : TokStep S a b) (h2 : TokStep S b c) : TokStep S a c := by
  rcases h2 with ⟨hv, hl⟩ | ⟨v, lo, hf, hv, hl⟩
  · rcases h1 with ⟨hv1, hl1⟩ | ⟨v, lo, hf, hv1, hl1⟩
    · refine Or.inl ⟨hv.trans hv1, ?_⟩
      rcases hl with hl | hl
      · rw [hl]; exact hl1
      · right; rw [hl, hv1]
    · refine Or.inr ⟨v, lo, hf, hv.trans hv1, ?_⟩
      rcases hl with hl | hl
      · rw [hl]; exact hl1
      · right; rw [hl, hv1]
  · exact Or.inr ⟨v, lo, hf, hv, hl⟩

def valRel (S : Sys) : Rel where
  I s s' := s'.toks.size = s.toks.size ∧ ∀ i t t', s.toks[i]? = some t → s'.toks[i]? = some t' → TokStep S t t'
  refl _ := ⟨rfl, fun _ t t' h h' => by rw [h] at h'; cases h'; exact TokStep.refl S t⟩
  trans a b c h1 h2 := ⟨h2.1.trans h1.1, fun i t t'' ha hc => by
    have hi : i < a.toks.size := (Array.getElem?_eq_some_iff.mp ha).1
    have hib : i < b.toks.size := by rw [h1.1]; exact hi
    have hb : b.toks[i]? = some b.toks[i] := Array.getElem?_eq_getElem hib
    exact (h1.2 i t _ ha hb).trans (h2.2 i _ t'' hb hc)⟩
  ext s s' h1 _ _ := ⟨by rw [h1], fun _ t t' h h' => by rw [h1, h] at h'; cases h'; exact TokStep.refl S t⟩

/-- one store into the token list -/
theorem val_toksSet (S : Sys) (k : Nat) (t' : CTok) (st : State)
    (h : ∀ t, st.toks[k]? = some t → TokStep S t t') : (valRel S).I st (toksSet k t' st).2 := by
  refine ⟨by show (st.toks.setIfInBounds k t').size = _; simp, fun i t t2 hi hi2 => ?_⟩
  have hi2' : (st.toks.setIfInBounds k t')[i]? = some t2 := hi2
  rw [Array.getElem?_setIfInBounds] at hi2'
  split at hi2'
  · rename_i hki
    subst hki
    split at hi2'
    · cases hi2'; exact h t hi
    · cases hi2'
  · rw [hi] at hi2'; cases hi2'; exact TokStep.refl S t

/-! ### the pieces of the fused store return the state they were given -/

/-- `m` returns the state it was given -/
def Same (m : M α) : Prop := ∀ st, (m st).2 = st

theorem same_pure (a : α) : Same (pure a : M α) := fun _ => rfl
theorem same_raise (e : Err) : Same (raise e : M α) := fun _ => rfl
theorem same_unmod : Same (unmod : M α) := fun _ => rfl
theorem same_typeErr : Same (typeErr : M α) := fun _ => rfl
theorem same_indexErr : Same (indexErr : M α) := fun _ => rfl
theorem same_getSt : Same getSt := fun _ => rfl
theorem same_getVar (x : Nat) : Same (getVar x) := by intro st; unfold getVar; split <;> rfl
theorem same_readList (a : Nat) : Same (readList a) := by intro st; unfold readList; split <;> rfl
theorem same_construct (S : Sys) (c : Nat) (args : List Val) : Same (construct S c args) := fun _ => rfl

theorem bind_same {m : M α} {f : α → M β} (hm : Same m) (st : State) :
    (m >>= f) st = match (m st).1 with
      | .ok a => f a st
      | .error e => (.error e, st) := by
  show M.bind m f st = _
  unfold M.bind
  have := hm st
  cases h : m st with
  | mk res st' =>
    rw [h] at this
    simp only at this
    subst this
    cases res <;> rfl

theorem same_bind {m : M α} {f : α → M β} (hm : Same m) (hf : ∀ a, Same (f a)) : Same (m >>= f) := by
  intro st
  rw [bind_same hm]
  split
  · exact hf _ st
  · rfl

macro "same_tac" : tactic =>
  `(tactic| repeat (first
    | exact same_pure _ | exact same_raise _ | exact same_unmod | exact same_typeErr | exact same_indexErr
    | exact same_getSt | exact same_getVar _ | exact same_readList _ | exact same_construct _ _ _
    | (refine same_bind ?_ (fun _ => ?_)) | split))

theorem same_indexVal (lv iv : Val) : Same (indexVal lv iv) := by unfold indexVal; same_tac
theorem same_tokArg (v : Val) : Same (tokArg v) := by unfold tokArg; same_tac
theorem same_retagArgs (l x : Nat) (b : Bool) : Same (retagArgs l x b) := by
  unfold retagArgs
  split
  · exact same_bind (same_getVar _) fun _ => same_bind (same_getVar _) fun _ =>
      same_bind (same_indexVal _ _) fun _ => same_bind (same_tokArg _) fun _ => same_pure _
  · exact same_pure _
theorem same_retagCtor (S : Sys) (cv : Val) (args : List Val) : Same (retagCtor S cv args) := by
  unfold retagCtor; same_tac

/-! ### what the pieces compute -/

/-- the token a constructor builds: class `c`; text = the argument string with `lower = text.lower()`, or the
    class's fixed pair -/
theorem constructP_tok (S : Sys) (c : Nat) (args : List Val) (t : CTok) (h : constructP S c args = .ok (.tok t)) :
    t.cls = c ∧ ((args = [.str t.val] ∧ t.lower = S.lowerS t.val) ∨ (fixedPair S t.val t.lower)) := by
  unfold constructP at h
  split at h
  · cases h
  · split at h
    · split at h
      · rename_i v lo hc
        cases h
        exact ⟨rfl, Or.inr ⟨c, Or.inr hc⟩⟩
      · cases h
    · split at h
      · cases h; exact ⟨rfl, Or.inl ⟨rfl, rfl⟩⟩
      · rename_i v lo hc
        cases h
        exact ⟨rfl, Or.inr ⟨c, Or.inl hc⟩⟩
      · cases h
    · split at h
      · cases h
      · rename_i v lo hc
        cases h
        exact ⟨rfl, Or.inr ⟨c, Or.inl hc⟩⟩
      · cases h
    · split at h <;> cases h
    · cases h

theorem tokArg_ok (o : Val) (st : State) (t : CTok) (h : (tokArg o st).1 = .ok t) : o = .tok t := by
  unfold tokArg at h
  split at h <;> first | (cases h; rfl) | cases h

theorem normIdx_lt {n : Nat} {i : Int} {k : Nat} (h : normIdx n i = some k) : k < n := by
  unfold normIdx at h
  by_cases h1 : (if i < 0 then (n : Int) + i else i) < 0
  · simp [h1] at h
  · by_cases h2 : (if i < 0 then (n : Int) + i else i).toNat < n
    · simp [h1, h2] at h; omega
    · simp [h1, h2] at h

/-- reading `toks[i]` gives the token at the normalised index -/
theorem indexVal_toks (iv : Val) (st : State) (o : Val) (h : (indexVal .toks iv st).1 = .ok o) :
    ∃ i k t, asInt iv = some i ∧ normIdx st.toks.size i = some k ∧ st.toks[k]? = some t ∧ o = .tok t := by
  cases hi : asInt iv with
  | none =>
    exfalso
    simp only [indexVal, hi] at h
    cases iv <;> cases h
  | some i =>
    simp only [indexVal, hi, bind, M.bind, getSt] at h
    cases hk : normIdx st.toks.size i with
    | none => simp only [hk] at h; cases h
    | some k =>
      simp only [hk] at h
      cases ht : st.toks[k]? with
      | none => simp only [ht] at h; cases h
      | some t =>
        simp only [ht] at h
        cases h
        exact ⟨i, k, t, rfl, hk, ht, rfl⟩

/-- with the value argument: the argument list is `[text of the token read at (L, X)]` -/
theorem retagArgs_ok (l x : Nat) (st : State) (args : List Val) (h : (retagArgs l x true st).1 = .ok args) :
    ∃ lv iv o t, (getVar l st).1 = .ok lv ∧ (getVar x st).1 = .ok iv ∧ (indexVal lv iv st).1 = .ok o
      ∧ o = .tok t ∧ args = [.str t.val] := by
  unfold retagArgs at h
  simp only [if_true] at h
  rw [bind_same (same_getVar _)] at h
  cases h1 : (getVar l st).1 with
  | error e => rw [h1] at h; cases h
  | ok lv =>
    rw [h1] at h
    simp only at h
    rw [bind_same (same_getVar _)] at h
    cases h2 : (getVar x st).1 with
    | error e => rw [h2] at h; cases h
    | ok iv =>
      rw [h2] at h
      simp only at h
      rw [bind_same (same_indexVal _ _)] at h
      cases h3 : (indexVal lv iv st).1 with
      | error e => rw [h3] at h; cases h
      | ok o =>
        rw [h3] at h
        simp only at h
        rw [bind_same (same_tokArg _)] at h
        cases h4 : (tokArg o st).1 with
        | error e => rw [h4] at h; cases h
        | ok t =>
          rw [h4] at h
          cases h
          exact ⟨lv, iv, o, t, rfl, rfl, h3, tokArg_ok o st t h4, rfl⟩

/-- the store itself: into the token list only for `L = lObjects`, an int index in range and a token value -/
theorem storeIndex_cases (lv iv v : Val) (st : State) :
    ((storeIndex lv iv v st).2.toks = st.toks ∧ (storeIndex lv iv v st).2.nIns = st.nIns ∧ (storeIndex lv iv v st).2.nDel = st.nDel)
    ∨ ∃ i k t', lv = .toks ∧ asInt iv = some i ∧ normIdx st.toks.size i = some k ∧ v = .tok t'
        ∧ (storeIndex lv iv v st).2 = (toksSet k t' st).2 := by
  cases hi : asInt iv with
  | none =>
    left
    simp only [storeIndex, hi]
    cases iv <;> exact ⟨rfl, rfl, rfl⟩
  | some i =>
    cases lv
    case toks =>
      cases hk : normIdx st.toks.size i with
      | none =>
        left
        simp only [storeIndex, hi, bind, M.bind, getSt, hk]
        exact ⟨rfl, rfl, rfl⟩
      | some k =>
        cases v
        case tok t' =>
          right
          refine ⟨i, k, t', rfl, rfl, hk, rfl, ?_⟩
          simp only [storeIndex, hi, bind, M.bind, getSt, hk]
        all_goals
          left
          simp only [storeIndex, hi, bind, M.bind, getSt, hk]
          exact ⟨rfl, rfl, rfl⟩
    case list a =>
      left
      simp only [storeIndex, hi]
      exact pres_bind (pres_readList _) (fun l => by split <;> first | exact pres_writeList _ _ | exact pres_indexErr) st
    all_goals
      left
      simp only [storeIndex, hi]
      exact ⟨rfl, rfl, rfl⟩

/-- **the fused store**: either the token list is untouched, or exactly one token `k` (the normalised `X`) is
    replaced by a token of the class held in `C` whose text is the old text of token `k` (`lower = text.lower()`)
    or the fixed pair of that class -/
theorem retag_spec (S : Sys) (l x c : Nat) (b : Bool) (st : State) :
    ((retag S l x c b st).2.toks = st.toks ∧ (retag S l x c b st).2.nIns = st.nIns ∧ (retag S l x c b st).2.nDel = st.nDel)
    ∨ ∃ k t t' cls, st.toks[k]? = some t ∧ (retag S l x c b st).2 = (toksSet k t' st).2 ∧ t'.cls = cls
        ∧ (getVar c st).1 = .ok (.cls cls)
        ∧ ((b = true ∧ t'.val = t.val ∧ t'.lower = S.lowerS t.val) ∨ fixedPair S t'.val t'.lower) := by
  unfold retag
  rw [bind_same (same_getVar _)]
  cases hc : (getVar c st).1 with
  | error e => left; exact ⟨rfl, rfl, rfl⟩
  | ok cv =>
    simp only
    rw [bind_same (same_retagArgs _ _ _)]
    cases ha : (retagArgs l x b st).1 with
    | error e => left; exact ⟨rfl, rfl, rfl⟩
    | ok args =>
      simp only
      rw [bind_same (same_retagCtor _ _ _)]
      cases hv : (retagCtor S cv args st).1 with
      | error e => left; exact ⟨rfl, rfl, rfl⟩
      | ok v =>
        simp only
        rw [bind_same (same_getVar _)]
        cases hl : (getVar l st).1 with
        | error e => left; exact ⟨rfl, rfl, rfl⟩
        | ok lv =>
          simp only
          rw [bind_same (same_getVar _)]
          cases hx : (getVar x st).1 with
          | error e => left; exact ⟨rfl, rfl, rfl⟩
          | ok iv =>
            simp only
            rcases storeIndex_cases lv iv v st with hp | ⟨i, k, t', hlv, hiv, hk, hvt, hst⟩
            · left; exact hp
            · subst hlv; subst hvt
              -- the constructed token
              have hk' : k < st.toks.size := normIdx_lt hk
              have ht : st.toks[k]? = some st.toks[k] := Array.getElem?_eq_getElem hk'
              unfold retagCtor at hv
              split at hv
              · rename_i kc
                have hcp : constructP S kc args = .ok (.tok t') := hv
                have hct := constructP_tok S kc args t' hcp
                right
                refine ⟨k, st.toks[k], t', kc, ht, hst, hct.1, rfl, ?_⟩
                rcases hct.2 with ⟨hargs, hlow⟩ | hfix
                · left
                  cases b with
                  | false =>
                    unfold retagArgs at ha
                    simp only [Bool.false_eq_true, if_false] at ha
                    cases ha
                    cases hargs
                  | true =>
                    obtain ⟨lv2, iv2, o, t, h1, h2, h3, ho, hargs2⟩ := retagArgs_ok l x st args ha
                    rw [hl] at h1; cases h1
                    rw [hx] at h2; cases h2
                    subst ho
                    obtain ⟨i2, k2, t2, hi2, hk2, ht2, hot⟩ := indexVal_toks _ st _ h3
                    rw [hiv] at hi2; cases hi2
                    rw [hk] at hk2; cases hk2
                    cases hot
                    rw [ht] at ht2; cases ht2
                    rw [hargs] at hargs2
                    have hval : t'.val = st.toks[k].val := by simpa using hargs2
                    exact ⟨rfl, hval, by rw [← hval]; exact hlow⟩
                · exact Or.inr hfix
              · cases hv
              · cases hv

theorem val_retag (S : Sys) (l x c : Nat) (b : Bool) : Inv (valRel S) (retag S l x c b) := by
  intro st
  rcases retag_spec S l x c b st with hp | ⟨k, t, t', cls, ht, hst, _, _, hstep⟩
  · exact (valRel S).ext _ _ hp.1 hp.2.1 hp.2.2
  · rw [hst]
    apply val_toksSet
    intro t0 ht0
    rw [ht] at ht0; cases ht0
    rcases hstep with ⟨_, hv, hl⟩ | hf
    · exact Or.inl ⟨hv, Or.inr hl⟩
    · exact Or.inr ⟨t'.val, t'.lower, hf, rfl, Or.inl rfl⟩

theorem sound_value (S : Sys) : Sound S (valRel S) Chk.value where
  set := fun h => by simp [Chk.value] at h
  retag := fun b _ l x c => val_retag S l x c b
  prim := fun p args h R hR hargs => inv_prim_noLen p args h R hR hargs

/-- VALUES: if every function of the table passes `Chk.value` (token list written only by the fused stores, no
    `pop` / `insert` / free `l[i] = v`), then after any call — any fuel, function, arguments, also when it ends in
    an exception — the number of tokens is unchanged and every token has its old text (with its old lower value
    or `text.lower()`) or the fixed text of a class of the system -/
theorem call_values (S : Sys) (htab : ∀ fd ∈ S.funs.toList, fd.ok Chk.value = true)
    (n f : Nat) (args : List Val) (st : State) :
    let st' := ((run S n).call f args st).2
    st'.toks.size = st.toks.size ∧ ∀ (i : Nat) t t', st.toks[i]? = some t → st'.toks[i]? = some t' → TokStep S t t' :=
  (inv_run (sound_value S) htab n).call f args st

end Vsgm.Prog
