import VsgModel.Engine.RuleRun
namespace Vsgm.Lemmas
open Vsgm

theorem mem_insertByStart (v x : Viol) (l : List Viol) : x ∈ insertByStart v l ↔ x = v ∨ x ∈ l := by
  induction l with
  | nil => simp [insertByStart]
  | cons w r ih =>
    unfold insertByStart
    split
    · simp
    · simp [ih]; constructor
      · rintro (h | h | h) <;> simp [h]
      · rintro (h | h | h) <;> simp [h]

theorem mem_sortByStart (x : Viol) (l : List Viol) : x ∈ sortByStart l ↔ x ∈ l := by
  induction l with
  | nil => simp [sortByStart]
  | cons v r ih => simp [sortByStart, mem_insertByStart, ih]

theorem filter_nil_iff_of_mem {p : Viol → Bool} {a b : List Viol} (h : ∀ x, x ∈ a ↔ x ∈ b) :
    a.filter p = [] ↔ b.filter p = [] := by
  simp only [List.filter_eq_nil_iff]
  constructor
  · intro ha x hx; exact ha x ((h x).mpr hx)
  · intro hb x hx; exact hb x ((h x).mp hx)

/-- the fix-only filter lets nothing through after the position sort iff it lets nothing through before -/
theorem filterFixOnly_sort_nil (fo : Option FixOnly) (id : String) (l : List Viol) :
    filterFixOnly fo id (sortByStart l) = [] ↔ filterFixOnly fo id l = [] := by
  unfold filterFixOnly
  cases fo with
  | none =>
    simp only
    constructor
    · intro h; cases l with
      | nil => rfl
      | cons v r =>
        have : v ∈ sortByStart (v :: r) := (mem_sortByStart v _).mpr (List.mem_cons_self ..)
        rw [h] at this; cases this
    · intro h; subst h; rfl
  | some d =>
    simp only
    cases d id with
    | none => simp
    | some pl =>
      obtain ⟨all, lines⟩ := pl
      cases all with
      | true =>
        simp only
        constructor
        · intro h; cases l with
          | nil => rfl
          | cons v r =>
            have : v ∈ sortByStart (v :: r) := (mem_sortByStart v _).mpr (List.mem_cons_self ..)
            rw [h] at this; cases this
        · intro h; subst h; rfl
      | false =>
        simp only
        exact filter_nil_iff_of_mem (fun x => mem_sortByStart x l)

theorem sortByStart_nil_iff (l : List Viol) : sortByStart l = [] ↔ l = [] := by
  constructor
  · intro h; cases l with
    | nil => rfl
    | cons v r =>
      have : v ∈ sortByStart (v :: r) := (mem_sortByStart v _).mpr (List.mem_cons_self ..)
      rw [h] at this; cases this
  · intro h; subst h; rfl

end Vsgm.Lemmas
