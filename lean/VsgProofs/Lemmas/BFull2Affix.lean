/-
  WP2b — the naming rules token_prefix / token_suffix as whole rules: what the analysis reports (spec form), for
  every token list, option list, `str.lower` and exception oracle.
-/
import VsgModel.BFull2.Affix
import VsgProofs.Lemmas.BFull2Bridge
import VsgProofs.Lemmas.BFull2Indent
namespace Vsgm.BFull2.Affix
open Vsgm Vsgm.TM Vsgm.TM.Lemmas Vsgm.BFull2

theorem mapE_ok {β γ : Type} (g : β → Except PyErr γ) (h : β → γ) (l : List β)
    (hg : ∀ b ∈ l, g b = .ok (h b)) : mapE g l = .ok (l.map h) := by
  induction l with
  | nil => rfl
  | cons b bs ih =>
    unfold mapE
    rw [hg b (List.mem_cons_self ..), ih (fun x hx => hg x (List.mem_cons_of_mem _ hx))]
    rfl

/-- the file has a line break (otherwise `get_line_number_of_index` raises KeyError as soon as there is a candidate) -/
def HasCr (uid : Tok → Option Key) (f : List Tok) : Prop := ∃ (j : Nat) (t : Tok), f[j]? = some t ∧ uid t = some crKey

theorem lineOf_ok (uid : Tok → Option Key) (f : List Tok) (h : HasCr uid f) (i : Nat) :
    (processTokens uid f).lineOf (i : Int) = .ok (lineNo uid f i) := by
  obtain ⟨j, t, hj, hu⟩ := h
  have := lineOf_ok_of_isAt uid f (j : Int) (i : Int) ((isAt_fresh_nat uid f crKey plain_cr j).mpr ⟨t, hj, hu⟩)
  simpa using this

/-- the single-token region at position `i` -/
def regionOf (uid : Tok → Option Key) (f : List Tok) (i : Nat) : Toi Tok :=
  { start := some (i : Int), line := lineNo uid f i, toks := [(f[i]?).getD default] }

/-- **get_tokens_matching on a fresh index** (`CsOk`, a file with a line break): one single-token region per
    token whose class is listed, in file order, with the token's position and line -/
theorem tokensMatching_fresh (uid : Tok → Option Key) (f : List Tok) (cs : List Cls) (hcs : CsOk cs) (hcr : HasCr uid f) :
    tokensMatching f (processTokens uid f) cs =
      .ok (((List.range f.length).filter (candB uid cs f)).map (regionOf uid f)) := by
  unfold tokensMatching singles
  rw [idxsOfList_fresh uid f cs hcs]
  apply mapE_ok
  intro i hi
  have hlt : i < f.length := by simpa using (List.mem_filter.mp hi).1
  simp only [lineOf_ok uid f hcr i, pyIdx_nat f i f[i] (List.getElem?_eq_getElem hlt), bind, Except.bind, pure,
    Except.pure, regionOf, List.getElem?_eq_getElem hlt, Option.getD_some]

variable (V : View Tok) (lower : Str → Str) (exc : Str → Bool)

/-- what the rule reports at position `i` -/
def reportAt (P : Params) (A : List Str) (f : List Tok) (i : Nat) : Option Viol :=
  match f[i]? with
  | none => none
  | some t =>
    if matchB V.uid P.cs t && !exc (lower t.val) && !hasAffix lower P.kind (A.map lower) (lower t.val)
    then some { line := lineNo V.uid f i, start := i, toks := [t], act := 0 } else none

/-- **spec form of the whole rule (plain extractor)**: the analysis reports exactly the tokens of the listed
    classes, in file order, whose lower-cased value is no exception and carries none of the lower-cased
    prefixes / suffixes — each with its own position, its line and itself as the region -/
theorem analyze_spec (P : Params) (A : List Str) (f : List Tok) (hv : P.variant = .plain) (ha : P.affixes = some A)
    (hcs : CsOk P.cs) (hcr : HasCr V.uid f) :
    (sem V lower exc P).analyze f = (List.range f.length).filterMap (reportAt V lower exc P A f) := by
  unfold sem
  simp only
  unfold analyzeE analyzeWith toisWith
  rw [hv]
  simp only
  rw [tokensMatching_fresh V.uid f P.cs hcs hcr, ha]
  simp only
  have hok : ∀ t ∈ ((List.range f.length).filter (candB V.uid P.cs f)).map (regionOf V.uid f),
      violOf lower exc P.kind A t = .ok (match t.toks with
        | [] => none
        | x :: _ => if exc (lower x.val) then none else if hasAffix lower P.kind (A.map lower) (lower x.val) then none
            else some ({ line := t.line, start := (t.start.getD 0).toNat, toks := t.toks, act := 0 }, solution P.kind A x.val)) := by
    intro t ht
    obtain ⟨i, _, hi⟩ := List.mem_map.mp ht
    subst hi
    unfold violOf regionOf
    simp only
    by_cases he : exc (lower (f[i]?.getD default).val) = true
    · simp [he]
    · by_cases hh : hasAffix lower P.kind (A.map lower) (lower (f[i]?.getD default).val) = true
      · simp [he, hh]
      · simp [he, hh]
  rw [filterMapE_ok _ _ _ hok]
  simp only
  rw [List.map_filterMap, List.filterMap_map, List.filterMap_filter]
  apply filterMap_ext_mem
  intro i hi
  rw [List.mem_range] at hi
  unfold reportAt candB regionOf
  simp only [Function.comp, List.getElem?_eq_getElem hi, Option.getD_some]
  by_cases hm : matchB V.uid P.cs f[i] = true
  · simp only [hm, if_true, Bool.true_and]
    by_cases he : exc (lower f[i].val) = true
    · simp [he]
    · by_cases hh : hasAffix lower P.kind (A.map lower) (lower f[i].val) = true
      · simp [he, hh]
      · simp [he, hh]
  · simp [hm]

/-! ### what the option list means -/

/-- an EMPTY option list accepts nothing: every token of the listed classes (that is no exception) is reported -/
theorem hasAffix_nil (k : Kind) (s : Str) : hasAffix lower k [] s = false := by
  cases k <;> rfl

/-- an EMPTY STRING among the options accepts everything (`startswith("")` / `endswith("")`), provided `lower`
    maps the empty string to itself: the rule reports nothing -/
theorem hasAffix_empty (hl : lower [] = []) (k : Kind) (A : List Str) (h : [] ∈ A) (s : Str) :
    hasAffix lower k (A.map lower) s = true := by
  cases k with
  | pre =>
    simp only [hasAffix, List.any_eq_true]
    exact ⟨lower [], List.mem_map.mpr ⟨[], h, rfl⟩, by rw [hl, hl]; rfl⟩
  | suf =>
    simp only [hasAffix, List.any_eq_true]
    refine ⟨lower [], List.mem_map.mpr ⟨[], h, rfl⟩, ?_⟩
    rw [hl]; simp [List.isSuffixOf]

/-- the options are compared case-insensitively: two option lists with the same lower-cased forms report the same
    tokens (only the solution text, which quotes the options as written, differs) -/
theorem reportAt_lower_congr (P : Params) (A B : List Str) (h : A.map lower = B.map lower) (f : List Tok) (i : Nat) :
    reportAt V lower exc P A f i = reportAt V lower exc P B f i := by
  unfold reportAt; rw [h]

/-- prefixes are lower-cased TWICE (`sPrefix.lower()` on an element of `lPrefixLower`): with an idempotent `lower`
    the test is "the lower-cased option is a prefix of the lower-cased value" -/
theorem hasAffix_pre_idem (hi : ∀ s, lower (lower s) = lower s) (A : List Str) (s : Str) :
    hasAffix lower .pre (A.map lower) s = A.any fun p => (lower p).isPrefixOf s := by
  simp only [hasAffix, List.any_map, Function.comp_def, hi]

/-- `prefixes` / `suffixes` left at the base-class default `None`: the analysis raises TypeError as soon as the
    extractor returned (even with no region at all) -/
theorem analyze_none (P : Params) (f : List Tok) (ts : List (Toi Tok)) (ha : P.affixes = none)
    (ht : toisWith V P f (processTokens V.uid f) = .ok ts) : analyzeE V lower exc P f = .error .typeError := by
  unfold analyzeE analyzeWith
  rw [ht, ha]

/-- `_fix_violation` hands every region back unchanged -/
theorem sem_fixV (P : Params) (v : Viol) : (sem V lower exc P).fixV v = v.toks := rfl

end Vsgm.BFull2.Affix
