/- owner-level facts of the indent / vertical-spacing family behind `fixByOwner`, shared by the property
   files C01 / C02 / C03 / C07 -/
import VsgProofs.Lemmas.BaseBindDispatch
import VsgModel.Generated.Classes
namespace Vsgm.Base.Bind
open Vsgm

/-- an indent owner runs `Indent.fixV` with the rule's `indent_style` / `indent_size`, the action string
    and the indent oracle of the action -/
theorem indent_fixV_of_owner (owner : String) (params action : Base.KV) (old new : List Tok)
    (ho : owner ∈ Base.indentOwners) (h : Base.fixByOwner owner params action old = some (.ok new)) :
    ∃ style size, Base.Indent.fixV Gen.wsCls style size (Base.strAction action) (Base.indentOracle action) old = .ok new := by
  rw [Base.fixByOwner_indent owner params action old ho] at h
  simp only [Option.some.injEq] at h
  cases h1 : Base.needInt params "indent_size" with
  | error e => simp [h1, bind, Except.bind] at h
  | ok size =>
    cases h2 : Base.needStr params "indent_style" with
    | error e => simp [h1, h2, bind, Except.bind] at h
    | ok style =>
      simp only [h1, h2, bind, Except.bind] at h
      exact ⟨style, size, h⟩

theorem blankline_shape (owner : String) (params action : Base.KV) (old new : List Tok)
    (ho : owner ∈ Base.blankLineOwners) (h : Base.fixByOwner owner params action old = some (.ok new)) :
    (old ≠ [] ∧ new = Base.BlankLine.blankTok Gen.blankCls :: Base.BlankLine.crTok Gen.crCls :: old) ∨
    new = old ++ [Base.BlankLine.crTok Gen.crCls, Base.BlankLine.blankTok Gen.blankCls] ∨
    new = old ∨
    ∃ pre suf, Base.BlankLine.Cut old new pre suf := by
  simp only [Base.blankLineOwners, List.mem_append] at ho
  rcases ho with (((((ho | ho) | ho) | ho) | ho) | ho) | ho
  · rw [Base.fixByOwner_below owner params action old ho] at h
    simp only [Option.some.injEq] at h
    cases ha : Base.dictAction action with
    | error e => simp [ha, bind, Except.bind] at h
    | ok a =>
      simp only [ha, bind, Except.bind] at h
      rcases Base.BlankLine.belowFixV_cases _ _ _ _ _ h with ⟨_, hne, hr⟩ | ⟨_, hr⟩ | hr
      · exact Or.inl ⟨hne, hr⟩
      · exact Or.inr (Or.inr (Or.inr ⟨old, [], by rw [hr]; exact Base.BlankLine.cut_nil old⟩))
      · exact Or.inr (Or.inr (Or.inl hr))
  · rw [Base.fixByOwner_above owner params action old ho] at h
    simp only [Option.some.injEq] at h
    cases ha : Base.dictAction action with
    | error e => simp [ha, bind, Except.bind] at h
    | ok a =>
      simp only [ha, bind, Except.bind] at h
      rcases Base.BlankLine.aboveFixV_cases _ _ _ _ _ h with ⟨_, hr⟩ | ⟨_, hr⟩ | hr
      · exact Or.inr (Or.inl hr)
      · exact Or.inr (Or.inr (Or.inr ⟨old, [], by rw [hr]; exact Base.BlankLine.cut_nil old⟩))
      · exact Or.inr (Or.inr (Or.inl hr))
  · rw [Base.fixByOwner_excessAbove owner params action old ho] at h
    simp only [Option.some.injEq] at h
    cases ha : Base.actBound action "index" with
    | error e => simp [ha, bind, Except.bind] at h
    | ok oi =>
      cases oi with
      | none =>
        simp only [ha, bind, Except.bind, Base.BlankLine.excessAboveFixV, pure, Except.pure, Except.ok.injEq] at h
        exact Or.inr (Or.inr (Or.inl h.symm))
      | some i =>
        simp only [ha, bind, Except.bind, Base.BlankLine.excessAboveFixV, pure, Except.pure, Except.ok.injEq] at h
        exact Or.inr (Or.inr (Or.inr ⟨[], _, by rw [← h]; exact Base.BlankLine.sliceTo_cut old i⟩))
  · rw [Base.fixByOwner_excessBelow owner params action old ho] at h
    simp only [Option.some.injEq] at h
    cases ha : Base.actTwice action "remove" with
    | error e => simp [ha, bind, Except.bind] at h
    | ok i =>
      simp only [ha, bind, Except.bind, Base.BlankLine.excessBelowFixV, pure, Except.pure, Except.ok.injEq] at h
      exact Or.inr (Or.inr (Or.inr ⟨[], _, by rw [← h]; exact Base.BlankLine.sliceTo_cut old (2 * i)⟩))
  · rw [Base.fixByOwner_removeAbove owner params action old ho] at h
    simp only [Option.some.injEq] at h
    cases ha : Base.actBound action "remove_to_index" with
    | error e => simp [ha, bind, Except.bind] at h
    | ok oi =>
      cases oi with
      | none =>
        simp only [ha, bind, Except.bind, Base.BlankLine.removeAboveFixV, pure, Except.pure, Except.ok.injEq] at h
        exact Or.inr (Or.inr (Or.inl h.symm))
      | some i =>
        simp only [ha, bind, Except.bind, Base.BlankLine.removeAboveFixV, pure, Except.pure, Except.ok.injEq] at h
        exact Or.inr (Or.inr (Or.inr ⟨_, [], by rw [← h]; exact Base.BlankLine.sliceFrom_cut old i⟩))
  · rw [Base.fixByOwner_ws200 owner params action old ho] at h
    simp only [Option.some.injEq] at h
    cases ha : Base.actTwice action "remove" with
    | error e => simp [ha, bind, Except.bind] at h
    | ok i =>
      simp only [ha, bind, Except.bind, Base.BlankLine.ws200FixV, pure, Except.pure, Except.ok.injEq] at h
      exact Or.inr (Or.inr (Or.inr ⟨_, [], by rw [← h]; exact Base.BlankLine.sliceFrom_cut old (2 * i)⟩))
  · rw [Base.fixByOwner_betweenPairs owner params action old ho] at h
    simp only [Option.some.injEq, Base.BlankLine.betweenPairsFixV, pure, Except.pure, Except.ok.injEq] at h
    exact Or.inr (Or.inr (Or.inr ⟨old, [], by rw [← h]; exact Base.BlankLine.cut_nil old⟩))

end Vsgm.Base.Bind
