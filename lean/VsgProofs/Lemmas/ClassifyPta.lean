/-
  Helper lemmas for C05: `post_token_assignments` commutes with dropping the tokens the
  navigation skips (under the guards stated in `PtaGuards`).
-/
import VsgProofs.Lemmas.ClassifyPost
namespace Vsgm.Classify
open Vsgm

/-- values the last branch of `post_token_assignments` reacts to -/
def opVal (v : Str) : Bool :=
  v == ['+'] || v == ['-'] || v == ['*'] || v == ['/'] || v == ['*', '*'] || v == ['('] || v == [')']

/-- a token that never asks for the token in front of it -/
def quietPta (P : PostTables) (t : CTok) : Prop :=
  lookup P.addMap t.lower = none ∧ lookup P.logMap t.lower = none ∧ (t.val == ['+']) = false ∧ (t.val == ['-']) = false

/-- skipped tokens carry no operator value (true of white space, line ends, comments, directives) -/
def SkipNoOp (T : ClassTables) (l : List CTok) : Prop := ∀ t ∈ l, keepNav T t = false → opVal t.val = false

/-- no kept token spelled `'` is DIRECTLY followed by a skipped token: the excluded case of
    `classify_predefined_types(lTokens, iToken + 1)` -/
def TicAdj (T : ClassTables) : List CTok → Prop
  | t :: n :: rest => ((t.val == quote) = true → keepNav T t = true → keepNav T n = true) ∧ TicAdj T (n :: rest)
  | _ => True

theorem ptaStep_skip (T : ClassTables) (P : PostTables) (H : PostHyps T P) (d : List CTok) (t : CTok)
    (r : List CTok) (st : ParenState) (hs : keepNav T t = false) (hop : opVal t.val = false) :
    ∃ o, ptaStep T P d t r st = .ok o ∧ o.tok = t ∧ o.write = none ∧ o.st = st := by
  unfold ptaStep
  by_cases h1 : isInst t P.dcText = true
  · simp only [h1, if_true]; exact ⟨_, rfl, rfl, rfl, rfl⟩
  · simp only [h1, if_false, isInst_false_of_skip T t _ hs H.groupA, isInst_false_of_skip T t _ hs H.attrAttribute,
      isInst_false_of_skip T t _ hs H.todo, Bool.false_eq_true]
    simp only [opVal, Bool.or_eq_false_iff] at hop
    obtain ⟨⟨⟨⟨⟨⟨a1, a2⟩, a3⟩, a4⟩, a5⟩, a6⟩, a7⟩ := hop
    simp [ptaOther, a1, a2, a3, a4, a5, a6, a7, pure, Except.pure]

/-! #### forward search for a raw item in the filtered list -/

theorem firstFrom_filter_zero (p q : CTok → Bool) (hpq : ∀ t, p t = true → q t = true) (l : List CTok) :
    firstFrom p (l.filter q) 0 = (firstFrom p l 0).map (rank q l) := by
  induction l with
  | nil => simp [firstFrom]
  | cons a l ih =>
    rw [firstFrom_cons_zero]
    by_cases hq : q a = true
    · rw [List.filter_cons_of_pos hq, firstFrom_cons_zero]
      by_cases hp : p a = true
      · simp [hp, rank]
      · have hp' : p a = false := by simpa using hp
        simp only [hp', Bool.false_eq_true, if_false, ih, Option.map_map]
        congr 1; funext k
        simp [rank_cons_succ, hq]
    · have hq' : q a = false := by simpa using hq
      have hp' : p a = false := by
        cases hpa : p a with
        | false => rfl
        | true => rw [hpq a hpa] at hq'; cases hq'
      rw [List.filter_cons_of_neg (by simpa using hq)]
      simp only [hp', Bool.false_eq_true, if_false, ih, Option.map_map]
      congr 1; funext k
      simp [rank_cons_succ, hq']

theorem isRaw_kept (T : ClassTables) (P : PostTables) (H : PostHyps T P) (t : CTok) (h : isRaw T t = true) :
    keepNav T t = true :=
  keepNav_of_cls T t _ (by simpa [isRaw] using h) H.item

theorem classifyPredefined_filter (T : ClassTables) (P : PostTables) (H : PostHyps T P) (rest : List CTok)
    (hadj : ∀ n, rest.head? = some n → keepNav T n = true) :
    match classifyPredefined T P rest with
    | .error e => classifyPredefined T P (rest.filter (keepNav T)) = .error e
    | .ok none => classifyPredefined T P (rest.filter (keepNav T)) = .ok none
    | .ok (some (k, tok)) =>
      classifyPredefined T P (rest.filter (keepNav T)) = .ok (some (rank (keepNav T) rest k, tok))
        ∧ keepNav T tok = true ∧ ∃ old, rest[k]? = some old ∧ keepNav T old = true ∧ tok.val = old.val := by
  cases rest with
  | nil => simp [classifyPredefined, natGet, bind, Except.bind]
  | cons n post =>
    have hn : keepNav T n = true := hadj n rfl
    rw [List.filter_cons_of_pos hn]
    unfold classifyPredefined
    simp only [natGet, List.getElem?_cons_zero, bind, Except.bind, pure, Except.pure]
    by_cases h1 : isInst n P.todo = true
    · simp only [h1, Bool.not_true, Bool.false_eq_true, if_false]
      by_cases h2 : P.predefValues.contains n.lower = true
      · simp only [h2, Bool.not_true, Bool.false_eq_true, if_false]
        -- the next raw item of `n :: post` and of its filtered version
        have hff := firstFrom_filter_zero (isRaw T) (keepNav T) (isRaw_kept T P H) (n :: post)
        rw [List.filter_cons_of_pos hn] at hff
        have hspec := firstFrom_spec (isRaw T) (n :: post) 0
        simp only [findNextToken]
        rw [hff]
        cases hf : firstFrom (isRaw T) (n :: post) 0 with
        | none =>
          simp only [Option.map_none, Option.getD_none, List.getElem?_cons_zero]
          have hk : keepNav T (rebuilt (if n.lower == "event".toList then P.cPredefEvent else P.cPredefKeyword) n) = true := by
            split
            · exact keepNav_of_cls T _ _ rfl H.cPredefEvent
            · exact keepNav_of_cls T _ _ rfl H.cPredefKeyword
          exact ⟨by simp [rank], hk, n, rfl, hn, rfl⟩
        | some k =>
          simp only [hf] at hspec
          obtain ⟨_, _, old, hold, hraw, _⟩ := hspec
          have hko := isRaw_kept T P H old hraw
          have hv := view_get_of_keep (keepNav T) (n :: post) k old hold hko
          simp only [view, List.filter_cons_of_pos hn] at hv
          simp only [Option.map_some, Option.getD_some, hold, hv]
          have hk : keepNav T (rebuilt (if n.lower == "event".toList then P.cPredefEvent else P.cPredefKeyword) old) = true := by
            split
            · exact keepNav_of_cls T _ _ rfl H.cPredefEvent
            · exact keepNav_of_cls T _ _ rfl H.cPredefKeyword
          exact ⟨trivial, hk, old, rfl, hko, rfl⟩
      · have h2' : n.lower ∉ P.predefValues := by simpa using h2
        simp [h2']
    · have h1' : isInst n P.todo = false := by simpa using h1
      simp [h1']

end Vsgm.Classify

namespace Vsgm.Classify
open Vsgm

theorem lookup_mem {β : Type} (m : List (Str × β)) (k : Str) (v : β) (h : lookup m k = some v) :
    ∃ kv ∈ m, kv.2 = v := by
  unfold lookup at h
  cases hf : m.find? (·.1 == k) with
  | none => simp [hf] at h
  | some kv =>
    simp [hf] at h
    exact ⟨kv, List.mem_of_find?_eq_some hf, h⟩

theorem addIsUnary_filter (T : ClassTables) (P : PostTables) (H : PostHyps T P) (d : List CTok) (t : CTok)
    (r : List CTok) (hk : keepNav T t = true) (hd : d.filter (keepNav T) ≠ []) :
    addIsUnary T P (d ++ t :: r) d.length
      = addIsUnary T P (d.filter (keepNav T) ++ t :: r.filter (keepNav T)) (d.filter (keepNav T)).length := by
  unfold addIsUnary
  rw [prevIs_filter T _ d t r hk H.openParen hd, prevIs_filter T _ d t r hk H.keyword hd,
    prevIs_filter T _ d t r hk H.assignment hd, prevIs_filter T _ d t r hk H.comma hd,
    prevIs_filter T _ d t r hk H.bar hd]

theorem logIsUnary_filter (T : ClassTables) (P : PostTables) (H : PostHyps T P) (d : List CTok) (t : CTok)
    (r : List CTok) (hk : keepNav T t = true) (hd : d.filter (keepNav T) ≠ []) :
    logIsUnary T P (d ++ t :: r) d.length
      = logIsUnary T P (d.filter (keepNav T) ++ t :: r.filter (keepNav T)) (d.filter (keepNav T)).length := by
  unfold logIsUnary
  rw [prevIs_filter T _ d t r hk H.openParen hd, prevIs_filter T _ d t r hk H.keyword hd,
    prevIs_filter T _ d t r hk H.assignment hd, prevIs_filter T _ d t r hk H.comma hd,
    prevIs_filter T _ d t r hk H.logicalOperator hd, nextIs_filter T _ d t r hk H.openParen]

/-- how the outcome of an iteration on the full list relates to the one on the filtered list -/
def PtaRel (T : ClassTables) (rest : List CTok) (o o' : PtaOut) : Prop :=
  o'.tok = o.tok ∧ o'.st = o.st ∧ keepNav T o.tok = true ∧
    match o.write with
    | none => o'.write = none
    | some (k, tok) => o'.write = some (rank (keepNav T) rest k, tok) ∧ keepNav T tok = true
        ∧ ∃ old, rest[k]? = some old ∧ keepNav T old = true ∧ tok.val = old.val

def PtaStepRel (T : ClassTables) (rest : List CTok) (a b : Except PyErr PtaOut) : Prop :=
  match a with
  | .error e => b = .error e
  | .ok o => ∃ o', b = .ok o' ∧ PtaRel T rest o o'

theorem ptaRel_plain (T : ClassTables) (rest : List CTok) (tok : CTok) (st : ParenState) (hk : keepNav T tok = true) :
    PtaStepRel T rest (.ok { tok := tok, st := st }) (.ok { tok := tok, st := st }) :=
  ⟨_, rfl, rfl, rfl, hk, rfl⟩

theorem ptaTodo_kept (T : ClassTables) (P : PostTables) (H : PostHyps T P) (d : List CTok) (t : CTok)
    (rest : List CTok) (st : ParenState) (hk : keepNav T t = true)
    (hq : d.filter (keepNav T) = [] → quietPta P t)
    (hadj : (t.val == quote) = true → ∀ n, rest.head? = some n → keepNav T n = true) :
    PtaStepRel T rest (ptaTodo T P d t rest st)
      (ptaTodo T P (d.filter (keepNav T)) t (rest.filter (keepNav T)) st) := by
  unfold ptaTodo
  simp only [pure, Except.pure, bind, Except.bind]
  cases h1 : lookup P.todoMap t.lower with
  | some c =>
    obtain ⟨kv, hm, hc⟩ := lookup_mem _ _ _ h1
    exact ptaRel_plain T rest _ st (keepNav_of_cls T _ _ rfl (hc ▸ H.todoMap kv hm))
  | none =>
  cases h2 : lookup P.addMap t.lower with
  | some ub =>
    obtain ⟨u, b⟩ := ub
    obtain ⟨kv, hm, hc⟩ := lookup_mem _ _ _ h2
    have hd : d.filter (keepNav T) ≠ [] := by
      intro h; have := (hq h).1; rw [h2] at this; cases this
    simp only [addIsUnary_filter T P H d t rest hk hd]
    have hku : clsKept T u := by have := (H.addMap kv hm).1; rw [hc] at this; exact this
    have hkb : clsKept T b := by have := (H.addMap kv hm).2; rw [hc] at this; exact this
    apply ptaRel_plain
    split
    · exact keepNav_of_cls T _ _ rfl hku
    · exact keepNav_of_cls T _ _ rfl hkb
  | none =>
  cases h3 : lookup P.logMap t.lower with
  | some ub =>
    obtain ⟨u, b⟩ := ub
    obtain ⟨kv, hm, hc⟩ := lookup_mem _ _ _ h3
    have hd : d.filter (keepNav T) ≠ [] := by
      intro h; have := (hq h).2.1; rw [h3] at this; cases this
    simp only [logIsUnary_filter T P H d t rest hk hd]
    have hku : clsKept T u := by have := (H.logMap kv hm).1; rw [hc] at this; exact this
    have hkb : clsKept T b := by have := (H.logMap kv hm).2; rw [hc] at this; exact this
    apply ptaRel_plain
    split
    · exact keepNav_of_cls T _ _ rfl hku
    · exact keepNav_of_cls T _ _ rfl hkb
  | none =>
  simp only []
  by_cases h4 : (t.val == ['(']) = true
  · simp only [h4, if_true]
    exact ptaRel_plain T rest _ _ (keepNav_of_cls T _ _ rfl H.cOpenParen)
  · simp only [h4]
    by_cases h5 : (t.val == [')']) = true
    · simp only [h5, if_true]
      cases st.stack with
      | nil => exact rfl
      | cons id stack => exact ptaRel_plain T rest _ _ (keepNav_of_cls T _ _ rfl H.cCloseParen)
    · simp only [h5]
      by_cases h6 : (t.val == quote) = true
      · simp only [h6, if_true]
        have hcp := classifyPredefined_filter T P H rest (hadj h6)
        cases hc : classifyPredefined T P rest with
        | error e => simp only [hc] at hcp; simp only [hcp]; exact rfl
        | ok w =>
          cases w with
          | none =>
            simp only [hc] at hcp; simp only [hcp]
            exact ⟨_, rfl, rfl, rfl, keepNav_of_cls T _ _ rfl H.cTic, rfl⟩
          | some kw =>
            obtain ⟨k, tok⟩ := kw
            simp only [hc] at hcp; simp only [hcp.1]
            exact ⟨_, rfl, rfl, rfl, keepNav_of_cls T _ _ rfl H.cTic, rfl, hcp.2.1, hcp.2.2⟩
      · simp only [h6]
        by_cases h7 : isCharLitValue t.val = true
        · simp only [h7, if_true]
          exact ptaRel_plain T rest _ _ (keepNav_of_cls T _ _ rfl H.cCharLit)
        · simp only [h7]
          exact ptaRel_plain T rest _ _ hk

end Vsgm.Classify

namespace Vsgm.Classify
open Vsgm

theorem ptaOther_kept (T : ClassTables) (P : PostTables) (H : PostHyps T P) (d : List CTok) (t : CTok)
    (rest : List CTok) (st : ParenState) (hk : keepNav T t = true)
    (hq : d.filter (keepNav T) = [] → quietPta P t) :
    PtaStepRel T rest (ptaOther T P d t rest st)
      (ptaOther T P (d.filter (keepNav T)) t (rest.filter (keepNav T)) st) := by
  unfold ptaOther
  simp only [pure, Except.pure, bind, Except.bind]
  by_cases h1 : (t.val == ['+']) = true
  · have hd : d.filter (keepNav T) ≠ [] := by
      intro h; have := (hq h).2.2.1; rw [h1] at this; cases this
    simp only [h1, if_true, prevIs_filter T _ d t rest hk H.eKeyword hd]
    apply ptaRel_plain
    split
    · exact hk
    · exact keepNav_of_cls T _ _ rfl H.cPlus
  · simp only [h1]
    by_cases h2 : (t.val == ['-']) = true
    · have hd : d.filter (keepNav T) ≠ [] := by
        intro h; have := (hq h).2.2.2; rw [h2] at this; cases this
      simp only [h2, if_true, prevIs_filter T _ d t rest hk H.eKeyword hd]
      apply ptaRel_plain
      split
      · exact hk
      · exact keepNav_of_cls T _ _ rfl H.cMinus
    · simp only [h2]
      by_cases h3 : (t.val == ['*']) = true
      · simp only [h3, if_true]; exact ptaRel_plain T rest _ _ (keepNav_of_cls T _ _ rfl H.cStar)
      · simp only [h3]
        by_cases h4 : (t.val == ['/']) = true
        · simp only [h4, if_true]; exact ptaRel_plain T rest _ _ (keepNav_of_cls T _ _ rfl H.cSlash)
        · simp only [h4]
          by_cases h5 : (t.val == ['*', '*']) = true
          · simp only [h5, if_true]; exact ptaRel_plain T rest _ _ (keepNav_of_cls T _ _ rfl H.cDoubleStar)
          · simp only [h5]
            by_cases h6 : (t.val == ['(']) = true
            · simp only [h6, if_true]
              exact ptaRel_plain T rest _ _ ((keepNav_congr T _ t rfl).trans hk)
            · simp only [h6]
              by_cases h7 : (t.val == [')']) = true
              · simp only [h7, if_true]
                cases st.stack with
                | nil => exact rfl
                | cons id stack => exact ptaRel_plain T rest _ _ ((keepNav_congr T _ t rfl).trans hk)
              · simp only [h7]
                exact ptaRel_plain T rest _ _ hk

theorem ptaStep_kept (T : ClassTables) (P : PostTables) (H : PostHyps T P) (d : List CTok) (t : CTok)
    (rest : List CTok) (st : ParenState) (hk : keepNav T t = true)
    (hq : d.filter (keepNav T) = [] → quietPta P t)
    (hadj : (t.val == quote) = true → ∀ n, rest.head? = some n → keepNav T n = true) :
    PtaStepRel T rest (ptaStep T P d t rest st)
      (ptaStep T P (d.filter (keepNav T)) t (rest.filter (keepNav T)) st) := by
  unfold ptaStep
  by_cases h1 : isInst t P.dcText = true
  · simp only [h1, if_true]; exact ptaRel_plain T rest _ _ hk
  · simp only [h1]
    by_cases h2 : isInst t P.groupA = true
    · simp only [h2, if_true]; exact ptaRel_plain T rest _ _ hk
    · simp only [h2]
      by_cases h3 : isInst t P.attrAttribute = true
      · simp only [h3, if_true]
        apply ptaRel_plain
        split
        · exact keepNav_of_cls T _ _ rfl H.cPredefKeyword
        · exact hk
      · simp only [h3]
        by_cases h4 : isInst t P.todo = true
        · simp only [h4, if_true]; exact ptaTodo_kept T P H d t rest st hk hq hadj
        · simp only [h4]; exact ptaOther_kept T P H d t rest st hk hq

theorem skipNoOp_set (T : ClassTables) (l : List CTok) (k : Nat) (tok : CTok) (h : SkipNoOp T l)
    (hk : keepNav T tok = true) : SkipNoOp T (l.set k tok) := by
  intro x hx hs
  rcases List.mem_or_eq_of_mem_set hx with hm | rfl
  · exact h x hm hs
  · rw [hk] at hs; cases hs

theorem ticAdj_tail (T : ClassTables) (t : CTok) (rest : List CTok) (h : TicAdj T (t :: rest)) : TicAdj T rest := by
  cases rest with
  | nil => trivial
  | cons n r => exact h.2

theorem ticAdj_head (T : ClassTables) (t : CTok) (rest : List CTok) (h : TicAdj T (t :: rest))
    (hq : (t.val == quote) = true) (hk : keepNav T t = true) : ∀ n, rest.head? = some n → keepNav T n = true := by
  cases rest with
  | nil => intro n hn; simp at hn
  | cons m r => intro n hn; simp at hn; subst hn; exact h.1 hq hk

/-- a write of a kept token over a kept token of the same value keeps the adjacency guard -/
theorem ticAdj_set (T : ClassTables) (l : List CTok) (k : Nat) (old tok : CTok) (h : TicAdj T l)
    (hold : l[k]? = some old) (hko : keepNav T old = true) (hk : keepNav T tok = true) (hv : tok.val = old.val) :
    TicAdj T (l.set k tok) := by
  induction l generalizing k with
  | nil => trivial
  | cons a l ih =>
    cases l with
    | nil => cases k <;> trivial
    | cons b l =>
      cases k with
      | zero =>
        simp at hold; subst hold
        exact ⟨fun hq _ => h.1 (by rw [← hv]; exact hq) hko, h.2⟩
      | succ k =>
        simp only [List.set_cons_succ]
        have ih' := ih k h.2 (by simpa using hold)
        cases k with
        | zero =>
          simp at hold; subst hold
          exact ⟨fun _ _ => hk, ih'⟩
        | succ k => exact ⟨h.1, ih'⟩

end Vsgm.Classify

namespace Vsgm.Classify
open Vsgm

theorem skipNoOp_tail (T : ClassTables) (t : CTok) (rest : List CTok) (h : SkipNoOp T (t :: rest)) :
    SkipNoOp T rest := fun x hx => h x (List.mem_cons_of_mem _ hx)

theorem ptaGo_cons (T : ClassTables) (P : PostTables) (d : List CTok) (t : CTok) (rest : List CTok) (st : ParenState) :
    ptaGo T P d (t :: rest) st =
      match ptaStep T P d t rest st with
      | .error e => .error e
      | .ok o => ptaGo T P (d ++ [o.tok]) (applyWrite rest o.write) o.st := by
  rw [ptaGo]
  cases ptaStep T P d t rest st <;> rfl

theorem ptaGo_filter_aux (T : ClassTables) (P : PostTables) (H : PostHyps T P) (n : Nat) :
    ∀ (rest d : List CTok) (st : ParenState), rest.length = n → SkipNoOp T rest → TicAdj T rest →
      (d.filter (keepNav T) = [] → ∀ t, (rest.filter (keepNav T)).head? = some t → quietPta P t) →
      match ptaGo T P d rest st with
      | .error e => ptaGo T P (d.filter (keepNav T)) (rest.filter (keepNav T)) st = .error e
      | .ok r => ptaGo T P (d.filter (keepNav T)) (rest.filter (keepNav T)) st = .ok (r.filter (keepNav T)) := by
  induction n with
  | zero =>
    intro rest d st hlen _ _ _
    have : rest = [] := List.length_eq_zero_iff.1 hlen
    subst this
    simp [ptaGo]
  | succ n ih =>
    intro rest d st hlen hno hadj hq
    cases rest with
    | nil => simp at hlen
    | cons t rest =>
      have hlen' : rest.length = n := by simpa using hlen
      by_cases hk : keepNav T t = true
      · rw [List.filter_cons_of_pos hk] at hq ⊢
        have hstep := ptaStep_kept T P H d t rest st hk (fun h => hq h t rfl)
          (fun hqv => ticAdj_head T t rest hadj hqv hk)
        simp only [ptaGo_cons]
        unfold PtaStepRel at hstep
        cases hs : ptaStep T P d t rest st with
        | error e =>
          simp only [hs] at hstep
          simp only [hstep]
        | ok o =>
          simp only [hs] at hstep
          obtain ⟨o', ho', htok, hst, hkt, hw⟩ := hstep
          simp only [ho', htok, hst]
          have hfd : (d ++ [o.tok]).filter (keepNav T) = d.filter (keepNav T) ++ [o.tok] := by
            simp [List.filter_append, hkt]
          cases hwr : o.write with
          | none =>
            simp only [hwr] at hw
            simp only [hw, applyWrite]
            have := ih rest (d ++ [o.tok]) o.st hlen' (skipNoOp_tail T t rest hno) (ticAdj_tail T t rest hadj)
              (by intro h; rw [hfd] at h; simp at h)
            rw [hfd] at this
            exact this
          | some kw =>
            obtain ⟨k, tok⟩ := kw
            simp only [hwr] at hw
            obtain ⟨hw', hktok, old, hold, hkold, hval⟩ := hw
            simp only [hw', applyWrite]
            have hfs := filter_set_kept (keepNav T) rest k old tok hold hkold hktok
            have := ih (rest.set k tok) (d ++ [o.tok]) o.st (by simpa using hlen')
              (skipNoOp_set T rest k tok (skipNoOp_tail T t rest hno) hktok)
              (ticAdj_set T rest k old tok (ticAdj_tail T t rest hadj) hold hkold hktok hval)
              (by intro h; rw [hfd] at h; simp at h)
            rw [hfd, hfs] at this
            exact this
      · have hk' : keepNav T t = false := by simpa using hk
        rw [List.filter_cons_of_neg (by simpa using hk)] at hq ⊢
        obtain ⟨o, ho, htok, hwr, hst⟩ := ptaStep_skip T P H d t rest st hk'
          (hno t List.mem_cons_self hk')
        simp only [ptaGo_cons, ho, htok, hwr, hst, applyWrite]
        have hfd : (d ++ [t]).filter (keepNav T) = d.filter (keepNav T) := by
          simp [List.filter_append, hk']
        have := ih rest (d ++ [t]) st hlen' (skipNoOp_tail T t rest hno) (ticAdj_tail T t rest hadj)
          (by intro h; rw [hfd] at h; exact hq h)
        rw [hfd] at this
        exact this

/-- `post_token_assignments` commutes with dropping the skipped tokens (errors included), under
    the three guards -/
theorem postTokenAssignments_filter (T : ClassTables) (P : PostTables) (H : PostHyps T P) (l : List CTok)
    (hno : SkipNoOp T l) (hadj : TicAdj T l)
    (hq : ∀ t, (l.filter (keepNav T)).head? = some t → quietPta P t) :
    postTokenAssignments T P (l.filter (keepNav T)) = (postTokenAssignments T P l).map (·.filter (keepNav T)) := by
  unfold postTokenAssignments
  have := ptaGo_filter_aux T P H l.length l [] {} rfl hno hadj (fun _ => hq)
  cases h : ptaGo T P [] l {} with
  | error e => simp only [h] at this; simpa [Except.map] using this
  | ok r => simp only [h] at this; simpa [Except.map] using this

end Vsgm.Classify

namespace Vsgm.Classify
open Vsgm

/-! ### the four passes together -/

/-- the first kept token is one that `post_token_assignments` leaves alone and that never asks
    for the token in front of it (in an accepted file: `library`, `use`, `entity`, … keywords) -/
def FirstPlain (P : PostTables) (t : CTok) : Prop :=
  quietPta P t ∧ isInst t P.todo = false ∧ isInst t P.attrAttribute = false ∧ opVal t.val = false
    ∧ (t.cls == P.openParenExact) = false

theorem ptaStep_plain (T : ClassTables) (P : PostTables) (d : List CTok) (t : CTok) (r : List CTok)
    (st : ParenState) (hp : FirstPlain P t) :
    ∃ o, ptaStep T P d t r st = .ok o ∧ o.tok = t := by
  obtain ⟨_, h1, h2, hop, _⟩ := hp
  unfold ptaStep
  by_cases ha : isInst t P.dcText = true
  · simp only [ha, if_true]; exact ⟨_, rfl, rfl⟩
  · by_cases hb : isInst t P.groupA = true
    · simp only [ha, hb, if_true]; exact ⟨_, rfl, rfl⟩
    · simp only [ha, hb, h1, h2, Bool.false_eq_true, if_false]
      simp only [opVal, Bool.or_eq_false_iff] at hop
      obtain ⟨⟨⟨⟨⟨⟨a1, a2⟩, a3⟩, a4⟩, a5⟩, a6⟩, a7⟩ := hop
      simp [ptaOther, a1, a2, a3, a4, a5, a6, a7, pure, Except.pure]

theorem ptaGo_prefix (T : ClassTables) (P : PostTables) (n : Nat) :
    ∀ (rest d : List CTok) (st : ParenState) (r : List CTok), rest.length = n →
      ptaGo T P d rest st = .ok r → d <+: r := by
  induction n with
  | zero =>
    intro rest d st r hlen h
    have : rest = [] := List.length_eq_zero_iff.1 hlen
    subst this
    simp [ptaGo] at h; subst h; exact List.prefix_refl _
  | succ n ih =>
    intro rest d st r hlen h
    cases rest with
    | nil => simp at hlen
    | cons t rest =>
      rw [ptaGo_cons] at h
      cases hs : ptaStep T P d t rest st with
      | error e => simp [hs] at h
      | ok o =>
        simp only [hs] at h
        have := ih _ _ _ _ (by simp [applyWrite_length]; simpa using hlen) h
        exact (List.prefix_append d [o.tok]).trans this

theorem hierGo_head_cls (P : PostTables) (t : CTok) (rest : List CTok) (h : Int) :
    ∃ t', (hierGo P (t :: rest) h).head? = some t' ∧ t'.cls = t.cls := by
  simp only [hierGo]
  refine ⟨_, rfl, ?_⟩
  split <;> split <;> split <;> split <;> rfl

/-- **the four post passes commute with dropping the tokens the navigation skips** (errors
    included), under the three guards -/
theorem postPasses_filter (T : ClassTables) (P : PostTables) (H : PostHyps T P) (l : List CTok)
    (hno : SkipNoOp T l) (hadj : TicAdj T l)
    (hq : ∀ t, (l.filter (keepNav T)).head? = some t → FirstPlain P t) :
    postPasses T P (l.filter (keepNav T)) = (postPasses T P l).map (·.filter (keepNav T)) := by
  unfold postPasses
  have h1 := postTokenAssignments_filter T P H l hno hadj (fun t ht => (hq t ht).1)
  rw [h1]
  cases ha : postTokenAssignments T P l with
  | error e => simp [Except.map, bind, Except.bind]
  | ok a =>
    simp only [Except.map, bind, Except.bind]
    have hh : setTokenHierarchy P (a.filter (keepNav T)) = (setTokenHierarchy P a).filter (keepNav T) :=
      (hierGo_filter T P H a 0).symm
    rw [hh]
    -- the first kept token after the first two passes still has the class it had
    have hq3 : quietTodo P ((setTokenHierarchy P a).filter (keepNav T)).head? := by
      intro t ht
      have hfa : postTokenAssignments T P (l.filter (keepNav T)) = .ok (a.filter (keepNav T)) := by
        rw [h1, ha]; rfl
      rw [show (setTokenHierarchy P a).filter (keepNav T) = hierGo P (a.filter (keepNav T)) 0 from
        hierGo_filter T P H a 0] at ht
      cases hl : l.filter (keepNav T) with
      | nil =>
        rw [hl] at hfa
        simp only [postTokenAssignments, ptaGo, Except.ok.injEq] at hfa
        rw [← hfa] at ht
        simp [hierGo] at ht
      | cons t0 rest0 =>
        have hp := hq t0 (by rw [hl]; rfl)
        rw [hl] at hfa
        unfold postTokenAssignments at hfa
        rw [ptaGo_cons] at hfa
        obtain ⟨o, ho, htok⟩ := ptaStep_plain T P [] t0 rest0 {} hp
        simp only [ho, htok, List.nil_append] at hfa
        have hpre := ptaGo_prefix T P _ _ _ _ _ rfl hfa
        obtain ⟨s, hs⟩ := hpre
        rw [← hs] at ht
        obtain ⟨t', ht', hc⟩ := hierGo_head_cls P t0 s 0
        simp only [List.singleton_append] at ht
        rw [ht'] at ht
        cases ht
        rw [hc]; exact hp.2.2.2.2
    rw [← setTodoTokens_filter T P H _ hq3]
    exact setAggregateTokens_filter T P H _

end Vsgm.Classify

namespace Vsgm.Classify
open Vsgm

/-! ### a structurally recursive twin of `ptaGo` (so that `decide` can run the passes) -/

def ptaGoF (T : ClassTables) (P : PostTables) : Nat → List CTok → List CTok → ParenState → Except PyErr (List CTok)
  | _, d, [], _ => .ok d
  | 0, d, _ :: _, _ => .ok d
  | n + 1, d, t :: rest, st =>
    match ptaStep T P d t rest st with
    | .error e => .error e
    | .ok o => ptaGoF T P n (d ++ [o.tok]) (applyWrite rest o.write) o.st

theorem ptaGo_eq_fuel (T : ClassTables) (P : PostTables) (n : Nat) :
    ∀ (rest d : List CTok) (st : ParenState), rest.length = n → ptaGo T P d rest st = ptaGoF T P n d rest st := by
  induction n with
  | zero =>
    intro rest d st h
    have : rest = [] := List.length_eq_zero_iff.1 h
    subst this; simp [ptaGo, ptaGoF]
  | succ n ih =>
    intro rest d st h
    cases rest with
    | nil => simp at h
    | cons t rest =>
      rw [ptaGo_cons]
      simp only [ptaGoF]
      cases hs : ptaStep T P d t rest st with
      | error e => rfl
      | ok o => exact ih _ _ _ (by simp [applyWrite_length]; simpa using h)

/-- `postPasses` with the fuelled loop -/
def postPassesF (T : ClassTables) (P : PostTables) (l : List CTok) : Except PyErr (List CTok) :=
  match ptaGoF T P l.length [] l {} with
  | .error e => .error e
  | .ok a => setAggregateTokens P (setTodoTokens T P (setTokenHierarchy P a))

theorem postPasses_eq_F (T : ClassTables) (P : PostTables) (l : List CTok) :
    postPasses T P l = postPassesF T P l := by
  unfold postPasses postPassesF postTokenAssignments
  rw [ptaGo_eq_fuel T P l.length l [] {} rfl]
  cases ptaGoF T P l.length [] l {} <;> rfl

end Vsgm.Classify
