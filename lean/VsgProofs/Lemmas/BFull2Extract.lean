/-
  WP2 — slice exactness of the `…at_beginning_of_line…` extractor loop for ANY candidate list (generic token
  type, fresh index): covers the three variants of `BFull2/Extract2.lean`.
-/
import VsgModel.BFull2.Extract2
import VsgProofs.Lemmas.TokenMap
namespace Vsgm.TM.Lemmas
open Vsgm Vsgm.TM

variable {α : Type}

theorem isAt_fresh_lt (uid : α → Option Key) (f : List α) (u : Option Key) (i : Int)
    (h : (processTokens uid f).isAt u i = true) : 0 ≤ i ∧ i.toNat < f.length := by
  have h0 := isAt_nonneg _ _ _ h
  refine ⟨h0, ?_⟩
  unfold Index.isAt at h
  cases u with
  | none => simp at h
  | some k =>
    simp only at h
    cases hf : (processTokens uid f).dmap.find k with
    | none => simp [hf] at h
    | some l =>
      simp only [hf] at h
      unfold memInt at h
      simp only [Bool.and_eq_true, decide_eq_true_eq, List.contains_iff_mem] at h
      apply fresh_get_lt uid f (some k) i.toNat
      unfold Index.get Map.get
      simp only [hf, Option.getD_some]
      exact h.2

/-- **the loop body shared by the four `get_tokens_at_beginning_of_line_matching*` extractors**, any candidate
    list, fresh index: every region is the slice of the file that starts where recorded — `[token]`, or
    `[whitespace, token]` starting one position earlier — and the recorded line is the line of the matched token -/
theorem tokensAtBolOf_sliceExact (uid : α → Option Key) (f : List α) (idxs : List Nat) (r : List (Toi α))
    (h : tokensAtBolOf f (processTokens uid f) idxs = .ok r) :
    ∀ t ∈ r, t.Exact f ∧ ∃ i ∈ idxs, t.line = lineNo uid f i ∧
      ((t.start = some (i : Int) ∧ t.toks.length = 1) ∨ (t.start = some ((i : Int) - 1) ∧ t.toks.length ≤ 2)) := by
  intro t ht
  unfold tokensAtBolOf at h
  obtain ⟨i, hi, hb⟩ := mem_filterMapE _ _ _ h t ht
  unfold bolBody at hb
  split at hb
  · simp only [bind_ok, pure_ok, Option.some.injEq] at hb
    obtain ⟨line, hl, x, hx, rfl⟩ := hb
    refine ⟨exact_of_single f _ i x rfl (pyIdx_nat_ok f i x hx) rfl, i, hi, ?_, Or.inl ⟨rfl, rfl⟩⟩
    simpa using lineOf_fresh uid f i line hl
  · split at hb
    · rename_i _ hc
      simp only [bind_ok, pure_ok, Option.some.injEq] at hb
      obtain ⟨line, hl, rfl⟩ := hb
      simp only [Bool.and_eq_true] at hc
      obtain ⟨h1, h1lt⟩ := isAt_fresh_lt uid f _ _ hc.2
      obtain ⟨h2, _⟩ := isAt_fresh_lt uid f _ _ hc.1
      refine ⟨exact_of_slice f _ ((i : Int) - 1) ((i : Int) + 1) rfl h1 (by omega) rfl, i, hi, ?_, Or.inr ⟨rfl, ?_⟩⟩
      · simpa using lineOf_fresh uid f i line hl
      · simp only [pySlice, List.length_take, List.length_drop]
        unfold pyNorm
        have e1 : ¬ ((i : Int) - 1 < 0) := by omega
        have e2 : ¬ ((i : Int) + 1 < 0) := by omega
        simp only [e1, e2, if_false]
        omega
    · simp [pure, Except.pure] at hb

end Vsgm.TM.Lemmas
