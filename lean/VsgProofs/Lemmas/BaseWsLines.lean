/-
  Lines of a token list (split at carriage returns) and the locality of an edit that touches no line break:
  replacing a CR-free stretch by another CR-free stretch changes exactly one line.
  `linesOf` is proved equal to the trace checker's `Verdict.lineSplit`.
-/
import VsgModel.Check.Verdict
import VsgModel.Engine.Relations
namespace Vsgm.Base
open Vsgm

/-- first line and remaining lines -/
def splitL : List Tok → List Tok × List (List Tok)
  | [] => ([], [])
  | t :: r => if t.isCr then ([], (splitL r).1 :: (splitL r).2) else (t :: (splitL r).1, (splitL r).2)

def linesOf (l : List Tok) : List (List Tok) := (splitL l).1 :: (splitL l).2

theorem lineSplit_eq (l : List Tok) (acc : List (List Tok)) (cur : List Tok) :
    Verdict.lineSplit l acc cur = acc.reverse ++ ((cur.reverse ++ (splitL l).1) :: (splitL l).2) := by
  induction l generalizing acc cur with
  | nil => simp [Verdict.lineSplit, splitL]
  | cons t r ih =>
    by_cases hc : t.isCr = true
    · simp [Verdict.lineSplit, splitL, hc, ih]
    · simp [Verdict.lineSplit, splitL, hc, ih]

/-- the checker's line split is `linesOf` -/
theorem lineSplit_linesOf (l : List Tok) : Verdict.lineSplit l [] [] = linesOf l := by
  rw [lineSplit_eq]; simp [linesOf]

theorem splitL_crfree_append (X B : List Tok) (hX : ∀ t ∈ X, t.isCr = false) :
    splitL (X ++ B) = (X ++ (splitL B).1, (splitL B).2) := by
  induction X with
  | nil => simp
  | cons t X ih =>
    have ht : t.isCr = false := hX t (List.mem_cons_self ..)
    have := ih (fun x hx => hX x (List.mem_cons_of_mem _ hx))
    simp [splitL, ht, this]

theorem linesOf_cons_cr (t : Tok) (r : List Tok) (hc : t.isCr = true) : linesOf (t :: r) = [] :: linesOf r := by
  simp [linesOf, splitL, hc]

theorem linesOf_cons_noncr (t : Tok) (r h0 : List Tok) (tl : List (List Tok)) (hc : t.isCr = false)
    (h : linesOf r = h0 :: tl) : linesOf (t :: r) = (t :: h0) :: tl := by
  simp only [linesOf, List.cons.injEq] at h
  simp [linesOf, splitL, hc, h.1, h.2]

/-- replacing a CR-free stretch `X` by a CR-free stretch `X'` behind `A`: one line differs, the one with
    index `number of line breaks in A` -/
theorem lines_local (A X X' B : List Tok) (hX : ∀ t ∈ X, t.isCr = false) (hX' : ∀ t ∈ X', t.isCr = false) :
    ∃ pre ln ln' post, linesOf (A ++ X ++ B) = pre ++ [ln] ++ post ∧ linesOf (A ++ X' ++ B) = pre ++ [ln'] ++ post ∧
      pre.length = (crSeq A).length ∧ (X = X' → ln = ln') := by
  induction A with
  | nil =>
    refine ⟨[], X ++ (splitL B).1, X' ++ (splitL B).1, (splitL B).2, ?_, ?_, rfl, ?_⟩
    · simp [linesOf, splitL_crfree_append X B hX]
    · simp [linesOf, splitL_crfree_append X' B hX']
    · intro h; rw [h]
  | cons t A ih =>
    obtain ⟨pre, ln, ln', post, h1, h2, h3, h4⟩ := ih
    by_cases hc : t.isCr = true
    · refine ⟨[] :: pre, ln, ln', post, ?_, ?_, ?_, h4⟩
      · rw [List.cons_append, List.cons_append, linesOf_cons_cr _ _ hc, h1]; simp
      · rw [List.cons_append, List.cons_append, linesOf_cons_cr _ _ hc, h2]; simp
      · have : (crSeq (t :: A)).length = (crSeq A).length + 1 := by
          simp [crSeq, hc]
        rw [this, List.length_cons, h3]
    · have hc' : t.isCr = false := by simpa using hc
      have hcr : (crSeq (t :: A)).length = (crSeq A).length := by
        simp [crSeq, hc']
      cases pre with
      | nil =>
        refine ⟨[], t :: ln, t :: ln', post, ?_, ?_, ?_, ?_⟩
        · rw [List.cons_append, List.cons_append, linesOf_cons_noncr t _ ln post hc' (by simpa using h1)]; simp
        · rw [List.cons_append, List.cons_append, linesOf_cons_noncr t _ ln' post hc' (by simpa using h2)]; simp
        · rw [hcr]; exact h3
        · intro h; rw [h4 h]
      | cons p0 pre' =>
        refine ⟨(t :: p0) :: pre', ln, ln', post, ?_, ?_, ?_, h4⟩
        · rw [List.cons_append, List.cons_append, linesOf_cons_noncr t _ p0 (pre' ++ [ln] ++ post) hc' (by simpa using h1)]; simp
        · rw [List.cons_append, List.cons_append, linesOf_cons_noncr t _ p0 (pre' ++ [ln'] ++ post) hc' (by simpa using h2)]; simp
        · rw [hcr]; simpa using h3

theorem changedLines_same (x : List (List Tok)) (i : Nat) : Verdict.changedLines x x i = [] := by
  induction x generalizing i with
  | nil => rfl
  | cons a x ih => simp [Verdict.changedLines, ih]

theorem changedLines_local (pre post : List (List Tok)) (ln ln' : List Tok) (i : Nat) :
    Verdict.changedLines (pre ++ [ln] ++ post) (pre ++ [ln'] ++ post) i = if ln == ln' then [] else [i + pre.length] := by
  induction pre generalizing i with
  | nil =>
    simp only [List.nil_append, List.singleton_append, Verdict.changedLines, changedLines_same, List.append_nil,
      List.length_nil, Nat.add_zero]
  | cons p pre ih =>
    simp only [List.cons_append, Verdict.changedLines, beq_self_eq_true, if_true, List.nil_append]
    have := ih (i + 1)
    simp only [List.append_assoc, List.singleton_append] at this ⊢
    rw [this]
    simp only [List.length_cons]
    split <;> simp <;> omega

end Vsgm.Base
