/- `Nodup` of a long list of strings in linear kernel time: strict lexicographic sortedness of the code points -/
namespace Vsgm.Lemmas

def ltL : List Nat → List Nat → Bool
  | [], [] => false
  | [], _ :: _ => true
  | _ :: _, [] => false
  | a :: as, b :: bs => decide (a < b) || (a == b && ltL as bs)

theorem ltL_irrefl : ∀ l, ltL l l = false
  | [] => rfl
  | a :: as => by simp [ltL, ltL_irrefl as]

theorem ltL_trans : ∀ a b c, ltL a b = true → ltL b c = true → ltL a c = true
  | [], [], _, h, _ => by simp [ltL] at h
  | [], _ :: _, [], _, h => by simp [ltL] at h
  | [], _ :: _, _ :: _, _, _ => by simp [ltL]
  | _ :: _, [], _, h, _ => by simp [ltL] at h
  | _ :: _, _ :: _, [], _, h => by simp [ltL] at h
  | x :: xs, y :: ys, z :: zs, h1, h2 => by
    simp only [ltL, Bool.or_eq_true, decide_eq_true_eq, Bool.and_eq_true, beq_iff_eq] at h1 h2 ⊢
    rcases h1 with h1 | ⟨e1, h1⟩
    · rcases h2 with h2 | ⟨e2, _⟩
      · left; omega
      · left; omega
    · rcases h2 with h2 | ⟨e2, h2⟩
      · left; omega
      · right; exact ⟨by omega, ltL_trans xs ys zs h1 h2⟩

def sortedL : List (List Nat) → Bool
  | [] => true
  | [_] => true
  | a :: b :: r => ltL a b && sortedL (b :: r)

theorem sortedL_head_lt : ∀ (a : List Nat) (l : List (List Nat)), sortedL (a :: l) = true → ∀ x ∈ l, ltL a x = true
  | _, [], _, x, hx => by cases hx
  | a, b :: r, h, x, hx => by
    simp only [sortedL, Bool.and_eq_true] at h
    rcases List.mem_cons.mp hx with e | hx'
    · subst e; exact h.1
    · exact ltL_trans a b x h.1 (sortedL_head_lt b r h.2 x hx')

theorem sortedL_tail : ∀ (a : List Nat) (l : List (List Nat)), sortedL (a :: l) = true → sortedL l = true
  | _, [], _ => rfl
  | _, _ :: _, h => by simp only [sortedL, Bool.and_eq_true] at h; exact h.2

theorem sortedL_nodup : ∀ l, sortedL l = true → l.Nodup
  | [], _ => List.nodup_nil
  | a :: l, h => by
    rw [List.nodup_cons]
    refine ⟨?_, sortedL_nodup l (sortedL_tail a l h)⟩
    intro hm
    have := sortedL_head_lt a l h a hm
    rw [ltL_irrefl] at this
    cases this

/-- strings with strictly increasing code-point lists are pairwise distinct -/
theorem nodup_of_sorted_codes (ids : List String)
    (h : sortedL (ids.map fun s => s.toList.map Char.toNat) = true) : ids.Nodup := by
  have hn := sortedL_nodup _ h
  clear h
  induction ids with
  | nil => exact List.nodup_nil
  | cons a l ih =>
    rw [List.map_cons, List.nodup_cons] at hn
    rw [List.nodup_cons]
    exact ⟨fun hm => hn.1 (List.mem_map_of_mem hm), ih hn.2⟩

end Vsgm.Lemmas
