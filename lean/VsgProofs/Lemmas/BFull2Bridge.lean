/-
  WP2 — bridge between the index-based transcription of the `…at_beginning_of_line…` extractors and a
  position-by-position description of the same regions on the token list itself (fresh index).
-/
import VsgModel.BFull2.Indent
import VsgProofs.Lemmas.TokenMap
namespace Vsgm.BFull2
open Vsgm Vsgm.TM Vsgm.TM.Lemmas

/-- (as `C18.processTokens_plain`; restated here because the property files import this one) -/
theorem processTokens_plain' {α : Type} (uid : α → Option Key) (f : List α) (k : Key) (hk : Plain k) (j : Nat) :
    j ∈ (processTokens uid f).dmap.get k ↔ ∃ t, f[j]? = some t ∧ uid t = some k := by
  rw [processTokens_get, mem_specFrom]
  constructor
  · rintro ⟨n, u, rfl, hn, hc⟩
    rw [List.getElem?_map] at hn
    cases hf : f[n]? with
    | none => simp [hf] at hn
    | some t =>
      simp [hf] at hn; subst hn
      refine ⟨t, by simpa using hf, ?_⟩
      rw [contrib_plain k hk] at hc
      by_cases e : uid t = some k
      · exact e
      · simp [e] at hc
  · rintro ⟨t, ht, hu⟩
    refine ⟨j, uid t, by omega, by simp [List.getElem?_map, ht], ?_⟩
    rw [contrib_plain k hk, hu]; simp

variable (uid : Tok → Option Key)

def isCrU (t : Tok) : Bool := uid t == some crKey

/-- the guard on a rule's `lTokens`: distinct ids, none of them an alias key of `process_tokens`, none
    of them whitespace or carriage return (table fact for every rule: `indentRule_csOk`) -/
structure CsOk (cs : List Cls) : Prop where
  nodup : (cs.map (·.uid)).Nodup
  plain : ∀ c ∈ cs, ∃ k, c.uid = some k ∧ Plain k ∧ k ≠ wsKey ∧ k ≠ crKey

/-- the token's class is one of `lTokens` -/
def matchB (cs : List Cls) (t : Tok) : Bool := cs.any (fun c => c.uid == uid t)

/-! ### `is_token_at_index` on a fresh index -/

theorem isAt_fresh (f : List Tok) (k : Key) (hk : Plain k) (j : Int) :
    (processTokens uid f).isAt (some k) j = true ↔ 0 ≤ j ∧ ∃ t, f[j.toNat]? = some t ∧ uid t = some k := by
  have hg := processTokens_get uid f k
  have hf := processTokens_find uid f k
  have hm := processTokens_plain' uid f k hk
  unfold Index.isAt
  simp only
  rw [hf]
  by_cases he : specFrom k 0 (f.map uid) = []
  · simp only [he, if_true]
    constructor
    · intro h; cases h
    · rintro ⟨_, t, ht, hu⟩
      have := (hm j.toNat).mpr ⟨t, ht, hu⟩
      rw [hg, he] at this; cases this
  · simp only [he, if_false]
    unfold memInt
    simp only [Bool.and_eq_true, decide_eq_true_eq, List.contains_iff_mem]
    rw [← hg, hm]

theorem isAt_fresh_nat (f : List Tok) (k : Key) (hk : Plain k) (j : Nat) :
    (processTokens uid f).isAt (some k) (j : Int) = true ↔ ∃ t, f[j]? = some t ∧ uid t = some k := by
  rw [isAt_fresh uid f k hk]
  simp

/-! ### the candidate list -/

theorem eq_of_strict_of_mem : ∀ (a b : List Nat), a.Pairwise (· < ·) → b.Pairwise (· < ·) →
    (∀ x, x ∈ a ↔ x ∈ b) → a = b
  | [], [], _, _, _ => rfl
  | [], y :: b, _, _, h => by have := (h y).mpr (List.mem_cons_self ..); cases this
  | x :: a, [], _, _, h => by have := (h x).mp (List.mem_cons_self ..); cases this
  | x :: a, y :: b, ha, hb, h => by
    rw [List.pairwise_cons] at ha hb
    have hxy : x = y := by
      have h1 := (h x).mp (List.mem_cons_self ..)
      have h2 := (h y).mpr (List.mem_cons_self ..)
      rw [List.mem_cons] at h1 h2
      rcases h1 with h1 | h1
      · exact h1
      · rcases h2 with h2 | h2
        · exact h2.symm
        · have := hb.1 x h1; have := ha.1 y h2; omega
    subst hxy
    congr 1
    apply eq_of_strict_of_mem a b ha.2 hb.2
    intro z
    constructor
    · intro hz
      have := (h z).mp (List.mem_cons_of_mem _ hz)
      rw [List.mem_cons] at this
      rcases this with e | e
      · subst e; have := ha.1 z hz; omega
      · exact e
    · intro hz
      have := (h z).mpr (List.mem_cons_of_mem _ hz)
      rw [List.mem_cons] at this
      rcases this with e | e
      · subst e; have := hb.1 z hz; omega
      · exact e

/-- does the token at position `i` belong to `lTokens`? -/
def candB (cs : List Cls) (f : List Tok) (i : Nat) : Bool :=
  match f[i]? with
  | some t => matchB uid cs t
  | none => false

theorem mem_get_plain (f : List Tok) (c : Cls) (k : Key) (hc : c.uid = some k) (hk : Plain k) (j : Nat) :
    j ∈ (processTokens uid f).get c.uid ↔ ∃ t, f[j]? = some t ∧ uid t = some k := by
  rw [hc]
  unfold Index.get
  simp only
  exact processTokens_plain' uid f k hk j

theorem get_strict (f : List Tok) (c : Cls) (k : Key) (hc : c.uid = some k) (hk : Plain k) :
    ((processTokens uid f).get c.uid).Pairwise (· < ·) := by
  rw [hc]
  unfold Index.get
  simp only
  rw [processTokens_get]
  apply specFrom_strict
  intro u _
  rw [contrib_plain k hk]
  split <;> omega

/-- **`get_indexes_of_token_list` on a fresh index**, under `CsOk`: the positions of the tokens whose class is
    listed, ascending, each once -/
theorem idxsOfList_fresh (f : List Tok) (cs : List Cls) (hcs : CsOk cs) :
    idxsOfList (processTokens uid f) cs = (List.range f.length).filter (candB uid cs f) := by
  apply eq_of_strict_of_mem
  · -- sorted and without duplicates
    unfold idxsOfList sortNat
    have hle : List.Pairwise (fun a b => decide (a ≤ b) = true)
        ((cs.flatMap fun c => (processTokens uid f).get c.uid).mergeSort fun a b => decide (a ≤ b)) :=
      List.pairwise_mergeSort (by intro a b c; simp; omega) (by intro a b; simp; omega) _
    have hnd : ((cs.flatMap fun c => (processTokens uid f).get c.uid).mergeSort fun a b => decide (a ≤ b)).Nodup := by
      rw [(List.mergeSort_perm _ _).nodup_iff]
      unfold List.Nodup
      rw [List.pairwise_flatMap]
      constructor
      · intro c hc
        obtain ⟨k, hk, hp, _⟩ := hcs.plain c hc
        exact (get_strict uid f c k hk hp).imp (by intro a b h; omega)
      · have hn := hcs.nodup
        unfold List.Nodup at hn
        rw [List.pairwise_map] at hn
        refine hn.imp_of_mem ?_
        intro c c' hc hc' hne x hx y hy hxy
        subst hxy
        obtain ⟨k, hk, hp, _⟩ := hcs.plain c hc
        obtain ⟨k', hk', hp', _⟩ := hcs.plain c' hc'
        obtain ⟨t, ht, hu⟩ := (mem_get_plain uid f c k hk hp x).mp hx
        obtain ⟨t', ht', hu'⟩ := (mem_get_plain uid f c' k' hk' hp' x).mp hy
        rw [ht] at ht'; cases ht'
        apply hne
        rw [hk, hk', ← hu, ← hu']
    -- combine
    generalize (cs.flatMap fun c => (processTokens uid f).get c.uid).mergeSort (fun a b => decide (a ≤ b)) = l at hle hnd
    induction l with
    | nil => exact List.Pairwise.nil
    | cons a l ih =>
      rw [List.pairwise_cons] at hle ⊢
      rw [List.nodup_cons] at hnd
      refine ⟨?_, ih hle.2 hnd.2⟩
      intro b hb
      have h1 := hle.1 b hb
      simp at h1
      have : a ≠ b := by intro e; subst e; exact hnd.1 hb
      omega
  · exact List.Pairwise.filter _ List.pairwise_lt_range
  · intro j
    unfold idxsOfList sortNat
    rw [List.mem_mergeSort, List.mem_flatMap, List.mem_filter, List.mem_range]
    constructor
    · rintro ⟨c, hc, hj⟩
      obtain ⟨k, hk, hp, _⟩ := hcs.plain c hc
      obtain ⟨t, ht, hu⟩ := (mem_get_plain uid f c k hk hp j).mp hj
      have hlt : j < f.length := by
        rcases Nat.lt_or_ge j f.length with h | h
        · exact h
        · rw [List.getElem?_eq_none h] at ht; cases ht
      refine ⟨hlt, ?_⟩
      unfold candB matchB
      rw [ht]
      simp only [List.any_eq_true, beq_iff_eq]
      exact ⟨c, hc, by rw [hk, hu]⟩
    · rintro ⟨_, hj⟩
      unfold candB at hj
      cases ht : f[j]? with
      | none => simp [ht] at hj
      | some t =>
        simp only [ht, matchB, List.any_eq_true, beq_iff_eq] at hj
        obtain ⟨c, hc, hcu⟩ := hj
        obtain ⟨k, hk, hp, _⟩ := hcs.plain c hc
        exact ⟨c, hc, (mem_get_plain uid f c k hk hp j).mpr ⟨t, ht, by rw [← hcu, hk]⟩⟩


/-! ### the loop body on a fresh index: a function of the two tokens before the position -/

/-- the token `d` places before the end of the prefix -/
def back (pre : List Tok) (d : Nat) : Option Tok := if d ≤ pre.length then pre[pre.length - d]? else none

def lastCr (pre : List Tok) : Bool := match back pre 1 with | some c => isCrU uid c | none => false

/-- the whitespace token `w` when the prefix ends in `[carriage return, w]` -/
def crWs (pre : List Tok) : Option Tok :=
  match back pre 2, back pre 1 with
  | some c, some w => if isCrU uid c && isWsU uid w then some w else none
  | _, _ => none

/-- start index and tokens of the region whose matched token `x` follows `pre` -/
def regionAt (pre : List Tok) (x : Tok) : Option (Nat × List Tok) :=
  if lastCr uid pre then some (pre.length, [x])
  else match crWs uid pre with
    | some w => some (pre.length - 1, [w, x])
    | none => none

def bolAt (f : List Tok) (i : Nat) : Option (Toi Tok) :=
  match f[i]? with
  | none => none
  | some x => (regionAt uid (f.take i) x).map fun r => { start := some (r.1 : Int), line := lineNo uid f i, toks := r.2 }

theorem back_take (f : List Tok) (i d : Nat) (hi : i ≤ f.length) (hd : 1 ≤ d) :
    back (f.take i) d = if d ≤ i then f[i - d]? else none := by
  unfold back
  rw [List.length_take, Nat.min_eq_left hi]
  split
  · rw [List.getElem?_take]
    have : i - d < i := by omega
    simp [this]
  · rfl

theorem isAt_back (f : List Tok) (k : Key) (hk : Plain k) (i d : Nat) (hi : i ≤ f.length) (hd : 1 ≤ d) :
    (processTokens uid f).isAt (some k) ((i : Int) - (d : Int)) =
      (match back (f.take i) d with | some t => uid t == some k | none => false) := by
  rw [back_take f i d hi hd]
  rw [Bool.eq_iff_iff, isAt_fresh uid f k hk]
  by_cases hdi : d ≤ i
  · have e : ((i : Int) - (d : Int)).toNat = i - d := by omega
    simp only [hdi, if_true, e]
    constructor
    · rintro ⟨_, t, ht, hu⟩; simp [ht, hu]
    · intro h
      cases ht : f[i - d]? with
      | none => simp [ht] at h
      | some t => simp [ht] at h; exact ⟨by omega, t, rfl, h⟩
  · simp only [hdi, if_false]
    constructor
    · rintro ⟨h0, _⟩; omega
    · intro h; cases h

theorem lineOf_ok_of_isAt (f : List Tok) (j i : Int) (h : (processTokens uid f).isAt (some crKey) j = true) :
    (processTokens uid f).lineOf i = .ok (lineNo uid f i.toNat) := by
  cases hl : (processTokens uid f).lineOf i with
  | ok n => rw [lineOf_fresh uid f i n hl]
  | error e =>
    exfalso
    unfold Index.lineOf Index.crs at hl
    unfold Index.isAt at h
    simp only at h
    cases hf : (processTokens uid f).dmap.find crKey with
    | none => simp [hf] at h
    | some c => simp [hf, bind, Except.bind, pure, Except.pure] at hl

theorem pyIdx_nat (f : List Tok) (i : Nat) (x : Tok) (h : f[i]? = some x) : pyIdx f (i : Int) = .ok x := by
  unfold pyIdx
  have h0 : ¬ ((i : Int) < 0) := by omega
  simp [h0, h]

theorem pySlice_two (f : List Tok) (i : Nat) (w x : Tok) (hi : 1 ≤ i) (hw : f[i - 1]? = some w) (hx : f[i]? = some x) :
    pySlice f ((i : Int) - 1) ((i : Int) + 1) = [w, x] := by
  have hlt : i < f.length := by
    rcases Nat.lt_or_ge i f.length with h | h
    · exact h
    · rw [List.getElem?_eq_none h] at hx; cases hx
  have e1 : ((i : Int) - 1) = ((i - 1 : Nat) : Int) := by omega
  have e2 : ((i : Int) + 1) = ((i + 1 : Nat) : Int) := by omega
  unfold pySlice
  rw [e1, e2, pyNorm_nat, pyNorm_nat, Nat.min_eq_left (by omega), Nat.min_eq_left (by omega)]
  have e3 : i + 1 - (i - 1) = 2 := by omega
  rw [e3]
  rw [List.getElem?_eq_getElem (by omega)] at hw hx
  injection hw with hw; injection hx with hx
  rw [List.drop_eq_getElem_cons (by omega : i - 1 < f.length), List.drop_eq_getElem_cons (by omega : i - 1 + 1 < f.length)]
  have e4 : i - 1 + 1 = i := by omega
  simp only [e4, hw, hx, List.take_succ_cons, List.take_zero]

/-- **the loop body of the four extractors on a fresh index** -/
theorem bolBody_fresh (f : List Tok) (i : Nat) (hi : i < f.length) :
    bolBody f (processTokens uid f) i = .ok (bolAt uid f i) := by
  have hx := List.getElem?_eq_getElem hi
  unfold bolBody bolAt regionAt
  rw [hx]
  have a1 : (processTokens uid f).isAt (some crKey) ((i : Int) - 1) = _ := isAt_back uid f crKey plain_cr i 1 (by omega) (by omega)
  have a2 : (processTokens uid f).isAt (some crKey) ((i : Int) - 2) = _ := isAt_back uid f crKey plain_cr i 2 (by omega) (by omega)
  have a3 : (processTokens uid f).isAt (some wsKey) ((i : Int) - 1) = _ := isAt_back uid f wsKey plain_ws i 1 (by omega) (by omega)
  by_cases h1 : (processTokens uid f).isAt (some crKey) ((i : Int) - 1) = true
  · have hl := lineOf_ok_of_isAt uid f _ (i : Int) h1
    have hc : lastCr uid (f.take i) = true := by
      unfold lastCr isCrU; rw [a1] at h1; exact h1
    simp only [h1, if_true, hl, hc, bind, Except.bind, pyIdx_nat f i _ hx, pure, Except.pure, Option.map_some,
      Int.toNat_natCast, List.length_take, Nat.min_eq_left (Nat.le_of_lt hi)]
  · have hc : lastCr uid (f.take i) = false := by
      unfold lastCr isCrU; rw [a1] at h1; simpa using h1
    simp only [h1, hc, Bool.false_eq_true, if_false]
    by_cases h2 : ((processTokens uid f).isAt (some crKey) ((i : Int) - 2) && (processTokens uid f).isAt (some wsKey) ((i : Int) - 1)) = true
    · simp only [h2, if_true]
      rw [Bool.and_eq_true] at h2
      have hl := lineOf_ok_of_isAt uid f _ (i : Int) h2.1
      rw [a2] at h2; rw [a3] at h2
      obtain ⟨h21, h22⟩ := h2
      cases hb2 : back (f.take i) 2 with
      | none => simp [hb2] at h21
      | some c =>
        cases hb1 : back (f.take i) 1 with
        | none => simp [hb1] at h22
        | some w =>
          simp only [hb2, hb1] at h21 h22
          have hcw : crWs uid (f.take i) = some w := by
            unfold crWs isCrU isWsU; simp only [hb2, hb1, h21, h22, Bool.and_self, if_true]
          rw [back_take f i 1 (by omega) (by omega)] at hb1
          rw [back_take f i 2 (by omega) (by omega)] at hb2
          have hi2 : 2 ≤ i := by
            by_cases h : 2 ≤ i
            · exact h
            · simp [h] at hb2
          have hi1 : 1 ≤ i := by omega
          simp only [hi1, if_true] at hb1
          simp only [hl, hcw, bind, Except.bind, pure, Except.pure, Option.map_some, Int.toNat_natCast,
            pySlice_two f i w _ hi1 hb1 hx, List.length_take, Nat.min_eq_left (Nat.le_of_lt hi)]
          have e : ((i : Int) - 1) = ((i - 1 : Nat) : Int) := by omega
          rw [e]
    · simp only [h2, Bool.false_eq_true, if_false]
      have hcw : crWs uid (f.take i) = none := by
        rw [a2, a3] at h2
        unfold crWs isCrU isWsU
        cases hb2 : back (f.take i) 2 with
        | none => rfl
        | some c =>
          cases hb1 : back (f.take i) 1 with
          | none => rfl
          | some w =>
            simp only [hb2, hb1] at h2 ⊢
            simp only [h2, Bool.false_eq_true, if_false]
      simp [hcw, pure, Except.pure]

theorem filterMapE_ok {β γ : Type} (g : β → Except PyErr (Option γ)) (h : β → Option γ) (l : List β)
    (hg : ∀ b ∈ l, g b = .ok (h b)) : filterMapE g l = .ok (l.filterMap h) := by
  induction l with
  | nil => rfl
  | cons b bs ih =>
    have hb := hg b (List.mem_cons_self ..)
    have := ih (fun x hx => hg x (List.mem_cons_of_mem _ hx))
    unfold filterMapE
    rw [hb, this]
    cases hh : h b <;> simp [List.filterMap_cons, hh]

/-- **the loop over a candidate list** of positions of the file, fresh index -/
theorem tokensAtBolOf_fresh (f : List Tok) (idxs : List Nat) (hl : ∀ i ∈ idxs, i < f.length) :
    tokensAtBolOf f (processTokens uid f) idxs = .ok (idxs.filterMap (bolAt uid f)) :=
  filterMapE_ok _ _ _ (fun i hi => bolBody_fresh uid f i (hl i hi))

theorem tokensAtBolMatching_eq (f : List Tok) (ix : Index) (cs : List Cls) :
    tokensAtBolMatching f ix cs = tokensAtBolOf f ix (idxsOfList ix cs) := rfl

/-- **get_tokens_at_beginning_of_line_matching on a fresh index**: position by position -/
theorem tokensAtBolMatching_fresh (f : List Tok) (cs : List Cls) (hcs : CsOk cs) :
    tokensAtBolMatching f (processTokens uid f) cs =
      .ok (((List.range f.length).filter (candB uid cs f)).filterMap (bolAt uid f)) := by
  rw [tokensAtBolMatching_eq, tokensAtBolOf_fresh uid f _ (fresh_idxsOfList_lt uid f cs), idxsOfList_fresh uid f cs hcs]

end Vsgm.BFull2
