/-
  `if_002`, `parenthesis: remove`, with the action the analysis computes for the very same tokens
  (`create_remove_action_dict`, modelled by `Parens.removeAction`): when the tokens of interest begin
  with the opening parenthesis (possibly after one whitespace token) and end with the closing one
  (possibly before one whitespace token), the fix removes exactly these two parentheses and nothing
  but whitespace besides.
-/
import VsgProofs.Lemmas.BaseParens
namespace Vsgm.Base.Parens
open Vsgm Vsgm.Base

/-! ### Python indexing on literal positions -/

theorem pyGet_nat {α : Type} (l : List α) (k : Nat) :
    pyGet l (k : Int) = (match l[k]? with | some x => .ok x | none => .error .indexError) := by
  unfold pyGet
  rw [pyIdx_ofNat]
  by_cases hk : k < l.length
  · simp only [hk, if_true]
    cases l[k]? <;> rfl
  · simp only [hk, if_false]
    have : l[k]? = none := by simp; omega
    rw [this]

theorem pyGet_c0 {α : Type} (a : α) (l : List α) : pyGet (a :: l) 0 = .ok a := by
  have := pyGet_nat (a :: l) 0; simpa using this
theorem pyGet_c1 {α : Type} (a b : α) (l : List α) : pyGet (a :: b :: l) 1 = .ok b := by
  have := pyGet_nat (a :: b :: l) 1; simpa using this
theorem pyGet_c2 {α : Type} (a b c : α) (l : List α) : pyGet (a :: b :: c :: l) 2 = .ok c := by
  have := pyGet_nat (a :: b :: c :: l) 2; simpa using this
theorem pyGet_e1 {α : Type} (a : α) : pyGet [a] 1 = .error .indexError := by
  have := pyGet_nat [a] 1; simpa using this
theorem pyGet_e2 {α : Type} (a b : α) : pyGet [a, b] 2 = .error .indexError := by
  have := pyGet_nat [a, b] 2; simpa using this

/-- `l[-(k+1)]` -/
theorem pyGet_neg {α : Type} (l : List α) (k : Nat) :
    pyGet l (-((k : Int) + 1)) =
      (if k < l.length then (match l[l.length - 1 - k]? with | some x => .ok x | none => .error .indexError)
       else .error .indexError) := by
  unfold pyGet pyIdx
  have h0 : (-((k : Int) + 1)) < 0 := by omega
  simp only [h0, if_true]
  by_cases hk : k < l.length
  · have hc : (0 : Int) ≤ -((k : Int) + 1) + (l.length : Int) ∧ -((k : Int) + 1) + (l.length : Int) < (l.length : Int) := by
      constructor <;> omega
    simp only [hc, and_self, if_true, hk]
    have : (-((k : Int) + 1) + (l.length : Int)).toNat = l.length - 1 - k := by omega
    rw [this]
    cases l[l.length - 1 - k]? <;> rfl
  · have hc : ¬ ((0 : Int) ≤ -((k : Int) + 1) + (l.length : Int) ∧ -((k : Int) + 1) + (l.length : Int) < (l.length : Int)) := by
      omega
    simp only [hc, if_false, hk]

theorem pyGet_n1 {α : Type} (f : List α) (x : α) : pyGet (f ++ [x]) (-1) = .ok x := by
  have := pyGet_neg (f ++ [x]) 0
  simp only [Int.natCast_zero, Int.zero_add] at this
  rw [this]
  simp
theorem pyGet_n2 {α : Type} (f : List α) (x y : α) : pyGet (f ++ [x, y]) (-2) = .ok x := by
  have := pyGet_neg (f ++ [x, y]) 1
  have e : (-(((1 : Nat) : Int) + 1)) = -2 := by omega
  rw [e] at this
  rw [this]
  have h1 : 1 < (f ++ [x, y]).length := by simp
  have h2 : (f ++ [x, y]).length - 1 - 1 = f.length := by simp
  simp only [h1, if_true, h2]
  simp
theorem pyGet_n3 {α : Type} (f : List α) (x y z : α) : pyGet (f ++ [x, y, z]) (-3) = .ok x := by
  have := pyGet_neg (f ++ [x, y, z]) 2
  have e : (-(((2 : Nat) : Int) + 1)) = -3 := by omega
  rw [e] at this
  rw [this]
  have h1 : 2 < (f ++ [x, y, z]).length := by simp
  have h2 : (f ++ [x, y, z]).length - 1 - 2 = f.length := by simp
  simp only [h1, if_true, h2]
  simp
theorem pyGet_ne2 {α : Type} (x : α) : pyGet [x] (-2) = .error .indexError := by
  have := pyGet_neg [x] 1
  have e : (-(((1 : Nat) : Int) + 1)) = -2 := by omega
  rw [e] at this
  rw [this]; simp
theorem pyGet_ne3 {α : Type} (x y : α) : pyGet [x, y] (-3) = .error .indexError := by
  have := pyGet_neg [x, y] 2
  have e : (-(((2 : Nat) : Int) + 1)) = -3 := by omega
  rw [e] at this
  rw [this]; simp

/-! ### `dropIdx` -/

theorem dropIdx_append (rm : List Int) (d : Int) : ∀ (a b : List Tok) (i : Nat),
    dropIdx rm d (a ++ b) i = dropIdx rm d a i ++ dropIdx rm d b (i + a.length)
  | [], b, i => by simp [dropIdx]
  | t :: a, b, i => by
    simp only [List.cons_append, dropIdx, dropIdx_append rm d a b (i + 1), List.append_assoc, List.length_cons]
    congr 3
    omega

theorem dropIdx_keep (rm : List Int) (d : Int) : ∀ (l : List Tok) (i : Nat),
    (∀ k, i ≤ k → k < i + l.length → ((k : Int) + d) ∉ rm) → dropIdx rm d l i = l
  | [], _, _ => by simp [dropIdx]
  | t :: r, i, h => by
    unfold dropIdx
    have h0 := h i (Nat.le_refl _) (by simp)
    simp only [h0, if_false, List.singleton_append]
    congr 1
    exact dropIdx_keep rm d r (i + 1) (fun k hk1 hk2 => h k (by omega) (by simp; omega))

theorem dropIdx_one (rm : List Int) (d : Int) (t : Tok) (i : Nat) :
    dropIdx rm d [t] i = if ((i : Int) + d) ∈ rm then [] else [t] := by
  simp [dropIdx]


/-! ### the two halves of `create_remove_action_dict` -/

/-- `isinstance(t, parser.open_parenthesis)` / `parser.close_parenthesis` -/
def isO (E : Env) (t : Tok) : Bool := E.isa t.cls E.openParenCls
def isC (E : Env) (t : Tok) : Bool := E.isa t.cls E.closeParenCls

def wsOnly (l : List Tok) : Prop := ∀ t ∈ l, t.kind = .ws

/-- the tokens begin with the opening parenthesis, possibly after one whitespace token -/
def StartsWithParen (E : Env) (l : List Tok) : Prop :=
  ∃ p r, isO E p = true ∧ (l = p :: r ∨ ∃ w, w.kind = .ws ∧ l = w :: p :: r)

/-- the tokens end with the closing parenthesis, possibly before one whitespace token -/
def EndsWithParen (E : Env) (l : List Tok) : Prop :=
  ∃ f q, isC E q = true ∧ (l = f ++ [q] ∨ ∃ w, w.kind = .ws ∧ l = f ++ [q, w])

theorem openCases_spec (E : Env) (l : List Tok) (hK : ∀ t ∈ l, isO E t = true → (t.kind == Kind.ws) = false)
    (lr : List Int) (li : List Tok) (h : openCases E l = .ok (lr, li)) (hs : StartsWithParen E l) :
    ∃ pre p rest w1, l = pre ++ [p] ++ rest ∧ isO E p = true ∧ wsOnly pre ∧ pre.length ≤ 1 ∧ wsOnly w1 ∧
      li ++ dropIdx lr 0 l 0 = w1 ++ rest := by
  obtain ⟨p, r, hp, hl | ⟨w, hw, hl⟩⟩ := hs
  · -- l = p :: r
    subst hl
    have hpk := hK p (by simp) hp
    unfold openCases at h
    cases r with
    | nil =>
      simp [pyGet_c0, pyGet_e1, bind, Except.bind, isO] at h hp
      simp [hp] at h
    | cons t1 r' =>
      have hp' : E.isa p.cls E.openParenCls = true := hp
      by_cases h1 : (t1.kind == Kind.ws) = true
      · simp [pyGet_c0, pyGet_c1, bind, Except.bind, pure, Except.pure, hp', h1] at h
        obtain ⟨rfl, rfl⟩ := h
        refine ⟨[], p, t1 :: r', [], rfl, hp, by simp [wsOnly], by simp, by simp [wsOnly], ?_⟩
        simp only [List.nil_append]
        unfold dropIdx
        simp only [Int.natCast_zero, Int.add_zero, List.mem_singleton, if_true, List.nil_append]
        exact dropIdx_keep _ _ _ _ (by intro k hk1 _; simp; omega)
      · simp [pyGet_c0, pyGet_c1, bind, Except.bind, pure, Except.pure, hp', h1, hpk] at h
        obtain ⟨rfl, rfl⟩ := h
        refine ⟨[], p, t1 :: r', [E.ws [' ']], rfl, hp, by simp [wsOnly], by simp, by simp [wsOnly, Env.ws], ?_⟩
        simp only [List.nil_append, List.singleton_append, List.cons.injEq, true_and]
        unfold dropIdx
        simp only [Int.natCast_zero, Int.add_zero, List.mem_singleton, if_true, List.nil_append]
        exact dropIdx_keep _ _ _ _ (by intro k hk1 _; simp; omega)
  · -- l = w :: p :: r
    subst hl
    have hwk : (w.kind == Kind.ws) = true := by simp [hw]
    have hwo : E.isa w.cls E.openParenCls = false := by
      cases hx : E.isa w.cls E.openParenCls with
      | false => rfl
      | true => have := hK w (by simp) hx; rw [hwk] at this; cases this
    have hp' : E.isa p.cls E.openParenCls = true := hp
    unfold openCases at h
    cases r with
    | nil =>
      simp [pyGet_c0, pyGet_c1, pyGet_e2, bind, Except.bind, pure, Except.pure, hwo, hwk, hp'] at h
    | cons t2 r' =>
      by_cases h2 : (t2.kind == Kind.ws) = true
      · simp [pyGet_c0, pyGet_c1, pyGet_c2, bind, Except.bind, pure, Except.pure, hwo, hwk, hp', h2] at h
        obtain ⟨rfl, rfl⟩ := h
        refine ⟨[w], p, t2 :: r', [], rfl, hp, by simp [wsOnly, hw], by simp, by simp [wsOnly], ?_⟩
        simp only [List.nil_append]
        unfold dropIdx
        simp only [Int.natCast_zero, Int.add_zero, List.mem_cons, true_or, if_true, List.nil_append]
        unfold dropIdx
        have : (((0 + 1 : Nat) : Int) + 0) ∈ [(0 : Int), 1] := by simp
        simp only [this, if_true, List.nil_append]
        exact dropIdx_keep _ _ _ _ (by intro k hk1 _; simp; omega)
      · simp [pyGet_c0, pyGet_c1, pyGet_c2, bind, Except.bind, pure, Except.pure, hwo, hwk, hp', h2] at h
        obtain ⟨rfl, rfl⟩ := h
        refine ⟨[w], p, t2 :: r', [w], rfl, hp, by simp [wsOnly, hw], by simp, by simp [wsOnly, hw], ?_⟩
        simp only [List.nil_append, List.singleton_append]
        unfold dropIdx
        have h0 : ¬ ((((0 : Nat) : Int) + 0) ∈ [(1 : Int)]) := by simp
        simp only [h0, if_false, List.singleton_append, List.cons.injEq, true_and]
        unfold dropIdx
        have h1 : (((0 + 1 : Nat) : Int) + 0) ∈ [(1 : Int)] := by simp
        simp only [h1, if_true, List.nil_append]
        exact dropIdx_keep _ _ _ _ (by intro k hk1 _; simp; omega)


theorem snoc_cases {α : Type} (f : List α) : f = [] ∨ ∃ f0 y, f = f0 ++ [y] := by
  rcases List.eq_nil_or_concat f with h | ⟨f0, y, h⟩
  · exact Or.inl h
  · exact Or.inr ⟨f0, y, by rw [h, List.concat_eq_append]⟩

/-- the right-hand pass on a list whose tail `[q] ++ suf` is the tail of the original list: the
    parenthesis `q` (at original index `base`) goes, everything before it stays -/
theorem drop_tail (rr : List Int) (d base : Int) (f' : List Tok) (q : Tok) (suf : List Tok)
    (hd : d = base - (f'.length : Int)) (hge : ∀ x ∈ rr, base ≤ x) (hq : base ∈ rr) :
    dropIdx rr d (f' ++ [q] ++ suf) 0 = f' ++ dropIdx rr d suf (f'.length + 1) := by
  rw [dropIdx_append, dropIdx_append, dropIdx_one]
  have h1 : dropIdx rr d f' 0 = f' := by
    apply dropIdx_keep
    intro k _ hk hmem
    have := hge _ hmem
    omega
  have h2 : ((0 + f'.length : Nat) : Int) + d ∈ rr := by
    have : ((0 + f'.length : Nat) : Int) + d = base := by omega
    rw [this]; exact hq
  rw [h1, if_pos h2]
  simp

theorem pyGet_s1 {α : Type} (q : α) : pyGet [q] (-1) = .ok q := pyGet_n1 [] q
theorem pyGet_s2 {α : Type} (q w : α) : pyGet [q, w] (-1) = .ok w := pyGet_n1 [q] w
theorem pyGet_s3 {α : Type} (q w : α) : pyGet [q, w] (-2) = .ok q := pyGet_n2 [] q w
theorem pyGet_t1 {α : Type} (f : List α) (y q : α) : pyGet (f ++ [y, q]) (-1) = .ok q := by
  have := pyGet_n1 (f ++ [y]) q; simpa using this
theorem pyGet_u1 {α : Type} (f : List α) (y q w : α) : pyGet (f ++ [y, q, w]) (-1) = .ok w := by
  have := pyGet_n1 (f ++ [y, q]) w; simpa using this
theorem pyGet_u2 {α : Type} (f : List α) (y q w : α) : pyGet (f ++ [y, q, w]) (-2) = .ok q := by
  have := pyGet_n2 (f ++ [y]) q w; simpa using this

theorem closeCases_spec (E : Env) (l : List Tok) (hK : ∀ t ∈ l, isC E t = true → (t.kind == Kind.ws) = false)
    (rr : List Int) (ri : List Tok) (h : closeCases E l = .ok (rr, ri)) (he : EndsWithParen E l) :
    ∃ f q suf w2, l = f ++ [q] ++ suf ∧ isC E q = true ∧ wsOnly suf ∧ suf.length ≤ 1 ∧ wsOnly w2 ∧
      ∀ (f' : List Tok) (d : Int), d = (l.length : Int) - ((f' ++ [q] ++ suf).length : Int) →
        dropIdx rr d (f' ++ [q] ++ suf) 0 ++ ri = f' ++ w2 := by
  obtain ⟨f, q, hq, hl | ⟨w, hw, hl⟩⟩ := he
  · -- l = f ++ [q]
    subst hl
    have hqk := hK q (by simp) hq
    have hq' : E.isa q.cls E.closeParenCls = true := hq
    unfold closeCases at h
    rcases snoc_cases f with rfl | ⟨f0, y, rfl⟩
    · simp [pyGet_s1, pyGet_ne2, bind, Except.bind, pure, Except.pure, hqk, hq'] at h
    · by_cases hy : (y.kind == Kind.ws) = true
      · simp [pyGet_t1, pyGet_n2, bind, Except.bind, pure, Except.pure, hqk, hq', hy] at h
        obtain ⟨rfl, rfl⟩ := h
        refine ⟨f0 ++ [y], q, [], [], by simp, hq, by simp [wsOnly], by simp, by simp [wsOnly], ?_⟩
        intro f' d hd
        simp only [List.length_append, List.length_cons, List.length_nil] at hd
        rw [drop_tail _ d ((f0.length : Int) + 1) f' q [] (by omega)
          (by intro x hx; simp at hx; omega) (by simp <;> omega)]
        simp [dropIdx]
      · simp [pyGet_t1, pyGet_n2, bind, Except.bind, pure, Except.pure, hqk, hq', hy] at h
        obtain ⟨rfl, rfl⟩ := h
        refine ⟨f0 ++ [y], q, [], [E.ws [' ']], by simp, hq, by simp [wsOnly], by simp, by simp [wsOnly, Env.ws], ?_⟩
        intro f' d hd
        simp only [List.length_append, List.length_cons, List.length_nil] at hd
        rw [drop_tail _ d ((f0.length : Int) + 1) f' q [] (by omega)
          (by intro x hx; simp at hx; omega) (by simp <;> omega)]
        simp [dropIdx]
  · -- l = f ++ [q, w]
    subst hl
    have hwk : (w.kind == Kind.ws) = true := by simp [hw]
    have hwc : E.isa w.cls E.closeParenCls = false := by
      cases hx : E.isa w.cls E.closeParenCls with
      | false => rfl
      | true => have := hK w (by simp) hx; rw [hwk] at this; cases this
    have hq' : E.isa q.cls E.closeParenCls = true := hq
    unfold closeCases at h
    rcases snoc_cases f with rfl | ⟨f0, y, rfl⟩
    · simp [pyGet_s2, pyGet_s3, pyGet_ne3, bind, Except.bind, pure, Except.pure, hwk, hq'] at h
    · by_cases hy : (y.kind == Kind.ws) = true
      · simp [pyGet_u1, pyGet_u2, pyGet_n3, bind, Except.bind, pure, Except.pure, hwk, hq', hy] at h
        obtain ⟨rfl, rfl⟩ := h
        refine ⟨f0 ++ [y], q, [w], [], by simp, hq, by simp [wsOnly, hw], by simp, by simp [wsOnly], ?_⟩
        intro f' d hd
        simp only [List.length_append, List.length_cons, List.length_nil] at hd
        rw [drop_tail _ d ((f0.length : Int) + 1) f' q [w] (by omega)
          (by intro x hx; simp at hx; omega) (by simp <;> omega), dropIdx_one]
        have m : ((f'.length + 1 : Nat) : Int) + d ∈ [(f0.length : Int) + 3 - 1, (f0.length : Int) + 3 - 2] := by
          simp; omega
        rw [if_pos m]
        simp
      · simp [pyGet_u1, pyGet_u2, pyGet_n3, bind, Except.bind, pure, Except.pure, hwk, hq', hy, hwc] at h
        obtain ⟨rfl, rfl⟩ := h
        refine ⟨f0 ++ [y], q, [w], [w], by simp, hq, by simp [wsOnly, hw], by simp, by simp [wsOnly, hw], ?_⟩
        intro f' d hd
        simp only [List.length_append, List.length_cons, List.length_nil] at hd
        rw [drop_tail _ d ((f0.length : Int) + 1) f' q [w] (by omega)
          (by intro x hx; simp at hx; omega) (by simp <;> omega), dropIdx_one]
        have m : ¬ (((f'.length + 1 : Nat) : Int) + d ∈ [(f0.length : Int) + 3 - 2]) := by
          simp; omega
        rw [if_neg m]
        simp


/-- two decompositions of the same list around `p` (near the front) and `q` (near the back) nest -/
theorem nest (pre rest f suf : List Tok) (p q : Tok) (hpq : p ≠ q) (hqk : (q.kind == Kind.ws) = false)
    (hpre : wsOnly pre) (hlen : pre.length ≤ 1) (h : pre ++ [p] ++ rest = f ++ [q] ++ suf) :
    ∃ mid, rest = mid ++ [q] ++ suf ∧ f = pre ++ [p] ++ mid := by
  rcases List.append_eq_append_iff.mp h with ⟨a, h1, h2⟩ | ⟨a, h1, h2⟩
  · -- f ++ [q] = pre ++ [p] ++ a,  rest = a ++ suf
    rcases snoc_cases a with rfl | ⟨mid, x, rfl⟩
    · simp only [List.append_nil] at h1
      have := List.append_inj_right' h1 (by simp)
      simp at this
      exact absurd this.symm hpq
    · have e : f ++ [q] = (pre ++ [p] ++ mid) ++ [x] := by rw [h1]; simp
      have hx := List.append_inj_right' e (by simp)
      have hf := List.append_inj_left' e (by simp)
      simp at hx
      subst hx
      exact ⟨mid, by rw [h2], hf⟩
  · -- pre ++ [p] = f ++ [q] ++ a,  suf = a ++ rest
    exfalso
    rcases snoc_cases a with rfl | ⟨a0, x, rfl⟩
    · simp only [List.append_nil] at h1
      have := List.append_inj_right' h1 (by simp)
      simp at this
      exact hpq this
    · have e : pre ++ [p] = (f ++ [q] ++ a0) ++ [x] := by rw [h1]; simp
      have hf := List.append_inj_left' e (by simp)
      have hqm : q ∈ pre := by rw [hf]; simp
      have := hpre q hqm
      simp [this] at hqk

/-- **the action the analysis computes, applied by the fixer**: exactly the two parentheses go -/
theorem removeAction_spec (E : Env) (l : List Tok) (hD : ∀ t ∈ l, ¬ (isO E t = true ∧ isC E t = true))
    (hKo : ∀ t ∈ l, isO E t = true → (t.kind == Kind.ws) = false)
    (hKc : ∀ t ∈ l, isC E t = true → (t.kind == Kind.ws) = false)
    (act : RemoveAction) (h : removeAction E l = .ok act)
    (hs : StartsWithParen E l) (he : EndsWithParen E l) :
    ∃ pre p mid q suf w1 w2, l = pre ++ [p] ++ mid ++ [q] ++ suf ∧ isO E p = true ∧ isC E q = true ∧
      wsOnly pre ∧ wsOnly suf ∧ wsOnly w1 ∧ wsOnly w2 ∧
      removeParens act.leftRemove act.rightRemove act.leftInsert act.rightInsert l = w1 ++ mid ++ w2 := by
  unfold removeAction at h
  obtain ⟨⟨lr, li⟩, ho, h⟩ := bind_ok _ _ _ h
  obtain ⟨⟨rr, ri⟩, hc, h⟩ := bind_ok _ _ _ h
  cases h
  obtain ⟨pre, p, rest, w1, hl1, hp, hpre, hprelen, hw1, hleft⟩ := openCases_spec E l hKo lr li ho hs
  obtain ⟨f, q, suf, w2, hl2, hq, hsuf, _, hw2, hright⟩ := closeCases_spec E l hKc rr ri hc he
  have hpm : p ∈ l := by rw [hl1]; simp
  have hqm : q ∈ l := by rw [hl2]; simp
  have hpq : p ≠ q := fun e => hD p hpm ⟨hp, e ▸ hq⟩
  obtain ⟨mid, hrest, hf⟩ := nest pre rest f suf p q hpq (hKc q hqm hq) hpre hprelen (by rw [← hl1, ← hl2])
  refine ⟨pre, p, mid, q, suf, w1, w2, ?_, hp, hq, hpre, hsuf, hw1, hw2, ?_⟩
  · rw [hl2, hf]
  · unfold removeParens
    simp only
    rw [hleft, hrest]
    have e : w1 ++ (mid ++ [q] ++ suf) = (w1 ++ mid) ++ [q] ++ suf := by simp
    rw [e]
    have := hright (w1 ++ mid) ((l.length : Int) - (((w1 ++ mid) ++ [q] ++ suf).length : Int)) rfl
    rw [this]

theorem intsOf_map (l : List Int) : intsOf (l.map .int) = l := by
  induction l with
  | nil => rfl
  | cons x r ih => simp [intsOf, ih]

theorem toksOf_map (l : List Tok) : toksOf (l.map .tok) = .ok l := by
  induction l with
  | nil => rfl
  | cons x r ih => simp [toksOf, ih, bind, Except.bind]

/-- the fixer, handed the analysis' action in its dictionary form, computes `removeParens` -/
theorem fixV_toKV (E : Env) (a : RemoveAction) (l : List Tok) :
    fixV E false a.toKV l = .ok (removeParens a.leftRemove a.rightRemove a.leftInsert a.rightInsert l) := by
  have g1 : needList a.toKV "left_insert" = .ok (a.leftInsert.map .tok) := by
    simp [needList, KV.get, RemoveAction.toKV, List.find?]
  have g2 : needList a.toKV "left_remove" = .ok (a.leftRemove.map .int) := by
    simp [needList, KV.get, RemoveAction.toKV, List.find?]
  have g3 : needList a.toKV "right_remove" = .ok (a.rightRemove.map .int) := by
    simp [needList, KV.get, RemoveAction.toKV, List.find?]
  have g4 : needList a.toKV "right_insert" = .ok (a.rightInsert.map .tok) := by
    simp [needList, KV.get, RemoveAction.toKV, List.find?]
  unfold fixV
  simp only [Bool.false_eq_true, if_false, g1, g4, toksOf_map, bind, Except.bind]
  by_cases he : l.isEmpty = true
  · have hl : l = [] := by simpa using he
    subst hl
    simp only [List.isEmpty_nil, if_true, pure, Except.pure, intsOf]
    by_cases h1 : (a.leftInsert ++ dropIdx [] 0 [] 0).isEmpty = true
    · simp only [h1, if_true, intsOf]
      have : a.leftInsert = [] := by simpa [dropIdx] using h1
      simp [removeParens, dropIdx, this]
    · simp only [h1, Bool.false_eq_true, if_false, g3, intsOf_map]
      simp [removeParens, dropIdx]
  · simp only [he, Bool.false_eq_true, if_false, g2, intsOf_map]
    by_cases h1 : (a.leftInsert ++ dropIdx a.leftRemove 0 l 0).isEmpty = true
    · simp only [h1, if_true, pure, Except.pure, intsOf]
      have : a.leftInsert ++ dropIdx a.leftRemove 0 l 0 = [] := by simpa using h1
      simp [removeParens, this, dropIdx]
    · simp only [h1, Bool.false_eq_true, if_false, g3, intsOf_map]


theorem proj_wsOnly {β : Type} (P : Proj β) (l : List Tok) (h : wsOnly l) : P.π l = [] := by
  induction l with
  | nil => exact P.nil
  | cons t r ih =>
    rw [P.cons, P.ws t (h t (by simp)), ih (fun x hx => h x (by simp [hx]))]
    rfl

/-- projection form of `removeAction_spec`: the input's projection is the result's projection between
    the projections of the two removed parentheses -/
theorem removeAction_proj {β : Type} (P : Proj β) (E : Env) (l r : List Tok)
    (hD : ∀ t ∈ l, ¬ (isO E t = true ∧ isC E t = true))
    (hKo : ∀ t ∈ l, isO E t = true → (t.kind == Kind.ws) = false)
    (hKc : ∀ t ∈ l, isC E t = true → (t.kind == Kind.ws) = false)
    (act : RemoveAction) (h : removeAction E l = .ok act)
    (hs : StartsWithParen E l) (he : EndsWithParen E l) (hr : fixV E false act.toKV l = .ok r) :
    ∃ p q, isO E p = true ∧ isC E q = true ∧ P.π l = P.π [p] ++ P.π r ++ P.π [q] := by
  obtain ⟨pre, p, mid, q, suf, w1, w2, hl, hp, hq, hpre, hsuf, hw1, hw2, hrm⟩ :=
    removeAction_spec E l hD hKo hKc act h hs he
  rw [fixV_toKV] at hr
  cases hr
  refine ⟨p, q, hp, hq, ?_⟩
  rw [hrm]
  conv => lhs; rw [hl]
  simp only [P.app, proj_wsOnly P pre hpre, proj_wsOnly P suf hsuf, proj_wsOnly P w1 hw1, proj_wsOnly P w2 hw2,
    List.nil_append, List.append_nil]

end Vsgm.Base.Parens
