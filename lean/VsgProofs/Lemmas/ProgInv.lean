/-
  Layer P: the generic invariant principle of the interpreter (`VsgModel/Prog/Eval.lean`).

  `Rel` is a reflexive, transitive relation on states that only looks at the token list and the two
  ghost counters.  `inv_run` says: if the three operations that write the token list (`toksSet`,
  `toksInsert`, `toksPop`) respect the relation wherever the syntactic checker `Chk` lets them occur,
  then EVERY evaluation — any program table, any fuel, any expression / statement / call — relates
  the state before to the state after, also when it ends in an exception.  The proof is one induction
  on the fuel; the theorems about length, values and ghost counters are instances.
-/
import VsgModel.Prog.Eval
namespace Vsgm.Prog
open Vsgm Vsgm.Classify

/-- a relation on states that depends only on (toks, nIns, nDel) -/
structure Rel where
  I : State → State → Prop
  refl : ∀ s, I s s
  trans : ∀ a b c, I a b → I b c → I a c
  ext : ∀ s s', s'.toks = s.toks → s'.nIns = s.nIns → s'.nDel = s.nDel → I s s'

/-- `m` relates the state before to the state after, whatever it returns -/
def Inv (r : Rel) (m : M α) : Prop := ∀ st, r.I st (m st).2

/-- `m` does not touch the token list or the ghost counters -/
def Pres (m : M α) : Prop := ∀ st, (m st).2.toks = st.toks ∧ (m st).2.nIns = st.nIns ∧ (m st).2.nDel = st.nDel

theorem Pres.inv {r : Rel} {m : M α} (h : Pres m) : Inv r m := fun st =>
  r.ext st _ (h st).1 (h st).2.1 (h st).2.2

theorem inv_pure (r : Rel) (a : α) : Inv r (pure a : M α) := fun st => r.refl st
theorem inv_raise (r : Rel) (e : Err) : Inv r (raise e : M α) := fun st => r.refl st

theorem inv_bind {r : Rel} {m : M α} {f : α → M β} (hm : Inv r m) (hf : ∀ a, Inv r (f a)) : Inv r (m >>= f) := by
  intro st
  show r.I st (M.bind m f st).2
  unfold M.bind
  have h1 := hm st
  cases h : m st with
  | mk res st' =>
    rw [h] at h1
    cases res with
    | ok a => exact r.trans _ _ _ h1 (hf a st')
    | error e => exact h1

theorem pres_pure (a : α) : Pres (pure a : M α) := fun _ => ⟨rfl, rfl, rfl⟩
theorem pres_raise (e : Err) : Pres (raise e : M α) := fun _ => ⟨rfl, rfl, rfl⟩

theorem pres_bind {m : M α} {f : α → M β} (hm : Pres m) (hf : ∀ a, Pres (f a)) : Pres (m >>= f) := by
  intro st
  show (M.bind m f st).2.toks = _ ∧ (M.bind m f st).2.nIns = _ ∧ (M.bind m f st).2.nDel = _
  unfold M.bind
  have h1 := hm st
  cases h : m st with
  | mk res st' =>
    rw [h] at h1
    cases res with
    | ok a =>
      have h2 := hf a st'
      exact ⟨h2.1.trans h1.1, h2.2.1.trans h1.2.1, h2.2.2.trans h1.2.2⟩
    | error e => exact h1

theorem pres_ite {c : Prop} [Decidable c] {a b : M α} (ha : Pres a) (hb : Pres b) : Pres (if c then a else b) := by
  split <;> assumption

theorem inv_ite {r : Rel} {c : Prop} [Decidable c] {a b : M α} (ha : Inv r a) (hb : Inv r b) : Inv r (if c then a else b) := by
  split <;> assumption

/-! ### the helpers that never touch the token list -/

theorem pres_unmod : Pres (unmod : M α) := pres_raise _
theorem pres_typeErr : Pres (typeErr : M α) := pres_raise _
theorem pres_indexErr : Pres (indexErr : M α) := pres_raise _
theorem pres_getSt : Pres getSt := fun _ => ⟨rfl, rfl, rfl⟩

theorem pres_modSt {f : State → State} (h : ∀ st, (f st).toks = st.toks ∧ (f st).nIns = st.nIns ∧ (f st).nDel = st.nDel) :
    Pres (modSt f) := fun st => h st

theorem pres_getVar (x : Nat) : Pres (getVar x) := by
  intro st; unfold getVar; split <;> exact ⟨rfl, rfl, rfl⟩

theorem pres_setVar (x : Nat) (v : Val) : Pres (setVar x v) := pres_modSt fun _ => ⟨rfl, rfl, rfl⟩

theorem pres_getGlobal (g : Nat) : Pres (getGlobal g) := by
  intro st; unfold getGlobal; split <;> exact ⟨rfl, rfl, rfl⟩

theorem pres_allocList (vs : Array Val) : Pres (allocList vs) := fun _ => ⟨rfl, rfl, rfl⟩

theorem pres_readList (a : Nat) : Pres (readList a) := by
  intro st; unfold readList; split <;> exact ⟨rfl, rfl, rfl⟩

theorem pres_writeList (a : Nat) (l : Array Val) : Pres (writeList a l) := pres_modSt fun _ => ⟨rfl, rfl, rfl⟩

theorem pres_liftO (o : Option α) (e : Err) : Pres (liftO o e) := by
  unfold liftO; split
  · exact pres_pure _
  · exact pres_raise _

/-- closes `Pres` goals of straight-line helper code -/
macro "pres_tac" : tactic =>
  `(tactic| repeat (first
    | exact pres_pure _ | exact pres_raise _ | exact pres_unmod | exact pres_typeErr | exact pres_indexErr
    | exact pres_getSt | exact pres_getVar _ | exact pres_setVar _ _ | exact pres_getGlobal _
    | exact pres_allocList _ | exact pres_readList _ | exact pres_writeList _ _
    | assumption
    | (refine pres_bind ?_ (fun _ => ?_)) | (apply pres_ite) | split))

theorem pres_truthy (v : Val) : Pres (truthy v) := by unfold truthy; pres_tac

theorem pres_memVals (x : Val) (l : List Val) : Pres (memVals x l) := by
  induction l with
  | nil => exact pres_pure _
  | cons v vs ih => unfold memVals; pres_tac

theorem pres_pyIn (x c : Val) : Pres (pyIn x c) := by
  unfold pyIn
  split
  · exact pres_bind (pres_readList _) fun _ => pres_memVals _ _
  · exact pres_memVals _ _
  · pres_tac
  · pres_tac

theorem pres_cmpVals (op : CmpOp) (x y : Val) : Pres (cmpVals op x y) := by
  unfold cmpVals
  cases op <;> simp only <;>
    first
    | (split <;> first | exact pres_pure _ | exact pres_unmod)
    | exact pres_bind (pres_pyIn _ _) fun _ => pres_pure _
    | pres_tac

theorem pres_binopVals (op : BinOp) (x y : Val) : Pres (binopVals op x y) := by unfold binopVals; pres_tac

theorem pres_indexVal (lv iv : Val) : Pres (indexVal lv iv) := by unfold indexVal; pres_tac

theorem pres_optBound (n d : Nat) (o : Option Val) : Pres (optBound n d o) := by unfold optBound; pres_tac

theorem pres_sliceVal (lv : Val) (lo hi : Option Val) : Pres (sliceVal lv lo hi) := by
  unfold sliceVal
  split
  · refine pres_bind pres_getSt fun _ => pres_bind (pres_optBound _ _ _) fun _ => pres_bind (pres_optBound _ _ _) fun _ => pres_allocList _
  · refine pres_bind (pres_readList _) fun _ => pres_bind (pres_optBound _ _ _) fun _ => pres_bind (pres_optBound _ _ _) fun _ => pres_allocList _
  · refine pres_bind (pres_optBound _ _ _) fun _ => pres_bind (pres_optBound _ _ _) fun _ => pres_pure _
  · exact pres_unmod

theorem pres_construct (S : Sys) (c : Nat) (args : List Val) : Pres (construct S c args) :=
  fun _ => ⟨rfl, rfl, rfl⟩

theorem pres_getAttr (S : Sys) (v : Val) (n : Nat) : Pres (getAttr S v n) := by unfold getAttr; pres_tac
theorem pres_strArg (v : Val) : Pres (strArg v) := by unfold strArg; pres_tac
theorem pres_tokArg (v : Val) : Pres (tokArg v) := by unfold tokArg; pres_tac
theorem pres_isinstanceV (S : Sys) (o c : Val) : Pres (isinstanceV S o c) := by unfold isinstanceV; pres_tac

theorem pres_strArgs (l : List Val) : Pres (strArgs l) := by
  induction l with
  | nil => exact pres_pure _
  | cons v vs ih =>
    unfold strArgs
    exact pres_bind (pres_strArg _) fun _ => pres_bind ih fun _ => pres_pure _

theorem pres_toIter (v : Val) : Pres (toIter v) := by unfold toIter; pres_tac

/-! ### the three writers of the token list -/

/-- what an instance has to show about the writers -/
structure Writers (S : Sys) (r : Rel) where
  set : ∀ k t, Inv r (toksSet k t)
  insert : ∀ i t, Inv r (toksInsert i t)
  pop : ∀ i, Inv r (toksPop i)

/-- `l[i] = v` when the three writers respect the relation -/
theorem inv_storeIndex {r : Rel} (hset : ∀ k t, Inv r (toksSet k t)) (lv iv v : Val) : Inv r (storeIndex lv iv v) := by
  unfold storeIndex
  split
  · split <;> first | exact pres_unmod.inv | exact pres_typeErr.inv
  · split
    · refine inv_bind pres_getSt.inv fun st => ?_
      split
      · exact hset _ _
      · exact pres_unmod.inv
      · exact pres_indexErr.inv
    · refine inv_bind (pres_readList _).inv fun l => ?_
      split
      · exact (pres_writeList _ _).inv
      · exact pres_indexErr.inv
    · exact pres_typeErr.inv
    · exact pres_unmod.inv

end Vsgm.Prog
