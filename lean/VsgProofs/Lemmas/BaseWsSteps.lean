/-
  Generic edit scripts of the whitespace family: a fix is a sequence of
    * `set`  — overwrite the VALUE of a token whose kind satisfies `P` (class and kind stay),
    * `ins`  — insert a whitespace / blank-line token (the token before the insertion point satisfies `Q`),
    * `del`  — delete a token whose kind satisfies `P`.
  `P := isLayout` gives `LayoutOnly`, `P := (· ≠ cr)` gives `crSeq` kept and, with `Q := not a comment`,
  "every comment still ends its line" in every context.
-/
import VsgProofs.Lemmas.BaseCommon
import VsgModel.Engine.Relations
namespace Vsgm.Base
open Vsgm

/-- the token in front of insertion point `j` (none at the very start of the slice) -/
def prevAt (l : List Tok) (j : Nat) : Option Tok := if j = 0 then none else l[j - 1]?

def _root_.Vsgm.Kind.isGap (k : Kind) : Prop := k = .ws ∨ k = .blank

inductive Step (P : Kind → Prop) (Q : Option Tok → Prop) : List Tok → List Tok → Prop
  | set {l : List Tok} (i : Nat) (s : Tok) (v : Str) : l[i]? = some s → P s.kind →
      Step P Q l (l.set i { s with val := v })
  | ins {l : List Tok} (j : Nat) (t : Tok) : j ≤ l.length → Kind.isGap t.kind → Q (prevAt l j) →
      Step P Q l (l.take j ++ [t] ++ l.drop j)
  | del {l : List Tok} (k : Nat) (s : Tok) : l[k]? = some s → P s.kind → Step P Q l (l.eraseIdx k)

inductive Steps (P : Kind → Prop) (Q : Option Tok → Prop) : List Tok → List Tok → Prop
  | refl (l : List Tok) : Steps P Q l l
  | tail {a b c : List Tok} : Steps P Q a b → Step P Q b c → Steps P Q a c

theorem Steps.single {P Q} {a b : List Tok} (h : Step P Q a b) : Steps P Q a b := .tail (.refl a) h

theorem Steps.trans {P Q} {a b c : List Tok} (h1 : Steps P Q a b) (h2 : Steps P Q b c) : Steps P Q a c := by
  induction h2 with
  | refl => exact h1
  | tail _ s ih => exact .tail ih s

theorem Step.mono {P P' : Kind → Prop} {Q Q' : Option Tok → Prop} (hP : ∀ k, P k → P' k) (hQ : ∀ o, Q o → Q' o)
    {a b : List Tok} (h : Step P Q a b) : Step P' Q' a b := by
  cases h with
  | set i s v h1 h2 => exact .set i s v h1 (hP _ h2)
  | ins j t h1 h2 h3 => exact .ins j t h1 h2 (hQ _ h3)
  | del k s h1 h2 => exact .del k s h1 (hP _ h2)

theorem Steps.mono {P P' : Kind → Prop} {Q Q' : Option Tok → Prop} (hP : ∀ k, P k → P' k) (hQ : ∀ o, Q o → Q' o)
    {a b : List Tok} (h : Steps P Q a b) : Steps P' Q' a b := by
  induction h with
  | refl => exact .refl _
  | tail _ s ih => exact .tail ih (s.mono hP hQ)

/-! ### projections -/

theorem nonLayout_eraseIdx_layout (l : List Tok) (k : Nat) (s : Tok) (hs : l[k]? = some s)
    (hsl : s.isLayout = true) : nonLayout (l.eraseIdx k) = nonLayout l := by
  induction l generalizing k with
  | nil => simp
  | cons x l ih =>
    cases k with
    | zero =>
      simp at hs; subst hs
      simp [nonLayout, hsl]
    | succ j =>
      simp at hs
      have := ih j hs
      simp only [nonLayout] at this ⊢
      simp only [List.eraseIdx_cons_succ, List.filter_cons]
      rw [this]

theorem gap_isLayout (t : Tok) (h : Kind.isGap t.kind) : t.isLayout = true := by
  unfold Tok.isLayout Kind.isLayout
  rcases h with h | h <;> simp [h]

theorem step_layoutOnly {Q} {a b : List Tok} (h : Step (fun k => k.isLayout = true) Q a b) : nonLayout b = nonLayout a := by
  cases h with
  | set i s v h1 h2 =>
    exact nonLayout_set_layout a i s _ h1 h2 h2
  | ins j t _ h2 _ => exact nonLayout_insert_layout a j t (gap_isLayout t h2)
  | del k s h1 h2 => exact nonLayout_eraseIdx_layout a k s h1 h2

theorem steps_layoutOnly {Q} {a b : List Tok} (h : Steps (fun k => k.isLayout = true) Q a b) : LayoutOnly a b := by
  unfold LayoutOnly
  induction h with
  | refl => rfl
  | tail _ s ih => rw [ih, step_layoutOnly s]

theorem crSeq_set_sameKind (l : List Tok) (i : Nat) (s t : Tok) (hs : l[i]? = some s) (hk : t.kind = s.kind) :
    crSeq (l.set i t) = crSeq l := by
  induction l generalizing i with
  | nil => simp
  | cons x l ih =>
    cases i with
    | zero =>
      simp at hs; subst hs
      simp [crSeq, Tok.isCr, hk]
    | succ j =>
      simp at hs
      have := ih j hs
      simp only [crSeq] at this ⊢
      simp only [List.set_cons_succ, List.flatMap_cons]
      rw [this]

theorem crSeq_insert_noncr (l : List Tok) (j : Nat) (t : Tok) (ht : t.isCr = false) :
    crSeq (l.take j ++ [t] ++ l.drop j) = crSeq l := by
  simp only [crSeq_append]
  have : crSeq [t] = [] := by simp [crSeq, ht]
  rw [this, List.append_nil, ← crSeq_append, List.take_append_drop]

theorem crSeq_eraseIdx_noncr (l : List Tok) (k : Nat) (s : Tok) (hs : l[k]? = some s) (hc : s.isCr = false) :
    crSeq (l.eraseIdx k) = crSeq l := by
  induction l generalizing k with
  | nil => simp
  | cons x l ih =>
    cases k with
    | zero =>
      simp at hs; subst hs
      simp [crSeq, hc]
    | succ j =>
      simp at hs
      have := ih j hs
      simp only [crSeq] at this ⊢
      simp only [List.eraseIdx_cons_succ, List.flatMap_cons]
      rw [this]

theorem gap_notCr (t : Tok) (h : Kind.isGap t.kind) : t.isCr = false := by
  unfold Tok.isCr
  rcases h with h | h <;> simp [h]

theorem step_crSeq {Q} {a b : List Tok} (h : Step (fun k => k ≠ .cr) Q a b) : crSeq b = crSeq a := by
  cases h with
  | set i s v h1 _ => exact crSeq_set_sameKind a i s _ h1 rfl
  | ins j t _ h2 _ => exact crSeq_insert_noncr a j t (gap_notCr t h2)
  | del k s h1 h2 =>
    apply crSeq_eraseIdx_noncr a k s h1
    unfold Tok.isCr; simpa using h2

theorem steps_crSeq {Q} {a b : List Tok} (h : Steps (fun k => k ≠ .cr) Q a b) : crSeq a = crSeq b := by
  induction h with
  | refl => rfl
  | tail _ s ih => rw [ih, step_crSeq s]

/-! ### every comment still ends its line, in every context -/

def _root_.Vsgm.Kind.isCmt (k : Kind) : Bool := k == .comment || k == .pragma

/-- `commentEndsLine` on the list of kinds -/
def celK : List Kind → Bool
  | [] => true
  | [_] => true
  | s :: t :: rest => (if s.isCmt then t == .cr else true) && celK (t :: rest)

theorem cel_eq_celK (l : List Tok) : commentEndsLine l = celK (l.map (·.kind)) := by
  induction l with
  | nil => rfl
  | cons a l ih =>
    cases l with
    | nil => rfl
    | cons b r =>
      simp only [commentEndsLine, List.map_cons, celK, Kind.isCmt] at ih ⊢
      rw [ih]
      try rfl

theorem celK_append_cons (a : List Kind) (x : Kind) (b : List Kind) :
    celK (a ++ x :: b) = (celK (a ++ [x]) && celK (x :: b)) := by
  induction a with
  | nil => simp [celK]
  | cons y a ih =>
    cases a with
    | nil =>
      cases b with
      | nil => simp [celK]
      | cons z b => simp [celK]
    | cons w a' =>
      simp only [List.cons_append, celK] at ih ⊢
      rw [ih, Bool.and_assoc]

theorem celK_cons_noncmt (x : Kind) (b : List Kind) (hx : x.isCmt = false) : celK (x :: b) = celK b := by
  cases b with
  | nil => rfl
  | cons y b => simp [celK, hx]

theorem celK_snoc (a : List Kind) (p x : Kind) :
    celK (a ++ [p] ++ [x]) = (celK (a ++ [p]) && (if p.isCmt then x == .cr else true)) := by
  have := celK_append_cons a p [x]
  simp only [List.append_assoc, List.singleton_append] at this ⊢
  rw [this]
  simp [celK]

/-- what the context in front of a slice has to satisfy for an insertion at the very start of the slice -/
def lastNotCmt (ks : List Kind) : Prop := ∀ k, ks.getLast? = some k → k.isCmt = false

theorem celK_insert (A B : List Kind) (t : Kind) (ht : t.isCmt = false) (hA : lastNotCmt A)
    (h : celK (A ++ B) = true) : celK (A ++ t :: B) = true := by
  rw [celK_append_cons]
  rw [celK_cons_noncmt t B ht]
  have hB : celK B = true ∧ celK A = true := by
    cases B with
    | nil => simp at h; exact ⟨rfl, h⟩
    | cons q B' =>
      rw [celK_append_cons] at h
      simp only [Bool.and_eq_true] at h
      refine ⟨h.2, ?_⟩
      rcases List.eq_nil_or_concat A with rfl | ⟨A', p, rfl⟩
      · rfl
      · have := h.1
        simp only [List.concat_eq_append] at this ⊢
        rw [celK_snoc] at this
        simp only [Bool.and_eq_true] at this
        exact this.1
  rcases List.eq_nil_or_concat A with rfl | ⟨A', p, rfl⟩
  · simp [celK, hB.1]
  · simp only [List.concat_eq_append] at hA hB ⊢
    rw [celK_snoc]
    have hp : p.isCmt = false := hA p (by simp)
    simp [hp, hB.1, hB.2]

theorem celK_delete (A B : List Kind) (s : Kind) (hs : s ≠ .cr) (h : celK (A ++ s :: B) = true) :
    celK (A ++ B) = true := by
  rw [celK_append_cons] at h
  simp only [Bool.and_eq_true] at h
  obtain ⟨h1, h2⟩ := h
  rcases List.eq_nil_or_concat A with rfl | ⟨A', p, rfl⟩
  · cases B with
    | nil => rfl
    | cons q B' =>
      simp only [celK, Bool.and_eq_true] at h2
      simpa using h2.2
  · simp only [List.concat_eq_append] at h1 ⊢
    rw [celK_snoc] at h1
    simp only [Bool.and_eq_true] at h1
    have hp : p.isCmt = false := by
      cases hc : p.isCmt with
      | false => rfl
      | true =>
        have := h1.2
        simp [hc] at this
        exact absurd this hs
    cases B with
    | nil => simpa using h1.1
    | cons q B' =>
      rw [List.append_assoc, List.singleton_append, celK_append_cons]
      simp only [celK, Bool.and_eq_true] at h2
      simp [h1.1, celK, hp, h2.2]

/-- `CelSafe a b`: replacing the slice `a` by `b` never makes a comment absorb what follows it, whatever
    surrounds the slice (as long as the token in front of the slice is not itself a comment) -/
def CelSafe (a b : List Tok) : Prop :=
  ∀ pre suf : List Tok, lastNotCmt (pre.map (·.kind)) →
    commentEndsLine (pre ++ a ++ suf) = true → commentEndsLine (pre ++ b ++ suf) = true

def prevNotCmt (o : Option Tok) : Prop := ∀ x, o = some x → x.kind.isCmt = false

theorem map_kind_set (l : List Tok) (i : Nat) (s : Tok) (v : Str) (h : l[i]? = some s) :
    (l.set i { s with val := v }).map (·.kind) = l.map (·.kind) := by
  induction l generalizing i with
  | nil => simp
  | cons x l ih =>
    cases i with
    | zero => simp at h; subst h; simp
    | succ j => simp at h; simp [ih j h]

theorem step_celSafe {a b : List Tok} (h : Step (fun k => k ≠ .cr) prevNotCmt a b) : CelSafe a b := by
  intro pre suf hpre hc
  rw [cel_eq_celK] at hc ⊢
  cases h with
  | set i s v h1 _ =>
    simp only [List.map_append] at hc ⊢
    rw [map_kind_set a i s v h1]; exact hc
  | ins j t hj h2 h3 =>
    have ht : t.kind.isCmt = false := by
      unfold Kind.isCmt; rcases h2 with h | h <;> simp [h]
    have e1 : (pre ++ (a.take j ++ [t] ++ a.drop j) ++ suf).map (·.kind)
        = ((pre ++ a.take j).map (·.kind)) ++ t.kind :: ((a.drop j ++ suf).map (·.kind)) := by simp
    have hsplit : pre ++ a ++ suf = (pre ++ a.take j) ++ (a.drop j ++ suf) := by
      simp only [List.append_assoc]
      rw [← List.append_assoc (a.take j), List.take_append_drop]
    have e2 : (pre ++ a ++ suf).map (·.kind)
        = ((pre ++ a.take j).map (·.kind)) ++ ((a.drop j ++ suf).map (·.kind)) := by
      rw [hsplit, List.map_append]
    rw [e1]; rw [e2] at hc
    apply celK_insert _ _ _ ht _ hc
    intro k hk
    cases j with
    | zero =>
      simp only [List.take_zero, List.append_nil] at hk
      exact hpre k hk
    | succ j' =>
      have hj' : j' < a.length := by omega
      have htk : a.take (j' + 1) = a.take j' ++ [a[j']] := by
        rw [List.take_add_one]; simp [List.getElem?_eq_getElem hj']
      rw [htk, ← List.append_assoc, List.map_append] at hk
      simp at hk
      have := h3 a[j'] (by unfold prevAt; simp [List.getElem?_eq_getElem hj'])
      rw [← hk]; exact this
  | del k s h1 h2 =>
    obtain ⟨hk, hget⟩ := List.getElem?_eq_some_iff.mp h1
    have hd : a.drop k = s :: a.drop (k + 1) := by
      rw [List.drop_eq_getElem_cons hk, hget]
    have he : a.eraseIdx k = a.take k ++ a.drop (k + 1) := List.eraseIdx_eq_take_drop_succ a k
    have e1 : (pre ++ a.eraseIdx k ++ suf).map (·.kind)
        = ((pre ++ a.take k).map (·.kind)) ++ ((a.drop (k + 1) ++ suf).map (·.kind)) := by
      rw [he]; simp
    have hsplit : pre ++ a ++ suf = (pre ++ a.take k) ++ (s :: (a.drop (k + 1) ++ suf)) := by
      simp only [List.append_assoc]
      rw [← List.cons_append, ← hd, ← List.append_assoc (a.take k), List.take_append_drop]
    have e2 : (pre ++ a ++ suf).map (·.kind)
        = ((pre ++ a.take k).map (·.kind)) ++ s.kind :: ((a.drop (k + 1) ++ suf).map (·.kind)) := by
      rw [hsplit, List.map_append, List.map_cons]
    rw [e1]; rw [e2] at hc
    exact celK_delete _ _ _ h2 hc

theorem CelSafe.refl (a : List Tok) : CelSafe a a := fun _ _ _ h => h

theorem CelSafe.trans {a b c : List Tok} (h1 : CelSafe a b) (h2 : CelSafe b c) : CelSafe a c :=
  fun pre suf hp h => h2 pre suf hp (h1 pre suf hp h)

theorem steps_celSafe {a b : List Tok} (h : Steps (fun k => k ≠ .cr) prevNotCmt a b) : CelSafe a b := by
  induction h with
  | refl => exact CelSafe.refl _
  | tail _ s ih => exact ih.trans (step_celSafe s)

/-- a change of VALUES only never affects which comment ends which line -/
theorem celSafe_of_kinds {a b : List Tok} (h : a.map (·.kind) = b.map (·.kind)) : CelSafe a b := by
  intro pre suf _ hc
  rw [cel_eq_celK] at hc ⊢
  simp only [List.map_append] at hc ⊢
  rw [← h]; exact hc

end Vsgm.Base
