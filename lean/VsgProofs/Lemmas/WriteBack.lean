/-
  Helper lemmas for C16: a small program logic (pre / normal-post / exception-post / dead-post)
  for the process monad of VsgModel.Engine.WriteBack, specifications of the OS calls, and the
  invariants of `write_vhdl_file` / `apply_rules`.
-/
import VsgModel.Engine.WriteBack
namespace Vsgm.WB

/-! ### program logic -/

def Post (Q : α → St → Prop) (E : Exc → St → Prop) (D : St → Prop) : Res α → Prop
  | .ok a s => Q a s
  | .exc e s => E e s
  | .dead s => D s

/-- from a state satisfying `P`, `m` returns in a state satisfying `Q`, raises in one
    satisfying `E`, or dies in one satisfying `D` -/
def Triple (P : St → Prop) (m : M α) (Q : α → St → Prop) (E : Exc → St → Prop) (D : St → Prop) : Prop :=
  ∀ s, P s → Post Q E D (m s)

theorem Triple.weaken {P P' : St → Prop} {m : M α} {Q Q' : α → St → Prop} {E E' : Exc → St → Prop}
    {D D' : St → Prop} (h : Triple P m Q E D) (hp : ∀ s, P' s → P s) (hq : ∀ a s, Q a s → Q' a s)
    (he : ∀ e s, E e s → E' e s) (hd : ∀ s, D s → D' s) : Triple P' m Q' E' D' := by
  intro s hs
  have := h s (hp s hs)
  cases hm : m s <;> simp only [hm, Post] at this ⊢
  · exact hq _ _ this
  · exact he _ _ this
  · exact hd _ this

theorem Triple.and {P P' : St → Prop} {m : M α} {Q Q' : α → St → Prop} {E E' : Exc → St → Prop}
    {D D' : St → Prop} (h : Triple P m Q E D) (h' : Triple P' m Q' E' D') :
    Triple (fun s => P s ∧ P' s) m (fun a s => Q a s ∧ Q' a s) (fun e s => E e s ∧ E' e s) (fun s => D s ∧ D' s) := by
  intro s hs
  have h1 := h s hs.1
  have h2 := h' s hs.2
  cases hm : m s <;> simp only [hm, Post] at h1 h2 ⊢ <;> exact ⟨h1, h2⟩

theorem Triple.trivial (P : St → Prop) (m : M α) :
    Triple P m (fun _ _ => True) (fun _ _ => True) (fun _ => True) := by
  intro s _
  cases m s <;> simp [Post]

theorem Triple.pure {Q : α → St → Prop} {E : Exc → St → Prop} {D : St → Prop} (a : α) :
    Triple (Q a) (pure a : M α) Q E D := by
  intro s hs
  exact hs

theorem Triple.raise {Q : α → St → Prop} {E : Exc → St → Prop} {D : St → Prop} (e : Exc) :
    Triple (E e) (raise e : M α) Q E D := by
  intro s hs
  exact hs

theorem Triple.bind {P : St → Prop} {m : M α} {f : α → M β} {Q : α → St → Prop} {Q' : β → St → Prop}
    {E : Exc → St → Prop} {D : St → Prop} (hm : Triple P m Q E D) (hf : ∀ a, Triple (Q a) (f a) Q' E D) :
    Triple P (m >>= f) Q' E D := by
  intro s hs
  have h := hm s hs
  show Post Q' E D (M.bind m f s)
  unfold M.bind
  cases hr : m s <;> simp only [hr, Post] at h ⊢
  · exact hf _ _ h
  · exact h
  · exact h

theorem Triple.ite {P : St → Prop} {c : Bool} {m m' : M α} {Q : α → St → Prop} {E : Exc → St → Prop}
    {D : St → Prop} (h : c = true → Triple P m Q E D) (h' : c = false → Triple P m' Q E D) :
    Triple P (if c then m else m') Q E D := by
  cases c
  · simpa using h' rfl
  · simpa using h rfl

theorem Triple.tryExcept {P : St → Prop} {m h : M α} {handles : Exc → Bool} {Q : α → St → Prop}
    {E E' : Exc → St → Prop} {D : St → Prop} (hm : Triple P m Q E D)
    (hh : ∀ e, handles e = true → Triple (E e) h Q E' D)
    (hn : ∀ e s, handles e = false → E e s → E' e s) : Triple P (tryExcept m handles h) Q E' D := by
  intro s hs
  have h0 := hm s hs
  unfold WB.tryExcept
  cases hr : m s <;> simp only [hr, Post] at h0 ⊢
  · exact h0
  · rename_i e s'
    cases hc : handles e <;> simp only [if_true, if_false, Bool.false_eq_true]
    · exact hn e s' hc h0
    · exact hh e hc s' h0
  · exact h0

theorem Triple.tryFinally {P : St → Prop} {m : M α} {fin : M Unit} {Q Q' : α → St → Prop}
    {E E' : Exc → St → Prop} {D : St → Prop} (hm : Triple P m Q E D)
    (hok : ∀ a, Triple (Q a) fin (fun _ => Q' a) E' D)
    (hex : ∀ e, Triple (E e) fin (fun _ => E' e) E' D) : Triple P (tryFinally m fin) Q' E' D := by
  intro s hs
  have h0 := hm s hs
  unfold WB.tryFinally
  cases hr : m s <;> simp only [hr, Post] at h0 ⊢
  · rename_i a s'
    have h1 := hok a s' h0
    cases hf : fin s' <;> simp only [hf, Post] at h1 ⊢ <;> exact h1
  · rename_i e s'
    have h1 := hex e s' h0
    cases hf : fin s' <;> simp only [hf, Post] at h1 ⊢ <;> exact h1
  · exact h0

/-- specification of one OS call from the five cases of its outcome -/
theorem Triple.oscall {P : St → Prop} {Q : α → St → Prop} {E : Exc → St → Prop} {D : St → Prop}
    {sch : Schedule} {op : Op} {eff : St → Except Exc (α × St)} {errEff part : St → St}
    (hok : ∀ s, P s → match eff s with
      | .ok (a, s') => Q a (s'.log op .ok)
      | .error e => E e (s.log op .ok))
    (hperm : ∀ s, P s → E .perm ((errEff s).log op .perm))
    (hos : ∀ s, P s → E .oserr ((errEff s).log op .oserr))
    (hcr : ∀ s, P s → D (s.log op .crash))
    (hpa : ∀ s, P s → D ((part s).log op .crashPartial)) :
    Triple P (oscall sch op eff errEff part) Q E D := by
  intro s hs
  unfold WB.oscall
  cases sch s.trace.length <;> simp only []
  · have := hok s hs
    cases he : eff s with
    | ok p => obtain ⟨a, s'⟩ := p; simp only [he] at this; exact this
    | error e => simp only [he] at this; exact this
  · exact hperm s hs
  · exact hos s hs
  · exact hcr s hs
  · exact hpa s hs

/-- an assertion that holds in every outcome -/
def Inv (I : St → Prop) (m : M α) : Prop := Triple I m (fun _ => I) (fun _ => I) I

theorem M.bind_assoc (m : M α) (f : α → M β) (g : β → M γ) :
    (m >>= f) >>= g = m >>= fun a => f a >>= g := by
  funext s
  show M.bind (M.bind m f) g s = M.bind m (fun a => M.bind (f a) g) s
  unfold M.bind
  cases m s <;> rfl

/-! ### state projections -/

@[simp] theorem log_fs (s : St) (op : Op) (o : Outcome) : (s.log op o).fs = s.fs := rfl
@[simp] theorem log_buf (s : St) (op : Op) (o : Outcome) : (s.log op o).buf = s.buf := rfl
@[simp] theorem log_msg (s : St) (op : Op) (o : Outcome) : (s.log op o).msg = s.msg := rfl
@[simp] theorem log_hist (s : St) (op : Op) (o : Outcome) : (s.log op o).hist = s.hist ++ [s.fs] := rfl
@[simp] theorem log_trace (s : St) (op : Op) (o : Outcome) : (s.log op o).trace = s.trace ++ [(op, o)] := rfl

@[simp] theorem setTmp_target (s : St) (t : Option File) : (s.setTmp t).fs.target = s.fs.target := rfl
@[simp] theorem setTmp_tmp (s : St) (t : Option File) : (s.setTmp t).fs.tmp = t := rfl
@[simp] theorem setTmp_bak (s : St) (t : Option File) : (s.setTmp t).fs.bak = s.fs.bak := rfl
@[simp] theorem setTmp_hist (s : St) (t : Option File) : (s.setTmp t).hist = s.hist := rfl
@[simp] theorem setTmp_trace (s : St) (t : Option File) : (s.setTmp t).trace = s.trace := rfl
@[simp] theorem setTmp_msg (s : St) (t : Option File) : (s.setTmp t).msg = s.msg := rfl
@[simp] theorem setTmp_buf (s : St) (t : Option File) : (s.setTmp t).buf = s.buf := rfl

@[simp] theorem appendTmp_target (s : St) (d : Content) : (s.appendTmp d).fs.target = s.fs.target := by
  unfold St.appendTmp; cases s.fs.tmp <;> rfl
@[simp] theorem appendTmp_bak (s : St) (d : Content) : (s.appendTmp d).fs.bak = s.fs.bak := by
  unfold St.appendTmp; cases s.fs.tmp <;> rfl
@[simp] theorem appendTmp_hist (s : St) (d : Content) : (s.appendTmp d).hist = s.hist := by
  unfold St.appendTmp; cases s.fs.tmp <;> rfl
@[simp] theorem appendTmp_trace (s : St) (d : Content) : (s.appendTmp d).trace = s.trace := by
  unfold St.appendTmp; cases s.fs.tmp <;> rfl
@[simp] theorem appendTmp_buf (s : St) (d : Content) : (s.appendTmp d).buf = s.buf := by
  unfold St.appendTmp; cases s.fs.tmp <;> rfl
@[simp] theorem appendTmp_msg (s : St) (d : Content) : (s.appendTmp d).msg = s.msg := by
  unfold St.appendTmp; cases s.fs.tmp <;> rfl
theorem appendTmp_tmp (s : St) (d : Content) :
    (s.appendTmp d).fs.tmp = s.fs.tmp.map (fun f => { f with content := f.content ++ d }) := by
  unfold St.appendTmp; cases h : s.fs.tmp <;> simp [h]

@[simp] theorem push_fs (s : St) (d : Content) : (s.push d).fs = s.fs := rfl
@[simp] theorem push_hist (s : St) (d : Content) : (s.push d).hist = s.hist := rfl
@[simp] theorem push_trace (s : St) (d : Content) : (s.push d).trace = s.trace := rfl
@[simp] theorem push_msg (s : St) (d : Content) : (s.push d).msg = s.msg := rfl
@[simp] theorem push_buf (s : St) (d : Content) : (s.push d).buf = s.buf ++ d := rfl

@[simp] theorem flush_target (s : St) : s.flush.fs.target = s.fs.target := by simp [St.flush]
@[simp] theorem flush_bak (s : St) : s.flush.fs.bak = s.fs.bak := by simp [St.flush]
@[simp] theorem flush_hist (s : St) : s.flush.hist = s.hist := by simp [St.flush]
@[simp] theorem flush_trace (s : St) : s.flush.trace = s.trace := by simp [St.flush]
@[simp] theorem flush_msg (s : St) : s.flush.msg = s.msg := by simp [St.flush]
@[simp] theorem flush_buf (s : St) : s.flush.buf = [] := rfl
theorem flush_tmp (s : St) :
    s.flush.fs.tmp = s.fs.tmp.map (fun f => { f with content := f.content ++ s.buf }) := by
  simp [St.flush, appendTmp_tmp]

/-! ### safety invariant: every file system state so far is `Safe` -/

def J (sc : Scenario) (s : St) : Prop := Safe sc s.fs ∧ ∀ fs ∈ s.hist, Safe sc fs

theorem J_log {sc : Scenario} {s : St} (op : Op) (o : Outcome) (h : J sc s) : J sc (s.log op o) := by
  refine ⟨h.1, ?_⟩
  intro fs hfs
  simp only [log_hist, List.mem_append, List.mem_singleton] at hfs
  rcases hfs with hfs | rfl
  · exact h.2 fs hfs
  · exact h.1

theorem J_congr {sc : Scenario} {s s' : St} (ht : s'.fs.target = s.fs.target) (hh : s'.hist = s.hist)
    (h : J sc s) : J sc s' := by
  unfold J Safe at *
  rw [ht, hh]
  exact h

theorem J_init (sc : Scenario) : J sc (St.init sc) := by
  refine ⟨⟨Or.inl rfl, rfl⟩, ?_⟩
  intro fs hfs
  simp [St.init] at hfs

theorem J_stat (sch : Schedule) (sc : Scenario) :
    Triple (J sc) (statTarget sch) (fun m s => J sc s ∧ m = sc.orig.mode) (fun _ => J sc) (J sc) := by
  apply Triple.oscall <;> intro s hs
  · exact ⟨J_log _ _ hs, hs.1.2⟩
  all_goals exact J_log _ _ hs

/-! ### invariants of composite programs -/

theorem Inv.bind {I : St → Prop} {m : M α} {f : α → M β} (hm : Inv I m) (hf : ∀ a, Inv I (f a)) :
    Inv I (m >>= f) := Triple.bind hm hf

theorem Inv.pure {I : St → Prop} (a : α) : Inv I (pure a : M α) := fun _ hs => hs

theorem Inv.raise {I : St → Prop} (e : Exc) : Inv I (raise e : M α) := fun _ hs => hs

theorem Inv.ite {I : St → Prop} {c : Bool} {m m' : M α} (h : Inv I m) (h' : Inv I m') :
    Inv I (if c then m else m') := Triple.ite (fun _ => h) (fun _ => h')

theorem Inv.tryFinally {I : St → Prop} {m : M α} {fin : M Unit} (hm : Inv I m) (hf : Inv I fin) :
    Inv I (tryFinally m fin) := Triple.tryFinally hm (fun _ => hf) (fun _ => hf)

theorem Inv.tryExcept {I : St → Prop} {m h : M α} {handles : Exc → Bool} (hm : Inv I m) (hh : Inv I h) :
    Inv I (tryExcept m handles h) := Triple.tryExcept hm (fun _ _ => hh) (fun _ _ _ h => h)

/-- assertions that do not look at `<name>.tmp`, the buffer or the call trace -/
structure Stable (I : St → Prop) : Prop where
  log : ∀ s op o, I s → I (s.log op o)
  frame : ∀ s s' : St, s'.fs.target = s.fs.target → s'.fs.bak = s.fs.bak → s'.msg = s.msg →
    s'.hist = s.hist → I s → I s'

theorem Stable.stat {I : St → Prop} (h : Stable I) (sch : Schedule) : Inv I (statTarget sch) := by
  apply Triple.oscall <;> intro s hs
  all_goals exact h.log _ _ _ hs

theorem Stable.open {I : St → Prop} (h : Stable I) (sch : Schedule) (cm : Nat) : Inv I (openTmp sch cm) := by
  apply Triple.oscall <;> intro s hs
  · exact h.log _ _ _ (h.frame s _ rfl rfl rfl rfl hs)
  all_goals exact h.log _ _ _ hs

theorem Stable.write {I : St → Prop} (h : Stable I) (sch : Schedule) (b : Bool) (op : Op) (d : Content) :
    Inv I (fileWrite sch b op d) := by
  apply Triple.oscall <;> intro s hs
  · cases b
    · exact h.log _ _ _ (h.frame s _ (by simp) (by simp) (by simp) (by simp) hs)
    · exact h.log _ _ _ (h.frame s _ (by simp) (by simp) (by simp) (by simp) hs)
  · exact h.log _ _ _ hs
  · exact h.log _ _ _ hs
  · exact h.log _ _ _ hs
  · cases b
    · exact h.log _ _ _ (h.frame s _ (by simp) (by simp) (by simp) (by simp) hs)
    · exact h.log _ _ _ hs

theorem Stable.close {I : St → Prop} (h : Stable I) (sch : Schedule) : Inv I (fileClose sch) := by
  apply Triple.oscall <;> intro s hs
  · exact h.log _ _ _ (h.frame s _ (by simp) (by simp) (by simp) (by simp) hs)
  · exact h.log _ _ _ (h.frame s _ (by simp) (by simp) (by simp) (by simp) hs)
  · exact h.log _ _ _ (h.frame s _ (by simp) (by simp) (by simp) (by simp) hs)
  · exact h.log _ _ _ hs
  · exact h.log _ _ _ (h.frame s _ (by simp) (by simp) (by simp) (by simp) hs)

theorem Stable.chmod {I : St → Prop} (h : Stable I) (sch : Schedule) (m : Nat) : Inv I (chmodTmp sch m) := by
  apply Triple.oscall <;> intro s hs
  · cases ht : s.fs.tmp <;> simp only []
    · exact h.log _ _ _ hs
    · exact h.log _ _ _ (h.frame s _ rfl rfl rfl rfl hs)
  all_goals exact h.log _ _ _ hs

theorem Stable.remove {I : St → Prop} (h : Stable I) (sch : Schedule) : Inv I (removeTmp sch) := by
  apply Triple.oscall <;> intro s hs
  · cases ht : s.fs.tmp <;> simp only []
    · exact h.log _ _ _ hs
    · exact h.log _ _ _ (h.frame s _ rfl rfl rfl rfl hs)
  all_goals exact h.log _ _ _ hs

theorem Stable.writeBlock {I : St → Prop} (h : Stable I) (sch : Schedule) (sc : Scenario) :
    Inv I (writeBlock sch sc) := by
  unfold WB.writeBlock
  refine Inv.bind (h.open sch sc.createMode) fun _ => ?_
  refine Inv.tryFinally ?_ (h.close sch)
  exact Inv.bind (h.write _ _ _ _) fun _ => h.write _ _ _ _

theorem Stable.finallyBlock {I : St → Prop} (h : Stable I) (sch : Schedule) : Inv I (finallyBlock sch) := by
  unfold WB.finallyBlock
  exact Inv.tryExcept (h.remove sch) (Inv.pure ())

theorem J_stable (sc : Scenario) : Stable (J sc) :=
  ⟨fun _ op o h => J_log op o h, fun _ _ ht _ _ hh h => J_congr ht hh h⟩

theorem J_copy2 (sch : Schedule) (sc : Scenario) (cm : Nat) : Inv (J sc) (copy2Bak sch cm) := by
  apply Triple.oscall <;> intro s hs
  · exact J_log _ _ (J_congr rfl rfl hs)
  · exact J_log _ _ hs
  · exact J_log _ _ hs
  · exact J_log _ _ hs
  · exact J_log _ _ (J_congr (s := s) rfl rfl hs)

/-- the only call that changes the target: safe when the temporary file is complete -/
theorem J_replace (sch : Schedule) (sc : Scenario) :
    Triple (fun s => J sc s ∧ s.fs.tmp = some ⟨sc.fixed, sc.orig.mode⟩) (replaceTmp sch)
      (fun _ => J sc) (fun _ => J sc) (J sc) := by
  apply Triple.oscall <;> intro s hs
  · simp only [hs.2]
    refine J_log _ _ ⟨⟨Or.inr rfl, rfl⟩, hs.1.2⟩
  all_goals exact J_log _ _ hs.1

/-! ### what the temporary file holds along the normal path -/

/-- disk content of `<name>.tmp` followed by the unflushed buffer -/
def T (c : Content) (s : St) : Prop := ∃ f, s.fs.tmp = some f ∧ f.content ++ s.buf = c

abbrev tt2 {α : Type} : α → St → Prop := fun _ _ => True
abbrev tt1 : St → Prop := fun _ => True

theorem T_open (sch : Schedule) (cm : Nat) :
    Triple tt1 (openTmp sch cm) (fun _ => T []) tt2 tt1 := by
  apply Triple.oscall <;> intro s _ <;> try trivial
  exact ⟨_, rfl, rfl⟩

theorem T_push {c : Content} {s : St} (d : Content) (h : T c s) : T (c ++ d) (s.push d) := by
  obtain ⟨f, hf, hc⟩ := h
  exact ⟨f, hf, by simp [← hc]⟩

theorem T_flush {c : Content} {s : St} (h : T c s) : ∃ f, s.flush.fs.tmp = some f ∧ f.content = c := by
  obtain ⟨f, hf, hc⟩ := h
  exact ⟨_, by rw [flush_tmp, hf]; rfl, hc⟩

theorem T_flush' {c : Content} {s : St} (h : T c s) : T c s.flush := by
  obtain ⟨f, hf, hc⟩ := T_flush h
  exact ⟨f, hf, by simp [hc]⟩

theorem T_write (sch : Schedule) (b : Bool) (op : Op) (c d : Content) :
    Triple (T c) (fileWrite sch b op d) (fun _ => T (c ++ d)) tt2 tt1 := by
  apply Triple.oscall <;> intro s hs <;> try trivial
  cases b
  · exact T_flush' (T_push d hs)
  · exact T_push d hs

theorem T_close (sch : Schedule) (c : Content) :
    Triple (T c) (fileClose sch) (fun _ s => ∃ f, s.fs.tmp = some f ∧ f.content = c) tt2 tt1 := by
  apply Triple.oscall <;> intro s hs <;> try trivial
  exact T_flush hs

theorem T_chmod (sch : Schedule) (c : Content) (m : Nat) :
    Triple (fun s => ∃ f, s.fs.tmp = some f ∧ f.content = c) (chmodTmp sch m)
      (fun _ s => s.fs.tmp = some ⟨c, m⟩) tt2 tt1 := by
  apply Triple.oscall <;> intro s hs <;> try trivial
  obtain ⟨f, hf, hc⟩ := hs
  simp only [hf]
  show some _ = some _
  rw [← hc]

theorem T_writeBlock (sch : Schedule) (sc : Scenario) :
    Triple tt1 (writeBlock sch sc) (fun _ s => ∃ f, s.fs.tmp = some f ∧ f.content = sc.fixed) tt2 tt1 := by
  unfold writeBlock
  apply Triple.bind (T_open sch sc.createMode)
  intro _
  apply Triple.tryFinally (Q := fun _ => T sc.fixed) (E := tt2)
  · apply Triple.bind (Q := fun _ => T sc.body)
    · simpa using T_write sch sc.buffered .writeBody [] sc.body
    · intro _
      exact T_write sch sc.buffered .writeNl sc.body sc.nl
  · intro _
    exact T_close sch sc.fixed
  · intro _
    exact Triple.trivial _ _

theorem tryBlock_eq (sch : Schedule) (sc : Scenario) (m : Nat) :
    tryBlock sch sc m = (writeBlock sch sc >>= fun _ => chmodTmp sch m) >>= fun _ => replaceTmp sch := by
  unfold tryBlock
  rw [M.bind_assoc]

theorem T_prefix (sch : Schedule) (sc : Scenario) (m : Nat) :
    Triple tt1 (writeBlock sch sc >>= fun _ => chmodTmp sch m)
      (fun _ s => s.fs.tmp = some ⟨sc.fixed, m⟩) tt2 tt1 :=
  Triple.bind (T_writeBlock sch sc) (fun _ => T_chmod sch sc.fixed m)

theorem J_tryBlock (sch : Schedule) (sc : Scenario) : Inv (J sc) (tryBlock sch sc sc.orig.mode) := by
  rw [tryBlock_eq]
  refine Triple.bind (Q := fun _ s => J sc s ∧ s.fs.tmp = some ⟨sc.fixed, sc.orig.mode⟩) ?_ fun _ => J_replace sch sc
  have h1 : Inv (J sc) (writeBlock sch sc >>= fun _ => chmodTmp sch sc.orig.mode) :=
    Inv.bind ((J_stable sc).writeBlock sch sc) fun _ => (J_stable sc).chmod sch _
  exact (h1.and (T_prefix sch sc sc.orig.mode)).weaken (fun s hs => ⟨hs, trivial⟩) (fun _ _ h => h)
    (fun _ _ h => h.1) (fun _ h => h.1)

theorem J_writeVhdlFile (sch : Schedule) (sc : Scenario) : Inv (J sc) (writeVhdlFile sch sc) := by
  unfold writeVhdlFile
  refine Triple.bind (J_stat sch sc) fun mode => ?_
  intro s hs
  obtain ⟨hJ, rfl⟩ := hs
  refine Inv.tryFinally (Inv.tryExcept (J_tryBlock sch sc) ?_) ((J_stable sc).finallyBlock sch) s hJ
  intro s hs
  exact J_congr (s := s) rfl rfl hs

theorem J_applyRules (sch : Schedule) (sc : Scenario) : Inv (J sc) (applyRules sch sc) := by
  unfold applyRules
  refine Inv.ite (Inv.pure ()) (Inv.ite (Inv.pure ()) (Inv.ite ?_ (Inv.pure ())))
  refine Inv.bind (Inv.ite (J_copy2 _ _ _) (Inv.pure ())) fun _ => ?_
  refine Inv.bind (Inv.ite (Inv.raise _) (Inv.pure ())) fun _ => ?_
  exact Inv.ite (J_writeVhdlFile sch sc) (Inv.pure ())

theorem Stable.and {I I' : St → Prop} (h : Stable I) (h' : Stable I') : Stable (fun s => I s ∧ I' s) :=
  ⟨fun s op o hs => ⟨h.log s op o hs.1, h'.log s op o hs.2⟩,
   fun s s' a b c d hs => ⟨h.frame s s' a b c d hs.1, h'.frame s s' a b c d hs.2⟩⟩

/-! ### the temporary file is removed -/

def NoFailedRemove (s : St) : Prop := ∀ o, (Op.remove, o) ∈ s.trace → o = .ok

/-- unless `os.remove` itself failed, `<name>.tmp` does not exist -/
def Cleaned (s : St) : Prop := NoFailedRemove s → s.fs.tmp = none

theorem Cleaned_of_none {s : St} (h : s.fs.tmp = none) : Cleaned s := fun _ => h

theorem Cleaned_of_failed {s : St} {o : Outcome} (ho : o ≠ .ok) : Cleaned (s.log .remove o) := by
  intro hn
  exact absurd (hn o (by simp)) ho

theorem C_finallyBlock (sch : Schedule) :
    Triple tt1 (finallyBlock sch) (fun _ => Cleaned) (fun _ => Cleaned) tt1 := by
  unfold finallyBlock
  apply Triple.tryExcept (E := fun e s => (e = .notFound → s.fs.tmp = none) ∧ (e ≠ .notFound → Cleaned s))
  · apply Triple.oscall <;> intro s _ <;> try trivial
    · cases ht : s.fs.tmp <;> simp only []
      · exact ⟨fun _ => ht, fun h => absurd rfl h⟩
      · exact Cleaned_of_none rfl
    · exact ⟨fun h => (by cases h), fun _ => Cleaned_of_failed (by decide)⟩
    · exact ⟨fun h => (by cases h), fun _ => Cleaned_of_failed (by decide)⟩
  · intro e he s hs
    have : e = .notFound := by simpa using he
    exact Cleaned_of_none (hs.1 this)
  · intro e s he hs
    exact hs.2 (by intro h; subst h; simp at he)

theorem C_writeVhdlFile (sch : Schedule) (sc : Scenario) :
    Triple (fun s => s.fs.tmp = none) (writeVhdlFile sch sc) (fun _ => Cleaned) (fun _ => Cleaned) tt1 := by
  unfold writeVhdlFile
  refine Triple.bind (Q := tt2) ?_ fun mode => ?_
  · apply Triple.oscall <;> intro s hs <;> try trivial
    · exact Cleaned_of_none hs
    · exact Cleaned_of_none hs
  · exact Triple.tryFinally (Triple.trivial _ _) (fun _ => C_finallyBlock sch) (fun _ => C_finallyBlock sch)

theorem C_copy2 (sch : Schedule) (cm : Nat) :
    Triple (fun s => s.fs.tmp = none) (copy2Bak sch cm) (fun _ s => s.fs.tmp = none) (fun _ => Cleaned) tt1 := by
  apply Triple.oscall <;> intro s hs <;> try trivial
  · exact Cleaned_of_none hs
  · exact Cleaned_of_none hs

theorem C_applyRules (sch : Schedule) (sc : Scenario) :
    Triple (fun s => s.fs.tmp = none) (applyRules sch sc) (fun _ => Cleaned) (fun _ => Cleaned) tt1 := by
  unfold applyRules
  have hp : Triple (fun s => s.fs.tmp = none) (pure () : M Unit) (fun _ => Cleaned) (fun _ => Cleaned) tt1 :=
    fun s hs => Cleaned_of_none hs
  refine Triple.ite (fun _ => hp) fun _ => Triple.ite (fun _ => hp) fun _ => Triple.ite (fun _ => ?_) fun _ => hp
  refine Triple.bind (Q := fun _ s => s.fs.tmp = none) (Triple.ite (fun _ => C_copy2 sch _) fun _ => fun s hs => hs) fun _ => ?_
  refine Triple.bind (Q := fun _ s => s.fs.tmp = none) (Triple.ite (fun _ => fun s hs => Cleaned_of_none hs) fun _ => fun s hs => hs) fun _ => ?_
  exact Triple.ite (fun _ => C_writeVhdlFile sch sc) fun _ => hp

/-! ### the backup stays faithful -/

def B (o : File) (s : St) : Prop := s.fs.bak = some o ∧ ∀ fs ∈ s.hist, fs.bak = some o

theorem B_stable (o : File) : Stable (B o) := by
  refine ⟨?_, ?_⟩
  · intro s op oc h
    refine ⟨h.1, ?_⟩
    intro fs hfs
    simp only [log_hist, List.mem_append, List.mem_singleton] at hfs
    rcases hfs with hfs | rfl
    · exact h.2 fs hfs
    · exact h.1
  · intro s s' _ hb _ hh h
    unfold B at *
    rw [hb, hh]
    exact h

theorem B_replace (o : File) (sch : Schedule) : Inv (B o) (replaceTmp sch) := by
  apply Triple.oscall <;> intro s hs
  · cases ht : s.fs.tmp <;> simp only []
    · exact (B_stable o).log _ _ _ hs
    · exact (B_stable o).log _ _ _ ⟨hs.1, hs.2⟩
  all_goals exact (B_stable o).log _ _ _ hs

theorem Stable.writeVhdlFile {I : St → Prop} (h : Stable I) (hr : ∀ sch, Inv I (replaceTmp sch))
    (hm : ∀ s : St, I s → I { s with msg := true }) (sch : Schedule) (sc : Scenario) :
    Inv I (writeVhdlFile sch sc) := by
  unfold WB.writeVhdlFile
  refine Inv.bind (h.stat sch) fun mode => ?_
  refine Inv.tryFinally (Inv.tryExcept ?_ fun s hs => hm s hs) (h.finallyBlock sch)
  unfold tryBlock
  exact Inv.bind (h.writeBlock sch sc) fun _ => Inv.bind (h.chmod sch mode) fun _ => hr sch

theorem B_writeVhdlFile (o : File) (sch : Schedule) (sc : Scenario) : Inv (B o) (writeVhdlFile sch sc) :=
  (B_stable o).writeVhdlFile (B_replace o) (fun _ hs => hs) sch sc

/-! ### what a normal return says about the target -/

/-- `msg` (the "Could not write fixes back" message) tells which of the two contents the target has -/
def W (sc : Scenario) (s : St) : Prop :=
  (s.msg = false ∧ s.fs.target = ⟨sc.fixed, sc.orig.mode⟩) ∨ (s.msg = true ∧ s.fs.target = sc.orig)

/-- untouched so far -/
def O (sc : Scenario) (s : St) : Prop := s.fs.target = sc.orig ∧ s.msg = false

theorem O_stable (sc : Scenario) : Stable (O sc) :=
  ⟨fun _ _ _ h => h, fun s s' ht _ hm _ h => by unfold O at *; rw [ht, hm]; exact h⟩

theorem W_stable (sc : Scenario) : Stable (W sc) :=
  ⟨fun _ _ _ h => h, fun s s' ht _ hm _ h => by unfold W at *; rw [ht, hm]; exact h⟩

theorem O_copy2 (sch : Schedule) (sc : Scenario) (cm : Nat) : Inv (O sc) (copy2Bak sch cm) := by
  apply Triple.oscall <;> intro s hs <;> exact hs

theorem W_writeVhdlFile (sch : Schedule) (sc : Scenario) :
    Triple (O sc) (writeVhdlFile sch sc) (fun _ => W sc) tt2 tt1 := by
  unfold writeVhdlFile
  refine Triple.bind (Q := fun m s => O sc s ∧ m = sc.orig.mode) ?_ fun mode => ?_
  · apply Triple.oscall <;> intro s hs <;> try trivial
    exact ⟨hs, by show s.fs.target.mode = _; rw [hs.1]⟩
  intro s hs
  obtain ⟨hO, rfl⟩ := hs
  refine Triple.tryFinally (P := O sc) (Q := fun _ => W sc) (E := tt2) ?_
    (fun _ => ((W_stable sc).finallyBlock sch).weaken (fun _ h => h) (fun _ _ h => h) (fun _ _ _ => trivial) (fun _ _ => trivial))
    (fun _ => Triple.trivial _ _) s hO
  refine Triple.tryExcept (E := fun _ => O sc) ?_ (fun e _ s hs => Or.inr ⟨rfl, hs.1⟩) (fun _ _ _ _ => trivial)
  rw [tryBlock_eq]
  refine Triple.bind (Q := fun _ s => O sc s ∧ s.fs.tmp = some ⟨sc.fixed, sc.orig.mode⟩) ?_ fun _ => ?_
  · have h1 : Inv (O sc) (writeBlock sch sc >>= fun _ => chmodTmp sch sc.orig.mode) :=
      Inv.bind ((O_stable sc).writeBlock sch sc) fun _ => (O_stable sc).chmod sch _
    exact (h1.and (T_prefix sch sc sc.orig.mode)).weaken (fun s hs => ⟨hs, trivial⟩) (fun _ _ h => h)
      (fun _ _ h => h.1) (fun _ _ => trivial)
  · apply Triple.oscall <;> intro s hs <;> try trivial
    · simp only [hs.2]
      exact Or.inl ⟨hs.1.2, rfl⟩
    · exact hs.1
    · exact hs.1

end Vsgm.WB
