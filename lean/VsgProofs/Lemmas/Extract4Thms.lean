/-
  Slice-exactness of the extractors of `VsgModel/Engine/Extract4.lean` (WP3).
-/
import VsgModel.Engine.Extract4
import VsgProofs.Lemmas.Extract2
import VsgProofs.Lemmas.Extract3Thms
namespace Vsgm.TM.X.Lemmas
open Vsgm Vsgm.TM Vsgm.TM.Lemmas Vsgm.TM.X

variable {α : Type}

/-! ### blank lines above -/

theorem blankLinesAboveIdx_exact (uid : α → Option Key) (f : List α) (idxs : List Nat) (r : List (Toi α))
    (h : blankLinesAboveIdx f (processTokens uid f) idxs = .ok r) :
    ∀ t ∈ r, t.Exact f ∧ ∃ i ∈ idxs, t.line = lineNo uid f i := by
  intro t ht
  unfold blankLinesAboveIdx at h
  obtain ⟨i, hi, hb⟩ := mem_filterMapE _ _ _ h t ht
  simp only [bind_ok] at hb
  obtain ⟨line, hl, e0, _, hb⟩ := hb
  split at hb
  · cases hb
  · split at hb
    · simp [pure, Except.pure] at hb
    · simp only [bind_ok] at hb
      obtain ⟨s, hs, hb⟩ := hb
      split at hb
      · simp only [pure_ok, Option.some.injEq] at hb
        subst hb
        have := crAfter_fresh_lt uid f _ s hs
        exact ⟨exact_of_slice f _ (s : Int) _ rfl (by omega) (by simp; omega) rfl, i, hi,
          by simpa using lineOf_fresh uid f i line hl⟩
      · simp [pure, Except.pure] at hb

/-! ### blank lines below -/

theorem blankBelowIdx_exact (uid : α → Option Key) (f : List α) (idxs : List Nat) (r : List (Toi α))
    (h : blankBelowIdx f (processTokens uid f) idxs = .ok r) :
    ∀ t ∈ r, t.Exact f ∧ ∃ i ∈ idxs, t.line = lineNo uid f i := by
  intro t ht
  unfold blankBelowIdx at h
  obtain ⟨i, hi, hb⟩ := mem_filterMapE _ _ _ h t ht
  split at hb
  · simp [pure, Except.pure] at hb
  · simp only [bind_ok] at hb
    obtain ⟨line, hl, c0, hc0, hb⟩ := hb
    split at hb
    · simp [pure, Except.pure] at hb
    · split at hb
      · simp only [pure_ok, Option.some.injEq] at hb
        subst hb
        have := fresh_cr_lt uid f _ c0 hc0
        exact ⟨exact_of_slice f _ ((c0 : Int) + 1) _ rfl (by omega) (by omega) rfl, i, hi,
          by simpa using lineOf_fresh uid f i line hl⟩
      · simp [pure, Except.pure] at hb

theorem blankBelow_exact (uid : α → Option Key) (f : List α) (hier : α → Option Int) (cs : List Cls) (lh : Option (List Int))
    (r : List (Toi α)) (h : blankBelow f (processTokens uid f) hier cs lh = .ok r) : ∀ t ∈ r, t.Exact f := by
  intro t ht
  unfold blankBelow at h
  simp only [bind_ok] at h
  obtain ⟨idxs, _, h⟩ := h
  exact (blankBelowIdx_exact uid f idxs r h t ht).1

/-! ### tokens at the beginning of a line, over any list of positions of the file -/

theorem bolAt_exact (uid : α → Option Key) (f : List α) (idxs : List Nat) (r : List (Toi α))
    (h : bolAt f (processTokens uid f) idxs = .ok r) : ∀ t ∈ r, t.Exact f := by
  intro t ht
  unfold bolAt at h
  obtain ⟨i, hi, hb⟩ := mem_filterMapE _ _ _ h t ht
  split at hb
  · simp only [bind_ok, pure_ok, Option.some.injEq] at hb
    obtain ⟨line, _, x, hx, rfl⟩ := hb
    exact exact_of_single f _ i x rfl (pyIdx_nat_ok f i x hx) rfl
  · split at hb
    · rename_i _ hc
      simp only [bind_ok, pure_ok, Option.some.injEq] at hb
      obtain ⟨line, _, rfl⟩ := hb
      have hw : (processTokens uid f).isAt (some wsKey) ((i : Int) - 1) = true := by
        simp only [Bool.and_eq_true] at hc; exact hc.2
      have h1 : 0 ≤ (i : Int) - 1 := isAt_nonneg _ _ _ hw
      -- the whitespace position is listed by the fresh index, so it is a position of the file
      have hlt : ((i : Int) - 1).toNat < f.length := by
        unfold Index.isAt at hw
        simp only at hw
        cases hf : (processTokens uid f).dmap.find wsKey with
        | none => simp [hf] at hw
        | some l =>
          simp only [hf] at hw
          unfold memInt at hw
          simp only [Bool.and_eq_true, decide_eq_true_eq, List.contains_iff_mem] at hw
          have hm : ((i : Int) - 1).toNat ∈ (processTokens uid f).get (some wsKey) := by
            show ((i : Int) - 1).toNat ∈ ((processTokens uid f).dmap.find wsKey).getD []
            rw [hf]; exact hw.2
          exact fresh_get_lt uid f (some wsKey) _ hm
      exact exact_of_slice f _ ((i : Int) - 1) ((i : Int) + 1) rfl h1 (by omega) rfl
    · simp [pure, Except.pure] at hb

/-! ### subprogram bodies -/

theorem foldl_inv {β σ : Type} (g : σ → β → σ) (I : σ → Prop) (l : List β) (s0 : σ)
    (hstep : ∀ s b, b ∈ l → I s → I (g s b)) (h0 : I s0) : I (l.foldl g s0) := by
  induction l generalizing s0 with
  | nil => exact h0
  | cons b bs ih =>
    simp only [List.foldl_cons]
    exact ih _ (fun s b' hb' => hstep s b' (List.mem_cons_of_mem _ hb')) (hstep s0 b (List.mem_cons_self ..) h0)

theorem innerPair_fst (ss es : List Nat) (p : Nat × Nat) (h : innerPair ss es = .ok (some p)) : p.1 ∈ ss := by
  unfold innerPair at h
  split at h
  · cases h
  · rename_i last _
    injection h with h
    have key : ∀ q : Nat × Nat, (ss.foldl (fun (acc : Nat × Option (Nat × Nat)) s =>
        es.foldl (fun (acc : Nat × Option (Nat × Nat)) e =>
          if decide (e > s) && decide (e - s < acc.1) then (e - s, some (s, e)) else acc) acc) (last, none)).2 = some q → q.1 ∈ ss := by
      refine foldl_inv _ (fun (acc : Nat × Option (Nat × Nat)) => ∀ q : Nat × Nat, acc.2 = some q → q.1 ∈ ss) ss (last, none) ?_ (by simp)
      intro acc s hs hacc
      refine foldl_inv _ (fun (acc : Nat × Option (Nat × Nat)) => ∀ q : Nat × Nat, acc.2 = some q → q.1 ∈ ss) es acc ?_ hacc
      intro acc' e _ hacc' q hq
      split at hq
      · simp only [Option.some.injEq] at hq; subst hq; exact hs
      · exact hacc' q hq
    exact key p h

theorem innerPairs_fst (n : Nat) (ss es : List Nat) (ps : List (Nat × Nat)) (h : innerPairs n ss es = .ok (some ps)) :
    ∀ p ∈ ps, p.1 ∈ ss := by
  induction n generalizing ss es ps with
  | zero => simp [innerPairs] at h; subst h; simp
  | succ n ih =>
    unfold innerPairs at h
    split at h
    · injection h with h; injection h with h; subst h; simp
    · simp only [bind_ok] at h
      obtain ⟨p?, hp, h⟩ := h
      cases p? with
      | none => simp at h
      | some p =>
        simp only [bind_ok] at h
        obtain ⟨r, hr, h⟩ := h
        cases r with
        | none => simp at h
        | some rest =>
          simp only [Option.map_some] at h
          injection h with h; injection h with h; subst h
          intro q hq
          rcases List.mem_cons.mp hq with rfl | hq
          · exact innerPair_fst ss es q hp
          · exact List.mem_of_mem_erase (ih _ _ rest hr q hq)

theorem subprogramBody_exact (uid : α → Option Key) (f : List α) (K : SubKeys) (r : List (Toi α))
    (h : subprogramBody f (processTokens uid f) K = .ok (some r)) :
    ∀ t ∈ r, t.Exact f ∧ ∃ s : Nat, t.start = some (s : Int) ∧ t.line = lineNo uid f s := by
  intro t ht
  unfold subprogramBody at h
  simp only [bind_ok] at h
  obtain ⟨res, hres, h⟩ := h
  cases res with
  | none => simp at h
  | some pairs =>
    simp only [bind_ok] at h
    obtain ⟨l, hl, h⟩ := h
    injection h with h; injection h with h; subst h
    obtain ⟨p, hp, hb⟩ := mem_mapE _ _ _ hl t ht
    simp only [bind_ok, pure_ok] at hb
    obtain ⟨line, hline, rfl⟩ := hb
    have hp1 : p ∈ pairs := by
      obtain ⟨s, _, hp⟩ := List.mem_flatMap.mp hp
      exact (List.mem_filter.mp (List.mem_filter.mp hp).1).1
    have hs := innerPairs_fst _ _ _ pairs hres p hp1
    have hlt : p.1 < f.length := by
      unfold sortNat at hs
      rw [List.mem_mergeSort] at hs
      rcases List.mem_append.mp hs with h' | h'
      · exact fresh_get_lt uid f _ _ h'
      · exact fresh_get_lt uid f _ _ h'
    exact ⟨exact_of_slice f _ (p.1 : Int) _ rfl (by omega) (by simp; omega) rfl, p.1, rfl,
      by simpa using lineOf_fresh uid f p.1 line hline⟩

theorem subprogramBodyOf_exact (V : View α) (f : List α) (K : SubKeys) (kw desig : Nat) (r : List (Toi α))
    (h : subprogramBodyOf V f (processTokens V.uid f) K kw desig = .ok (some r)) :
    ∀ t ∈ r, t.Exact f ∧ ∃ s : Nat, t.start = some (s : Int) ∧ t.line = lineNo V.uid f s := by
  intro t ht
  unfold subprogramBodyOf at h
  simp only [bind_ok] at h
  obtain ⟨res, hres, h⟩ := h
  cases res with
  | none => simp at h
  | some l =>
    simp only [bind_ok] at h
    obtain ⟨l', hl', h⟩ := h
    injection h with h; injection h with h; subst h
    obtain ⟨t0, ht0, hb⟩ := mem_filterMapE _ _ _ hl' t ht
    have h0 := subprogramBody_exact V.uid f K l hres t0 ht0
    split at hb
    · cases hb
    · split at hb
      · split at hb
        · cases hb
        · simp only [pure_ok, Option.some.injEq] at hb
          subst hb
          obtain ⟨⟨s, hs, hle, he⟩, s', hs', hline⟩ := h0
          exact ⟨⟨s, hs, hle, he⟩, s', hs', hline⟩
      · simp [pure, Except.pure] at hb

end Vsgm.TM.X.Lemmas
