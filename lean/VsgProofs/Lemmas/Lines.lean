/-
  Helper lemmas about the line layer (`VsgModel/Lex/Lines.lean`): what `rstrip` removes,
  universal-newline reading, every pass of `_processFile` keeps the concatenation of the
  values, `comment.classify` never indexes out of range, `get_lines` of the processed lines.
-/
import VsgModel.Lex.Lines
import VsgProofs.Lemmas.Lex
namespace Vsgm.Lex
open Vsgm

/-! ### rstrip -/

theorem rstripP_all (p : Char → Bool) (s : Str) (h : s.all p = true) : rstripP p s = [] := by
  induction s with
  | nil => rfl
  | cons c cs ih =>
    simp only [List.all_cons, Bool.and_eq_true] at h
    simp [rstripP, ih h.2, h.1]

theorem rstripP_append_all (p : Char → Bool) (s t : Str) (h : t.all p = true) :
    rstripP p (s ++ t) = rstripP p s := by
  induction s with
  | nil => simp [rstripP, rstripP_all p t h]
  | cons c cs ih => simp only [List.cons_append, rstripP, ih]

/-- `rstrip` only removes a suffix, and that suffix consists of stripped characters -/
theorem rstripP_suffix (p : Char → Bool) (s : Str) :
    ∃ t, s = rstripP p s ++ t ∧ t.all p = true := by
  induction s with
  | nil => exact ⟨[], rfl, rfl⟩
  | cons c cs ih =>
    obtain ⟨t, ht, hp⟩ := ih
    simp only [rstripP]
    by_cases hc : ((rstripP p cs).isEmpty && p c) = true
    · simp only [hc, if_true]
      simp only [Bool.and_eq_true, List.isEmpty_iff] at hc
      refine ⟨c :: cs, rfl, ?_⟩
      rw [ht, hc.1]; simp [hc.2, hp]
    · simp only [hc]
      exact ⟨t, by simp only [Bool.false_eq_true, if_false, List.cons_append, ← ht], hp⟩

/-- what is left does not end with a stripped character -/
theorem rstripP_getLast (p : Char → Bool) (s : Str) (c : Char)
    (h : (rstripP p s).getLast? = some c) : p c = false := by
  induction s with
  | nil => simp [rstripP] at h
  | cons d ds ih =>
    simp only [rstripP] at h
    by_cases hc : ((rstripP p ds).isEmpty && p d) = true
    · simp [hc] at h
    · simp only [hc, Bool.false_eq_true, if_false] at h
      cases hr : rstripP p ds with
      | nil =>
        rw [hr] at h hc
        simp at h hc
        subst h; exact hc
      | cons e es =>
        rw [hr] at h
        rw [List.getLast?_cons_cons] at h
        exact ih (by rw [hr]; exact h)

/-- a string that does not end with a stripped character is returned as it is -/
theorem rstripP_id (p : Char → Bool) (s : Str) (h : ∀ c, s.getLast? = some c → p c = false) :
    rstripP p s = s := by
  induction s with
  | nil => rfl
  | cons d ds ih =>
    simp only [rstripP]
    cases ds with
    | nil =>
      have := h d rfl
      simp [rstripP, this]
    | cons e es =>
      have ih' := ih (by intro c hc; exact h c (by rw [List.getLast?_cons_cons]; exact hc))
      rw [ih']; simp

theorem rstripP_idem (p : Char → Bool) (s : Str) : rstripP p (rstripP p s) = rstripP p s :=
  rstripP_id p _ (fun c hc => rstripP_getLast p s c hc)

theorem rstripP_of_no (p : Char → Bool) (s : Str) (h : ∀ c ∈ s, p c = false) : rstripP p s = s :=
  rstripP_id p s (fun c hc => h c (List.mem_of_getLast? hc))

theorem stripEol_suffix (s : Str) : ∃ t, s = stripEol s ++ t ∧ ∀ c ∈ t, c = '\n' ∨ c = '\r' := by
  obtain ⟨t, h1, h2⟩ := rstripP_suffix isEolChar s
  refine ⟨t, h1, ?_⟩
  intro c hc
  have := List.all_eq_true.1 h2 c hc
  simpa [isEolChar] using this

theorem stripEol_append_eol (s t : Str) (h : ∀ c ∈ t, c = '\n' ∨ c = '\r') :
    stripEol (s ++ t) = stripEol s := by
  apply rstripP_append_all
  rw [List.all_eq_true]
  intro c hc
  rcases h c hc with e | e <;> subst e <;> rfl

theorem stripEol_of_no_eol (s : Str) (h : ∀ c ∈ s, c ≠ '\n' ∧ c ≠ '\r') : stripEol s = s := by
  apply rstripP_of_no
  intro c hc
  have := h c hc
  simp [isEolChar, this.1, this.2]

theorem stripNlCr_of_no_eol (s : Str) (h : ∀ c ∈ s, c ≠ '\n' ∧ c ≠ '\r') : stripNlCr s = s := by
  unfold stripNlCr
  rw [rstripP_of_no (· == '\n') s (by intro c hc; simp [(h c hc).1])]
  exact rstripP_of_no _ s (by intro c hc; simp [(h c hc).2])

/-- the second strip (`_processFile`) finds nothing to do on a line `read_vhdlfile` delivered -/
theorem stripNlCr_stripEol (s : Str) : stripNlCr (stripEol s) = stripEol s := by
  unfold stripNlCr
  have h : ∀ c, (stripEol s).getLast? = some c → isEolChar c = false :=
    fun c hc => rstripP_getLast isEolChar s c hc
  have h1 : rstripP (· == '\n') (stripEol s) = stripEol s := by
    apply rstripP_id
    intro c hc
    have := h c hc
    simp only [isEolChar, Bool.or_eq_false_iff] at this
    exact this.1
  rw [h1]
  apply rstripP_id
  intro c hc
  have := h c hc
  simp only [isEolChar, Bool.or_eq_false_iff] at this
  exact this.2

/-! ### universal newlines -/

/-- the line contains neither `\n` nor `\r` -/
def NoEol (l : Str) : Prop := ∀ c ∈ l, c ≠ '\n' ∧ c ≠ '\r'

theorem iterGo_prefix (l : Str) (hl : NoEol l) (cur : Str) (b : Bool) (X : Str) :
    iterGo (l ++ X) cur b = iterGo X (cur ++ l) (b && l.isEmpty) := by
  induction l generalizing cur b with
  | nil => simp
  | cons c l ih =>
    have hc := hl c (List.mem_cons_self ..)
    have hl' : NoEol l := fun d hd => hl d (List.mem_cons_of_mem _ hd)
    simp only [List.cons_append, iterGo, hc.1, hc.2, if_false]
    rw [ih hl']
    simp

theorem iterGo_lines (eol : Str) (S : Bool → Prop)
    (hstep : ∀ l rest b, NoEol l → S b →
      ∃ b', S b' ∧ iterGo (l ++ (eol ++ rest)) [] b = (l ++ ['\n']) :: iterGo rest [] b')
    (ls : List Str) (last : Str) (b : Bool) (hb : S b) (hls : ∀ l ∈ ls, NoEol l) (hlast : NoEol last) :
    iterGo (joinEol eol ls ++ last) [] b =
      ls.map (· ++ ['\n']) ++ (if last.isEmpty then [] else [last]) := by
  induction ls generalizing b with
  | nil =>
    have := iterGo_prefix last hlast [] b []
    simp only [List.append_nil, List.nil_append] at this
    simp only [joinEol, List.map_nil, List.flatten_nil, List.nil_append]
    rw [this]; simp [iterGo]
  | cons l ls ih =>
    obtain ⟨b', hb', hs⟩ := hstep l (joinEol eol ls ++ last) b (hls l (List.mem_cons_self ..)) hb
    have : joinEol eol (l :: ls) ++ last = l ++ (eol ++ (joinEol eol ls ++ last)) := by
      simp [joinEol]
    rw [this, hs, ih b' hb' (fun l' h' => hls l' (List.mem_cons_of_mem _ h'))]
    simp

theorem step_nl (l rest : Str) (b : Bool) (hl : NoEol l) (hb : b = false) :
    ∃ b', b' = false ∧ iterGo (l ++ (['\n'] ++ rest)) [] b = (l ++ ['\n']) :: iterGo rest [] b' := by
  subst hb
  refine ⟨false, rfl, ?_⟩
  rw [iterGo_prefix l hl]
  simp [iterGo]

theorem step_cr (l rest : Str) (b : Bool) (hl : NoEol l) (_hb : True) :
    ∃ b', True ∧ iterGo (l ++ (['\r'] ++ rest)) [] b = (l ++ ['\n']) :: iterGo rest [] b' := by
  refine ⟨true, trivial, ?_⟩
  rw [iterGo_prefix l hl]
  simp [iterGo]

theorem step_crlf (l rest : Str) (b : Bool) (hl : NoEol l) (hb : b = false) :
    ∃ b', b' = false ∧ iterGo (l ++ (['\r', '\n'] ++ rest)) [] b = (l ++ ['\n']) :: iterGo rest [] b' := by
  subst hb
  refine ⟨false, rfl, ?_⟩
  rw [iterGo_prefix l hl]
  simp [iterGo]

/-- the three line ends -/
def IsEol (eol : Str) : Prop := eol = ['\n'] ∨ eol = ['\r', '\n'] ∨ eol = ['\r']

theorem iterLines_joinEol (eol : Str) (he : IsEol eol) (ls : List Str) (last : Str)
    (hls : ∀ l ∈ ls, NoEol l) (hlast : NoEol last) :
    iterLines (joinEol eol ls ++ last) =
      ls.map (· ++ ['\n']) ++ (if last.isEmpty then [] else [last]) := by
  unfold iterLines
  rcases he with e | e | e <;> subst e
  · exact iterGo_lines _ (· = false) step_nl ls last false rfl hls hlast
  · exact iterGo_lines _ (· = false) step_crlf ls last false rfl hls hlast
  · exact iterGo_lines _ (fun _ => True) step_cr ls last false trivial hls hlast

theorem readLines_joinEol (eol : Str) (he : IsEol eol) (ls : List Str) (last : Str)
    (hls : ∀ l ∈ ls, NoEol l) (hlast : NoEol last) :
    readLines (joinEol eol ls ++ last) = ls ++ (if last.isEmpty then [] else [last]) := by
  unfold readLines
  rw [iterLines_joinEol eol he ls last hls hlast, List.map_append, List.map_map]
  congr 1
  · conv => rhs; rw [← List.map_id ls]
    apply List.map_congr_left
    intro l hl
    simp only [Function.comp, id]
    rw [stripEol_append_eol l ['\n'] (by simp)]
    exact stripEol_of_no_eol l (hls l hl)
  · split
    · rfl
    · simp [stripEol_of_no_eol last hlast]

/-! ### pure list facts about values -/

theorem vals_set (objs : List LTok) (i : Nat) (t : LTok) : vals (objs.set i t) = (vals objs).set i t.val := by
  simp [vals, List.map_set]

theorem vals_getElem? (objs : List LTok) (i : Nat) : (vals objs)[i]? = objs[i]?.map (·.val) := by
  simp [vals]

/-- replacing an object by one with the same value keeps the values -/
theorem vals_set_same (objs : List LTok) (i : Nat) (o : LTok) (k : LKind) (h : objs[i]? = some o) :
    vals (objs.set i ⟨k, o.val⟩) = vals objs := by
  rw [vals_set]
  apply List.ext_getElem?
  intro n
  by_cases hn : n = i
  · subst hn
    have hlt : n < (vals objs).length := by
      have := (List.getElem?_eq_some_iff.1 h).1
      simpa [vals] using this
    rw [List.getElem?_set_self hlt, vals_getElem?, h]; rfl
  · rw [List.getElem?_set_ne (Ne.symm hn)]

/-- the `--` merge on the values: slots `i+1 … i+cnt` are appended to slot `i` -/
theorem flatten_merge (V : List Str) (i cnt : Nat) (v : Str) (h : V[i]? = some v) :
    ((V.take (i + 1) ++ V.drop (i + 1 + cnt)).set i (v ++ ((V.drop (i + 1)).take cnt).flatten)).flatten
      = V.flatten := by
  induction V generalizing i with
  | nil => simp at h
  | cons x xs ih =>
    cases i with
    | zero =>
      simp only [List.getElem?_cons_zero, Option.some.injEq] at h
      subst h
      simp only [Nat.zero_add, List.take_succ_cons, List.take_zero, List.drop_succ_cons, List.drop_zero]
      have : (1 + cnt) = cnt + 1 := by omega
      rw [this, List.drop_succ_cons]
      simp only [List.cons_append, List.nil_append, List.set_cons_zero, List.flatten_cons, List.append_assoc]
      rw [← List.flatten_append, List.take_append_drop]
    | succ i =>
      simp only [List.getElem?_cons_succ] at h
      have e1 : i + 1 + 1 + cnt = (i + 1 + cnt) + 1 := by omega
      rw [e1]
      simp only [List.take_succ_cons, List.drop_succ_cons, List.cons_append, List.set_cons_succ,
        List.flatten_cons]
      rw [ih i h]

/-- two neighbouring slots re-cut: the concatenation is what it was -/
theorem flatten_set2 (V : List Str) (i : Nat) (a b x y : Str) (hx : V[i]? = some x) (hy : V[i + 1]? = some y)
    (hab : a ++ b = x ++ y) : ((V.set (i + 1) b).set i a).flatten = V.flatten := by
  induction V generalizing i with
  | nil => simp at hx
  | cons z zs ih =>
    cases i with
    | zero =>
      cases zs with
      | nil => simp at hy
      | cons w ws =>
        simp only [List.getElem?_cons_zero, Option.some.injEq, Nat.zero_add, List.getElem?_cons_succ] at hx hy
        subst hx; subst hy
        simp only [Nat.zero_add, List.set_cons_succ, List.set_cons_zero, List.flatten_cons]
        rw [← List.append_assoc, hab, List.append_assoc]
    | succ i =>
      simp only [List.getElem?_cons_succ] at hx hy
      simp only [List.set_cons_succ, List.flatten_cons]
      rw [ih i hx hy]

/-- a slice replaced by its concatenation -/
theorem flatten_slice (V : List Str) (a n : Nat) :
    (V.take a ++ [((V.drop a).take n).flatten] ++ V.drop (a + n)).flatten = V.flatten := by
  have h : V = V.take a ++ ((V.drop a).take n ++ (V.drop a).drop n) := by
    rw [List.take_append_drop, List.take_append_drop]
  have hd : (V.drop a).drop n = V.drop (a + n) := by rw [List.drop_drop]
  conv => rhs; rw [h]
  simp [hd]

/-! ### blank.classify, whitespace.classify -/

theorem blankClassify_flatten (inside : Bool) (objs : List LTok) :
    (vals (blankClassify inside objs)).flatten = (vals objs).flatten := by
  unfold blankClassify
  split <;> simp [vals]

theorem wsGo_length (toks : List Str) (i : Nat) (objs : List LTok) :
    (wsGo toks i objs).length = objs.length := by
  induction toks generalizing i objs with
  | nil => rfl
  | cons s ss ih =>
    simp only [wsGo]
    rw [ih]; split <;> simp

/-- `whitespace.classify` keeps the values when slot `i + k` holds the value `toks[k]` -/
theorem wsGo_vals (toks : List Str) (i : Nat) (objs : List LTok)
    (h : ∀ k o, objs[i + k]? = some o → toks[k]? = some o.val ∨ toks.length ≤ k) :
    vals (wsGo toks i objs) = vals objs := by
  induction toks generalizing i objs with
  | nil => rfl
  | cons s ss ih =>
    simp only [wsGo]
    have hstep : vals (if isWsToken s = true then objs.set i ⟨.ws, s⟩ else objs) = vals objs := by
      split
      · cases ho : objs[i]? with
        | none =>
          have : objs.length ≤ i := by simpa using ho
          rw [List.set_eq_of_length_le this]
        | some o =>
          have := h 0 o (by simpa using ho)
          simp only [List.getElem?_cons_zero, Option.some.injEq, List.length_cons] at this
          rcases this with e | e
          · rw [e]; exact vals_set_same objs i o .ws ho
          · omega
      · rfl
    rw [ih, hstep]
    intro k o ho
    have hk : (if isWsToken s = true then objs.set i ⟨.ws, s⟩ else objs)[i + 1 + k]? = objs[i + 1 + k]? := by
      split
      · rw [List.getElem?_set_ne (by omega)]
      · rfl
    rw [hk] at ho
    have := h (k + 1) o (by rw [← ho]; congr 1; omega)
    simp only [List.getElem?_cons_succ, List.length_cons] at this
    rcases this with e | e
    · exact Or.inl e
    · exact Or.inr (by omega)

theorem vals_map_item (toks : List Str) : vals (toks.map fun t => (⟨.item, t⟩ : LTok)) = toks := by
  simp [vals, List.map_map, Function.comp_def]

/-- the values after `blank.classify` and `whitespace.classify`: the tokens themselves, or the
    single `""` of a blank line -/
theorem vals_ws_blank (inside : Bool) (toks : List Str) :
    vals (wsClassify toks (blankClassify inside (toks.map fun t => (⟨.item, t⟩ : LTok)))) =
      if toks.length = 0 && !inside then [[]] else toks := by
  unfold wsClassify
  cases toks with
  | nil =>
    simp only [wsGo, List.map_nil, blankClassify, List.length_nil]
    cases inside <;> simp [vals]
  | cons t ts =>
    have hb : blankClassify inside ((t :: ts).map fun t => (⟨.item, t⟩ : LTok)) =
        (t :: ts).map fun t => (⟨.item, t⟩ : LTok) := by
      simp [blankClassify]
    rw [hb, wsGo_vals, vals_map_item]
    · simp
    · intro k o ho
      rw [Nat.zero_add, List.getElem?_map] at ho
      cases hk : (t :: ts)[k]? with
      | none => rw [hk] at ho; simp at ho
      | some v =>
        rw [hk] at ho
        simp only [Option.map_some, Option.some.injEq] at ho
        subst ho
        exact Or.inl rfl

/-! ### comment.classify -/

theorem dropLast_append_star (v : Str) (h : v.getLast? = some '*') : v.dropLast ++ ['*'] = v := by
  induction v with
  | nil => simp at h
  | cons c cs ih =>
    cases cs with
    | nil => simp at h; subst h; rfl
    | cons d ds =>
      rw [List.getLast?_cons_cons] at h
      simp only [List.dropLast_cons_cons, List.cons_append]
      rw [ih h]

theorem vals_take (l : List LTok) (n : Nat) : vals (l.take n) = (vals l).take n := by simp [vals, List.map_take]
theorem vals_drop (l : List LTok) (n : Nat) : vals (l.drop n) = (vals l).drop n := by simp [vals, List.map_drop]
theorem vals_append (a b : List LTok) : vals (a ++ b) = vals a ++ vals b := by simp [vals]
theorem vals_length (l : List LTok) : (vals l).length = l.length := by simp [vals]

/-- slot `i` holds the value `v` -/
def ValAt (objs : List LTok) (i : Nat) (v : Str) : Prop := ∃ o, objs[i]? = some o ∧ o.val = v

theorem ValAt.lt {objs : List LTok} {i : Nat} {v : Str} (h : ValAt objs i v) : i < objs.length := by
  obtain ⟨o, ho, _⟩ := h
  exact (List.getElem?_eq_some_iff.1 ho).1

theorem ValAt.set_same {objs : List LTok} {i : Nat} {v : Str} (h : ValAt objs i v) (k : LKind) :
    vals (objs.set i ⟨k, v⟩) = vals objs ∧ ValAt (objs.set i ⟨k, v⟩) i v := by
  obtain ⟨o, ho, hv⟩ := h
  subst hv
  refine ⟨vals_set_same objs i o k ho, ⟨k, o.val⟩, ?_, rfl⟩
  rw [List.getElem?_set_self (List.getElem?_eq_some_iff.1 ho).1]

theorem textStep_spec (i : Nat) (o : LTok) (s : CState) (ho : s.objs[i]? = some o) :
    vals (textStep i o s) = vals s.objs ∧ ValAt (textStep i o s) i o.val ∧
      (textStep i o s).length = s.objs.length := by
  unfold textStep
  have hv : ValAt s.objs i o.val := ⟨o, ho, rfl⟩
  split
  · exact ⟨(hv.set_same _).1, (hv.set_same _).2, by simp⟩
  · exact ⟨rfl, hv, rfl⟩

theorem singleLine_flatten (T : LexTables) (i : Nat) (v : Str) (objs r : List LTok)
    (h : singleLine T i v objs = some r) (hv : ValAt objs i v) :
    (vals r).flatten = (vals objs).flatten := by
  unfold singleLine at h
  cases hl : objs.getLast? with
  | none => simp [hl] at h
  | some l =>
    simp only [hl, Option.some.injEq] at h
    subst h
    obtain ⟨o, ho, hov⟩ := hv
    rw [vals_set, vals_append, vals_take, vals_drop, vals_take, vals_drop]
    apply flatten_merge
    rw [vals_getElem?, ho, ← hov]; rfl

theorem singleLine_total (T : LexTables) (i : Nat) (v : Str) (objs : List LTok) (h : 0 < objs.length) :
    ∃ r, singleLine T i v objs = some r := by
  unfold singleLine
  cases hl : objs.getLast? with
  | none =>
    have : objs = [] := List.getLast?_eq_none_iff.1 hl
    subst this; simp at h
  | some l => exact ⟨_, rfl⟩

theorem openStep_spec (i : Nat) (v : Str) (objs : List LTok) (inside : Bool) (hv : ValAt objs i v) :
    vals (openStep i v objs inside).objs = vals objs ∧ ValAt (openStep i v objs inside).objs i v ∧
      (openStep i v objs inside).objs.length = objs.length := by
  unfold openStep
  split
  · exact ⟨(hv.set_same _).1, (hv.set_same _).2, by simp⟩
  · exact ⟨rfl, hv, rfl⟩

theorem closeStep_flatten (i : Nat) (v : Str) (s s' : CState) (h : closeStep i v s = some s')
    (hv : ValAt s.objs i v) : (vals s'.objs).flatten = (vals s.objs).flatten := by
  unfold closeStep at h
  split at h
  · simp only [Option.some.injEq] at h
    subst h
    rw [(hv.set_same _).1]
  · split at h
    · rename_i _ hc
      simp only [Bool.and_eq_true, beq_iff_eq, decide_eq_true_eq] at hc
      cases hp : s.objs[prevIdx i s.objs.length]? with
      | none => simp [hp] at h
      | some p =>
        simp only [hp] at h
        split at h
        · rename_i hstar
          simp only [beq_iff_eq] at hstar
          cases i with
          | zero => exact absurd hc.1.2 (by omega)
          | succ i =>
            have hj : prevIdx (i + 1) s.objs.length = i := by simp [prevIdx]
            rw [hj] at h hp
            rw [List.getElem?_set_ne (by omega), hp] at h
            simp only [Option.some.injEq] at h
            subst h
            rw [vals_set, vals_set]
            obtain ⟨o, ho, hov⟩ := hv
            apply flatten_set2 (vals s.objs) i _ _ p.val v
            · rw [vals_getElem?, hp]; rfl
            · rw [vals_getElem?, ho, ← hov]; rfl
            · show p.val.dropLast ++ '*' :: v = p.val ++ v
              conv => rhs; rw [← dropLast_append_star p.val hstar]
              simp
        · simp only [Option.some.injEq] at h
          subst h; rfl
    · simp only [Option.some.injEq] at h
      subst h; rfl

theorem closeStep_total (i : Nat) (v : Str) (s : CState) (hi : i < s.objs.length) :
    ∃ s', closeStep i v s = some s' ∧ s'.objs.length = s.objs.length := by
  unfold closeStep
  split
  · exact ⟨_, rfl, by simp⟩
  · split
    · have hj : prevIdx i s.objs.length < s.objs.length := by
        unfold prevIdx; split <;> omega
      dsimp only
      rw [List.getElem?_eq_getElem hj]
      dsimp only
      split
      · have hj' : prevIdx i s.objs.length < (s.objs.set i ⟨.dcEnd, '*' :: v⟩).length := by simpa using hj
        rw [List.getElem?_eq_getElem hj']
        exact ⟨_, rfl, by simp⟩
      · exact ⟨_, rfl, rfl⟩
    · exact ⟨_, rfl, rfl⟩

theorem commentIter_flatten (T : LexTables) (i : Nat) (s s' : CState) (b : Bool)
    (h : commentIter T i s = some (s', b)) :
    (vals s'.objs).flatten = (vals s.objs).flatten := by
  unfold commentIter at h
  cases ho : s.objs[i]? with
  | none => simp [ho] at h
  | some o =>
    simp only [ho] at h
    obtain ⟨ht1, ht2, _⟩ := textStep_spec i o s ho
    split at h
    · cases hs : singleLine T i o.val (textStep i o s) with
      | none => simp [hs] at h
      | some r =>
        simp only [hs, Option.some.injEq, Prod.mk.injEq] at h
        rw [← h.1]
        simp only
        rw [singleLine_flatten T i o.val _ r hs ht2, ht1]
    · obtain ⟨ho1, ho2, _⟩ := openStep_spec i o.val (textStep i o s) s.inside ht2
      cases hc : closeStep i o.val (openStep i o.val (textStep i o s) s.inside) with
      | none => simp [hc] at h
      | some s'' =>
        simp only [hc, Option.some.injEq, Prod.mk.injEq] at h
        rw [← h.1]
        rw [closeStep_flatten i o.val _ s'' hc ho2, ho1, ht1]

theorem commentIter_total (T : LexTables) (i : Nat) (s : CState) (hi : i < s.objs.length) :
    ∃ s' b, commentIter T i s = some (s', b) ∧ (b = false → s'.objs.length = s.objs.length) := by
  unfold commentIter
  rw [List.getElem?_eq_getElem hi]
  simp only
  have ho : s.objs[i]? = some s.objs[i] := List.getElem?_eq_getElem hi
  obtain ⟨_, _, ht3⟩ := textStep_spec i s.objs[i] s ho
  obtain ⟨_, ht2, _⟩ := textStep_spec i s.objs[i] s ho
  split
  · obtain ⟨r, hr⟩ := singleLine_total T i s.objs[i].val (textStep i s.objs[i] s) (by omega)
    rw [hr]
    exact ⟨_, true, rfl, by intro h; cases h⟩
  · obtain ⟨_, _, ho3⟩ := openStep_spec i s.objs[i].val (textStep i s.objs[i] s) s.inside ht2
    obtain ⟨s'', hs'', hl⟩ := closeStep_total i s.objs[i].val
      (openStep i s.objs[i].val (textStep i s.objs[i] s) s.inside) (by omega)
    rw [hs'']
    exact ⟨s'', false, rfl, fun _ => by omega⟩

theorem commentLoop_flatten (T : LexTables) (k i : Nat) (s s' : CState)
    (h : commentLoop T k i s = some s') :
    (vals s'.objs).flatten = (vals s.objs).flatten := by
  induction k generalizing i s with
  | zero => simp only [commentLoop, Option.some.injEq] at h; subst h; rfl
  | succ k ih =>
    simp only [commentLoop] at h
    cases hc : commentIter T i s with
    | none => simp [hc] at h
    | some r =>
      obtain ⟨s1, b⟩ := r
      have hf := commentIter_flatten T i s s1 b hc
      cases b with
      | true => simp only [hc, Option.some.injEq] at h; subst h; exact hf
      | false =>
        simp only [hc] at h
        rw [ih (i + 1) s1 h, hf]

theorem commentLoop_total (T : LexTables) (k i : Nat) (s : CState) (h : i + k ≤ s.objs.length) :
    ∃ s', commentLoop T k i s = some s' := by
  induction k generalizing i s with
  | zero => exact ⟨s, rfl⟩
  | succ k ih =>
    obtain ⟨s1, b, hc, hl⟩ := commentIter_total T i s (by omega)
    simp only [commentLoop, hc]
    cases b with
    | true => exact ⟨s1, rfl⟩
    | false =>
      simp only
      exact ih (i + 1) s1 (by rw [hl rfl]; omega)

/-! ### merge_text_tokens, preprocessor.classify, pragma.classify -/

theorem mergeText_flatten (objs : List LTok) : (vals (mergeText objs)).flatten = (vals objs).flatten := by
  unfold mergeText
  split
  · rename_i a b _ _
    split
    · rename_i hab
      rw [vals_append, vals_append, vals_take, vals_drop]
      have : vals [(⟨.dcText, (vals ((objs.drop a).take (b + 1 - a))).flatten⟩ : LTok)] =
          [(((vals objs).drop a).take (b + 1 - a)).flatten] := by
        simp [vals, List.map_take, List.map_drop]
      rw [this]
      have e : (vals objs).drop (b + 1) = (vals objs).drop (a + (b + 1 - a)) := by congr 1; omega
      rw [e]
      exact flatten_slice (vals objs) a (b + 1 - a)
    · rfl
  · rfl

theorem preprocClassify_flatten (toks : List Str) (objs : List LTok)
    (h : (vals objs).flatten = toks.flatten) : (vals (preprocClassify toks objs)).flatten = toks.flatten := by
  unfold preprocClassify
  cases toks with
  | nil => exact h
  | cons t0 rest =>
    simp only
    by_cases h0 : (t0.head? == some '#') = true
    · simp [h0, vals]
    · simp only [h0]
      by_cases h1 : (t0.head? == some ' ') = true
      · simp only [h1, if_true]
        cases rest with
        | nil => exact h
        | cons t1 _ =>
          simp only
          by_cases h2 : (t1.head? == some '#') = true
          · simp [h2, vals]
          · simp only [h2]; exact h
      · simp only [h1]; exact h

theorem vals_replaceAllComments (k : LKind) (objs : List LTok) : vals (replaceAllComments k objs) = vals objs := by
  unfold replaceAllComments vals
  rw [List.map_map]
  apply List.map_congr_left
  intro t _
  simp only [Function.comp]
  split <;> rfl

theorem vals_replaceFirstComment (k : LKind) (objs : List LTok) : vals (replaceFirstComment k objs) = vals objs := by
  induction objs with
  | nil => rfl
  | cons t ts ih =>
    simp only [replaceFirstComment]
    split
    · rfl
    · simp only [vals, List.map_cons] at ih ⊢
      rw [ih]

theorem vals_classifyPragmas (rx : PragmaRx) (objs : List LTok) : vals (classifyPragmas rx objs) = vals objs := by
  unfold classifyPragmas
  split
  · exact vals_replaceAllComments _ _
  · split
    · exact vals_replaceAllComments _ _
    · split
      · exact vals_replaceFirstComment _ _
      · rfl

theorem vals_setTokensToIgnore (objs : List LTok) : vals (setTokensToIgnore objs).1 = vals objs := by
  unfold setTokensToIgnore vals
  simp only [List.map_map]
  apply List.map_congr_left
  intro t _
  simp only [Function.comp]
  split <;> rfl

theorem vals_pragmaOpenStep (rx : PragmaRx) (region : Bool) (objs : List LTok) :
    vals (pragmaOpenStep rx region objs).1 = vals objs := by
  unfold pragmaOpenStep
  split
  · exact vals_classifyPragmas rx objs
  · rfl

theorem vals_pragmaClassify (rx : PragmaRx) (region : Bool) (objs : List LTok) :
    vals (pragmaClassify rx region objs).1 = vals objs := by
  unfold pragmaClassify
  simp only
  split
  · rw [vals_setTokensToIgnore, vals_pragmaOpenStep]
  · exact vals_pragmaOpenStep rx region objs

/-! ### comment.classify, one line -/

theorem commentClassify_flatten (T : LexTables) (toks : List Str) (objs r : List LTok) (inside ins' : Bool)
    (h : commentClassify T toks objs inside = some (r, ins')) : (vals r).flatten = (vals objs).flatten := by
  unfold commentClassify at h
  simp only at h
  split at h
  · simp at h
  · rename_i s hs
    simp only [Option.some.injEq, Prod.mk.injEq] at h
    rw [← h.1, mergeText_flatten]
    have h0 : (vals (if (objs.length = 0 && inside) = true then objs ++ [⟨.dcText, []⟩] else objs)).flatten =
        (vals objs).flatten := by
      split <;> simp [vals]
    rw [← h0]
    exact commentLoop_flatten T _ 0 _ s hs

theorem commentClassify_total (T : LexTables) (toks : List Str) (objs : List LTok) (inside : Bool)
    (hlen : toks.length ≤ objs.length) : ∃ r, commentClassify T toks objs inside = some r := by
  unfold commentClassify
  simp only
  obtain ⟨s, hs⟩ := commentLoop_total T toks.length 0
    ⟨if (objs.length = 0 && inside) = true then objs ++ [⟨.dcText, []⟩] else objs, inside⟩
    (by
      show 0 + toks.length ≤ (if (objs.length = 0 && inside) = true then objs ++ [⟨.dcText, []⟩] else objs).length
      split
      · rw [List.length_append]; omega
      · omega)
  rw [hs]
  exact ⟨_, rfl⟩

/-! ### one line -/

theorem classifyLine_flatten (T : LexTables) (hbd : ∀ c, T.lowerBoxd c = true → T.isDigit c = false)
    (rx : PragmaRx) (st st' : LState) (raw : Str) (objs : List LTok)
    (h : classifyLine T rx st raw = some (objs, st')) :
    (vals objs).flatten = stripNlCr raw := by
  unfold classifyLine at h
  simp only at h
  split at h
  · simp at h
  · rename_i objs3 inside' hc
    simp only [Option.some.injEq, Prod.mk.injEq] at h
    rw [← h.1, vals_pragmaClassify]
    have hcf := Lex.create_flatten T hbd (stripNlCr raw)
    have hv := vals_ws_blank st.inside (create T (stripNlCr raw))
    have h2 : (vals (wsClassify (create T (stripNlCr raw))
        (blankClassify st.inside ((create T (stripNlCr raw)).map fun t => (⟨.item, t⟩ : LTok))))).flatten
        = (create T (stripNlCr raw)).flatten := by
      rw [hv]; split
      · rename_i he
        simp only [Bool.and_eq_true, decide_eq_true_eq] at he
        rw [List.length_eq_zero_iff.1 he.1]; rfl
      · rfl
    rw [preprocClassify_flatten _ _ _, hcf]
    rw [commentClassify_flatten T _ _ objs3 _ inside' hc, h2]

theorem classifyLine_total (T : LexTables) (rx : PragmaRx) (st : LState) (raw : Str) :
    ∃ r, classifyLine T rx st raw = some r := by
  unfold classifyLine
  simp only
  obtain ⟨r, hr⟩ := commentClassify_total T (create T (stripNlCr raw))
    (wsClassify (create T (stripNlCr raw))
      (blankClassify st.inside ((create T (stripNlCr raw)).map fun t => (⟨.item, t⟩ : LTok)))) st.inside
    (by
      unfold wsClassify
      rw [wsGo_length]
      unfold blankClassify
      split <;> simp)
  rw [hr]
  exact ⟨_, rfl⟩

/-! ### no pass before the end of the line creates a carriage return -/

def NoCr (l : List LTok) : Prop := ∀ t ∈ l, t.kind ≠ .cr

theorem NoCr.set {l : List LTok} (h : NoCr l) (i : Nat) {t : LTok} (ht : t.kind ≠ .cr) : NoCr (l.set i t) := by
  intro x hx
  rcases List.mem_or_eq_of_mem_set hx with h' | h'
  · exact h x h'
  · subst h'; exact ht

theorem NoCr.take {l : List LTok} (h : NoCr l) (n : Nat) : NoCr (l.take n) :=
  fun x hx => h x (List.mem_of_mem_take hx)

theorem NoCr.drop {l : List LTok} (h : NoCr l) (n : Nat) : NoCr (l.drop n) :=
  fun x hx => h x (List.mem_of_mem_drop hx)

theorem NoCr.append {a b : List LTok} (ha : NoCr a) (hb : NoCr b) : NoCr (a ++ b) := by
  intro x hx
  rcases List.mem_append.1 hx with h | h
  · exact ha x h
  · exact hb x h

theorem noCr_single {t : LTok} (ht : t.kind ≠ .cr) : NoCr [t] := by
  intro x hx
  rw [List.mem_singleton] at hx
  subst hx; exact ht

theorem noCr_map (f : LTok → LTok) (l : List LTok) (hf : ∀ t, t.kind ≠ .cr → (f t).kind ≠ .cr) (h : NoCr l) :
    NoCr (l.map f) := by
  intro x hx
  obtain ⟨t, ht, rfl⟩ := List.mem_map.1 hx
  exact hf t (h t ht)

theorem noCr_blankClassify (inside : Bool) (l : List LTok) (h : NoCr l) : NoCr (blankClassify inside l) := by
  unfold blankClassify
  split
  · exact h.append (noCr_single (by simp))
  · exact h

theorem noCr_wsGo (toks : List Str) (i : Nat) (l : List LTok) (h : NoCr l) : NoCr (wsGo toks i l) := by
  induction toks generalizing i l with
  | nil => exact h
  | cons s ss ih =>
    simp only [wsGo]
    apply ih
    split
    · exact h.set i (by simp)
    · exact h

theorem noCr_textStep (i : Nat) (o : LTok) (s : CState) (h : NoCr s.objs) : NoCr (textStep i o s) := by
  unfold textStep
  split
  · exact h.set i (by simp)
  · exact h

theorem noCr_singleLine (T : LexTables) (i : Nat) (v : Str) (objs r : List LTok)
    (hr : singleLine T i v objs = some r) (h : NoCr objs) : NoCr r := by
  unfold singleLine at hr
  split at hr
  · simp at hr
  · simp only [Option.some.injEq] at hr
    subst hr
    exact ((h.take _).append (h.drop _)).set i (by simp)

theorem noCr_openStep (i : Nat) (v : Str) (objs : List LTok) (inside : Bool) (h : NoCr objs) :
    NoCr (openStep i v objs inside).objs := by
  unfold openStep
  split
  · exact h.set i (by simp)
  · exact h

theorem noCr_closeStep (i : Nat) (v : Str) (s s' : CState) (hs : closeStep i v s = some s') (h : NoCr s.objs) :
    NoCr s'.objs := by
  unfold closeStep at hs
  split at hs
  · simp only [Option.some.injEq] at hs
    subst hs; exact h.set i (by simp)
  · split at hs
    · dsimp only at hs
      split at hs
      · simp at hs
      · split at hs
        · split at hs
          · simp at hs
          · simp only [Option.some.injEq] at hs
            subst hs
            exact (h.set i (by simp)).set _ (by simp)
        · simp only [Option.some.injEq] at hs
          subst hs; exact h
    · simp only [Option.some.injEq] at hs
      subst hs; exact h

theorem noCr_commentIter (T : LexTables) (i : Nat) (s s' : CState) (b : Bool)
    (hs : commentIter T i s = some (s', b)) (h : NoCr s.objs) : NoCr s'.objs := by
  unfold commentIter at hs
  split at hs
  · simp at hs
  · rename_i o _
    dsimp only at hs
    split at hs
    · split at hs
      · simp at hs
      · rename_i r hr
        simp only [Option.some.injEq, Prod.mk.injEq] at hs
        rw [← hs.1]
        exact noCr_singleLine T i o.val _ r hr (noCr_textStep i o s h)
    · split at hs
      · simp at hs
      · rename_i s'' hc
        simp only [Option.some.injEq, Prod.mk.injEq] at hs
        rw [← hs.1]
        exact noCr_closeStep i o.val _ s'' hc (noCr_openStep i o.val _ _ (noCr_textStep i o s h))

theorem noCr_commentLoop (T : LexTables) (k i : Nat) (s s' : CState)
    (hs : commentLoop T k i s = some s') (h : NoCr s.objs) : NoCr s'.objs := by
  induction k generalizing i s with
  | zero => simp only [commentLoop, Option.some.injEq] at hs; subst hs; exact h
  | succ k ih =>
    simp only [commentLoop] at hs
    cases hc : commentIter T i s with
    | none => simp [hc] at hs
    | some r =>
      obtain ⟨s1, b⟩ := r
      have h1 := noCr_commentIter T i s s1 b hc h
      cases b with
      | true => simp only [hc, Option.some.injEq] at hs; subst hs; exact h1
      | false => simp only [hc] at hs; exact ih (i + 1) s1 hs h1

theorem noCr_mergeText (l : List LTok) (h : NoCr l) : NoCr (mergeText l) := by
  unfold mergeText
  split
  · split
    · exact ((h.take _).append (noCr_single (by simp))).append (h.drop _)
    · exact h
  · exact h

theorem noCr_commentClassify (T : LexTables) (toks : List Str) (objs r : List LTok) (inside ins' : Bool)
    (hr : commentClassify T toks objs inside = some (r, ins')) (h : NoCr objs) : NoCr r := by
  unfold commentClassify at hr
  simp only at hr
  split at hr
  · simp at hr
  · rename_i s hs
    simp only [Option.some.injEq, Prod.mk.injEq] at hr
    rw [← hr.1]
    apply noCr_mergeText
    apply noCr_commentLoop T _ 0 _ s hs
    show NoCr (if (objs.length = 0 && inside) = true then objs ++ [⟨.dcText, []⟩] else objs)
    split
    · exact h.append (noCr_single (by simp))
    · exact h

theorem noCr_preprocClassify (toks : List Str) (l : List LTok) (h : NoCr l) : NoCr (preprocClassify toks l) := by
  unfold preprocClassify
  cases toks with
  | nil => exact h
  | cons t0 rest =>
    simp only
    split
    · exact noCr_single (by simp)
    · split
      · cases rest with
        | nil => exact h
        | cons t1 _ =>
          simp only
          split
          · exact noCr_single (by simp)
          · exact h
      · exact h

theorem noCr_replaceFirstComment (k : LKind) (hk : k ≠ .cr) (l : List LTok) (h : NoCr l) :
    NoCr (replaceFirstComment k l) := by
  induction l with
  | nil => exact h
  | cons t ts ih =>
    have ht : NoCr ts := fun x hx => h x (List.mem_cons_of_mem _ hx)
    simp only [replaceFirstComment]
    split
    · intro x hx
      rcases List.mem_cons.1 hx with e | e
      · subst e; exact hk
      · exact ht x e
    · intro x hx
      rcases List.mem_cons.1 hx with e | e
      · subst e; exact h _ (List.mem_cons_self ..)
      · exact ih ht x e

theorem noCr_classifyPragmas (rx : PragmaRx) (l : List LTok) (h : NoCr l) : NoCr (classifyPragmas rx l) := by
  unfold classifyPragmas replaceAllComments
  split
  · exact noCr_map _ l (by intro t ht; split <;> first | exact ht | simp) h
  · split
    · exact noCr_map _ l (by intro t ht; split <;> first | exact ht | simp) h
    · split
      · exact noCr_replaceFirstComment _ (by decide) l h
      · exact h

theorem noCr_pragmaClassify (rx : PragmaRx) (region : Bool) (l : List LTok) (h : NoCr l) :
    NoCr (pragmaClassify rx region l).1 := by
  have h1 : NoCr (pragmaOpenStep rx region l).1 := by
    unfold pragmaOpenStep
    split
    · exact noCr_classifyPragmas rx l h
    · exact h
  unfold pragmaClassify
  simp only
  split
  · unfold setTokensToIgnore
    exact noCr_map _ _ (by intro t ht; split <;> first | exact ht | simp) h1
  · exact h1

theorem noCr_classifyLine (T : LexTables) (rx : PragmaRx) (st st' : LState) (raw : Str) (objs : List LTok)
    (h : classifyLine T rx st raw = some (objs, st')) : NoCr objs := by
  unfold classifyLine at h
  simp only at h
  split at h
  · simp at h
  · rename_i objs3 inside' hc
    simp only [Option.some.injEq, Prod.mk.injEq] at h
    rw [← h.1]
    apply noCr_pragmaClassify
    apply noCr_preprocClassify
    apply noCr_commentClassify T _ _ objs3 _ inside' hc
    unfold wsClassify
    apply noCr_wsGo
    apply noCr_blankClassify
    intro t ht
    obtain ⟨_, _, rfl⟩ := List.mem_map.1 ht
    simp

/-! ### get_lines -/

theorem splitGo_line {α : Type} (isCr : α → Bool) (a : List α) (c : α) (rest cur : List α)
    (ha : ∀ t ∈ a, isCr t = false) (hc : isCr c = true) :
    splitGo isCr (a ++ c :: rest) cur = (cur ++ a) :: splitGo isCr rest [] := by
  induction a generalizing cur with
  | nil => simp [splitGo, hc]
  | cons x xs ih =>
    have hx := ha x (List.mem_cons_self ..)
    simp only [List.cons_append, splitGo, hx, Bool.false_eq_true, if_false]
    rw [ih _ (fun t ht => ha t (List.mem_cons_of_mem _ ht))]
    simp

/-- `get_lines` only looks at (is a carriage return, value) -/
theorem splitGo_congr {α β : Type} (c₁ : α → Bool) (v₁ : α → Str) (c₂ : β → Bool) (v₂ : β → Str)
    (l₁ : List α) (l₂ : List β) (cur₁ : List α) (cur₂ : List β)
    (hv : l₁.map v₁ = l₂.map v₂) (hc : l₁.map c₁ = l₂.map c₂) (hcur : cur₁.map v₁ = cur₂.map v₂) :
    (splitGo c₁ l₁ cur₁).map (fun g => (g.map v₁).flatten) =
      (splitGo c₂ l₂ cur₂).map (fun g => (g.map v₂).flatten) := by
  induction l₁ generalizing l₂ cur₁ cur₂ with
  | nil =>
    cases l₂ with
    | nil =>
      have hl : cur₁.length = cur₂.length := by simpa using congrArg List.length hcur
      simp only [splitGo, hl]
      split
      · simp [hcur]
      · rfl
    | cons y ys => simp at hv
  | cons x xs ih =>
    cases l₂ with
    | nil => simp at hv
    | cons y ys =>
      simp only [List.map_cons, List.cons.injEq] at hv hc
      simp only [splitGo, hc.1]
      split
      · simp only [List.map_cons, hcur]
        rw [ih ys [] [] hv.2 hc.2 rfl]
      · exact ih ys _ _ hv.2 hc.2 (by simp [hcur, hv.1])

theorem getLinesG_congr {α β : Type} (c₁ : α → Bool) (v₁ : α → Str) (c₂ : β → Bool) (v₂ : β → Str)
    (l₁ : List α) (l₂ : List β) (hv : l₁.map v₁ = l₂.map v₂) (hc : l₁.map c₁ = l₂.map c₂) :
    getLinesG c₁ v₁ l₁ = getLinesG c₂ v₂ l₂ := by
  unfold getLinesG splitOnCr
  rw [splitGo_congr c₁ v₁ c₂ v₂ l₁ l₂ [] [] hv hc rfl]

theorem getLines_of_oneForOne (inp : List LTok) (out : List Tok) (h : OneForOne inp out) :
    getLines out = getLinesL inp :=
  getLinesG_congr _ _ _ _ out inp h.1 h.2

theorem splitGo_append_nocr {α : Type} (isCr : α → Bool) (g rest cur : List α)
    (hg : ∀ x ∈ g, isCr x = false) : splitGo isCr (g ++ rest) cur = splitGo isCr rest (cur ++ g) := by
  induction g generalizing cur with
  | nil => simp
  | cons x xs ih =>
    simp only [List.cons_append, splitGo, hg x (List.mem_cons_self ..), Bool.false_eq_true, if_false]
    rw [ih _ (fun y hy => hg y (List.mem_cons_of_mem _ hy))]
    simp

theorem splitGo_refines (inp : List LTok) (out : List Tok) (h : Refines inp out) (cur₁ : List LTok)
    (cur₂ : List Tok) (hf : (cur₂.map (·.val)).flatten = (cur₁.map (·.val)).flatten)
    (he : cur₁ = [] ↔ cur₂ = []) :
    (splitGo Tok.isCr out cur₂).map (fun g => (g.map (·.val)).flatten) =
      (splitGo LTok.isCr inp cur₁).map (fun g => (g.map (·.val)).flatten) := by
  induction h generalizing cur₁ cur₂ with
  | nil =>
    simp only [splitGo]
    by_cases h1 : cur₁ = []
    · have h2 := he.1 h1
      subst h1; subst h2; rfl
    · have h2 : cur₂ ≠ [] := fun e => h1 (he.2 e)
      have l1 : cur₁.length > 0 := List.length_pos_iff.2 h1
      have l2 : cur₂.length > 0 := List.length_pos_iff.2 h2
      simp [l1, l2, hf]
  | cr t c inp out ht hc _ ih =>
    simp only [splitGo, ht, hc, if_true, List.map_cons, hf]
    rw [ih [] [] rfl ⟨fun _ => rfl, fun _ => rfl⟩]
  | tok t g inp out ht hne hg hv _ ih =>
    rw [splitGo_append_nocr Tok.isCr g out cur₂ hg]
    simp only [splitGo, ht, Bool.false_eq_true, if_false]
    apply ih
    · simp [hf, hv]
    · constructor
      · intro e; simp at e
      · intro e
        have := List.append_eq_nil_iff.1 e
        exact absurd this.2 hne

theorem getLines_of_valuePreserving (inp : List LTok) (out : List Tok) (h : ValuePreservingOn inp out) :
    getLines out = getLinesL inp := by
  unfold getLines getLinesL getLinesG splitOnCr
  rw [splitGo_refines inp out h [] [] rfl ⟨fun _ => rfl, fun _ => rfl⟩]

/-- the strict form is a special case -/
theorem refines_of_oneForOne (inp : List LTok) (out : List Tok) (h : OneForOne inp out) : Refines inp out := by
  induction inp generalizing out with
  | nil =>
    have : out = [] := by simpa using h.1
    subst this; exact .nil
  | cons t ts ih =>
    cases out with
    | nil => simp [OneForOne] at h
    | cons c cs =>
      obtain ⟨hv, hc⟩ := h
      simp only [List.map_cons, List.cons.injEq] at hv hc
      have hr := ih cs ⟨hv.2, hc.2⟩
      by_cases htc : t.isCr = true
      · exact .cr t c ts cs htc (by rw [hc.1]; exact htc) hr
      · have htc' : t.isCr = false := by simpa using htc
        have := Refines.tok t [c] ts cs htc' (by simp) (by intro x hx; simp at hx; subst hx; rw [hc.1]; exact htc')
          (by simp [hv.1]) hr
        simpa using this

theorem processLines_total (T : LexTables) (rx : Str → PragmaRx) (st : LState) (ls : List Str) :
    ∃ objs, processLines T rx st ls = some objs := by
  induction ls generalizing st with
  | nil => exact ⟨[], rfl⟩
  | cons l ls ih =>
    obtain ⟨⟨objs, st'⟩, h1⟩ := classifyLine_total T (rx l) st l
    obtain ⟨rest, h2⟩ := ih st'
    exact ⟨objs ++ crTok :: rest, by simp [processLines, h1, h2]⟩

theorem splitGo_processLines (T : LexTables) (hbd : ∀ c, T.lowerBoxd c = true → T.isDigit c = false)
    (rx : Str → PragmaRx) (st : LState) (ls : List Str) (objs : List LTok)
    (h : processLines T rx st ls = some objs) :
    (splitGo LTok.isCr objs []).map (fun g => (g.map (·.val)).flatten) = ls.map stripNlCr := by
  induction ls generalizing st objs with
  | nil =>
    simp only [processLines, Option.some.injEq] at h
    subst h; rfl
  | cons l ls ih =>
    simp only [processLines] at h
    cases h1 : classifyLine T (rx l) st l with
    | none => simp [h1] at h
    | some r =>
      obtain ⟨lo, st'⟩ := r
      simp only [h1] at h
      cases h2 : processLines T rx st' ls with
      | none => simp [h2] at h
      | some rest =>
        simp only [h2, Option.some.injEq] at h
        subst h
        have hn := noCr_classifyLine T (rx l) st st' l lo h1
        rw [splitGo_line LTok.isCr lo crTok rest [] (by
          intro t ht
          have := hn t ht
          simp only [LTok.isCr, beq_eq_false_iff_ne, ne_eq]
          exact this) rfl]
        simp only [List.nil_append, List.map_cons]
        rw [ih st' rest h2]
        congr 1
        exact classifyLine_flatten T hbd (rx l) st st' l lo h1

theorem getLinesL_processLines (T : LexTables) (hbd : ∀ c, T.lowerBoxd c = true → T.isDigit c = false)
    (rx : Str → PragmaRx) (st : LState) (ls : List Str) (objs : List LTok)
    (h : processLines T rx st ls = some objs) :
    getLinesL objs = [] :: ls.map stripNlCr := by
  unfold getLinesL getLinesG splitOnCr
  rw [splitGo_processLines T hbd rx st ls objs h]

/-! ### blank lines -/

/-- a line without tokens (for the running tables: the empty line, see `create_nil_py`) becomes
    exactly one token with the empty value: `blank_line`, inside a delimited comment a
    `delimited_comment.text`, inside a `vhdl_comp_off` region a `pragma.ignore` -/
theorem classifyLine_of_no_tokens (T : LexTables) (rx : PragmaRx) (st : LState) (raw : Str)
    (h : create T (stripNlCr raw) = []) :
    classifyLine T rx st raw =
      some ([⟨if st.region then .pragmaIgnore else if st.inside then .dcText else .blank, []⟩], st) := by
  obtain ⟨ins, reg⟩ := st
  cases ins <;> cases reg <;>
    simp [classifyLine, h, blankClassify, wsClassify, wsGo, commentClassify, commentLoop, mergeText,
      lastIdx, isText, preprocClassify, pragmaClassify, pragmaOpenStep, lineStartsWithComment,
      tokenIsAComment, dashdash, setTokensToIgnore, closePragmas, List.findIdx?, List.findIdx?.go] <;> decide

/-! ### which tokens of a classified line can have the empty value -/

/-- an empty value only on a delimited-comment text -/
def Good (t : LTok) : Prop := t.val = [] → t.kind = .dcText

def AllGood (l : List LTok) : Prop := ∀ t ∈ l, Good t

theorem good_of_ne {k : LKind} {v : Str} (h : v ≠ []) : Good ⟨k, v⟩ := fun e => absurd e h
theorem good_text (v : Str) : Good ⟨.dcText, v⟩ := fun _ => rfl

theorem AllGood.set {l : List LTok} (h : AllGood l) (i : Nat) {t : LTok} (ht : Good t) : AllGood (l.set i t) := by
  intro x hx
  rcases List.mem_or_eq_of_mem_set hx with h' | h'
  · exact h x h'
  · subst h'; exact ht

theorem AllGood.take {l : List LTok} (h : AllGood l) (n : Nat) : AllGood (l.take n) :=
  fun x hx => h x (List.mem_of_mem_take hx)

theorem AllGood.drop {l : List LTok} (h : AllGood l) (n : Nat) : AllGood (l.drop n) :=
  fun x hx => h x (List.mem_of_mem_drop hx)

theorem AllGood.append {a b : List LTok} (ha : AllGood a) (hb : AllGood b) : AllGood (a ++ b) := by
  intro x hx
  rcases List.mem_append.1 hx with h | h
  · exact ha x h
  · exact hb x h

theorem allGood_single {t : LTok} (ht : Good t) : AllGood [t] := by
  intro x hx
  rw [List.mem_singleton] at hx
  subst hx; exact ht

theorem allGood_wsGo (toks : List Str) (hn : ∀ s ∈ toks, s ≠ []) (i : Nat) (l : List LTok) (h : AllGood l) :
    AllGood (wsGo toks i l) := by
  induction toks generalizing i l with
  | nil => exact h
  | cons s ss ih =>
    simp only [wsGo]
    apply ih (fun x hx => hn x (List.mem_cons_of_mem _ hx))
    split
    · exact h.set i (good_of_ne (hn s (List.mem_cons_self ..)))
    · exact h

theorem allGood_textStep (i : Nat) (o : LTok) (s : CState) (h : AllGood s.objs) : AllGood (textStep i o s) := by
  unfold textStep
  split
  · exact h.set i (good_text _)
  · exact h

theorem allGood_singleLine (T : LexTables) (i : Nat) (v : Str) (hv : v ≠ []) (objs r : List LTok)
    (hr : singleLine T i v objs = some r) (h : AllGood objs) : AllGood r := by
  unfold singleLine at hr
  split at hr
  · simp at hr
  · simp only [Option.some.injEq] at hr
    subst hr
    exact ((h.take _).append (h.drop _)).set i (good_of_ne (by
      intro e
      exact hv (List.append_eq_nil_iff.1 e).1))

theorem allGood_openStep (i : Nat) (v : Str) (objs : List LTok) (inside : Bool) (h : AllGood objs) :
    AllGood (openStep i v objs inside).objs := by
  unfold openStep
  split
  · rename_i hc
    simp only [Bool.and_eq_true, beq_iff_eq] at hc
    exact h.set i (good_of_ne (by rw [hc.2]; decide))
  · exact h

theorem allGood_closeStep (i : Nat) (v : Str) (s s' : CState) (hs : closeStep i v s = some s')
    (h : AllGood s.objs) : AllGood s'.objs := by
  unfold closeStep at hs
  split at hs
  · rename_i hc
    simp only [Bool.and_eq_true, beq_iff_eq] at hc
    simp only [Option.some.injEq] at hs
    subst hs; exact h.set i (good_of_ne (by rw [hc.2]; decide))
  · split at hs
    · dsimp only at hs
      split at hs
      · simp at hs
      · split at hs
        · split at hs
          · simp at hs
          · simp only [Option.some.injEq] at hs
            subst hs
            exact (h.set i (good_of_ne (by simp))).set _ (good_text _)
        · simp only [Option.some.injEq] at hs
          subst hs; exact h
    · simp only [Option.some.injEq] at hs
      subst hs; exact h

theorem allGood_commentIter (T : LexTables) (i : Nat) (s s' : CState) (b : Bool)
    (hs : commentIter T i s = some (s', b)) (h : AllGood s.objs) : AllGood s'.objs := by
  unfold commentIter at hs
  split at hs
  · simp at hs
  · rename_i o _
    dsimp only at hs
    split at hs
    · rename_i hc
      split at hs
      · simp at hs
      · rename_i r hr
        simp only [Option.some.injEq, Prod.mk.injEq] at hs
        rw [← hs.1]
        have hv : o.val ≠ [] := by
          intro e
          rw [e] at hc
          simp [dashdash] at hc
        exact allGood_singleLine T i o.val hv _ r hr (allGood_textStep i o s h)
    · split at hs
      · simp at hs
      · rename_i s'' hc
        simp only [Option.some.injEq, Prod.mk.injEq] at hs
        rw [← hs.1]
        exact allGood_closeStep i o.val _ s'' hc (allGood_openStep i o.val _ _ (allGood_textStep i o s h))

theorem allGood_commentLoop (T : LexTables) (k i : Nat) (s s' : CState)
    (hs : commentLoop T k i s = some s') (h : AllGood s.objs) : AllGood s'.objs := by
  induction k generalizing i s with
  | zero => simp only [commentLoop, Option.some.injEq] at hs; subst hs; exact h
  | succ k ih =>
    simp only [commentLoop] at hs
    cases hc : commentIter T i s with
    | none => simp [hc] at hs
    | some r =>
      obtain ⟨s1, b⟩ := r
      have h1 := allGood_commentIter T i s s1 b hc h
      cases b with
      | true => simp only [hc, Option.some.injEq] at hs; subst hs; exact h1
      | false => simp only [hc] at hs; exact ih (i + 1) s1 hs h1

theorem allGood_mergeText (l : List LTok) (h : AllGood l) : AllGood (mergeText l) := by
  unfold mergeText
  split
  · split
    · exact ((h.take _).append (allGood_single (good_text _))).append (h.drop _)
    · exact h
  · exact h

theorem allGood_commentClassify (T : LexTables) (toks : List Str) (objs r : List LTok) (inside ins' : Bool)
    (hr : commentClassify T toks objs inside = some (r, ins')) (h : AllGood objs) : AllGood r := by
  unfold commentClassify at hr
  simp only at hr
  split at hr
  · simp at hr
  · rename_i s hs
    simp only [Option.some.injEq, Prod.mk.injEq] at hr
    rw [← hr.1]
    apply allGood_mergeText
    apply allGood_commentLoop T _ 0 _ s hs
    show AllGood (if (objs.length = 0 && inside) = true then objs ++ [⟨.dcText, []⟩] else objs)
    split
    · exact h.append (allGood_single (good_text _))
    · exact h

theorem flatten_ne_nil (toks : List Str) (hne : toks ≠ []) (hn : ∀ s ∈ toks, s ≠ []) : toks.flatten ≠ [] := by
  cases toks with
  | nil => exact absurd rfl hne
  | cons t ts =>
    intro e
    simp only [List.flatten_cons, List.append_eq_nil_iff] at e
    exact hn t (List.mem_cons_self ..) e.1

theorem allGood_preprocClassify (toks : List Str) (hn : ∀ s ∈ toks, s ≠ []) (l : List LTok) (h : AllGood l) :
    AllGood (preprocClassify toks l) := by
  unfold preprocClassify
  cases toks with
  | nil => exact h
  | cons t0 rest =>
    have hf := flatten_ne_nil (t0 :: rest) (by simp) hn
    simp only
    split
    · exact allGood_single (good_of_ne hf)
    · split
      · cases rest with
        | nil => exact h
        | cons t1 _ =>
          simp only
          split
          · exact allGood_single (good_of_ne hf)
          · exact h
      · exact h

/-- after `pragma.classify`: empty value only on text or on an ignored token -/
def Good' (t : LTok) : Prop := t.val = [] → t.kind = .dcText ∨ t.kind = .pragmaIgnore

theorem good_replace (k : LKind) (t : LTok) (h : Good t) :
    Good (if t.kind.isCommentClass = true then ⟨k, t.val⟩ else t) := by
  split
  · rename_i hc
    intro e
    have := h e
    rw [this] at hc
    cases hc
  · exact h

theorem allGood_replaceFirstComment (k : LKind) (l : List LTok) (h : AllGood l) :
    AllGood (replaceFirstComment k l) := by
  induction l with
  | nil => exact h
  | cons t ts ih =>
    have ht : AllGood ts := fun x hx => h x (List.mem_cons_of_mem _ hx)
    have h0 : Good t := h t (List.mem_cons_self ..)
    simp only [replaceFirstComment]
    split
    · rename_i hc
      intro x hx
      rcases List.mem_cons.1 hx with e | e
      · subst e
        intro ev
        have := h0 ev
        rw [this] at hc
        cases hc
      · exact ht x e
    · intro x hx
      rcases List.mem_cons.1 hx with e | e
      · subst e; exact h0
      · exact ih ht x e

theorem allGood_classifyPragmas (rx : PragmaRx) (l : List LTok) (h : AllGood l) : AllGood (classifyPragmas rx l) := by
  have hm : ∀ k, AllGood (replaceAllComments k l) := by
    intro k x hx
    unfold replaceAllComments at hx
    obtain ⟨t, ht, rfl⟩ := List.mem_map.1 hx
    exact good_replace k t (h t ht)
  unfold classifyPragmas
  split
  · exact hm _
  · split
    · exact hm _
    · split
      · exact allGood_replaceFirstComment _ l h
      · exact h

theorem good'_pragmaClassify (rx : PragmaRx) (region : Bool) (l : List LTok) (h : AllGood l) :
    ∀ t ∈ (pragmaClassify rx region l).1, Good' t := by
  have h1 : AllGood (pragmaOpenStep rx region l).1 := by
    unfold pragmaOpenStep
    split
    · exact allGood_classifyPragmas rx l h
    · exact h
  unfold pragmaClassify
  simp only
  split
  · unfold setTokensToIgnore
    intro x hx
    obtain ⟨t, ht, rfl⟩ := List.mem_map.1 hx
    split
    · exact fun e => Or.inl (h1 t ht e)
    · exact fun _ => Or.inr rfl
  · exact fun t ht e => Or.inl (h1 t ht e)

/-- **which tokens of a classified non-empty line can be empty**: only a delimited-comment text
    (`remove_last_star_from_previous_token` of a previous token `*`) or, inside a `vhdl_comp_off`
    region, the `pragma.ignore` made of it -/
theorem classifyLine_noEmpty (T : LexTables) (rx : PragmaRx) (st st' : LState) (raw : Str) (objs : List LTok)
    (h : classifyLine T rx st raw = some (objs, st')) (hne : create T (stripNlCr raw) ≠ []) :
    ∀ t ∈ objs, t.val = [] → t.kind = .dcText ∨ t.kind = .pragmaIgnore := by
  have hn : ∀ s ∈ create T (stripNlCr raw), s ≠ [] := Lex.create_noEmpty T (stripNlCr raw)
  unfold classifyLine at h
  simp only at h
  split at h
  · simp at h
  · rename_i objs3 inside' hc
    simp only [Option.some.injEq, Prod.mk.injEq] at h
    rw [← h.1]
    apply good'_pragmaClassify
    apply allGood_preprocClassify _ hn
    apply allGood_commentClassify T _ _ objs3 _ inside' hc
    unfold wsClassify
    apply allGood_wsGo _ hn
    have hb : blankClassify st.inside ((create T (stripNlCr raw)).map fun t => (⟨.item, t⟩ : LTok)) =
        (create T (stripNlCr raw)).map fun t => (⟨.item, t⟩ : LTok) := by
      unfold blankClassify
      have : ((create T (stripNlCr raw)).map fun t => (⟨.item, t⟩ : LTok)).length ≠ 0 := by
        rw [List.length_map]; exact fun e => hne (List.length_eq_zero_iff.1 e)
      rw [if_neg]
      simp only [Bool.and_eq_true, decide_eq_true_eq, not_and]
      exact fun e => absurd e this
    rw [hb]
    intro t ht
    obtain ⟨s, hs, rfl⟩ := List.mem_map.1 ht
    exact good_of_ne (hn s hs)

end Vsgm.Lex
