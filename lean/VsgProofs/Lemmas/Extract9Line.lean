/-
  WP3b: the line numbers recorded by the line-below / line-above / blank-lines-below families against
  the line of the recorded start (`lineNo`): the token after the `k`-th line break of a file is on
  line `k + 2`.
-/
import VsgModel.Engine.Extract6
import VsgProofs.Lemmas.Extract2
import VsgProofs.Lemmas.Extract2Thms
import VsgProofs.Lemmas.Extract4Thms
import VsgProofs.Lemmas.Extract6Col
namespace Vsgm.TM.X.Lemmas
open Vsgm Vsgm.TM Vsgm.TM.Lemmas Vsgm.TM.X

variable {α : Type}

theorem bisectLeft_after (l : List Nat) (hs : l.Pairwise (· < ·)) (k x : Nat) (hk : l[k]? = some x) :
    bisectLeft l ((x : Int) + 1) = k + 1 := by
  induction l generalizing k with
  | nil => simp at hk
  | cons a t ih =>
    have hst := (List.pairwise_cons.mp hs).2
    have hat := (List.pairwise_cons.mp hs).1
    rw [bisectLeft_cons]
    cases k with
    | zero =>
      simp at hk; subst hk
      have : ((a : Nat) : Int) < (a : Int) + 1 := by omega
      simp only [this, if_true]
      have h0 : bisectLeft t ((a : Int) + 1) = 0 := by
        cases t with
        | nil => simp [bisectLeft]
        | cons b t' =>
          rw [bisectLeft_cons]
          have := hat b (List.mem_cons_self ..)
          have hb : ¬ ((b : Int) < (a : Int) + 1) := by omega
          simp [hb]
      omega
    | succ k =>
      simp only [List.getElem?_cons_succ] at hk
      have hax := hat x (List.mem_of_getElem? hk)
      have : ((a : Nat) : Int) < (x : Int) + 1 := by omega
      simp only [this, if_true]
      rw [ih hst k hk]

theorem fresh_crs_strict (uid : α → Option Key) (f : List α) :
    ((processTokens uid f).get (some crKey)).Pairwise (· < ·) := by
  show ((processTokens uid f).dmap.get crKey).Pairwise (· < ·)
  rw [processTokens_get]
  apply specFrom_strict
  intro u _
  rw [contrib_plain crKey plain_cr]
  split <;> omega

theorem fresh_lineOf (uid : α → Option Key) (f : List α) (i : Int)
    (hne : (processTokens uid f).get (some crKey) ≠ []) :
    (processTokens uid f).lineOf i = .ok (bisectLeft ((processTokens uid f).get (some crKey)) i + 1) := by
  have hg : (processTokens uid f).get (some crKey) = specFrom crKey 0 (f.map uid) := processTokens_get uid f crKey
  rw [hg] at hne ⊢
  unfold Index.lineOf Index.crs
  rw [processTokens_find]
  simp [hne, bind, Except.bind, pure, Except.pure]

/-- the token after the `k`-th line break (counted from 0) is on line `k + 2` -/
theorem lineNo_after_cr (uid : α → Option Key) (f : List α) (k x : Nat)
    (hk : ((processTokens uid f).get (some crKey))[k]? = some x) : lineNo uid f (x + 1) = k + 2 := by
  have hne : (processTokens uid f).get (some crKey) ≠ [] := by
    intro e; rw [e] at hk; simp at hk
  have h1 := fresh_lineOf uid f ((x : Int) + 1) hne
  rw [bisectLeft_after _ (fresh_crs_strict uid f) k x hk] at h1
  have h2 := lineOf_fresh uid f _ _ h1
  have e : ((x : Int) + 1).toNat = x + 1 := by omega
  rw [e] at h2
  omega

theorem lineNo_zero (uid : α → Option Key) (f : List α) : lineNo uid f 0 = 1 := by
  simp [lineNo, countKey]

/-! ### get_line_succeeding_line and the line-below family: the recorded line IS the line of the start -/

theorem lineSucceeding_lineOfStart (uid : α → Option Key) (f : List α) (line num : Nat) (t : Toi α) (h1 : 1 ≤ line)
    (h : lineSucceeding f (processTokens uid f) line num = .ok (some t)) :
    ∃ s : Nat, t.start = some (s : Int) ∧ t.line = lineNo uid f s := by
  unfold lineSucceeding at h
  simp only [bind_ok] at h
  obtain ⟨x, hx, h⟩ := h
  split at h
  · simp [pure, Except.pure] at h
  · simp only [pure_ok, Option.some.injEq] at h
    subst h
    have e : (line : Int) - 1 = ((line - 1 : Nat) : Int) := by omega
    rw [e] at hx
    have hk := pyIdx_nat_ok _ _ x hx
    refine ⟨x + 1, by simp, ?_⟩
    rw [lineNo_after_cr uid f (line - 1) x hk]
    simp only; omega

theorem lineOf_pos (ix : Index) (i : Int) (n : Nat) (h : ix.lineOf i = .ok n) : 1 ≤ n := by
  unfold Index.lineOf at h
  simp only [bind_ok, pure_ok] at h
  obtain ⟨c, _, rfl⟩ := h
  omega

theorem sorted_lines_pos (ix : Index) (idxs : List Nat) (lines : List Nat)
    (h : mapE (fun (i : Nat) => ix.lineOf i) idxs = .ok lines) : ∀ l ∈ sortNat lines, 1 ≤ l := by
  intro l hl
  unfold sortNat at hl
  rw [List.mem_mergeSort] at hl
  obtain ⟨i, _, hi⟩ := mem_mapE _ _ _ h l hl
  exact lineOf_pos ix i l hi

theorem lineBelowLineEndingWith_lineOfStart (uid : α → Option Key) (f : List α) (cs : List Cls) (r : List (Toi α))
    (h : lineBelowLineEndingWith f (processTokens uid f) cs = .ok r) :
    ∀ t ∈ r, ∃ s : Nat, t.start = some (s : Int) ∧ t.line = lineNo uid f s := by
  intro t ht
  unfold lineBelowLineEndingWith at h
  simp only [bind_ok] at h
  obtain ⟨lines, hlines, h⟩ := h
  obtain ⟨l, hl, hb⟩ := mem_filterMapE _ _ _ h t ht
  exact lineSucceeding_lineOfStart uid f l 1 t (sorted_lines_pos _ _ _ hlines l hl) hb

theorem lineBelowLineEndingWithHier_lineOfStart (uid : α → Option Key) (f : List α) (hier : α → Option Int) (cs : List Cls)
    (lh : List Int) (r : List (Option (Toi α)))
    (h : lineBelowLineEndingWithHier f (processTokens uid f) hier cs lh = .ok r) :
    ∀ t, some t ∈ r → ∃ s : Nat, t.start = some (s : Int) ∧ t.line = lineNo uid f s := by
  intro t ht
  unfold lineBelowLineEndingWithHier at h
  simp only [bind_ok] at h
  obtain ⟨idxs, _, lines, hlines, h⟩ := h
  obtain ⟨l, hl, hb⟩ := mem_mapE _ _ _ h (some t) ht
  exact lineSucceeding_lineOfStart uid f l 1 t (sorted_lines_pos _ _ _ hlines l hl) hb

theorem lineBelowSeveral_lineOfStart (uid : α → Option Key) (f : List α) (start : Option Key) (endCs : List Cls) (r : List (Toi α))
    (h : lineBelowSeveral f (processTokens uid f) start endCs = .ok r) :
    ∀ t ∈ r, ∃ s : Nat, t.start = some (s : Int) ∧ t.line = lineNo uid f s := by
  intro t ht
  unfold lineBelowSeveral at h
  simp only [bind_ok] at h
  obtain ⟨lines, hlines, h⟩ := h
  obtain ⟨l, hl, hb⟩ := mem_filterMapE _ _ _ h t ht
  exact lineSucceeding_lineOfStart uid f l 1 t (sorted_lines_pos _ _ _ hlines l hl) hb

/-! ### blank lines below: the recorded line is the line of the matched token, ONE LESS than the line
    the region starts on -/

theorem blankBelowIdx_lineOfStart (uid : α → Option Key) (f : List α) (idxs : List Nat) (r : List (Toi α))
    (h : blankBelowIdx f (processTokens uid f) idxs = .ok r) :
    ∀ t ∈ r, ∃ s : Nat, t.start = some (s : Int) ∧ t.line + 1 = lineNo uid f s := by
  intro t ht
  unfold blankBelowIdx at h
  obtain ⟨i, hi, hb⟩ := mem_filterMapE _ _ _ h t ht
  split at hb
  · simp [pure, Except.pure] at hb
  · simp only [bind_ok] at hb
    obtain ⟨line, hl, c0, hc0, hb⟩ := hb
    split at hb
    · simp [pure, Except.pure] at hb
    · split at hb
      · simp only [pure_ok, Option.some.injEq] at hb
        subst hb
        have hpos := lineOf_pos _ _ _ hl
        have e : (line : Int) - 1 = ((line - 1 : Nat) : Int) := by omega
        rw [e] at hc0
        have hk := pyIdx_nat_ok _ _ c0 hc0
        refine ⟨c0 + 1, by simp, ?_⟩
        rw [lineNo_after_cr uid f (line - 1) c0 hk]
        simp only; omega
      · simp [pure, Except.pure] at hb

/-! ### get_line_preceding_line with `bSkipComments`: the recorded line is ONE MORE than the line the
    region starts on -/

theorem linePrecedingSkip_lineOfStart (uid : α → Option Key) (f : List α) (line : Nat) (t : Toi α)
    (h : linePrecedingSkip f (processTokens uid f) line = .ok t) :
    ∃ s : Nat, t.start = some (s : Int) ∧ t.line = lineNo uid f s + 1 := by
  unfold linePrecedingSkip at h
  simp only [bind_ok] at h
  obtain ⟨si, _, h⟩ := h
  split at h
  · simp only [bind_ok, pure_ok] at h
    obtain ⟨e, _, rfl⟩ := h
    exact ⟨0, rfl, by rw [lineNo_zero]⟩
  · rename_i hsi
    simp only [bind_ok, pure_ok] at h
    obtain ⟨s, hs, e, _, rfl⟩ := h
    have e1 : (si : Int) - 1 = ((si - 1 : Nat) : Int) := by omega
    rw [e1] at hs
    have hk := pyIdx_nat_ok _ _ s hs
    refine ⟨s + 1, by simp, ?_⟩
    rw [lineNo_after_cr uid f (si - 1) s hk]
    simp only; omega

/-- `get_line_preceding_line` without comment skipping, asked for a line that has `n` lines above it:
    the recorded line is the line asked for, `n` more than the line the region starts on -/
theorem linePreceding_lineOfStart (uid : α → Option Key) (f : List α) (line n : Nat) (t : Toi α) (hn : n + 1 ≤ line)
    (h : linePreceding f (processTokens uid f) line n = .ok t) :
    ∃ s : Nat, t.start = some (s : Int) ∧ t.line = lineNo uid f s + n := by
  unfold linePreceding at h
  simp only [bind_ok] at h
  obtain ⟨s, hs, e, _, h⟩ := h
  simp only [pure_ok] at h
  subst h
  unfold linePrecedingStart at hs
  split at hs
  · injection hs with hs
    subst hs
    exact ⟨0, rfl, by rw [lineNo_zero]; simp only; omega⟩
  · simp only [bind_ok, pure_ok] at hs
    obtain ⟨x, hx, rfl⟩ := hs
    have e1 : (line : Int) - (n : Int) - 2 = ((line - n - 2 : Nat) : Int) := by omega
    rw [e1] at hx
    have hk := pyIdx_nat_ok _ _ x hx
    refine ⟨x + 1, by simp, ?_⟩
    rw [lineNo_after_cr uid f (line - n - 2) x hk]
    simp only; omega

end Vsgm.TM.X.Lemmas
