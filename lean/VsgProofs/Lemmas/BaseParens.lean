/-
  Effect of `if_statement.rule_002`'s fixer.
  * `parenthesis: insert`: the tokens of interest between a new `(` and a new `)`.
  * `parenthesis: remove`, EVERY action: the result is a subsequence of `left_insert ++ old`
    followed by `right_insert` (nothing reordered, nothing invented besides the action's own
    tokens) — which tokens go is entirely up to the indices the action carries.
-/
import VsgProofs.Lemmas.BaseStructCommon
import VsgModel.Base.Parens
namespace Vsgm.Base.Parens
open Vsgm Vsgm.Base

theorem addParens_eq (E : Env) (l r : List Tok) (h : addParens E l = .ok r) :
    l ≠ [] ∧ r = [E.inst E.openParenCls ['(']] ++ l ++ [E.inst E.closeParenCls [')']] := by
  unfold addParens at h
  obtain ⟨l1, h1, h⟩ := bind_ok _ _ _ h
  cases h
  have := insertToken_okS _ _ _ _ h1
  subst this
  constructor
  · intro hl; subst hl; simp [insertToken] at h1
  · have h0 : (min (0 : Int) (l.length : Int)).toNat = 0 := by omega
    simp [pyInsert, h0]

theorem dropIdx_sublist (rm : List Int) (d : Int) : ∀ (l : List Tok) (i : Nat), (dropIdx rm d l i).Sublist l
  | [], _ => by simp [dropIdx]
  | t :: r, i => by
    unfold dropIdx
    split
    · simp only [List.nil_append]; exact (dropIdx_sublist rm d r (i + 1)).cons _
    · simp only [List.singleton_append]; exact (dropIdx_sublist rm d r (i + 1)).cons_cons _

theorem removeParens_sublist (lr rr : List Int) (li ri l : List Tok) :
    ∃ k, k.Sublist (li ++ l) ∧ removeParens lr rr li ri l = k ++ ri := by
  unfold removeParens
  refine ⟨_, ?_, rfl⟩
  exact (dropIdx_sublist rr _ _ 0).trans ((List.Sublist.refl li).append (dropIdx_sublist lr 0 l 0))

theorem fixV_insert (E : Env) (action : KV) (l r : List Tok) (h : fixV E true action l = .ok r) :
    l ≠ [] ∧ r = [E.inst E.openParenCls ['(']] ++ l ++ [E.inst E.closeParenCls [')']] := by
  unfold fixV at h
  simp only [if_true] at h
  exact addParens_eq E l r h

theorem fixV_remove (E : Env) (action : KV) (l r : List Tok) (h : fixV E false action l = .ok r) :
    ∃ li ri k, (needList action "left_insert" >>= toksOf) = .ok li ∧
      (needList action "right_insert" >>= toksOf) = .ok ri ∧ k.Sublist (li ++ l) ∧ r = k ++ ri := by
  unfold fixV at h
  simp only [Bool.false_eq_true, if_false] at h
  obtain ⟨li, hli, h⟩ := bind_ok _ _ _ h
  obtain ⟨li', hli', h⟩ := bind_ok _ _ _ h
  obtain ⟨lr, _, h⟩ := bind_ok _ _ _ h
  obtain ⟨rr, _, h⟩ := bind_ok _ _ _ h
  obtain ⟨ri, hri, h⟩ := bind_ok _ _ _ h
  obtain ⟨ri', hri', h⟩ := bind_ok _ _ _ h
  cases h
  obtain ⟨k, hk, he⟩ := removeParens_sublist (intsOf lr) (intsOf rr) li' ri' l
  exact ⟨li', ri', k, by rw [hli]; exact hli', by rw [hri]; exact hri', hk, he⟩

end Vsgm.Base.Parens
