/-
  Layer P, C05: layout blindness of what the interpreted assignment helpers compute (`assignNextTokenSpec`,
  `assignIfSpec` of `Lemmas/ProgPrims.lean`).  On two token arrays with the same raw-item view, at corresponding
  positions in front of a raw item, they end in the same outcome; on success the new arrays again have the same
  raw-item view and the returned indices correspond.
-/
import VsgProofs.Lemmas.ProgPrims
import VsgProofs.Lemmas.Classify
namespace Vsgm.Prog
open Vsgm Vsgm.Classify

theorem filter_split (p : CTok → Bool) (l : List CTok) (k : Nat) :
    l.filter p = (l.take k).filter p ++ (l.drop k).filter p := by
  rw [← List.filter_append, List.take_append_drop]

theorem filter_take_eq (p : CTok → Bool) (l : List CTok) (k : Nat) :
    (l.take k).filter p = (view p l).take (rank p l k) := by
  show _ = (l.filter p).take ((l.take k).filter p).length
  rw [filter_split p l k, List.take_left' rfl]

theorem filter_drop_eq (p : CTok → Bool) (l : List CTok) (k : Nat) :
    (l.drop k).filter p = (view p l).drop (rank p l k) := by
  show _ = (l.filter p).drop ((l.take k).filter p).length
  rw [filter_split p l k, List.drop_left' rfl]

/-- the view after replacing a kept token: depends only on the view, the rank and the new token -/
theorem view_set (p : CTok → Bool) (l : List CTok) (k : Nat) (old t : CTok) (hk : l[k]? = some old) (hp : p old = true) :
    view p (l.set k t) = (view p l).take (rank p l k) ++ [t].filter p ++ (view p l).drop (rank p l k + 1) := by
  have hlt : k < l.length := (List.getElem?_eq_some_iff.mp hk).1
  have hset : l.set k t = l.take k ++ t :: l.drop (k + 1) := List.set_eq_take_append_cons_drop .. |>.trans (by simp [hlt])
  rw [← rank_succ_of_keep p l k old hk hp, ← filter_take_eq, ← filter_drop_eq]
  unfold view
  rw [hset, List.filter_append, List.filter_cons]
  split <;> simp [*]

/-- rank of the position after the replaced token -/
theorem rank_set_succ (p : CTok → Bool) (l : List CTok) (k : Nat) (t : CTok) (hlt : k < l.length) :
    rank p (l.set k t) (k + 1) = rank p l k + ([t].filter p).length := by
  unfold rank
  have hset : l.set k t = l.take k ++ t :: l.drop (k + 1) := List.set_eq_take_append_cons_drop .. |>.trans (by simp [hlt])
  rw [hset]
  have hlen : (l.take k).length = k := by simp; omega
  have htk : (l.take k ++ t :: l.drop (k + 1)).take (k + 1) = l.take k ++ [t] := by
    have := List.take_length_add_append (l₁ := l.take k) (l₂ := t :: l.drop (k + 1)) 1
    rw [hlen] at this
    rw [this]; rfl
  rw [htk, List.filter_append, List.length_append]

/-- both arrays have a raw item at/after corresponding positions: the found positions hold the same token -/
theorem found_same (T : ClassTables) (l l' : List CTok) (i j : Nat)
    (hv : view (isRaw T) l = view (isRaw T) l') (hr : rank (isRaw T) l i = rank (isRaw T) l' j)
    (hex : rank (isRaw T) l i < (view (isRaw T) l).length) :
    ∃ old, l[findNextToken T i l]? = some old ∧ l'[findNextToken T j l']? = some old ∧ isRaw T old = true
      ∧ rank (isRaw T) l (findNextToken T i l) = rank (isRaw T) l' (findNextToken T j l') := by
  obtain ⟨t, ht⟩ : ∃ t, (view (isRaw T) l)[rank (isRaw T) l i]? = some t := ⟨_, List.getElem?_eq_getElem hex⟩
  have h1 := fwd_found (isRaw T) l i t ht
  have h2 := fwd_found (isRaw T) l' j t (by rw [← hv, ← hr]; exact ht)
  rw [findNextToken_eq_fwd, findNextToken_eq_fwd]
  exact ⟨t, h1.1, h2.1, h1.2, by rw [fwd_rank, fwd_rank, hr]⟩

/-- outcomes of two specification runs are layout-related: same error, or arrays with the same raw-item view and
    corresponding returned indices -/
def SpecRel (T : ClassTables) : Except Err (Array CTok × Nat) → Except Err (Array CTok × Nat) → Prop
  | .error e, .error e' => e = e'
  | .ok (a, n), .ok (a', n') =>
    view (isRaw T) a.toList = view (isRaw T) a'.toList ∧ rank (isRaw T) a.toList n = rank (isRaw T) a'.toList n'
  | _, _ => False

/-- re-tagging the found token on both sides -/
theorem retag_rel (T : ClassTables) (a a' : Array CTok) (c c' : Nat) (old t : CTok)
    (hv : view (isRaw T) a.toList = view (isRaw T) a'.toList)
    (hc : a.toList[c]? = some old) (hc' : a'.toList[c']? = some old) (hp : isRaw T old = true)
    (hr : rank (isRaw T) a.toList c = rank (isRaw T) a'.toList c') :
    SpecRel T (.ok (a.setIfInBounds c t, c + 1)) (.ok (a'.setIfInBounds c' t, c' + 1)) := by
  have hlt : c < a.toList.length := (List.getElem?_eq_some_iff.mp hc).1
  have hlt' : c' < a'.toList.length := (List.getElem?_eq_some_iff.mp hc').1
  show view _ (a.setIfInBounds c t).toList = view _ (a'.setIfInBounds c' t).toList ∧ _
  simp only [Array.toList_setIfInBounds]
  refine ⟨?_, ?_⟩
  · rw [view_set _ _ c old t hc hp, view_set _ _ c' old t hc' hp, hv, hr]
  · rw [rank_set_succ _ _ c t hlt, rank_set_succ _ _ c' t hlt', hr]

/-- **`assign_next_token` is layout blind** (what the interpreted function computes, see `call_assign_next_token`) -/
theorem assignNextTokenSpec_layout (S : Sys) (T : ClassTables) (c i j : Nat) (a a' : Array CTok)
    (hv : view (isRaw T) a.toList = view (isRaw T) a'.toList)
    (hr : rank (isRaw T) a.toList i = rank (isRaw T) a'.toList j)
    (hex : rank (isRaw T) a.toList i < (view (isRaw T) a.toList).length) :
    SpecRel T (assignNextTokenSpec S T c i a) (assignNextTokenSpec S T c j a') := by
  obtain ⟨old, h1, h2, hp, hrk⟩ := found_same T a.toList a'.toList i j hv hr hex
  have g1 : a[findNextToken T i a.toList]? = some old := by simpa using h1
  have g2 : a'[findNextToken T j a'.toList]? = some old := by simpa using h2
  unfold assignNextTokenSpec
  simp only [g1, g2]
  cases newTok S c old with
  | error e => exact rfl
  | ok t => exact retag_rel T a a' _ _ old t hv h1 h2 hp hrk

/-- **`assign_next_token_if` / `_if_not` (and the non-error branches of `_required`) are layout blind** -/
theorem assignIfSpec_layout (S : Sys) (T : ClassTables) (neg : Bool) (s : Str) (c i j : Nat) (a a' : Array CTok)
    (hv : view (isRaw T) a.toList = view (isRaw T) a'.toList)
    (hr : rank (isRaw T) a.toList i = rank (isRaw T) a'.toList j)
    (hex : rank (isRaw T) a.toList i < (view (isRaw T) a.toList).length) :
    SpecRel T (assignIfSpec S T neg s c i a) (assignIfSpec S T neg s c j a') := by
  obtain ⟨old, h1, h2, hp, hrk⟩ := found_same T a.toList a'.toList i j hv hr hex
  have g1 : a[findNextToken T i a.toList]? = some old := by simpa using h1
  have g2 : a'[findNextToken T j a'.toList]? = some old := by simpa using h2
  unfold assignIfSpec
  simp only [objectValueIs, natGet, h1, h2, g1, g2, bind, Except.bind, pure, Except.pure]
  split
  · cases newTok1 S c old with
    | error e => exact rfl
    | ok t => exact retag_rel T a a' _ _ old t hv h1 h2 hp hrk
  · exact ⟨hv, hr⟩

end Vsgm.Prog
