import VsgProofs.Lemmas.BaseCommon
import VsgModel.Base.Align
namespace Vsgm.Base.Align
open Vsgm Vsgm.Base

/-- for EVERY token index, every (also negative) adjust and every token list: if the alignment
    fix returns at all, it changed nothing but whitespace tokens -/
theorem fixV_layoutOnly (wsCls : Nat) (ti adj : Int) (l r : List Tok) (h : fixV wsCls ti adj l = .ok r) :
    LayoutOnly l r := by
  unfold fixV at h
  unfold LayoutOnly
  cases hp : pyGet l (ti - 1) with
  | error e => simp [hp, bind, Except.bind] at h
  | ok prev =>
    simp only [hp, bind, Except.bind] at h
    obtain ⟨k, hkidx, hk⟩ := pyGet_some l (ti - 1) prev hp
    by_cases hw : (prev.kind == Kind.ws) = true
    · simp only [hw, if_true] at h
      obtain ⟨k', hk', hr⟩ := pySet_eq _ _ _ _ h
      rw [hkidx] at hk'
      cases hk'
      subst hr
      have hpl : prev.isLayout = true := by
        unfold Tok.isLayout Kind.isLayout
        have : prev.kind = .ws := by simpa using hw
        simp [this]
      have hnl : ({ prev with val := spaces (↑prev.val.length + adj) } : Tok).isLayout = true := by
        unfold Tok.isLayout; exact hpl
      exact (nonLayout_set_layout l k prev _ hk hpl hnl).symm
    · simp only [hw, Bool.false_eq_true, if_false] at h
      exact (insertToken_layout l r ti _ (by simp [Tok.isLayout, Kind.isLayout]) h).symm

end Vsgm.Base.Align
