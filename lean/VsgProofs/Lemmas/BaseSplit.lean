/-
  Effect of the declaration splitters (signal_015, port_026) for every action and token list:
  the code sequence of the result is a concatenation of blocks `A ++ idᵢ ++ B (++ ;)`; hence — when
  the identifiers recorded in the action are the non-comma code tokens the fix drops — every code
  token of the input except commas survives in order, and everything in the output is a copy of an
  input token (or the `;` / line break the fixer creates).
-/
import VsgProofs.Lemmas.BaseStructCommon
import VsgModel.Base.Split
namespace Vsgm.Base.Split
open Vsgm Vsgm.Base

/-! ### list combinatorics -/

/-- `A ++ x₁ ++ … ++ xₙ ++ B` is a subsequence of `(A x₁ B s₁)(A x₂ B s₂)…(A xₙ B sₙ)` for `n ≥ 1` -/
theorem blocks_sublist {β : Type} (A B : List β) : ∀ (xs : List (List β × List β)), xs ≠ [] →
    (A ++ (xs.map (·.1)).flatten ++ B).Sublist (xs.flatMap (fun x => A ++ x.1 ++ B ++ x.2))
  | [], h => absurd rfl h
  | [x], _ => by
    simp only [List.map_cons, List.map_nil, List.flatten_cons, List.flatten_nil, List.append_nil,
      List.flatMap_cons, List.flatMap_nil]
    exact List.sublist_append_left _ _
  | x :: y :: rest, _ => by
    have ih := blocks_sublist A B (y :: rest) (by simp)
    simp only [List.map_cons, List.flatten_cons, List.flatMap_cons] at ih ⊢
    have h1 : (A ++ x.1).Sublist (A ++ x.1 ++ B ++ x.2) := by
      rw [List.append_assoc (A ++ x.1)]; exact List.sublist_append_left _ _
    have h2 : (y.1 ++ (rest.map (·.1)).flatten ++ B).Sublist
        (A ++ (y.1 ++ (rest.map (·.1)).flatten) ++ B) := by
      rw [List.append_assoc A]; exact List.sublist_append_right _ _
    have := h1.append (h2.trans ih)
    simpa [List.append_assoc] using this

theorem dropLast_snoc {α : Type} (m : List α) (c : α) : (m ++ [c]).dropLast = m := by
  simp

/-! ### signal_015 -/

theorem codeSeq_dropCr (fold : Str → Str) (l : List Tok) : codeSeq fold (dropCr l) = codeSeq fold l := by
  induction l with
  | nil => rfl
  | cons t r ih =>
    unfold dropCr at ih ⊢
    by_cases h : (t.kind == Kind.cr) = true
    · have hk : t.kind = .cr := by simpa using h
      simp only [List.filter_cons, h, Bool.not_true, Bool.false_eq_true, if_false]
      rw [ih]
      simp [codeSeq, codeOf, Tok.isCode, hk]
    · simp only [List.filter_cons, h, Bool.not_false, if_true]
      simp only [codeSeq, List.flatMap_cons] at ih ⊢
      rw [ih]

theorem commentSeq_dropCr (l : List Tok) : commentSeq (dropCr l) = commentSeq l := by
  induction l with
  | nil => rfl
  | cons t r ih =>
    unfold dropCr at ih ⊢
    by_cases h : (t.kind == Kind.cr) = true
    · have hk : t.kind = .cr := by simpa using h
      simp only [List.filter_cons, h, Bool.not_true, Bool.false_eq_true, if_false]
      rw [ih]
      simp [commentSeq, Tok.isCommentLike, Kind.isCommentLike, hk]
    · simp only [List.filter_cons, h, Bool.not_false, if_true]
      simp only [commentSeq, List.flatMap_cons] at ih ⊢
      rw [ih]

/-- past `start`, only the tokens after `end` are copied -/
theorem sigOne_after (a b : Nat) (ident : Tok) : ∀ (l : List Tok) (i : Nat), a < i →
    sigOne a b ident l i = l.drop (b + 1 - i)
  | [], _, _ => by simp [sigOne]
  | t :: r, i, hi => by
    unfold sigOne
    rw [sigOne_after a b ident r (i + 1) (by omega)]
    have h1 : ¬ ((i : Int) < (a : Int)) := by omega
    have h2 : ¬ ((i : Int) = (a : Int)) := by omega
    simp only [h1, h2, if_false, List.nil_append]
    by_cases hb : (i : Int) > (b : Int)
    · simp only [hb, if_true]
      have : b + 1 - i = 0 := by omega
      have h' : b + 1 - (i + 1) = 0 := by omega
      rw [this, h']; simp
    · simp only [hb, if_false, List.nil_append]
      have : b + 1 - i = (b + 1 - (i + 1)) + 1 := by omega
      rw [this]; simp

/-- for `0 ≤ start ≤ end`: tokens before `start`, the identifier (if `start` is in range), tokens after `end` -/
theorem sigOne_shape (a b : Nat) (hab : a ≤ b) (ident : Tok) : ∀ (l : List Tok) (i : Nat), i ≤ a →
    sigOne a b ident l i = l.take (a - i) ++ (if a - i < l.length then [ident] else []) ++ l.drop (b + 1 - i)
  | [], _, _ => by simp [sigOne]
  | t :: r, i, hi => by
    unfold sigOne
    by_cases hia : i = a
    · subst hia
      rw [sigOne_after i b ident r (i + 1) (by omega)]
      have h1 : ¬ ((i : Int) < (i : Int)) := by omega
      have h3 : ¬ ((i : Int) > (b : Int)) := by omega
      simp only [h1, if_false, if_true, h3, List.nil_append, List.append_nil]
      have : b + 1 - i = (b + 1 - (i + 1)) + 1 := by omega
      rw [this]; simp
    · rw [sigOne_shape a b hab ident r (i + 1) (by omega)]
      have h1 : (i : Int) < (a : Int) := by omega
      have h2 : ¬ ((i : Int) = (a : Int)) := by omega
      have h3 : ¬ ((i : Int) > (b : Int)) := by omega
      simp only [h1, h2, h3, if_true, if_false, List.append_nil]
      have e1 : a - i = (a - (i + 1)) + 1 := by omega
      have e2 : b + 1 - i = (b + 1 - (i + 1)) + 1 := by omega
      rw [e1, e2]
      simp [List.take_succ_cons, List.drop_succ_cons]

/-- every token of one block is a token of the input or the identifier -/
theorem sigOne_mem (start stop : Int) (ident : Tok) : ∀ (l : List Tok) (i : Nat) (t : Tok),
    t ∈ sigOne start stop ident l i → t ∈ l ∨ t = ident
  | [], _, t, h => by simp [sigOne] at h
  | x :: r, i, t, h => by
    unfold sigOne at h
    simp only [List.mem_append] at h
    rcases h with ((h | h) | h) | h
    · split at h
      · simp at h; exact Or.inl (by simp [h])
      · simp at h
    · split at h
      · simp at h; exact Or.inr h
      · simp at h
    · split at h
      · simp at h; exact Or.inl (by simp [h])
      · simp at h
    · rcases sigOne_mem start stop ident r (i + 1) t h with h | h
      · exact Or.inl (List.mem_cons_of_mem _ h)
      · exact Or.inr h

theorem sigAll_snoc (E : Env) (start stop : Int) (l : List Tok) : ∀ (ids : List Tok), ids ≠ [] →
    ∃ m, sigAll E start stop l ids = m ++ [E.cr]
  | [], h => absurd rfl h
  | [x], _ => ⟨dropCr (sigOne start stop x l 0), by simp [sigAll]⟩
  | x :: y :: rest, _ => by
    obtain ⟨m, hm⟩ := sigAll_snoc E start stop l (y :: rest) (by simp)
    refine ⟨dropCr (sigOne start stop x l 0) ++ [E.cr] ++ m, ?_⟩
    unfold sigAll
    rw [hm]; simp

theorem codeSeq_sigAll (fold : Str → Str) (E : Env) (start stop : Int) (l : List Tok) : ∀ (ids : List Tok),
    codeSeq fold (sigAll E start stop l ids) = ids.flatMap (fun x => codeSeq fold (sigOne start stop x l 0))
  | [] => rfl
  | x :: r => by
    unfold sigAll
    rw [codeSeq_append, codeSeq_append, codeSeq_dropCr, codeSeq_sigAll fold E start stop l r]
    simp [codeSeq, codeOf, Env.cr, Tok.isCode]

theorem commentSeq_sigAll (E : Env) (start stop : Int) (l : List Tok) : ∀ (ids : List Tok),
    commentSeq (sigAll E start stop l ids) = ids.flatMap (fun x => commentSeq (sigOne start stop x l 0))
  | [] => rfl
  | x :: r => by
    unfold sigAll
    rw [commentSeq_append, commentSeq_append, commentSeq_dropCr, commentSeq_sigAll E start stop l r]
    simp [commentSeq, Env.cr, Tok.isCommentLike, Kind.isCommentLike]

theorem sigAll_mem (E : Env) (start stop : Int) (l : List Tok) : ∀ (ids : List Tok) (t : Tok),
    t ∈ sigAll E start stop l ids → t ∈ l ∨ t ∈ ids ∨ t = E.cr
  | [], t, h => by simp [sigAll] at h
  | x :: r, t, h => by
    unfold sigAll at h
    simp only [List.mem_append, List.mem_singleton] at h
    rcases h with (h | h) | h
    · have : t ∈ sigOne start stop x l 0 := by
        unfold dropCr at h; exact (List.mem_filter.mp h).1
      rcases sigOne_mem start stop x l 0 t this with h | h
      · exact Or.inl h
      · exact Or.inr (Or.inl (by simp [h]))
    · exact Or.inr (Or.inr h)
    · rcases sigAll_mem E start stop l r t h with h | h | h
      · exact Or.inl h
      · exact Or.inr (Or.inl (List.mem_cons_of_mem _ h))
      · exact Or.inr (Or.inr h)

/-- what `fixSignal` returns: the blocks, minus the last line break -/
theorem fixSignal_eq (E : Env) (action : KV) (l r : List Tok) (h : fixSignal E action l = .ok r) :
    ∃ ids start stop, (needList action "identifiers" >>= toksOf) = .ok ids ∧ ids ≠ [] ∧
      (l ≠ [] → needIntS action "start" = .ok start ∧ needIntS action "end" = .ok stop) ∧
      r = (sigAll E start stop l ids).dropLast ∧ sigAll E start stop l ids = r ++ [E.cr] := by
  unfold fixSignal at h
  obtain ⟨idsV, h1, h⟩ := bind_ok _ _ _ h
  obtain ⟨ids, h2, h⟩ := bind_ok _ _ _ h
  have hids : (needList action "identifiers" >>= toksOf) = .ok ids := by
    rw [h1]; exact h2
  cases ids with
  | nil => simp at h
  | cons x xs =>
    simp only at h
    by_cases he : l.isEmpty = true
    · simp only [he, if_true] at h
      cases h
      have hl : l = [] := by simpa using he
      subst hl
      obtain ⟨m, hm⟩ := sigAll_snoc E 0 0 [] (x :: xs) (by simp)
      refine ⟨x :: xs, 0, 0, hids, by simp, by simp, rfl, ?_⟩
      rw [hm, dropLast_snoc]
    · simp only [he, Bool.false_eq_true, if_false] at h
      obtain ⟨start, hs, h⟩ := bind_ok _ _ _ h
      obtain ⟨stop, ht, h⟩ := bind_ok _ _ _ h
      cases h
      obtain ⟨m, hm⟩ := sigAll_snoc E start stop l (x :: xs) (by simp)
      refine ⟨x :: xs, start, stop, hids, by simp, fun _ => ⟨hs, ht⟩, rfl, ?_⟩
      rw [hm, dropLast_snoc]

/-! ### port_026 -/

theorem portAll_eq (E : Env) (split last : Int) (l : List Tok) : ∀ (idx : List Int) (r : List Tok),
    portAll E split last l idx = .ok r →
    ∃ ts : List Tok, ts.length = idx.length ∧ (∀ t ∈ ts, t ∈ l) ∧
      (∀ p ∈ ts.zip idx, pyGet l p.2 = .ok p.1) ∧
      r = (ts.zip idx).flatMap (fun p => [p.1] ++ pyFrom l split ++
        (if p.2 != last then [E.inst E.ifaceSemicolonCls [';'], E.cr] else []))
  | [], r, h => by
    simp [portAll] at h; subst h; exact ⟨[], rfl, by simp, by simp, rfl⟩
  | i :: is, r, h => by
    unfold portAll at h
    obtain ⟨a, ha, h⟩ := bind_ok _ _ _ h
    obtain ⟨b, hb, h⟩ := bind_ok _ _ _ h
    cases h
    obtain ⟨ts, hlen, hmem, hfa, rfl⟩ := portAll_eq E split last l is b hb
    unfold portOne at ha
    obtain ⟨t, ht, ha⟩ := bind_ok _ _ _ ha
    cases ha
    obtain ⟨k, _, hk⟩ := pyGet_some l i t ht
    refine ⟨t :: ts, by simp [hlen], ?_, ?_, by simp⟩
    · intro x hx
      simp only [List.mem_cons] at hx
      rcases hx with rfl | hx
      · exact List.mem_of_getElem? hk
      · exact hmem x hx
    · intro p hp
      simp only [List.zip_cons_cons, List.mem_cons] at hp
      rcases hp with rfl | hp
      · exact ht
      · exact hfa p hp

theorem fixPort_eq (E : Env) (action : KV) (l r : List Tok) (h : fixPort E action l = .ok r) :
    r = [] ∨ ∃ (idx : List Int) (last split : Int) (ts : List Tok), (needList action "identifier_indexes" >>= intsStrict) = .ok idx ∧
      idx.getLast? = some last ∧ needIntS action "split_index" = .ok split ∧
      ts.length = idx.length ∧ (∀ t ∈ ts, t ∈ l) ∧ (∀ p ∈ ts.zip idx, pyGet l p.2 = .ok p.1) ∧
      r = (ts.zip idx).flatMap (fun p => [p.1] ++ pyFrom l split ++
        (if p.2 != last then [E.inst E.ifaceSemicolonCls [';'], E.cr] else [])) := by
  unfold fixPort at h
  obtain ⟨idxV, h1, h⟩ := bind_ok _ _ _ h
  obtain ⟨idx, h2, h⟩ := bind_ok _ _ _ h
  have hidx : (needList action "identifier_indexes" >>= intsStrict) = .ok idx := by rw [h1]; exact h2
  cases hl : idx.getLast? with
  | none => simp [hl] at h; exact Or.inl h
  | some last =>
    simp only [hl] at h
    obtain ⟨split, hs, h⟩ := bind_ok _ _ _ h
    obtain ⟨ts, hlen, hmem, hfa, hr⟩ := portAll_eq E split last l idx r h
    exact Or.inr ⟨idx, last, split, ts, hidx, hl, hs, hlen, hmem, hfa, hr⟩

/-- every token of the result is a token of the input, the created `;` or the created line break -/
theorem fixPort_mem (E : Env) (action : KV) (l r : List Tok) (h : fixPort E action l = .ok r) (t : Tok)
    (ht : t ∈ r) : t ∈ l ∨ t = E.inst E.ifaceSemicolonCls [';'] ∨ t = E.cr := by
  rcases fixPort_eq E action l r h with rfl | ⟨idx, last, split, ts, _, _, _, _, hmem, _, rfl⟩
  · simp at ht
  · simp only [List.mem_flatMap, List.mem_append] at ht
    obtain ⟨p, hp, hx⟩ := ht
    rcases hx with (hx | hx) | hx
    · simp at hx; subst hx
      exact Or.inl (hmem _ (List.of_mem_zip hp).1)
    · exact Or.inl (List.mem_of_mem_drop hx)
    · split at hx
      · simp at hx; rcases hx with hx | hx
        · exact Or.inr (Or.inl hx)
        · exact Or.inr (Or.inr hx)
      · simp at hx


/-! ### code-sequence consequences -/

/-- signal_015, every action: the code sequence of the result is the concatenation, over the
    identifiers of the action, of the code of one block -/
theorem fixSignal_codeSeq (fold : Str → Str) (E : Env) (action : KV) (l r : List Tok)
    (h : fixSignal E action l = .ok r) :
    ∃ ids start stop, (needList action "identifiers" >>= toksOf) = .ok ids ∧ ids ≠ [] ∧
      (l ≠ [] → needIntS action "start" = .ok start ∧ needIntS action "end" = .ok stop) ∧
      codeSeq fold r = ids.flatMap (fun x => codeSeq fold (sigOne start stop x l 0)) ∧
      commentSeq r = ids.flatMap (fun x => commentSeq (sigOne start stop x l 0)) ∧
      (∀ t ∈ r, t ∈ l ∨ t ∈ ids ∨ t = E.cr) := by
  obtain ⟨ids, start, stop, hids, hne, hse, _, hsn⟩ := fixSignal_eq E action l r h
  refine ⟨ids, start, stop, hids, hne, hse, ?_, ?_, ?_⟩
  · rw [← codeSeq_sigAll fold E, hsn, codeSeq_append]
    simp [codeSeq, codeOf, Env.cr, Tok.isCode]
  · rw [← commentSeq_sigAll E, hsn, commentSeq_append]
    simp [commentSeq, Env.cr, Tok.isCommentLike, Kind.isCommentLike]
  · intro t ht
    exact sigAll_mem E start stop l ids t (by rw [hsn]; exact List.mem_append_left _ ht)

/-- the filtered-subsequence argument shared by the two splitters: blocks `A ++ xᵢ ++ B ++ sᵢ`, input
    `A ++ M ++ B`, and `M` agrees with the `xᵢ` up to the filtered-out separator -/
theorem split_sublist {β : Type} (p : β → Bool) (A M B : List β) (xs : List (List β × List β)) (hne : xs ≠ [])
    (hc : M.filter p = ((xs.map (·.1)).flatten).filter p) :
    ((A ++ M ++ B).filter p).Sublist ((xs.flatMap (fun x => A ++ x.1 ++ B ++ x.2)).filter p) := by
  have h := (blocks_sublist A B xs hne).filter p
  have e : (A ++ M ++ B).filter p = (A ++ (xs.map (·.1)).flatten ++ B).filter p := by
    simp only [List.filter_append, hc]
  rw [e]; exact h

theorem split_mem {β : Type} (p : β → Bool) (A M B : List β) (xs : List (List β × List β))
    (hc : M.filter p = ((xs.map (·.1)).flatten).filter p) (x : β) (hp : p x = true)
    (hx : x ∈ xs.flatMap (fun x => A ++ x.1 ++ B ++ x.2)) :
    x ∈ A ++ M ++ B ∨ ∃ y ∈ xs, x ∈ y.2 := by
  simp only [List.mem_flatMap, List.mem_append] at hx
  obtain ⟨y, hy, hx⟩ := hx
  rcases hx with ((hx | hx) | hx) | hx
  · exact Or.inl (by simp [hx])
  · have : x ∈ ((xs.map (·.1)).flatten).filter p := by
      refine List.mem_filter.mpr ⟨?_, hp⟩
      exact List.mem_flatten.mpr ⟨y.1, List.mem_map.mpr ⟨y, hy, rfl⟩, hx⟩
    rw [← hc] at this
    exact Or.inl (by simp [(List.mem_filter.mp this).1])
  · exact Or.inl (by simp [hx])
  · exact Or.inr ⟨y, hy, hx⟩


/-- signal_015 with `0 ≤ start ≤ end`, `start` in range: the blocks are `A ++ code idᵢ ++ B`, the input
    is `A ++ M ++ B` -/
theorem signal_blocks (fold : Str → Str) (a b : Nat) (hab : a ≤ b) (l : List Tok) (hal : a < l.length)
    (ids : List Tok) :
    ids.flatMap (fun x => codeSeq fold (sigOne a b x l 0)) =
      (ids.map (fun x => (codeOf fold x, ([] : List Str)))).flatMap
        (fun y => codeSeq fold (l.take a) ++ y.1 ++ codeSeq fold (l.drop (b + 1)) ++ y.2) ∧
    codeSeq fold l = codeSeq fold (l.take a) ++ codeSeq fold ((l.drop a).take (b + 1 - a)) ++ codeSeq fold (l.drop (b + 1)) := by
  constructor
  · rw [List.flatMap_map]
    congr 1
    funext x
    rw [sigOne_shape a b hab x l 0 (by omega)]
    simp only [Nat.sub_zero, hal, if_true, codeSeq_append, List.append_nil]
    simp [codeSeq]
  · rw [← codeSeq_append, ← codeSeq_append]
    congr 1
    have h1 : b + 1 = a + (b + 1 - a) := by omega
    conv => lhs; rw [← List.take_append_drop a l]
    rw [List.append_assoc]
    congr 1
    conv => lhs; rw [← List.take_append_drop (b + 1 - a) (List.drop a l)]
    congr 1
    rw [List.drop_drop]
    congr 1
    omega

/-- port_026: the blocks are `code tᵢ ++ B ++ (;)`, the input is `M ++ B` -/
theorem port_blocks (fold : Str → Str) (E : Env) (split last : Int) (l : List Tok) (ts : List Tok) (idx : List Int)
    (hlen : ts.length = idx.length) :
    codeSeq fold ((ts.zip idx).flatMap (fun p => [p.1] ++ pyFrom l split ++
        (if p.2 != last then [E.inst E.ifaceSemicolonCls [';'], E.cr] else []))) =
      ((ts.zip idx).map (fun p => (codeOf fold p.1,
          if p.2 != last then codeOf fold (E.inst E.ifaceSemicolonCls [';']) else []))).flatMap
        (fun y => [] ++ y.1 ++ codeSeq fold (pyFrom l split) ++ y.2) ∧
    codeSeq fold l = [] ++ codeSeq fold (pyTo l split) ++ codeSeq fold (pyFrom l split) ∧
    (((ts.zip idx).map (fun p => (codeOf fold p.1,
          if p.2 != last then codeOf fold (E.inst E.ifaceSemicolonCls [';']) else []))).map (·.1)).flatten
      = ts.flatMap (codeOf fold) := by
  refine ⟨?_, ?_, ?_⟩
  · rw [List.flatMap_map]
    generalize ts.zip idx = z
    induction z with
    | nil => rfl
    | cons p z ih =>
      simp only [List.flatMap_cons, codeSeq_append, ih]
      congr 1
      by_cases hp : (p.2 != last) = true
      · simp [hp, codeSeq, codeOf, Env.cr, Tok.isCode]
      · simp [hp, codeSeq]
  · unfold pyTo pyFrom
    rw [List.nil_append, ← codeSeq_append, List.take_append_drop]
  · induction ts generalizing idx with
    | nil => simp
    | cons t ts ih =>
      cases idx with
      | nil => simp at hlen
      | cons i idx =>
        simp only [List.zip_cons_cons, List.map_cons, List.flatten_cons, List.flatMap_cons]
        rw [ih idx (by simpa using hlen)]

end Vsgm.Base.Split
