/-
  WP2c — `SelStable` for the between / between-unless / unless variants of token_indent: the selection of a candidate
  only depends on the sequence of NON-WHITESPACE tokens of the file (positions of the file are a strictly monotone
  image of positions of that sequence, and the start / end pairing commutes with strictly monotone renamings), and
  the fix keeps that sequence.
-/
import VsgProofs.Lemmas.BFull2IndentVar
import VsgProofs.Lemmas.BFull2Pairing
namespace Vsgm.BFull2
open Vsgm Vsgm.TM Vsgm.TM.Lemmas

variable (uid : Tok → Option Key)

/-- the file without its whitespace tokens -/
def nonws (h : List Tok) : List Tok := h.filter (fun t => !isWsU uid t)

/-- position in `h` of the `o`-th non-whitespace token (continued strictly monotonically beyond the file) -/
def emb : List Tok → Nat → Nat
  | [], o => o
  | t :: r, o =>
    if isWsU uid t then emb r o + 1
    else match o with
      | 0 => 0
      | o + 1 => emb r o + 1

theorem emb_smono (h : List Tok) : SMono (emb uid h) := by
  induction h with
  | nil => intro x y hxy; exact hxy
  | cons t r ih =>
    intro x y hxy
    unfold emb
    by_cases hw : isWsU uid t = true
    · simp only [hw, if_true]; have := ih x y hxy; omega
    · simp only [hw, Bool.false_eq_true, if_false]
      cases y with
      | zero => omega
      | succ y' =>
        cases x with
        | zero => simp
        | succ x' => have := ih x' y' (by omega); simp; omega

/-- a key of the pairing: absent, or a plain key that is not whitespace -/
def KeyOk (u : Option Key) : Prop := ∀ k, u = some k → Plain k ∧ k ≠ wsKey

theorem specFrom_shift (k : Key) (us : List (Option Key)) (i : Nat) :
    specFrom k (i + 1) us = (specFrom k i us).map (· + 1) := by
  induction us generalizing i with
  | nil => rfl
  | cons u us ih => simp [specFrom, ih (i + 1), List.map_replicate]

theorem posK_emb (k : Key) (hk : Plain k) (hw : k ≠ wsKey) (h : List Tok) :
    specFrom k 0 (h.map uid) = (specFrom k 0 ((nonws uid h).map uid)).map (emb uid h) := by
  induction h with
  | nil => rfl
  | cons t r ih =>
    simp only [List.map_cons, specFrom, Nat.zero_add]
    rw [specFrom_shift k (r.map uid) 0, ih]
    by_cases hwt : isWsU uid t = true
    · have hu : uid t = some wsKey := by simpa [isWsU] using hwt
      have hc : contrib k (uid t) = 0 := by
        rw [contrib_plain k hk, hu]
        have : some wsKey ≠ some k := fun e => hw (Option.some.inj e).symm
        simp [this]
      have hn : nonws uid (t :: r) = nonws uid r := by simp [nonws, hwt]
      rw [hc, hn]
      simp only [List.replicate_zero, List.nil_append, List.map_map]
      apply List.map_congr_left
      intro o _
      simp [emb, hwt]
    · have hwt' : isWsU uid t = false := by simpa using hwt
      have hn : nonws uid (t :: r) = t :: nonws uid r := by simp [nonws, hwt']
      rw [hn]
      simp only [List.map_cons, specFrom, Nat.zero_add, List.map_append, List.map_replicate]
      rw [specFrom_shift k ((nonws uid r).map uid) 0]
      simp only [List.map_map]
      congr 1
      · simp [emb, hwt']
      · apply List.map_congr_left
        intro o _
        simp [emb, hwt']

theorem get_emb (h : List Tok) (u : Option Key) (hu : KeyOk u) :
    (processTokens uid h).get u = ((processTokens uid (nonws uid h)).get u).map (emb uid h) := by
  cases u with
  | none => rfl
  | some k =>
    obtain ⟨hp, hw⟩ := hu k rfl
    unfold Index.get
    simp only
    rw [processTokens_get, processTokens_get]
    exact posK_emb uid k hp hw h

theorem get_sorted (h : List Tok) (u : Option Key) : ((processTokens uid h).get u).Pairwise (· ≤ ·) := by
  cases u with
  | none => exact List.Pairwise.nil
  | some k =>
    unfold Index.get
    simp only
    rw [processTokens_get]
    exact specFrom_sorted k _ 0

theorem pairIndexes_emb (h : List Tok) (a b : Option Key) (ha : KeyOk a) (hb : KeyOk b) :
    (processTokens uid h).pairIndexes a b =
      (((processTokens uid (nonws uid h)).pairIndexes a b).1.map (emb uid h),
       ((processTokens uid (nonws uid h)).pairIndexes a b).2.map (emb uid h)) := by
  unfold Index.pairIndexes
  rw [get_emb uid h a ha, get_emb uid h b hb]
  exact startEndIndexes_map (emb_smono uid h) _ _ (get_sorted uid _ b)

theorem isBetweenIdx_map {φ : Nat → Nat} (hφ : SMono φ) (o : Nat) (ls le : List Nat) (incl : Bool) :
    isBetweenIdx (φ o) (ls.map φ) (le.map φ) incl = isBetweenIdx o ls le incl := by
  unfold isBetweenIdx
  rw [List.zip_map, List.any_map]
  congr 1
  funext se
  have a1 : φ se.1 ≤ φ o ↔ se.1 ≤ o := by have := hφ.lt_iff (x := o) (y := se.1); omega
  have a2 : φ o ≤ φ se.2 ↔ o ≤ se.2 := by have := hφ.lt_iff (x := se.2) (y := o); omega
  have a3 : φ se.1 < φ o ↔ se.1 < o := hφ.lt_iff
  have a4 : φ o < φ se.2 ↔ o < se.2 := hφ.lt_iff
  cases incl <;> simp [Function.comp, Prod.map, a1, a2, a3, a4]

/-- the keys of the `unless` pairs -/
def PairsOk (u : List (Cls × Cls)) : Prop := ∀ p ∈ u, KeyOk p.1.uid ∧ KeyOk p.2.uid

theorem idxsOfPairs_emb (h : List Tok) (u : List (Cls × Cls)) (hu : PairsOk u) :
    idxsOfPairs (processTokens uid h) u =
      (idxsOfPairs (processTokens uid (nonws uid h)) u).map (Prod.map (emb uid h) (emb uid h)) := by
  unfold idxsOfPairs
  induction u with
  | nil => rfl
  | cons p r ih =>
    have hp := hu p (List.mem_cons_self ..)
    rw [List.flatMap_cons, List.flatMap_cons, List.map_append,
      ih (fun q hq => hu q (List.mem_cons_of_mem _ hq)),
      pairIndexes_emb uid h p.1.uid p.2.uid hp.1 hp.2, List.zip_map]

theorem unlessOk_emb (h : List Tok) (u : List (Cls × Cls)) (hu : PairsOk u) (o : Nat) :
    unlessOk (processTokens uid h) u (emb uid h o) = unlessOk (processTokens uid (nonws uid h)) u o := by
  unfold unlessOk
  rw [idxsOfPairs_emb uid h u hu, List.length_map, List.any_map]
  congr 2
  congr 1
  funext se
  have hφ := emb_smono uid h
  have a1 : emb uid h se.1 ≤ emb uid h o ↔ se.1 ≤ o := by have := hφ.lt_iff (x := o) (y := se.1); omega
  have a2 : emb uid h o ≤ emb uid h se.2 ↔ o ≤ se.2 := by have := hφ.lt_iff (x := se.2) (y := o); omega
  simp [Function.comp, Prod.map, a1, a2]

/-- every key the variant's filter looks up is absent or a plain non-whitespace key -/
def VarOk (P : Params) : Prop :=
  match P.variant with
  | .plain => True
  | .between a b _ => KeyOk a.uid ∧ KeyOk b.uid
  | .betweenUnless a b u _ => KeyOk a.uid ∧ KeyOk b.uid ∧ PairsOk u
  | .unlessBetween u => PairsOk u

/-- **the selection only sees the non-whitespace tokens** -/
theorem posSel_emb (P : Params) (hP : VarOk P) (h : List Tok) (o : Nat) :
    posSel P (processTokens uid h) (emb uid h o) = posSel P (processTokens uid (nonws uid h)) o := by
  unfold posSel
  unfold VarOk at hP
  cases hv : P.variant with
  | plain => rfl
  | between a b incl =>
    rw [hv] at hP
    simp only
    rw [pairIndexes_emb uid h a.uid b.uid hP.1 hP.2]
    exact isBetweenIdx_map (emb_smono uid h) o _ _ incl
  | betweenUnless a b u incl =>
    rw [hv] at hP
    simp only
    rw [pairIndexes_emb uid h a.uid b.uid hP.1 hP.2.1, unlessOk_emb uid h u hP.2.2 o]
    congr 1
    exact isBetweenIdx_map (emb_smono uid h) o _ _ incl
  | unlessBetween u =>
    rw [hv] at hP
    simp only
    exact unlessOk_emb uid h u hP o

theorem posOfOrd_eq (h : List Tok) (o : Nat) :
    posOfOrd uid h o = if o < (nonws uid h).length then some (emb uid h o) else none := by
  induction h generalizing o with
  | nil => simp [posOfOrd, nonws]
  | cons t r ih =>
    unfold posOfOrd emb
    by_cases hw : isWsU uid t = true
    · have hn : nonws uid (t :: r) = nonws uid r := by simp [nonws, hw]
      simp only [hw, if_true, hn, ih o]
      split <;> simp
    · have hw' : isWsU uid t = false := by simpa using hw
      have hn : nonws uid (t :: r) = t :: nonws uid r := by simp [nonws, hw']
      simp only [hw', Bool.false_eq_true, if_false, hn, List.length_cons]
      cases o with
      | zero => simp
      | succ o' =>
        simp only [ih o']
        by_cases hl : o' < (nonws uid r).length
        · have : o' + 1 < (nonws uid r).length + 1 := by omega
          simp [hl, this]
        · have : ¬ o' + 1 < (nonws uid r).length + 1 := by omega
          simp [hl, this]

/-- `selOrd` is a function of the non-whitespace tokens alone -/
theorem selOrd_nonws (P : Params) (hP : VarOk P) (h : List Tok) (o : Nat) :
    selOrd uid P h o =
      (decide (o < (nonws uid h).length) && posSel P (processTokens uid (nonws uid h)) o) := by
  unfold selOrd
  rw [posOfOrd_eq]
  by_cases hl : o < (nonws uid h).length
  · simp [hl, posSel_emb uid P hP h o]
  · simp [hl]

variable (P : Params) (ind : Oracle)

/-- projections blind to tokens whose id is `parser.whitespace` (plain rule) -/
theorem fixAll_homU {β : Type} (π : List Tok → List β) (hπ : ∀ a b, π (a ++ b) = π a ++ π b)
    (hπws : ∀ t : Tok, isWsU uid t = true → π [t] = [])
    (hv : P.variant = .plain) (hcs : CsOk P.cs) (hs : StyleOk P) (hu : UidOk uid P) (f : List Tok)
    (hb : ∀ t ∈ f, t.isBof = false) : π (fixAll uid P ind f) = π f := by
  rw [fixAll_eq_news uid P ind hv hcs hs f hb]
  have := news_hom π hπ ((units uid P ind [] f).map (toPiece P)) ?_
  · rw [this, units_olds']
  · intro p hp
    obtain ⟨u, huu, rfl⟩ := List.mem_map.mp hp
    obtain ⟨q, hq, hc⟩ := units_mem uid P ind [] f (crWs_nil uid) u huu
    have hcons : ∀ (a : Tok) (l : List Tok), π (a :: l) = π [a] ++ π l := by
      intro a l; rw [← hπ]; rfl
    rcases hc with ⟨x, hx, rfl⟩ | ⟨x, hx, y, hy, hcr, hw, rfl⟩
    · cases hvv : vOf uid P ind q x with
      | none => simp [toPiece]
      | some v =>
        obtain ⟨_, _, _, hto, lvl, _, _, _, ha⟩ := vOf_single uid P ind q x v hq hvv
        have hf := fixTok_add P hs v x lvl hto ha
        simp only [toPiece, hf]
        rw [dropBof_id _ (by
          intro t ht; simp at ht; rcases ht with rfl | rfl
          · rfl
          · exact hb _ hx)]
        have hwu : isWsU uid ({ cls := P.wsCls, kind := .ws, val := wsVal P lvl } : Tok) = true := by
          unfold isWsU; rw [hu.ws _ rfl]; simp
        rw [hcons, hπws _ hwu]; rfl
    · cases hvv : vOf uid P ind (q ++ [x]) y with
      | none => simp [toPiece]
      | some v =>
        obtain ⟨_, _, hto, lvl, _, hcase⟩ := vOf_pair uid P ind q x y v hcr hw hvv
        rcases hcase with ⟨_, ha⟩ | ⟨_, _, ha⟩
        · have hf := fixTok_remove P v x y hto ha
          simp only [toPiece, hf]
          rw [dropBof_id [y] (by intro t ht; simp at ht; rw [ht]; exact hb _ hy)]
          rw [hcons x, hπws x hw]; rfl
        · have hf := fixTok_adjust P hs v x y lvl hto ha
          simp only [toPiece, hf]
          rw [dropBof_id _ (by
            intro t ht; simp at ht; rcases ht with rfl | rfl
            · exact hb x hx
            · exact hb _ hy)]
          have hwu : isWsU uid ({ x with val := wsVal P lvl } : Tok) = true := by
            have := hu.cls ({ x with val := wsVal P lvl } : Tok) x rfl
            unfold isWsU at hw ⊢; rw [this]; exact hw
          rw [hcons, hcons x, hπws x hw, hπws _ hwu]

theorem nonws_append (a b : List Tok) : nonws uid (a ++ b) = nonws uid a ++ nonws uid b := by
  simp [nonws]

/-- **the fix keeps the sequence of non-whitespace tokens** (every variant) -/
theorem nonws_fixAll (hcs : CsOk P.cs) (hs : StyleOk P) (hu : UidOk uid P) (f : List Tok)
    (hb : ∀ t ∈ f, t.isBof = false) : nonws uid (fixAll uid P ind f) = nonws uid f := by
  rw [fixAll_variant_mask uid P ind hcs hs f]
  exact fixAll_homU uid { P with variant := .plain } (maskO (selOrd uid P f) ind) (nonws uid) (nonws_append uid)
    (by intro t ht; simp [nonws, ht]) rfl hcs hs ⟨hu.cls, hu.ws⟩ f hb

/-- **`SelStable` holds**: all keys of the variant's filter absent or plain non-whitespace keys (`VarOk`; table fact
    for the nine variant rules) -/
theorem selStable (hcs : CsOk P.cs) (hs : StyleOk P) (hu : UidOk uid P) (hP : VarOk P) (f : List Tok)
    (hb : ∀ t ∈ f, t.isBof = false) : SelStable uid P ind f := by
  intro o
  rw [selOrd_nonws uid P hP, selOrd_nonws uid P hP, nonws_fixAll uid P ind hcs hs hu f hb]

/-- **whole-rule idempotence of token_indent, all four extractors** -/
theorem analyze_fixAll_all (hcs : CsOk P.cs) (hs : StyleOk P) (hu : UidOk uid P) (hP : VarOk P) (f : List Tok)
    (hb : ∀ t ∈ f, t.isBof = false) : (sem uid P ind).analyze (fixAll uid P ind f) = [] :=
  analyze_fixAll_variant uid P ind hcs hs hu f hb (selStable uid P ind hcs hs hu hP f hb)

end Vsgm.BFull2
