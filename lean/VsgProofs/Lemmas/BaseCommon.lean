/- lemmas shared by the layer-B proofs: Python list operations vs the projections -/
import VsgModel.Base.KV
import VsgModel.Engine.Relations
namespace Vsgm.Base
open Vsgm

theorem nonLayout_set_layout (l : List Tok) (i : Nat) (s t : Tok) (hs : l[i]? = some s)
    (hsl : s.isLayout = true) (htl : t.isLayout = true) : nonLayout (l.set i t) = nonLayout l := by
  induction l generalizing i with
  | nil => simp
  | cons x l ih =>
    cases i with
    | zero =>
      simp at hs; subst hs
      simp [nonLayout, List.set, hsl, htl]
    | succ j =>
      simp at hs
      have := ih j hs
      simp only [nonLayout] at this ⊢
      simp only [List.set_cons_succ, List.filter_cons]
      rw [this]

theorem nonLayout_insert_layout (l : List Tok) (j : Nat) (t : Tok) (htl : t.isLayout = true) :
    nonLayout (l.take j ++ [t] ++ l.drop j) = nonLayout l := by
  simp only [nonLayout, List.filter_append, List.filter_cons, List.filter_nil, htl, Bool.not_true,
    Bool.false_eq_true, if_false, List.append_nil]
  rw [← List.filter_append, List.take_append_drop]

theorem pyGet_some {α : Type} (l : List α) (i : Int) (x : α) (h : pyGet l i = .ok x) :
    ∃ k, pyIdx l.length i = some k ∧ l[k]? = some x := by
  unfold pyGet at h
  cases hk : pyIdx l.length i with
  | none => simp [hk] at h
  | some k =>
    simp only [hk] at h
    cases hx : l[k]? with
    | none => simp [hx] at h
    | some y =>
      simp only [hx] at h
      cases h
      exact ⟨k, rfl, hx⟩

theorem pySet_eq {α : Type} (l : List α) (i : Int) (x : α) (r : List α) (h : pySet l i x = .ok r) :
    ∃ k, pyIdx l.length i = some k ∧ r = l.set k x := by
  unfold pySet at h
  cases hk : pyIdx l.length i with
  | none => simp [hk] at h
  | some k =>
    simp only [hk] at h
    cases h
    exact ⟨k, rfl, rfl⟩

theorem pyInsert_layout (l : List Tok) (i : Int) (t : Tok) (htl : t.isLayout = true) :
    nonLayout (pyInsert l i t) = nonLayout l := by
  unfold pyInsert
  exact nonLayout_insert_layout l _ t htl

theorem insertToken_layout (l r : List Tok) (i : Int) (t : Tok) (htl : t.isLayout = true)
    (h : insertToken l i t = .ok r) : nonLayout r = nonLayout l := by
  unfold insertToken at h
  split at h
  · cases h
  · cases h; exact pyInsert_layout l i t htl

end Vsgm.Base
