/-
  Layer P, C05 (lifting, partial): straight-line productions.  A CHAIN is a function body of the shape

      iCurrent = utils.assign_next_token…(…, iToken, lObjects)
      iCurrent = utils.assign_next_token…(…, iCurrent, lObjects)
      …
      return iCurrent

  (every `classify_opening_declaration` / `classify_closing_declaration` and many `classify` functions).  For ANY chain
  the interpreted call computes the fold of the helpers' specifications (`call_chain`), hence chains are layout blind
  (`chainSpec_layout`): generic over the chain, proved by induction over its steps from the theorems of
  `Lemmas/ProgPrims.lean`.  `decodeChain` recognises the shape syntactically (`decodeChain_sound`).
-/
import VsgProofs.Lemmas.ProgPrimsLayout
import VsgModel.Prog.NavCheck
namespace Vsgm.Prog
open Vsgm Vsgm.Classify

def Step.argsV (n : Nat) : Step → List Val
  | .ant c => [.cls c, .int n, .toks]
  | .aif s c => [.str s, .cls c, .int n, .toks]
  | .aifnot s c => [.str s, .cls c, .int n, .toks]
  | .areq s c => [.str s, .cls c, .int n, .toks]

def stepSpec (S : Sys) (T : ClassTables) : Step → Array CTok × Nat → Except Err (Array CTok × Nat)
  | .ant c, (a, n) => assignNextTokenSpec S T c n a
  | .aif s c, (a, n) => assignIfSpec S T false s c n a
  | .aifnot s c, (a, n) => assignIfSpec S T true s c n a
  | .areq s c, (a, n) => assignIfSpec S T false s c n a

def chainSpec (S : Sys) (T : ClassTables) : List Step → Array CTok × Nat → Except Err (Array CTok × Nat)
  | [], p => .ok p
  | s :: ss, p => match stepSpec S T s p with
    | .ok q => chainSpec S T ss q
    | .error e => .error e

/-- no `required` step reaches `print_error_message` (whose ClassifyError is not derived) -/
def ReqOk (S : Sys) (T : ClassTables) : List Step → Array CTok × Nat → Prop
  | [], _ => True
  | s :: ss, (a, n) =>
    (match s with
      | .areq str _ => objectValueIs a.toList (findNextToken T n a.toList) (S.lowerS str) ≠ .ok false
      | _ => True)
    ∧ (match stepSpec S T s (a, n) with
      | .ok q => ReqOk S T ss q
      | .error _ => True)

/-- the table contains the helper bodies at the positions of the signature -/
structure ChainTie (S : Sys) (T : ClassTables) (K : ChainSig) : Prop where
  find : S.funs[K.kFind]? = some (findNextTokenDef T.item)
  ovi : S.funs[K.kOvi]? = some objectValueIsDef
  ant : S.funs[K.kAnt]? = some (assignNextTokenDef K.kFind)
  aif : S.funs[K.kIf]? = some (assignNextTokenIfDef K.kFind K.kOvi)
  aifnot : S.funs[K.kIfNot]? = some (assignNextTokenIfNotDef K.kFind K.kOvi)
  areq : S.funs[K.kReq]? = some (assignNextTokenRequiredDef K.kFind K.kOvi K.kErr)

theorem size_specToks (a : Array CTok) (r : Except Err (Array CTok × Nat)) (S : Sys) (T : ClassTables) (s : Step) (n : Nat)
    (h : r = stepSpec S T s (a, n)) : (specToks a r).size = a.size := by
  subst h
  cases s <;> simp only [stepSpec, assignNextTokenSpec, assignIfSpec] <;>
    (repeat' split) <;> simp [specToks]

/-- one helper call, uniformly -/
theorem helper_call (S : Sys) (T : ClassTables) (K : ChainSig) (hK : ChainTie S T K) (m : Nat) (s : Step) (n : Nat)
    (st : State) (hfuel : st.toks.size < m + 4) (hsteps : st.steps + st.toks.size + 5 < S.maxSteps)
    (hdepth : st.depth + 1 < S.maxDepth)
    (hreq : match s with
      | .areq str _ => objectValueIs st.toks.toList (findNextToken T n st.toks.toList) (S.lowerS str) ≠ .ok false
      | _ => True) :
    ∃ st', (run S (m + 10)).call (s.fn K) (s.argsV n) st = (specVal (stepSpec S T s (st.toks, n)), st')
      ∧ st'.toks = specToks st.toks (stepSpec S T s (st.toks, n))
      ∧ st'.frame = st.frame ∧ st'.depth = st.depth ∧ st'.heap = st.heap
      ∧ st.steps ≤ st'.steps ∧ st'.steps ≤ st.steps + st.toks.size + 4 := by
  cases s with
  | ant c =>
    obtain ⟨st', h, a, b, c', d, e, f⟩ := call_assign_next_token S T K.kAnt K.kFind (m + 1) c n st hK.ant hK.find
      (by omega) (by omega) hdepth
    exact ⟨st', h, a, b, c', d, e, by omega⟩
  | aif s c => exact call_assign_next_token_if S T K.kIf K.kFind K.kOvi m c n s st hK.aif hK.find hK.ovi hfuel hsteps hdepth
  | aifnot s c =>
    exact call_assign_next_token_if_not S T K.kIfNot K.kFind K.kOvi m c n s st hK.aifnot hK.find hK.ovi hfuel hsteps hdepth
  | areq s c =>
    exact call_assign_next_token_required S T K.kReq K.kFind K.kOvi K.kErr m c n s st hK.areq hK.find hK.ovi hfuel hsteps
      hdepth hreq

/-- the token list a chain leaves behind (steps before a failing one stay applied) -/
def chainToks (S : Sys) (T : ClassTables) : List Step → Array CTok × Nat → Array CTok
  | [], p => p.1
  | s :: ss, p => match stepSpec S T s p with
    | .ok q => chainToks S T ss q
    | .error _ => p.1

def chainVal : Except Err (Array CTok × Nat) → Except Err Flow
  | .ok (_, n) => .ok (.ret (.int n))
  | .error e => .error e

theorem evalArgs_step (S : Sys) (m : Nat) (s : Step) (cur n : Nat) (st : State)
    (g1 : getVar 1 st = (.ok .toks, st)) (gc : getVar cur st = (.ok (.int n), st)) :
    evalArgs (run S (m + 1)) (s.argsE cur 1) st = (.ok (s.argsV n), st) := by
  cases s <;> simp [Step.argsE, Step.argsV, evalArgs, run_expr, stepExpr, g1, gc, pure, M.pure]

theorem stepSpec_size (S : Sys) (T : ClassTables) (s : Step) (a a' : Array CTok) (n n' : Nat)
    (h : stepSpec S T s (a, n) = .ok (a', n')) : a'.size = a.size := by
  have := size_specToks a (stepSpec S T s (a, n)) S T s n rfl
  rw [h] at this
  exact this

/-- **chains**: executing the statements of a chain = folding the specifications of its steps -/
theorem chain_exec (S : Sys) (T : ClassTables) (K : ChainSig) (hK : ChainTie S T K) (m N : Nat) :
    ∀ (steps : List Step) (cur n : Nat) (st : State),
      st.frame.size = 3 → st.frame[1]? = some .toks → st.frame[cur]? = some (.int n) →
      st.toks.size = N → N < m + 4 → st.steps + steps.length * (N + 5) + 1 < S.maxSteps → st.depth + 1 < S.maxDepth →
      ReqOk S T steps (st.toks, n) →
      ∃ st', execBlock (run S (m + 12)) (chainFrom K cur steps) st = (chainVal (chainSpec S T steps (st.toks, n)), st')
        ∧ st'.toks = chainToks S T steps (st.toks, n) ∧ st'.depth = st.depth ∧ st'.heap = st.heap
        ∧ st.steps ≤ st'.steps ∧ st'.steps ≤ st.steps + steps.length * (N + 5) := by
  intro steps
  induction steps with
  | nil =>
    intro cur n st hsz h1 hc hN hfuel hsteps hdepth _
    have gc := getVar_some hc (by simp)
    refine ⟨st, ?_, rfl, rfl, rfl, Nat.le_refl _, by simp⟩
    simp [chainFrom, execBlock, run_stmt_ret, run_expr, stepStmt, stepExpr, gc, chainSpec, chainVal, bind, M.bind, pure, M.pure]
  | cons s ss ih =>
    intro cur n st hsz h1 hc hN hfuel hsteps hdepth hreq
    have g1 := getVar_some h1 (by simp)
    have gc := getVar_some hc (by simp)
    have hmul : (ss.length + 1) * (N + 5) = ss.length * (N + 5) + (N + 5) := Nat.succ_mul _ _
    simp only [List.length_cons, hmul] at hsteps ⊢
    obtain ⟨hreq1, hreq2⟩ := hreq
    obtain ⟨st1, hcall, ht1, hf1, hd1, hh1, hle1, hle1'⟩ := helper_call S T K hK m s n st (by omega) (by omega) hdepth
      (by cases s <;> first | trivial | exact hreq1)
    have hargs := evalArgs_step S (m + 9) s cur n st g1 gc
    cases hr : stepSpec S T s (st.toks, n) with
    | error e =>
      rw [hr] at hcall ht1
      refine ⟨st1, ?_, ?_, hd1, hh1, hle1, by omega⟩
      · simp only [chainFrom, execBlock, run_stmt_assign, run_expr, stepStmt, stepExpr, hargs, hcall, specVal, chainSpec, hr,
          chainVal, bind, M.bind, pure, M.pure]
      · simp only [chainToks, hr]; exact ht1
    | ok q =>
      obtain ⟨a', n'⟩ := q
      rw [hr] at hcall ht1 hreq2
      simp only [specToks] at ht1
      have hsz' : a'.size = N := by rw [stepSpec_size S T s st.toks a' n n' hr]; exact hN
      generalize hst2 : ({ st1 with frame := st1.frame.setIfInBounds 2 (.int n') } : State) = st2
      have hfr2 : st2.frame = st.frame.setIfInBounds 2 (.int n') := by rw [← hst2, ← hf1]
      have hsz2 : st2.frame.size = 3 := by rw [hfr2]; simp [hsz]
      have h12 : st2.frame[1]? = some .toks := by rw [hfr2, Array.getElem?_setIfInBounds_ne (by decide)]; exact h1
      have h22 : st2.frame[2]? = some (.int n') := by
        rw [hfr2, Array.getElem?_setIfInBounds_self, if_pos (by omega)]
      have htoks2 : st2.toks = a' := by rw [← hst2]; exact ht1
      have hsteps2 : st2.steps = st1.steps := by rw [← hst2]
      have hdepth2 : st2.depth = st.depth := by rw [← hst2]; exact hd1
      have hheap2 : st2.heap = st.heap := by rw [← hst2]; exact hh1
      obtain ⟨st3, hrun, ht3, hd3, hh3, hle3, hle3'⟩ := ih 2 n' st2 hsz2 h12 h22 (by rw [htoks2]; exact hsz') hfuel
        (by rw [hsteps2]; omega) (by rw [hdepth2]; exact hdepth) (by rw [htoks2]; exact hreq2)
      refine ⟨st3, ?_, ?_, by rw [hd3, hdepth2], by rw [hh3, hheap2], by omega, by omega⟩
      · simp only [chainFrom, execBlock, run_stmt_assign, run_expr, stepStmt, stepExpr, hargs, hcall, specVal, assignTarget,
          assignSimple, setVar, modSt, bind, M.bind, pure, M.pure, hst2]
        rw [hrun, htoks2]
        simp only [chainSpec, hr]
      · rw [ht3, htoks2]; simp only [chainToks, hr]

def chainRes : Except Err (Array CTok × Nat) → Except Err Val
  | .ok (_, n) => .ok (.int n)
  | .error e => .error e

/-- **a call of ANY chain** computes the fold of its steps' specifications -/
theorem call_chain (S : Sys) (T : ClassTables) (K : ChainSig) (hK : ChainTie S T K) (k m : Nat) (steps : List Step)
    (hk : S.funs[k]? = some (chainDef K steps)) (i : Nat) (st : State)
    (hfuel : st.toks.size < m + 4) (hsteps : st.steps + steps.length * (st.toks.size + 5) + 2 < S.maxSteps)
    (hdepth : st.depth + 2 < S.maxDepth) (hreq : ReqOk S T steps (st.toks, i)) :
    ∃ st', (run S (m + 13)).call k [.int i, .toks] st = (chainRes (chainSpec S T steps (st.toks, i)), st')
      ∧ st'.toks = chainToks S T steps (st.toks, i) ∧ st'.frame = st.frame ∧ st'.depth = st.depth ∧ st'.heap = st.heap := by
  show ∃ st', stepCall S (run S (m + 12)) k [.int i, .toks] st = _ ∧ _
  rw [stepCall_eq S _ k _ _ st hk rfl rfl rfl (by omega) (by omega)]
  generalize hst1 : callState st k (chainDef K steps) [.int i, .toks] = st1
  have hfr : st1.frame = #[.int i, .toks, .undef] := by rw [← hst1]; rfl
  have htoks : st1.toks = st.toks := by rw [← hst1]; rfl
  have hstp : st1.steps = st.steps + 1 := by rw [← hst1]; rfl
  have hdep : st1.depth = st.depth + 1 := by rw [← hst1]; rfl
  have hheap : st1.heap = st.heap := by rw [← hst1]; rfl
  obtain ⟨st2, hrun, ht2, hd2, hh2, _, _⟩ := chain_exec S T K hK m st.toks.size steps 0 i st1
    (by rw [hfr]; rfl) (by rw [hfr]; rfl) (by rw [hfr]; rfl) (by rw [htoks]) hfuel (by rw [hstp]; omega)
    (by rw [hdep]; omega) (by rw [htoks]; exact hreq)
  have hbody : (chainDef K steps).body = chainFrom K 0 steps := rfl
  rw [hbody, hrun, htoks]
  refine ⟨{ st2 with frame := st.frame, depth := st.depth }, ?_, ?_, rfl, rfl, ?_⟩
  · cases chainSpec S T steps (st.toks, i) with
    | error e => rfl
    | ok q => rfl
  · show st2.toks = _; rw [ht2, htoks]
  · show st2.heap = _; rw [hh2, hheap]

/-- a raw item follows the current position at every step that is reached -/
def Follows (S : Sys) (T : ClassTables) : List Step → Array CTok × Nat → Prop
  | [], _ => True
  | s :: ss, (a, n) =>
    rank (isRaw T) a.toList n < (view (isRaw T) a.toList).length
    ∧ (match stepSpec S T s (a, n) with
      | .ok q => Follows S T ss q
      | .error _ => True)

theorem stepSpec_layout (S : Sys) (T : ClassTables) (s : Step) (a a' : Array CTok) (i j : Nat)
    (hv : view (isRaw T) a.toList = view (isRaw T) a'.toList)
    (hr : rank (isRaw T) a.toList i = rank (isRaw T) a'.toList j)
    (hex : rank (isRaw T) a.toList i < (view (isRaw T) a.toList).length) :
    SpecRel T (stepSpec S T s (a, i)) (stepSpec S T s (a', j)) := by
  cases s with
  | ant c => exact assignNextTokenSpec_layout S T c i j a a' hv hr hex
  | aif s c => exact assignIfSpec_layout S T false s c i j a a' hv hr hex
  | aifnot s c => exact assignIfSpec_layout S T true s c i j a a' hv hr hex
  | areq s c => exact assignIfSpec_layout S T false s c i j a a' hv hr hex

/-- **chains are layout blind**: on arrays with the same raw-item view, started at corresponding positions, with a raw
    item in front of every step that is reached, a chain ends in the same exception or in arrays with the same
    raw-item view and corresponding indices -/
theorem chainSpec_layout (S : Sys) (T : ClassTables) : ∀ (steps : List Step) (a a' : Array CTok) (i j : Nat),
    view (isRaw T) a.toList = view (isRaw T) a'.toList → rank (isRaw T) a.toList i = rank (isRaw T) a'.toList j →
    Follows S T steps (a, i) → SpecRel T (chainSpec S T steps (a, i)) (chainSpec S T steps (a', j))
  | [], a, a', i, j, hv, hr, _ => ⟨hv, hr⟩
  | s :: ss, a, a', i, j, hv, hr, hf => by
    have h1 := stepSpec_layout S T s a a' i j hv hr hf.1
    have h2 := hf.2
    simp only [chainSpec]
    cases hx : stepSpec S T s (a, i) with
    | error e =>
      rw [hx] at h1
      cases hy : stepSpec S T s (a', j) with
      | error e' => rw [hy] at h1; exact h1
      | ok q => rw [hy] at h1; exact h1.elim
    | ok q =>
      rw [hx] at h1 h2
      cases hy : stepSpec S T s (a', j) with
      | error e' => rw [hy] at h1; obtain ⟨_, _⟩ := q; exact h1.elim
      | ok q' =>
        rw [hy] at h1
        obtain ⟨b, n⟩ := q
        obtain ⟨b', n'⟩ := q'
        exact chainSpec_layout S T ss b b' n n' h1.1 h1.2 h2

theorem decodeFrom_sound (K : ChainSig) (cur : Nat) (body : List Stmt) :
    ∀ steps, decodeFrom K cur body = some steps → body = chainFrom K cur steps := by
  fun_induction decodeFrom K cur body with
  | case1 cur v h => intro steps hs; cases hs; simp at h; subst h; rfl
  | case2 cur v h => intro steps hs; cases hs
  | case3 cur k c x rest h ih =>
    intro steps hs
    simp only [Option.map_eq_some_iff] at hs
    obtain ⟨ss, hss, rfl⟩ := hs
    simp at h
    obtain ⟨hk, hx⟩ := h
    subst hk; subst hx
    rw [ih ss hss]; rfl
  | case4 cur k c x rest h => intro steps hs; cases hs
  | case5 cur k s c x rest hx hk ih =>
    intro steps hs
    simp only [Option.map_eq_some_iff] at hs
    obtain ⟨ss, hss, rfl⟩ := hs
    simp at hx hk
    subst hx; subst hk
    rw [ih ss hss]; rfl
  | case6 cur k s c x rest hx hk1 hk ih =>
    intro steps hs
    simp only [Option.map_eq_some_iff] at hs
    obtain ⟨ss, hss, rfl⟩ := hs
    simp at hx hk
    subst hx; subst hk
    rw [ih ss hss]; rfl
  | case7 cur k s c x rest hx hk1 hk2 hk ih =>
    intro steps hs
    simp only [Option.map_eq_some_iff] at hs
    obtain ⟨ss, hss, rfl⟩ := hs
    simp at hx hk
    subst hx; subst hk
    rw [ih ss hss]; rfl
  | case8 => intro steps hs; cases hs
  | case9 => intro steps hs; cases hs
  | case10 => intro steps hs; cases hs

theorem decodeChain_sound (K : ChainSig) (fd : FunDef) (steps : List Step) (h : decodeChain K fd = some steps) :
    fd = chainDef K steps := by
  unfold decodeChain at h
  split at h
  · rename_i hc
    simp only [Bool.and_eq_true, beq_iff_eq, Bool.not_eq_true', List.isEmpty_iff] at hc
    obtain ⟨⟨⟨h1, h2⟩, h3⟩, h4⟩ := hc
    have hb := decodeFrom_sound K 0 fd.body steps h
    cases fd
    simp only at h1 h2 h3 h4 hb
    subst h1; subst h2; subst h3; subst h4; subst hb
    rfl
  · cases h

end Vsgm.Prog
