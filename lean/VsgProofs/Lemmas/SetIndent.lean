/-
  Helper lemmas for the model of `set_token_indent` (`VsgModel/Indent/SetIndent.lean`).
  Everything lives in `Vsgm.Indent`.
-/
import VsgModel.Indent.SetIndent
set_option linter.unusedSimpArgs false
namespace Vsgm.Indent
open Vsgm

/-! ### re-layouts: two lists that agree after deleting the elements satisfying `drop` -/

inductive Relayout {α : Type} (drop : α → Bool) : List α → List α → Prop where
  | nil : Relayout drop [] []
  | skipL {x : α} {a b : List α} : drop x = true → Relayout drop a b → Relayout drop (x :: a) b
  | skipR {x : α} {a b : List α} : drop x = true → Relayout drop a b → Relayout drop a (x :: b)
  | cons {x : α} {a b : List α} : Relayout drop a b → Relayout drop (x :: a) (x :: b)

theorem Relayout.refl {α : Type} (drop : α → Bool) (a : List α) : Relayout drop a a := by
  induction a with
  | nil => exact .nil
  | cons x a ih => exact .cons ih

theorem Relayout.nil_left {α : Type} (drop : α → Bool) (b : List α)
    (h : b.filter (fun x => !drop x) = []) : Relayout drop [] b := by
  induction b with
  | nil => exact .nil
  | cons y b ih =>
    by_cases hy : drop y = true
    · simp [List.filter_cons, hy] at h
      exact .skipR hy (ih (by simpa using h))
    · simp [List.filter_cons, hy] at h

/-- equal filters ⇒ re-layout -/
theorem Relayout.of_filter_eq {α : Type} (drop : α → Bool) (a b : List α)
    (h : a.filter (fun x => !drop x) = b.filter (fun x => !drop x)) : Relayout drop a b := by
  induction a generalizing b with
  | nil => exact Relayout.nil_left drop b (by simpa using h.symm)
  | cons x a ih =>
    by_cases hx : drop x = true
    · have : (x :: a).filter (fun x => !drop x) = a.filter (fun x => !drop x) := by
        simp [List.filter_cons, hx]
      exact .skipL hx (ih b (this ▸ h))
    · have hx' : (!drop x) = true := by simpa using hx
      have e : (x :: a).filter (fun x => !drop x) = x :: a.filter (fun x => !drop x) := by
        simp [List.filter_cons, hx']
      rw [e] at h
      clear e
      induction b with
      | nil => simp at h
      | cons y b ihb =>
        by_cases hy : drop y = true
        · have : (y :: b).filter (fun x => !drop x) = b.filter (fun x => !drop x) := by
            simp [List.filter_cons, hy]
          exact .skipR hy (ihb (this ▸ h))
        · have hy' : (!drop y) = true := by simpa using hy
          have e : (y :: b).filter (fun x => !drop x) = y :: b.filter (fun x => !drop x) := by
            simp [List.filter_cons, hy']
          rw [e] at h
          injection h with h1 h2
          subst h1
          exact .cons (ih b h2)

/-- … and conversely -/
theorem Relayout.filter_eq {α : Type} {drop : α → Bool} {a b : List α} (h : Relayout drop a b) :
    a.filter (fun x => !drop x) = b.filter (fun x => !drop x) := by
  induction h with
  | nil => rfl
  | skipL hx _ ih => simpa [List.filter_cons, hx] using ih
  | skipR hx _ ih => simpa [List.filter_cons, hx] using ih
  | cons _ ih => simp [List.filter_cons, ih]

theorem Relayout.map {α β : Type} {drop : α → Bool} {drop' : β → Bool} (f : α → β)
    (hf : ∀ x, drop' (f x) = drop x) {a b : List α} (h : Relayout drop a b) :
    Relayout drop' (a.map f) (b.map f) := by
  induction h with
  | nil => exact .nil
  | skipL hx _ ih => exact .skipL (by rw [hf]; exact hx) ih
  | skipR hx _ ih => exact .skipR (by rw [hf]; exact hx) ih
  | cons _ ih => exact .cons ih

/-! ### the loop body in branch form -/

/-- the two `library_name` updates in front of the use-clause test -/
def libUpd (E : Env) (p : Params) (k : Key) : Params :=
  let p := if E.isa k.cls E.n.logicalName then { p with libraryName := p.libraryName ++ [k.lower] } else p
  if E.clearLibraryName k then { p with libraryName := [] } else p

/-- the look-aheads as functions of the next non-skippable token -/
def isUseNextL (E : Env) (nx : Except Err Key) : Except Err Bool :=
  nx.bind fun k => .ok (E.isa k.cls E.n.useKw || E.isa k.cls E.n.ctxRefKw)

def nextIndentL (E : Env) (d : Dict) (p : Params) (nx : Except Err Key) : Except Err Int :=
  nx.bind fun k => (E.uidStr k).bind fun uid =>
    match dget d uid with
    | some e => (need e "token").bind fun tk => updateIndentVar p.iIndent tk
    | none => .ok p.iIndent

def commentIndentL (E : Env) (d : Dict) (p : Params) (k : Key) (nx : Except Err Key) : Except Err Int :=
  if p.bLibraryFound then (isUseNextL E nx).bind fun b => .ok (if b then p.iIndent + 1 else p.iIndent)
  else match k.block with
    | .yes0 => .ok 0
    | .yes => .ok p.iIndent
    | .no => nextIndentL E d p nx

def useKey (p : Params) (lib : Option Str) : String :=
  if (match lib with
      | some s => p.libraryName.contains s
      | none => false) then "token_after_library_clause" else "token_if_no_matching_library_clause"

def useStep (d : Dict) (p : Params) (uid : String) (lib : Option Str) : Except Err (W × Params) :=
  if !p.bArchitectureFound then
    match dget d uid with
    | none => .error .keyError
    | some e =>
      (need e (useKey p lib)).bind fun r =>
        (updateIndentVar p.iIndent r).bind fun i => .ok (some (some i), p)
  else .ok (some (some p.iIndent), p)

theorem useStep_ne_none (d : Dict) (p : Params) (uid : String) (lib : Option Str) (p' : Params) :
    useStep d p uid lib ≠ .ok (none, p') := by
  unfold useStep
  intro h
  split at h
  · cases hd : dget d uid with
    | none => simp [hd] at h
    | some e =>
      simp only [hd] at h
      cases h1 : need e (useKey p lib) with
      | error _ => simp [h1, Except.bind] at h
      | ok v =>
        simp only [h1, Except.bind] at h
        cases h2 : updateIndentVar p.iIndent v with
        | error _ => simp [h2] at h
        | ok i => simp [h2] at h
  · simp at h

/-- what happens behind the table-driven head, per branch (`p` = parameters after the head) -/
def finish (E : Env) (d : Dict) (k : Key) (uid : String) (w : W) (ti : Option Int) (p : Params)
    (lib : Option Str) (nx : Except Err Key) : Branch → Except Err (W × Params)
  | .ws | .blank | .cr => .ok (none, p)
  | .ctxDeclEnd => .ok (w, { p with bLibraryFound := false })
  | .libKw => .ok (w, { p with bLibraryFound := true })
  | .useKw => useStep d (libUpd E p k) uid lib
  | .ctxRef => .ok (some (some (if (libUpd E p k).bLibraryFound then (libUpd E p k).iIndent + 1 else (libUpd E p k).iIndent)), libUpd E p k)
  | .archKw => .ok (w, { libUpd E p k with bLibraryFound := false, bArchitectureFound := true })
  | .archSemi => .ok (w, { libUpd E p k with bArchitectureFound := false })
  | .entKw => .ok (w, { libUpd E p k with bLibraryFound := false })
  | .pkgBody => .ok (w, { libUpd E p k with bLibraryFound := false })
  | .pkgDecl => .ok (w, { libUpd E p k with bLibraryFound := false })
  | .comment => (commentIndentL E d (libUpd E p k) k nx).bind fun i => .ok (some (some i), libUpd E p k)
  | .pragma => (nextIndentL E d (libUpd E p k) nx).bind fun i => .ok (some (some i), libUpd E p k)
  | .csaOn => .ok (w, { libUpd E p k with insideConcurrentSignalAssignment := true })
  | .csaOff => .ok (w, { libUpd E p k with insideConcurrentSignalAssignment := false })
  | .other => .ok (some ti, libUpd E p k)

def stepB (E : Env) (d : Dict) (p : Params) (k : Key) (lib : Option Str) (nx : Except Err Key) :
    Except Err (W × Params) :=
  if E.isWs k then .ok (none, p)
  else if E.isBlank k then .ok (none, { p with bLibraryFound := false })
  else if E.isCr k then .ok (none, p)
  else (E.uidStr k).bind fun uid => (tableStep d p uid).bind fun r =>
    finish E d k uid r.1 r.2.1 r.2.2 lib nx (branchOf E k)

theorem isUseNext_eq (E : Env) (rest : List Key) : isUseNext E rest = isUseNextL E (nextTok E rest) := by
  unfold isUseNext isUseNextL
  cases nextTok E rest <;> rfl

theorem nextIndent_eq (E : Env) (d : Dict) (p : Params) (rest : List Key) :
    nextIndent E d p rest = nextIndentL E d p (nextTok E rest) := by
  unfold nextIndent nextIndentL
  cases nextTok E rest with
  | error e => rfl
  | ok k =>
    simp only [bind, Except.bind]
    cases E.uidStr k with
    | error e => rfl
    | ok uid =>
      simp only []
      cases dget d uid with
      | none => rfl
      | some e => rfl

theorem commentIndent_eq (E : Env) (d : Dict) (p : Params) (k : Key) (rest : List Key) :
    commentIndent E d p k rest = commentIndentL E d p k (nextTok E rest) := by
  unfold commentIndent commentIndentL
  rw [isUseNext_eq, nextIndent_eq]
  split
  · cases isUseNextL E (nextTok E rest) <;> rfl
  · cases k.block <;> rfl

local macro "br " c:ident : tactic =>
  `(tactic| (simp only [$c:ident, finish, useStep, useKey, libUpd, if_true, if_false, commentIndent_eq, nextIndent_eq]; rfl))
local macro "no " c:ident : tactic =>
  `(tactic| (simp only [$c:ident, if_false, Bool.false_eq_true]))

theorem tailW_eq (E : Env) (d : Dict) (k : Key) (rest : List Key) (uid : String) (w : W) (ti : Option Int)
    (p : Params) (h1 : E.isWs k = false) (h2 : E.isBlank k = false) (h3 : E.isCr k = false) :
    tailW E d k rest uid w ti p
      = finish E d k uid w ti p (extractLib E (k :: rest)) (nextTok E rest) (branchOf E k) := by
  unfold tailW branchOf
  simp only [h1, h2, h3, if_false, Bool.false_eq_true]
  by_cases c1 : E.isa k.cls E.n.ctxDeclEnd = true
  · br c1
  no c1
  by_cases c2 : E.isa k.cls E.n.libKw = true
  · br c2
  no c2
  by_cases c3 : E.isa k.cls E.n.useKw = true
  · br c3
  no c3
  by_cases c4 : E.isa k.cls E.n.ctxRefKw = true
  · br c4
  no c4
  by_cases c5 : E.isa k.cls E.n.archKw = true
  · br c5
  no c5
  by_cases c6 : E.isa k.cls E.n.archSemi = true
  · br c6
  no c6
  by_cases c7 : E.isa k.cls E.n.entKw = true
  · br c7
  no c7
  by_cases c8 : E.isa k.cls E.n.pkgBodyKw = true
  · br c8
  no c8
  by_cases c9 : E.isa k.cls E.n.pkgDeclKw = true
  · br c9
  no c9
  by_cases c10 : E.isComment k = true
  · br c10
  no c10
  by_cases c11 : E.isa k.cls E.n.pragma = true
  · br c11
  no c11
  by_cases c12 : E.isa k.cls E.n.csaLabel = true
  · br c12
  no c12
  by_cases c13 : E.isa k.cls E.n.csaPostponed = true
  · br c13
  no c13
  by_cases c14 : E.isa k.cls E.n.cssaTarget = true
  · br c14
  no c14
  by_cases c15 : E.isa k.cls E.n.ccsaTarget = true
  · br c15
  no c15
  by_cases c16 : E.isa k.cls E.n.csesaWith = true
  · br c16
  no c16
  by_cases c17 : E.isa k.cls E.n.cssaSemi = true
  · br c17
  no c17
  by_cases c18 : E.isa k.cls E.n.ccsaSemi = true
  · br c18
  no c18
  by_cases c19 : E.isa k.cls E.n.csesaSemi = true
  · br c19
  no c19
  rfl


theorem stepW_eq_stepB (E : Env) (d : Dict) (p : Params) (k : Key) (rest : List Key) :
    stepW E d p k rest = stepB E d p k (extractLib E (k :: rest)) (nextTok E rest) := by
  unfold stepW stepB
  by_cases h1 : E.isWs k = true
  · simp only [h1, if_true]
  by_cases h2 : E.isBlank k = true
  · simp only [h1, h2, if_true, if_false]
  by_cases h3 : E.isCr k = true
  · simp only [h1, h2, h3, if_true, if_false]
  simp only [h1, h2, h3, if_false]
  cases E.uidStr k with
  | error e => rfl
  | ok uid =>
    cases ht : tableStep d p uid with
    | error e => simp only [bind, Except.bind, ht]
    | ok r =>
      simp only [bind, Except.bind, ht]
      exact tailW_eq E d k rest uid r.1 r.2.1 r.2.2 (by simpa using h1) (by simpa using h2) (by simpa using h3)

/-! ### look-aheads under a re-layout -/

theorem extractLib_relayout (E : Env) (drop : Key → Bool)
    (hd : ∀ k, drop k = true → E.isa k.cls E.n.useLibName = false) {a b : List Key}
    (h : Relayout drop a b) : extractLib E a = extractLib E b := by
  unfold extractLib
  induction h with
  | nil => rfl
  | skipL hx _ ih => simpa [List.find?_cons, hd _ hx] using ih
  | skipR hx _ ih => simpa [List.find?_cons, hd _ hx] using ih
  | @cons x a b _ ih =>
    simp only [List.find?_cons]
    cases E.isa x.cls E.n.useLibName
    · simpa using ih
    · rfl

theorem findNonSkip_relayout (E : Env) (drop : Key → Bool)
    (hd : ∀ k, drop k = true → E.skippable k = true) {a b : List Key}
    (h : Relayout drop a b) :
    a.find? (fun k => !E.skippable k) = b.find? (fun k => !E.skippable k) := by
  induction h with
  | nil => rfl
  | skipL hx _ ih => simpa [List.find?_cons, hd _ hx] using ih
  | skipR hx _ ih => simpa [List.find?_cons, hd _ hx] using ih
  | @cons x a b _ ih =>
    simp only [List.find?_cons]
    cases E.skippable x
    · rfl
    · simpa using ih

/-- the result of the look-ahead when no token worth looking at follows: the token right behind
    (a skippable one) or `IndexError` -/
def Weak (E : Env) (nx : Except Err Key) : Prop :=
  nx = .error .indexError ∨ ∃ k, nx = .ok k ∧ E.skippable k = true

def NxSim (E : Env) (a b : Except Err Key) : Prop := a = b ∨ (Weak E a ∧ Weak E b)

theorem nextTok_weak (E : Env) (a : List Key) (h : a.find? (fun k => !E.skippable k) = none) :
    Weak E (nextTok E a) := by
  unfold nextTok
  rw [h]
  cases a with
  | nil => exact Or.inl rfl
  | cons k a =>
    refine Or.inr ⟨k, rfl, ?_⟩
    have := List.find?_eq_none.mp h k (List.mem_cons_self ..)
    simpa using this

theorem nextTok_relayout (E : Env) (drop : Key → Bool)
    (hd : ∀ k, drop k = true → E.skippable k = true) {a b : List Key}
    (h : Relayout drop a b) : NxSim E (nextTok E a) (nextTok E b) := by
  have hf := findNonSkip_relayout E drop hd h
  cases ha : a.find? (fun k => !E.skippable k) with
  | some k =>
    left
    unfold nextTok
    rw [← hf, ha]
  | none =>
    right
    exact ⟨nextTok_weak E a ha, nextTok_weak E b (hf ▸ ha)⟩

/-- what the theorems need of the class table and the dictionary about the skippable classes
    (`utils.token_is_whitespace_or_comment`): none of them is a `use` / `context` keyword, each has a
    `unique_id`, and none is a key of the indent map -/
structure SkipOk (E : Env) (d : Dict) : Prop where
  notUse : ∀ k, E.skippable k = true → E.isa k.cls E.n.useKw = false ∧ E.isa k.cls E.n.ctxRefKw = false
  noKey : ∀ k, E.skippable k = true → ∃ u, E.uidStr k = .ok u ∧ dget d u = none

theorem isUseNextL_weak (E : Env) (d : Dict) (H : SkipOk E d) (nx : Except Err Key) (hw : Weak E nx)
    (b : Bool) (h : isUseNextL E nx = .ok b) : b = false := by
  rcases hw with rfl | ⟨k, rfl, hk⟩
  · simp [isUseNextL, Except.bind] at h
  · have := H.notUse k hk
    simp only [isUseNextL, Except.bind, this.1, this.2, Bool.or_false] at h
    injection h with h
    exact h.symm

theorem nextIndentL_weak (E : Env) (d : Dict) (H : SkipOk E d) (p : Params) (nx : Except Err Key)
    (hw : Weak E nx) (i : Int) (h : nextIndentL E d p nx = .ok i) : i = p.iIndent := by
  rcases hw with rfl | ⟨k, rfl, hk⟩
  · simp [nextIndentL, Except.bind] at h
  · obtain ⟨u, hu, hn⟩ := H.noKey k hk
    simp only [nextIndentL, Except.bind, hu, hn] at h
    injection h with h
    exact h.symm

theorem commentIndentL_sim (E : Env) (d : Dict) (H : SkipOk E d) (p : Params) (k : Key)
    (nx₁ nx₂ : Except Err Key) (hs : NxSim E nx₁ nx₂) (x y : Int)
    (h₁ : commentIndentL E d p k nx₁ = .ok x) (h₂ : commentIndentL E d p k nx₂ = .ok y) : x = y := by
  rcases hs with rfl | ⟨w₁, w₂⟩
  · rw [h₁] at h₂; injection h₂
  · unfold commentIndentL at h₁ h₂
    split at h₁
    · rename_i hl
      simp only [hl, if_true] at h₂
      cases e₁ : isUseNextL E nx₁ with
      | error e => simp [e₁, Except.bind] at h₁
      | ok b₁ =>
        cases e₂ : isUseNextL E nx₂ with
        | error e => simp [e₂, Except.bind] at h₂
        | ok b₂ =>
          have := isUseNextL_weak E d H nx₁ w₁ b₁ e₁
          have := isUseNextL_weak E d H nx₂ w₂ b₂ e₂
          subst_vars
          simp only [e₁, e₂, Except.bind] at h₁ h₂
          injection h₁ with h₁; injection h₂ with h₂
          rw [← h₁, ← h₂]
    · rename_i hl
      simp only [hl, if_false] at h₂
      cases hb : k.block
      · simp only [hb] at h₁ h₂
        rw [nextIndentL_weak E d H p nx₁ w₁ x h₁, nextIndentL_weak E d H p nx₂ w₂ y h₂]
      · simp only [hb] at h₁ h₂
        rw [h₁] at h₂; injection h₂
      · simp only [hb] at h₁ h₂
        rw [h₁] at h₂; injection h₂

theorem nextIndentL_sim (E : Env) (d : Dict) (H : SkipOk E d) (p : Params)
    (nx₁ nx₂ : Except Err Key) (hs : NxSim E nx₁ nx₂) (x y : Int)
    (h₁ : nextIndentL E d p nx₁ = .ok x) (h₂ : nextIndentL E d p nx₂ = .ok y) : x = y := by
  rcases hs with rfl | ⟨w₁, w₂⟩
  · rw [h₁] at h₂; injection h₂
  · rw [nextIndentL_weak E d H p nx₁ w₁ x h₁, nextIndentL_weak E d H p nx₂ w₂ y h₂]

theorem finish_sim (E : Env) (d : Dict) (H : SkipOk E d) (k : Key) (uid : String) (w : W) (ti : Option Int)
    (p : Params) (lib : Option Str) (nx₁ nx₂ : Except Err Key) (hs : NxSim E nx₁ nx₂) (b : Branch)
    (x y : W × Params) (h₁ : finish E d k uid w ti p lib nx₁ b = .ok x)
    (h₂ : finish E d k uid w ti p lib nx₂ b = .ok y) : x = y := by
  cases b
  case comment =>
    simp only [finish] at h₁ h₂
    cases e₁ : commentIndentL E d (libUpd E p k) k nx₁ with
    | error e => simp [e₁, Except.bind] at h₁
    | ok i₁ =>
      cases e₂ : commentIndentL E d (libUpd E p k) k nx₂ with
      | error e => simp [e₂, Except.bind] at h₂
      | ok i₂ =>
        have := commentIndentL_sim E d H _ k nx₁ nx₂ hs i₁ i₂ e₁ e₂
        subst this
        simp only [e₁, e₂, Except.bind] at h₁ h₂
        rw [h₁] at h₂; injection h₂
  case pragma =>
    simp only [finish] at h₁ h₂
    cases e₁ : nextIndentL E d (libUpd E p k) nx₁ with
    | error e => simp [e₁, Except.bind] at h₁
    | ok i₁ =>
      cases e₂ : nextIndentL E d (libUpd E p k) nx₂ with
      | error e => simp [e₂, Except.bind] at h₂
      | ok i₂ =>
        have := nextIndentL_sim E d H _ nx₁ nx₂ hs i₁ i₂ e₁ e₂
        subst this
        simp only [e₁, e₂, Except.bind] at h₁ h₂
        rw [h₁] at h₂; injection h₂
  all_goals (simp only [finish] at h₁ h₂; rw [h₁] at h₂; injection h₂)

theorem stepB_sim (E : Env) (d : Dict) (H : SkipOk E d) (p : Params) (k : Key) (lib : Option Str)
    (nx₁ nx₂ : Except Err Key) (hs : NxSim E nx₁ nx₂) (x y : W × Params)
    (h₁ : stepB E d p k lib nx₁ = .ok x) (h₂ : stepB E d p k lib nx₂ = .ok y) : x = y := by
  unfold stepB at h₁ h₂
  split at h₁
  · rename_i c; simp only [c, if_true] at h₂; rw [h₁] at h₂; injection h₂
  rename_i c1; simp only [c1, if_false] at h₂
  split at h₁
  · rename_i c; simp only [c, if_true] at h₂; rw [h₁] at h₂; injection h₂
  rename_i c2; simp only [c2, if_false] at h₂
  split at h₁
  · rename_i c; simp only [c, if_true] at h₂; rw [h₁] at h₂; injection h₂
  rename_i c3; simp only [c3, if_false] at h₂
  cases hu : E.uidStr k with
  | error e => simp [hu, Except.bind] at h₁
  | ok uid =>
    cases ht : tableStep d p uid with
    | error e => simp [hu, ht, Except.bind] at h₁
    | ok r =>
      simp only [hu, ht, Except.bind] at h₁ h₂
      exact finish_sim E d H k uid _ _ _ lib nx₁ nx₂ hs _ x y h₁ h₂

theorem stepW_sim (E : Env) (d : Dict) (H : SkipOk E d) (drop : Key → Bool)
    (hs : ∀ k, drop k = true → E.skippable k = true)
    (hl : ∀ k, drop k = true → E.isa k.cls E.n.useLibName = false)
    (p : Params) (k : Key) {a b : List Key} (h : Relayout drop a b) (x y : W × Params)
    (h₁ : stepW E d p k a = .ok x) (h₂ : stepW E d p k b = .ok y) : x = y := by
  rw [stepW_eq_stepB] at h₁ h₂
  rw [extractLib_relayout E drop hl (Relayout.cons (x := k) h)] at h₁
  exact stepB_sim E d H p k _ _ _ (nextTok_relayout E drop hs h) x y h₁ h₂

/-! ### the loop on tokens -/

/-- the loop written directly on tokens -/
def goTok (E : Env) (d : Dict) : Params → List ITok → Except Err (List ITok)
  | _, [] => .ok []
  | p, t :: rest =>
    match stepW E d p t.key (keys rest) with
    | .error e => .error e
    | .ok (w, p') =>
      match goTok E d p' rest with
      | .error e => .error e
      | .ok r => .ok (t.write w :: r)

theorem goTok_eq_plan (E : Env) (d : Dict) (p : Params) (l : List ITok) :
    goTok E d p l = (plan E d p (keys l)).map (fun ws => List.zipWith ITok.write l ws) := by
  induction l generalizing p with
  | nil => rfl
  | cons t l ih =>
    simp only [goTok, keys, List.map_cons, plan, bind, Except.bind]
    cases hs : stepW E d p t.key (List.map (fun x => x.key) l) with
    | error e => rfl
    | ok r =>
      obtain ⟨w, p'⟩ := r
      simp only []
      have := ih p'
      simp only [keys] at this
      rw [this]
      cases plan E d p' (List.map (fun x => x.key) l) with
      | error e => rfl
      | ok ws => rfl

theorem setTokenIndent_eq_goTok (E : Env) (m : IndentMap) (l : List ITok) :
    setTokenIndent E m l = goTok E (processIndentMap m) {} l := by
  rw [goTok_eq_plan]
  unfold setTokenIndent
  cases plan E (processIndentMap m) {} (keys l) <;> rfl

theorem goTok_cons_ok (E : Env) (d : Dict) (p : Params) (t : ITok) (l r : List ITok)
    (h : goTok E d p (t :: l) = .ok r) :
    ∃ w p' r', stepW E d p t.key (keys l) = .ok (w, p') ∧ goTok E d p' l = .ok r' ∧ r = t.write w :: r' := by
  simp only [goTok] at h
  cases hs : stepW E d p t.key (keys l) with
  | error e => simp [hs] at h
  | ok x =>
    obtain ⟨w, p'⟩ := x
    simp only [hs] at h
    cases hg : goTok E d p' l with
    | error e => simp [hg] at h
    | ok r' =>
      simp only [hg] at h
      injection h with h
      exact ⟨w, p', r', rfl, hg, h.symm⟩

@[simp] theorem ITok.write_key (t : ITok) (w : W) : (t.write w).key = t.key := by
  cases w <;> rfl

theorem ITok.write_write (t : ITok) (w : W) : (t.write w).write w = t.write w := by
  cases w <;> rfl

/-- which tokens a re-layout may insert or delete without the other tokens noticing -/
structure DropOk (E : Env) (d : Dict) (drop : Key → Bool) : Prop where
  inert : ∀ p k rest w p', drop k = true → stepW E d p k rest = .ok (w, p') → p' = p
  skip : ∀ k, drop k = true → E.skippable k = true
  notLib : ∀ k, drop k = true → E.isa k.cls E.n.useLibName = false

theorem goTok_relayout (E : Env) (d : Dict) (H : SkipOk E d) (drop : Key → Bool) (D : DropOk E d drop)
    {a b : List ITok} (h : Relayout (fun t => drop t.key) a b) :
    ∀ (p : Params) (ra rb : List ITok), goTok E d p a = .ok ra → goTok E d p b = .ok rb →
      ra.filter (fun t => !drop t.key) = rb.filter (fun t => !drop t.key) := by
  induction h with
  | nil =>
    intro p ra rb h₁ h₂
    simp only [goTok] at h₁ h₂
    injection h₁ with h₁; injection h₂ with h₂
    rw [← h₁, ← h₂]
  | @skipL x a b hx _ ih =>
    intro p ra rb h₁ h₂
    obtain ⟨w, p', r', hs, hg, rfl⟩ := goTok_cons_ok E d p x a ra h₁
    have := D.inert p x.key (keys a) w p' hx hs
    subst this
    simp only [List.filter_cons, ITok.write_key, hx, Bool.not_true, Bool.false_eq_true, if_false]
    exact ih p' r' rb hg h₂
  | @skipR x a b hx _ ih =>
    intro p ra rb h₁ h₂
    obtain ⟨w, p', r', hs, hg, rfl⟩ := goTok_cons_ok E d p x b rb h₂
    have := D.inert p x.key (keys b) w p' hx hs
    subst this
    simp only [List.filter_cons, ITok.write_key, hx, Bool.not_true, Bool.false_eq_true, if_false]
    exact ih p' ra r' h₁ hg
  | @cons x a b hab ih =>
    intro p ra rb h₁ h₂
    obtain ⟨w₁, p₁, r₁, hs₁, hg₁, rfl⟩ := goTok_cons_ok E d p x a ra h₁
    obtain ⟨w₂, p₂, r₂, hs₂, hg₂, rfl⟩ := goTok_cons_ok E d p x b rb h₂
    have hk : Relayout drop (keys a) (keys b) := Relayout.map (fun t : ITok => t.key) (fun _ => rfl) hab
    have := stepW_sim E d H drop D.skip D.notLib p x.key hk _ _ hs₁ hs₂
    injection this with e1 e2
    subst e1; subst e2
    have := ih p₁ r₁ r₂ hg₁ hg₂
    simp only [List.filter_cons, ITok.write_key, this]

/-! ### whitespace and carriage returns are droppable -/

/-- table facts: a carriage return is not a blank line; whitespace / carriage returns are no
    use-clause library names -/
structure LayoutOk (E : Env) : Prop where
  crNotBlank : ∀ c, E.isa c E.n.carriageReturn = true → E.isa c E.n.blankLine = false
  notLib : ∀ c, (E.isa c E.n.whitespace = true ∨ E.isa c E.n.carriageReturn = true) →
    E.isa c E.n.useLibName = false

theorem layout_dropOk (E : Env) (d : Dict) (L : LayoutOk E) : DropOk E d E.isLayout where
  inert := by
    intro p k rest w p' hk hs
    unfold stepW at hs
    simp only [Env.isLayout, Bool.or_eq_true] at hk
    rcases hk with hk | hk
    · simp only [hk, if_true] at hs
      injection hs with hs; injection hs with _ hs; exact hs.symm
    · have hb : E.isBlank k = false := L.crNotBlank _ hk
      cases hw : E.isWs k
      · simp only [hw, hb, hk, if_true, if_false, Bool.false_eq_true] at hs
        injection hs with hs; injection hs with _ hs; exact hs.symm
      · simp only [hw, if_true] at hs
        injection hs with hs; injection hs with _ hs; exact hs.symm
  skip := by
    intro k hk
    simp only [Env.isLayout, Bool.or_eq_true] at hk
    unfold Env.skippable
    rcases hk with hk | hk <;> simp [hk]
  notLib := by
    intro k hk
    simp only [Env.isLayout, Bool.or_eq_true] at hk
    exact L.notLib k.cls hk

/-! ### the writes depend on the keys only -/

theorem plan_length (E : Env) (d : Dict) (p : Params) (ks : List Key) (ws : List W)
    (h : plan E d p ks = .ok ws) : ws.length = ks.length := by
  induction ks generalizing p ws with
  | nil => simp only [plan] at h; injection h with h; rw [← h]; rfl
  | cons k ks ih =>
    simp only [plan, bind, Except.bind] at h
    cases hs : stepW E d p k ks with
    | error e => simp [hs] at h
    | ok x =>
      obtain ⟨w, p'⟩ := x
      simp only [hs] at h
      cases hp : plan E d p' ks with
      | error e => simp [hp] at h
      | ok ws' =>
        simp only [hp] at h
        injection h with h
        rw [← h, List.length_cons, List.length_cons, ih p' ws' hp]

theorem keys_zipWith_write (l : List ITok) (ws : List W) (h : ws.length = l.length) :
    keys (List.zipWith ITok.write l ws) = keys l := by
  induction l generalizing ws with
  | nil => rfl
  | cons t l ih =>
    cases ws with
    | nil => simp at h
    | cons w ws =>
      simp only [List.zipWith_cons_cons, keys, List.map_cons, ITok.write_key]
      have := ih ws (by simpa using h)
      simp only [keys] at this
      rw [this]

theorem zipWith_write_write (l : List ITok) (ws : List W) :
    List.zipWith ITok.write (List.zipWith ITok.write l ws) ws = List.zipWith ITok.write l ws := by
  induction l generalizing ws with
  | nil => rfl
  | cons t l ih =>
    cases ws with
    | nil => rfl
    | cons w ws => simp only [List.zipWith_cons_cons, ITok.write_write, ih]

theorem setTokenIndent_keys (E : Env) (m : IndentMap) (l r : List ITok)
    (h : setTokenIndent E m l = .ok r) : keys r = keys l := by
  unfold setTokenIndent at h
  cases hp : plan E (processIndentMap m) {} (keys l) with
  | error e => simp [hp, bind, Except.bind] at h
  | ok ws =>
    simp only [hp, bind, Except.bind, pure, Except.pure] at h
    injection h with h
    rw [← h]
    exact keys_zipWith_write l ws (by rw [plan_length _ _ _ _ _ hp]; simp [keys])

theorem setTokenIndent_idem' (E : Env) (m : IndentMap) (l r : List ITok)
    (h : setTokenIndent E m l = .ok r) : setTokenIndent E m r = .ok r := by
  have hk := setTokenIndent_keys E m l r h
  unfold setTokenIndent at h ⊢
  rw [hk]
  cases hp : plan E (processIndentMap m) {} (keys l) with
  | error e => simp [hp, bind, Except.bind] at h
  | ok ws =>
    simp only [hp, bind, Except.bind, pure, Except.pure] at h ⊢
    injection h with h
    rw [← h, zipWith_write_write]

/-! ### tokens the function never writes -/

theorem branchOf_notLayout (E : Env) (k : Key)
    (h : branchOf E k ≠ .ws ∧ branchOf E k ≠ .blank ∧ branchOf E k ≠ .cr) :
    E.isWs k = false ∧ E.isBlank k = false ∧ E.isCr k = false := by
  obtain ⟨h1, h2, h3⟩ := h
  cases c1 : E.isWs k
  · cases c2 : E.isBlank k
    · cases c3 : E.isCr k
      · exact ⟨rfl, rfl, rfl⟩
      · exact absurd (by simp [branchOf, c1, c2, c3]) h3
    · exact absurd (by simp [branchOf, c1, c2]) h2
  · exact absurd (by simp [branchOf, c1]) h1

theorem tableStep_w (d : Dict) (p : Params) (uid : String) (r : W × Option Int × Params)
    (h : tableStep d p uid = .ok r) : r.1 = none → dget d uid = none := by
  unfold tableStep at h
  cases hd : dget d uid with
  | none => intro _; rfl
  | some e =>
    simp only [hd, bind, Except.bind] at h
    cases h1 : need e "token" with
    | error _ => simp [h1] at h
    | ok tk =>
      cases h2 : need e "after" with
      | error _ => simp [h1, h2] at h
      | ok ak =>
        cases h3 : updateIndentVar p.iIndent tk with
        | error _ => simp [h1, h2, h3] at h
        | ok ti =>
          cases h4 : updateIndentVar p.iIndent ak with
          | error _ => simp [h1, h2, h3, h4] at h
          | ok ai =>
            simp only [h1, h2, h3, h4, pure, Except.pure] at h
            injection h with h
            rw [← h]
            intro hh
            simp at hh

theorem uidStr_ok (E : Env) (k : Key) (u : String) (h : E.uidStr k = .ok u) :
    ∃ b s, E.uid k.cls = some (b, s) ∧ u = b ++ ":" ++ s := by
  unfold Env.uidStr at h
  cases hu : E.uid k.cls with
  | none => simp [hu] at h
  | some bs =>
    obtain ⟨b, s⟩ := bs
    simp only [hu] at h
    injection h with h
    exact ⟨b, s, rfl, h.symm⟩

/-- a token the loop did not write is one of the `neverSet` tokens -/
theorem stepW_none_neverSet (E : Env) (d : Dict) (p : Params) (k : Key) (rest : List Key) (p' : Params)
    (h : stepW E d p k rest = .ok (none, p')) : neverSet E d k = true := by
  rw [stepW_eq_stepB] at h
  by_cases hl : branchOf E k ≠ .ws ∧ branchOf E k ≠ .blank ∧ branchOf E k ≠ .cr
  · obtain ⟨c1, c2, c3⟩ := branchOf_notLayout E k hl
    unfold stepB at h
    simp only [c1, c2, c3, if_false, Bool.false_eq_true] at h
    cases hu : E.uidStr k with
    | error e => simp [hu, Except.bind] at h
    | ok uid =>
      obtain ⟨b, s, hbs, rfl⟩ := uidStr_ok E k uid hu
      cases ht : tableStep d p (b ++ ":" ++ s) with
      | error e => simp [hu, ht, Except.bind] at h
      | ok r =>
        have hw := tableStep_w d p _ r ht
        simp only [hu, ht, Except.bind] at h
        unfold neverSet
        cases hb : branchOf E k <;> simp only [hb, finish, hbs] at h ⊢
        case useKw => exact absurd h (useStep_ne_none _ _ _ _ _)
        case ctxRef => simp at h
        case comment =>
          cases h1 : commentIndentL E d (libUpd E r.2.2 k) k (nextTok E rest) with
          | error _ => simp [h1, Except.bind] at h
          | ok i => simp [h1, Except.bind] at h
        case pragma =>
          cases h1 : nextIndentL E d (libUpd E r.2.2 k) (nextTok E rest) with
          | error _ => simp [h1, Except.bind] at h
          | ok i => simp [h1, Except.bind] at h
        case other => simp at h
        all_goals (injection h with h; injection h with h1 h2; simp [hw h1])
  · unfold neverSet
    have : branchOf E k = .ws ∨ branchOf E k = .blank ∨ branchOf E k = .cr := by
      by_cases a : branchOf E k = .ws
      · exact Or.inl a
      by_cases b : branchOf E k = .blank
      · exact Or.inr (Or.inl b)
      by_cases c : branchOf E k = .cr
      · exact Or.inr (Or.inr c)
      exact absurd ⟨a, b, c⟩ hl
    rcases this with e | e | e <;> simp [e]


/-! ### a fresh parse of a refreshed list -/

theorem plan_cons_ok (E : Env) (d : Dict) (p : Params) (k : Key) (ks : List Key) (ws : List W)
    (h : plan E d p (k :: ks) = .ok ws) :
    ∃ w p' ws', stepW E d p k ks = .ok (w, p') ∧ plan E d p' ks = .ok ws' ∧ ws = w :: ws' := by
  simp only [plan, bind, Except.bind] at h
  cases hs : stepW E d p k ks with
  | error e => simp [hs] at h
  | ok x =>
    obtain ⟨w, p'⟩ := x
    simp only [hs] at h
    cases hp : plan E d p' ks with
    | error e => simp [hp] at h
    | ok ws' =>
      simp only [hp] at h
      injection h with h
      exact ⟨w, p', ws', rfl, hp, h.symm⟩

theorem isLayout_fresh (E : Env) (t : ITok) : E.isLayout t.fresh.key = E.isLayout t.key := rfl

theorem strip_cons (E : Env) (t : ITok) (l : List ITok) :
    strip E (t :: l) = if E.isLayout t.key then strip E l else t :: strip E l := by
  unfold strip
  cases h : E.isLayout t.key <;> simp [List.filter_cons, h]

theorem strip_fresh (E : Env) (l : List ITok) : strip E (fresh l) = fresh (strip E l) := by
  induction l with
  | nil => rfl
  | cons t l ih =>
    have : fresh (t :: l) = t.fresh :: fresh l := rfl
    rw [this, strip_cons, strip_cons, isLayout_fresh, ih]
    cases E.isLayout t.key <;> rfl

theorem key_block_no (k : Key) (h : k.block = .no) : { k with block := Block.no } = k := by
  cases k; simp at h; subst h; rfl

theorem keys_fresh (l : List ITok) (hb : ∀ t ∈ l, t.key.block = .no) : keys (fresh l) = keys l := by
  induction l with
  | nil => rfl
  | cons t l ih =>
    simp only [fresh, keys, List.map_cons, ITok.fresh]
    rw [key_block_no _ (hb t (List.mem_cons_self ..))]
    have := ih (fun t ht => hb t (List.mem_cons_of_mem _ ht))
    simp only [fresh, keys, List.map_map] at this ⊢
    rw [this]

theorem fresh_agree_aux (E : Env) (d : Dict) (l : List ITok) :
    ∀ (p : Params) (ws : List W), plan E d p (keys l) = .ok ws →
      (∀ t ∈ l, t.key.block = .no) →
      (∀ t ∈ l, neverSet E d t.key = true → E.isLayout t.key = false → t.indent = none) →
      strip E (List.zipWith ITok.write (fresh (List.zipWith ITok.write l ws)) ws)
        = strip E (List.zipWith ITok.write l ws) := by
  induction l with
  | nil => intro p ws _ _ _; rfl
  | cons t l ih =>
    intro p ws hp hb hn
    obtain ⟨w, p', ws', hs, hp', rfl⟩ := plan_cons_ok E d p t.key (keys l) ws hp
    have ih' := ih p' ws' hp' (fun t ht => hb t (List.mem_cons_of_mem _ ht))
      (fun t ht => hn t (List.mem_cons_of_mem _ ht))
    have e1 : List.zipWith ITok.write (t :: l) (w :: ws') = t.write w :: List.zipWith ITok.write l ws' := rfl
    rw [e1]
    have e2 : fresh (t.write w :: List.zipWith ITok.write l ws')
        = (t.write w).fresh :: fresh (List.zipWith ITok.write l ws') := rfl
    rw [e2, List.zipWith_cons_cons, strip_cons, strip_cons, ITok.write_key, isLayout_fresh, ITok.write_key, ih']
    cases hl : E.isLayout t.key
    · simp only [Bool.false_eq_true, if_false]
      congr 1
      have hbt := hb t (List.mem_cons_self ..)
      cases w with
      | some v =>
        simp only [ITok.write, ITok.fresh]
        rw [key_block_no _ hbt]
      | none =>
        have hns := stepW_none_neverSet E d p t.key (keys l) p' hs
        have hi := hn t (List.mem_cons_self ..) hns hl
        simp only [ITok.write, ITok.fresh]
        rw [key_block_no _ hbt]
        cases t
        simp only at hi
        subst hi
        rfl
    · rfl

theorem mem_keys_block (l r : List ITok) (hk : keys r = keys l) (hb : ∀ t ∈ l, t.key.block = .no) :
    ∀ t ∈ r, t.key.block = .no := by
  intro t ht
  have : t.key ∈ keys r := List.mem_map_of_mem ht
  rw [hk] at this
  obtain ⟨t', ht', e⟩ := List.mem_map.mp this
  rw [← e]
  exact hb t' ht'

/-- a fresh parse of what a refresh left behind gives the non-layout tokens the same indents, when no
    comment carried a block-comment mark and the never-written tokens carried no indent -/
theorem fresh_refresh (E : Env) (m : IndentMap) (l₀ r : List ITok)
    (h₀ : setTokenIndent E m l₀ = .ok r)
    (hb : ∀ t ∈ l₀, t.key.block = .no)
    (hn : ∀ t ∈ l₀, neverSet E (processIndentMap m) t.key = true → E.isLayout t.key = false → t.indent = none) :
    ∃ r', setTokenIndent E m (fresh r) = .ok r' ∧ strip E r' = strip E r := by
  have hk := setTokenIndent_keys E m l₀ r h₀
  have hbr := mem_keys_block l₀ r hk hb
  unfold setTokenIndent at h₀ ⊢
  rw [keys_fresh r hbr, hk]
  cases hp : plan E (processIndentMap m) {} (keys l₀) with
  | error e => simp [hp, bind, Except.bind] at h₀
  | ok ws =>
    simp only [hp, bind, Except.bind, pure, Except.pure] at h₀ ⊢
    injection h₀ with h₀
    refine ⟨_, rfl, ?_⟩
    rw [← h₀]
    exact fresh_agree_aux E (processIndentMap m) l₀ {} ws hp hb hn

/-! ### the generated tables -/

def rowSkippable (n : ClsNames) (anc : List Nat) : Bool :=
  anc.contains n.whitespace || anc.contains n.carriageReturn || anc.contains n.comment ||
    anc.contains n.blankLine || anc.contains n.preprocessor

/-- the class-table facts of `LayoutOk` and the class half of `SkipOk`, for one row -/
def rowOk (n : ClsNames) (anc : List Nat) : Bool :=
  (!anc.contains n.carriageReturn || !anc.contains n.blankLine) &&
  (!(anc.contains n.whitespace || anc.contains n.carriageReturn) || !anc.contains n.useLibName) &&
  (!rowSkippable n anc || (!anc.contains n.useKw && !anc.contains n.ctxRefKw))

/-- a skippable class has a `unique_id` and it is not a key of the dictionary -/
def rowNoKey (n : ClsNames) (d : Dict) (anc : List Nat) (u : Option (String × String)) : Bool :=
  !rowSkippable n anc ||
    match u with
    | some (b, s) => (dget d (b ++ ":" ++ s)).isNone
    | none => false

theorem all_getD {A : Type} (g : A → Bool) (la : List A) (da : A) (h : la.all g = true) (hd : g da = true)
    (c : Nat) : g (la.getD c da) = true := by
  induction la generalizing c with
  | nil => simpa using hd
  | cons x la ih =>
    simp only [List.all_cons, Bool.and_eq_true] at h
    cases c with
    | zero => simpa using h.1
    | succ c => simpa using ih h.2 c

theorem zipWith_all_getD' {A B : Type} (g : A → B → Bool) (la : List A) (lb : List B) (da : A) (db : B)
    (hlen : la.length = lb.length) (h : (List.zipWith g la lb).all id = true) (hd : g da db = true) (c : Nat) :
    g (la.getD c da) (lb.getD c db) = true := by
  induction la generalizing lb c with
  | nil =>
    cases lb with
    | nil => simpa using hd
    | cons _ _ => simp at hlen
  | cons x la ih =>
    cases lb with
    | nil => simp at hlen
    | cons y lb =>
      simp only [List.zipWith_cons_cons, List.all_cons, Bool.and_eq_true, id] at h
      cases c with
      | zero => simpa using h.1
      | succ c => simpa using ih lb (by simpa using hlen) h.2 c

theorem array_getD_toList {A : Type} (a : Array A) (c : Nat) (da : A) : a.getD c da = a.toList.getD c da := by
  simp only [Array.getD, List.getD]; split <;> simp_all

theorem genEnv_isa (c p : Nat) : genEnv.isa c p = (Gen.classAncestors.toList.getD c []).contains p := by
  simp only [genEnv, array_getD_toList]

theorem genEnv_uid (c : Nat) : genEnv.uid c = Gen.classUidList.getD c none := by
  simp only [genEnv, Gen.classUids, array_getD_toList]

theorem gen_rows : Gen.classAncestors.toList.all (rowOk Gen.indentCls) = true := by
  decide +kernel

theorem gen_noKey :
    (List.zipWith (rowNoKey Gen.indentCls (processIndentMap Gen.indentConfig))
      Gen.classAncestors.toList Gen.classUidList).all id = true ∧
    Gen.classAncestors.toList.length = Gen.classUidList.length := by
  decide +kernel

theorem genEnv_rowOk (c : Nat) : rowOk Gen.indentCls (Gen.classAncestors.toList.getD c []) = true :=
  all_getD _ _ [] gen_rows (by decide) c

theorem genEnv_skippable (k : Key) :
    genEnv.skippable k = rowSkippable Gen.indentCls (Gen.classAncestors.toList.getD k.cls []) := by
  simp only [Env.skippable, Env.isWs, Env.isCr, Env.isComment, Env.isBlank, Env.isPreproc, genEnv_isa, rowSkippable]
  rfl

theorem genEnv_n : genEnv.n = Gen.indentCls := rfl

/-- the class table of the pinned tree satisfies `LayoutOk` -/
theorem genEnv_layoutOk : LayoutOk genEnv where
  crNotBlank := by
    intro c h
    have := genEnv_rowOk c
    rw [genEnv_isa, genEnv_n] at h ⊢
    generalize Gen.classAncestors.toList.getD c [] = anc at *
    unfold rowOk at this
    cases h2 : anc.contains Gen.indentCls.blankLine
    · rfl
    · simp only [h, h2] at this; simp at this
  notLib := by
    intro c h
    have := genEnv_rowOk c
    rw [genEnv_isa, genEnv_isa, genEnv_n] at h
    rw [genEnv_isa, genEnv_n]
    generalize Gen.classAncestors.toList.getD c [] = anc at *
    unfold rowOk at this
    cases h2 : anc.contains Gen.indentCls.useLibName
    · rfl
    · rcases h with h | h <;> (simp only [h, h2] at this; simp at this)

/-- `SkipOk` from the row-wise check of a dictionary against the generated class table -/
theorem genEnv_skipOk_of (d : Dict)
    (hd : (List.zipWith (rowNoKey Gen.indentCls d) Gen.classAncestors.toList Gen.classUidList).all id = true) :
    SkipOk genEnv d where
  notUse := by
    intro k hk
    have := genEnv_rowOk k.cls
    rw [genEnv_skippable] at hk
    rw [genEnv_isa, genEnv_isa, genEnv_n]
    generalize Gen.classAncestors.toList.getD k.cls [] = anc at *
    unfold rowOk at this
    cases h1 : anc.contains Gen.indentCls.useKw <;> cases h2 : anc.contains Gen.indentCls.ctxRefKw <;>
      simp only [hk, h1, h2] at this ⊢ <;> simp at this ⊢
  noKey := by
    intro k hk
    have := zipWith_all_getD' _ _ _ [] none gen_noKey.2 hd (by simp [rowNoKey, rowSkippable]) k.cls
    rw [genEnv_skippable] at hk
    unfold Env.uidStr
    rw [genEnv_uid]
    generalize Gen.classUidList.getD k.cls none = u at this ⊢
    simp only [rowNoKey, hk, Bool.not_true, Bool.false_or] at this
    cases u with
    | none => simp at this
    | some bs =>
      obtain ⟨b, s⟩ := bs
      simp only at this
      exact ⟨_, rfl, by simpa using this⟩

/-- … in particular for the default indent map -/
theorem genEnv_skipOk : SkipOk genEnv (processIndentMap Gen.indentConfig) :=
  genEnv_skipOk_of _ gen_noKey.1


/-! ### which classes are never written -/

/-- the class table seen from one row: the environment in which every class number is that row -/
def rowEnv (n : ClsNames) (anc : List Nat) (u : Option (String × String)) : Env :=
  { isa := fun _ p => anc.contains p, uid := fun _ => u, n := n }

theorem branchOf_row (k : Key) :
    branchOf genEnv k
      = branchOf (rowEnv Gen.indentCls (Gen.classAncestors.toList.getD k.cls []) (Gen.classUidList.getD k.cls none)) k := by
  simp only [branchOf, Env.isWs, Env.isBlank, Env.isCr, Env.isComment, genEnv_isa, genEnv_n]
  rfl

theorem neverSet_row (d : Dict) (k : Key) :
    neverSet genEnv d k
      = neverSet (rowEnv Gen.indentCls (Gen.classAncestors.toList.getD k.cls []) (Gen.classUidList.getD k.cls none)) d k := by
  unfold neverSet
  rw [branchOf_row, genEnv_uid]
  rfl

theorem isLayout_row (k : Key) :
    genEnv.isLayout k
      = (rowEnv Gen.indentCls (Gen.classAncestors.toList.getD k.cls []) (Gen.classUidList.getD k.cls none)).isLayout k := by
  simp only [Env.isLayout, Env.isWs, Env.isCr, genEnv_isa, genEnv_n]
  rfl

/-- is a row of the class table never written under `d` (and not a layout row) -/
def rowNever (d : Dict) (anc : List Nat) (u : Option (String × String)) : Bool :=
  neverSet (rowEnv Gen.indentCls anc u) d { cls := 0, lower := [] } &&
    !(rowEnv Gen.indentCls anc u).isLayout { cls := 0, lower := [] }

theorem rowNever_eq (d : Dict) (k : Key) :
    (neverSet genEnv d k && !genEnv.isLayout k)
      = rowNever d (Gen.classAncestors.toList.getD k.cls []) (Gen.classUidList.getD k.cls none) := by
  rw [neverSet_row, isLayout_row]
  rfl

theorem mem_zip_range {A : Type} (l : List A) (c : Nat) (hc : c < l.length) :
    (c, l[c]) ∈ List.zip (List.range l.length) l := by
  have h1 : c < (List.zip (List.range l.length) l).length := by simp [hc]
  have : (List.zip (List.range l.length) l)[c] = (c, l[c]) := by simp
  rw [← this]
  exact List.getElem_mem h1

/-- from an enumeration of the rows satisfying `P` to single row numbers -/
theorem rows_mem {A B : Type} (la : List A) (lb : List B) (da : A) (db : B) (P : A → B → Bool)
    (hP : P da db = false) (hlen : la.length = lb.length) (L : List Nat)
    (hrows : ((List.zip (List.range (List.zip la lb).length) (List.zip la lb)).filter
      fun r => P r.2.1 r.2.2).map (·.1) = L)
    (c : Nat) (hr : P (la.getD c da) (lb.getD c db) = true) : c ∈ L := by
  by_cases hc : c < la.length
  · have hc2 : c < lb.length := hlen ▸ hc
    have hz : c < (List.zip la lb).length := by simp [List.length_zip]; omega
    have hm := mem_zip_range (List.zip la lb) c hz
    have e : (List.zip la lb)[c] = (la.getD c da, lb.getD c db) := by
      simp [List.getD, hc, hc2]
    rw [e] at hm
    rw [← hrows]
    exact List.mem_map.mpr ⟨_, List.mem_filter.mpr ⟨hm, hr⟩, rfl⟩
  · exfalso
    have hc1 : la.length ≤ c := by omega
    have hc2 : lb.length ≤ c := by omega
    have h1 : la.getD c da = da := by simp [List.getD, hc1]
    have h2 : lb.getD c db = db := by simp [List.getD, hc2]
    rw [h1, h2, hP] at hr
    cases hr

theorem rowNever_default (d : Dict) : rowNever d [] none = false := by
  simp [rowNever, neverSet, branchOf, rowEnv, Env.isWs, Env.isBlank, Env.isCr, Env.isComment]

/-- from the enumeration of the never-written rows of the generated class table to single classes -/
theorem rowNever_mem (d : Dict) (L : List Nat)
    (hrows : ((List.zip (List.range (List.zip Gen.classAncestors.toList Gen.classUidList).length)
        (List.zip Gen.classAncestors.toList Gen.classUidList)).filter fun r => rowNever d r.2.1 r.2.2).map (·.1) = L)
    (k : Key) (h : neverSet genEnv d k = true) (hl : genEnv.isLayout k = false) : k.cls ∈ L := by
  have hr : rowNever d (Gen.classAncestors.toList.getD k.cls []) (Gen.classUidList.getD k.cls none) = true := by
    rw [← rowNever_eq, h, hl]; rfl
  exact rows_mem _ _ [] none (rowNever d) (rowNever_default d) gen_noKey.2 L hrows k.cls hr

theorem neverSet_default_rows :
    ((List.zip (List.range (List.zip Gen.classAncestors.toList Gen.classUidList).length)
        (List.zip Gen.classAncestors.toList Gen.classUidList)).filter
        fun r => rowNever (processIndentMap Gen.indentConfig) r.2.1 r.2.2).map (·.1)
      = [Gen.indentCls.blankLine, Gen.indentCls.archSemi, Gen.indentCls.ccsaSemi, Gen.indentCls.cssaSemi] := by
  decide +kernel


/-! ### the property-level statements -/

theorem strip_eq_filter (E : Env) (l : List ITok) :
    strip E l = l.filter (fun t => !E.isLayout t.key) := rfl

/-- layout blindness, both runs successful -/
theorem setTokenIndent_layoutBlind (E : Env) (m : IndentMap) (L : LayoutOk E) (H : SkipOk E (processIndentMap m))
    (l₁ l₂ r₁ r₂ : List ITok) (hs : strip E l₁ = strip E l₂)
    (h₁ : setTokenIndent E m l₁ = .ok r₁) (h₂ : setTokenIndent E m l₂ = .ok r₂) :
    strip E r₁ = strip E r₂ := by
  rw [setTokenIndent_eq_goTok] at h₁ h₂
  have hr : Relayout (fun t : ITok => E.isLayout t.key) l₁ l₂ := Relayout.of_filter_eq _ l₁ l₂ hs
  exact goTok_relayout E _ H E.isLayout (layout_dropOk E _ L) hr {} r₁ r₂ h₁ h₂

/-- the in-memory list after layout-only steps behind a refresh is a fixed point of the function (on the
    tokens the function looks at) -/
theorem setTokenIndent_memory_fix (E : Env) (m : IndentMap) (L : LayoutOk E) (H : SkipOk E (processIndentMap m))
    (l₀ r mem mem' : List ITok) (h₀ : setTokenIndent E m l₀ = .ok r) (hm : strip E mem = strip E r)
    (hf : setTokenIndent E m mem = .ok mem') : strip E mem' = strip E mem := by
  have h1 := setTokenIndent_idem' E m l₀ r h₀
  rw [setTokenIndent_layoutBlind E m L H mem r mem' r hm hf h1, hm]

/-- agreement of a fresh parse with the in-memory indents -/
theorem setTokenIndent_agree (E : Env) (m : IndentMap) (L : LayoutOk E) (H : SkipOk E (processIndentMap m))
    (l₀ r mem mem' : List ITok) (h₀ : setTokenIndent E m l₀ = .ok r) (hm : strip E mem = strip E r)
    (hb : ∀ t ∈ l₀, t.key.block = .no)
    (hn : ∀ t ∈ l₀, neverSet E (processIndentMap m) t.key = true → E.isLayout t.key = false → t.indent = none)
    (hf : setTokenIndent E m (fresh mem) = .ok mem') : strip E mem' = strip E mem := by
  obtain ⟨r', hr', hs'⟩ := fresh_refresh E m l₀ r h₀ hb hn
  have hfr : strip E (fresh mem) = strip E (fresh r) := by rw [strip_fresh, strip_fresh, hm]
  rw [setTokenIndent_layoutBlind E m L H (fresh mem) (fresh r) mem' r' hfr hf hr', hs', hm]

/-! ### comments are droppable too -/

/-- table facts about the comment classes (`parser.comment` and its subclasses: pragmas, the delimiters of
    delimited comments): they take the comment branch and touch no parameter -/
structure CommentOk (E : Env) : Prop where
  pure : ∀ c, E.isa c E.n.comment = true →
    E.isa c E.n.blankLine = false ∧ E.isa c E.n.ctxDeclEnd = false ∧ E.isa c E.n.libKw = false ∧
    E.isa c E.n.logicalName = false ∧ E.isa c E.n.entKw = false ∧ E.isa c E.n.cfgDeclKw = false ∧
    E.isa c E.n.pkgDeclKw = false ∧ E.isa c E.n.pkgInstKw = false ∧ E.isa c E.n.archKw = false ∧
    E.isa c E.n.pkgBodyKw = false ∧ E.isa c E.n.useKw = false ∧ E.isa c E.n.ctxRefKw = false ∧
    E.isa c E.n.archSemi = false ∧ E.isa c E.n.useLibName = false

/-- whitespace, carriage returns and comments -/
def Env.isLayoutOrComment (E : Env) (k : Key) : Bool := E.isLayout k || E.isComment k

theorem tableStep_noKey (d : Dict) (p : Params) (u : String) (h : dget d u = none) :
    tableStep d p u = .ok (none, none, p) := by
  unfold tableStep
  rw [h]
  rfl

theorem comment_inert (E : Env) (d : Dict) (L : LayoutOk E) (H : SkipOk E d) (C : CommentOk E)
    (p : Params) (k : Key) (rest : List Key) (w : W) (p' : Params) (hk : E.isComment k = true)
    (hs : stepW E d p k rest = .ok (w, p')) : p' = p := by
  by_cases hl : E.isLayout k = true
  · exact (layout_dropOk E d L).inert p k rest w p' hl hs
  have hc := C.pure k.cls hk
  obtain ⟨f1, f2, f3, f4, f5, f6, f7, f8, f9, f10, f11, f12, f13, _⟩ := hc
  have hws : E.isWs k = false := by
    cases h : E.isWs k
    · rfl
    · exact absurd (by simp [Env.isLayout, h]) hl
  have hcr : E.isCr k = false := by
    cases h : E.isCr k
    · rfl
    · exact absurd (by simp [Env.isLayout, h]) hl
  have hbl : E.isBlank k = false := f1
  have hskip : E.skippable k = true := by simp [Env.skippable, hk]
  obtain ⟨u, hu, hn⟩ := H.noKey k hskip
  have hb : branchOf E k = .comment := by
    unfold branchOf
    simp only [hws, hbl, hcr, f2, f3, f11, f12, f9, f13, f5, f10, f7, hk, if_true, if_false, Bool.false_eq_true]
  have hlu : libUpd E p k = p := by
    unfold libUpd Env.clearLibraryName Env.isPrimaryUnit Env.isSecondaryUnit
    simp only [f4, f5, f6, f7, f8, f9, f10, Bool.or_self, if_false, Bool.false_eq_true]
  rw [stepW_eq_stepB] at hs
  unfold stepB at hs
  simp only [hws, hbl, hcr, if_false, Bool.false_eq_true, hu, Except.bind, tableStep_noKey d p u hn, hb, finish, hlu] at hs
  cases hci : commentIndentL E d p k (nextTok E rest) with
  | error e => simp [hci] at hs
  | ok i =>
    simp only [hci] at hs
    injection hs with hs
    injection hs with _ hs
    exact hs.symm

theorem layoutOrComment_dropOk (E : Env) (d : Dict) (L : LayoutOk E) (H : SkipOk E d) (C : CommentOk E) :
    DropOk E d E.isLayoutOrComment where
  inert := by
    intro p k rest w p' hk hs
    simp only [Env.isLayoutOrComment, Bool.or_eq_true] at hk
    rcases hk with hk | hk
    · exact (layout_dropOk E d L).inert p k rest w p' hk hs
    · exact comment_inert E d L H C p k rest w p' hk hs
  skip := by
    intro k hk
    simp only [Env.isLayoutOrComment, Bool.or_eq_true] at hk
    rcases hk with hk | hk
    · exact (layout_dropOk E d L).skip k hk
    · simp [Env.skippable, hk]
  notLib := by
    intro k hk
    simp only [Env.isLayoutOrComment, Bool.or_eq_true] at hk
    rcases hk with hk | hk
    · exact (layout_dropOk E d L).notLib k hk
    · exact (C.pure k.cls hk).2.2.2.2.2.2.2.2.2.2.2.2.2

/-- the tokens that are neither whitespace, carriage return nor comment -/
def stripC (E : Env) (l : List ITok) : List ITok := l.filter (fun t => !E.isLayoutOrComment t.key)

theorem setTokenIndent_commentBlind (E : Env) (m : IndentMap) (L : LayoutOk E) (H : SkipOk E (processIndentMap m))
    (C : CommentOk E) (l₁ l₂ r₁ r₂ : List ITok) (hs : stripC E l₁ = stripC E l₂)
    (h₁ : setTokenIndent E m l₁ = .ok r₁) (h₂ : setTokenIndent E m l₂ = .ok r₂) :
    stripC E r₁ = stripC E r₂ := by
  rw [setTokenIndent_eq_goTok] at h₁ h₂
  have hr : Relayout (fun t : ITok => E.isLayoutOrComment t.key) l₁ l₂ := Relayout.of_filter_eq _ l₁ l₂ hs
  exact goTok_relayout E _ H E.isLayoutOrComment (layoutOrComment_dropOk E _ L H C) hr {} r₁ r₂ h₁ h₂

def rowCommentOk (n : ClsNames) (anc : List Nat) : Bool :=
  !anc.contains n.comment ||
    (!anc.contains n.blankLine && !anc.contains n.ctxDeclEnd && !anc.contains n.libKw &&
     !anc.contains n.logicalName && !anc.contains n.entKw && !anc.contains n.cfgDeclKw &&
     !anc.contains n.pkgDeclKw && !anc.contains n.pkgInstKw && !anc.contains n.archKw &&
     !anc.contains n.pkgBodyKw && !anc.contains n.useKw && !anc.contains n.ctxRefKw &&
     !anc.contains n.archSemi && !anc.contains n.useLibName)

theorem gen_commentRows : Gen.classAncestors.toList.all (rowCommentOk Gen.indentCls) = true := by
  decide +kernel

theorem genEnv_commentOk : CommentOk genEnv where
  pure := by
    intro c h
    have := all_getD _ _ [] gen_commentRows (by decide) c
    simp only [genEnv_isa, genEnv_n] at h ⊢
    generalize Gen.classAncestors.toList.getD c [] = anc at *
    unfold rowCommentOk at this
    simp only [h, Bool.not_true, Bool.false_or, Bool.and_eq_true, Bool.not_eq_eq_eq_not] at this
    obtain ⟨⟨⟨⟨⟨⟨⟨⟨⟨⟨⟨⟨⟨a1, a2⟩, a3⟩, a4⟩, a5⟩, a6⟩, a7⟩, a8⟩, a9⟩, a10⟩, a11⟩, a12⟩, a13⟩, a14⟩ := this
    exact ⟨a1, a2, a3, a4, a5, a6, a7, a8, a9, a10, a11, a12, a13, a14⟩


/-! ### a user `indent:` section cannot add keys -/

theorem dget_some_mem {α : Type} (d : List (String × α)) (k : String) (v : α) (h : dget d k = some v) :
    (k, v) ∈ d := by
  unfold dget at h
  cases hf : d.reverse.find? (fun e => e.1 == k) with
  | none => simp [hf] at h
  | some e =>
    simp only [hf, Option.map_some, Option.some.injEq] at h
    have hm := List.mem_of_find?_eq_some hf
    have hp := List.find?_some hf
    have : e.1 = k := by simpa using hp
    rw [List.mem_reverse] at hm
    obtain ⟨a, b⟩ := e
    simp only at this h
    subst this; subst h
    exact hm

theorem dget_none_iff {α : Type} (d : List (String × α)) (k : String) :
    dget d k = none ↔ ∀ e ∈ d, e.1 ≠ k := by
  unfold dget
  rw [Option.map_eq_none_iff, List.find?_eq_none]
  constructor
  · intro h e he
    have := h e (List.mem_reverse.mpr he)
    simpa using this
  · intro h e he
    have := h e (List.mem_reverse.mp he)
    simpa using this

theorem dget_isSome_any {α : Type} (d : List (String × α)) (k : String) (v : α) (h : dget d k = some v) :
    d.any (fun e => e.1 == k) = true := by
  have := dget_some_mem d k v h
  rw [List.any_eq_true]
  exact ⟨(k, v), this, by simp⟩

/-- assigning to an existing key keeps the key list -/
theorem dset_names {α : Type} (d : List (String × α)) (k : String) (v : α)
    (h : d.any (fun e => e.1 == k) = true) : (dset d k v).map (·.1) = d.map (·.1) := by
  unfold dset
  rw [if_pos h, List.map_map]
  apply List.map_congr_left
  intro e _
  by_cases he : (e.1 == k) = true
  · simp only [Function.comp, he, if_true]
    exact (by simpa using he : e.1 = k).symm
  · simp only [Function.comp, he, if_false, Bool.false_eq_true]

def keysOf (m : IndentMap) : List String := (processIndentMap m).map (·.1)

theorem mem_keysOf (m : IndentMap) (u : String) :
    u ∈ keysOf m ↔ ∃ g toks k e, (g, toks) ∈ m ∧ (k, e) ∈ toks ∧ u = g ++ ":" ++ k := by
  unfold keysOf processIndentMap
  simp only [List.mem_map, List.mem_flatMap]
  constructor
  · rintro ⟨x, ⟨ge, hge, ke, hke, rfl⟩, rfl⟩
    exact ⟨ge.1, ge.2, ke.1, ke.2, hge, hke, rfl⟩
  · rintro ⟨g, toks, k, e, h1, h2, rfl⟩
    exact ⟨(g ++ ":" ++ k, e), ⟨(g, toks), h1, (k, e), h2, rfl⟩, rfl⟩

theorem assignParam_keys (base : IndentMap) (g k p : String) (v : Raw) (m : IndentMap)
    (h : assignParam base g k p v = .ok m) : ∀ u, u ∈ keysOf m → u ∈ keysOf base := by
  unfold assignParam at h
  cases hg : dget base g with
  | none => simp [hg] at h
  | some toks =>
    simp only [hg] at h
    cases hk : dget toks k with
    | none => simp [hk] at h
    | some e =>
      simp only [hk] at h
      injection h with h
      subst h
      intro u hu
      rw [mem_keysOf] at hu ⊢
      obtain ⟨g', toks', k', e', h1, h2, rfl⟩ := hu
      have hany := dget_isSome_any base g toks hg
      unfold dset at h1
      rw [if_pos hany] at h1
      obtain ⟨x, hx, hxe⟩ := List.mem_map.mp h1
      by_cases hxg : (x.1 == g) = true
      · simp only [hxg, if_true, Prod.mk.injEq] at hxe
        obtain ⟨rfl, rfl⟩ := hxe
        -- the token names of the new list are those of `toks`
        have hn := dset_names toks k (dset e p v) (dget_isSome_any toks k e hk)
        have : k' ∈ (dset toks k (dset e p v)).map (·.1) := List.mem_map.mpr ⟨(k', e'), h2, rfl⟩
        rw [hn] at this
        obtain ⟨y, hy, hyk⟩ := List.mem_map.mp this
        refine ⟨g, toks, k', y.2, dget_some_mem base g toks hg, ?_, rfl⟩
        rw [← hyk]
        exact hy
      · simp only [hxg, if_false, Bool.false_eq_true] at hxe
        subst hxe
        exact ⟨g', toks', k', e', hx, h2, rfl⟩

theorem foldlM_inv {α β ε : Type} (f : β → α → Except ε β) (P : β → Prop)
    (hf : ∀ b x b', P b → f b x = .ok b' → P b') :
    ∀ (l : List α) (b b' : β), P b → l.foldlM f b = .ok b' → P b' := by
  intro l
  induction l with
  | nil =>
    intro b b' hb h
    simp only [List.foldlM, pure, Except.pure] at h
    injection h with h
    exact h ▸ hb
  | cons x l ih =>
    intro b b' hb h
    simp only [List.foldlM, bind, Except.bind] at h
    cases hx : f b x with
    | error e => simp [hx] at h
    | ok b1 =>
      simp only [hx] at h
      exact ih b1 b' (hf b x b1 hb hx) h

theorem mergeIndent_keys (base user m : IndentMap) (h : mergeIndent base user = .ok m) :
    ∀ u, u ∈ keysOf m → u ∈ keysOf base := by
  unfold mergeIndent at h
  refine foldlM_inv _ (fun b => ∀ u, u ∈ keysOf b → u ∈ keysOf base) ?_ user base m (fun _ h => h) h
  intro b ge b' hb hs
  refine foldlM_inv _ (fun b => ∀ u, u ∈ keysOf b → u ∈ keysOf base) ?_ ge.2 b b' hb hs
  intro b2 ke b2' hb2 hs2
  refine foldlM_inv _ (fun b => ∀ u, u ∈ keysOf b → u ∈ keysOf base) ?_ ke.2 b2 b2' hb2 hs2
  intro b3 pv b3' hb3 hs3 u hu
  exact hb3 u (assignParam_keys b3 ge.1 ke.1 pv.1 pv.2 b3' hs3 u hu)

theorem readIndentConfiguration_keys (base : IndentMap) (user : Option IndentMap) (m : IndentMap)
    (h : readIndentConfiguration base user = .ok m) : ∀ u, u ∈ keysOf m → u ∈ keysOf base := by
  cases user with
  | none =>
    simp only [readIndentConfiguration] at h
    injection h with h
    subst h
    exact fun _ h => h
  | some us => exact mergeIndent_keys base us m h

theorem dget_none_of_keys (m : IndentMap) (u : String) :
    dget (processIndentMap m) u = none ↔ u ∉ keysOf m := by
  rw [dget_none_iff]
  unfold keysOf
  constructor
  · intro h hu
    obtain ⟨e, he, rfl⟩ := List.mem_map.mp hu
    exact h e he rfl
  · intro h e he heq
    exact h (List.mem_map.mpr ⟨e, he, heq⟩)

/-- `SkipOk` survives `read_indent_configuration`: the merged map has no new keys -/
theorem SkipOk.of_merge (E : Env) (base : IndentMap) (user : Option IndentMap) (m : IndentMap)
    (H : SkipOk E (processIndentMap base)) (h : readIndentConfiguration base user = .ok m) :
    SkipOk E (processIndentMap m) where
  notUse := H.notUse
  noKey := by
    intro k hk
    obtain ⟨u, hu, hn⟩ := H.noKey k hk
    refine ⟨u, hu, ?_⟩
    rw [dget_none_of_keys] at hn ⊢
    exact fun hm => hn (readIndentConfiguration_keys base user m h u hm)


end Vsgm.Indent
