/-
  WP2c — the line-based bridge: a token list that is a sequence of ROWS (content without line break, then its line
  break) seen through the index-based look-ups of token_map (`lCarriageReturns[k]`, `get_line_number_of_index`).
-/
import VsgModel.BFull2.Extract2
import VsgModel.BFull2.ExtractV
import VsgProofs.Lemmas.TokenMap
namespace Vsgm.BFull2.Rows
open Vsgm Vsgm.TM Vsgm.TM.Lemmas

variable {α : Type} (uid : α → Option Key)

/-- a line: its content and its carriage return -/
abbrev Row (α : Type) := List α × α

def join (rows : List (Row α)) : List α := rows.flatMap (fun r => r.1 ++ [r.2])

structure RowsOk (rows : List (Row α)) : Prop where
  cr : ∀ r ∈ rows, uid r.2 = some crKey
  nocr : ∀ r ∈ rows, ∀ t ∈ r.1, uid t ≠ some crKey

/-- position of the first token of row `k` -/
def offs : List (Row α) → Nat → Nat
  | [], _ => 0
  | _ :: _, 0 => 0
  | r :: rs, k + 1 => r.1.length + 1 + offs rs k

theorem join_cons (r : Row α) (rs : List (Row α)) : join (r :: rs) = r.1 ++ [r.2] ++ join rs := by
  simp [join]

theorem join_length_take (rows : List (Row α)) (k : Nat) (hk : k ≤ rows.length) :
    (join (rows.take k)).length = offs rows k := by
  induction rows generalizing k with
  | nil => simp [join, offs]
  | cons r rs ih =>
    cases k with
    | zero => simp [join, offs]
    | succ k =>
      have := ih k (by simpa using hk)
      simp only [List.take_succ_cons, join_cons, List.length_append, List.length_singleton, offs, this]

/-- the file around row `k` -/
theorem join_split (rows : List (Row α)) (k : Nat) (r : Row α) (hk : rows[k]? = some r) :
    join rows = join (rows.take k) ++ (r.1 ++ [r.2]) ++ join (rows.drop (k + 1)) := by
  induction rows generalizing k with
  | nil => simp at hk
  | cons r0 rs ih =>
    cases k with
    | zero =>
      simp at hk; subst hk
      simp [join_cons, join]
    | succ k =>
      have := ih k (by simpa using hk)
      simp only [List.take_succ_cons, List.drop_succ_cons, join_cons]
      rw [this]
      simp [List.append_assoc]

/-! ### the carriage returns of the file -/

theorem specFrom_append (k : Key) (a b : List (Option Key)) (i : Nat) :
    specFrom k i (a ++ b) = specFrom k i a ++ specFrom k (i + a.length) b := by
  induction a generalizing i with
  | nil => simp [specFrom]
  | cons u a ih =>
    simp only [List.cons_append, specFrom, ih (i + 1), List.length_cons, List.append_assoc]
    congr 3
    omega

theorem specFrom_cr_none (us : List (Option Key)) (i : Nat) (h : ∀ u ∈ us, u ≠ some crKey) :
    specFrom crKey i us = [] := by
  induction us generalizing i with
  | nil => rfl
  | cons u us ih =>
    have hu := h u (List.mem_cons_self ..)
    simp only [specFrom, contrib_plain crKey plain_cr, hu, if_false, List.replicate_zero, List.nil_append]
    exact ih (i + 1) (fun x hx => h x (List.mem_cons_of_mem _ hx))

def crPosFrom (off : Nat) : List (Row α) → List Nat
  | [] => []
  | r :: rs => (off + r.1.length) :: crPosFrom (off + r.1.length + 1) rs

theorem specFrom_join (rows : List (Row α)) (h : RowsOk uid rows) (off : Nat) :
    specFrom crKey off ((join rows).map uid) = crPosFrom off rows := by
  induction rows generalizing off with
  | nil => rfl
  | cons r rs ih =>
    have hr : RowsOk uid rs := ⟨fun x hx => h.cr x (List.mem_cons_of_mem _ hx), fun x hx => h.nocr x (List.mem_cons_of_mem _ hx)⟩
    rw [join_cons, List.map_append, List.map_append, specFrom_append, specFrom_append,
      specFrom_cr_none _ off (by
        intro u hu; obtain ⟨t, ht, rfl⟩ := List.mem_map.mp hu; exact h.nocr r (List.mem_cons_self ..) t ht)]
    simp only [List.length_map, List.map_cons, List.map_nil, specFrom, List.nil_append, List.length_singleton,
      contrib_plain crKey plain_cr, h.cr r (List.mem_cons_self ..), if_true, List.length_append]
    rw [ih hr]
    simp [crPosFrom, List.replicate, Nat.add_assoc]

/-- **`lCarriageReturns`** of a file of rows -/
theorem crs_join (rows : List (Row α)) (h : RowsOk uid rows) :
    (processTokens uid (join rows)).get (some crKey) = crPosFrom 0 rows := by
  unfold Index.get
  simp only
  rw [processTokens_get]
  exact specFrom_join uid rows h 0

theorem pyIdx_nat' {β : Type} (l : List β) (k : Nat) :
    pyIdx l (k : Int) = match l[k]? with | some x => .ok x | none => .error .indexError := by
  unfold pyIdx
  have h : ¬ ((k : Int) < 0) := by omega
  simp only [h, if_false, Int.toNat_natCast]
  cases l[k]? <;> rfl

theorem pyIdx_cons_succ (x : Nat) (l : List Nat) (k : Nat) : pyIdx (x :: l) ((k + 1 : Nat) : Int) = pyIdx l (k : Int) := by
  rw [pyIdx_nat', pyIdx_nat', List.getElem?_cons_succ]

theorem take_len_add {β : Type} (A X : List β) (j : Nat) : List.take (A.length + j) (A ++ X) = A ++ X.take j := by
  rw [List.take_append, List.take_of_length_le (by omega), Nat.add_sub_cancel_left]

/-- **`lCarriageReturns[k]`**: the position of the line break of row `k`; IndexError beyond the last row -/
theorem pyIdx_crPos (rows : List (Row α)) (off k : Nat) :
    pyIdx (crPosFrom off rows) (k : Int) =
      match rows[k]? with
      | some r => .ok (off + offs rows k + r.1.length)
      | none => .error .indexError := by
  induction rows generalizing off k with
  | nil => simp [crPosFrom, pyIdx]
  | cons r rs ih =>
    cases k with
    | zero => simp [crPosFrom, pyIdx, offs]
    | succ k =>
      rw [crPosFrom, pyIdx_cons_succ, ih]
      simp only [List.getElem?_cons_succ, offs]
      cases rs[k]? with
      | none => rfl
      | some r' => simp; omega

/-! ### line numbers -/

theorem countCr_join (rows : List (Row α)) (h : RowsOk uid rows) :
    countKey crKey ((join rows).map uid) = rows.length := by
  induction rows with
  | nil => rfl
  | cons r rs ih =>
    have hr : RowsOk uid rs := ⟨fun x hx => h.cr x (List.mem_cons_of_mem _ hx), fun x hx => h.nocr x (List.mem_cons_of_mem _ hx)⟩
    rw [join_cons]
    unfold countKey at ih ⊢
    simp only [List.map_append, List.filter_append, List.length_append, List.map_cons, List.map_nil]
    have h1 : (List.filter (fun u => decide (u = some crKey)) (r.1.map uid)) = [] := by
      rw [List.filter_eq_nil_iff]
      intro u hu
      obtain ⟨t, ht, rfl⟩ := List.mem_map.mp hu
      simp [h.nocr r (List.mem_cons_self ..) t ht]
    rw [h1, ih hr]
    simp [h.cr r (List.mem_cons_self ..)]
    omega

theorem rowsOk_take (rows : List (Row α)) (h : RowsOk uid rows) (k : Nat) : RowsOk uid (rows.take k) :=
  ⟨fun x hx => h.cr x (List.mem_of_mem_take hx), fun x hx => h.nocr x (List.mem_of_mem_take hx)⟩

theorem rowsOk_drop (rows : List (Row α)) (h : RowsOk uid rows) (k : Nat) : RowsOk uid (rows.drop k) :=
  ⟨fun x hx => h.cr x (List.mem_of_mem_drop hx), fun x hx => h.nocr x (List.mem_of_mem_drop hx)⟩

/-- **`get_line_number_of_index`** of a position inside row `k` (its line break included): `k + 1` -/
theorem lineNo_join (rows : List (Row α)) (h : RowsOk uid rows) (k j : Nat) (r : Row α) (hk : rows[k]? = some r)
    (hj : j ≤ r.1.length) : lineNo uid (join rows) (offs rows k + j) = k + 1 := by
  have hkl : k < rows.length := by
    rcases Nat.lt_or_ge k rows.length with h' | h'
    · exact h'
    · rw [List.getElem?_eq_none h'] at hk; cases hk
  unfold lineNo
  have hlen := join_length_take rows k (Nat.le_of_lt hkl)
  rw [← List.map_take, join_split rows k r hk, List.append_assoc, ← hlen, take_len_add,
    List.append_assoc, List.take_append_of_le_length hj, List.map_append]
  have hc := countCr_join uid (rows.take k) (rowsOk_take uid rows h k)
  unfold countKey at hc ⊢
  rw [List.filter_append, List.length_append, hc]
  have h1 : (List.filter (fun u => decide (u = some crKey)) ((r.1.take j).map uid)) = [] := by
    rw [List.filter_eq_nil_iff]
    intro u hu
    obtain ⟨t, ht, rfl⟩ := List.mem_map.mp hu
    have hr : r ∈ rows := List.mem_of_getElem? hk
    simp [h.nocr r hr t (List.mem_of_mem_take ht)]
  rw [h1]
  simp [Nat.min_eq_left (Nat.le_of_lt hkl)]
  omega


/-! ### the line below a line -/

theorem offs_succ (rows : List (Row α)) (k : Nat) (r : Row α) (hk : rows[k]? = some r) :
    offs rows (k + 1) = offs rows k + r.1.length + 1 := by
  induction rows generalizing k with
  | nil => simp at hk
  | cons r0 rs ih =>
    cases k with
    | zero =>
      simp at hk; subst hk
      cases rs <;> simp [offs]
    | succ k =>
      have := ih k (by simpa using hk)
      simp only [offs, this]; omega

theorem pySlice_nat (f : List α) (a b : Nat) (ha : a ≤ f.length) (hb : b ≤ f.length) :
    pySlice f (a : Int) (b : Int) = (f.drop a).take (b - a) := by
  unfold pySlice
  rw [pyNorm_nat, pyNorm_nat, Nat.min_eq_left ha, Nat.min_eq_left hb]

/-- the content of row `k`, cut out of the file by its positions -/
theorem slice_row (rows : List (Row α)) (k : Nat) (r : Row α) (hk : rows[k]? = some r) :
    pySlice (join rows) ((offs rows k : Nat) : Int) ((offs rows k + r.1.length : Nat) : Int) = r.1 := by
  have hkl : k < rows.length := by
    rcases Nat.lt_or_ge k rows.length with h' | h'
    · exact h'
    · rw [List.getElem?_eq_none h'] at hk; cases hk
  have hlen := join_length_take rows k (Nat.le_of_lt hkl)
  have hs := join_split rows k r hk
  have hl : (join rows).length = offs rows k + (r.1.length + 1 + (join (rows.drop (k + 1))).length) := by
    rw [hs]; simp [hlen]; omega
  rw [pySlice_nat _ _ _ (by omega) (by omega), hs, List.append_assoc, ← hlen, List.drop_left, hlen,
    Nat.add_sub_cancel_left, List.append_assoc, List.take_left]

/-- **get_line_succeeding_line** on a file of rows, for the line of row `k`: the content of row `k + 1`, starting
    at its first position, line `k + 2`; `None` if row `k` is the last one -/
theorem lineSucceeding_join (rows : List (Row α)) (h : RowsOk uid rows) (k : Nat) (r : Row α) (hk : rows[k]? = some r) :
    lineSucceeding (join rows) (processTokens uid (join rows)) (k + 1) 1 =
      .ok (match rows[k + 1]? with
        | some r' => some { start := some ((offs rows (k + 1) : Nat) : Int), line := k + 2, toks := r'.1 }
        | none => none) := by
  unfold lineSucceeding
  simp only
  rw [crs_join uid rows h]
  have e1 : (((k + 1 : Nat) : Int) - 1) = ((k : Nat) : Int) := by omega
  have e2 : (((k + 1 : Nat) : Int) + ((1 : Nat) : Int) - 1) = ((k + 1 : Nat) : Int) := by omega
  rw [e1, e2, pyIdx_crPos, pyIdx_crPos, hk]
  simp only [bind, Except.bind, Nat.zero_add]
  cases hk1 : rows[k + 1]? with
  | none => rfl
  | some r' =>
    simp only [pure, Except.pure]
    have e3 : (((offs rows k + r.1.length : Nat) : Int) + 1) = ((offs rows (k + 1) : Nat) : Int) := by
      rw [offs_succ rows k r hk]; omega
    rw [e3, slice_row rows (k + 1) r' hk1]

end Vsgm.BFull2.Rows
