/-
  Lemmas joining the check_rules closed form with the report walks.
-/
import VsgModel.Engine.CheckRules
import VsgModel.Engine.Report
import VsgProofs.Lemmas.CheckRules
import VsgProofs.Lemmas.Report
namespace Vsgm.Lemmas
open Vsgm

theorem allRecs_map_clear_filter (q : Int → Bool) (rs : List CRule) :
    allRecs (rs.map (fun r => if q r.cfg.phase then r else r.clear)) = (allRecs rs).filter (fun rec => q rec.phase) := by
  unfold allRecs
  induction rs with
  | nil => rfl
  | cons r rs ih =>
    simp only [List.map_cons, List.flatMap_cons, List.filter_append, ih]
    congr 1
    by_cases h : q r.cfg.phase = true
    · simp only [h, if_true, CRule.getViolations, List.filter_map]
      rw [List.filter_eq_self.mpr]
      intro v _; simpa using h
    · have hq : q r.cfg.phase = false := by simpa using h
      simp only [hq, Bool.false_eq_true, if_false]
      have h1 : r.clear.getViolations = [] := rfl
      rw [h1]
      symm; rw [List.filter_eq_nil_iff]
      intro v hv
      obtain ⟨w, _, rfl⟩ := List.mem_map.mp hv
      simp [hq]

theorem report_origin (ap : Bool) (skip : List Nat) (rs : List CRule) (f : List Tok) (rec : Rec)
    (h : rec ∈ reportRecs (checkRun ap skip rs f).rules) :
    ∃ r ∈ clearViolations rs, ranBy ap skip (clearViolations rs) f r = true ∧ rec.phase = r.cfg.phase ∧
      rec.rule = r.cfg.id := by
  rw [mem_reportRecs, mem_allRecs] at h
  obtain ⟨r', hr', v, hv, rfl⟩ := h
  unfold checkRun at hr'
  rw [checkRules_rules] at hr'
  obtain ⟨r, hr, rfl⟩ := List.mem_map.mp hr'
  refine ⟨r, hr, ?_, ?_, ?_⟩
  · by_cases hran : ranBy ap skip (clearViolations rs) f r = true
    · exact hran
    · have hran' : ranBy ap skip (clearViolations rs) f r = false := by simpa using hran
      simp only [anaIf, hran', Bool.false_eq_true, if_false] at hv
      rw [clear_viols rs r hr] at hv
      simp at hv
  · unfold anaIf; split <;> rfl
  · unfold anaIf; split <;> rfl

theorem final_rule_attrs (ap : Bool) (skip : List Nat) (rs : List CRule) (f : List Tok) (r' : CRule)
    (h : r' ∈ (checkRun ap skip rs f).rules) :
    ∃ r ∈ rs, r'.cfg = r.cfg ∧ r'.sevName = r.sevName ∧
      r'.viols = if ranBy ap skip (clearViolations rs) f r.clear then r.clear.analyzeRecs f else [] := by
  unfold checkRun at h
  rw [checkRules_rules] at h
  obtain ⟨rc, hrc, rfl⟩ := List.mem_map.mp h
  obtain ⟨r, hr, rfl⟩ := List.mem_map.mp hrc
  refine ⟨r, hr, ?_, ?_, ?_⟩
  · unfold anaIf; split <;> rfl
  · unfold anaIf; split <;> rfl
  · unfold anaIf; split <;> simp [CRule.analyze, CRule.clear]

end Vsgm.Lemmas
