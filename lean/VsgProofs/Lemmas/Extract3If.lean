/-
  `get_if_statement_conditions` (WP3): every region is a slice; with `fRemoveWhitespace` a condition
  that holds nothing but whitespace / comments gets no region (repaired helpers, see Extract3.lean).
-/
import VsgModel.Engine.Extract3
import VsgProofs.Lemmas.Extract2
namespace Vsgm.TM.X.Lemmas
open Vsgm Vsgm.TM Vsgm.TM.Lemmas Vsgm.TM.X

variable {α : Type}

theorem sliceAt_take (f : List α) (p k : Nat) (l : List α) (h : SliceAt f p l) : SliceAt f p (l.take k) := by
  obtain ⟨hle, he⟩ := h
  constructor
  · simp; omega
  · have e1 := congrArg (List.take k) he
    rw [List.take_take] at e1
    rw [e1]
    simp only [List.length_take, List.length_drop]
    congr 1; omega

theorem sliceAt_drop (f : List α) (p k : Nat) (l : List α) (h : SliceAt f p l) (hk : k ≤ l.length) :
    SliceAt f (p + k) (l.drop k) := by
  obtain ⟨hle, he⟩ := h
  constructor
  · simp; omega
  · have e1 := congrArg (List.drop k) he
    rw [List.drop_take, List.drop_drop] at e1
    rw [e1]
    simp only [List.length_take, List.length_drop]
    congr 1
    omega

theorem sliceAt_pySlice (f : List α) (s : Nat) (b : Int) (h : s ≤ f.length) : SliceAt f s (pySlice f (s : Int) b) :=
  pySlice_nat_exact f s b h

theorem removeTrailing_slice (V : View α) (P : PCls) (f : List α) (p : Nat) (l : List α) (hs : SliceAt f p l) :
    SliceAt f p (removeTrailing V P l) := by
  unfold removeTrailing
  cases hf : l.reverse.findIdx? (fun t => !isWsOrComment V P t) with
  | some k =>
    simp only
    rw [List.drop_reverse, List.reverse_reverse]
    exact sliceAt_take f p _ l hs
  | none =>
    simp only
    exact sliceAt_nil f p (by have := hs.1; omega)

/-- both helpers together: what is left of the slice `sl` at `s` is the slice at `s + k`, and the
    index handed back is `i + k + 1` (the callers pass `i = s - 1` or `i = s`) -/
theorem trimmed_slice (V : View α) (P : PCls) (f : List α) (s : Nat) (sl : List α) (i : Int) (hsl : SliceAt f s sl) :
    ∃ k : Nat, k ≤ sl.length ∧ (removeLeading V P i sl).1 = i + (k : Int) + 1 ∧
      SliceAt f (s + k) (removeTrailing V P (removeLeading V P i sl).2) := by
  unfold removeLeading
  cases hf : sl.findIdx? (fun t => !isWsOrComment V P t) with
  | some k =>
    simp only
    have hk : k < sl.length := (List.findIdx?_eq_some_iff_findIdx_eq.mp hf).1
    exact ⟨k, Nat.le_of_lt hk, rfl, removeTrailing_slice V P f _ _ (sliceAt_drop f s k sl hsl (Nat.le_of_lt hk))⟩
  | none =>
    simp only
    exact ⟨sl.length, Nat.le_refl _, rfl, removeTrailing_slice V P f _ _ (sliceAt_nil f _ hsl.1)⟩

theorem ifRegion_exact (V : View α) (P : PCls) (f : List α) (rm : Bool) (s : Nat) (tmp0 : List α) (t : Toi α)
    (hsl : SliceAt f (s + 1) tmp0)
    (h : ifRegion V P (processTokens V.uid f) rm s tmp0 = .ok (some t)) :
    (∃ p : Int, t.start = some p ∧ t.line = lineNo V.uid f p.toNat) ∧ t.Exact f ∧ (rm = true → t.toks ≠ []) := by
  unfold ifRegion at h
  cases rm with
  | false =>
    simp only [Bool.false_eq_true, if_false, Bool.false_and, bind_ok, pure_ok, Option.some.injEq] at h
    obtain ⟨line, hl, rfl⟩ := h
    exact ⟨⟨_, rfl, lineOf_fresh V.uid f _ line hl⟩,
      exact_of_sliceAt f _ (s + 1) (by simp <;> omega) hsl, by intro h; cases h⟩
  | true =>
    simp only [if_true, Bool.true_and] at h
    split at h
    · simp [pure, Except.pure] at h
    · rename_i hne
      simp only [bind_ok, pure_ok, Option.some.injEq] at h
      obtain ⟨line, hl, rfl⟩ := h
      obtain ⟨k, _, h1, h2⟩ := trimmed_slice V P f (s + 1) tmp0 (s : Int) hsl
      refine ⟨⟨_, rfl, lineOf_fresh V.uid f _ line hl⟩,
        exact_of_sliceAt f _ (s + 1 + k) (by simp only [h1]; congr 1; omega) h2, ?_⟩
      intro _ he
      simp only at he
      rw [he] at hne
      simp at hne

theorem ifConditions_exact (V : View α) (P : PCls) (f : List α) (ifK elsifK thenK : Option Key) (rm : Bool)
    (r : List (Toi α)) (h : ifConditions V P f (processTokens V.uid f) ifK elsifK thenK rm = .ok r) :
    ∀ t ∈ r, (∃ s : Int, t.start = some s ∧ t.line = lineNo V.uid f s.toNat) ∧ t.Exact f ∧
      (rm = true → t.toks ≠ []) := by
  intro t ht
  unfold ifConditions at h
  obtain ⟨s, hs, hb⟩ := mem_filterMapE _ _ _ h t ht
  have hlt : s < f.length := by
    unfold sortNat at hs
    rw [List.mem_mergeSort] at hs
    rcases List.mem_append.mp hs with h' | h'
    · exact fresh_get_lt V.uid f ifK s h'
    · exact fresh_get_lt V.uid f elsifK s h'
  have e1 : ((s : Int) + 1) = ((s + 1 : Nat) : Int) := by omega
  refine ifRegion_exact V P f rm s _ t ?_ hb
  split <;> (rw [e1]; exact sliceAt_pySlice f (s + 1) _ (by omega))

end Vsgm.TM.X.Lemmas
