/-
  `get_if_statement_conditions` (WP3): with `fRemoveWhitespace` the region is a slice exactly when
  something other than whitespace / comments stands between `if` and `then`.
-/
import VsgModel.Engine.Extract3
import VsgProofs.Lemmas.Extract2
namespace Vsgm.TM.X.Lemmas
open Vsgm Vsgm.TM Vsgm.TM.Lemmas Vsgm.TM.X

variable {α : Type}

theorem sliceAt_take (f : List α) (p k : Nat) (l : List α) (h : SliceAt f p l) : SliceAt f p (l.take k) := by
  obtain ⟨hle, he⟩ := h
  constructor
  · simp; omega
  · have e1 := congrArg (List.take k) he
    rw [List.take_take] at e1
    rw [e1]
    simp only [List.length_take, List.length_drop]
    congr 1; omega

theorem sliceAt_drop (f : List α) (p k : Nat) (l : List α) (h : SliceAt f p l) (hk : k ≤ l.length) :
    SliceAt f (p + k) (l.drop k) := by
  obtain ⟨hle, he⟩ := h
  constructor
  · simp; omega
  · have e1 := congrArg (List.drop k) he
    rw [List.drop_take, List.drop_drop] at e1
    rw [e1]
    simp only [List.length_take, List.length_drop]
    congr 1
    omega

theorem sliceAt_pySlice (f : List α) (s : Nat) (b : Int) (h : s ≤ f.length) : SliceAt f s (pySlice f (s : Int) b) :=
  pySlice_nat_exact f s b h

theorem removeTrailing_slice (V : View α) (P : PCls) (f : List α) (p : Nat) (l : List α) (hs : SliceAt f p l)
    (hx : ∃ x ∈ removeTrailing V P l, isWsOrComment V P x = false) : SliceAt f p (removeTrailing V P l) := by
  unfold removeTrailing at hx ⊢
  cases hf : l.reverse.findIdx? (fun t => !isWsOrComment V P t) with
  | some k =>
    simp only
    rw [List.drop_reverse, List.reverse_reverse]
    exact sliceAt_take f p _ l hs
  | none =>
    simp only [hf] at hx
    obtain ⟨x, hxm, hxw⟩ := hx
    rw [List.findIdx?_eq_none_iff] at hf
    have := hf x hxm
    simp [hxw] at this

theorem ifCore (V : View α) (P : PCls) (f : List α) (s : Nat) (tmp0 : List α) (rm : Bool) (line : Nat) (st : Int × List α)
    (hst : st = if rm then ((removeLeading V P s tmp0).1, removeTrailing V P (removeLeading V P s tmp0).2)
        else ((s : Int) + 1, tmp0))
    (hsl : SliceAt f (s + 1) tmp0)
    (hg : rm = false ∨ ∃ x ∈ st.2, isWsOrComment V P x = false) :
    Toi.Exact f ({ start := some st.1, line := line, toks := st.2 } : Toi α) := by
  subst hst
  cases rm with
  | false =>
    simp only [Bool.false_eq_true, if_false]
    exact exact_of_sliceAt f _ (s + 1) (by simp <;> omega) hsl
  | true =>
    simp only [if_true] at hg ⊢
    rcases hg with hg | hg
    · cases hg
    · unfold removeLeading at hg ⊢
      cases hf : tmp0.findIdx? (fun t => !isWsOrComment V P t) with
      | some k =>
        simp only [hf] at hg ⊢
        have hk : k < tmp0.length := by
          have := List.findIdx?_eq_some_iff_findIdx_eq.mp hf
          exact this.1
        have hd := sliceAt_drop f (s + 1) k tmp0 hsl (Nat.le_of_lt hk)
        refine exact_of_sliceAt f _ (s + 1 + k) (by simp <;> omega) ?_
        exact removeTrailing_slice V P f _ _ hd hg
      | none =>
        simp only [hf] at hg
        exfalso
        obtain ⟨x, hxm, hxw⟩ := hg
        rw [List.findIdx?_eq_none_iff] at hf
        have hall : ∀ y ∈ tmp0, isWsOrComment V P y = true := by
          intro y hy; have := hf y hy; simpa using this
        unfold removeTrailing at hxm
        cases hf2 : tmp0.reverse.findIdx? (fun t => !isWsOrComment V P t) with
        | some k' =>
          simp only [hf2] at hxm
          rw [List.drop_reverse, List.reverse_reverse] at hxm
          have := hall x (List.mem_of_mem_take hxm)
          rw [this] at hxw; cases hxw
        | none =>
          simp only [hf2] at hxm
          have := hall x (List.mem_reverse.mp hxm)
          rw [this] at hxw; cases hxw

theorem ifConditions_exact_partial (V : View α) (P : PCls) (f : List α) (ifK elsifK thenK : Option Key) (rm : Bool)
    (r : List (Toi α)) (h : ifConditions V P f (processTokens V.uid f) ifK elsifK thenK rm = .ok r) :
    ∀ t ∈ r, (∃ s : Int, t.start = some s ∧ t.line = lineNo V.uid f s.toNat) ∧
      ((rm = false ∨ ∃ x ∈ t.toks, isWsOrComment V P x = false) → t.Exact f) := by
  intro t ht
  unfold ifConditions at h
  obtain ⟨s, hs, hb⟩ := mem_mapE _ _ _ h t ht
  have hlt : s < f.length := by
    unfold sortNat at hs
    rw [List.mem_mergeSort] at hs
    rcases List.mem_append.mp hs with h' | h'
    · exact fresh_get_lt V.uid f ifK s h'
    · exact fresh_get_lt V.uid f elsifK s h'
  have e1 : ((s : Int) + 1) = ((s + 1 : Nat) : Int) := by omega
  cases hta : (processTokens V.uid f).tokAfter thenK (s : Int) with
  | none =>
    simp only [hta, bind_ok, pure_ok] at hb
    obtain ⟨line, hl, rfl⟩ := hb
    refine ⟨⟨_, rfl, lineOf_fresh V.uid f _ line hl⟩, ?_⟩
    intro hg
    exact ifCore V P f s _ rm line _ rfl (by rw [e1]; exact sliceAt_pySlice f (s + 1) _ (by omega)) hg
  | some e =>
    simp only [hta, bind_ok, pure_ok] at hb
    obtain ⟨line, hl, rfl⟩ := hb
    refine ⟨⟨_, rfl, lineOf_fresh V.uid f _ line hl⟩, ?_⟩
    intro hg
    exact ifCore V P f s _ rm line _ rfl (by rw [e1]; exact sliceAt_pySlice f (s + 1) _ (by omega)) hg

end Vsgm.TM.X.Lemmas
