/-
  The certificate checker's edit-class tests (`Verdict.insertOk/removeOk/parensOk/splitOk`) on the
  shapes the structure-family models produce.
-/
import VsgModel.Check.Verdict
import VsgProofs.Lemmas.Extras
import VsgProofs.Lemmas.BaseSplit
namespace Vsgm.Base
open Vsgm Vsgm.Verdict

/-- the checker's `remove` test on the two shapes a removal of one optional token produces -/
theorem removeOk_two (av tv : Str)
    (h : tv ∈ redundantKeywords ∨ (isWord tv = true ∧ (av = tv ∨ av = s "end" ∨ av ∈ redundantKeywords))) :
    removeOk 1 [av, tv] [av] = true := by
  have hx : Trace.extrasP none [av] [av, tv] = some [(some av, tv)] := by simp [Trace.extrasP]
  unfold removeOk
  rw [hx]
  simp only [List.all_cons, List.all_nil, Bool.and_true, Bool.and_eq_true, Bool.or_eq_true,
      decide_eq_true_eq, List.mem_singleton, List.length_singleton, beq_iff_eq, perEdit]
  refine ⟨?_, by simp⟩
  rcases h with h | ⟨hw, h | h | h⟩
  · exact Or.inl (Or.inl h)
  · exact Or.inl (Or.inr ⟨hw, h.symm⟩)
  · exact Or.inr ⟨hw, Or.inl h⟩
  · exact Or.inr ⟨hw, Or.inr h⟩

theorem removeOk_one (tv : Str) (h : tv ∈ redundantKeywords) : removeOk 1 [tv] [] = true := by
  have hx : Trace.extrasP none ([] : List Str) [tv] = some [(none, tv)] := by simp [Trace.extrasP]
  unfold removeOk
  rw [hx]
  simp [perEdit, h]

theorem extras_snoc {α : Type} [DecidableEq α] (y : α) : ∀ a : List α, Trace.extras a (a ++ [y]) = some [y]
  | [] => by simp [Trace.extras]
  | x :: a => by simp [Trace.extras, extras_snoc y a]

/-- the checker's greedy matcher on a sequence wrapped in two new elements -/
theorem extras_wrap {α : Type} [DecidableEq α] (x y : α) : ∀ a : List α, Trace.extras a (x :: a ++ [y]) = some [x, y]
  | [] => by simp [Trace.extras]
  | h :: t => by
    by_cases hx : h = x
    · subst hx
      have := extras_wrap h y t
      simp only [List.cons_append] at this ⊢
      simp [Trace.extras, this]
    · simp [Trace.extras, hx, extras_snoc y t]

/-- the comma filter of the checker's `split` class -/
def notComma (x : Str) : Bool := x != s ","

/-- generic step from the block structure to the checker's `split` class -/
theorem splitOk_of_blocks (A M B : List Str) (xs : List (List Str × List Str)) (hne : xs ≠ [])
    (hc : M.filter notComma = ((xs.map (·.1)).flatten).filter notComma)
    (hsep : ∀ y ∈ xs, ∀ x ∈ y.2, x = s ";") :
    splitOk (A ++ M ++ B) (xs.flatMap (fun x => A ++ x.1 ++ B ++ x.2)) = true := by
  have hsub := Split.split_sublist notComma A M B xs hne hc
  obtain ⟨e, he⟩ := extras_of_sublist _ _ hsub
  obtain ⟨_, hesub, _⟩ := Lemmas.extras_sublist _ _ _ he
  unfold splitOk
  have hf : ∀ l : List Str, l.filter (fun x => x != s ",") = l.filter notComma := fun _ => rfl
  rw [hf, hf, he]
  simp only [List.all_eq_true, Bool.or_eq_true, decide_eq_true_eq, beq_iff_eq]
  intro x hx
  have hm := List.mem_filter.mp (hesub.subset hx)
  rcases Split.split_mem notComma A M B xs hc x hm.2 hm.1 with h | ⟨y, hy, hxy⟩
  · exact Or.inl h
  · exact Or.inr (hsep y hy x hxy)

end Vsgm.Base
