/-
  WP2, vertical-spacing families (`VsgModel/BFull2/ExtractV.lean`, `VsgModel/BFull2/VSpace.lean`):
  (iii) every region the new extractors return is a contiguous slice of the token list at the recorded start
        (`*_sliceExact`, fresh index);
  (ii)  the fix of one region is layout-only and changes the number of line breaks by exactly +1 (Insert), by
        minus the line breaks of the region (Remove), by 0 (Skip);
  (i)   region-level idempotence: after "Insert" the line the extractor reads again is the single blank_line
        token, which every `require…` / `no_code` judgement accepts; after "Remove" nothing of the region is left.
-/
import VsgModel.BFull2.VSpace
import VsgProofs.Lemmas.TokenMap
import VsgProofs.Lemmas.BaseBlankLine
import VsgProofs.Properties.C18
namespace Vsgm.BFull2.VSpace
open Vsgm Vsgm.TM Vsgm.TM.Lemmas Vsgm.BFull2.VSpace

variable {α : Type}

/-! ### (iii) slice exactness of the extractors -/

theorem pyIdx_mem {β : Type} (l : List β) (i : Int) (x : β) (h : pyIdx l i = .ok x) : x ∈ l := by
  unfold pyIdx at h
  simp only at h
  by_cases hj : (if i < 0 then i + (l.length : Int) else i) < 0
  · simp [hj] at h
  · simp only [hj, if_false] at h
    cases hg : l[(if i < 0 then i + (l.length : Int) else i).toNat]? with
    | none => simp [hg] at h
    | some y =>
      simp [hg] at h
      subst h
      exact List.mem_of_getElem? hg

/-- a member of the fresh index's line-break list is a position of the file -/
theorem cr_lt (uid : α → Option Key) (f : List α) (c : Nat) (i : Int)
    (h : pyIdx ((processTokens uid f).get (some crKey)) i = .ok c) : c < f.length :=
  fresh_get_lt uid f (some crKey) c (pyIdx_mem _ i c h)

/-- **get_line_succeeding_line** with a fresh index: a slice starting right after a line break; the
    recorded line is the line AFTER the one asked for -/
theorem lineSucceeding_sliceExact (uid : α → Option Key) (f : List α) (line n : Nat) (t : Toi α)
    (h : lineSucceeding f (processTokens uid f) line n = .ok (some t)) : t.Exact f ∧ t.line = line + 1 := by
  unfold lineSucceeding at h
  simp only [bind_ok] at h
  obtain ⟨c, hc, h⟩ := h
  have hlt := cr_lt uid f c _ hc
  split at h
  · simp [pure, Except.pure] at h
  · rename_i e he
    simp only [pure_ok, Option.some.injEq] at h
    subst h
    exact ⟨exact_of_slice f _ ((c : Int) + 1) (e : Int) rfl (by omega) (by omega) rfl, rfl⟩

theorem lineBelowOfIdxs_sliceExact (uid : α → Option Key) (f : List α) (idxs : List Nat) (r : List (Option (Toi α)))
    (h : lineBelowOfIdxs f (processTokens uid f) idxs = .ok r) : ∀ t, some t ∈ r → t.Exact f := by
  intro t ht
  unfold lineBelowOfIdxs at h
  simp only [bind_ok] at h
  obtain ⟨ls, _, h⟩ := h
  obtain ⟨l, _, hb⟩ := mem_mapE _ _ _ h (some t) ht
  exact (lineSucceeding_sliceExact uid f l 1 t hb).1

/-- **get_line_below_line_ending_with_token** -/
theorem lineBelowLineEndingWith_sliceExact (uid : α → Option Key) (f : List α) (cs : List Cls) (r : List (Toi α))
    (h : lineBelowLineEndingWith f (processTokens uid f) cs = .ok r) : ∀ t ∈ r, t.Exact f := by
  intro t ht
  unfold lineBelowLineEndingWith at h
  simp only [bind_ok, pure_ok] at h
  obtain ⟨r0, h0, rfl⟩ := h
  obtain ⟨o, ho, hid⟩ := List.mem_filterMap.mp ht
  simp only [id] at hid
  subst hid
  exact lineBelowOfIdxs_sliceExact uid f _ r0 h0 t ho

/-- **get_line_below_line_ending_with_token_with_hierarchy**: every region that is not `None` -/
theorem lineBelowLineEndingWithHier_sliceExact (uid : α → Option Key) (f : List α) (hier : Nat → Option Int)
    (cs : List Cls) (lims : List Int) (r : List (Option (Toi α)))
    (h : lineBelowLineEndingWithHier f (processTokens uid f) hier cs lims = .ok r) : ∀ t, some t ∈ r → t.Exact f := by
  unfold lineBelowLineEndingWithHier at h
  exact lineBelowOfIdxs_sliceExact uid f _ r h

/-- **get_blank_lines_below_line_ending_with_token**: a non-empty slice starting right after a line break -/
theorem blankLinesBelowLineEndingWith_sliceExact (uid : α → Option Key) (f : List α) (hier : Nat → Option Int)
    (cs : List Cls) (lims : Option (List Int)) (r : List (Toi α))
    (h : blankLinesBelowLineEndingWith f (processTokens uid f) hier cs lims = .ok r) :
    ∀ t ∈ r, t.Exact f ∧ 0 < t.toks.length := by
  intro t ht
  unfold blankLinesBelowLineEndingWith at h
  obtain ⟨i, _, hb⟩ := mem_filterMapE _ _ _ h t ht
  unfold blankBelowBody at hb
  split at hb
  · simp [pure, Except.pure] at hb
  · simp only [bind_ok] at hb
    obtain ⟨line, _, c, hc, hb⟩ := hb
    have hlt := cr_lt uid f c _ hc
    split at hb
    · simp [pure, Except.pure] at hb
    · rename_i e he
      split at hb
      · rename_i hpos
        simp only [pure_ok, Option.some.injEq] at hb
        subst hb
        exact ⟨exact_of_slice f _ ((c : Int) + 1) ((e : Int) + 1) rfl (by omega) (by omega) rfl, by simpa using hpos⟩
      · simp [pure, Except.pure] at hb

/-- **get_line_preceding_line** with `bSkipComments = True`: a slice starting at 0 or right after a line break;
    the recorded line is NOT the line asked for but the one after the line the region lies on -/
theorem linePrecedingSkip_sliceExact (uid : α → Option Key) (f : List α) (line : Nat) (t : Toi α)
    (h : linePrecedingSkip f (processTokens uid f) line = .ok t) : t.Exact f := by
  unfold linePrecedingSkip at h
  simp only [bind_ok] at h
  obtain ⟨si, _, h⟩ := h
  split at h
  · simp only [bind_ok, pure_ok] at h
    obtain ⟨e, _, rfl⟩ := h
    exact exact_of_slice f _ 0 (e : Int) rfl (by omega) (by simp) rfl
  · simp only [bind_ok, pure_ok] at h
    obtain ⟨s, hs, e, _, rfl⟩ := h
    have hlt := cr_lt uid f s _ hs
    exact exact_of_slice f _ ((s : Int) + 1) (e : Int) rfl (by omega) (by omega) rfl

theorem linePrecedingB_sliceExact (uid : α → Option Key) (f : List α) (line : Nat) (b : Bool) (t : Toi α)
    (h : linePrecedingB f (processTokens uid f) line b = .ok t) : t.Exact f := by
  unfold linePrecedingB at h
  split at h
  · exact linePrecedingSkip_sliceExact uid f line t h
  · exact (C18.linePreceding_sliceExact uid f line 1 t h).1

/-- **get_line_above_line_starting_with_token**, both values of `bIncludeComments` -/
theorem lineAboveLineStartingWithB_sliceExact (uid : α → Option Key) (f : List α) (cs : List Cls) (b : Bool)
    (r : List (Toi α)) (h : lineAboveLineStartingWithB f (processTokens uid f) cs b = .ok r) : ∀ t ∈ r, t.Exact f := by
  intro t ht
  unfold lineAboveLineStartingWithB at h
  split at h
  · simp only [bind_ok] at h
    obtain ⟨ls, _, h⟩ := h
    obtain ⟨l, _, hb⟩ := mem_mapE _ _ _ h t ht
    exact linePrecedingSkip_sliceExact uid f l t hb
  · exact C18.lineAboveLineStartingWith_sliceExact uid f cs r h t ht

/-- **get_line_above_line_starting_with_token_with_hierarchy** -/
theorem lineAboveLineStartingWithHier_sliceExact (uid : α → Option Key) (f : List α) (hier : Nat → Option Int)
    (cs : List Cls) (lims : List Int) (b : Bool) (r : List (Toi α))
    (h : lineAboveLineStartingWithHier f (processTokens uid f) hier cs lims b = .ok r) : ∀ t ∈ r, t.Exact f := by
  intro t ht
  unfold lineAboveLineStartingWithHier at h
  simp only [bind_ok] at h
  obtain ⟨ls, _, h⟩ := h
  obtain ⟨l, _, hb⟩ := mem_mapE _ _ _ h t ht
  exact linePrecedingB_sliceExact uid f l b t hb

theorem crAfter_lt (uid : α → Option Key) (f : List α) (i : Int) (s : Nat)
    (h : (processTokens uid f).crAfter i = .ok s) : s < f.length := by
  unfold Index.crAfter at h
  simp only [bind_ok] at h
  obtain ⟨c, hc, h⟩ := h
  have hget : (processTokens uid f).get (some crKey) = c := by
    unfold Index.crs at hc
    unfold Index.get Map.get
    split at hc
    · rename_i l hl
      cases hc
      simp [hl]
    · cases hc
  split at h
  · rename_i x hx
    simp only [pure_ok] at h
    subst h
    exact fresh_get_lt uid f (some crKey) x (by rw [hget]; exact List.mem_of_getElem? hx)
  · simp [throw, throwThe, MonadExceptOf.throw] at h

/-- **get_blank_lines_above_line_starting_with_token** (`utils.get_all_blank_lines_above_indexes`): a slice
    that starts ON a line break -/
theorem blankLinesAboveLineStartingWith_sliceExact (uid : α → Option Key) (f : List α) (cs : List Cls) (r : List (Toi α))
    (h : blankLinesAboveLineStartingWith f (processTokens uid f) cs = .ok r) : ∀ t ∈ r, t.Exact f := by
  intro t ht
  unfold blankLinesAboveLineStartingWith at h
  obtain ⟨i, _, hb⟩ := mem_filterMapE _ _ _ h t ht
  unfold blankAboveBody at hb
  simp only [bind_ok] at hb
  obtain ⟨line, _, e?, _, hb⟩ := hb
  split at hb
  · cases hb
  · rename_i e _
    split at hb
    · simp [pure, Except.pure] at hb
    · rename_i p hp
      simp only [bind_ok] at hb
      obtain ⟨s, hs, hb⟩ := hb
      have hlt := crAfter_lt uid f _ s hs
      split at hb
      · simp only [pure_ok, Option.some.injEq] at hb
        subst hb
        exact exact_of_slice f _ (s : Int) e rfl (by omega) (by omega) rfl
      · simp [pure, Except.pure] at hb

/-! ### (ii) the fix of one region -/

open Vsgm.Base.BlankLine

theorem remove_ne_insert : (sRemove == sInsert) = false := by decide
theorem skip_ne_insert : (sSkip == sInsert) = false := by decide
theorem skip_ne_remove : (sSkip == sRemove) = false := by decide

theorem insertToken_zero_cons {β : Type} (x : β) (xs : List β) (c : β) :
    Base.insertToken (x :: xs) 0 c = .ok (c :: x :: xs) := by
  unfold Base.insertToken Base.pyInsert
  have h : min (0 : Int) (((x :: xs).length : Nat) : Int) = 0 := Int.min_eq_left (by omega)
  simp only [h]
  simp

theorem belowFixV_insert_cons (crCls blCls : Nat) (x : Tok) (xs : List Tok) :
    belowFixV crCls blCls sInsert (x :: xs) = .ok (blankTok blCls :: crTok crCls :: x :: xs) := by
  simp [belowFixV, insertToken_zero_cons, bind, Except.bind]

/-- family `below`, "Insert", non-empty region: `[blank_line, carriage_return] ++ region` -/
theorem fixTok_below_insert (P : Params) (v : Viol) (hf : P.family = .below) (ha : v.act = Act.insert.code)
    (hne : v.toks ≠ []) : fixTok P v = blankTok P.blCls :: crTok P.crCls :: v.toks := by
  unfold fixTok fixE
  rw [hf, ha]
  cases ht : v.toks with
  | nil => exact absurd ht hne
  | cons x xs => simp [Act.ofCode, Act.code, Act.str, belowFixV_insert_cons]

/-- family `below`, "Insert", EMPTY region (two adjacent line breaks): `insert_token` raises IndexError -/
theorem fixE_below_insert_empty (P : Params) (v : Viol) (hf : P.family = .below) (ha : v.act = Act.insert.code)
    (he : v.toks = []) : fixE P v = .error .indexError := by
  unfold fixE
  rw [hf, ha, he]
  simp [Act.ofCode, Act.code, Act.str, belowFixV, Base.insertToken, bind, Except.bind]

/-- families `above` / `previous`, "Insert": `region ++ [carriage_return, blank_line]` -/
theorem fixTok_above_insert (P : Params) (v : Viol) (hf : P.family ≠ .below) (ha : v.act = Act.insert.code) :
    fixTok P v = v.toks ++ [crTok P.crCls, blankTok P.blCls] := by
  unfold fixTok fixE
  rw [ha]
  cases hfam : P.family with
  | below => exact absurd hfam hf
  | above => simp [Act.ofCode, Act.code, Act.str, aboveFixV, pure, Except.pure]
  | previous => simp [Act.ofCode, Act.code, Act.str, aboveFixV, pure, Except.pure]

/-- "Remove": nothing of the region is left -/
theorem fixTok_remove (P : Params) (v : Viol) (ha : v.act = Act.remove.code) : fixTok P v = [] := by
  unfold fixTok fixE
  rw [ha]
  cases P.family <;>
    simp [Act.ofCode, Act.code, Act.str, belowFixV, aboveFixV, remove_ne_insert, pure, Except.pure]

/-- "Skip" (require_comment without a comment): the region is left as it is -/
theorem fixTok_skip (P : Params) (v : Viol) (ha : v.act = Act.skip.code) : fixTok P v = v.toks := by
  unfold fixTok fixE
  rw [ha]
  cases P.family <;>
    simp [Act.ofCode, Act.code, Act.str, belowFixV, aboveFixV, skip_ne_insert, skip_ne_remove, pure, Except.pure]

/-- the three actions are the only ones `_analyze` produces -/
theorem act_cases (a : Act) : a.code = 0 ∨ a.code = 1 ∨ a.code = 2 := by cases a <;> simp [Act.code]

/-- **layout-only, Insert / Skip**: unconditional (an empty region of family `below` is left alone by the model;
    the real rule raises, `fixE_below_insert_empty`) -/
theorem fixTok_layoutOnly_insert (P : Params) (v : Viol) (ha : v.act = Act.insert.code) : LayoutOnly v.toks (fixTok P v) := by
  by_cases hf : P.family = .below
  · by_cases hne : v.toks = []
    · have : fixTok P v = v.toks := by
        unfold fixTok; rw [fixE_below_insert_empty P v hf ha hne]
      rw [this]; rfl
    · rw [fixTok_below_insert P v hf ha hne]; exact layoutOnly_insert_front _ _ _
  · rw [fixTok_above_insert P v hf ha]; exact layoutOnly_insert_back _ _ _

theorem fixTok_layoutOnly_skip (P : Params) (v : Viol) (ha : v.act = Act.skip.code) : LayoutOnly v.toks (fixTok P v) := by
  rw [fixTok_skip P v ha]; rfl

/-- **layout-only, Remove**: exactly when the region holds layout tokens only (for the real extractors: when
    every blank_line token is directly followed by its line break — a lexer invariant, not a property of
    arbitrary token lists) -/
theorem fixTok_layoutOnly_remove (P : Params) (v : Viol) (ha : v.act = Act.remove.code) :
    LayoutOnly v.toks (fixTok P v) ↔ nonLayout v.toks = [] := by
  rw [fixTok_remove P v ha]; unfold LayoutOnly; simp [nonLayout]

theorem crSeq_cons_cr (c : Nat) (l : List Tok) : crSeq (crTok c :: l) = () :: crSeq l := by
  simp [crSeq, crTok, Tok.isCr]
theorem crSeq_cons_blank (c : Nat) (l : List Tok) : crSeq (blankTok c :: l) = crSeq l := by
  simp [crSeq, blankTok, Tok.isCr]

/-- **line count, Insert**: exactly one line break more (non-empty region for family `below`) -/
theorem fixTok_crCount_insert (P : Params) (v : Viol) (ha : v.act = Act.insert.code)
    (hne : P.family = .below → v.toks ≠ []) : (crSeq (fixTok P v)).length = (crSeq v.toks).length + 1 := by
  by_cases hf : P.family = .below
  · rw [fixTok_below_insert P v hf ha (hne hf), crSeq_cons_blank, crSeq_cons_cr]; simp
  · rw [fixTok_above_insert P v hf ha, crSeq_append, crSeq_cons_cr, crSeq_cons_blank]; simp [crSeq]

/-- **line count, Remove**: minus the line breaks of the region; **Skip**: unchanged -/
theorem fixTok_crCount_remove (P : Params) (v : Viol) (ha : v.act = Act.remove.code) :
    (crSeq (fixTok P v)).length + (crSeq v.toks).length = (crSeq v.toks).length := by
  rw [fixTok_remove P v ha]; simp [crSeq]

theorem fixTok_crCount_skip (P : Params) (v : Viol) (ha : v.act = Act.skip.code) :
    (crSeq (fixTok P v)).length = (crSeq v.toks).length := by
  rw [fixTok_skip P v ha]


/-! ### (i) region-level idempotence -/

/-- what `vhdlFile.update` makes of ONE region that is a slice of the file (no pseudo tokens involved) -/
theorem splice_region (f : List Tok) (S : RuleSem) (v : Viol) (hb : dropBof v.toks = v.toks)
    (hn : dropBof (S.fixV v) = S.fixV v) :
    splice f (editOf S v) = f.take v.start ++ S.fixV v ++ f.drop (v.start + v.toks.length) := by
  unfold splice editOf Viol.stop
  simp [hb, hn]

/-- **family `below`, Insert, re-read**: in the fixed file the line that starts where the region started is the
    single blank_line token, then a line break, then the old file from the region's start — so the line below
    the trigger line is now `[blank_line]` and the region's old tokens moved one line down -/
theorem below_insert_reread (f : List Tok) (P : Params) (v : Viol) (hf : P.family = .below)
    (ha : v.act = Act.insert.code) (hne : v.toks ≠ []) (hs : v.start + v.toks.length ≤ f.length)
    (hx : v.toks = (f.drop v.start).take v.toks.length) :
    (f.take v.start ++ fixTok P v ++ f.drop (v.start + v.toks.length)).drop v.start =
      blankTok P.blCls :: crTok P.crCls :: f.drop v.start := by
  rw [fixTok_below_insert P v hf ha hne]
  have hl : (f.take v.start).length = v.start := by simp; omega
  rw [List.append_assoc, List.drop_left' hl]
  have : v.toks ++ f.drop (v.start + v.toks.length) = f.drop v.start := by
    obtain ⟨n, hn⟩ : ∃ n, n = v.toks.length := ⟨_, rfl⟩
    rw [← hn] at hx ⊢
    rw [hx, ← List.drop_drop, List.take_append_drop]
  simp [this]

/-- **families `above` / `previous`, Insert, re-read**: the fixed file is the old file up to the end of the
    region, then a line break and the single blank_line token, then the old file (which goes on with the line
    break in front of the trigger line) — so the line above the trigger line is now `[blank_line]` -/
theorem above_insert_reread (f : List Tok) (P : Params) (v : Viol) (hf : P.family ≠ .below)
    (ha : v.act = Act.insert.code) (hs : v.start + v.toks.length ≤ f.length)
    (hx : v.toks = (f.drop v.start).take v.toks.length) :
    f.take v.start ++ fixTok P v ++ f.drop (v.start + v.toks.length) =
      f.take (v.start + v.toks.length) ++ crTok P.crCls :: blankTok P.blCls :: f.drop (v.start + v.toks.length) := by
  rw [fixTok_above_insert P v hf ha]
  have : f.take (v.start + v.toks.length) = f.take v.start ++ v.toks := by
    obtain ⟨n, hn⟩ : ∃ n, n = v.toks.length := ⟨_, rfl⟩
    rw [← hn] at hx ⊢
    rw [hx, List.take_add]
  rw [this]; simp

/-- **Remove, re-read**: the region is gone, everything else is in place -/
theorem remove_reread (f : List Tok) (P : Params) (v : Viol) (ha : v.act = Act.remove.code) :
    f.take v.start ++ fixTok P v ++ f.drop (v.start + v.toks.length) = f.take v.start ++ f.drop (v.start + v.toks.length) := by
  rw [fixTok_remove P v ha]; simp

theorem ne_sRequire_sNoBlank : (sRequire == sNoBlank) = false := by decide
theorem ne_sRequire_sUnlessPragma : (sRequire == sUnlessPragma) = false := by decide
theorem ne_sRequire_sNoCode : (sRequire == sNoCode) = false := by decide
theorem ne_sRequire_sAllowComment : (sRequire == sAllowComment) = false := by decide
theorem ne_sRequire_sRequireComment : (sRequire == sRequireComment) = false := by decide
theorem ne_sNoBlank_sRequire : (sNoBlank == sRequire) = false := by decide
theorem ne_sNoBlank_sUnlessPragma : (sNoBlank == sUnlessPragma) = false := by decide
theorem ne_sNoBlank_sNoCode : (sNoBlank == sNoCode) = false := by decide
theorem ne_sNoBlank_sAllowComment : (sNoBlank == sAllowComment) = false := by decide
theorem ne_sNoBlank_sRequireComment : (sNoBlank == sRequireComment) = false := by decide
theorem ne_sUnlessPragma_sRequire : (sUnlessPragma == sRequire) = false := by decide
theorem ne_sUnlessPragma_sNoBlank : (sUnlessPragma == sNoBlank) = false := by decide
theorem ne_sUnlessPragma_sNoCode : (sUnlessPragma == sNoCode) = false := by decide
theorem ne_sUnlessPragma_sAllowComment : (sUnlessPragma == sAllowComment) = false := by decide
theorem ne_sUnlessPragma_sRequireComment : (sUnlessPragma == sRequireComment) = false := by decide
theorem ne_sNoCode_sRequire : (sNoCode == sRequire) = false := by decide
theorem ne_sNoCode_sNoBlank : (sNoCode == sNoBlank) = false := by decide
theorem ne_sNoCode_sUnlessPragma : (sNoCode == sUnlessPragma) = false := by decide
theorem ne_sNoCode_sAllowComment : (sNoCode == sAllowComment) = false := by decide
theorem ne_sNoCode_sRequireComment : (sNoCode == sRequireComment) = false := by decide
theorem ne_sAllowComment_sRequire : (sAllowComment == sRequire) = false := by decide
theorem ne_sAllowComment_sNoBlank : (sAllowComment == sNoBlank) = false := by decide
theorem ne_sAllowComment_sUnlessPragma : (sAllowComment == sUnlessPragma) = false := by decide
theorem ne_sAllowComment_sNoCode : (sAllowComment == sNoCode) = false := by decide
theorem ne_sAllowComment_sRequireComment : (sAllowComment == sRequireComment) = false := by decide
theorem ne_sRequireComment_sRequire : (sRequireComment == sRequire) = false := by decide
theorem ne_sRequireComment_sNoBlank : (sRequireComment == sNoBlank) = false := by decide
theorem ne_sRequireComment_sUnlessPragma : (sRequireComment == sUnlessPragma) = false := by decide
theorem ne_sRequireComment_sNoCode : (sRequireComment == sNoCode) = false := by decide
theorem ne_sRequireComment_sAllowComment : (sRequireComment == sAllowComment) = false := by decide

/-- **the line read again is judged clean**: a region that is the single blank_line token the fix created gives
    no violation under every style that can ask for an "Insert" (require_blank_line, …_unless_pragma, no_code,
    allow_comment), in all three families -/
theorem judge_blank_clean (inst : Tok → Nat → Bool) (P : Params) (t : Toi Tok)
    (ht : t.toks = [blankTok P.blCls]) (hi : inst (blankTok P.blCls) P.blCls = true)
    (hs : P.style = sRequire ∨ P.style = sUnlessPragma ∨ P.style = sNoCode ∨ P.style = sAllowComment) :
    judge inst P (.one (some t)) = .ok none := by
  rcases hs with h | h | h | h <;> cases hf : P.family <;>
    simp [judge, h, hf, judgeRequire, judgeNoCode, cleanRequire, cleanNoCode, ht, hi, pure, Except.pure, ne_sRequire_sNoBlank, ne_sRequire_sUnlessPragma, ne_sRequire_sNoCode, ne_sRequire_sAllowComment, ne_sRequire_sRequireComment, ne_sNoBlank_sRequire, ne_sNoBlank_sUnlessPragma, ne_sNoBlank_sNoCode, ne_sNoBlank_sAllowComment, ne_sNoBlank_sRequireComment, ne_sUnlessPragma_sRequire, ne_sUnlessPragma_sNoBlank, ne_sUnlessPragma_sNoCode, ne_sUnlessPragma_sAllowComment, ne_sUnlessPragma_sRequireComment, ne_sNoCode_sRequire, ne_sNoCode_sNoBlank, ne_sNoCode_sUnlessPragma, ne_sNoCode_sAllowComment, ne_sNoCode_sRequireComment, ne_sAllowComment_sRequire, ne_sAllowComment_sNoBlank, ne_sAllowComment_sUnlessPragma, ne_sAllowComment_sNoCode, ne_sAllowComment_sRequireComment, ne_sRequireComment_sRequire, ne_sRequireComment_sNoBlank, ne_sRequireComment_sUnlessPragma, ne_sRequireComment_sNoCode, ne_sRequireComment_sAllowComment]

/-- … and the second region of a `require_comment` pair (the line above the comment block) as well -/
theorem judgeRequireComment_blank_clean (inst : Tok → Nat → Bool) (P : Params) (a b : Toi Tok)
    (hc : commentStartsLine inst P a.toks = true) (ht : b.toks = [blankTok P.blCls])
    (hi : inst (blankTok P.blCls) P.blCls = true) :
    judgeRequireComment inst P (.pair a b) = .ok none := by
  unfold judgeRequireComment
  by_cases h1 : isAllowed inst P.allow a.toks = true
  · simp [h1, pure, Except.pure]
  · by_cases h2 : isAllowed inst P.allow b.toks = true
    · simp [h1, hc, h2, pure, Except.pure]
    · simp [h1, hc, h2, ht, hi, pure, Except.pure]

/-- non-vacuity: the blank_line token of the generated class table is an instance of its own class, and the
    judgement of a line holding code is NOT clean -/
example : judge (fun t p => t.cls == p)
    { family := .below, cs := [], allow := [], style := sRequire, crCls := 5, blCls := 4, wsCls := 51, commentCls := 13, pragmaCls := 534 }
    (.one (some { start := some 3, line := 2, toks := [{ cls := 9, kind := .code, val := ['x'] }] })) =
    .ok (some ({ line := 1, start := 3, toks := [{ cls := 9, kind := .code, val := ['x'] }], act := 0 }, solBelowInsert)) := by
  decide

end Vsgm.BFull2.VSpace
