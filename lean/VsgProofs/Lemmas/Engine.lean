import VsgModel.Engine.RuleRun
namespace Vsgm.Lemmas
open Vsgm

theorem mem_enforcePrereq {rs : List Rule} {r : Rule} (h : r ∈ enforcePrereq rs) : r ∈ rs := by
  unfold enforcePrereq at h
  simp only [List.mem_append, List.mem_filter] at h
  rcases h with h | h <;> exact h.1

theorem mem_subphaseRules {rs : List Rule} {p s : Nat} {r : Rule} (h : r ∈ subphaseRules rs p s) :
    r ∈ rs ∧ r.1.phase = (p : Int) ∧ r.1.subphase = (s : Int) ∧ r.1.disabled = false := by
  have h := mem_enforcePrereq h
  simp only [List.mem_filter, beq_iff_eq, Bool.not_eq_true'] at h
  exact ⟨h.1.1.1, h.1.1.2, h.1.2, h.2⟩

theorem schedule_sound (rs : List Rule) (fixPhase : Nat) (skip : List Nat) (r : Rule)
    (h : some r ∈ schedule rs fixPhase skip) :
    r ∈ rs ∧ r.1.disabled = false ∧ (1 : Int) ≤ r.1.phase ∧ r.1.phase ≤ (fixPhase : Int) ∧
      (∀ p ∈ skip, (p : Int) ≠ r.1.phase) ∧ (0 : Int) ≤ r.1.subphase ∧ r.1.subphase ≤ 5 := by
  unfold schedule at h
  simp only [List.mem_flatMap, List.mem_range] at h
  obtain ⟨i, hi, h⟩ := h
  by_cases hs : (i + 1) ∈ skip
  · simp [hs] at h
  · simp only [hs, if_false, List.mem_append, List.mem_map] at h
    rcases h with ⟨r', hr', heq⟩ | h
    · cases heq
      unfold phaseRulesFix at hr'
      simp only [List.mem_flatMap, List.mem_range] at hr'
      obtain ⟨s, hs6, hr'⟩ := hr'
      obtain ⟨h1, h2, h3, h4⟩ := mem_subphaseRules hr'
      refine ⟨h1, h4, ?_, ?_, ?_, ?_, ?_⟩
      · rw [h2]; omega
      · rw [h2]; omega
      · intro p hp hpe
        rw [h2] at hpe
        have : p = i + 1 := by omega
        exact hs (this ▸ hp)
      · rw [h3]; omega
      · rw [h3]; omega
    · split at h <;> simp at h

theorem fixRun_invariant (P : List Tok → Prop) (rs : List Rule) (fixPhase : Nat) (skip : List Nat)
    (fo : Option FixOnly) (post : List Tok → List Tok) (f : List Tok) (h0 : P f)
    (hr : ∀ r, some r ∈ schedule rs fixPhase skip → r.1.sevError = true → r.1.fixable = true →
      ∀ g, P g → P (ruleFix r.1 r.2 fo g).1)
    (hp : ∀ g, P g → P (post g)) : P (fixRun rs fixPhase skip fo post f).1 := by
  unfold fixRun
  generalize hsch : schedule rs fixPhase skip = sch at hr
  have : ∀ (l : List (Option Rule)) (st : List Tok × Bool), (∀ o ∈ l, o ∈ sch) → P st.1 →
      P (l.foldl (stepOpt fo post) st).1 := by
    intro l
    induction l with
    | nil => intro st _ h; exact h
    | cons o l ih =>
      intro st hmem hst
      simp only [List.foldl_cons]
      apply ih
      · intro o' ho'; exact hmem o' (List.mem_cons_of_mem _ ho')
      · cases o with
        | none => exact hp _ hst
        | some r =>
          have hin : some r ∈ sch := hmem _ (List.mem_cons_self ..)
          show P (stepRule fo st r).1
          unfold stepRule
          by_cases hse : r.1.sevError = true
          · simp only [hse, if_true]
            by_cases hfx : r.1.fixable = true
            · exact hr r hin hse hfx _ hst
            · have hfx' : r.1.fixable = false := by simpa using hfx
              simp [ruleFix, hfx']; exact hst
          · have : r.1.sevError = false := by simpa using hse
            simp [this]; exact hst
  exact this sch (f, false) (fun o h => h) h0

theorem fixRun_inert (rs : List Rule) (fixPhase : Nat) (skip : List Nat) (fo : Option FixOnly)
    (post : List Tok → List Tok) (f : List Tok)
    (hin : ∀ r ∈ rs, r.1.disabled = true ∨ r.1.fixable = false ∨ r.1.sevError = false)
    (hp : post f = f) : fixRun rs fixPhase skip fo post f = (f, false) := by
  unfold fixRun
  have key : ∀ (l : List (Option Rule)), (∀ r, some r ∈ l → some r ∈ schedule rs fixPhase skip) →
      l.foldl (stepOpt fo post) (f, false) = (f, false) := by
    intro l
    induction l with
    | nil => intro _; rfl
    | cons o l ih =>
      intro hmem
      simp only [List.foldl_cons]
      have hstep : stepOpt fo post (f, false) o = (f, false) := by
        cases o with
        | none => simp [stepOpt, hp]
        | some r =>
          have hs := schedule_sound rs fixPhase skip r (hmem r (List.mem_cons_self ..))
          rcases hin r hs.1 with h | h | h
          · rw [hs.2.1] at h; cases h
          · simp [stepOpt, stepRule, ruleFix, h]
          · simp [stepOpt, stepRule, h]
      rw [hstep]
      exact ih (fun r hr => hmem r (List.mem_cons_of_mem _ hr))
  exact key _ (fun r h => h)

end Vsgm.Lemmas
