/-
  Layer P: the link between a table and the same table with some functions made opaque (`maskNames`).

  `Ref m' m`: whenever `m'` does not end in `Err.unmodelled`, `m` returns exactly what `m'` returns (result and
  state).  `unmodelled` is never caught (`findHandler` only knows TypeError / IndexError / ClassifyError), so it
  propagates to the top: a run of the MASKED table that does not end in `unmodelled` has never called a masked
  function and is, step by step, the run of the FULL table.  One induction on the fuel (`link_run`).
-/
import VsgModel.Prog.Check
import VsgModel.Prog.Eval
namespace Vsgm.Prog
open Vsgm Vsgm.Classify

def Ref (m' m : M α) : Prop := ∀ st, (m' st).1 ≠ .error .unmodelled → m st = m' st

theorem ref_refl (m : M α) : Ref m m := fun _ _ => rfl

theorem ref_bind {m' m : M α} {f' f : α → M β} (hm : Ref m' m) (hf : ∀ a, Ref (f' a) (f a)) :
    Ref (m' >>= f') (m >>= f) := by
  intro st h
  show M.bind m f st = M.bind m' f' st
  have h' : (M.bind m' f' st).1 ≠ .error .unmodelled := h
  unfold M.bind at h' ⊢
  cases hx : m' st with
  | mk res st1 =>
    rw [hx] at h'
    cases res with
    | ok a =>
      simp only at h'
      have := hm st (by rw [hx]; simp)
      rw [this, hx]
      exact hf a st1 h'
    | error e =>
      simp only at h'
      have := hm st (by rw [hx]; simpa using h')
      rw [this, hx]

theorem ref_ite {c : Prop} [Decidable c] {a' a b' b : M α} (ha : Ref a' a) (hb : Ref b' b) :
    Ref (if c then a' else b') (if c then a else b) := by
  split <;> assumption

structure RecRef (R' R : Rec) : Prop where
  expr : ∀ e, Ref (R'.expr e) (R.expr e)
  stmt : ∀ s, Ref (R'.stmt s) (R.stmt s)
  call : ∀ f args, Ref (R'.call f args) (R.call f args)

section
variable {R' R : Rec}

theorem ref_evalArgs (hR : RecRef R' R) : ∀ es, Ref (evalArgs R' es) (evalArgs R es)
  | [] => ref_refl _
  | e :: es => by
    intro st h
    unfold evalArgs at h ⊢
    cases hx : R'.expr e st with
    | mk res st1 =>
      rw [hx] at h
      cases res with
      | error x =>
        simp only at h
        rw [hR.expr e st (by rw [hx]; simpa using h), hx]
      | ok v =>
        simp only at h
        rw [hR.expr e st (by rw [hx]; simp), hx]
        simp only
        cases hy : evalArgs R' es st1 with
        | mk res2 st2 =>
          rw [hy] at h
          cases res2 with
          | error x =>
            simp only at h
            rw [ref_evalArgs hR es st1 (by rw [hy]; simpa using h), hy]
          | ok vs =>
            rw [ref_evalArgs hR es st1 (by rw [hy]; simp), hy]

theorem ref_evalOpt (hR : RecRef R' R) (o : Option Expr) : Ref (evalOpt R' o) (evalOpt R o) := by
  cases o with
  | none => exact ref_refl _
  | some e => simp only [evalOpt]; exact ref_bind (hR.expr e) fun _ => ref_refl _

theorem ref_applyVal (S : Sys) (hR : RecRef R' R) (f : Val) (args : List Val) :
    Ref (applyVal S R' f args) (applyVal S R f args) := by
  unfold applyVal
  split
  · exact ref_refl _
  · exact hR.call _ _
  · exact ref_refl _
  · exact ref_refl _

macro "ref_tac" : tactic =>
  `(tactic| repeat (first
    | exact ref_refl _
    | assumption
    | (refine ref_bind ?_ (fun _ => ?_))
    | (apply ref_ite)
    | split))

theorem ref_stepExpr (S : Sys) (hR : RecRef R' R) (e : Expr) : Ref (stepExpr S R' e) (stepExpr S R e) := by
  have hE := hR.expr
  have hA := ref_evalArgs hR
  have hO := ref_evalOpt hR
  cases e with
  | call f args =>
    simp only [stepExpr]
    exact ref_bind (hE f) fun _ => ref_bind (hA args) fun _ => ref_applyVal S hR _ _
  | callF f args =>
    simp only [stepExpr]
    exact ref_bind (hA args) fun _ => hR.call _ _
  | and a b =>
    simp only [stepExpr]
    refine ref_bind (hE a) fun _ => ref_bind (ref_refl _) fun t => ?_
    split
    · exact hE b
    · exact ref_refl _
  | or a b =>
    simp only [stepExpr]
    refine ref_bind (hE a) fun _ => ref_bind (ref_refl _) fun t => ?_
    split
    · exact ref_refl _
    · exact hE b
  | slice l lo hi =>
    simp only [stepExpr]
    exact ref_bind (hE l) fun _ => ref_bind (hO lo) fun _ => ref_bind (hO hi) fun _ => ref_refl _
  | list es => simp only [stepExpr]; exact ref_bind (hA es) fun _ => ref_refl _
  | tuple es => simp only [stepExpr]; exact ref_bind (hA es) fun _ => ref_refl _
  | prim p args => simp only [stepExpr]; exact ref_bind (hA args) fun _ => ref_refl _
  | fstr ps => simp only [stepExpr]; exact ref_bind (hA ps) fun _ => ref_refl _
  | binop op a b => simp only [stepExpr]; exact ref_bind (hE a) fun _ => ref_bind (hE b) fun _ => ref_refl _
  | cmp op a b => simp only [stepExpr]; exact ref_bind (hE a) fun _ => ref_bind (hE b) fun _ => ref_refl _
  | index a b => simp only [stepExpr]; exact ref_bind (hE a) fun _ => ref_bind (hE b) fun _ => ref_refl _
  | neg a => simp only [stepExpr]; exact ref_bind (hE a) fun _ => ref_refl _
  | not a => simp only [stepExpr]; exact ref_bind (hE a) fun _ => ref_refl _
  | attr a n => simp only [stepExpr]; exact ref_bind (hE a) fun _ => ref_refl _
  | _ => exact ref_refl _

theorem ref_execBlock (hR : RecRef R' R) : ∀ ss, Ref (execBlock R' ss) (execBlock R ss)
  | [] => ref_refl _
  | s :: ss => by
    intro st h
    unfold execBlock at h ⊢
    cases hx : R'.stmt s st with
    | mk res st1 =>
      rw [hx] at h
      have hne : res ≠ .error .unmodelled := by
        intro e; subst e; simp at h
      rw [hR.stmt s st (by rw [hx]; exact hne), hx]
      cases res with
      | error x => rfl
      | ok f =>
        cases f with
        | normal => simp only at h ⊢; exact ref_execBlock hR ss st1 h
        | _ => rfl

theorem ref_assignSimple (hR : RecRef R' R) (t : Target) (v : Val) : Ref (assignSimple R' t v) (assignSimple R t v) := by
  cases t with
  | index l i => simp only [assignSimple]; exact ref_bind (hR.expr l) fun _ => ref_bind (hR.expr i) fun _ => ref_refl _
  | _ => exact ref_refl _

theorem ref_assignMany (hR : RecRef R' R) : ∀ (ts : List Target) (vs : List Val), Ref (assignMany R' ts vs) (assignMany R ts vs)
  | [], [] => ref_refl _
  | [], _ :: _ => ref_refl _
  | _ :: _, [] => ref_refl _
  | t :: ts, v :: vs => by
    simp only [assignMany]
    exact ref_bind (ref_assignSimple hR t v) fun _ => ref_assignMany hR ts vs

theorem ref_assignTarget (hR : RecRef R' R) (t : Target) (v : Val) : Ref (assignTarget R' t v) (assignTarget R t v) := by
  cases t with
  | tuple ts =>
    simp only [assignTarget]
    split
    · exact ref_assignMany hR _ _
    · exact ref_bind (ref_refl _) fun _ => ref_assignMany hR _ _
    · exact ref_refl _
    · exact ref_refl _
  | var x => exact ref_assignSimple hR _ _
  | index l i => exact ref_assignSimple hR _ _

theorem ref_mkIter (hR : RecRef R' R) (it : IterE) : Ref (mkIter R' it) (mkIter R it) := by
  cases it with
  | range args => simp only [mkIter]; exact ref_bind (ref_evalArgs hR args) fun _ => ref_refl _
  | enumFrom l s => simp only [mkIter]; exact ref_bind (hR.expr l) fun _ => ref_bind (hR.expr s) fun _ => ref_refl _
  | enumerate e => simp only [mkIter]; exact ref_bind (hR.expr e) fun _ => ref_refl _
  | plain e => simp only [mkIter]; exact ref_bind (hR.expr e) fun _ => ref_refl _

theorem ref_whileLoop (hR : RecRef R' R) (ms : Nat) (c : Expr) (body : List Stmt) :
    ∀ k, Ref (whileLoop ms R' c body k) (whileLoop ms R c body k)
  | 0 => ref_refl _
  | k + 1 => by
    intro st h
    unfold whileLoop at h ⊢
    split
    · rfl
    · rename_i hms
      simp only [hms, if_false] at h
      cases hx : R'.expr c { st with steps := st.steps + 1 } with
      | mk res st1 =>
        rw [hx] at h
        have hne : res ≠ .error .unmodelled := by
          intro e; subst e; simp at h
        rw [hR.expr c _ (by rw [hx]; exact hne), hx]
        cases res with
        | error e => rfl
        | ok v =>
          simp only at h ⊢
          cases hy : truthy v st1 with
          | mk res2 st2 =>
            rw [hy] at h
            cases res2 with
            | error e => rfl
            | ok b =>
              cases b with
              | false => rfl
              | true =>
                simp only at h ⊢
                cases hz : execBlock R' body st2 with
                | mk res3 st3 =>
                  rw [hz] at h
                  have hne3 : res3 ≠ .error .unmodelled := by
                    intro e; subst e; simp at h
                  rw [ref_execBlock hR body st2 (by rw [hz]; exact hne3), hz]
                  cases res3 with
                  | error e => rfl
                  | ok f =>
                    cases f with
                    | brk => rfl
                    | ret v => rfl
                    | normal => simp only at h ⊢; exact ref_whileLoop hR ms c body k st3 h
                    | cont => simp only at h ⊢; exact ref_whileLoop hR ms c body k st3 h

theorem ref_forLoop (hR : RecRef R' R) (ms : Nat) (t : Target) (body orelse : List Stmt) :
    ∀ k it, Ref (forLoop ms R' t body orelse k it) (forLoop ms R t body orelse k it)
  | 0, _ => ref_refl _
  | k + 1, it => by
    intro st h
    unfold forLoop at h ⊢
    split
    · rfl
    · rename_i hms
      simp only [hms, if_false] at h
      split
      · rename_i hnext
        simp only [hnext] at h
        exact ref_execBlock hR orelse st h
      · rename_i v it' hnext
        simp only [hnext] at h
        cases hx : assignTarget R' t v { st with steps := st.steps + 1 } with
        | mk res st1 =>
          rw [hx] at h
          have hne : res ≠ .error .unmodelled := by
            intro e; subst e; simp at h
          rw [ref_assignTarget hR t v _ (by rw [hx]; exact hne), hx]
          cases res with
          | error e => rfl
          | ok u =>
            simp only at h ⊢
            cases hz : execBlock R' body st1 with
            | mk res3 st3 =>
              rw [hz] at h
              have hne3 : res3 ≠ .error .unmodelled := by
                intro e; subst e; simp at h
              rw [ref_execBlock hR body st1 (by rw [hz]; exact hne3), hz]
              cases res3 with
              | error e => rfl
              | ok f =>
                cases f with
                | brk => rfl
                | ret v => rfl
                | normal => simp only at h ⊢; exact ref_forLoop hR ms t body orelse k it' st3 h
                | cont => simp only at h ⊢; exact ref_forLoop hR ms t body orelse k it' st3 h

theorem matches_unmodelled (x : Exc) : x.matches .unmodelled = false := by cases x <;> rfl

theorem findHandler_unmodelled : ∀ hs : List (List Exc × List Stmt), findHandler .unmodelled hs = none
  | [] => rfl
  | (xs, b) :: hs => by
    have : xs.any (·.matches .unmodelled) = false := by
      induction xs with
      | nil => rfl
      | cons x xs ih => simp [List.any_cons, matches_unmodelled, ih]
    simp only [findHandler, this]
    exact findHandler_unmodelled hs

theorem ref_stepStmt (S : Sys) (hR : RecRef R' R) (n : Nat) (s : Stmt) : Ref (stepStmt S R' n s) (stepStmt S R n s) := by
  have hE := hR.expr
  cases s with
  | assign t e => simp only [stepStmt]; exact ref_bind (hE e) fun _ => ref_bind (ref_assignTarget hR t _) fun _ => ref_refl _
  | aug t op e =>
    simp only [stepStmt]
    split
    · exact ref_bind (ref_refl _) fun _ => ref_bind (hE e) fun _ => ref_refl _
    · exact ref_refl _
  | expr e => simp only [stepStmt]; exact ref_bind (hE e) fun _ => ref_refl _
  | ite c t e =>
    simp only [stepStmt]
    refine ref_bind (hE c) fun _ => ref_bind (ref_refl _) fun b => ?_
    split
    · exact ref_execBlock hR t
    · exact ref_execBlock hR e
  | «while» c b => simp only [stepStmt]; exact ref_whileLoop hR _ c b n
  | «for» t it b o => simp only [stepStmt]; exact ref_bind (ref_mkIter hR it) fun _ => ref_forLoop hR _ t b o n _
  | ret e => simp only [stepStmt]; exact ref_bind (hE e) fun _ => ref_refl _
  | «try» b hs =>
    intro st h
    simp only [stepStmt] at h ⊢
    cases hx : execBlock R' b st with
    | mk res st1 =>
      rw [hx] at h
      have hne : res ≠ .error .unmodelled := by
        intro e; subst e
        simp only [findHandler_unmodelled] at h
        exact h rfl
      rw [ref_execBlock hR b st (by rw [hx]; exact hne), hx]
      cases res with
      | ok f => rfl
      | error e =>
        simp only at h ⊢
        split
        · rename_i hb hfind
          simp only [hfind] at h
          exact ref_execBlock hR hb st1 h
        · rfl
  | raise e => simp only [stepStmt]; exact ref_bind (hE e) fun _ => ref_refl _
  | _ => exact ref_refl _

/-- `F'` is `S.funs` with some entries replaced by opaque ones -/
def Masked (S : Sys) (F' : Array FunDef) : Prop :=
  ∀ f : Nat, F'[f]? = S.funs[f]? ∨ ∃ fd' : FunDef, F'[f]? = some fd' ∧ fd'.isOpaque = true

theorem ref_stepCall (S : Sys) (F' : Array FunDef) (hM : Masked S F') (hR : RecRef R' R) (f : Nat) (args : List Val) :
    Ref (stepCall { S with funs := F' } R' f args) (stepCall S R f args) := by
  intro st h
  rcases hM f with heq | ⟨fd', hfd', hop⟩
  · unfold stepCall at h ⊢
    simp only [heq] at h ⊢
    split
    · rfl
    · rename_i fd hfd
      simp only [hfd] at h
      split
      · rfl
      · rename_i h1
        simp only [h1] at h
        split
        · rfl
        · rename_i h2
          simp only [h2] at h
          split
          · rfl
          · rename_i h3
            simp only [h3, if_false] at h
            split
            · rfl
            · rename_i h4
              simp only [h4, if_false] at h
              cases hx : evalArgs R' (fd.defaults.drop (args.length + fd.defaults.length - fd.nparams)) st with
              | mk res st1 =>
                rw [hx] at h
                have hne : res ≠ .error .unmodelled := by
                  intro e; subst e; simp at h
                rw [ref_evalArgs hR _ st (by rw [hx]; exact hne), hx]
                cases res with
                | error e => rfl
                | ok dv =>
                  simp only at h ⊢
                  cases hz : execBlock R' fd.body { st1 with frame := mkFrame fd.nlocals (args ++ dv), depth := st1.depth + 1, steps := st1.steps + 1, calls := st1.calls.modify f (· + 1) } with
                  | mk res3 st3 =>
                    rw [hz] at h
                    have hne3 : res3 ≠ .error .unmodelled := by
                      intro e; subst e; simp at h
                    rw [ref_execBlock hR fd.body _ (by rw [hz]; exact hne3), hz]
  · exfalso
    apply h
    unfold stepCall
    simp only [hfd', hop, if_true]

theorem stepExpr_funs (S : Sys) (F' : Array FunDef) (R : Rec) (e : Expr) :
    stepExpr { S with funs := F' } R e = stepExpr S R e := by
  cases e <;> rfl

theorem stepStmt_funs (S : Sys) (F' : Array FunDef) (R : Rec) (n : Nat) (s : Stmt) :
    stepStmt { S with funs := F' } R n s = stepStmt S R n s := by
  cases s <;> rfl

/-- the masked table refines the full table at every fuel -/
theorem link_run (S : Sys) (F' : Array FunDef) (hM : Masked S F') : ∀ n, RecRef (run { S with funs := F' } n) (run S n)
  | 0 => { expr := fun _ => ref_refl _, stmt := fun _ => ref_refl _, call := fun _ _ => ref_refl _ }
  | n + 1 =>
    have ih := link_run S F' hM n
    { expr := fun e => by
        show Ref (stepExpr { S with funs := F' } (run { S with funs := F' } n) e) (stepExpr S (run S n) e)
        rw [stepExpr_funs]; exact ref_stepExpr S ih e
      stmt := fun s => by
        show Ref (stepStmt { S with funs := F' } (run { S with funs := F' } n) n s) (stepStmt S (run S n) n s)
        rw [stepStmt_funs]; exact ref_stepStmt S ih n s
      call := fun f args => ref_stepCall S F' hM ih f args }

end

/-- **link**: a call on the MASKED table that does not end in `unmodelled` is the call on the FULL table — same
    result, same final state.  (A masked run ends in `unmodelled` as soon as a masked function is called: the set of
    runs covered is exactly the set of runs that avoid the masked functions, up to other `unmodelled` leaves.) -/
theorem call_link (S : Sys) (F' : Array FunDef) (hM : Masked S F') (n f : Nat) (args : List Val) (st : State)
    (h : ((run { S with funs := F' } n).call f args st).1 ≠ .error .unmodelled) :
    (run S n).call f args st = (run { S with funs := F' } n).call f args st :=
  (link_run S F' hM n).call f args st h

/-- `maskNames` produces a masked table -/
theorem masked_maskNames (S : Sys) (bad : List String) (tab : List (String × FunDef))
    (hS : S.funs = (tab.map (·.2)).toArray) : Masked S (maskNames bad tab).toArray := by
  intro f
  rw [hS]
  simp only [maskNames, List.getElem?_toArray, List.getElem?_map]
  cases tab[f]? with
  | none => left; rfl
  | some p =>
    simp only [Option.map_some]
    by_cases hb : bad.contains p.1 = true
    · right
      refine ⟨{ p.2 with body := [], defaults := [], isOpaque := true }, ?_, rfl⟩
      simp only [hb, if_true]
    · left; simp only [hb]; rfl

end Vsgm.Prog
