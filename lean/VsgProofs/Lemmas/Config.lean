/-
  Helper lemmas about the configuration model (Engine/Config.lean): dictionaries, the attribute
  assignment loops, `Rule.configure`, `rule_list.configure`, `get_configuration`.
-/
import VsgModel.Engine.Config
namespace Vsgm.Cfg.Lemmas
open Vsgm.Cfg

/-! ### dictionaries -/

theorem dget_dset_self {α : Type} (d : Dict α) (k : String) (v : α) : dget (dset d k v) k = some v := by
  induction d with
  | nil => simp [dset, dget]
  | cons p t ih =>
    obtain ⟨k', v'⟩ := p
    by_cases h : k' = k
    · simp [dset, dget, h]
    · simp [dset, dget, h, ih]

theorem dget_dset_ne {α : Type} (d : Dict α) (k k' : String) (v : α) (h : k ≠ k') :
    dget (dset d k v) k' = dget d k' := by
  induction d with
  | nil => simp [dset, dget, h]
  | cons p t ih =>
    obtain ⟨k0, v0⟩ := p
    by_cases h0 : k0 = k
    · subst h0; simp [dset, dget, h]
    · by_cases h1 : k0 = k'
      · subst h1; simp [dset, dget, h0]
      · simp [dset, dget, h0, h1, ih]

theorem dget_dset {α : Type} (d : Dict α) (k k' : String) (v : α) :
    dget (dset d k v) k' = if k = k' then some v else dget d k' := by
  by_cases h : k = k'
  · subst h; simp [dget_dset_self]
  · simp [h, dget_dset_ne d k k' v h]

theorem dhas_dset {α : Type} (d : Dict α) (k k' : String) (v : α) :
    dhas (dset d k v) k' = (decide (k = k') || dhas d k') := by
  unfold dhas
  rw [dget_dset]
  by_cases h : k = k' <;> simp [h]

theorem dlast_append {α : Type} (a b : Dict α) (k : String) :
    dlast (a ++ b) k = match dlast b k with
      | some w => some w
      | none => dlast a k := by
  induction a with
  | nil => simp [dlast]; cases dlast b k <;> rfl
  | cons p t ih =>
    obtain ⟨k', v⟩ := p
    simp only [List.cons_append, dlast, ih]
    cases dlast b k <;> simp

/-- keep the new value if there is one -/
def pick {α : Type} (new old : Option α) : Option α :=
  match new with
  | some v => some v
  | none => old

theorem pick_none {α : Type} (old : Option α) : pick none old = old := rfl
theorem pick_some {α : Type} (v : α) (old : Option α) : pick (some v) old = some v := rfl

theorem firstSome_append {α : Type} (l1 l2 : List (Option α)) (d : Option α) :
    pick (Spec.firstSome (l1 ++ l2)) d = pick (Spec.firstSome l1) (pick (Spec.firstSome l2) d) := by
  induction l1 with
  | nil => simp [Spec.firstSome, pick]
  | cons x t ih =>
    cases x with
    | none => simpa [Spec.firstSome] using ih
    | some v => simp [Spec.firstSome, pick]

/-! ### one assignment step -/

/-- what one iteration of an attribute loop does, for a guard `g` -/
structure StepSpec (g : RuleObj → String → Bool) (sevs : Option (List Sev))
    (r : RuleObj) (kv : String × Val) (r' : RuleObj) : Prop where
  id : r'.id = r.id
  groups : r'.groups = r.groups
  configuration : r'.configuration = r.configuration
  deprecated : r'.deprecated = r.deprecated
  dict : ∀ k, dget r'.dict k = if kv.1 = k ∧ kv.1 ≠ "severity" ∧ g r k = true then some kv.2 else dget r.dict k
  sev : r'.severity = if kv.1 = "severity" then
      (match sevs with
        | some sl => getSeverityNamed sl kv.2
        | none => r.severity) else r.severity
  sevOk : kv.1 = "severity" → sevs ≠ none

def gGlobal (r : RuleObj) (k : String) : Bool := decide (k ∈ r.configuration)
def gDict (r : RuleObj) (k : String) : Bool := dhas r.dict k

theorem assignGlobal_spec (sevs : Option (List Sev)) (r r' : RuleObj) (kv : String × Val)
    (h : assignGlobal sevs r kv = .ok r') : StepSpec gGlobal sevs r kv r' := by
  unfold assignGlobal at h
  by_cases hs : kv.1 = "severity"
  · simp only [hs, if_true] at h
    cases sevs with
    | none => simp [setSeverity] at h
    | some sl =>
      simp only [setSeverity] at h
      cases hg : getSeverityNamed sl kv.2 with
      | none => simp [hg] at h
      | some s =>
        simp only [hg, Except.ok.injEq] at h
        subst h
        constructor <;> simp [hs, hg]
  · simp only [hs, if_false] at h
    by_cases hc : kv.1 ∈ r.configuration
    · simp only [hc, if_true, Except.ok.injEq] at h
      subst h
      constructor <;> simp [hs, gGlobal]
      intro k
      rw [dget_dset]
      by_cases hk : kv.1 = k
      · subst hk; simp [hc]
      · simp [hk]
    · simp only [hc, if_false, Except.ok.injEq] at h
      subst h
      constructor <;> simp [hs, gGlobal]
      intro h'
      exact absurd h' hc

theorem assignDict_spec (sevs : Option (List Sev)) (r r' : RuleObj) (kv : String × Val)
    (h : assignDict sevs r kv = .ok r') : StepSpec gDict sevs r kv r' := by
  unfold assignDict at h
  by_cases hs : kv.1 = "severity"
  · simp only [hs, if_true] at h
    cases sevs with
    | none => simp [setSeverity] at h
    | some sl =>
      simp only [setSeverity] at h
      cases hg : getSeverityNamed sl kv.2 with
      | none => simp [hg] at h
      | some s =>
        simp only [hg, Except.ok.injEq] at h
        subst h
        constructor <;> simp [hs, hg]
  · simp only [hs, if_false] at h
    by_cases hc : dhas r.dict kv.1 = true
    · simp only [hc, if_true, Except.ok.injEq] at h
      subst h
      constructor <;> simp [hs, gDict]
      intro k
      rw [dget_dset]
      by_cases hk : kv.1 = k
      · subst hk; simp [hc]
      · simp [hk]
    · simp only [hc, Bool.false_eq_true, if_false, Except.ok.injEq] at h
      subst h
      constructor <;> simp [hs, gDict]
      intro h'
      exact absurd h' hc

theorem assignRule_spec (sevs : Option (List Sev)) (r r' : RuleObj) (kv : String × Val)
    (h : assignRule sevs r kv = .ok r') : StepSpec gDict sevs r kv r' := by
  unfold assignRule at h
  cases h1 : assignDict sevs r kv with
  | error e => simp [h1, Except.map] at h
  | ok r1 =>
    simp only [h1, Except.map, Except.ok.injEq] at h
    have s := assignDict_spec sevs r r1 kv h1
    subst h
    exact ⟨s.id, s.groups, s.configuration, s.deprecated, s.dict, s.sev, s.sevOk⟩

/-! ### a whole attribute loop -/

/-- the effect of `for a in attrs: …` with guard `g`, provided the guard's answers do not change while
    the loop runs -/
structure LoopSpec (g : RuleObj → String → Bool) (sevs : Option (List Sev))
    (r : RuleObj) (attrs : Attrs) (r' : RuleObj) : Prop where
  id : r'.id = r.id
  groups : r'.groups = r.groups
  configuration : r'.configuration = r.configuration
  deprecated : r'.deprecated = r.deprecated
  dict : ∀ k, dget r'.dict k = if k ≠ "severity" ∧ g r k = true then pick (dlast attrs k) (dget r.dict k) else dget r.dict k
  sev : r'.severity = match dlast attrs "severity", sevs with
    | some v, some sl => getSeverityNamed sl v
    | _, _ => r.severity
  sevOk : sevs = none → dlast attrs "severity" = none

theorem loop_spec (g : RuleObj → String → Bool) (sevs : Option (List Sev))
    (f : RuleObj → String × Val → Except Err RuleObj)
    (hf : ∀ r kv r', f r kv = .ok r' → StepSpec g sevs r kv r')
    (hg : ∀ r kv r', StepSpec g sevs r kv r' → ∀ k, g r' k = g r k)
    (attrs : Attrs) : ∀ (r r' : RuleObj), attrs.foldlM f r = .ok r' → LoopSpec g sevs r attrs r' := by
  induction attrs with
  | nil =>
    intro r r' h
    simp only [List.foldlM_nil, pure, Except.pure, Except.ok.injEq] at h
    subst h
    constructor <;> simp [dlast, pick]
  | cons kv t ih =>
    intro r r' h
    simp only [List.foldlM_cons, bind, Except.bind] at h
    cases h1 : f r kv with
    | error e => simp [h1] at h
    | ok r1 =>
      simp only [h1] at h
      have s1 := hf r kv r1 h1
      have l := ih r1 r' h
      have hgk := hg r kv r1 s1
      obtain ⟨k0, v0⟩ := kv
      refine ⟨l.id.trans s1.id, l.groups.trans s1.groups, l.configuration.trans s1.configuration,
        l.deprecated.trans s1.deprecated, ?_, ?_, ?_⟩
      · intro k
        rw [l.dict k, hgk k, s1.dict k]
        simp only [dlast]
        by_cases hk : k ≠ "severity" ∧ g r k = true
        · obtain ⟨hk1, hk2⟩ := hk
          cases hd : dlast t k with
          | some w => simp [hk1, hk2, pick]
          | none =>
            by_cases h0 : k0 = k
            · subst h0; simp [hk1, hk2, pick]
            · simp [hk1, hk2, pick, h0]
        · have : ¬ (k0 = k ∧ k0 ≠ "severity" ∧ g r k = true) := by
            intro ⟨a, b, c⟩; subst a; exact hk ⟨b, c⟩
          simp [hk, this]
      · rw [l.sev, s1.sev]
        simp only [dlast]
        cases hd : dlast t "severity" with
        | some w => cases sevs <;> simp
        | none =>
          by_cases h0 : k0 = "severity"
          · subst h0; cases sevs <;> simp
          · cases sevs <;> simp [h0]
      · intro hn
        have := l.sevOk hn
        simp only [dlast, this]
        by_cases h0 : k0 = "severity"
        · exact absurd hn (s1.sevOk h0)
        · simp [h0]

theorem gGlobal_stable (sevs : Option (List Sev)) (r : RuleObj) (kv : String × Val) (r' : RuleObj)
    (s : StepSpec gGlobal sevs r kv r') (k : String) : gGlobal r' k = gGlobal r k := by
  simp [gGlobal, s.configuration]

theorem gDict_stable (sevs : Option (List Sev)) (r : RuleObj) (kv : String × Val) (r' : RuleObj)
    (s : StepSpec gDict sevs r kv r') (k : String) : gDict r' k = gDict r k := by
  unfold gDict dhas
  rw [s.dict k]
  by_cases h : kv.1 = k ∧ kv.1 ≠ "severity" ∧ gDict r k = true
  · obtain ⟨h1, _, h3⟩ := h
    have : (dget r.dict k).isSome = true := h3
    simp [h1, h3, this]
    simp_all [gDict]
  · simp [h]

theorem loopGlobal (sevs : Option (List Sev)) (attrs : Attrs) (r r' : RuleObj)
    (h : attrs.foldlM (assignGlobal sevs) r = .ok r') : LoopSpec gGlobal sevs r attrs r' :=
  loop_spec gGlobal sevs _ (fun r kv r' => assignGlobal_spec sevs r r' kv) (gGlobal_stable sevs) attrs r r' h

theorem loopDict (sevs : Option (List Sev)) (attrs : Attrs) (r r' : RuleObj)
    (h : attrs.foldlM (assignDict sevs) r = .ok r') : LoopSpec gDict sevs r attrs r' :=
  loop_spec gDict sevs _ (fun r kv r' => assignDict_spec sevs r r' kv) (gDict_stable sevs) attrs r r' h

theorem loopRule (sevs : Option (List Sev)) (attrs : Attrs) (r r' : RuleObj)
    (h : attrs.foldlM (assignRule sevs) r = .ok r') : LoopSpec gDict sevs r attrs r' :=
  loop_spec gDict sevs _ (fun r kv r' => assignRule_spec sevs r r' kv) (gDict_stable sevs) attrs r r' h


/-! ### the three levels of one `rule` section -/

theorem configureGlobal_spec (sevs : Option (List Sev)) (sec : RuleSec) (r r1 : RuleObj)
    (h : configureGlobal sevs sec r = .ok r1) :
    ∃ attrs, LoopSpec gGlobal sevs r attrs r1 ∧ ∀ k, Spec.globalLevel sec k = dlast attrs k := by
  unfold configureGlobal at h
  unfold Spec.globalLevel
  cases hg : dget sec "global" with
  | none =>
    simp only [hg, Except.ok.injEq] at h
    subst h
    exact ⟨[], loopGlobal sevs [] r r rfl, fun k => rfl⟩
  | some e =>
    cases e with
    | attrs a =>
      simp only [hg] at h
      exact ⟨a, loopGlobal sevs a r r1 h, fun k => rfl⟩
    | groups g => simp [hg] at h

theorem configureRuleAttrs_spec (sevs : Option (List Sev)) (sec : RuleSec) (r r1 : RuleObj)
    (h : configureRuleAttrs sevs sec r = .ok r1) :
    ∃ attrs, LoopSpec gDict sevs r attrs r1 ∧ ∀ k, Spec.idLevel sec r k = dlast attrs k := by
  unfold configureRuleAttrs at h
  unfold Spec.idLevel
  cases hg : dget sec r.id with
  | none =>
    simp only [hg, Except.ok.injEq] at h
    subst h
    exact ⟨[], loopDict sevs [] r r rfl, fun k => rfl⟩
  | some e =>
    cases e with
    | attrs a =>
      simp only [hg] at h
      exact ⟨a, loopRule sevs a r r1 h, fun k => rfl⟩
    | groups g => simp [hg] at h

theorem groupFold (sevs : Option (List Sev)) (gs : Dict Attrs) : ∀ (r r' : RuleObj),
    gs.foldlM (fun r ga => if ga.1 ∈ r.groups then ga.2.foldlM (assignDict sevs) r else .ok r) r = .ok r' →
    (Spec.groupAttrs r.groups gs).foldlM (assignDict sevs) r = .ok r' := by
  induction gs with
  | nil => intro r r' h; simpa [Spec.groupAttrs] using h
  | cons ga t ih =>
    intro r r' h
    obtain ⟨g, a⟩ := ga
    simp only [List.foldlM_cons, bind, Except.bind] at h
    by_cases hm : g ∈ r.groups
    · simp only [hm, if_true] at h
      cases h1 : a.foldlM (assignDict sevs) r with
      | error e => simp [h1] at h
      | ok r1 =>
        simp only [h1] at h
        have l := loopDict sevs a r r1 h1
        have := ih r1 r' h
        rw [l.groups] at this
        have e : Spec.groupAttrs r.groups ((g, a) :: t) = a ++ Spec.groupAttrs r.groups t := by
          simp [Spec.groupAttrs, hm]
        rw [e, List.foldlM_append]
        simp only [bind, Except.bind, h1]
        exact this
    · simp only [hm, if_false] at h
      have := ih r r' h
      have e : Spec.groupAttrs r.groups ((g, a) :: t) = Spec.groupAttrs r.groups t := by
        simp [Spec.groupAttrs, hm]
      rw [e]; exact this

theorem configureGroup_spec (sevs : Option (List Sev)) (sec : RuleSec) (r r1 : RuleObj)
    (h : configureGroup sevs sec r = .ok r1) :
    ∃ attrs, LoopSpec gDict sevs r attrs r1 ∧ ∀ k, Spec.groupLevel sec r k = dlast attrs k := by
  unfold configureGroup at h
  unfold Spec.groupLevel
  cases hg : dget sec "group" with
  | none =>
    simp only [hg, Except.ok.injEq] at h
    subst h
    exact ⟨[], loopDict sevs [] r r rfl, fun k => rfl⟩
  | some e =>
    cases e with
    | groups gs =>
      simp only [hg] at h
      exact ⟨Spec.groupAttrs r.groups gs, loopDict sevs _ r r1 (groupFold sevs gs r r1 h), fun k => rfl⟩
    | attrs a => simp [hg] at h

/-- effect of one `rule` section on one rule (the branch of `Rule.configure` that configures) -/
structure SecSpec (sevs : Option (List Sev)) (sec : RuleSec) (r r' : RuleObj) : Prop where
  id : r'.id = r.id
  groups : r'.groups = r.groups
  configuration : r'.configuration = r.configuration
  deprecated : r'.deprecated = r.deprecated
  mono : ∀ k, dhas r.dict k = true → dhas r'.dict k = true
  dict : ∀ a, a ≠ "severity" → dhas r.dict a = true →
    dget r'.dict a = pick (Spec.firstSome (Spec.secLevels sec r a)) (dget r.dict a)
  sev : r'.severity = match Spec.firstSome (Spec.secLevels sec r "severity"), sevs with
    | some v, some sl => getSeverityNamed sl v
    | _, _ => r.severity
  sevOk : sevs = none → Spec.firstSome (Spec.secLevels sec r "severity") = none

theorem LoopSpec.mono {g : RuleObj → String → Bool} {sevs : Option (List Sev)} {r r' : RuleObj} {attrs : Attrs}
    (l : LoopSpec g sevs r attrs r') (k : String) (h : dhas r.dict k = true) : dhas r'.dict k = true := by
  unfold dhas at *
  rw [l.dict k]
  by_cases c : k ≠ "severity" ∧ g r k = true
  · rw [if_pos c]
    cases dlast attrs k <;> simp [pick, h]
  · rw [if_neg c]; exact h

theorem threeLevels (sevs : Option (List Sev)) (sec : RuleSec) (r r1 r2 r3 : RuleObj)
    (h1 : configureGlobal sevs sec r = .ok r1) (h2 : configureGroup sevs sec r1 = .ok r2)
    (h3 : configureRuleAttrs sevs sec r2 = .ok r3) : SecSpec sevs sec r r3 := by
  obtain ⟨a1, l1, e1⟩ := configureGlobal_spec sevs sec r r1 h1
  obtain ⟨a2, l2, e2⟩ := configureGroup_spec sevs sec r1 r2 h2
  obtain ⟨a3, l3, e3⟩ := configureRuleAttrs_spec sevs sec r2 r3 h3
  have hid2 : Spec.idLevel sec r2 = Spec.idLevel sec r := by
    funext k; simp [Spec.idLevel, l2.id, l1.id]
  have hgr1 : Spec.groupLevel sec r1 = Spec.groupLevel sec r := by
    funext k; simp [Spec.groupLevel, l1.groups]
  refine ⟨l3.id.trans (l2.id.trans l1.id), l3.groups.trans (l2.groups.trans l1.groups),
    l3.configuration.trans (l2.configuration.trans l1.configuration),
    l3.deprecated.trans (l2.deprecated.trans l1.deprecated), ?_, ?_, ?_, ?_⟩
  · intro k hk
    exact l3.mono k (l2.mono k (l1.mono k hk))
  · intro a ha hd
    have hd1 := l1.mono a hd
    have hd2 := l2.mono a hd1
    rw [l3.dict a, l2.dict a, l1.dict a]
    simp only [gDict, gGlobal, hd1, hd2, ha, ne_eq, not_false_eq_true, true_and, if_true]
    simp only [Spec.secLevels, Spec.guardDict, Spec.guardGlobal, hd, ha, Bool.or_true, if_true, decide_false, Bool.false_or]
    rw [← e3 a, ← e2 a, ← e1 a, hid2, hgr1]
    by_cases hc : a ∈ r.configuration
    · simp only [hc, decide_true, if_true]
      cases Spec.idLevel sec r a <;> cases Spec.groupLevel sec r a <;> cases Spec.globalLevel sec a <;>
        simp [Spec.firstSome, pick]
    · simp only [hc, decide_false, Bool.false_eq_true, if_false]
      cases Spec.idLevel sec r a <;> cases Spec.groupLevel sec r a <;> simp [Spec.firstSome, pick]
  · rw [l3.sev, l2.sev, l1.sev]
    simp only [Spec.secLevels, Spec.guardDict, Spec.guardGlobal, decide_true, Bool.true_or, if_true]
    rw [← e3 "severity", ← e2 "severity", ← e1 "severity", hid2, hgr1]
    cases Spec.idLevel sec r "severity" <;> cases Spec.groupLevel sec r "severity" <;>
      cases Spec.globalLevel sec "severity" <;> cases sevs <;> simp [Spec.firstSome]
  · intro hn
    have s1 := l1.sevOk hn
    have s2 := l2.sevOk hn
    have s3 := l3.sevOk hn
    simp only [Spec.secLevels, Spec.guardDict, Spec.guardGlobal, decide_true, Bool.true_or, if_true]
    rw [← hid2, ← hgr1, e3 "severity", e2 "severity", e1 "severity", s1, s2, s3]
    rfl


/-! ### `Rule.configure`, `rule_list.configure` -/

theorem ruleConfigure_ok (sevs : Option (List Sev)) (sec : RuleSec) (r r' : RuleObj) (msgs : List String)
    (h : ruleConfigure sevs sec r = .ok (r', msgs)) :
    (r.deprecated = true ∧ dhas sec r.id = true ∧ msgs ≠ []) ∨ (msgs = [] ∧ SecSpec sevs sec r r') := by
  unfold ruleConfigure at h
  by_cases hd : (r.deprecated && dhas sec r.id) = true
  · simp only [hd, if_true, Except.ok.injEq, Prod.mk.injEq] at h
    left
    simp only [Bool.and_eq_true] at hd
    refine ⟨hd.1, hd.2, ?_⟩
    rw [← h.2]; simp
  · simp only [hd, Bool.false_eq_true, if_false, bind, Except.bind, pure, Except.pure] at h
    right
    cases h1 : configureGlobal sevs sec r with
    | error e => simp [h1] at h
    | ok r1 =>
      simp only [h1] at h
      cases h2 : configureGroup sevs sec r1 with
      | error e => simp [h2] at h
      | ok r2 =>
        simp only [h2] at h
        cases h3 : configureRuleAttrs sevs sec r2 with
        | error e => simp [h3] at h
        | ok r3 =>
          simp only [h3, Except.ok.injEq, Prod.mk.injEq] at h
          obtain ⟨ha, hb⟩ := h
          subst ha
          exact ⟨hb.symm, threeLevels sevs sec r r1 r2 r3 h1 h2 h3⟩

theorem mapM_ok {α β : Type} (f : α → Except Err β) : ∀ (l : List α) (l' : List β), l.mapM f = .ok l' →
    l'.length = l.length ∧ ∀ (i : Nat) (a : α) (b : β), l[i]? = some a → l'[i]? = some b → f a = .ok b := by
  intro l
  induction l with
  | nil =>
    intro l' h
    simp only [List.mapM_nil, pure, Except.pure, Except.ok.injEq] at h
    subst h
    simp
  | cons x t ih =>
    intro l' h
    simp only [List.mapM_cons, bind, Except.bind, pure, Except.pure] at h
    cases h1 : f x with
    | error e => simp [h1] at h
    | ok y =>
      simp only [h1] at h
      cases h2 : t.mapM f with
      | error e => simp [h2] at h
      | ok ys =>
        simp only [h2, Except.ok.injEq] at h
        subst h
        obtain ⟨hl, hi⟩ := ih ys h2
        refine ⟨by simp [hl], ?_⟩
        intro i a b ha hb
        cases i with
        | zero =>
          simp only [List.getElem?_cons_zero, Option.some.injEq] at ha hb
          subst ha; subst hb; exact h1
        | succ j =>
          simp only [List.getElem?_cons_succ] at ha hb
          exact hi j a b ha hb

/-- relation between a rule before and after `rule_list.configure` with `rule` section `osec`
    (`none` = the dictionary has no `rule` key) -/
structure RuleRel (sevs : Option (List Sev)) (osec : Option RuleSec) (r r' : RuleObj) : Prop where
  id : r'.id = r.id
  groups : r'.groups = r.groups
  configuration : r'.configuration = r.configuration
  deprecated : r'.deprecated = r.deprecated
  mono : ∀ k, dhas r.dict k = true → dhas r'.dict k = true
  dict : ∀ a, a ≠ "severity" → a ≠ "debug" → dhas r.dict a = true →
    dget r'.dict a = pick (Spec.firstSome (Spec.optSecLevels osec r a)) (dget r.dict a)
  sev : r'.severity = match Spec.firstSome (Spec.optSecLevels osec r "severity"), sevs with
    | some v, some sl => getSeverityNamed sl v
    | _, _ => r.severity
  sevOk : sevs = none → Spec.firstSome (Spec.optSecLevels osec r "severity") = none
  notDeprecatedNamed : ∀ sec, osec = some sec → ¬ (r.deprecated = true ∧ dhas sec r.id = true)

def ListRel (sevs : Option (List Sev)) (osec : Option RuleSec) (rs rs' : List RuleObj) : Prop :=
  rs'.length = rs.length ∧ ∀ (i : Nat) (r r' : RuleObj), rs[i]? = some r → rs'[i]? = some r' → RuleRel sevs osec r r'

theorem RuleRel.refl_none (sevs : Option (List Sev)) (r : RuleObj) : RuleRel sevs none r r := by
  refine ⟨rfl, rfl, rfl, rfl, fun _ h => h, ?_, ?_, ?_, ?_⟩
  · intro a _ _ _; simp [Spec.optSecLevels, Spec.firstSome, pick]
  · cases sevs <;> rfl
  · intro _; rfl
  · intro sec h; cases h

theorem RuleRel.withDebug {sevs : Option (List Sev)} {osec : Option RuleSec} {r r' : RuleObj}
    (h : RuleRel sevs osec r r') : RuleRel sevs osec r (setDebug r') := by
  refine ⟨h.id, h.groups, h.configuration, h.deprecated, ?_, ?_, h.sev, h.sevOk, h.notDeprecatedNamed⟩
  · intro k hk
    have := h.mono k hk
    simp only [Cfg.setDebug, dhas_dset, this, Bool.or_true]
  · intro a ha hd hk
    simp only [Cfg.setDebug]
    rw [dget_dset_ne _ _ _ _ (fun e => hd e.symm)]
    exact h.dict a ha hd hk

theorem flatMap_snd_nil (out : List (RuleObj × List String)) (h : out.flatMap (·.2) = []) :
    ∀ p ∈ out, p.2 = [] := by
  intro p hp
  rw [List.flatMap_eq_nil_iff] at h
  exact h p hp

theorem ruleListConfigure_spec (sevs : Option (List Sev)) (osec : Option RuleSec) (dbg : Option Bool)
    (rs rs' : List RuleObj) (h : ruleListConfigure sevs osec dbg rs = .ok rs') : ListRel sevs osec rs rs' := by
  unfold ruleListConfigure at h
  cases osec with
  | none =>
    simp only [bind, Except.bind, pure, Except.pure] at h
    have e1 : (rs.map fun r => (r, ([] : List String))).flatMap (·.2) = [] := by
      rw [List.flatMap_eq_nil_iff]; intro p hp; simp only [List.mem_map] at hp
      obtain ⟨r, _, hr⟩ := hp; subst hr; rfl
    have e2 : (rs.map fun r => (r, ([] : List String))).map (·.1) = rs := by
      rw [List.map_map]; simp [Function.comp_def]
    simp only [e1, ne_eq, not_true_eq_false, if_false, e2, Except.ok.injEq] at h
    subst h
    by_cases hd : dbg = some true
    · simp only [hd, if_true]
      refine ⟨by simp, ?_⟩
      intro i r r' hr hr'
      simp only [List.getElem?_map, hr, Option.map_some, Option.some.injEq] at hr'
      subst hr'
      exact (RuleRel.refl_none sevs r).withDebug
    · simp only [hd, if_false]
      refine ⟨rfl, ?_⟩
      intro i r r' hr hr'
      rw [hr] at hr'; cases hr'
      exact RuleRel.refl_none sevs r
  | some sec =>
    simp only [bind, Except.bind, pure, Except.pure] at h
    cases hv : validateRuleExists (rs.map (·.id)) sec with
    | error e => simp [hv] at h
    | ok u =>
      simp only [hv] at h
      cases hm : rs.mapM (ruleConfigure sevs sec) with
      | error e => simp [hm] at h
      | ok out =>
        simp only [hm] at h
        by_cases hmsgs : out.flatMap (·.2) = []
        · simp only [hmsgs, ne_eq, not_true_eq_false, if_false, Except.ok.injEq] at h
          obtain ⟨hlen, hall⟩ := mapM_ok (ruleConfigure sevs sec) rs out hm
          have hnil := flatMap_snd_nil out hmsgs
          have key : ∀ (i : Nat) (r r' : RuleObj), rs[i]? = some r → (out.map (·.1))[i]? = some r' →
              RuleRel sevs (some sec) r r' := by
            intro i r r' hr hr'
            simp only [List.getElem?_map] at hr'
            cases ho : out[i]? with
            | none => simp [ho] at hr'
            | some p =>
              simp only [ho, Option.map_some, Option.some.injEq] at hr'
              obtain ⟨p1, p2⟩ := p
              simp only at hr'
              subst hr'
              have hp2 : p2 = [] := hnil (p1, p2) (List.mem_of_getElem? ho)
              subst hp2
              have := hall i r (p1, []) hr ho
              rcases ruleConfigure_ok sevs sec r p1 [] this with ⟨_, _, hne⟩ | ⟨_, ss⟩
              · exact absurd rfl hne
              · refine ⟨ss.id, ss.groups, ss.configuration, ss.deprecated, ss.mono, ?_, ss.sev, ss.sevOk, ?_⟩
                · intro a ha _ hk; exact ss.dict a ha hk
                · intro sec' hs ⟨hd1, hd2⟩
                  cases hs
                  unfold ruleConfigure at this
                  simp [hd1, hd2] at this
          by_cases hd : dbg = some true
          · simp only [hd, if_true] at h
            subst h
            refine ⟨by simp [hlen], ?_⟩
            intro i r r' hr hr'
            simp only [List.getElem?_map] at hr'
            cases ho : out[i]? with
            | none => simp [ho] at hr'
            | some p =>
              simp only [ho, Option.map_some, Option.some.injEq] at hr'
              subst hr'
              exact (key i r p.1 hr (by simp [List.getElem?_map, ho])).withDebug
          · simp only [hd, if_false] at h
            subst h
            exact ⟨by simp [hlen], key⟩
        · simp [hmsgs] at h

theorem configurePerOption_spec (sect : Option (List FileEntry)) (fname : String) (rs rs' : List RuleObj)
    (h : configurePerOption sect fname rs = .ok rs') :
    ListRel none ((perFileOf sect fname).bind (·.rule)) rs rs' := by
  unfold configurePerOption at h
  cases hp : perFileOf sect fname with
  | none =>
    simp only [hp, Except.ok.injEq] at h
    subst h
    refine ⟨rfl, ?_⟩
    intro i r r' hr hr'
    rw [hr] at hr'; cases hr'
    exact RuleRel.refl_none none r
  | some pf =>
    simp only [hp] at h
    exact ruleListConfigure_spec none pf.rule none rs rs' h

theorem secLevels_congr (sec : RuleSec) (r r1 : RuleObj) (a : String) (hid : r1.id = r.id)
    (hg : r1.groups = r.groups) (hc : r1.configuration = r.configuration)
    (hd : dhas r1.dict a = dhas r.dict a) : Spec.secLevels sec r1 a = Spec.secLevels sec r a := by
  simp [Spec.secLevels, Spec.idLevel, Spec.groupLevel, Spec.guardDict, Spec.guardGlobal, hid, hg, hc, hd]

theorem optSecLevels_congr (osec : Option RuleSec) (r r1 : RuleObj) (a : String) (hid : r1.id = r.id)
    (hg : r1.groups = r.groups) (hc : r1.configuration = r.configuration)
    (hd : dhas r1.dict a = dhas r.dict a) : Spec.optSecLevels osec r1 a = Spec.optSecLevels osec r a := by
  cases osec with
  | none => rfl
  | some sec => exact secLevels_congr sec r r1 a hid hg hc hd

theorem optSecLevels_sev_congr (osec : Option RuleSec) (r r1 : RuleObj) (hid : r1.id = r.id)
    (hg : r1.groups = r.groups) : Spec.optSecLevels osec r1 "severity" = Spec.optSecLevels osec r "severity" := by
  cases osec with
  | none => rfl
  | some sec =>
    simp [Spec.optSecLevels, Spec.secLevels, Spec.idLevel, Spec.groupLevel, Spec.guardDict, Spec.guardGlobal, hid, hg]

theorem firstSome_append_none {α : Type} (l1 l2 : List (Option α)) (h : Spec.firstSome l1 = none) :
    Spec.firstSome (l1 ++ l2) = Spec.firstSome l2 := by
  induction l1 with
  | nil => rfl
  | cons x t ih =>
    cases x with
    | none => simpa [Spec.firstSome] using ih (by simpa [Spec.firstSome] using h)
    | some v => simp [Spec.firstSome] at h

theorem getElem?_of_length_eq {α : Type} (l l' : List α) (i : Nat) (a : α) (hl : l'.length = l.length)
    (h : l[i]? = some a) : ∃ b, l'[i]? = some b := by
  have hi : i < l.length := by
    rcases List.getElem?_eq_some_iff.mp h with ⟨hi, _⟩; exact hi
  exact ⟨l'[i]'(by omega), List.getElem?_eq_getElem (by omega)⟩


/-! ### `get_configuration` -/

def NodupKeys {α : Type} (d : Dict α) : Prop := (dkeys d).Nodup

theorem dget_none_of_not_mem {α : Type} (d : Dict α) (k : String) (h : k ∉ dkeys d) : dget d k = none := by
  induction d with
  | nil => rfl
  | cons p t ih =>
    obtain ⟨k', v⟩ := p
    simp only [dkeys, List.map_cons, List.mem_cons, not_or] at h
    have : k' ≠ k := fun e => h.1 e.symm
    simp only [dget, this, if_false]
    exact ih h.2

theorem dlast_none_of_not_mem {α : Type} (d : Dict α) (k : String) (h : k ∉ dkeys d) : dlast d k = none := by
  induction d with
  | nil => rfl
  | cons p t ih =>
    obtain ⟨k', v⟩ := p
    simp only [dkeys, List.map_cons, List.mem_cons, not_or] at h
    have : k' ≠ k := fun e => h.1 e.symm
    simp [dlast, this, ih h.2]

theorem dlast_eq_dget {α : Type} (d : Dict α) (k : String) (h : NodupKeys d) : dlast d k = dget d k := by
  induction d with
  | nil => rfl
  | cons p t ih =>
    obtain ⟨k', v⟩ := p
    simp only [NodupKeys, dkeys, List.map_cons, List.nodup_cons] at h
    by_cases hk : k' = k
    · subst hk
      simp [dlast, dget, dlast_none_of_not_mem t k' h.1]
    · simp only [dlast, dget, hk, if_false]
      rw [ih h.2]
      cases dget t k <;> rfl

theorem mem_dkeys_dset {α : Type} (d : Dict α) (k k' : String) (v : α) :
    k' ∈ dkeys (dset d k v) ↔ k' = k ∨ k' ∈ dkeys d := by
  induction d with
  | nil => simp [dset, dkeys]
  | cons p t ih =>
    obtain ⟨k0, v0⟩ := p
    by_cases h0 : k0 = k
    · subst h0; simp [dset, dkeys]
    · simp only [dset, h0, if_false, dkeys, List.map_cons, List.mem_cons]
      have := ih
      simp only [dkeys] at this
      rw [this]
      constructor
      · rintro (h | h | h)
        · exact Or.inr (Or.inl h)
        · exact Or.inl h
        · exact Or.inr (Or.inr h)
      · rintro (h | h | h)
        · exact Or.inr (Or.inl h)
        · exact Or.inl h
        · exact Or.inr (Or.inr h)

theorem nodupKeys_dset {α : Type} (d : Dict α) (k : String) (v : α) (h : NodupKeys d) : NodupKeys (dset d k v) := by
  induction d with
  | nil => simp [NodupKeys, dset, dkeys]
  | cons p t ih =>
    obtain ⟨k0, v0⟩ := p
    simp only [NodupKeys, dkeys, List.map_cons, List.nodup_cons] at h
    by_cases h0 : k0 = k
    · subst h0
      simp only [dset, if_true, NodupKeys, dkeys, List.map_cons, List.nodup_cons]
      exact h
    · simp only [dset, h0, if_false, NodupKeys, dkeys, List.map_cons, List.nodup_cons]
      refine ⟨?_, ih h.2⟩
      intro hm
      have := (mem_dkeys_dset t k k0 v).mp hm
      rcases this with e | e
      · exact h0 e
      · exact h.1 e

/-- the loop of `Rule.get_configuration` -/
def gcStep (dict : Attrs) (acc : Attrs) (p : String) : Except Err Attrs :=
  if p = "severity" then .ok (dset acc p Val.null)
  else match dget dict p with
    | some v => .ok (dset acc p v)
    | none => .error (.py "AttributeError" p)

theorem gcFold_spec (dict : Attrs) : ∀ (l : List String) (acc acc' : Attrs), l.foldlM (gcStep dict) acc = .ok acc' →
    (NodupKeys acc → NodupKeys acc') ∧
    (∀ a, dget acc' a = if a ∈ l then (if a = "severity" then some Val.null else dget dict a) else dget acc a) ∧
    (∀ a ∈ l, a ≠ "severity" → (dget dict a).isSome = true) := by
  intro l
  induction l with
  | nil =>
    intro acc acc' h
    simp only [List.foldlM_nil, pure, Except.pure, Except.ok.injEq] at h
    subst h
    simp
  | cons p t ih =>
    intro acc acc' h
    simp only [List.foldlM_cons, bind, Except.bind] at h
    cases h1 : gcStep dict acc p with
    | error e => simp [h1] at h
    | ok acc1 =>
      simp only [h1] at h
      obtain ⟨i1, i2, i3⟩ := ih acc1 acc' h
      unfold gcStep at h1
      by_cases hp : p = "severity"
      · simp only [hp, if_true, Except.ok.injEq] at h1
        subst h1
        refine ⟨fun hn => i1 (nodupKeys_dset _ _ _ hn), ?_, ?_⟩
        · intro a
          rw [i2 a]
          by_cases hat : a ∈ t
          · simp [hat]
          · simp only [hat, if_false, List.mem_cons, or_false, dget_dset]
            by_cases ha : a = p
            · subst ha; simp [hp]
            · have : ¬ "severity" = a := fun e => ha (by rw [hp]; exact e.symm)
              simp [ha, this]
        · intro a ha hs
          simp only [List.mem_cons] at ha
          rcases ha with e | e
          · exact absurd (e.trans hp) hs
          · exact i3 a e hs
      · simp only [hp, if_false] at h1
        cases hd : dget dict p with
        | none => simp [hd] at h1
        | some v =>
          simp only [hd, Except.ok.injEq] at h1
          subst h1
          refine ⟨fun hn => i1 (nodupKeys_dset _ _ _ hn), ?_, ?_⟩
          · intro a
            rw [i2 a]
            by_cases hat : a ∈ t
            · simp [hat]
            · simp only [hat, if_false, List.mem_cons, or_false, dget_dset]
              by_cases ha : a = p
              · subst ha; simp [hp, hd]
              · have : ¬ p = a := fun e => ha e.symm
                simp [ha, this]
          · intro a ha hs
            simp only [List.mem_cons] at ha
            rcases ha with e | e
            · subst e; simp [hd]
            · exact i3 a e hs

theorem getConfiguration_eq (r : RuleObj) : getConfiguration r =
    (r.configuration.foldlM (gcStep r.dict) ([] : Attrs)).bind fun d =>
      match r.severity with
      | none => .error (.py "AttributeError" "'NoneType' object has no attribute 'name'")
      | some s => .ok (dset d "severity" (.str s.name)) := rfl

/-- what `Rule.get_configuration` returns -/
theorem getConfiguration_spec (r : RuleObj) (c : Attrs) (h : getConfiguration r = .ok c) :
    ∃ s, r.severity = some s ∧ NodupKeys c ∧
      (∀ a, dget c a = if a = "severity" then some (.str s.name) else if a ∈ r.configuration then dget r.dict a else none) ∧
      (∀ a ∈ r.configuration, a ≠ "severity" → (dget r.dict a).isSome = true) := by
  rw [getConfiguration_eq] at h
  cases hf : r.configuration.foldlM (gcStep r.dict) ([] : Attrs) with
  | error e => simp [hf, Except.bind] at h
  | ok d =>
    simp only [hf, Except.bind] at h
    cases hs : r.severity with
    | none => simp [hs] at h
    | some s =>
      simp only [hs, Except.ok.injEq] at h
      subst h
      obtain ⟨i1, i2, i3⟩ := gcFold_spec r.dict r.configuration [] d hf
      refine ⟨s, rfl, nodupKeys_dset _ _ _ (i1 (by simp [NodupKeys, dkeys])), ?_, i3⟩
      intro a
      rw [dget_dset, i2 a]
      by_cases ha : a = "severity"
      · subst ha; simp
      · have : ¬ "severity" = a := fun e => ha e.symm
        simp [ha, this, dget]

theorem foldlM_congr {α β : Type} (f g : β → α → Except Err β) : ∀ (l : List α) (b : β),
    (∀ a ∈ l, ∀ b, f b a = g b a) → l.foldlM f b = l.foldlM g b := by
  intro l
  induction l with
  | nil => intro b _; rfl
  | cons x t ih =>
    intro b h
    simp only [List.foldlM_cons]
    rw [h x (List.mem_cons_self ..) b]
    congr 1
    funext b'
    exact ih b' (fun a ha => h a (List.mem_cons_of_mem _ ha))

/-- the emitted fragment depends only on the values of the `configuration` names and the severity NAME -/
theorem getConfiguration_congr (r r1 : RuleObj) (hc : r1.configuration = r.configuration)
    (hd : ∀ a ∈ r.configuration, a ≠ "severity" → dget r1.dict a = dget r.dict a)
    (hs : r1.severity.map (·.name) = r.severity.map (·.name)) : getConfiguration r1 = getConfiguration r := by
  rw [getConfiguration_eq, getConfiguration_eq, hc]
  have : r.configuration.foldlM (gcStep r1.dict) ([] : Attrs) = r.configuration.foldlM (gcStep r.dict) [] := by
    apply foldlM_congr
    intro a ha b
    unfold gcStep
    by_cases h : a = "severity"
    · simp [h]
    · simp [h, hd a ha h]
  rw [this]
  cases hf : r.configuration.foldlM (gcStep r.dict) ([] : Attrs) with
  | error e => rfl
  | ok d =>
    simp only [Except.bind]
    cases h1 : r1.severity <;> cases h2 : r.severity <;> simp [h1, h2] at hs ⊢
    rw [hs]


/-! ### merging configuration files, validation -/

theorem mergeRule_get (tmp : RuleSec) : ∀ (base : Option RuleSec) (k : String),
    dget ((mergeRule base tmp).getD []) k = pick (dlast tmp k) (dget (base.getD []) k) := by
  induction tmp with
  | nil => intro base k; rfl
  | cons ke t ih =>
    intro base k
    obtain ⟨k0, e0⟩ := ke
    have : mergeRule base ((k0, e0) :: t) = mergeRule (some (dset (base.getD []) k0 e0)) t := rfl
    rw [this, ih]
    simp only [Option.getD_some, dget_dset, dlast]
    cases dlast t k with
    | some w => rfl
    | none =>
      by_cases h : k0 = k
      · simp [h, pick]
      · simp [h, pick]


/-- the three levels of a `rule` section are functions of single entries -/
theorem level_of_merge (s1 s2 : RuleSec) (hn : NodupKeys s2)
    (hdisj : ∀ k, dhas s1 k = true → dhas s2 k = true → False)
    (f : Option Entry → Option Val) (hf : f none = none) (k : String) :
    f (dget ((mergeRule (some s1) s2).getD []) k) = pick (f (dget s2 k)) (f (dget s1 k)) := by
  rw [mergeRule_get, dlast_eq_dget s2 k hn]
  simp only [Option.getD_some]
  cases h2 : dget s2 k with
  | none => simp [pick, hf]
  | some e =>
    have : dget s1 k = none := by
      cases h1 : dget s1 k with
      | none => rfl
      | some e1 => exact absurd (hdisj k (by simp [dhas, h1]) (by simp [dhas, h2])) id
    simp only [pick, this, hf]
    cases f (some e) <;> rfl


theorem validate_error (names : List String) : ∀ (sec : RuleSec),
    (∃ ke ∈ sec, ke.1 ≠ "global" ∧ ke.1 ≠ "group" ∧ ke.1 ∉ names) →
    ∃ k, validateRuleExists names sec = .error (.config "unknownRule" k) ∧ k ∉ names := by
  intro sec
  unfold validateRuleExists
  induction sec with
  | nil => intro ⟨ke, hm, _⟩; cases hm
  | cons x t ih =>
    intro ⟨ke, hm, h1, h2, h3⟩
    simp only [List.foldlM_cons, bind, Except.bind]
    by_cases hx : x.1 = "global" ∨ x.1 = "group" ∨ x.1 ∈ names
    · have hne : ke ≠ x := by
        intro e; subst e
        rcases hx with e | e | e
        · exact h1 e
        · exact h2 e
        · exact h3 e
      have hmt : ke ∈ t := by
        simp only [List.mem_cons] at hm
        rcases hm with e | e
        · exact absurd e hne
        · exact e
      have step : (if x.1 = "global" then (Except.ok () : Except Err Unit) else if x.1 = "group" then .ok ()
          else if x.1 ∈ names then .ok () else .error (.config "unknownRule" x.1)) = .ok () := by
        rcases hx with e | e | e
        · simp [e]
        · simp [e]
        · by_cases e0 : x.1 = "global" <;> by_cases e1 : x.1 = "group" <;> simp [e, e0, e1]
      rw [step]
      exact ih ⟨ke, hmt, h1, h2, h3⟩
    · simp only [not_or] at hx
      refine ⟨x.1, ?_, hx.2.2⟩
      simp [hx.1, hx.2.1, hx.2.2]



/-! ### the whole emitted `rule` dictionary -/

theorem dset_not_mem {α : Type} (d : Dict α) (k : String) (v : α) (h : k ∉ dkeys d) : dset d k v = d ++ [(k, v)] := by
  induction d with
  | nil => rfl
  | cons p t ih =>
    obtain ⟨k', v'⟩ := p
    simp only [dkeys, List.map_cons, List.mem_cons, not_or] at h
    have : k' ≠ k := fun e => h.1 e.symm
    simp only [dset, this, if_false, List.cons_append]
    rw [ih h.2]

/-- re-reading a dictionary with distinct keys through `process_config_file` gives it back unchanged -/
theorem mergeRule_some_nodup (sec : RuleSec) : ∀ (acc : RuleSec), NodupKeys (acc ++ sec) →
    mergeRule (some acc) sec = some (acc ++ sec) := by
  induction sec with
  | nil => intro acc _; simp [mergeRule]
  | cons x t ih =>
    intro acc hn
    obtain ⟨k, e⟩ := x
    have hk : k ∉ dkeys acc := by
      simp only [NodupKeys, dkeys, List.map_append, List.map_cons] at hn
      have := (List.nodup_append.mp hn).2.2
      intro hm
      exact this k hm k (List.mem_cons_self ..) rfl
    have : mergeRule (some acc) ((k, e) :: t) = mergeRule (some (dset acc k e)) t := rfl
    rw [this, dset_not_mem acc k e hk]
    have hn' : NodupKeys ((acc ++ [(k, e)]) ++ t) := by simpa [List.append_assoc] using hn
    rw [ih _ hn']
    simp [List.append_assoc]

theorem mergeRule_none_nodup (sec : RuleSec) (hn : NodupKeys sec) (hne : sec ≠ []) : mergeRule none sec = some sec := by
  cases sec with
  | nil => exact absurd rfl hne
  | cons x t =>
    obtain ⟨k, e⟩ := x
    have : mergeRule none ((k, e) :: t) = mergeRule (some [(k, e)]) t := rfl
    rw [this, mergeRule_some_nodup t [(k, e)] (by simpa using hn)]
    rfl

def asSec (rc : Dict Attrs) : RuleSec := rc.map fun ka => (ka.1, Entry.attrs ka.2)

theorem dget_asSec (rc : Dict Attrs) (k : String) : dget (asSec rc) k = (dget rc k).map Entry.attrs := by
  induction rc with
  | nil => rfl
  | cons p t ih =>
    obtain ⟨k', a⟩ := p
    by_cases h : k' = k
    · simp [asSec, dget, h]
    · simp only [asSec, List.map_cons, dget, h, if_false]
      exact ih

theorem nodupKeys_asSec (rc : Dict Attrs) (h : NodupKeys rc) : NodupKeys (asSec rc) := by
  have : dkeys (asSec rc) = dkeys rc := by simp [asSec, dkeys, Function.comp_def]
  simpa [NodupKeys, this] using h

/-- the fold of `rule_list.get_configuration` -/
def rlgcStep (acc : Dict Attrs) (r : RuleObj) : Except Err (Dict Attrs) :=
  if r.deprecated then .ok acc else (getConfiguration r).map fun c => dset acc r.id c

theorem rlgc_spec : ∀ (l : List RuleObj) (acc rc : Dict Attrs), l.foldlM rlgcStep acc = .ok rc → (l.map (·.id)).Nodup →
    (NodupKeys acc → NodupKeys rc) ∧
    (∀ r ∈ l, r.deprecated = false → ∃ c, getConfiguration r = .ok c ∧ dget rc r.id = some c) ∧
    (∀ k, k ∉ l.map (·.id) → dget rc k = dget acc k) := by
  intro l
  induction l with
  | nil =>
    intro acc rc h _
    simp only [List.foldlM_nil, pure, Except.pure, Except.ok.injEq] at h
    subst h
    exact ⟨id, fun r hm => (by simp at hm), fun _ _ => rfl⟩
  | cons x t ih =>
    intro acc rc h hn
    simp only [List.map_cons, List.nodup_cons] at hn
    simp only [List.foldlM_cons, bind, Except.bind] at h
    cases h1 : rlgcStep acc x with
    | error e => simp [h1] at h
    | ok acc1 =>
      simp only [h1] at h
      obtain ⟨i1, i2, i3⟩ := ih acc1 rc h hn.2
      unfold rlgcStep at h1
      by_cases hd : x.deprecated = true
      · simp only [hd, if_true, Except.ok.injEq] at h1
        subst h1
        refine ⟨i1, ?_, ?_⟩
        · intro r hr hdep
          simp only [List.mem_cons] at hr
          rcases hr with e | e
          · subst e; rw [hd] at hdep; cases hdep
          · exact i2 r e hdep
        · intro k hk
          simp only [List.map_cons, List.mem_cons, not_or] at hk
          exact i3 k hk.2
      · simp only [hd, Bool.false_eq_true, if_false] at h1
        cases hc : getConfiguration x with
        | error e => simp [hc, Except.map] at h1
        | ok cx =>
          simp only [hc, Except.map, Except.ok.injEq] at h1
          subst h1
          refine ⟨fun hna => i1 (nodupKeys_dset _ _ _ hna), ?_, ?_⟩
          · intro r hr hdep
            simp only [List.mem_cons] at hr
            rcases hr with e | e
            · subst e
              refine ⟨cx, hc, ?_⟩
              rw [i3 r.id hn.1, dget_dset_self]
            · exact i2 r e hdep
          · intro k hk
            simp only [List.map_cons, List.mem_cons, not_or] at hk
            rw [i3 k hk.2, dget_dset_ne _ _ _ _ (fun e => hk.1 e.symm)]

theorem ruleListGetConfiguration_eq (rs : List RuleObj) : ruleListGetConfiguration rs = rs.foldlM rlgcStep [] := rfl

/-- pointwise relation of two lists -/
inductive All2 {α β : Type} (R : α → β → Prop) : List α → List β → Prop where
  | nil : All2 R [] []
  | cons {a : α} {b : β} {l : List α} {l' : List β} : R a b → All2 R l l' → All2 R (a :: l) (b :: l')

theorem forall2_of_index {α β : Type} {R : α → β → Prop} : ∀ (l : List α) (l' : List β), l'.length = l.length →
    (∀ (i : Nat) (a : α) (b : β), l[i]? = some a → l'[i]? = some b → R a b) → All2 R l l' := by
  intro l
  induction l with
  | nil =>
    intro l' hl _
    cases l' with
    | nil => exact All2.nil
    | cons _ _ => simp at hl
  | cons a t ih =>
    intro l' hl h
    cases l' with
    | nil => simp at hl
    | cons b t' =>
      refine All2.cons (h 0 a b rfl rfl) (ih t' (by simpa using hl) ?_)
      intro i a' b' ha hb
      exact h (i + 1) a' b' (by simpa using ha) (by simpa using hb)

theorem rlgc_congr : ∀ (l l' : List RuleObj) (acc : Dict Attrs),
    All2 (fun r r' => r'.id = r.id ∧ r'.deprecated = r.deprecated ∧
      (r.deprecated = false → getConfiguration r' = getConfiguration r)) l l' →
    l'.foldlM rlgcStep acc = l.foldlM rlgcStep acc := by
  intro l l' acc h
  induction h generalizing acc with
  | nil => rfl
  | @cons r r' t t' hr _ ih =>
    obtain ⟨hid, hdep, hgc⟩ := hr
    simp only [List.foldlM_cons]
    have : rlgcStep acc r' = rlgcStep acc r := by
      unfold rlgcStep
      by_cases hd : r.deprecated = true
      · simp [hdep, hd]
      · have hd' : r.deprecated = false := by simpa using hd
        simp [hdep, hd', hgc hd', hid]
    rw [this]
    congr 1
    funext acc'
    exact ih acc'


theorem genOc_unfold (env : Env) (c : Config) (defaults : List RuleObj) (cla : List String) (lr : Option String)
    (oc : OcDoc) (h : generateOutputConfiguration env c defaults cla lr = .ok oc) :
    ∃ rs, ruleListConfigure (some c.sevs) c.doc.rule c.doc.debug defaults = .ok rs ∧
      ruleListGetConfiguration rs = .ok oc.rule := by
  unfold generateOutputConfiguration at h
  simp only [bind, Except.bind, pure, Except.pure] at h
  cases h1 : ruleListConfigure (some c.sevs) c.doc.rule c.doc.debug defaults with
  | error e => simp [h1] at h
  | ok rs =>
    simp only [h1] at h
    cases h2 : ruleListGetConfiguration rs with
    | error e => simp [h2] at h
    | ok rc =>
      simp only [h2, Except.ok.injEq] at h
      subst h
      exact ⟨rs, rfl, h2⟩

/-- what `config.New` makes of the emitted file read back alone (no style) -/
theorem newConfig_toDoc (env : Env) (oc : OcDoc) (dbg : Bool) (c2 : Config)
    (h : newConfig env {} [oc.toDoc] dbg = .ok c2) :
    c2.doc.rule = mergeRule none (asSec oc.rule) ∧ c2.sevs = builtinSevs ∧ c2.doc.debug = some dbg := by
  unfold newConfig readConfigurationFiles at h
  simp only [List.foldlM_cons, List.foldlM_nil, bind, Except.bind, pure, Except.pure] at h
  cases h1 : processConfigFile env {} oc.toDoc with
  | error e => simp [h1] at h
  | ok d =>
    simp only [h1] at h
    unfold processConfigFile at h1
    simp only [bind, Except.bind, pure, Except.pure] at h1
    have hd : d.rule = mergeRule none (asSec oc.rule) ∧ d.severity = none := by
      cases hfl : oc.toDoc.fileList with
      | none =>
        simp only [hfl, Except.ok.injEq] at h1
        subst h1
        exact ⟨rfl, rfl⟩
      | some l =>
        simp only [hfl] at h1
        cases hp : processFileList env ({} : Doc).fileList l with
        | error e => simp [hp, Except.map] at h1
        | ok fl =>
          simp only [hp, Except.map, Except.ok.injEq] at h1
          subst h1
          exact ⟨rfl, rfl⟩
    have hs : createSevList d = .ok builtinSevs := by simp [createSevList, hd.2]
    simp only [hs, Except.ok.injEq] at h
    subst h
    exact ⟨hd.1, rfl, rfl⟩

theorem map_id_of_listRel (sevs : Option (List Sev)) (osec : Option RuleSec) (rs rs' : List RuleObj)
    (h : ListRel sevs osec rs rs') : rs'.map (·.id) = rs.map (·.id) := by
  obtain ⟨hl, hp⟩ := h
  apply List.ext_getElem?
  intro i
  simp only [List.getElem?_map]
  cases hr : rs[i]? with
  | none =>
    have : rs'[i]? = none := by
      rw [List.getElem?_eq_none_iff] at hr ⊢; omega
    simp [this]
  | some r =>
    obtain ⟨r', hr'⟩ := getElem?_of_length_eq rs rs' i r hl hr
    simp [hr', (hp i r r' hr hr').id]

/-- the core of the round trip, on the facts `rule_list.configure` guarantees about the re-configured
    object `r1` -/
theorem roundtrip_core (sl : List Sev) (sec : RuleSec) (r r0 r1 : RuleObj) (c : Attrs) (s : Sev)
    (hid : r0.id = r.id) (hc : getConfiguration r = .ok c) (hs : r.severity = some s)
    (hres : getSeverityNamed sl (.str s.name) = some s)
    (hsec : dget sec r0.id = some (.attrs c))
    (hk : ∀ a ∈ r.configuration, a ≠ "severity" → dhas r0.dict a = true)
    (hdict : ∀ a ∈ r.configuration, a ≠ "severity" →
      dget r1.dict a = pick (Spec.firstSome (Spec.secLevels sec r0 a)) (dget r0.dict a))
    (hsev : r1.severity = match Spec.firstSome (Spec.secLevels sec r0 "severity"), some sl with
      | some v, some sl => getSeverityNamed sl v
      | _, _ => r0.severity) :
    (∀ a ∈ r.configuration, a ≠ "severity" → dget r1.dict a = dget r.dict a) ∧ r1.severity = r.severity := by
  obtain ⟨s', hs', hn, hget, hsome⟩ := getConfiguration_spec r c hc
  rw [hs] at hs'; cases hs'
  have _ := hid
  constructor
  · intro a ha hne
    rw [hdict a ha hne]
    have hidl : Spec.idLevel sec r0 a = dget r.dict a := by
      simp only [Spec.idLevel, hsec]
      rw [dlast_eq_dget c a hn, hget a]
      simp [hne, ha]
    have hv := hsome a ha hne
    cases hv' : dget r.dict a with
    | none => simp [hv'] at hv
    | some v =>
      simp only [Spec.secLevels, Spec.guardDict, hk a ha hne, Bool.or_true, if_true, hidl, hv', Spec.firstSome, pick]
  · rw [hsev]
    have hidl : Spec.idLevel sec r0 "severity" = some (.str s.name) := by
      simp only [Spec.idLevel, hsec]
      rw [dlast_eq_dget c _ hn, hget "severity"]
      simp
    simp only [Spec.secLevels, Spec.guardDict, decide_true, Bool.true_or, if_true, hidl, Spec.firstSome]
    rw [hres, hs]

end Vsgm.Cfg.Lemmas
