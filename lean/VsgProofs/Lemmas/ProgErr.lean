/-
  Layer P: where exceptions can originate (C19).

  `ErrInv A m`: every exception `m` can end in satisfies `A`.  `err_run`: if `A` admits the "ambient" outcomes
  (TypeError, UnboundLocalError, AttributeError, ValueError, RecursionError and the interpreter's own
  `outOfFuel` / `unmodelled`), admits IndexError wherever the checker lets a subscript / fused store / `pop`
  occur, and admits ClassifyError wherever it lets `raise` occur, then EVERY evaluation — any table passing the
  check, any fuel — ends only in exceptions satisfying `A`.  One induction on the fuel.
  Instances: no `raise` in the table ⇒ never ClassifyError; no subscript / fused store / `pop` ⇒ never IndexError.
-/
import VsgModel.Prog.Check
import VsgModel.Prog.Eval
namespace Vsgm.Prog
open Vsgm Vsgm.Classify

def ErrInv (A : Err → Prop) (m : M α) : Prop := ∀ st e, (m st).1 = .error e → A e

/-- the outcomes no syntactic condition of this file excludes -/
structure Ambient (A : Err → Prop) : Prop where
  unm : A .unmodelled
  typ : A (.py .typeError)
  unb : A (.py .unboundLocal)
  att : A .attributeError
  val : A .valueError
  fuel : A .outOfFuel
  recu : A .recursionError

section
variable {A : Err → Prop}

theorem err_pure (a : α) : ErrInv A (pure a : M α) := fun _ _ h => by cases h
theorem err_raise {e : Err} (h : A e) : ErrInv A (raise e : M α) := fun _ _ h' => by cases h'; exact h
theorem err_unmod (hA : Ambient A) : ErrInv A (unmod : M α) := err_raise hA.unm
theorem err_typeErr (hA : Ambient A) : ErrInv A (typeErr : M α) := err_raise hA.typ
theorem err_indexErr (hI : A (.py .indexError)) : ErrInv A (indexErr : M α) := err_raise hI
theorem err_getSt : ErrInv A getSt := fun _ _ h => by cases h
theorem err_modSt (f : State → State) : ErrInv A (modSt f) := fun _ _ h => by cases h

theorem err_bind {m : M α} {f : α → M β} (hm : ErrInv A m) (hf : ∀ a, ErrInv A (f a)) : ErrInv A (m >>= f) := by
  intro st e h
  have h' : (M.bind m f st).1 = .error e := h
  unfold M.bind at h'
  cases hx : m st with
  | mk res st1 =>
    rw [hx] at h'
    cases res with
    | ok a => exact hf a st1 e h'
    | error x =>
      simp only at h'
      cases h'
      exact hm st _ (by rw [hx])

theorem err_ite {c : Prop} [Decidable c] {a b : M α} (ha : ErrInv A a) (hb : ErrInv A b) : ErrInv A (if c then a else b) := by
  split <;> assumption

theorem ErrInv.step {m : M α} (hm : ErrInv A m) {st : State} {e : Err} {st' : State}
    (h : m st = (.error e, st')) : A e := hm st e (by rw [h])

theorem err_getVar (hA : Ambient A) (x : Nat) : ErrInv A (getVar x) := by
  intro st e h
  unfold getVar at h
  split at h <;> first | (cases h; exact hA.unb) | cases h

theorem err_getGlobal (hA : Ambient A) (g : Nat) : ErrInv A (getGlobal g) := by
  intro st e h
  unfold getGlobal at h
  split at h <;> first | (cases h; exact hA.unm) | cases h

theorem err_allocList (vs : Array Val) : ErrInv A (allocList vs) := fun _ _ h => by cases h
theorem err_writeList (a : Nat) (l : Array Val) : ErrInv A (writeList a l) := fun _ _ h => by cases h
theorem err_setVar (x : Nat) (v : Val) : ErrInv A (setVar x v) := fun _ _ h => by cases h

theorem err_readList (hA : Ambient A) (a : Nat) : ErrInv A (readList a) := by
  intro st e h
  unfold readList at h
  split at h <;> first | (cases h; exact hA.unm) | cases h

/-- closes `ErrInv` goals of straight-line helper code; `hA : Ambient A` (and `hI` where needed) must be in scope -/
macro "err_tac" : tactic =>
  `(tactic| repeat (first
    | exact err_pure _ | exact err_getSt | exact err_modSt _
    | exact err_allocList _ | exact err_writeList _ _ | exact err_setVar _ _
    | assumption
    | exact err_unmod (by assumption) | exact err_typeErr (by assumption) | exact err_indexErr (by assumption)
    | exact err_getVar (by assumption) _ | exact err_getGlobal (by assumption) _ | exact err_readList (by assumption) _
    | exact err_raise (Ambient.att (by assumption)) | exact err_raise (Ambient.val (by assumption))
    | exact err_raise (Ambient.fuel (by assumption)) | exact err_raise (Ambient.unm (by assumption))
    | (refine err_bind ?_ (fun _ => ?_)) | (apply err_ite) | split))

theorem err_truthy (hA : Ambient A) (v : Val) : ErrInv A (truthy v) := by unfold truthy; err_tac

theorem err_memVals (hA : Ambient A) (x : Val) (l : List Val) : ErrInv A (memVals x l) := by
  induction l with
  | nil => exact err_pure _
  | cons v vs ih => unfold memVals; err_tac

theorem err_pyIn (hA : Ambient A) (x c : Val) : ErrInv A (pyIn x c) := by
  unfold pyIn
  split
  · exact err_bind (err_readList hA _) fun _ => err_memVals hA _ _
  · exact err_memVals hA _ _
  · err_tac
  · err_tac

theorem err_cmpVals (hA : Ambient A) (op : CmpOp) (x y : Val) : ErrInv A (cmpVals op x y) := by
  unfold cmpVals
  cases op <;> simp only <;>
    first
    | (split <;> first | exact err_pure _ | exact err_unmod hA)
    | exact err_bind (err_pyIn hA _ _) fun _ => err_pure _
    | err_tac

theorem err_binopVals (hA : Ambient A) (op : BinOp) (x y : Val) : ErrInv A (binopVals op x y) := by
  unfold binopVals; err_tac

theorem err_indexVal (hA : Ambient A) (hI : A (.py .indexError)) (lv iv : Val) : ErrInv A (indexVal lv iv) := by
  unfold indexVal; err_tac

theorem err_optBound (hA : Ambient A) (n d : Nat) (o : Option Val) : ErrInv A (optBound n d o) := by
  unfold optBound; err_tac

theorem err_sliceVal (hA : Ambient A) (lv : Val) (lo hi : Option Val) : ErrInv A (sliceVal lv lo hi) := by
  unfold sliceVal
  split
  · exact err_bind err_getSt fun _ => err_bind (err_optBound hA _ _ _) fun _ => err_bind (err_optBound hA _ _ _) fun _ => err_allocList _
  · exact err_bind (err_readList hA _) fun _ => err_bind (err_optBound hA _ _ _) fun _ => err_bind (err_optBound hA _ _ _) fun _ => err_allocList _
  · exact err_bind (err_optBound hA _ _ _) fun _ => err_bind (err_optBound hA _ _ _) fun _ => err_pure _
  · exact err_unmod hA

theorem err_toksSet (k : Nat) (t : CTok) : ErrInv A (toksSet k t) := fun _ _ h => by cases h
theorem err_toksInsert (i : Int) (t : CTok) : ErrInv A (toksInsert i t) := fun _ _ h => by cases h

theorem err_toksPop (hI : A (.py .indexError)) (i : Int) : ErrInv A (toksPop i) := by
  intro st e h
  unfold toksPop at h
  split at h
  · split at h
    · cases h
    · cases h; exact hI
  · cases h; exact hI

theorem err_storeIndex (hA : Ambient A) (hI : A (.py .indexError)) (lv iv v : Val) : ErrInv A (storeIndex lv iv v) := by
  unfold storeIndex
  split
  · split <;> first | exact err_unmod hA | exact err_typeErr hA
  · split
    · refine err_bind err_getSt fun st => ?_
      split
      · exact err_toksSet _ _
      · exact err_unmod hA
      · exact err_indexErr hI
    · refine err_bind (err_readList hA _) fun l => ?_
      split
      · exact err_writeList _ _
      · exact err_indexErr hI
    · exact err_typeErr hA
    · exact err_unmod hA

theorem err_constructP (hA : Ambient A) (S : Sys) (c : Nat) (args : List Val) (e : Err)
    (h : constructP S c args = .error e) : A e := by
  unfold constructP at h
  repeat' split at h
  all_goals first
    | (cases h; first | exact hA.unm | exact hA.typ | exact hA.att)
    | cases h

theorem err_construct (hA : Ambient A) (S : Sys) (c : Nat) (args : List Val) : ErrInv A (construct S c args) :=
  fun _ e h => err_constructP hA S c args e h

theorem err_getAttr (hA : Ambient A) (S : Sys) (v : Val) (n : Nat) : ErrInv A (getAttr S v n) := by unfold getAttr; err_tac
theorem err_strArg (hA : Ambient A) (v : Val) : ErrInv A (strArg v) := by unfold strArg; err_tac
theorem err_tokArg (hA : Ambient A) (v : Val) : ErrInv A (tokArg v) := by unfold tokArg; err_tac
theorem err_isinstanceV (hA : Ambient A) (S : Sys) (o c : Val) : ErrInv A (isinstanceV S o c) := by unfold isinstanceV; err_tac
theorem err_toIter (hA : Ambient A) (v : Val) : ErrInv A (toIter v) := by unfold toIter; err_tac

theorem err_strArgs (hA : Ambient A) (l : List Val) : ErrInv A (strArgs l) := by
  induction l with
  | nil => exact err_pure _
  | cons v vs ih =>
    unfold strArgs
    exact err_bind (err_strArg hA _) fun _ => err_bind ih fun _ => err_pure _

macro "err_tac2" : tactic =>
  `(tactic| repeat (first
    | exact err_pure _ | exact err_getSt | exact err_modSt _
    | exact err_allocList _ | exact err_writeList _ _ | exact err_setVar _ _
    | exact err_toksInsert _ _ | exact err_toksSet _ _
    | assumption
    | exact err_unmod (by assumption) | exact err_typeErr (by assumption) | exact err_indexErr (by assumption)
    | exact err_readList (by assumption) _ | exact err_tokArg (by assumption) _ | exact err_strArg (by assumption) _
    | exact err_strArgs (by assumption) _ | exact err_isinstanceV (by assumption) _ _ _
    | exact err_toksPop (by assumption) _
    | (refine err_bind ?_ (fun _ => ?_)) | (apply err_ite) | split))

/-- can `p(vs)` end in IndexError? only `pop` -/
theorem err_doPrim (hA : Ambient A) (S : Sys) (p : Prim) (vs : List Val) (hI : p = .listPop → A (.py .indexError)) :
    ErrInv A (doPrim S p vs) := by
  unfold doPrim
  split <;> first
    | (have hI' := hI rfl; err_tac2; done)
    | (err_tac2; done)

end

/-- what an instance has to provide: which exceptions the checker's admitted constructs may raise -/
structure ErrSound (A : Err → Prop) (C : Chk) : Prop where
  amb : Ambient A
  index : C.index = true → A (.py .indexError)
  store : C.idxStore = true → A (.py .indexError)
  retag : ∀ b, C.retag b = true → A (.py .indexError)
  pop : ∀ args, C.prim .listPop args = true → A (.py .indexError)
  raise : C.raise = true → A (.py .classifyError)

structure RecErr (A : Err → Prop) (C : Chk) (R : Rec) : Prop where
  expr : ∀ e, e.ok C = true → ErrInv A (R.expr e)
  stmt : ∀ s, s.ok C = true → ErrInv A (R.stmt s)
  call : ∀ f args, ErrInv A (R.call f args)

section
variable {A : Err → Prop} {C : Chk} {R : Rec} {S : Sys}

theorem err_evalArgs (hR : ∀ e, e.ok C = true → ErrInv A (R.expr e)) :
    ∀ es, Expr.okList C es = true → ErrInv A (evalArgs R es)
  | [], _ => err_pure _
  | e :: es, h => by
    have h' : e.ok C = true ∧ Expr.okList C es = true := by simpa [Expr.okList] using h
    intro st x hx
    unfold evalArgs at hx
    cases h1 : R.expr e st with
    | mk res st1 =>
      rw [h1] at hx
      cases res with
      | error y => simp only at hx; cases hx; exact (hR e h'.1).step h1
      | ok v =>
        simp only at hx
        cases h2 : evalArgs R es st1 with
        | mk res2 st2 =>
          rw [h2] at hx
          cases res2 with
          | error y => simp only at hx; cases hx; exact (err_evalArgs hR es h'.2).step h2
          | ok vs => cases hx

theorem err_evalOpt (hR : ∀ e, e.ok C = true → ErrInv A (R.expr e)) (o : Option Expr) (h : Expr.okOpt C o = true) :
    ErrInv A (evalOpt R o) := by
  cases o with
  | none => exact err_pure _
  | some e =>
    simp only [evalOpt]
    exact err_bind (hR e (by simpa [Expr.okOpt] using h)) fun _ => err_pure _

theorem err_applyVal (hS : ErrSound A C) (hR : RecErr A C R) (f : Val) (args : List Val) : ErrInv A (applyVal S R f args) := by
  unfold applyVal
  split
  · exact err_construct hS.amb _ _ _
  · exact hR.call _ _
  · exact err_typeErr hS.amb
  · exact err_unmod hS.amb

theorem err_stepExpr (hS : ErrSound A C) (hR : RecErr A C R) (e : Expr) (h : e.ok C = true) : ErrInv A (stepExpr S R e) := by
  have hE := hR.expr
  have hA := hS.amb
  cases e with
  | none => exact err_pure _
  | bool b => exact err_pure _
  | int i => exact err_pure _
  | str s => exact err_pure _
  | var x => exact err_getVar hA _
  | glob g => exact err_getGlobal hA _
  | clsC c => exact err_pure _
  | modC m => exact err_pure _
  | fnC f => exact err_pure _
  | regexC f => exact err_pure _
  | list es =>
    simp only [stepExpr]
    exact err_bind (err_evalArgs hE es (by simpa [Expr.ok] using h)) fun _ => err_allocList _
  | tuple es =>
    simp only [stepExpr]
    exact err_bind (err_evalArgs hE es (by simpa [Expr.ok] using h)) fun _ => err_pure _
  | binop op a b =>
    have h' : a.ok C = true ∧ b.ok C = true := by simpa [Expr.ok] using h
    simp only [stepExpr]
    exact err_bind (hE a h'.1) fun _ => err_bind (hE b h'.2) fun _ => err_binopVals hA _ _ _
  | neg a =>
    simp only [stepExpr]
    refine err_bind (hE a (by simpa [Expr.ok] using h)) fun _ => ?_
    split
    · exact err_pure _
    · exact err_typeErr hA
  | cmp op a b =>
    have h' : a.ok C = true ∧ b.ok C = true := by simpa [Expr.ok] using h
    simp only [stepExpr]
    exact err_bind (hE a h'.1) fun _ => err_bind (hE b h'.2) fun _ => err_cmpVals hA _ _ _
  | and a b =>
    have h' : a.ok C = true ∧ b.ok C = true := by simpa [Expr.ok] using h
    simp only [stepExpr]
    refine err_bind (hE a h'.1) fun _ => err_bind (err_truthy hA _) fun t => ?_
    split
    · exact hE b h'.2
    · exact err_pure _
  | or a b =>
    have h' : a.ok C = true ∧ b.ok C = true := by simpa [Expr.ok] using h
    simp only [stepExpr]
    refine err_bind (hE a h'.1) fun _ => err_bind (err_truthy hA _) fun t => ?_
    split
    · exact err_pure _
    · exact hE b h'.2
  | not a =>
    simp only [stepExpr]
    exact err_bind (hE a (by simpa [Expr.ok] using h)) fun _ => err_bind (err_truthy hA _) fun _ => err_pure _
  | index l i =>
    have h' : (C.index = true ∧ l.ok C = true) ∧ i.ok C = true := by simpa [Expr.ok] using h
    simp only [stepExpr]
    exact err_bind (hE l h'.1.2) fun _ => err_bind (hE i h'.2) fun _ => err_indexVal hA (hS.index h'.1.1) _ _
  | slice l lo hi =>
    have h' : (l.ok C = true ∧ Expr.okOpt C lo = true) ∧ Expr.okOpt C hi = true := by simpa [Expr.ok] using h
    simp only [stepExpr]
    exact err_bind (hE l h'.1.1) fun _ => err_bind (err_evalOpt hE lo h'.1.2) fun _ =>
      err_bind (err_evalOpt hE hi h'.2) fun _ => err_sliceVal hA _ _ _
  | attr e n =>
    simp only [stepExpr]
    exact err_bind (hE e (by simpa [Expr.ok] using h)) fun _ => err_getAttr hA _ _ _
  | call f args =>
    have h' : f.ok C = true ∧ Expr.okList C args = true := by simpa [Expr.ok] using h
    simp only [stepExpr]
    exact err_bind (hE f h'.1) fun _ => err_bind (err_evalArgs hE args h'.2) fun _ => err_applyVal hS hR _ _
  | callF f args =>
    simp only [stepExpr]
    exact err_bind (err_evalArgs hE args (by simpa [Expr.ok] using h)) fun _ => hR.call _ _
  | prim p args =>
    have h' : C.prim p args = true ∧ Expr.okList C args = true := by simpa [Expr.ok] using h
    simp only [stepExpr]
    exact err_bind (err_evalArgs hE args h'.2) fun _ => err_doPrim hA S p _ (fun hp => hS.pop args (hp ▸ h'.1))
  | fstr ps =>
    simp only [stepExpr]
    refine err_bind (err_evalArgs hE ps (by simpa [Expr.ok] using h)) fun _ => ?_
    split
    · exact err_pure _
    · exact err_unmod hA

theorem err_execBlock (hR : ∀ s, s.ok C = true → ErrInv A (R.stmt s)) :
    ∀ ss, Stmt.okBlock C ss = true → ErrInv A (execBlock R ss)
  | [], _ => err_pure _
  | s :: ss, h => by
    have h' : s.ok C = true ∧ Stmt.okBlock C ss = true := by simpa [Stmt.okBlock] using h
    intro st x hx
    unfold execBlock at hx
    cases h1 : R.stmt s st with
    | mk res st1 =>
      rw [h1] at hx
      cases res with
      | error y => simp only at hx; cases hx; exact (hR s h'.1).step h1
      | ok f =>
        cases f with
        | normal => simp only at hx; exact err_execBlock hR ss h'.2 st1 x hx
        | brk => cases hx
        | cont => cases hx
        | ret v => cases hx

theorem err_assignSimple (hS : ErrSound A C) (hR : RecErr A C R) (t : Target) (h : t.okSimple C = true) (v : Val) :
    ErrInv A (assignSimple R t v) := by
  cases t with
  | var x => exact err_setVar _ _
  | tuple ts => exact err_unmod hS.amb
  | index l i =>
    have h' : (C.idxStore = true ∧ l.ok C = true) ∧ i.ok C = true := by simpa [Target.okSimple] using h
    simp only [assignSimple]
    exact err_bind (hR.expr l h'.1.2) fun _ => err_bind (hR.expr i h'.2) fun _ =>
      err_storeIndex hS.amb (hS.store h'.1.1) _ _ _

theorem err_assignMany (hS : ErrSound A C) (hR : RecErr A C R) :
    ∀ (ts : List Target) (vs : List Val), ts.all (Target.okSimple C) = true → ErrInv A (assignMany R ts vs)
  | [], [], _ => err_pure _
  | [], _ :: _, _ => err_raise hS.amb.val
  | _ :: _, [], _ => err_raise hS.amb.val
  | t :: ts, v :: vs, h => by
    have h' : t.okSimple C = true ∧ ts.all (Target.okSimple C) = true := by simpa using h
    simp only [assignMany]
    exact err_bind (err_assignSimple hS hR t h'.1 v) fun _ => err_assignMany hS hR ts vs h'.2

theorem err_assignTarget (hS : ErrSound A C) (hR : RecErr A C R) (t : Target) (h : t.ok C = true) (v : Val) :
    ErrInv A (assignTarget R t v) := by
  cases t with
  | var x => exact err_assignSimple hS hR _ (by simpa [Target.ok] using h) v
  | index l i => exact err_assignSimple hS hR _ (by simpa [Target.ok] using h) v
  | tuple ts =>
    have h' : ts.all (Target.okSimple C) = true := by simpa [Target.ok] using h
    simp only [assignTarget]
    split
    · exact err_assignMany hS hR ts _ h'
    · exact err_bind (err_readList hS.amb _) fun _ => err_assignMany hS hR ts _ h'
    · exact err_unmod hS.amb
    · exact err_typeErr hS.amb

theorem err_mkIter (hS : ErrSound A C) (hR : RecErr A C R) (it : IterE) (h : it.ok C = true) : ErrInv A (mkIter R it) := by
  have hE := hR.expr
  have hA := hS.amb
  cases it with
  | range args =>
    simp only [mkIter]
    refine err_bind (err_evalArgs hE args (by simpa [IterE.ok] using h)) fun _ => ?_
    split
    · exact err_pure _
    · exact err_pure _
    · split
      · exact err_raise hA.val
      · exact err_pure _
    · split
      · exact err_unmod hA
      · exact err_typeErr hA
  | enumFrom l s =>
    have h' : l.ok C = true ∧ s.ok C = true := by simpa [IterE.ok] using h
    simp only [mkIter]
    refine err_bind (hE l h'.1) fun _ => err_bind (hE s h'.2) fun _ => ?_
    split
    · exact err_bind err_getSt fun _ => err_bind (err_optBound hA _ _ _) fun _ => err_pure _
    · exact err_bind (err_readList hA _) fun _ => err_bind (err_optBound hA _ _ _) fun _ => err_pure _
    · exact err_typeErr hA
    · exact err_unmod hA
  | enumerate e =>
    simp only [mkIter]
    exact err_bind (hE e (by simpa [IterE.ok] using h)) fun _ => err_bind (err_toIter hA _) fun _ => err_pure _
  | plain e =>
    simp only [mkIter]
    exact err_bind (hE e (by simpa [IterE.ok] using h)) fun _ => err_toIter hA _

theorem err_whileLoop (hS : ErrSound A C) (hR : RecErr A C R) (ms : Nat) (c : Expr) (body : List Stmt)
    (hc : c.ok C = true) (hb : Stmt.okBlock C body = true) : ∀ k, ErrInv A (whileLoop ms R c body k)
  | 0 => err_raise hS.amb.fuel
  | k + 1 => by
    intro st x hx
    unfold whileLoop at hx
    split at hx
    · cases hx; exact hS.amb.fuel
    · cases h1 : R.expr c { st with steps := st.steps + 1 } with
      | mk res st1 =>
        rw [h1] at hx
        cases res with
        | error y => simp only at hx; cases hx; exact (hR.expr c hc).step h1
        | ok v =>
          simp only at hx
          cases h2 : truthy v st1 with
          | mk res2 st2 =>
            rw [h2] at hx
            cases res2 with
            | error y => simp only at hx; cases hx; exact (err_truthy hS.amb v).step h2
            | ok b =>
              cases b with
              | false => cases hx
              | true =>
                simp only at hx
                cases h3 : execBlock R body st2 with
                | mk res3 st3 =>
                  rw [h3] at hx
                  cases res3 with
                  | error y => simp only at hx; cases hx; exact (err_execBlock hR.stmt body hb).step h3
                  | ok f =>
                    cases f with
                    | brk => cases hx
                    | ret v => cases hx
                    | normal => simp only at hx; exact err_whileLoop hS hR ms c body hc hb k st3 x hx
                    | cont => simp only at hx; exact err_whileLoop hS hR ms c body hc hb k st3 x hx

theorem err_forLoop (hS : ErrSound A C) (hR : RecErr A C R) (ms : Nat) (t : Target) (body orelse : List Stmt)
    (ht : t.ok C = true) (hb : Stmt.okBlock C body = true) (ho : Stmt.okBlock C orelse = true) :
    ∀ k it, ErrInv A (forLoop ms R t body orelse k it)
  | 0, _ => err_raise hS.amb.fuel
  | k + 1, it => by
    intro st x hx
    unfold forLoop at hx
    split at hx
    · cases hx; exact hS.amb.fuel
    · split at hx
      · exact err_execBlock hR.stmt orelse ho st x hx
      · rename_i v it' _
        cases h1 : assignTarget R t v { st with steps := st.steps + 1 } with
        | mk res st1 =>
          rw [h1] at hx
          cases res with
          | error y => simp only at hx; cases hx; exact (err_assignTarget hS hR t ht v).step h1
          | ok u =>
            simp only at hx
            cases h3 : execBlock R body st1 with
            | mk res3 st3 =>
              rw [h3] at hx
              cases res3 with
              | error y => simp only at hx; cases hx; exact (err_execBlock hR.stmt body hb).step h3
              | ok f =>
                cases f with
                | brk => cases hx
                | ret v => cases hx
                | normal => simp only at hx; exact err_forLoop hS hR ms t body orelse ht hb ho k it' st3 x hx
                | cont => simp only at hx; exact err_forLoop hS hR ms t body orelse ht hb ho k it' st3 x hx

theorem okBlock_of_handler' {e : Err} : ∀ {hs : List (List Exc × List Stmt)} {b : List Stmt},
    Stmt.okHandlers C hs = true → findHandler e hs = some b → Stmt.okBlock C b = true
  | [], _, _, h => by simp [findHandler] at h
  | (xs, b') :: hs, b, hok, h => by
    have h' : Stmt.okBlock C b' = true ∧ Stmt.okHandlers C hs = true := by simpa [Stmt.okHandlers] using hok
    simp only [findHandler] at h
    split at h
    · cases h; exact h'.1
    · exact okBlock_of_handler' h'.2 h

theorem err_retag (hA : Ambient A) (hI : A (.py .indexError)) (l x c : Nat) (b : Bool) : ErrInv A (retag S l x c b) := by
  unfold retag
  refine err_bind (err_getVar hA _) fun cv => err_bind ?_ fun args => err_bind ?_ fun v =>
    err_bind (err_getVar hA _) fun lv => err_bind (err_getVar hA _) fun iv => err_storeIndex hA hI _ _ _
  · unfold retagArgs
    split
    · exact err_bind (err_getVar hA _) fun _ => err_bind (err_getVar hA _) fun _ =>
        err_bind (err_indexVal hA hI _ _) fun _ => err_bind (err_tokArg hA _) fun _ => err_pure _
    · exact err_pure _
  · unfold retagCtor
    split
    · exact err_construct hA _ _ _
    · exact err_typeErr hA
    · exact err_unmod hA

theorem err_stepStmt (hS : ErrSound A C) (hR : RecErr A C R) (n : Nat) (s : Stmt) (h : s.ok C = true) :
    ErrInv A (stepStmt S R n s) := by
  have hE := hR.expr
  have hA := hS.amb
  cases s with
  | assign t e =>
    have h' : t.ok C = true ∧ e.ok C = true := by simpa [Stmt.ok] using h
    simp only [stepStmt]
    exact err_bind (hE e h'.2) fun _ => err_bind (err_assignTarget hS hR t h'.1 _) fun _ => err_pure _
  | aug t op e =>
    have h' : t.ok C = true ∧ e.ok C = true := by simpa [Stmt.ok] using h
    simp only [stepStmt]
    split
    · exact err_bind (err_getVar hA _) fun _ => err_bind (hE e h'.2) fun _ =>
        err_bind (err_binopVals hA _ _ _) fun _ => err_bind (err_setVar _ _) fun _ => err_pure _
    · exact err_unmod hA
  | expr e =>
    simp only [stepStmt]
    exact err_bind (hE e (by simpa [Stmt.ok] using h)) fun _ => err_pure _
  | ite c t e =>
    have h' : (c.ok C = true ∧ Stmt.okBlock C t = true) ∧ Stmt.okBlock C e = true := by simpa [Stmt.ok] using h
    simp only [stepStmt]
    refine err_bind (hE c h'.1.1) fun _ => err_bind (err_truthy hA _) fun b => ?_
    split
    · exact err_execBlock hR.stmt t h'.1.2
    · exact err_execBlock hR.stmt e h'.2
  | «while» c b =>
    have h' : c.ok C = true ∧ Stmt.okBlock C b = true := by simpa [Stmt.ok] using h
    simp only [stepStmt]
    exact err_whileLoop hS hR _ c b h'.1 h'.2 n
  | «for» t it b o =>
    have h' : ((t.ok C = true ∧ it.ok C = true) ∧ Stmt.okBlock C b = true) ∧ Stmt.okBlock C o = true := by
      simpa [Stmt.ok] using h
    simp only [stepStmt]
    exact err_bind (err_mkIter hS hR it h'.1.1.2) fun _ => err_forLoop hS hR _ t b o h'.1.1.1 h'.1.2 h'.2 n _
  | ret e =>
    simp only [stepStmt]
    exact err_bind (hE e (by simpa [Stmt.ok] using h)) fun _ => err_pure _
  | brk => exact err_pure _
  | cont => exact err_pure _
  | pass => exact err_pure _
  | «try» b hs =>
    have h' : Stmt.okBlock C b = true ∧ Stmt.okHandlers C hs = true := by simpa [Stmt.ok] using h
    intro st x hx
    simp only [stepStmt] at hx
    cases h1 : execBlock R b st with
    | mk res st1 =>
      rw [h1] at hx
      cases res with
      | ok f => cases hx
      | error e =>
        simp only at hx
        split at hx
        · rename_i hb hfind
          exact err_execBlock hR.stmt hb (okBlock_of_handler' h'.2 hfind) st1 x hx
        · cases hx; exact (err_execBlock hR.stmt b h'.1).step h1
  | raise e =>
    have h' : C.raise = true ∧ e.ok C = true := by simpa [Stmt.ok] using h
    simp only [stepStmt]
    refine err_bind (hE e h'.2) fun v => ?_
    split
    · exact err_bind (err_modSt _) fun _ => err_raise (hS.raise h'.1)
    · exact err_unmod hA
  | del l i => exact err_unmod hA
  | retag l x c b =>
    simp only [stepStmt]
    exact err_bind (err_retag hA (hS.retag b (by simpa [Stmt.ok] using h)) l x c b) fun _ => err_pure _

theorem okList_drop' : ∀ (es : List Expr) (k : Nat), Expr.okList C es = true → Expr.okList C (es.drop k) = true
  | es, 0, h => by simpa using h
  | [], _ + 1, _ => by simp [Expr.okList]
  | e :: es, k + 1, h => by
    have h' : e.ok C = true ∧ Expr.okList C es = true := by simpa [Expr.okList] using h
    simpa using okList_drop' es k h'.2

theorem err_stepCall (hS : ErrSound A C) (hR : RecErr A C R) (htab : ∀ fd ∈ S.funs.toList, fd.ok C = true)
    (f : Nat) (args : List Val) : ErrInv A (stepCall S R f args) := by
  have hA := hS.amb
  intro st x hx
  unfold stepCall at hx
  split at hx
  · cases hx; exact hA.unm
  · rename_i fd hfd
    have hmem : fd ∈ S.funs.toList := Array.mem_toList_iff.mpr (Array.mem_of_getElem? hfd)
    have hok' : Expr.okList C fd.defaults = true ∧ Stmt.okBlock C fd.body = true := by
      simpa [FunDef.ok] using htab fd hmem
    split at hx
    · cases hx; exact hA.unm
    · split at hx
      · cases hx; exact hA.typ
      · split at hx
        · cases hx; exact hA.recu
        · split at hx
          · cases hx; exact hA.fuel
          · cases h1 : evalArgs R (fd.defaults.drop (args.length + fd.defaults.length - fd.nparams)) st with
            | mk res st1 =>
              rw [h1] at hx
              cases res with
              | error y =>
                simp only at hx; cases hx
                exact (err_evalArgs hR.expr _ (okList_drop' fd.defaults _ hok'.1)).step h1
              | ok dv =>
                simp only at hx
                cases h3 : execBlock R fd.body { st1 with frame := mkFrame fd.nlocals (args ++ dv), depth := st1.depth + 1, steps := st1.steps + 1, calls := st1.calls.modify f (· + 1) } with
                | mk res3 st3 =>
                  rw [h3] at hx
                  cases res3 with
                  | error y => simp only at hx; cases hx; exact (err_execBlock hR.stmt fd.body hok'.2).step h3
                  | ok fl => cases fl <;> cases hx

/-- every evaluation ends only in exceptions the instance admits -/
theorem err_run (hS : ErrSound A C) (htab : ∀ fd ∈ S.funs.toList, fd.ok C = true) : ∀ n, RecErr A C (run S n)
  | 0 =>
    { expr := fun _ _ => err_raise hS.amb.fuel, stmt := fun _ _ => err_raise hS.amb.fuel
      call := fun _ _ => err_raise hS.amb.fuel }
  | n + 1 =>
    have ih := err_run hS htab n
    { expr := fun e h => err_stepExpr hS ih e h
      stmt := fun s h => err_stepStmt hS ih n s h
      call := fun f args => err_stepCall hS ih htab f args }

end

/-! ### instances -/

theorem ambient_ne (x : Err) (h1 : x ≠ .unmodelled) (h2 : x ≠ .py .typeError) (h3 : x ≠ .py .unboundLocal)
    (h4 : x ≠ .attributeError) (h5 : x ≠ .valueError) (h6 : x ≠ .outOfFuel) (h7 : x ≠ .recursionError) :
    Ambient (fun e => e ≠ x) :=
  ⟨fun h => h1 h.symm, fun h => h2 h.symm, fun h => h3 h.symm, fun h => h4 h.symm, fun h => h5 h.symm,
   fun h => h6 h.symm, fun h => h7 h.symm⟩

theorem errSound_noRaise : ErrSound (fun e => e ≠ .py .classifyError) Chk.noRaise where
  amb := ambient_ne _ (by simp) (by simp) (by simp) (by simp) (by simp) (by simp) (by simp)
  index := fun _ => by simp
  store := fun _ => by simp
  retag := fun _ _ => by simp
  pop := fun _ _ => by simp
  raise := fun h => by simp [Chk.noRaise] at h

theorem errSound_noIndex : ErrSound (fun e => e ≠ .py .indexError) Chk.noIndex where
  amb := ambient_ne _ (by simp) (by simp) (by simp) (by simp) (by simp) (by simp) (by simp)
  index := fun h => by simp [Chk.noIndex] at h
  store := fun h => by simp [Chk.noIndex] at h
  retag := fun _ h => by simp [Chk.noIndex] at h
  pop := fun _ h => by simp [Chk.noIndex, noIdxPrim] at h
  raise := fun _ => by simp

/-- no `raise` statement in the table ⇒ no call ends in ClassifyError -/
theorem call_no_classifyError (S : Sys) (htab : ∀ fd ∈ S.funs.toList, fd.ok Chk.noRaise = true)
    (n f : Nat) (args : List Val) (st : State) : ((run S n).call f args st).1 ≠ .error (.py .classifyError) :=
  fun h => (err_run errSound_noRaise htab n).call f args st _ h rfl

/-- no subscript read, no subscript store, no fused store, no `pop` in the table ⇒ no call ends in IndexError -/
theorem call_no_indexError (S : Sys) (htab : ∀ fd ∈ S.funs.toList, fd.ok Chk.noIndex = true)
    (n f : Nat) (args : List Val) (st : State) : ((run S n).call f args st).1 ≠ .error (.py .indexError) :=
  fun h => (err_run errSound_noIndex htab n).call f args st _ h rfl

end Vsgm.Prog
