/-
  Effects of the whitespace family at the level of `fixByOwner` (what the harness replays).
-/
import VsgProofs.Lemmas.BaseWsDispatch

deriving instance DecidableEq for Except

namespace Vsgm.Base
open Vsgm

theorem layoutOnlyW_of_layoutOnly {a b : List Tok} (h : LayoutOnly a b) : Verdict.layoutOnlyW a b = true := by
  unfold Verdict.layoutOnlyW; unfold LayoutOnly at h; rw [h]; simp

theorem ws_layout_mem (owner : String) (ho : owner ∈ wsLayoutOwners) : owner ∈ wsOwners := by
  unfold wsOwners; exact List.mem_append_left _ ho

theorem ws_layoutOnly (owner : String) (params action : KV) (old new : List Tok)
    (ho : owner ∈ wsLayoutOwners ∨ (owner = ws002Owner ∧ Ws002.isCommentAction action = false))
    (h : wsFixByOwner owner params action old = some (.ok new))
    (hg : wsGuard (fun k => k.isLayout) owner params action old = true) : LayoutOnly old new :=
  steps_layoutOnly (wsFix_steps (P := fun k => k.isLayout = true) (fun k => k.isLayout) (fun _ h => h) rfl
    owner params action old new ho h hg)

theorem ws_crSeq_steps (owner : String) (params action : KV) (old new : List Tok)
    (ho : owner ∈ wsLayoutOwners ∨ (owner = ws002Owner ∧ Ws002.isCommentAction action = false))
    (h : wsFixByOwner owner params action old = some (.ok new))
    (hg : wsGuard (fun k => k != .cr) owner params action old = true) : crSeq old = crSeq new :=
  steps_crSeq (wsFix_steps (P := fun k => k ≠ .cr) (fun k => k != .cr) (fun _ h => by simpa using h) (by decide)
    owner params action old new ho h hg)

/-- unfolding `wsFixByOwner` / `wsGuard` at the two comment owners -/
theorem wsFix_ws002 (params action : KV) (old : List Tok) :
    wsFixByOwner ws002Owner params action old = some (Ws002.fixV Gen.wsCls Gen.commentCls action old) := by
  have e1 : (ws002Owner == wsBetweenOwner) = false := by decide
  have e2 : (ws002Owner == nSpacesOwner) = false := by decide
  have e3 : (ws002Owner == boundedOwner) = false := by decide
  have e4 : (ws002Owner == removeBeforeOwner) = false := by decide
  have e5 : (ws002Owner == ws001Owner) = false := by decide
  simp only [wsFixByOwner, e1, e2, e3, e4, e5, Bool.false_eq_true, if_false, beq_self_eq_true, if_true]

theorem wsGuard_ws002 (P : Kind → Bool) (params action : KV) (old : List Tok) :
    wsGuard P ws002Owner params action old =
      (if Ws002.isCommentAction action then Ws002.commentGuard Gen.commentCls old else Ws002.guard P old) := by
  have e1 : (ws002Owner == wsBetweenOwner) = false := by decide
  have e2 : (ws002Owner == nSpacesOwner) = false := by decide
  have e3 : (ws002Owner == boundedOwner) = false := by decide
  have e4 : (ws002Owner == removeBeforeOwner) = false := by decide
  have e5 : (ws002Owner == ws001Owner) = false := by decide
  simp only [wsGuard, e1, e2, e3, e4, e5, Bool.false_eq_true, if_false, beq_self_eq_true, if_true]

theorem wsFix_comment100 (params action : KV) (old : List Tok) :
    wsFixByOwner comment100Owner params action old = some (Comment100.fixV action old) := by
  have e1 : (comment100Owner == wsBetweenOwner) = false := by decide
  have e2 : (comment100Owner == nSpacesOwner) = false := by decide
  have e3 : (comment100Owner == boundedOwner) = false := by decide
  have e4 : (comment100Owner == removeBeforeOwner) = false := by decide
  have e5 : (comment100Owner == ws001Owner) = false := by decide
  have e6 : (comment100Owner == ws002Owner) = false := by decide
  have e7 : (comment100Owner == ws005Owner) = false := by decide
  have e8 : (comment100Owner == ws008Owner) = false := by decide
  simp only [wsFixByOwner, e1, e2, e3, e4, e5, e6, e7, e8, Bool.false_eq_true, if_false, beq_self_eq_true, if_true]

theorem wsGuard_comment100 (P : Kind → Bool) (params action : KV) (old : List Tok) :
    wsGuard P comment100Owner params action old = Comment100.guard action old := by
  have e1 : (comment100Owner == wsBetweenOwner) = false := by decide
  have e2 : (comment100Owner == nSpacesOwner) = false := by decide
  have e3 : (comment100Owner == boundedOwner) = false := by decide
  have e4 : (comment100Owner == removeBeforeOwner) = false := by decide
  have e5 : (comment100Owner == ws001Owner) = false := by decide
  have e6 : (comment100Owner == ws002Owner) = false := by decide
  have e7 : (comment100Owner == ws005Owner) = false := by decide
  have e8 : (comment100Owner == ws008Owner) = false := by decide
  simp only [wsGuard, e1, e2, e3, e4, e5, e6, e7, e8, Bool.false_eq_true, if_false, beq_self_eq_true, if_true]

/-- every owner of the family: nothing but layout tokens and blanks / tabs inside comment values change -/
theorem ws_layoutOnlyW (owner : String) (params action : KV) (old new : List Tok) (ho : owner ∈ wsOwners)
    (h : wsFixByOwner owner params action old = some (.ok new))
    (hg : wsGuard (fun k => k.isLayout) owner params action old = true) : Verdict.layoutOnlyW old new = true := by
  unfold wsOwners at ho
  rcases List.mem_append.mp ho with hl | hc
  · exact layoutOnlyW_of_layoutOnly (ws_layoutOnly owner params action old new (Or.inl hl) h hg)
  · simp only [wsCommentOwners, List.mem_cons, List.not_mem_nil, or_false] at hc
    rcases hc with rfl | rfl
    · by_cases hact : Ws002.isCommentAction action = true
      · rw [wsFix_ws002] at h
        rw [wsGuard_ws002, if_pos hact] at hg
        exact Ws002.fixV_comment_layoutOnlyW _ _ action old new hact (by simpa using h) hg
      · have hact' : Ws002.isCommentAction action = false := by simpa using hact
        exact layoutOnlyW_of_layoutOnly (ws_layoutOnly _ params action old new (Or.inr ⟨rfl, hact'⟩) h hg)
    · rw [wsFix_comment100] at h
      rw [wsGuard_comment100] at hg
      exact Comment100.fixV_layoutOnlyW action old new (by simpa using h) hg

/-- every owner of the family keeps the code sequence -/
theorem ws_codeSeq (fold : Str → Str) (owner : String) (params action : KV) (old new : List Tok) (ho : owner ∈ wsOwners)
    (h : wsFixByOwner owner params action old = some (.ok new))
    (hg : wsGuard (fun k => k.isLayout) owner params action old = true) : codeSeq fold old = codeSeq fold new := by
  unfold wsOwners at ho
  rcases List.mem_append.mp ho with hl | hc
  · exact (ws_layoutOnly owner params action old new (Or.inl hl) h hg).codeSeq fold
  · simp only [wsCommentOwners, List.mem_cons, List.not_mem_nil, or_false] at hc
    rcases hc with rfl | rfl
    · by_cases hact : Ws002.isCommentAction action = true
      · rw [wsFix_ws002] at h
        rw [wsGuard_ws002, if_pos hact] at hg
        apply Ws002.fixV_comment_codeSeq fold _ _ action old new hact (by simpa using h)
        intro t ht
        unfold Ws002.commentGuard at hg
        simp only [ht, Bool.and_eq_true, beq_iff_eq] at hg
        simp [Tok.isCode, hg.2]
      · have hact' : Ws002.isCommentAction action = false := by simpa using hact
        exact (ws_layoutOnly _ params action old new (Or.inr ⟨rfl, hact'⟩) h hg).codeSeq fold
    · rw [wsFix_comment100] at h
      rw [wsGuard_comment100] at hg
      apply Comment100.fixV_codeSeq fold action old new (by simpa using h)
      intro t ht
      unfold Comment100.guard at hg
      simp only [ht, Bool.and_eq_true] at hg
      exact notCode_of_guard t (by simpa using hg.2)

/-- every owner of the family keeps the sequence of line breaks -/
theorem ws_crSeq (owner : String) (params action : KV) (old new : List Tok) (ho : owner ∈ wsOwners)
    (h : wsFixByOwner owner params action old = some (.ok new))
    (hg : wsGuard (fun k => k != .cr) owner params action old = true) : crSeq old = crSeq new := by
  unfold wsOwners at ho
  rcases List.mem_append.mp ho with hl | hc
  · exact ws_crSeq_steps owner params action old new (Or.inl hl) h hg
  · simp only [wsCommentOwners, List.mem_cons, List.not_mem_nil, or_false] at hc
    rcases hc with rfl | rfl
    · by_cases hact : Ws002.isCommentAction action = true
      · rw [wsFix_ws002] at h
        rw [wsGuard_ws002, if_pos hact] at hg
        exact (crSeq_of_kinds (Ws002.fixV_comment_kinds _ _ action old new hact (by simpa using h) hg)).symm
      · have hact' : Ws002.isCommentAction action = false := by simpa using hact
        exact ws_crSeq_steps _ params action old new (Or.inr ⟨rfl, hact'⟩) h hg
    · rw [wsFix_comment100] at h
      exact (crSeq_of_kinds (Comment100.fixV_kinds action old new (by simpa using h))).symm

/-! ### "a comment never absorbs what follows it", in every context -/

/-- whitespace_between_tokens: safe unless the fix INSERTS a whitespace directly after a comment / pragma
    (`lTokens[0]` is a comment and `lTokens[1]` is not whitespace) -/
theorem WsBetween.fixV_celSafe (wsCls : Nat) (nos : NoS) (action : KV) (l r : List Tok)
    (hg : ∀ t ∈ WsBetween.touched nos l, t.kind ≠ .cr)
    (hq : nos ≠ .int 0 → ∀ t1, l[1]? = some t1 → t1.kind ≠ .ws → prevNotCmt l[0]?)
    (h : WsBetween.fixV wsCls nos action l = .ok r) : CelSafe l r :=
  steps_celSafe (WsBetween.fixV_steps (P := fun k => k ≠ .cr) (Q := prevNotCmt) wsCls nos action l r (by decide) hg hq h)

theorem RemoveBefore.fixV_celSafe (l r : List Tok) (hg : ∀ t, l.head? = some t → t.kind ≠ .cr)
    (h : RemoveBefore.fixV l = .ok r) : CelSafe l r :=
  steps_celSafe (RemoveBefore.fixV_steps (P := fun k => k ≠ .cr) (Q := prevNotCmt) l r hg h)

theorem Ws005.fixV_celSafe (l r : List Tok) (hg : ∀ t, l.dropLast.getLast? = some t → t.kind ≠ .cr)
    (h : Ws005.fixV l = .ok r) : CelSafe l r :=
  steps_celSafe (Ws005.fixV_steps (P := fun k => k ≠ .cr) (Q := prevNotCmt) l r hg h)

theorem Ws008.fixV_celSafe (l r : List Tok) (hg : ∀ t, l.getLast? = some t → t.kind ≠ .cr)
    (h : Ws008.fixV l = .ok r) : CelSafe l r :=
  steps_celSafe (Ws008.fixV_steps (P := fun k => k ≠ .cr) (Q := prevNotCmt) l r hg h)

/-- whitespace_001: safe when the first token of the region is not itself a comment (it is a line break
    when a blank line is inserted) -/
theorem Ws001.fixV_celSafe (blankCls : Nat) (action : KV) (l r : List Tok) (hlen : 2 ≤ l.length)
    (hg : ∀ t ∈ (l.drop 1).dropLast, t.kind ≠ .cr) (hq : ∀ first, l[0]? = some first → first.kind.isCmt = false)
    (h : Ws001.fixV blankCls action l = .ok r) : CelSafe l r :=
  steps_celSafe (Ws001.fixV_stepsQ (P := fun k => k ≠ .cr) (Q := prevNotCmt) blankCls action l r hlen hg
    (fun first hf x hx => by cases hx; exact hq first hf) h)

theorem Comment100.fixV_celSafe (action : KV) (l r : List Tok) (h : Comment100.fixV action l = .ok r) : CelSafe l r :=
  celSafe_of_kinds (Comment100.fixV_kinds action l r h).symm

theorem Ws002.fixV_comment_celSafe (wsCls commentCls : Nat) (action : KV) (l r : List Tok)
    (hact : Ws002.isCommentAction action = true) (h : Ws002.fixV wsCls commentCls action l = .ok r)
    (hg : Ws002.commentGuard commentCls l = true) : CelSafe l r :=
  celSafe_of_kinds (Ws002.fixV_comment_kinds wsCls commentCls action l r hact h hg).symm

/-! ### regions without any comment: every owner of the family is safe in every context -/

def NoCmt (ks : List Kind) : Prop := ∀ k ∈ ks, k.isCmt = false

theorem celK_noCmt_prefix (M S : List Kind) (hM : NoCmt M) : celK (M ++ S) = celK S := by
  induction M with
  | nil => rfl
  | cons m M ih =>
    rw [List.cons_append, celK_cons_noncmt m _ (hM m (List.mem_cons_self ..))]
    exact ih (fun k hk => hM k (List.mem_cons_of_mem _ hk))

theorem celK_snoc_lastNotCmt (A : List Kind) (x : Kind) (hA : lastNotCmt A) : celK (A ++ [x]) = celK A := by
  rcases List.eq_nil_or_concat A with rfl | ⟨A', p, rfl⟩
  · rfl
  · simp only [List.concat_eq_append] at hA ⊢
    rw [celK_snoc]
    have : p.isCmt = false := hA p (by simp)
    simp [this]

theorem celK_context (A M S : List Kind) (hA : lastNotCmt A) (hM : NoCmt M) :
    celK (A ++ M ++ S) = (celK A && celK S) := by
  rw [List.append_assoc]
  cases hms : M ++ S with
  | nil =>
    have hS : S = [] := (List.append_eq_nil_iff.mp hms).2
    subst hS; simp [celK]
  | cons x r =>
    rw [celK_append_cons, celK_snoc_lastNotCmt A x hA, ← hms, celK_noCmt_prefix M S hM]

theorem step_noCmt {P Q} {a b : List Tok} (h : Step P Q a b) (ha : NoCmt (a.map (·.kind))) : NoCmt (b.map (·.kind)) := by
  cases h with
  | set i s v h1 _ => rw [map_kind_set a i s v h1]; exact ha
  | ins j t _ h2 _ =>
    intro k hk
    rw [map_kind_ins] at hk
    simp only [List.mem_append, List.mem_cons, List.not_mem_nil, or_false] at hk
    rcases hk with (hk | hk) | hk
    · exact ha k (List.mem_of_mem_take hk)
    · subst hk; unfold Kind.isCmt; rcases h2 with h | h <;> simp [h]
    · exact ha k (List.mem_of_mem_drop hk)
  | del k s _ _ =>
    intro x hx
    apply ha x
    rw [List.mem_map] at hx ⊢
    obtain ⟨t, ht, rfl⟩ := hx
    exact ⟨t, List.mem_of_mem_eraseIdx ht, rfl⟩

theorem steps_noCmt {P Q} {a b : List Tok} (h : Steps P Q a b) (ha : NoCmt (a.map (·.kind))) : NoCmt (b.map (·.kind)) := by
  induction h with
  | refl => exact ha
  | tail _ s ih => exact step_noCmt s ih

/-- a region without comment / pragma tokens, edited by any script of the family, stays without them: whatever
    surrounds it, no comment absorbs anything -/
theorem steps_celSafe_noCmt {P Q} {a b : List Tok} (h : Steps P Q a b) (ha : NoCmt (a.map (·.kind))) : CelSafe a b := by
  intro pre suf hpre hc
  rw [cel_eq_celK] at hc ⊢
  simp only [List.map_append] at hc ⊢
  rw [celK_context _ _ _ hpre ha] at hc
  rw [celK_context _ _ _ hpre (steps_noCmt h ha)]
  exact hc

theorem ws_celSafe_noCmt (owner : String) (params action : KV) (old new : List Tok)
    (ho : owner ∈ wsLayoutOwners ∨ (owner = ws002Owner ∧ Ws002.isCommentAction action = false))
    (h : wsFixByOwner owner params action old = some (.ok new))
    (hg : wsGuard (fun _ => true) owner params action old = true)
    (hn : ∀ t ∈ old, t.kind.isCmt = false) : CelSafe old new := by
  apply steps_celSafe_noCmt (wsFix_steps (P := fun _ => True) (fun _ => true) (fun _ _ => trivial) trivial
    owner params action old new ho h hg)
  intro k hk
  rw [List.mem_map] at hk
  obtain ⟨t, ht, rfl⟩ := hk
  exact hn t ht

end Vsgm.Base
