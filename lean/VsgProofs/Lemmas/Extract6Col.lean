/-
  `get_column_of_token_index` (WP3b): for a token that is not on the first line the column is
  measured from the LAST line break before the token.
-/
import VsgModel.Engine.Extract6
import VsgProofs.Lemmas.Extract2
import VsgProofs.Lemmas.Extract3Thms
namespace Vsgm.TM.X.Lemmas
open Vsgm Vsgm.TM Vsgm.TM.Lemmas Vsgm.TM.X

variable {α : Type}

theorem bisectLeft_cons (a : Nat) (t : List Nat) (x : Int) :
    bisectLeft (a :: t) x = if (a : Int) < x then bisectLeft t x + 1 else 0 := by
  unfold bisectLeft
  by_cases h : (a : Int) < x <;> simp [List.takeWhile, h]

theorem bisectLeft_zero_sorted (t : List Nat) (hs : t.Pairwise (· ≤ ·)) (x : Int) (h : bisectLeft t x = 0) :
    ∀ q ∈ t, ¬ ((q : Int) < x) := by
  cases t with
  | nil => simp
  | cons b t =>
    rw [bisectLeft_cons] at h
    split at h
    · omega
    · rename_i hb
      intro q hq
      rcases List.mem_cons.mp hq with rfl | hq
      · exact hb
      · have := (List.pairwise_cons.mp hs).1 q hq
        omega

/-- in a sorted list the element before the insertion point is the largest one below `x` -/
theorem bisectLeft_prev (l : List Nat) (hs : l.Pairwise (· ≤ ·)) (x : Int) (p : Nat) (hk : 1 ≤ bisectLeft l x)
    (hp : l[bisectLeft l x - 1]? = some p) : (p : Int) < x ∧ ∀ q ∈ l, (q : Int) < x → q ≤ p := by
  induction l generalizing p with
  | nil => simp [bisectLeft] at hk
  | cons a t ih =>
    have hst := (List.pairwise_cons.mp hs).2
    have hat := (List.pairwise_cons.mp hs).1
    rw [bisectLeft_cons] at hk hp
    split at hk
    · rename_i ha
      simp only [ha, if_true] at hp
      by_cases hk' : bisectLeft t x = 0
      · simp [hk'] at hp
        subst hp
        refine ⟨ha, ?_⟩
        intro q hq hqx
        rcases List.mem_cons.mp hq with rfl | hq
        · exact Nat.le_refl _
        · exact absurd hqx (bisectLeft_zero_sorted t hst x hk' q hq)
      · have h1 : 1 ≤ bisectLeft t x := by omega
        have e : bisectLeft t x + 1 - 1 = (bisectLeft t x - 1) + 1 := by omega
        rw [e, List.getElem?_cons_succ] at hp
        obtain ⟨hpx, hall⟩ := ih hst p h1 hp
        refine ⟨hpx, ?_⟩
        intro q hq hqx
        rcases List.mem_cons.mp hq with rfl | hq
        · exact hat p (List.mem_of_getElem? hp)
        · exact hall q hq hqx
    · omega

/-- **get_column_of_token_index** with a fresh index, for a token that is not on the first line
    (`2 ≤ line`): the column is the summed value length of the tokens between the last line break
    before the token and the token -/
theorem columnOf_lastCr (V : View α) (f : List α) (i : Nat) (c : Nat)
    (h : columnOf V f (processTokens V.uid f) (i : Int) = .ok c)
    (h2 : ∃ n, (processTokens V.uid f).lineOf (i : Int) = .ok n ∧ 2 ≤ n) :
    ∃ p : Nat, p < i ∧ p ∈ (processTokens V.uid f).get (some crKey) ∧
      (∀ q ∈ (processTokens V.uid f).get (some crKey), q < i → q ≤ p) ∧
      c = ((pySlice f ((p : Int) + 1) (i : Int)).map V.len).sum := by
  obtain ⟨n, hn, hn2⟩ := h2
  unfold columnOf at h
  simp only [bind_ok, pure_ok] at h
  obtain ⟨_, _, line, hl, p, hp, rfl⟩ := h
  rw [hn] at hl
  injection hl with hl; subst hl
  unfold Index.lineOf at hn
  simp only [bind_ok, pure_ok] at hn
  obtain ⟨crs, hc, rfl⟩ := hn
  have hcg := crs_eq_get _ crs hc
  rw [← hcg] at hp ⊢
  have hsorted : crs.Pairwise (· ≤ ·) := by
    rw [hcg]
    show ((processTokens V.uid f).dmap.get crKey).Pairwise (· ≤ ·)
    rw [processTokens_get]; exact specFrom_sorted crKey _ 0
  have hk : 1 ≤ bisectLeft crs (i : Int) := by omega
  have e : ((bisectLeft crs (i : Int) + 1 : Nat) : Int) - 1 - 1 = ((bisectLeft crs (i : Int) - 1 : Nat) : Int) := by omega
  rw [e] at hp
  have hp' := pyIdx_nat_ok _ _ p hp
  obtain ⟨hpx, hall⟩ := bisectLeft_prev crs hsorted (i : Int) p hk hp'
  exact ⟨p, by omega, List.mem_of_getElem? hp', fun q hq hqi => hall q hq (by omega), rfl⟩

end Vsgm.TM.X.Lemmas
