/- effect theorems of the blank-line (vertical spacing) `_fix_violation`s — all actions, all token lists -/
import VsgProofs.Lemmas.BaseCommon
import VsgProofs.Lemmas.BaseIndent
import VsgModel.Base.BlankLine
namespace Vsgm.Base.BlankLine
open Vsgm Vsgm.Base

/-! ### cutting a contiguous piece out of a token list -/

/-- `Cut l r pre suf`: `r` is `l` with the prefix `pre` and the suffix `suf` cut off -/
def Cut (l r pre suf : List Tok) : Prop := l = pre ++ r ++ suf

theorem cut_layoutOnly_iff (pre r suf : List Tok) :
    LayoutOnly (pre ++ r ++ suf) r ↔ nonLayout pre = [] ∧ nonLayout suf = [] := by
  unfold LayoutOnly
  rw [nonLayout_append, nonLayout_append]
  constructor
  · intro h
    have hl := congrArg List.length h
    simp only [List.length_append] at hl
    constructor
    · apply List.eq_nil_of_length_eq_zero; omega
    · apply List.eq_nil_of_length_eq_zero; omega
  · intro ⟨h1, h2⟩
    rw [h1, h2]; simp

theorem Cut.layoutOnly_iff {l r pre suf : List Tok} (c : Cut l r pre suf) :
    LayoutOnly l r ↔ nonLayout pre = [] ∧ nonLayout suf = [] := by
  unfold Cut at c; subst c; exact cut_layoutOnly_iff pre r suf

theorem Cut.crSeq {l r pre suf : List Tok} (c : Cut l r pre suf) :
    crSeq l = crSeq pre ++ crSeq r ++ crSeq suf := by
  unfold Cut at c; subst c; rw [crSeq_append, crSeq_append]

theorem commentEndsLine_right (a b : List Tok) (h : commentEndsLine (a ++ b) = true) : commentEndsLine b = true := by
  induction a with
  | nil => exact h
  | cons x a ih =>
    apply ih
    cases hab : a ++ b with
    | nil => rfl
    | cons y rest =>
      simp only [List.cons_append, hab, commentEndsLine, Bool.and_eq_true] at h
      exact h.2

theorem commentEndsLine_left (a b : List Tok) (h : commentEndsLine (a ++ b) = true) : commentEndsLine a = true := by
  induction a with
  | nil => rfl
  | cons x a ih =>
    cases a with
    | nil => rfl
    | cons y rest =>
      simp only [List.cons_append, commentEndsLine, Bool.and_eq_true] at h ⊢
      exact ⟨h.1, ih h.2⟩

/-- a comment that ended its line inside the region still does in any contiguous piece of it -/
theorem Cut.commentEndsLine {l r pre suf : List Tok} (c : Cut l r pre suf) (h : commentEndsLine l = true) :
    commentEndsLine r = true := by
  unfold Cut at c; subst c
  exact commentEndsLine_right pre r (commentEndsLine_left (pre ++ r) suf h)

theorem cut_take (l : List Tok) (k : Nat) : Cut l (l.take k) [] (l.drop k) := by
  unfold Cut; simp
theorem cut_drop (l : List Tok) (k : Nat) : Cut l (l.drop k) (l.take k) [] := by
  unfold Cut; simp
theorem cut_nil (l : List Tok) : Cut l [] l [] := by
  unfold Cut; simp

/-! ### blank-line regions: `blank_line, carriage_return` pairs -/

/-- the region consists of `(blank_line, carriage_return)` pairs only -/
def blankPairs : List Tok → Bool
  | [] => true
  | a :: b :: rest => a.kind == .blank && b.kind == .cr && blankPairs rest
  | [_] => false

theorem blankPairs_take (l : List Tok) (m : Nat) (h : blankPairs l = true) : blankPairs (l.take (2 * m)) = true := by
  induction m generalizing l with
  | zero => simp [blankPairs]
  | succ m ih =>
    match l, h with
    | [], _ => simp [blankPairs]
    | [_], h => simp [blankPairs] at h
    | a :: b :: rest, h =>
      simp only [blankPairs, Bool.and_eq_true] at h
      have : 2 * (m + 1) = (2 * m + 1) + 1 := by omega
      rw [this]
      simp only [List.take_succ_cons, blankPairs, Bool.and_eq_true]
      exact ⟨h.1, ih rest h.2⟩

theorem blankPairs_drop (l : List Tok) (m : Nat) (h : blankPairs l = true) : blankPairs (l.drop (2 * m)) = true := by
  induction m generalizing l with
  | zero => simpa using h
  | succ m ih =>
    match l, h with
    | [], _ => simp [blankPairs]
    | [_], h => simp [blankPairs] at h
    | a :: b :: rest, h =>
      simp only [blankPairs, Bool.and_eq_true] at h
      have : 2 * (m + 1) = (2 * m + 1) + 1 := by omega
      rw [this]
      simp only [List.drop_succ_cons]
      exact ih rest h.2

theorem blankPairs_even (l : List Tok) (h : blankPairs l = true) : ∃ n, l.length = 2 * n := by
  match l, h with
  | [], _ => exact ⟨0, rfl⟩
  | [_], h => simp [blankPairs] at h
  | a :: b :: rest, h =>
    simp only [blankPairs, Bool.and_eq_true] at h
    obtain ⟨n, hn⟩ := blankPairs_even rest h.2
    exact ⟨n + 1, by simp [hn]; omega⟩

theorem blankPairs_layout (l : List Tok) (h : blankPairs l = true) : nonLayout l = [] := by
  match l, h with
  | [], _ => rfl
  | [_], h => simp [blankPairs] at h
  | a :: b :: rest, h =>
    simp only [blankPairs, Bool.and_eq_true, beq_iff_eq] at h
    have ih := blankPairs_layout rest h.2
    have ha : a.isLayout = true := by simp [Tok.isLayout, Kind.isLayout, h.1.1]
    have hb : b.isLayout = true := by simp [Tok.isLayout, Kind.isLayout, h.1.2]
    simp only [nonLayout, List.filter_cons, ha, hb] at ih ⊢
    simpa using ih

/-- the slice bound `2 * r` of a list of even length is even -/
theorem pyClamp_two_mul (n : Nat) (r : Int) : ∃ m, pyClamp (2 * n) (2 * r) = 2 * m := by
  unfold pyClamp
  split
  · refine ⟨(r + n).toNat, ?_⟩
    omega
  · refine ⟨min r.toNat n, ?_⟩
    omega

/-! ### Insert / Remove -/

theorem belowFixV_cases (crCls blCls : Nat) (act : Str) (l r : List Tok) (h : belowFixV crCls blCls act l = .ok r) :
    (act = sInsert ∧ l ≠ [] ∧ r = blankTok blCls :: crTok crCls :: l) ∨ (act = sRemove ∧ r = []) ∨ r = l := by
  unfold belowFixV at h
  by_cases h1 : (act == sInsert) = true
  · simp only [h1, if_true] at h
    cases hi : insertToken l 0 (crTok crCls) with
    | error e => simp [hi, bind, Except.bind] at h
    | ok l1 =>
      simp only [hi, bind, Except.bind] at h
      obtain ⟨e1, hne⟩ := insertToken_zero l l1 _ hi
      obtain ⟨e2, _⟩ := insertToken_zero l1 r _ h
      left
      exact ⟨by simpa using h1, hne, by rw [e2, e1]⟩
  · simp only [h1, Bool.false_eq_true, if_false] at h
    by_cases h2 : (act == sRemove) = true
    · simp only [h2, if_true, pure, Except.pure] at h
      cases h
      right; left; exact ⟨by simpa using h2, rfl⟩
    · simp only [h2, Bool.false_eq_true, if_false, pure, Except.pure] at h
      cases h
      right; right; rfl

theorem aboveFixV_cases (crCls blCls : Nat) (act : Str) (l r : List Tok) (h : aboveFixV crCls blCls act l = .ok r) :
    (act = sInsert ∧ r = l ++ [crTok crCls, blankTok blCls]) ∨ (act = sRemove ∧ r = []) ∨ r = l := by
  unfold aboveFixV at h
  by_cases h1 : (act == sInsert) = true
  · simp only [h1, if_true, pure, Except.pure] at h
    cases h
    left; exact ⟨by simpa using h1, by simp⟩
  · simp only [h1, Bool.false_eq_true, if_false] at h
    by_cases h2 : (act == sRemove) = true
    · simp only [h2, if_true, pure, Except.pure] at h
      cases h
      right; left; exact ⟨by simpa using h2, rfl⟩
    · simp only [h2, Bool.false_eq_true, if_false, pure, Except.pure] at h
      cases h
      right; right; rfl

theorem crTok_layout (c : Nat) : (crTok c).isLayout = true := rfl
theorem blankTok_layout (c : Nat) : (blankTok c).isLayout = true := rfl

theorem layoutOnly_insert_front (crCls blCls : Nat) (l : List Tok) :
    LayoutOnly l (blankTok blCls :: crTok crCls :: l) := by
  simp [LayoutOnly, nonLayout, crTok_layout, blankTok_layout]

theorem layoutOnly_insert_back (crCls blCls : Nat) (l : List Tok) :
    LayoutOnly l (l ++ [crTok crCls, blankTok blCls]) := by
  simp [LayoutOnly, nonLayout, crTok_layout, blankTok_layout]

theorem commentEndsLine_insert_front (crCls blCls : Nat) (l : List Tok) (h : commentEndsLine l = true) :
    commentEndsLine (blankTok blCls :: crTok crCls :: l) = true := by
  cases l with
  | nil => simp [commentEndsLine, blankTok]
  | cons x rest => simp [commentEndsLine, blankTok, crTok, h]

theorem commentEndsLine_insert_back (crCls blCls : Nat) (l : List Tok) (h : commentEndsLine l = true) :
    commentEndsLine (l ++ [crTok crCls, blankTok blCls]) = true := by
  induction l with
  | nil => simp [commentEndsLine, blankTok, crTok]
  | cons s l ih =>
    cases l with
    | nil => simp [commentEndsLine, blankTok, crTok]
    | cons t rest =>
      simp only [commentEndsLine, Bool.and_eq_true] at h
      simp only [List.cons_append, commentEndsLine, Bool.and_eq_true]
      exact ⟨h.1, ih h.2⟩

/-! ### slices -/

theorem sliceTo_cut (l : List Tok) (b : Int) : Cut l (sliceTo l b) [] (l.drop (pyClamp l.length b)) :=
  cut_take l _
theorem sliceFrom_cut (l : List Tok) (a : Int) : Cut l (sliceFrom l a) (l.take (pyClamp l.length a)) [] :=
  cut_drop l _

end Vsgm.Base.BlankLine
