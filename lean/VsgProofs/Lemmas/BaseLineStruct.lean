/-
  Layer B, line-structure family: effect lemmas for the helpers of vsg/vhdlFile/utils.py and the
  `_fix_violation` models of `VsgModel/Base/LineStruct.lean`.
-/
import VsgProofs.Lemmas.BaseCommon
import VsgModel.Base.LineStruct
import VsgModel.Base.Dispatch
namespace Vsgm.Base.LineStruct
open Vsgm Vsgm.Base

/-! ## projections that do not see layout tokens -/

/-- a projection `π` (code sequence, comment sequence) that is a monoid homomorphism and maps
    layout tokens to nothing -/
structure Blind {β : Type} (π : List Tok → List β) : Prop where
  hom : ∀ a b, π (a ++ b) = π a ++ π b
  layout : ∀ t : Tok, t.isLayout = true → π [t] = []

theorem Blind.nil {β : Type} {π : List Tok → List β} (h : Blind π) : π [] = [] := by
  have := h.hom [] []
  simp only [List.append_nil] at this
  have hl := congrArg List.length this
  simp only [List.length_append] at hl
  exact List.eq_nil_of_length_eq_zero (by omega)

theorem Blind.cons {β : Type} {π : List Tok → List β} (h : Blind π) (t : Tok) (l : List Tok) :
    π (t :: l) = π [t] ++ π l := by
  have := h.hom [t] l
  simpa using this

theorem Blind.ofNonLayout {β : Type} {π : List Tok → List β} (h : Blind π) (l : List Tok) :
    π (nonLayout l) = π l := by
  induction l with
  | nil => rfl
  | cons t l ih =>
    by_cases ht : t.isLayout = true
    · have : nonLayout (t :: l) = nonLayout l := by simp [Vsgm.nonLayout, ht]
      rw [this, ih, h.cons t l, h.layout t ht, List.nil_append]
    · have : nonLayout (t :: l) = t :: nonLayout l := by simp [Vsgm.nonLayout, ht]
      rw [this, h.cons, ih, ← h.cons]

theorem Blind.layoutOnly {β : Type} {π : List Tok → List β} (h : Blind π) {a b : List Tok}
    (hl : LayoutOnly a b) : π a = π b := by
  rw [← h.ofNonLayout a, ← h.ofNonLayout b, hl]

theorem blind_codeSeq (fold : Str → Str) : Blind (codeSeq fold) where
  hom := codeSeq_append fold
  layout := by
    intro t ht
    have hc : t.isCode = false := by
      unfold Tok.isLayout Kind.isLayout at ht; unfold Tok.isCode
      cases hk : t.kind <;> simp_all
    simp [codeSeq, codeOf, hc]

theorem blind_commentSeq : Blind commentSeq where
  hom := commentSeq_append
  layout := by
    intro t ht
    have hc : t.isCommentLike = false := by
      unfold Tok.isLayout Kind.isLayout at ht; unfold Tok.isCommentLike Kind.isCommentLike
      cases hk : t.kind <;> simp_all
    simp [commentSeq, hc]

theorem LayoutOnly.rfl' (a : List Tok) : LayoutOnly a a := by unfold LayoutOnly; rfl
theorem LayoutOnly.trans' {a b c : List Tok} (h1 : LayoutOnly a b) (h2 : LayoutOnly b c) : LayoutOnly a c := by
  unfold LayoutOnly at *; rw [h1, h2]
theorem LayoutOnly.symm' {a b : List Tok} (h1 : LayoutOnly a b) : LayoutOnly b a := by
  unfold LayoutOnly at *; rw [h1]

theorem mkWs_layout (c : Cls) : (mkWs c).isLayout = true := rfl
theorem mkCr_layout (c : Cls) : (mkCr c).isLayout = true := rfl
theorem mkBlank_layout (c : Cls) : (mkBlank c).isLayout = true := rfl

theorem isWs_layout {t : Tok} (h : isWs t = true) : t.isLayout = true := by
  unfold isWs at h; unfold Tok.isLayout Kind.isLayout
  have : t.kind = .ws := by simpa using h
  simp [this]

theorem isCr_layout {t : Tok} (h : isCr t = true) : t.isLayout = true := by
  unfold isCr at h; unfold Tok.isLayout Kind.isLayout
  have : t.kind = .cr := by simpa using h
  simp [this]

theorem nonLayout_cons_layout {t : Tok} (h : t.isLayout = true) (l : List Tok) :
    nonLayout (t :: l) = nonLayout l := by simp [nonLayout, h]

theorem nonLayout_cons (t : Tok) (l : List Tok) : nonLayout (t :: l) = nonLayout [t] ++ nonLayout l := by
  simp [nonLayout, List.filter_cons]
  split <;> simp

/-! ## the helpers are layout-only -/

theorem removeCr_layoutOnly (l : List Tok) : LayoutOnly l (removeCr l) := by
  unfold LayoutOnly
  induction l with
  | nil => rfl
  | cons t l ih =>
    by_cases h : isCr t = true
    · have : removeCr (t :: l) = removeCr l := by simp [removeCr, h]
      rw [this, nonLayout_cons_layout (isCr_layout h), ih]
    · have : removeCr (t :: l) = t :: removeCr l := by simp [removeCr, h]
      rw [this, nonLayout_cons t l, nonLayout_cons t (removeCr l), ih]

theorem rcwGo_layoutOnly (p : Tok) (l : List Tok) : nonLayout (rcwGo p l) = nonLayout l := by
  induction l generalizing p with
  | nil => rfl
  | cons t l ih =>
    simp only [rcwGo]
    split
    · rename_i h
      simp only [Bool.and_eq_true] at h
      rw [ih, nonLayout_cons_layout (isWs_layout h.1)]
    · rw [nonLayout_cons t (rcwGo t l), ih, ← nonLayout_cons]

theorem rcw_layoutOnly (l : List Tok) : LayoutOnly l (rcw l) := by
  unfold LayoutOnly
  cases l with
  | nil => rfl
  | cons t l => simp only [rcw]; rw [nonLayout_cons t (rcwGo t l), rcwGo_layoutOnly, ← nonLayout_cons]

theorem fblAt_nonLayout (blank : Tok) (hb : blank.isLayout = true) (prev next : Option Tok) (t : Tok) :
    nonLayout (fblAt blank prev next t) = nonLayout [t] := by
  unfold fblAt
  split
  · simp [nonLayout, List.filter_cons, hb]
  · split
    · rename_i h
      simp only [Bool.and_eq_true] at h
      simp [nonLayout, hb, isWs_layout h.1.2]
    · rfl

theorem fblGo_layoutOnly (blank : Tok) (hb : blank.isLayout = true) (prev : Option Tok) (l : List Tok) :
    nonLayout (fblGo blank prev l) = nonLayout l := by
  induction l generalizing prev with
  | nil => rfl
  | cons t l ih =>
    simp only [fblGo]
    rw [nonLayout_append, fblAt_nonLayout blank hb, ih, ← nonLayout_cons]

theorem fixBlankLines_layoutOnly (blank : Tok) (hb : blank.isLayout = true) (l : List Tok) :
    LayoutOnly l (fixBlankLines blank l) := by
  unfold LayoutOnly fixBlankLines
  rw [fblGo_layoutOnly blank hb]

theorem removeAllTrailingWs_layoutOnly (l r : List Tok) (h : removeAllTrailingWs l = .ok r) :
    LayoutOnly l r := by
  unfold LayoutOnly
  induction l generalizing r with
  | nil => simp [removeAllTrailingWs] at h; subst h; rfl
  | cons t l ih =>
    cases l with
    | nil =>
      simp only [removeAllTrailingWs] at h
      split at h
      · cases h
      · cases h; rfl
    | cons u l' =>
      simp only [removeAllTrailingWs] at h
      cases hr : removeAllTrailingWs (u :: l') with
      | error e => simp [hr] at h
      | ok rest =>
        simp only [hr] at h
        have ihr := ih rest hr
        split at h
        · rename_i hw
          simp only [Bool.and_eq_true] at hw
          cases h
          rw [nonLayout_cons_layout (isWs_layout hw.1), ihr]
        · cases h
          rw [nonLayout_cons t (u :: l'), nonLayout_cons t rest, ihr]

theorem pyInsert_eq {α : Type} (l : List α) (i : Int) (x : α) :
    pyInsert l i x = l.take (insPos l.length i) ++ [x] ++ l.drop (insPos l.length i) := rfl

theorem insertToken_eq {α : Type} (l r : List α) (i : Int) (x : α) (h : insertToken l i x = .ok r) :
    l ≠ [] ∧ r = l.take (insPos l.length i) ++ [x] ++ l.drop (insPos l.length i) := by
  unfold insertToken at h
  split at h
  · cases h
  · rename_i hne
    cases h
    exact ⟨by intro h; simp [h] at hne, pyInsert_eq l i x⟩

theorem insertLayout_layoutOnly (l r : List Tok) (i : Int) (t : Tok) (ht : t.isLayout = true)
    (h : insertToken l i t = .ok r) : LayoutOnly l r := by
  unfold LayoutOnly
  exact (insertToken_layout l r i t ht h).symm

theorem mem_takeWhile_imp' {α : Type} (p : α → Bool) (l : List α) : ∀ t ∈ l.takeWhile p, p t = true := by
  intro t ht
  induction l with
  | nil => simp at ht
  | cons a l ih =>
    simp only [List.takeWhile_cons] at ht
    split at ht
    · rename_i h
      simp at ht
      rcases ht with rfl | ht
      · exact h
      · exact ih ht
    · simp at ht

/-- whitespace-like tokens at the end (and, in the all-whitespace corner, the reversal) are invisible
    to a projection that maps every whitespace-like token of the list to nothing -/
theorem removeTrailingWs_blind {β : Type} {π : List Tok → List β} (hπ : Blind π) (l : List Tok)
    (hw : ∀ t ∈ l, isWsLike t = true → π [t] = []) : π (removeTrailingWs l) = π l := by
  have allnil : ∀ m : List Tok, (∀ t ∈ m, isWsLike t = true) → (∀ t ∈ m, t ∈ l) → π m = [] := by
    intro m
    induction m with
    | nil => intro _ _; exact hπ.nil
    | cons t m ih =>
      intro h1 h2
      rw [hπ.cons, hw t (h2 t (List.mem_cons_self ..)) (h1 t (List.mem_cons_self ..)),
        ih (fun s hs => h1 s (List.mem_cons_of_mem _ hs)) (fun s hs => h2 s (List.mem_cons_of_mem _ hs))]
      rfl
  unfold removeTrailingWs
  have hsplit : l.reverse = l.reverse.takeWhile isWsLike ++ l.reverse.dropWhile isWsLike :=
    (List.takeWhile_append_dropWhile ..).symm
  have htw : ∀ t ∈ l.reverse.takeWhile isWsLike, isWsLike t = true := mem_takeWhile_imp' _ _
  have hmem : ∀ t ∈ l.reverse.takeWhile isWsLike, t ∈ l := by
    intro t ht
    have : t ∈ l.reverse := (List.takeWhile_sublist _).subset ht
    simpa using this
  by_cases hd : (l.reverse.dropWhile isWsLike).isEmpty = true
  · simp only [hd, if_true]
    have hde : l.reverse.dropWhile isWsLike = [] := by simpa using hd
    rw [hde, List.append_nil] at hsplit
    have h1 : π l.reverse = [] := by
      rw [hsplit]; exact allnil _ htw hmem
    have h2 : π l = [] := by
      have hl : l = (l.reverse.takeWhile isWsLike).reverse := by rw [← hsplit]; simp
      rw [hl]
      exact allnil _ (fun t ht => htw t (by simpa using ht)) (fun t ht => hmem t (by simpa using ht))
    rw [h1, h2]
  · simp only [hd, Bool.false_eq_true, if_false]
    have hl : l = (l.reverse.dropWhile isWsLike).reverse ++ (l.reverse.takeWhile isWsLike).reverse := by
      have := congrArg List.reverse hsplit
      rw [List.reverse_append, List.reverse_reverse] at this
      exact this
    have e1 := congrArg π hl
    have h3 : π (l.reverse.takeWhile isWsLike).reverse = [] :=
      allnil _ (fun t ht => htw t (by simpa using ht)) (fun t ht => hmem t (by simpa using ht))
    rw [e1, hπ.hom, h3, List.append_nil]


/-! ## moving one token: pop + insert -/

/-- the list after `x = l.pop(k); l.insert(p, x)` -/
def moveTo {α : Type} (l : List α) (k : Nat) (x : α) (p : Nat) : List α :=
  (l.eraseIdx k).take p ++ [x] ++ (l.eraseIdx k).drop p

theorem pyPop_eq {α : Type} (l : List α) (i : Int) (x : α) (r : List α) (h : pyPop l i = .ok (x, r)) :
    ∃ k, pyIdx l.length i = some k ∧ l[k]? = some x ∧ r = l.eraseIdx k := by
  unfold pyPop at h
  cases hk : pyIdx l.length i with
  | none => simp [hk] at h
  | some k =>
    simp only [hk] at h
    cases hx : l[k]? with
    | none => simp [hx] at h
    | some y =>
      simp only [hx] at h
      cases h
      exact ⟨k, rfl, hx, rfl⟩

/-- left move: `l = u ++ a ++ [x] ++ v  ↦  u ++ [x] ++ a ++ v` with `a = crossed l k p` -/
theorem moveTo_left {α : Type} (l : List α) (k : Nat) (x : α) (hk : l[k]? = some x) (p : Nat) (hp : p ≤ k) :
    l = l.take p ++ (l.take k).drop p ++ [x] ++ l.drop (k + 1) ∧
    moveTo l k x p = l.take p ++ [x] ++ (l.take k).drop p ++ l.drop (k + 1) := by
  have hlt : k < l.length := by
    rcases Nat.lt_or_ge k l.length with h | h
    · exact h
    · rw [List.getElem?_eq_none h] at hk; cases hk
  have hx : l.drop k = x :: l.drop (k + 1) := by
    rw [List.drop_eq_getElem_cons hlt]
    congr 1
    rw [List.getElem?_eq_getElem hlt] at hk
    exact Option.some.inj hk
  constructor
  · have h1 : l.take p ++ (l.take k).drop p = l.take k := by
      have : l.take p = (l.take k).take p := by rw [List.take_take, Nat.min_eq_left hp]
      rw [this, List.take_append_drop]
    rw [h1, List.append_assoc, List.singleton_append, ← hx, List.take_append_drop]
  · unfold moveTo
    rw [List.eraseIdx_eq_take_drop_succ]
    have hlen : (l.take k).length = k := by simp; omega
    rw [List.take_append_of_le_length (by omega), List.drop_append_of_le_length (by omega),
      List.take_take, Nat.min_eq_left hp]
    simp [List.append_assoc]

/-- right move: `l = u ++ [x] ++ a ++ v  ↦  u ++ a ++ [x] ++ v` with `a = crossed l k p` -/
theorem moveTo_right {α : Type} (l : List α) (k : Nat) (x : α) (hk : l[k]? = some x) (p : Nat) (hp : k < p) :
    l = l.take k ++ [x] ++ (l.drop (k + 1)).take (p - k) ++ (l.drop (k + 1)).drop (p - k) ∧
    moveTo l k x p = l.take k ++ (l.drop (k + 1)).take (p - k) ++ [x] ++ (l.drop (k + 1)).drop (p - k) := by
  have hlt : k < l.length := by
    rcases Nat.lt_or_ge k l.length with h | h
    · exact h
    · rw [List.getElem?_eq_none h] at hk; cases hk
  have hx : l.drop k = x :: l.drop (k + 1) := by
    rw [List.drop_eq_getElem_cons hlt]
    congr 1
    rw [List.getElem?_eq_getElem hlt] at hk
    exact Option.some.inj hk
  constructor
  · rw [List.append_assoc, List.take_append_drop, List.append_assoc, List.singleton_append, ← hx,
      List.take_append_drop]
  · unfold moveTo
    rw [List.eraseIdx_eq_take_drop_succ]
    have hlen : (l.take k).length = k := by simp; omega
    have e1 : (l.take k ++ l.drop (k + 1)).take p = l.take k ++ (l.drop (k + 1)).take (p - k) := by
      rw [List.take_append, hlen, List.take_of_length_le (by omega)]
    have e2 : (l.take k ++ l.drop (k + 1)).drop p = (l.drop (k + 1)).drop (p - k) := by
      rw [List.drop_append, hlen, List.drop_of_length_le (by omega), List.nil_append]
    rw [e1, e2]

/-- **the exact condition**: moving `x` from `k` to `p` keeps a projection iff the image of `x`
    commutes with the image of what it jumps over -/
theorem moveTo_hom_iff {β : Type} (π : List Tok → List β) (hπ : ∀ a b, π (a ++ b) = π a ++ π b)
    (l : List Tok) (k : Nat) (x : Tok) (hk : l[k]? = some x) (p : Nat) :
    π (moveTo l k x p) = π l ↔ π [x] ++ π (crossed l k p) = π (crossed l k p) ++ π [x] := by
  unfold crossed
  by_cases hp : p ≤ k
  · obtain ⟨h1, h2⟩ := moveTo_left l k x hk p hp
    simp only [hp, if_true]
    rw [h2]
    conv => lhs; rhs; rw [h1]
    simp only [hπ, List.append_assoc, List.append_right_inj]
    rw [← List.append_assoc, ← List.append_assoc (π (List.drop p (List.take k l))), List.append_left_inj]
  · obtain ⟨h1, h2⟩ := moveTo_right l k x hk p (by omega)
    simp only [hp, if_false]
    rw [h2]
    conv => lhs; rhs; rw [h1]
    simp only [hπ, List.append_assoc, List.append_right_inj]
    rw [← List.append_assoc, ← List.append_assoc (π [x]), List.append_left_inj]
    exact eq_comm

/-- swapping two adjacent blocks keeps a projection iff their images commute -/
theorem swap_hom_iff {β : Type} (π : List Tok → List β) (hπ : ∀ a b, π (a ++ b) = π a ++ π b)
    (a b v : List Tok) : π (b ++ a ++ v) = π (a ++ b ++ v) ↔ π b ++ π a = π a ++ π b := by
  simp only [hπ]
  rw [List.append_left_inj]


/-! ## `commentEndsLine` toolkit -/

/-- the list ends with a `--` comment / pragma -/
def endsLC (a : List Tok) : Bool :=
  match a.getLast? with
  | some t => isLC t
  | none => false

/-- the list is empty or starts with a carriage return -/
def startsCr : List Tok → Bool
  | [] => true
  | t :: _ => isCr t

theorem cel_cons_cons (s t : Tok) (r : List Tok) :
    commentEndsLine (s :: t :: r) = ((!isLC s || isCr t) && commentEndsLine (t :: r)) := by
  simp only [commentEndsLine, isLC, isCr]
  cases h : (s.kind == Kind.comment || s.kind == Kind.pragma) <;> simp

theorem cel_cons_nonLC {x : Tok} (hx : isLC x = false) (l : List Tok) :
    commentEndsLine (x :: l) = commentEndsLine l := by
  cases l with
  | nil => rfl
  | cons t r => rw [cel_cons_cons, hx]; simp

theorem cel_tail {x : Tok} {l : List Tok} (h : commentEndsLine (x :: l) = true) : commentEndsLine l = true := by
  cases l with
  | nil => rfl
  | cons t r => rw [cel_cons_cons] at h; simp only [Bool.and_eq_true] at h; exact h.2

theorem endsLC_cons_cons (s t : Tok) (r : List Tok) : endsLC (s :: t :: r) = endsLC (t :: r) := by
  unfold endsLC
  rw [List.getLast?_cons_cons]

theorem cel_append (a b : List Tok) :
    commentEndsLine (a ++ b) = (commentEndsLine a && commentEndsLine b && (!endsLC a || startsCr b)) := by
  induction a with
  | nil => simp [commentEndsLine, endsLC]
  | cons s a ih =>
    cases a with
    | nil =>
      cases b with
      | nil => simp [commentEndsLine, startsCr]
      | cons t r =>
        simp only [List.singleton_append, cel_cons_cons, commentEndsLine, endsLC, List.getLast?_singleton, startsCr,
          Bool.true_and]
        cases isLC s <;> cases isCr t <;> simp
    | cons s' a' =>
      simp only [List.cons_append] at ih ⊢
      rw [cel_cons_cons, ih, cel_cons_cons, endsLC_cons_cons]
      cases (!isLC s || isCr s') <;> simp

theorem cel_noLC (l : List Tok) (h : ∀ t ∈ l, isLC t = false) : commentEndsLine l = true := by
  induction l with
  | nil => rfl
  | cons t l ih =>
    rw [cel_cons_nonLC (h t (List.mem_cons_self ..))]
    exact ih (fun s hs => h s (List.mem_cons_of_mem _ hs))

theorem cel_of_cons {x : Tok} {b : List Tok} (hb : commentEndsLine b = true) (hx : isLC x = true → startsCr b = true) :
    commentEndsLine (x :: b) = true := by
  cases b with
  | nil => rfl
  | cons t r =>
    rw [cel_cons_cons, hb]
    cases h : isLC x
    · simp
    · have := hx h; simp only [startsCr] at this; simp [this]

/-- inserting a token after a prefix that does not end in a comment -/
theorem cel_insert (a b : List Tok) (x : Tok) (h : commentEndsLine (a ++ b) = true) (ha : endsLC a = false)
    (hx : isLC x = true → startsCr b = true) : commentEndsLine (a ++ x :: b) = true := by
  rw [cel_append] at h ⊢
  simp only [Bool.and_eq_true] at h
  rw [h.1.1, cel_of_cons h.1.2 hx, ha]; rfl

/-- inserting a carriage return anywhere never detaches a comment from its line end -/
theorem cel_insert_cr (a b : List Tok) (x : Tok) (h : commentEndsLine (a ++ b) = true) (hx : isCr x = true) :
    commentEndsLine (a ++ x :: b) = true := by
  have hxl : isLC x = false := by
    unfold isCr at hx; unfold isLC
    have : x.kind = .cr := by simpa using hx
    simp [this]
  rw [cel_append] at h ⊢
  simp only [Bool.and_eq_true] at h
  rw [h.1.1, cel_cons_nonLC hxl, h.1.2]
  simp [startsCr, hx]

/-- removing a token that is not a carriage return -/
theorem cel_erase (a b : List Tok) (x : Tok) (h : commentEndsLine (a ++ x :: b) = true) (hx : isCr x = false) :
    commentEndsLine (a ++ b) = true ∧ endsLC a = false := by
  rw [cel_append] at h
  simp only [Bool.and_eq_true, Bool.or_eq_true, Bool.not_eq_true', startsCr] at h
  have ha : endsLC a = false := by
    rcases h.2 with h2 | h2
    · exact h2
    · rw [hx] at h2; cases h2
  refine ⟨?_, ha⟩
  rw [cel_append, h.1.1, cel_tail h.1.2, ha]; rfl

theorem cel_take (l : List Tok) (n : Nat) (h : commentEndsLine l = true) : commentEndsLine (l.take n) = true := by
  have := List.take_append_drop n l
  rw [← this, cel_append] at h
  simp only [Bool.and_eq_true] at h
  exact h.1.1

theorem cel_drop (l : List Tok) (n : Nat) (h : commentEndsLine l = true) : commentEndsLine (l.drop n) = true := by
  have := List.take_append_drop n l
  rw [← this, cel_append] at h
  simp only [Bool.and_eq_true] at h
  exact h.1.2

theorem isWs_nonLC {t : Tok} (h : isWs t = true) : isLC t = false := by
  unfold isWs at h; unfold isLC
  have : t.kind = .ws := by simpa using h
  simp [this]

theorem isCr_nonLC {t : Tok} (h : isCr t = true) : isLC t = false := by
  unfold isCr at h; unfold isLC
  have : t.kind = .cr := by simpa using h
  simp [this]

theorem isWs_nonCr {t : Tok} (h : isWs t = true) : isCr t = false := by
  unfold isWs at h; unfold isCr
  have : t.kind = .ws := by simpa using h
  simp [this]

theorem isWsLike_nonLC {t : Tok} (h : isWsLike t = true) : isLC t = false := by
  unfold isWsLike at h; unfold isLC
  cases hk : t.kind <;> simp_all

theorem mkWs_nonLC (c : Cls) : isLC (mkWs c) = false := rfl
theorem mkCr_isCr (c : Cls) : isCr (mkCr c) = true := rfl
theorem mkBlank_nonLC (c : Cls) : isLC (mkBlank c) = false := rfl

/-! ### the helpers keep `commentEndsLine` -/

theorem cel_rcwGo (p : Tok) (l : List Tok) (h : commentEndsLine (p :: l) = true) :
    commentEndsLine (p :: rcwGo p l) = true := by
  induction l generalizing p with
  | nil => rfl
  | cons t r ih =>
    simp only [rcwGo]
    rw [cel_cons_cons] at h
    simp only [Bool.and_eq_true] at h
    split
    · rename_i hw
      simp only [Bool.and_eq_true] at hw
      have := ih t h.2
      rw [cel_cons_nonLC (isWs_nonLC hw.1)] at this
      rw [cel_cons_nonLC (isWs_nonLC hw.2)]
      exact this
    · rw [cel_cons_cons, h.1, ih t h.2]; rfl

theorem cel_rcw (l : List Tok) (h : commentEndsLine l = true) : commentEndsLine (rcw l) = true := by
  cases l with
  | nil => rfl
  | cons t r => exact cel_rcwGo t r h

theorem cel_fblGo (blank : Tok) (hb : isLC blank = false) (q : Tok) (prev : Option Tok) (l : List Tok)
    (h : commentEndsLine (q :: l) = true) : commentEndsLine (q :: fblGo blank prev l) = true := by
  induction l generalizing q prev with
  | nil => rfl
  | cons t r ih =>
    simp only [fblGo]
    rw [cel_cons_cons] at h
    simp only [Bool.and_eq_true] at h
    have iht := ih t (some t) h.2
    unfold fblAt
    split
    · rename_i hc
      simp only [Bool.and_eq_true] at hc
      simp only [List.cons_append, List.nil_append]
      rw [cel_cons_nonLC (isCr_nonLC hc.1)] at iht
      rw [cel_cons_cons, h.1, cel_cons_nonLC (isCr_nonLC hc.1), cel_cons_nonLC hb, iht]; rfl
    · split
      · rename_i hc
        simp only [Bool.and_eq_true] at hc
        simp only [List.cons_append, List.nil_append]
        have hq : isLC q = false := by
          have h1 := h.1
          rw [isWs_nonCr hc.1.2] at h1
          simpa using h1
        rw [cel_cons_nonLC (isWs_nonLC hc.1.2)] at iht
        rw [cel_cons_nonLC hq, cel_cons_nonLC hb, iht]
      · simp only [List.cons_append, List.nil_append]
        rw [cel_cons_cons, h.1, iht]; rfl

theorem cel_fixBlankLines (blank : Tok) (hb : isLC blank = false) (l : List Tok)
    (h : commentEndsLine l = true) : commentEndsLine (fixBlankLines blank l) = true := by
  unfold fixBlankLines
  have := cel_fblGo blank hb blank l.getLast? l (by rw [cel_cons_nonLC hb]; exact h)
  rw [cel_cons_nonLC hb] at this
  exact this

theorem cel_removeAllTrailingWs (q : Tok) (l r : List Tok) (hr : removeAllTrailingWs l = .ok r)
    (h : commentEndsLine (q :: l) = true) : commentEndsLine (q :: r) = true := by
  induction l generalizing q r with
  | nil => simp [removeAllTrailingWs] at hr; subst hr; rfl
  | cons t l ih =>
    cases l with
    | nil =>
      simp only [removeAllTrailingWs] at hr
      split at hr
      · cases hr
      · cases hr; exact h
    | cons u l' =>
      simp only [removeAllTrailingWs] at hr
      cases hr' : removeAllTrailingWs (u :: l') with
      | error e => simp [hr'] at hr
      | ok rest =>
        simp only [hr'] at hr
        rw [cel_cons_cons] at h
        simp only [Bool.and_eq_true] at h
        split at hr
        · rename_i hw
          simp only [Bool.and_eq_true] at hw
          cases hr
          apply ih q _ hr'
          have h2 := h.2
          rw [cel_cons_cons] at h2
          simp only [Bool.and_eq_true] at h2
          rw [cel_cons_cons, hw.2, h2.2]; simp
        · cases hr
          rw [cel_cons_cons, h.1, ih t _ hr' h.2]; rfl

theorem cel_removeAllTrailingWs' (c : Cls) (l r : List Tok) (hr : removeAllTrailingWs l = .ok r)
    (h : commentEndsLine l = true) : commentEndsLine r = true := by
  have := cel_removeAllTrailingWs (mkBlank c) l r hr (by rw [cel_cons_nonLC (mkBlank_nonLC c)]; exact h)
  rw [cel_cons_nonLC (mkBlank_nonLC c)] at this
  exact this

theorem cel_removeTrailingWs (l : List Tok) (h : commentEndsLine l = true) :
    commentEndsLine (removeTrailingWs l) = true := by
  unfold removeTrailingWs
  have hsplit : l.reverse = l.reverse.takeWhile isWsLike ++ l.reverse.dropWhile isWsLike :=
    (List.takeWhile_append_dropWhile ..).symm
  by_cases hd : (l.reverse.dropWhile isWsLike).isEmpty = true
  · simp only [hd, if_true]
    have hde : l.reverse.dropWhile isWsLike = [] := by simpa using hd
    rw [hde, List.append_nil] at hsplit
    apply cel_noLC
    intro t ht
    rw [hsplit] at ht
    exact isWsLike_nonLC (mem_takeWhile_imp' _ _ t ht)
  · simp only [hd, Bool.false_eq_true, if_false]
    have hl : l = (l.reverse.dropWhile isWsLike).reverse ++ (l.reverse.takeWhile isWsLike).reverse := by
      have := congrArg List.reverse hsplit
      rw [List.reverse_append, List.reverse_reverse] at this
      exact this
    have h2 := h
    rw [hl, cel_append] at h2
    simp only [Bool.and_eq_true] at h2
    exact h2.1.1


/-! ### the helpers keep comments at their line ends in every context (`CelSafe`) -/

theorem CelSafe.refl' (a : List Tok) : CelSafe a a := fun _ _ h => h
theorem CelSafe.trans' {a b c : List Tok} (h1 : CelSafe a b) (h2 : CelSafe b c) : CelSafe a c :=
  fun pre post h => h2 pre post (h1 pre post h)

/-- a token that is neither comment nor line break -/
def neutral : Tok := ⟨0, .blank, []⟩
theorem neutral_nonLC : isLC neutral = false := rfl

theorem cel_ctx_of_cons {X Y : List Tok}
    (h : ∀ q, commentEndsLine (q :: X) = true → commentEndsLine (q :: Y) = true) (pre : List Tok)
    (hc : commentEndsLine (pre ++ X) = true) : commentEndsLine (pre ++ Y) = true := by
  induction pre with
  | nil =>
    have := h neutral (by rw [cel_cons_nonLC neutral_nonLC]; exact hc)
    rw [cel_cons_nonLC neutral_nonLC] at this; exact this
  | cons s pre ih =>
    cases pre with
    | nil => exact h s hc
    | cons s' rest =>
      simp only [List.cons_append] at hc ih ⊢
      rw [cel_cons_cons] at hc ⊢
      simp only [Bool.and_eq_true] at hc ⊢
      exact ⟨hc.1, ih hc.2⟩

theorem celSafe_of_cons {X Y : List Tok}
    (h : ∀ q post, commentEndsLine (q :: (X ++ post)) = true → commentEndsLine (q :: (Y ++ post)) = true) :
    CelSafe X Y := by
  intro pre post hc
  rw [List.append_assoc] at hc ⊢
  exact cel_ctx_of_cons (fun q => h q post) pre hc

theorem endsLC_append_ne (a b : List Tok) (hb : b ≠ []) : endsLC (a ++ b) = endsLC b := by
  unfold endsLC
  rw [List.getLast?_append]
  cases hl : b.getLast? with
  | none => rw [List.getLast?_eq_none_iff] at hl; exact absurd hl hb
  | some t => rfl

theorem endsLC_noLC (a : List Tok) (h : ∀ t ∈ a, isLC t = false) : endsLC a = false := by
  unfold endsLC
  cases hl : a.getLast? with
  | none => rfl
  | some t => exact h t (List.mem_of_getLast? hl)

theorem cel_rcwGo' (p : Tok) (l post : List Tok) (h : commentEndsLine (p :: (l ++ post)) = true) :
    commentEndsLine (p :: (rcwGo p l ++ post)) = true := by
  induction l generalizing p with
  | nil => exact h
  | cons t r ih =>
    simp only [rcwGo]
    simp only [List.cons_append] at h
    rw [cel_cons_cons] at h
    simp only [Bool.and_eq_true] at h
    split
    · rename_i hw
      simp only [Bool.and_eq_true] at hw
      have := ih t h.2
      rw [cel_cons_nonLC (isWs_nonLC hw.1)] at this
      rw [cel_cons_nonLC (isWs_nonLC hw.2)]
      exact this
    · simp only [List.cons_append]
      rw [cel_cons_cons, h.1, ih t h.2]; rfl

theorem celSafe_rcw (m : List Tok) : CelSafe m (rcw m) := by
  cases m with
  | nil => exact CelSafe.refl' _
  | cons t r =>
    apply celSafe_of_cons
    intro q post hc
    simp only [rcw, List.cons_append] at hc ⊢
    rw [cel_cons_cons] at hc ⊢
    simp only [Bool.and_eq_true] at hc ⊢
    exact ⟨hc.1, cel_rcwGo' t r post hc.2⟩

theorem cel_fblGo' (blank : Tok) (hb : isLC blank = false) (q : Tok) (prev : Option Tok) (l post : List Tok)
    (h : commentEndsLine (q :: (l ++ post)) = true) : commentEndsLine (q :: (fblGo blank prev l ++ post)) = true := by
  induction l generalizing q prev with
  | nil => exact h
  | cons t r ih =>
    simp only [fblGo]
    simp only [List.cons_append] at h
    rw [cel_cons_cons] at h
    simp only [Bool.and_eq_true] at h
    have iht := ih t (some t) h.2
    unfold fblAt
    split
    · rename_i hc
      simp only [Bool.and_eq_true] at hc
      simp only [List.cons_append, List.nil_append, List.append_assoc]
      rw [cel_cons_nonLC (isCr_nonLC hc.1)] at iht
      rw [cel_cons_cons, h.1, cel_cons_nonLC (isCr_nonLC hc.1), cel_cons_nonLC hb, iht]; rfl
    · split
      · rename_i hc
        simp only [Bool.and_eq_true] at hc
        simp only [List.cons_append, List.nil_append, List.append_assoc]
        have hq : isLC q = false := by
          have h1 := h.1
          rw [isWs_nonCr hc.1.2] at h1
          simpa using h1
        rw [cel_cons_nonLC (isWs_nonLC hc.1.2)] at iht
        rw [cel_cons_nonLC hq, cel_cons_nonLC hb, iht]
      · simp only [List.cons_append, List.nil_append, List.append_assoc]
        rw [cel_cons_cons, h.1, iht]; rfl

theorem celSafe_fbl (blank : Tok) (hb : isLC blank = false) (m : List Tok) : CelSafe m (fixBlankLines blank m) := by
  apply celSafe_of_cons
  intro q post hc
  exact cel_fblGo' blank hb q m.getLast? m post hc

theorem cel_ratw' (q : Tok) (l r post : List Tok) (hr : removeAllTrailingWs l = .ok r)
    (h : commentEndsLine (q :: (l ++ post)) = true) : commentEndsLine (q :: (r ++ post)) = true := by
  induction l generalizing q r with
  | nil => simp [removeAllTrailingWs] at hr; subst hr; exact h
  | cons t l ih =>
    cases l with
    | nil =>
      simp only [removeAllTrailingWs] at hr
      split at hr
      · cases hr
      · cases hr; exact h
    | cons u l' =>
      simp only [removeAllTrailingWs] at hr
      cases hr' : removeAllTrailingWs (u :: l') with
      | error e => simp [hr'] at hr
      | ok rest =>
        simp only [hr'] at hr
        simp only [List.cons_append] at h
        rw [cel_cons_cons] at h
        simp only [Bool.and_eq_true] at h
        split at hr
        · rename_i hw
          simp only [Bool.and_eq_true] at hw
          cases hr
          apply ih q _ hr'
          have h2 := h.2
          rw [cel_cons_cons] at h2
          simp only [Bool.and_eq_true] at h2
          simp only [List.cons_append]
          rw [cel_cons_cons, hw.2, h2.2]; simp
        · cases hr
          simp only [List.cons_append]
          rw [cel_cons_cons, h.1]
          have := ih t _ hr' h.2
          rw [this]; rfl

theorem celSafe_ratw (l r : List Tok) (hr : removeAllTrailingWs l = .ok r) : CelSafe l r :=
  celSafe_of_cons (fun q post hc => cel_ratw' q l r post hr hc)

/-- `remove_trailing_whitespace` is safe when the list holds no `--` comment (otherwise it can cut
    the line break behind a comment) and is not whitespace only -/
theorem celSafe_rtw (m : List Tok) (hno : ∀ t ∈ m, isLC t = false) (hex : ∃ t ∈ m, isWsLike t = false) :
    CelSafe m (removeTrailingWs m) := by
  unfold removeTrailingWs
  have hsplit : m.reverse = m.reverse.takeWhile isWsLike ++ m.reverse.dropWhile isWsLike :=
    (List.takeWhile_append_dropWhile ..).symm
  by_cases hd : (m.reverse.dropWhile isWsLike).isEmpty = true
  · exfalso
    have hde : m.reverse.dropWhile isWsLike = [] := by simpa using hd
    rw [hde, List.append_nil] at hsplit
    obtain ⟨t, ht, hw⟩ := hex
    have : t ∈ m.reverse.takeWhile isWsLike := by rw [← hsplit]; simpa using ht
    rw [mem_takeWhile_imp' _ _ t this] at hw; cases hw
  · simp only [hd, Bool.false_eq_true, if_false]
    have hl : m = (m.reverse.dropWhile isWsLike).reverse ++ (m.reverse.takeWhile isWsLike).reverse := by
      have := congrArg List.reverse hsplit
      rw [List.reverse_append, List.reverse_reverse] at this
      exact this
    have hne : (m.reverse.dropWhile isWsLike).reverse ≠ [] := by
      intro hh; apply hd; simpa using hh
    intro pre post hc
    have hres : ∀ t ∈ (m.reverse.dropWhile isWsLike).reverse, isLC t = false := by
      intro t ht
      apply hno t
      have : t ∈ m.reverse := (List.dropWhile_sublist _).subset (by simpa using ht)
      simpa using this
    have e : pre ++ m ++ post = (pre ++ (m.reverse.dropWhile isWsLike).reverse) ++
        ((m.reverse.takeWhile isWsLike).reverse ++ post) := by
      conv => lhs; rw [hl]
      simp [List.append_assoc]
    rw [e, cel_append] at hc
    simp only [Bool.and_eq_true] at hc
    have hpost := hc.1.2
    rw [cel_append] at hpost
    simp only [Bool.and_eq_true] at hpost
    rw [cel_append, hc.1.1, hpost.1.2, endsLC_append_ne _ _ hne, endsLC_noLC _ hres]; rfl


/-! ## the common core of the six single-token moves -/

theorem insPos_le (n : Nat) (i : Int) : insPos n i ≤ n := by
  unfold insPos; split <;> omega

theorem insPos_succ (n : Nat) (i : Int) : insPos (n + 1) i = insPos n i ∨ insPos (n + 1) i = insPos n i + 1 := by
  unfold insPos; split <;> omega

theorem endsLC_append_singleton (a : List Tok) (x : Tok) : endsLC (a ++ [x]) = isLC x := by
  unfold endsLC; simp

/-- `x = l.pop(ki); insert_token(l, ii, x); [insert_whitespace(l, ii)]` -/
def moveCore (c : Cls) (withWs : Bool) (ki ii : Int) (l : List Tok) : Except PyErr (List Tok) := do
  let (x, l1) ← pyPop l ki
  let l2 ← insertToken l1 ii x
  if withWs then insertWs c l2 ii else .ok l2

theorem getElem?_split {α : Type} (l : List α) (k : Nat) (x : α) (hk : l[k]? = some x) :
    l = l.take k ++ x :: l.drop (k + 1) ∧ k < l.length := by
  have hlt : k < l.length := by
    rcases Nat.lt_or_ge k l.length with h | h
    · exact h
    · rw [List.getElem?_eq_none h] at hk; cases hk
  refine ⟨?_, hlt⟩
  have hx : l.drop k = x :: l.drop (k + 1) := by
    rw [List.drop_eq_getElem_cons hlt]
    congr 1
    rw [List.getElem?_eq_getElem hlt] at hk
    exact Option.some.inj hk
  rw [← hx, List.take_append_drop]

/-- what `moveCore` guarantees about its result `m`: `x = l[k]` went to position `p`, everything else
    that changed is layout; the comment clause needs the moved token to be neither comment nor line
    break and the token it lands behind not to be a comment -/
structure MoveOut (c : Cls) (l : List Tok) (ki ii : Int) (m : List Tok) (k : Nat) (x : Tok) : Prop where
  idx : pyIdx l.length ki = some k
  get : l[k]? = some x
  layout : LayoutOnly (moveTo l k x (insPos (l.length - 1) ii)) m
  mem : ∀ t ∈ m, t ∈ l ∨ t = mkWs c
  memx : x ∈ m
  cel : x.isCode = true → 0 < insPos (l.length - 1) ii →
    endsLC ((l.eraseIdx k).take (insPos (l.length - 1) ii)) = false → CelSafe l m

theorem isCode_nonLC {t : Tok} (h : t.isCode = true) : isLC t = false := by
  unfold Tok.isCode at h; unfold isLC
  cases hk : t.kind <;> simp_all

theorem isCode_nonCr {t : Tok} (h : t.isCode = true) : isCr t = false := by
  unfold Tok.isCode at h; unfold isCr
  cases hk : t.kind <;> simp_all

theorem isCode_nonWsLike {t : Tok} (h : t.isCode = true) : isWsLike t = false := by
  unfold Tok.isCode at h; unfold isWsLike
  cases hk : t.kind <;> simp_all

theorem moveCore_spec (c : Cls) (w : Bool) (ki ii : Int) (l m : List Tok) (h : moveCore c w ki ii l = .ok m) :
    ∃ k x, MoveOut c l ki ii m k x := by
  unfold moveCore at h
  cases hp : pyPop l ki with
  | error e => simp [hp, bind, Except.bind] at h
  | ok xr =>
    obtain ⟨x, l1⟩ := xr
    simp only [hp, bind, Except.bind] at h
    obtain ⟨k, hki, hk, hl1⟩ := pyPop_eq l ki x l1 hp
    obtain ⟨hsplit, hlt⟩ := getElem?_split l k x hk
    have hlen : l1.length = l.length - 1 := by rw [hl1, List.length_eraseIdx]; simp [hlt]
    cases hi : insertToken l1 ii x with
    | error e => simp [hi] at h
    | ok l2 =>
      simp only [hi] at h
      obtain ⟨_, hl2⟩ := insertToken_eq l1 l2 ii x hi
      rw [hlen] at hl2
      have hmove : l2 = moveTo l k x (insPos (l.length - 1) ii) := by rw [hl2, hl1]; rfl
      have hl1ne : l1 ≠ [] := (insertToken_eq l1 l2 ii x hi).1
      have hcel2 : x.isCode = true → 0 < insPos (l.length - 1) ii →
          endsLC ((l.eraseIdx k).take (insPos (l.length - 1) ii)) = false → CelSafe l l2 := by
        intro hx hp0 ha pre post hc
        have hx1 := isCode_nonLC hx
        have hx2 := isCode_nonCr hx
        have e1 : pre ++ l ++ post = (pre ++ l.take k) ++ x :: (l.drop (k + 1) ++ post) := by
          conv => lhs; rw [hsplit]
          simp [List.append_assoc]
        rw [e1] at hc
        have hc1 := (cel_erase _ _ _ hc hx2).1
        have e2 : (pre ++ l.take k) ++ (l.drop (k + 1) ++ post) = (pre ++ l1.take (insPos (l.length - 1) ii)) ++
            (l1.drop (insPos (l.length - 1) ii) ++ post) := by
          have a1 : (pre ++ l.take k) ++ (l.drop (k + 1) ++ post) = pre ++ l1 ++ post := by
            rw [hl1, List.eraseIdx_eq_take_drop_succ]; simp [List.append_assoc]
          have a2 : (pre ++ l1.take (insPos (l.length - 1) ii)) ++ (l1.drop (insPos (l.length - 1) ii) ++ post) =
              pre ++ l1 ++ post := by
            simp only [List.append_assoc]
            rw [← List.append_assoc (List.take _ l1), List.take_append_drop]
          rw [a1, a2]
        rw [e2] at hc1
        have htne : l1.take (insPos (l.length - 1) ii) ≠ [] := by
          intro hh
          have := congrArg List.length hh
          rw [List.length_take, hlen] at this
          have := List.length_pos_iff.mpr hl1ne
          simp at *; omega
        have e3 : pre ++ l2 ++ post = (pre ++ l1.take (insPos (l.length - 1) ii)) ++
            x :: (l1.drop (insPos (l.length - 1) ii) ++ post) := by
          rw [hl2]; simp [List.append_assoc]
        rw [e3]
        apply cel_insert _ _ _ hc1 _ (by intro hh; rw [hx1] at hh; cases hh)
        rw [endsLC_append_ne _ _ htne, ← hl1] at *
        exact ha
      have hmem2 : ∀ t ∈ l2, t ∈ l := by
        intro t ht
        rw [hl2] at ht
        simp only [List.mem_append, List.mem_singleton] at ht
        rcases ht with (ht | ht) | ht
        · exact List.mem_of_mem_eraseIdx (hl1 ▸ List.mem_of_mem_take ht)
        · rw [ht]; exact List.mem_of_getElem? hk
        · exact List.mem_of_mem_eraseIdx (hl1 ▸ List.mem_of_mem_drop ht)
      have hx2 : x ∈ l2 := by rw [hl2]; simp
      refine ⟨k, x, ⟨hki, hk, ?_, ?_, ?_, ?_⟩⟩
      · rw [← hmove]
        cases w with
        | false => simp only [Bool.false_eq_true, if_false] at h; cases h; exact LayoutOnly.rfl' _
        | true =>
          simp only [if_true] at h
          exact insertLayout_layoutOnly l2 m ii (mkWs c) (mkWs_layout c) h
      · intro t ht
        cases w with
        | false => simp only [Bool.false_eq_true, if_false] at h; cases h; exact Or.inl (hmem2 t ht)
        | true =>
          simp only [if_true] at h
          obtain ⟨_, hm⟩ := insertToken_eq l2 m ii (mkWs c) h
          rw [hm] at ht
          simp only [List.mem_append, List.mem_singleton] at ht
          rcases ht with (ht | ht) | ht
          · exact Or.inl (hmem2 t (List.mem_of_mem_take ht))
          · exact Or.inr ht
          · exact Or.inl (hmem2 t (List.mem_of_mem_drop ht))
      · cases w with
        | false => simp only [Bool.false_eq_true, if_false] at h; cases h; exact hx2
        | true =>
          simp only [if_true] at h
          obtain ⟨_, hm⟩ := insertToken_eq l2 m ii (mkWs c) h
          rw [hm]
          simp only [List.mem_append, List.mem_singleton]
          have := List.take_append_drop (insPos l2.length ii) l2
          rw [← this] at hx2
          simp only [List.mem_append] at hx2
          rcases hx2 with h1 | h1
          · exact Or.inl (Or.inl h1)
          · exact Or.inr h1
      · intro hx hp0 ha
        have hc2 := hcel2 hx hp0 ha
        have hx1 := isCode_nonLC hx
        cases w with
        | false => simp only [Bool.false_eq_true, if_false] at h; cases h; exact hc2
        | true =>
          simp only [if_true] at h
          apply CelSafe.trans' hc2
          obtain ⟨_, hm⟩ := insertToken_eq l2 m ii (mkWs c) h
          have hp1 : insPos (l.length - 1) ii ≤ l1.length := by rw [hlen]; exact insPos_le _ _
          have hl2len : l2.length = (l.length - 1) + 1 := by
            rw [hl2]; simp only [List.length_append, List.length_take, List.length_drop, List.length_singleton]
            rw [hlen] at hp1 ⊢; omega
          have htk : (l1.take (insPos (l.length - 1) ii)).length = insPos (l.length - 1) ii := by
            rw [List.length_take]; omega
          have hends : endsLC (l2.take (insPos l2.length ii)) = false ∧ l2.take (insPos l2.length ii) ≠ [] := by
            rw [hl2len]
            rcases insPos_succ (l.length - 1) ii with hq | hq
            · rw [hq, hl2, List.append_assoc, List.take_append_of_le_length (by omega),
                List.take_of_length_le (by omega)]
              refine ⟨by rw [hl1]; exact ha, ?_⟩
              intro hh; have := congrArg List.length hh; rw [htk] at this; simp at this; omega
            · rw [hq, hl2, List.take_append_of_le_length (by simp only [List.length_append, List.length_singleton]; omega),
                List.take_of_length_le (by simp only [List.length_append, List.length_singleton]; omega)]
              refine ⟨by rw [endsLC_append_singleton]; exact hx1, by simp⟩
          intro pre post hc
          have e4 : pre ++ m ++ post = (pre ++ l2.take (insPos l2.length ii)) ++
              mkWs c :: (l2.drop (insPos l2.length ii) ++ post) := by
            rw [hm]; simp [List.append_assoc]
          rw [e4]
          apply cel_insert _ _ _ _ _ (by intro hh; rw [mkWs_nonLC] at hh; cases hh)
          · rw [List.append_assoc, ← List.append_assoc (List.take _ _), List.take_append_drop, ← List.append_assoc]
            exact hc
          · rw [endsLC_append_ne _ _ hends.2]; exact hends.1


/-! ## the six single-token moves -/

/-- what a single-token move guarantees: `x = l[k]` (`k` = the popped index `ki`) went to position
    `insPos (len-1) ii`; every projection blind to layout (and, when `needW`, to the trailing
    whitespace-like tokens `remove_trailing_whitespace` cuts) sees exactly that move -/
structure FixOut (l : List Tok) (ki ii : Int) (needW : Bool) (new : List Tok) (k : Nat) (x : Tok) : Prop where
  idx : pyIdx l.length ki = some k
  get : l[k]? = some x
  proj : ∀ {β : Type} (π : List Tok → List β), Blind π →
    (needW = true → ∀ t ∈ l, isWsLike t = true → π [t] = []) →
    π new = π (moveTo l k x (insPos (l.length - 1) ii))
  cel : x.isCode = true → 0 < insPos (l.length - 1) ii →
    endsLC ((l.eraseIdx k).take (insPos (l.length - 1) ii)) = false →
    (needW = true → ∀ t ∈ l, isLC t = false) → CelSafe l new

theorem FixOut.of {c : Cls} {l m : List Tok} {ki ii : Int} {k : Nat} {x : Tok} (mo : MoveOut c l ki ii m k x)
    (needW : Bool) (new : List Tok)
    (hproj : ∀ {β : Type} (π : List Tok → List β), Blind π →
      (needW = true → ∀ t ∈ m, isWsLike t = true → π [t] = []) → π new = π m)
    (hcel : x.isCode = true → (needW = true → ∀ t ∈ l, isLC t = false) → CelSafe m new) : FixOut l ki ii needW new k x where
  idx := mo.idx
  get := mo.get
  proj := by
    intro β π hπ hw
    rw [hπ.layoutOnly mo.layout]
    apply hproj π hπ
    intro hn t ht hwl
    rcases mo.mem t ht with h | h
    · exact hw hn t h hwl
    · rw [h]; exact hπ.layout _ (mkWs_layout c)
  cel := fun h1 h2 h3 h4 => CelSafe.trans' (mo.cel h1 h2 h3) (hcel h1 h4)

theorem mem_rcwGo (p : Tok) (l : List Tok) : ∀ t ∈ rcwGo p l, t ∈ l := by
  induction l generalizing p with
  | nil => intro t ht; simp [rcwGo] at ht
  | cons u r ih =>
    intro t ht
    simp only [rcwGo] at ht
    split at ht
    · exact List.mem_cons_of_mem _ (ih u t ht)
    · simp only [List.mem_cons] at ht ⊢
      rcases ht with ht | ht
      · exact Or.inl ht
      · exact Or.inr (ih u t ht)

theorem mem_rcw (l : List Tok) : ∀ t ∈ rcw l, t ∈ l := by
  cases l with
  | nil => intro t ht; simp [rcw] at ht
  | cons u r =>
    intro t ht
    simp only [rcw, List.mem_cons] at ht ⊢
    rcases ht with ht | ht
    · exact Or.inl ht
    · exact Or.inr (mem_rcwGo u r t ht)

theorem mem_rcwGo_of_nonWs (p : Tok) (l : List Tok) (t : Tok) (ht : t ∈ l) (hw : isWs t = false) : t ∈ rcwGo p l := by
  induction l generalizing p with
  | nil => cases ht
  | cons u r ih =>
    simp only [rcwGo]
    simp only [List.mem_cons] at ht
    split
    · rename_i h
      simp only [Bool.and_eq_true] at h
      rcases ht with rfl | ht
      · rw [h.1] at hw; cases hw
      · exact ih u ht
    · simp only [List.mem_cons]
      rcases ht with rfl | ht
      · exact Or.inl rfl
      · exact Or.inr (ih u ht)

theorem mem_rcw_of_nonWs (l : List Tok) (t : Tok) (ht : t ∈ l) (hw : isWs t = false) : t ∈ rcw l := by
  cases l with
  | nil => cases ht
  | cons u r =>
    simp only [rcw, List.mem_cons] at ht ⊢
    rcases ht with rfl | ht
    · exact Or.inl rfl
    · exact Or.inr (mem_rcwGo_of_nonWs u r t ht hw)

theorem post_rcw_fbl {β : Type} (π : List Tok → List β) (hπ : Blind π) (c : Cls) (m : List Tok) :
    π (fixBlankLines (mkBlank c) (rcw m)) = π m := by
  rw [← hπ.layoutOnly (fixBlankLines_layoutOnly (mkBlank c) (mkBlank_layout c) _), ← hπ.layoutOnly (rcw_layoutOnly m)]

theorem fixMoveNext_spec (c : Cls) (i : Int) (l new : List Tok) (h : fixMoveNext c i l = .ok new) :
    ∃ k x, FixOut l i 1 false new k x := by
  have hcore : fixMoveNext c i l = (do let m ← moveCore c true i 1 l; .ok (fixBlankLines (mkBlank c) (rcw m))) := by
    unfold fixMoveNext moveCore
    cases pyPop l i with
    | error e => rfl
    | ok xr =>
      obtain ⟨x, l1⟩ := xr
      simp only [bind, Except.bind]
      cases insertToken l1 1 x <;> rfl
  rw [hcore] at h
  cases hm : moveCore c true i 1 l with
  | error e => simp [hm, bind, Except.bind] at h
  | ok m =>
    simp only [hm, bind, Except.bind] at h
    cases h
    obtain ⟨k, x, mo⟩ := moveCore_spec c true i 1 l m hm
    exact ⟨k, x, FixOut.of mo false _ (fun π hπ _ => post_rcw_fbl π hπ c m)
      (fun _ _ => CelSafe.trans' (celSafe_rcw m) (celSafe_fbl _ (mkBlank_nonLC c) _))⟩

theorem fixMoveNextBetween_spec (c : Cls) (mi ii : Int) (l new : List Tok) (h : fixMoveNextBetween c mi ii l = .ok new) :
    ∃ k x, FixOut l mi ii false new k x := by
  have hcore : fixMoveNextBetween c mi ii l = (do let m ← moveCore c true mi ii l; .ok (fixBlankLines (mkBlank c) m)) := by
    unfold fixMoveNextBetween moveCore
    cases pyPop l mi with
    | error e => rfl
    | ok xr =>
      obtain ⟨x, l1⟩ := xr
      simp only [bind, Except.bind]
      cases insertToken l1 ii x <;> rfl
  rw [hcore] at h
  cases hm : moveCore c true mi ii l with
  | error e => simp [hm, bind, Except.bind] at h
  | ok m =>
    simp only [hm, bind, Except.bind] at h
    cases h
    obtain ⟨k, x, mo⟩ := moveCore_spec c true mi ii l m hm
    exact ⟨k, x, FixOut.of mo false _
      (fun π hπ _ => (hπ.layoutOnly (fixBlankLines_layoutOnly (mkBlank c) (mkBlank_layout c) m)).symm)
      (fun _ _ => celSafe_fbl _ (mkBlank_nonLC c) _)⟩

theorem fixMoveRightOf_spec (c : Cls) (bw : Bool) (mi ii : Int) (l new : List Tok) (h : fixMoveRightOf c bw mi ii l = .ok new) :
    ∃ k x, FixOut l mi ii false new k x := by
  have hcore : fixMoveRightOf c bw mi ii l = (do let m ← moveCore c bw mi ii l; .ok (fixBlankLines (mkBlank c) (rcw m))) := by
    unfold fixMoveRightOf moveCore
    cases pyPop l mi with
    | error e => rfl
    | ok xr =>
      obtain ⟨x, l1⟩ := xr
      simp only [bind, Except.bind]
      cases insertToken l1 ii x with
      | error e => rfl
      | ok l2 => cases bw <;> simp <;> cases insertWs c l2 ii <;> rfl
  rw [hcore] at h
  cases hm : moveCore c bw mi ii l with
  | error e => simp [hm, bind, Except.bind] at h
  | ok m =>
    simp only [hm, bind, Except.bind] at h
    cases h
    obtain ⟨k, x, mo⟩ := moveCore_spec c bw mi ii l m hm
    exact ⟨k, x, FixOut.of mo false _ (fun π hπ _ => post_rcw_fbl π hπ c m)
      (fun _ _ => CelSafe.trans' (celSafe_rcw m) (celSafe_fbl _ (mkBlank_nonLC c) _))⟩

theorem fixMoveTokenLeft_spec (c : Cls) (bw : Bool) (l new : List Tok) (h : fixMoveTokenLeft c bw l = .ok new) :
    ∃ k x, FixOut l (-1) 1 false new k x := by
  have hcore : fixMoveTokenLeft c bw l = (do let m ← moveCore c bw (-1) 1 l; .ok (fixBlankLines (mkBlank c) (rcw m))) := by
    unfold fixMoveTokenLeft moveCore
    cases pyPop l (-1) with
    | error e => rfl
    | ok xr =>
      obtain ⟨x, l1⟩ := xr
      simp only [bind, Except.bind]
      cases insertToken l1 1 x with
      | error e => rfl
      | ok l2 => cases bw <;> simp [insertWs] <;> cases insertToken l2 1 (mkWs c) <;> rfl
  rw [hcore] at h
  cases hm : moveCore c bw (-1) 1 l with
  | error e => simp [hm, bind, Except.bind] at h
  | ok m =>
    simp only [hm, bind, Except.bind] at h
    cases h
    obtain ⟨k, x, mo⟩ := moveCore_spec c bw (-1) 1 l m hm
    exact ⟨k, x, FixOut.of mo false _ (fun π hπ _ => post_rcw_fbl π hπ c m)
      (fun _ _ => CelSafe.trans' (celSafe_rcw m) (celSafe_fbl _ (mkBlank_nonLC c) _))⟩

theorem fixMoveLeft_spec (c : Cls) (bw bt : Bool) (l new : List Tok) (h : fixMoveLeft c bw bt l = .ok new) :
    ∃ k x, FixOut l (-1) 1 bt new k x := by
  have hcore : fixMoveLeft c bw bt l = (do
      let m ← moveCore c bw (-1) 1 l
      .ok (fixBlankLines (mkBlank c) (if bt then removeTrailingWs (rcw m) else rcw m))) := by
    unfold fixMoveLeft moveCore
    cases pyPop l (-1) with
    | error e => rfl
    | ok xr =>
      obtain ⟨x, l1⟩ := xr
      simp only [bind, Except.bind]
      cases insertToken l1 1 x with
      | error e => rfl
      | ok l2 => cases bw <;> simp <;> cases insertWs c l2 1 <;> rfl
  rw [hcore] at h
  cases hm : moveCore c bw (-1) 1 l with
  | error e => simp [hm, bind, Except.bind] at h
  | ok m =>
    simp only [hm, bind, Except.bind] at h
    cases h
    obtain ⟨k, x, mo⟩ := moveCore_spec c bw (-1) 1 l m hm
    refine ⟨k, x, FixOut.of mo bt _ ?_ ?_⟩
    · intro β π hπ hw
      rw [← hπ.layoutOnly (fixBlankLines_layoutOnly (mkBlank c) (mkBlank_layout c) _)]
      cases bt with
      | false => simp only [Bool.false_eq_true, if_false]; exact (hπ.layoutOnly (rcw_layoutOnly m)).symm
      | true =>
        simp only [if_true]
        rw [removeTrailingWs_blind hπ (rcw m) (fun t ht hwl => hw rfl t (mem_rcw m t ht) hwl)]
        exact (hπ.layoutOnly (rcw_layoutOnly m)).symm
    · intro hx hno
      refine CelSafe.trans' ?_ (celSafe_fbl _ (mkBlank_nonLC c) _)
      cases bt with
      | false => simp only [Bool.false_eq_true, if_false]; exact celSafe_rcw m
      | true =>
        simp only [if_true]
        apply CelSafe.trans' (celSafe_rcw m)
        apply celSafe_rtw
        · intro t ht
          rcases mo.mem t (mem_rcw m t ht) with h | h
          · exact hno rfl t h
          · rw [h]; rfl
        · exact ⟨x, mem_rcw_of_nonWs m x mo.memx (by
            have := isCode_nonWsLike hx
            unfold isWsLike at this; unfold isWs
            cases hk : x.kind <;> simp_all), isCode_nonWsLike hx⟩

theorem fixMoveRight_spec (c : Cls) (bw : Bool) (i : Int) (l new : List Tok) (h : fixMoveRight c bw i l = .ok new) :
    ∃ k x, FixOut l i (-1) false new k x := by
  have hcore : fixMoveRight c bw i l = (do
      let m ← moveCore c bw i (-1) l
      let l4 ← removeAllTrailingWs (rcw m)
      .ok (fixBlankLines (mkBlank c) l4)) := by
    unfold fixMoveRight moveCore
    cases pyPop l i with
    | error e => rfl
    | ok xr =>
      obtain ⟨x, l1⟩ := xr
      simp only [bind, Except.bind]
      cases insertToken l1 (-1) x with
      | error e => rfl
      | ok l2 => cases bw <;> simp <;> cases insertWs c l2 (-1) <;> rfl
  rw [hcore] at h
  cases hm : moveCore c bw i (-1) l with
  | error e => simp [hm, bind, Except.bind] at h
  | ok m =>
    simp only [hm, bind, Except.bind] at h
    cases h4 : removeAllTrailingWs (rcw m) with
    | error e => simp [h4] at h
    | ok l4 =>
      simp only [h4] at h
      cases h
      obtain ⟨k, x, mo⟩ := moveCore_spec c bw i (-1) l m hm
      refine ⟨k, x, FixOut.of mo false _ ?_ ?_⟩
      · intro β π hπ _
        rw [← hπ.layoutOnly (fixBlankLines_layoutOnly (mkBlank c) (mkBlank_layout c) _),
          ← hπ.layoutOnly (removeAllTrailingWs_layoutOnly _ _ h4), ← hπ.layoutOnly (rcw_layoutOnly m)]
      · intro _ _
        exact CelSafe.trans' (celSafe_rcw m) (CelSafe.trans' (celSafe_ratw _ _ h4) (celSafe_fbl _ (mkBlank_nonLC c) _))


/-! ## the line-break inserting fixes -/

theorem insertCr_spec (c : Cls) (l new : List Tok) (i : Int) (h : insertCr c l i = .ok new) :
    LayoutOnly l new ∧ CelSafe l new := by
  unfold insertCr at h
  refine ⟨insertLayout_layoutOnly l new i (mkCr c) (mkCr_layout c) h, ?_⟩
  intro pre post hc
  obtain ⟨_, hn⟩ := insertToken_eq l new i (mkCr c) h
  have e : pre ++ new ++ post = (pre ++ l.take (insPos l.length i)) ++ mkCr c :: (l.drop (insPos l.length i) ++ post) := by
    rw [hn]; simp [List.append_assoc]
  rw [e]
  apply cel_insert_cr _ _ _ _ (mkCr_isCr c)
  rw [List.append_assoc, ← List.append_assoc (List.take _ l), List.take_append_drop, ← List.append_assoc]
  exact hc

theorem fixInsertCrAfter_spec (c : Cls) (l new : List Tok) (h : fixInsertCrAfter c l = .ok new) :
    LayoutOnly l new ∧ CelSafe l new :=
  insertCr_spec c l new 1 h

theorem fixSplitAt_spec (c : Cls) (i : Int) (l new : List Tok) (h : fixSplitAt c i l = .ok new) :
    LayoutOnly l new ∧ CelSafe l new :=
  insertCr_spec c l new i h

theorem fixSplitLine_spec (c : Cls) (l new : List Tok) (h : fixSplitLine c l = .ok new) :
    LayoutOnly l new ∧ CelSafe l new := by
  unfold fixSplitLine at h
  cases h1 : pyGet l 1 with
  | error e => simp [h1, bind, Except.bind] at h
  | ok t1 =>
    simp only [h1, bind, Except.bind] at h
    split at h
    · exact insertCr_spec c l new (-2) h
    · exact insertCr_spec c l new (-1) h

/-! ## regions that do not start with a line break: only the right context matters -/

theorem startsCr_append_ne (a b : List Tok) (ha : a ≠ []) : startsCr (a ++ b) = startsCr a := by
  cases a with
  | nil => exact absurd rfl ha
  | cons t r => rfl

theorem celSafe_of_right (l new : List Tok) (hh : startsCr l = false)
    (h : ∀ post, commentEndsLine (l ++ post) = true → commentEndsLine (new ++ post) = true) : CelSafe l new := by
  have hne : l ≠ [] := by intro e; rw [e] at hh; cases hh
  intro pre post hc
  rw [List.append_assoc, cel_append, startsCr_append_ne _ _ hne, hh] at hc
  simp only [Bool.and_eq_true, Bool.or_false, Bool.not_eq_true'] at hc
  rw [List.append_assoc, cel_append, hc.1.1, h post hc.1.2, hc.2]; rfl

/-! ## removing the line breaks of a region -/

theorem mem_removeCr (l : List Tok) : ∀ t ∈ removeCr l, t ∈ l ∧ isCr t = false := by
  intro t ht
  unfold removeCr at ht
  simp only [List.mem_filter, Bool.not_eq_true'] at ht
  exact ht

theorem rcwGo_append_nonWs (p : Tok) (a : List Tok) (z : Tok) (hz : isWs z = false) :
    rcwGo p (a ++ [z]) = rcwGo p a ++ [z] := by
  induction a generalizing p with
  | nil => simp [rcwGo, hz]
  | cons t r ih =>
    simp only [List.cons_append, rcwGo]
    split
    · exact ih t
    · rw [ih t]; rfl

theorem rcw_append_nonWs (a : List Tok) (z : Tok) (hz : isWs z = false) : rcw (a ++ [z]) = rcw a ++ [z] := by
  cases a with
  | nil => rfl
  | cons t r => simp only [List.cons_append, rcw, rcwGo_append_nonWs t r z hz]

theorem removeCr_append (a b : List Tok) : removeCr (a ++ b) = removeCr a ++ removeCr b := by
  simp [removeCr]

theorem isLC_nonWs {t : Tok} (h : isLC t = true) : isWs t = false := by
  unfold isLC at h; unfold isWs
  cases hk : t.kind <;> simp_all

theorem isLC_nonCr {t : Tok} (h : isLC t = true) : isCr t = false := by
  unfold isLC at h; unfold isCr
  cases hk : t.kind <;> simp_all

/-- remove_carriage_return_after_token: layout only; safe for comments when the region does not start
    with a line break and holds no `--` comment except as its very last token (a comment anywhere
    else loses the line break that ended it) -/
theorem fixRemoveCr_spec (c : Cls) (b : Bool) (l new : List Tok) (h : fixRemoveCr c b l = .ok new) :
    LayoutOnly l new ∧
    (startsCr l = false → (∀ t ∈ l.dropLast, isLC t = false) → CelSafe l new) := by
  unfold fixRemoveCr at h
  have hlay : LayoutOnly l (rcw (removeCr l)) := LayoutOnly.trans' (removeCr_layoutOnly l) (rcw_layoutOnly _)
  -- shape of the result: the cleaned list, possibly with one whitespace inserted at index 1
  have hshape : new = rcw (removeCr l) ∨
      (2 ≤ (rcw (removeCr l)).length ∧
        new = (rcw (removeCr l)).take 1 ++ [mkWs c] ++ (rcw (removeCr l)).drop 1) := by
    cases b with
    | false => simp only [Bool.false_eq_true, if_false] at h; cases h; exact Or.inl rfl
    | true =>
      simp only [if_true] at h
      cases h1 : pyGet (rcw (removeCr l)) 1 with
      | error e => simp [h1, bind, Except.bind] at h
      | ok t1 =>
        simp only [h1, bind, Except.bind] at h
        split at h
        · obtain ⟨_, hn⟩ := insertToken_eq _ _ 1 (mkWs c) h
          obtain ⟨k, hk, hk2⟩ := pyGet_some _ _ _ h1
          have hlen : 2 ≤ (rcw (removeCr l)).length := by
            unfold pyIdx at hk
            simp only [show ¬ ((1 : Int) < 0) by omega, if_false] at hk
            split at hk
            · omega
            · cases hk
          have hpos : insPos (rcw (removeCr l)).length 1 = 1 := by unfold insPos; simp; omega
          rw [hpos] at hn
          exact Or.inr ⟨hlen, hn⟩
        · cases h; exact Or.inl rfl
  have hlay2 : LayoutOnly l new := by
    rcases hshape with hs | ⟨_, hs⟩
    · rw [hs]; exact hlay
    · apply LayoutOnly.trans' hlay
      rw [hs]; unfold LayoutOnly
      conv => lhs; rw [← List.take_append_drop 1 (rcw (removeCr l))]
      simp only [nonLayout_append]
      rw [show nonLayout [mkWs c] = [] from rfl, List.append_nil]
  refine ⟨hlay2, ?_⟩
  intro hh hno
  apply celSafe_of_right l new hh
  intro post hc
  have hne : l ≠ [] := by intro e; rw [e] at hh; cases hh
  have hl := (List.dropLast_concat_getLast hne).symm
  have hmem : ∀ t ∈ new, t ∈ l ∨ t = mkWs c := by
    intro t ht
    rcases hshape with hs | ⟨_, hs⟩
    · rw [hs] at ht; exact Or.inl (mem_removeCr l t (mem_rcw _ t ht)).1
    · rw [hs] at ht
      simp only [List.mem_append, List.mem_singleton] at ht
      rcases ht with (ht | ht) | ht
      · exact Or.inl (mem_removeCr l t (mem_rcw _ t (List.mem_of_mem_take ht))).1
      · exact Or.inr ht
      · exact Or.inl (mem_removeCr l t (mem_rcw _ t (List.mem_of_mem_drop ht))).1
  by_cases hz : isLC (l.getLast hne) = true
  · -- the last token is the comment: it stays last, in front of it there is no comment
    have hzw := isLC_nonWs hz
    have hzc := isLC_nonCr hz
    have hclean : rcw (removeCr l) = rcw (removeCr l.dropLast) ++ [l.getLast hne] := by
      conv => lhs; rw [hl]
      rw [removeCr_append]
      have : removeCr [l.getLast hne] = [l.getLast hne] := by simp [removeCr, hzc]
      rw [this, rcw_append_nonWs _ _ hzw]
    have hA : ∀ t ∈ rcw (removeCr l.dropLast), isLC t = false :=
      fun t ht => hno t (mem_removeCr _ t (mem_rcw _ t ht)).1
    have hform : ∃ X, (∀ t ∈ X, isLC t = false) ∧ new = X ++ [l.getLast hne] := by
      rcases hshape with hs | ⟨hlen, hs⟩
      · exact ⟨_, hA, by rw [hs, hclean]⟩
      · refine ⟨(rcw (removeCr l.dropLast)).take 1 ++ [mkWs c] ++ (rcw (removeCr l.dropLast)).drop 1, ?_, ?_⟩
        · intro t ht
          simp only [List.mem_append, List.mem_singleton] at ht
          rcases ht with (ht | ht) | ht
          · exact hA t (List.mem_of_mem_take ht)
          · rw [ht]; rfl
          · exact hA t (List.mem_of_mem_drop ht)
        · rw [hs, hclean]
          have hlenA : 1 ≤ (rcw (removeCr l.dropLast)).length := by
            rw [hclean] at hlen; simp at hlen; omega
          rw [List.take_append_of_le_length hlenA, List.drop_append_of_le_length hlenA]
          simp [List.append_assoc]
    obtain ⟨X, hX, hnew⟩ := hform
    rw [hl, List.append_assoc, cel_append] at hc
    simp only [Bool.and_eq_true] at hc
    rw [hnew, List.append_assoc, cel_append, cel_noLC X hX, hc.1.2, endsLC_noLC X hX]; rfl
  · -- no comment at all in the region
    have hz' : isLC (l.getLast hne) = false := by simpa using hz
    have hnoall : ∀ t ∈ l, isLC t = false := by
      intro t ht
      rw [hl] at ht
      simp only [List.mem_append, List.mem_singleton] at ht
      rcases ht with ht | ht
      · exact hno t ht
      · rw [ht]; exact hz'
    have hnew : ∀ t ∈ new, isLC t = false := by
      intro t ht
      rcases hmem t ht with h1 | h1
      · exact hnoall t h1
      · rw [h1]; rfl
    rw [cel_append] at hc
    simp only [Bool.and_eq_true] at hc
    rw [cel_append, cel_noLC new hnew, hc.1.2, endsLC_noLC new hnew]; rfl

/-! ## remove_carriage_return_after_token after the repair -/

theorem removeCrBeforeComment_layoutOnly (l : List Tok) : LayoutOnly l (removeCrBeforeComment l) := by
  unfold LayoutOnly
  induction l with
  | nil => rfl
  | cons t r ih =>
    simp only [removeCrBeforeComment]
    split
    · rfl
    · split
      · rename_i h
        split
        · rfl
        · rw [nonLayout_cons_layout (isCr_layout h), ih]
      · rw [nonLayout_cons t r, nonLayout_cons t (removeCrBeforeComment r), ih]

theorem isLC_commentInst {t : Tok} (h : isLC t = true) : isCommentInst t = true := by
  unfold isLC at h; unfold isCommentInst
  cases hk : t.kind <;> simp_all

theorem cel_removeCrBeforeComment (q : Tok) (hq : isLC q = false) (l post : List Tok)
    (h : commentEndsLine (q :: (l ++ post)) = true) :
    commentEndsLine (q :: (removeCrBeforeComment l ++ post)) = true := by
  induction l generalizing q with
  | nil => exact h
  | cons t r ih =>
    simp only [removeCrBeforeComment]
    split
    · exact h
    · rename_i hci
      have htl : isLC t = false := by
        cases hl : isLC t
        · rfl
        · exact absurd (isLC_commentInst hl) hci
      simp only [List.cons_append] at h
      rw [cel_cons_cons] at h
      simp only [Bool.and_eq_true] at h
      split
      · split
        · simp only [List.cons_append]
          rw [cel_cons_cons, h.1, h.2]; rfl
        · apply ih q hq
          rw [cel_cons_nonLC hq]
          exact cel_tail h.2
      · simp only [List.cons_append]
        rw [cel_cons_cons, h.1, ih t htl h.2]; rfl

theorem take_one_removeCrBeforeComment (l : List Tok) (hh : startsCr l = false) :
    (removeCrBeforeComment l).take 1 = l.take 1 := by
  cases l with
  | nil => rfl
  | cons t r =>
    simp only [startsCr] at hh
    simp only [removeCrBeforeComment, hh]
    split <;> simp

theorem take_one_rcw (l : List Tok) : (rcw l).take 1 = l.take 1 := by
  cases l with
  | nil => rfl
  | cons t r => simp [rcw]

/-- remove_carriage_return_after_token (repaired): layout only, and safe for comments in every context
    as soon as the region starts neither with a line break nor with a `--` comment (it starts with
    the keyword the rule is about) -/
theorem fixRemoveCrAfter_spec (c : Cls) (b : Bool) (l new : List Tok) (h : fixRemoveCrAfter c b l = .ok new) :
    LayoutOnly l new ∧ (startsCr l = false → endsLC (l.take 1) = false → CelSafe l new) := by
  unfold fixRemoveCrAfter at h
  have hlay : LayoutOnly l (rcw (removeCrBeforeComment l)) :=
    LayoutOnly.trans' (removeCrBeforeComment_layoutOnly l) (rcw_layoutOnly _)
  have hsafe : startsCr l = false → ∀ post, commentEndsLine (l ++ post) = true →
      commentEndsLine (rcw (removeCrBeforeComment l) ++ post) = true := by
    intro _ post hc
    have h1 := cel_removeCrBeforeComment neutral neutral_nonLC l post (by rw [cel_cons_nonLC neutral_nonLC]; exact hc)
    rw [cel_cons_nonLC neutral_nonLC] at h1
    have := celSafe_rcw (removeCrBeforeComment l) [] post (by simpa using h1)
    simpa using this
  cases b with
  | false =>
    simp only [Bool.false_eq_true, if_false] at h
    cases h
    exact ⟨hlay, fun hh _ => celSafe_of_right l _ hh (hsafe hh)⟩
  | true =>
    simp only [if_true] at h
    cases h1 : pyGet (rcw (removeCrBeforeComment l)) 1 with
    | error e => simp [h1, bind, Except.bind] at h
    | ok t1 =>
      simp only [h1, bind, Except.bind] at h
      split at h
      · refine ⟨LayoutOnly.trans' hlay (insertLayout_layoutOnly _ _ 1 (mkWs c) (mkWs_layout c) h), ?_⟩
        intro hh hhead
        apply celSafe_of_right l new hh
        intro post hc
        obtain ⟨_, hn⟩ := insertToken_eq _ _ 1 (mkWs c) h
        obtain ⟨k, hk, hk2⟩ := pyGet_some _ _ _ h1
        have hlen : 2 ≤ (rcw (removeCrBeforeComment l)).length := by
          unfold pyIdx at hk
          simp only [show ¬ ((1 : Int) < 0) by omega, if_false] at hk
          split at hk
          · omega
          · cases hk
        have hpos : insPos (rcw (removeCrBeforeComment l)).length 1 = 1 := by unfold insPos; simp; omega
        rw [hn, hpos, List.append_assoc, List.append_assoc, List.singleton_append]
        apply cel_insert _ _ _ _ _ (by intro hx; rw [mkWs_nonLC] at hx; cases hx)
        · rw [← List.append_assoc, List.take_append_drop]; exact hsafe hh post hc
        · rw [take_one_rcw, take_one_removeCrBeforeComment l hh]; exact hhead
      · cases h
        exact ⟨hlay, fun hh _ => celSafe_of_right l _ hh (hsafe hh)⟩

/-! ### remove_carriage_return_after_token: a preprocessor line stays a line of its own -/

theorem isWs_not_cr {t : Tok} (h : isWs t = true) : isCr t = false := by
  unfold isWs at h; unfold isCr
  cases hk : t.kind <;> simp_all

theorem ppStep_ws (s : PpSt) (t : Tok) (h : isWs t = true) : ppStep s t = some s := by
  simp [ppStep, isWs_not_cr h, h]

/-- whitespace tokens do not matter for `ppGo` -/
theorem ppGo_dropWs (s : PpSt) (l : List Tok) : ppGo s (l.filter fun t => !isWs t) = ppGo s l := by
  induction l generalizing s with
  | nil => rfl
  | cons t r ih =>
    by_cases hw : isWs t = true
    · simp only [List.filter_cons, hw, Bool.not_true, Bool.false_eq_true, if_false]
      rw [ih]; simp only [ppGo, ppStep_ws s t hw]
    · have hw' : isWs t = false := by simpa using hw
      simp only [List.filter_cons, hw', Bool.not_false, if_true, ppGo]
      cases ppStep s t with
      | none => rfl
      | some s' => exact ih s'

theorem rcwGo_filterWs (p : Tok) (l : List Tok) :
    (rcwGo p l).filter (fun t => !isWs t) = l.filter (fun t => !isWs t) := by
  induction l generalizing p with
  | nil => rfl
  | cons t r ih =>
    simp only [rcwGo]
    split
    · rename_i h
      simp only [Bool.and_eq_true] at h
      rw [ih]; simp [List.filter_cons, h.1]
    · simp only [List.filter_cons]; rw [ih]

theorem rcw_filterWs (l : List Tok) : (rcw l).filter (fun t => !isWs t) = l.filter (fun t => !isWs t) := by
  cases l with
  | nil => rfl
  | cons t r => simp only [rcw, List.filter_cons]; rw [rcwGo_filterWs]

theorem insertWs_filterWs (c : Cls) (l r : List Tok) (i : Int) (h : insertWs c l i = .ok r) :
    r.filter (fun t => !isWs t) = l.filter (fun t => !isWs t) := by
  obtain ⟨_, hr⟩ := insertToken_eq l r i (mkWs c) h
  rw [hr]
  have hw : isWs (mkWs c) = true := rfl
  simp only [List.filter_append, List.filter_cons, hw, Bool.not_true, Bool.false_eq_true, if_false, List.filter_nil,
    List.append_nil]
  rw [← List.filter_append, List.take_append_drop]

/-- the fix of remove_carriage_return_after_token is `remove_carriage_returns_before_first_comment` up to
    whitespace tokens -/
theorem fixRemoveCrAfter_filterWs (c : Cls) (b : Bool) (l new : List Tok) (h : fixRemoveCrAfter c b l = .ok new) :
    new.filter (fun t => !isWs t) = (removeCrBeforeComment l).filter (fun t => !isWs t) := by
  unfold fixRemoveCrAfter at h
  cases b with
  | false =>
    simp only [Bool.false_eq_true, if_false] at h
    cases h
    exact rcw_filterWs _
  | true =>
    simp only [if_true] at h
    cases h1 : pyGet (rcw (removeCrBeforeComment l)) 1 with
    | error e => simp [h1, bind, Except.bind] at h
    | ok t1 =>
      simp only [h1, bind, Except.bind] at h
      split at h
      · rw [insertWs_filterWs c _ _ 1 h]; exact rcw_filterWs _
      · cases h; exact rcw_filterWs _

theorem nextIsPreproc_append (a b : List Tok) (ha : nextIsPreproc a = false) (hb : nextIsPreproc b = false) :
    nextIsPreproc (a ++ b) = false := by
  induction a with
  | nil => exact hb
  | cons t r ih =>
    simp only [List.cons_append, nextIsPreproc] at ha ⊢
    split
    · rename_i hw; simp only [hw, if_true] at ha; exact ih ha
    · rename_i hw; simpa [hw] using ha

/-- a line that does not begin with a preprocessor token may as well be the continuation of a line
    that already holds code -/
theorem ppGo_fresh_code (x : List Tok) (hn : nextIsPreproc x = false) (h : ppGo .fresh x = true) :
    ppGo .code x = true := by
  induction x with
  | nil => rfl
  | cons t r ih =>
    simp only [nextIsPreproc] at hn
    simp only [ppGo, ppStep] at h ⊢
    by_cases hc : isCr t = true
    · simp only [hc, if_true] at h ⊢; exact h
    · have hc' : isCr t = false := by simpa using hc
      simp only [hc', Bool.false_eq_true, if_false] at h ⊢
      by_cases hw : isWs t = true
      · simp only [hw, if_true] at h hn ⊢; exact ih hn h
      · have hw' : isWs t = false := by simpa using hw
        simp only [hw', Bool.false_eq_true, if_false] at h hn ⊢
        simp only [hn, Bool.false_eq_true, if_false] at h ⊢
        simpa using h

theorem ppStep_code_some (t : Tok) (s' : PpSt) (hc : isCr t = false) (h : ppStep .code t = some s') : s' = .code := by
  unfold ppStep at h
  simp only [hc, Bool.false_eq_true, if_false] at h
  split at h
  · injection h with h; exact h.symm
  · split at h
    · simp at h
    · simp at h; exact h.symm

/-- on a line that holds code, joining the following lines the way the repaired
    `remove_carriage_returns_before_first_comment` does never puts anything next to a preprocessor token -/
theorem ppGo_removeCrBeforeComment (l post : List Tok) (hp : nextIsPreproc post = false)
    (h : ppGo .code (l ++ post) = true) : ppGo .code (removeCrBeforeComment l ++ post) = true := by
  induction l with
  | nil => exact h
  | cons t r ih =>
    simp only [removeCrBeforeComment]
    split
    · exact h
    · split
      · rename_i hcr
        split
        · exact h
        · rename_i hnp
          have hnp' : nextIsPreproc r = false := by simpa using hnp
          apply ih
          simp only [List.cons_append, ppGo, ppStep, hcr, if_true] at h
          exact ppGo_fresh_code _ (nextIsPreproc_append r post hnp' hp) h
      · rename_i hcr
        have hcr' : isCr t = false := by simpa using hcr
        simp only [List.cons_append, ppGo] at h ⊢
        cases hs : ppStep .code t with
        | none => simp [hs] at h
        | some s' =>
          simp only [hs] at h ⊢
          have := ppStep_code_some t s' hcr' hs
          subst this
          exact ih h

/-- the state of the scan after a prefix -/
def ppRun : PpSt → List Tok → Option PpSt
  | s, [] => some s
  | s, t :: r =>
    match ppStep s t with
    | none => none
    | some s' => ppRun s' r

theorem ppGo_append (s : PpSt) (a b : List Tok) :
    ppGo s (a ++ b) = (match ppRun s a with | none => false | some s' => ppGo s' b) := by
  induction a generalizing s with
  | nil => rfl
  | cons t r ih =>
    simp only [List.cons_append, ppGo, ppRun]
    cases ppStep s t with
    | none => rfl
    | some s' => exact ih s'

theorem ppStep_solid (s : PpSt) (t : Tok) (s' : PpSt) (hc : isCr t = false) (hw : isWs t = false)
    (hp : (t.kind == .preproc) = false) (h : ppStep s t = some s') : s' = .code := by
  unfold ppStep at h
  simp only [hc, hw, hp, Bool.false_eq_true, if_false] at h
  split at h
  · cases h
  · injection h with h; exact h.symm

/-- **remove_carriage_return_after_token, repaired**: in every context whose right part does not begin
    with a preprocessor line, preprocessor lines that stood alone on their lines still do — provided the
    region starts with a solid token (the keyword the rule is about) -/
theorem fixRemoveCrAfter_preprocSafe (c : Cls) (b : Bool) (l new : List Tok) (h : fixRemoveCrAfter c b l = .ok new)
    (hhead : headSolid l = true) (pre post : List Tok) (hpost : nextIsPreproc post = false)
    (hok : preprocOwnLine (pre ++ l ++ post) = true) : preprocOwnLine (pre ++ new ++ post) = true := by
  have hf := fixRemoveCrAfter_filterWs c b l new h
  unfold preprocOwnLine at hok ⊢
  rw [List.append_assoc, ppGo_append] at hok ⊢
  cases hr : ppRun .fresh pre with
  | none => simp [hr] at hok
  | some s0 =>
    simp only [hr] at hok ⊢
    -- whitespace tokens aside, `new` is `removeCrBeforeComment l`
    rw [← ppGo_dropWs, List.filter_append, hf, ← List.filter_append, ppGo_dropWs]
    cases l with
    | nil => simp [headSolid] at hhead
    | cons t r =>
      simp only [headSolid, Bool.and_eq_true, Bool.not_eq_true'] at hhead
      obtain ⟨⟨hc, hw⟩, hp⟩ := hhead
      have hci : removeCrBeforeComment (t :: r) = t :: r ∨ removeCrBeforeComment (t :: r) = t :: removeCrBeforeComment r := by
        simp only [removeCrBeforeComment, hc, Bool.false_eq_true, if_false]
        split
        · exact Or.inl rfl
        · exact Or.inr rfl
      rcases hci with e | e
      · rw [e]; exact hok
      · rw [e]
        simp only [List.cons_append, ppGo] at hok ⊢
        cases hs : ppStep s0 t with
        | none => simp [hs] at hok
        | some s' =>
          simp only [hs] at hok ⊢
          have := ppStep_solid s0 t s' hc hw hp hs
          subst this
          exact ppGo_removeCrBeforeComment r post hpost hok

/-! ## block_001: moving a token sequence -/

theorem pyGet_last {α : Type} (l : List α) (x : α) (h : pyGet l (-1) = .ok x) : l = l.dropLast ++ [x] := by
  obtain ⟨k, hk, hx⟩ := pyGet_some l (-1) x h
  unfold pyIdx at hk
  simp only [show ((-1 : Int) < 0) by omega, if_true] at hk
  split at hk
  · cases hk
    have hk' : (-1 + (l.length : Int)).toNat = l.length - 1 := by omega
    rw [hk'] at hx
    have hne : l ≠ [] := by intro hh; subst hh; simp at hx
    have hl := List.dropLast_concat_getLast hne
    have : l.getLast hne = x := by
      rw [List.getLast_eq_getElem]
      rw [List.getElem?_eq_getElem (by rename_i hh; omega)] at hx
      exact Option.some.inj hx
    rw [this] at hl; exact hl.symm
  · cases hk

theorem seqBody_layoutOnly (l : List Tok) : LayoutOnly l (seqBody l) := by
  unfold seqBody LayoutOnly
  cases l with
  | nil => rfl
  | cons t r =>
    simp only
    split
    · rename_i h; rw [nonLayout_cons_layout (isWs_layout h)]
    · rfl

/-- block_001: the result is, up to layout, the region with the blocks `seqMoved` and `seqJumped`
    swapped; comments stay at their line ends when the region does not start with a line break and
    neither block ends in a comment -/
theorem fixMoveSeq_spec (c : Cls) (n : Int) (l new : List Tok) (h : fixMoveSeq c n l = .ok new) :
    ∃ last, LayoutOnly l (seqMoved n l ++ seqJumped n l ++ [last]) ∧
      LayoutOnly new (seqJumped n l ++ seqMoved n l ++ [last]) ∧
      (startsCr l = false → endsLC (seqMoved n l) = false → endsLC (seqJumped n l) = false → CelSafe l new) := by
  unfold fixMoveSeq at h
  cases h0 : pyGet l 0 with
  | error e => simp [h0, bind, Except.bind] at h
  | ok t0 =>
    simp only [h0, bind, Except.bind] at h
    cases hl : pyGet ((seqBody l).drop (pyCut (seqBody l).length n)) (-1) with
    | error e => simp [hl] at h
    | ok last =>
      simp only [hl] at h
      have hrest := pyGet_last _ _ hl
      have hbody : seqBody l = seqMoved n l ++ seqJumped n l ++ [last] := by
        unfold seqMoved seqJumped
        rw [List.append_assoc, ← hrest, List.take_append_drop]
      have hm : LayoutOnly (rcw (seqJumped n l ++ seqMoved n l ++ [mkWs c] ++ [last])) (seqJumped n l ++ seqMoved n l ++ [last]) := by
        apply LayoutOnly.trans' (LayoutOnly.symm' (rcw_layoutOnly _))
        unfold LayoutOnly
        simp only [nonLayout_append]
        rw [show nonLayout [mkWs c] = [] from rfl, List.append_nil]
      -- the region is `lead ++ body` with `lead` empty or one whitespace token
      have ht0 : l = t0 :: l.tail := by
        obtain ⟨k, hk, hk2⟩ := pyGet_some l 0 t0 h0
        have : k = 0 := by
          unfold pyIdx at hk; simp at hk; omega
        subst this
        cases l with
        | nil => simp at hk2
        | cons a r => simp at hk2; rw [hk2]; rfl
      have hlead : l = (if isWs t0 then [t0] else []) ++ seqBody l := by
        rw [ht0]; unfold seqBody; simp only
        split <;> simp
      -- what the rearrangement does in a right context
      have hright : ∀ post, endsLC (seqMoved n l) = false → endsLC (seqJumped n l) = false →
          commentEndsLine (seqBody l ++ post) = true →
          commentEndsLine (seqJumped n l ++ seqMoved n l ++ [mkWs c] ++ [last] ++ post) = true := by
        intro post hm1 hj1 hb
        rw [hbody] at hb
        simp only [List.append_assoc] at hb ⊢
        rw [cel_append] at hb
        simp only [Bool.and_eq_true] at hb
        have hb2 := hb.1.2
        rw [cel_append] at hb2
        simp only [Bool.and_eq_true] at hb2
        rw [cel_append, hb2.1.1, hj1, cel_append, hb.1.1, hm1]
        simp only [List.singleton_append] at hb2 ⊢
        rw [cel_cons_nonLC (mkWs_nonLC c), hb2.1.2]; rfl
      refine ⟨last, ?_, ?_, ?_⟩
      · rw [← hbody]; exact seqBody_layoutOnly l
      · unfold seqMoved seqJumped at hm
        split at h
        · exact LayoutOnly.trans' (LayoutOnly.symm' (insertLayout_layoutOnly _ _ 0 (mkBlank c) (mkBlank_layout c) h)) hm
        · cases h; exact hm
      · intro hh hm1 hj1
        apply celSafe_of_right l new hh
        intro post hc
        have hb : commentEndsLine (seqBody l ++ post) = true := by
          rw [hlead, List.append_assoc] at hc
          rw [cel_append] at hc
          simp only [Bool.and_eq_true] at hc
          exact hc.1.2
        have hr := hright post hm1 hj1 hb
        have hsafe := celSafe_rcw (seqJumped n l ++ seqMoved n l ++ [mkWs c] ++ [last])
        unfold seqMoved seqJumped at hsafe hr
        split at h
        · obtain ⟨_, hn⟩ := insertToken_eq _ _ 0 (mkBlank c) h
          have hpos : ∀ k, insPos k 0 = 0 := by intro k; unfold insPos; simp; omega
          rw [hn, hpos]
          simp only [List.take_zero, List.nil_append, List.drop_zero, List.singleton_append, List.cons_append]
          rw [cel_cons_nonLC (mkBlank_nonLC c)]
          have := hsafe [] post (by simpa using hr)
          simpa using this
        · cases h
          have := hsafe [] post (by simpa using hr)
          simpa using this

/-! ## move_token with `preserve_comment` -/

theorem pyPop_last {α : Type} (l : List α) (x : α) (r : List α) (h : pyPop l (-1) = .ok (x, r)) :
    l = r ++ [x] ∧ pyGet l (-1) = .ok x := by
  have hg : pyGet l (-1) = .ok x := by
    unfold pyPop at h; unfold pyGet
    cases hk : pyIdx l.length (-1) with
    | none => simp [hk] at h
    | some k =>
      simp only [hk] at h ⊢
      cases hx : l[k]? with
      | none => simp [hx] at h
      | some y => simp only [hx] at h ⊢; cases h; rfl
  refine ⟨?_, hg⟩
  have hl := pyGet_last l x hg
  obtain ⟨k, hk, _, hr⟩ := pyPop_eq l (-1) x r h
  have hk' : k = l.length - 1 := by
    unfold pyIdx at hk
    simp only [show ((-1 : Int) < 0) by omega, if_true] at hk
    split at hk
    · cases hk; omega
    · cases hk
  rw [hr, hk', List.eraseIdx_length_sub_one]; exact hl

theorem preserveTail_two (l0 : List Tok) (w cm : Tok) (hw : isWs w = true) (hc : isCommentInst cm = true) :
    preserveTail (l0 ++ [w] ++ [cm]) = [w, cm] := by
  unfold preserveTail
  simp [hw, hc]

theorem preserveTail_one (l0 : List Tok) (w cm : Tok) (hw : isWs w = false) (hc : isCommentInst cm = true) :
    preserveTail (l0 ++ [w] ++ [cm]) = [cm] := by
  unfold preserveTail
  simp [hw, hc]

theorem preserveTail_none (l0 : List Tok) (cm : Tok) (hc : isCommentInst cm = false) :
    preserveTail (l0 ++ [cm]) = [] := by
  unfold preserveTail
  simp [hc]

theorem preserveBody_of (l1 T : List Tok) (h : preserveTail (l1 ++ T) = T) : preserveBody (l1 ++ T) = l1 := by
  unfold preserveBody
  rw [h, List.length_append, Nat.add_sub_cancel]
  exact List.take_left' rfl

theorem fixNewLinePreserve_shape (c : Cls) (i : Int) (l new : List Tok) (h : fixNewLinePreserve c i l = .ok new) :
    l = preserveBody l ++ preserveTail l ∧
    ∃ l2, insertCr c (preserveBody l) i = .ok l2 ∧ new = pyInsertList l2 i (preserveTail l) := by
  unfold fixNewLinePreserve at h
  cases h1 : pyGet l (-1) with
  | error e => simp [h1, bind, Except.bind] at h
  | ok tl =>
    simp only [h1, bind, Except.bind] at h
    have hl := pyGet_last l tl h1
    by_cases hc : isCommentInst tl = true
    · simp only [hc, if_true] at h
      cases h2 : pyPop l (-1) with
      | error e => simp [h2] at h
      | ok xr =>
        obtain ⟨cm, la⟩ := xr
        simp only [h2] at h
        obtain ⟨hla, hg⟩ := pyPop_last l cm la h2
        rw [h1] at hg
        cases hg
        cases h3 : pyGet la (-1) with
        | error e => simp [h3] at h
        | ok tl2 =>
          simp only [h3] at h
          have hla2 := pyGet_last la tl2 h3
          by_cases hw : isWs tl2 = true
          · simp only [hw, if_true] at h
            cases h4 : pyPop la (-1) with
            | error e => simp [h4] at h
            | ok wr =>
              obtain ⟨w, lb⟩ := wr
              simp only [h4, pure, Except.pure] at h
              obtain ⟨hlb, hg2⟩ := pyPop_last la w lb h4
              rw [h3] at hg2
              cases hg2
              have hform : l = lb ++ [tl2] ++ [tl] := by rw [← hlb, ← hla]
              have hT : preserveTail l = [tl2, tl] := by rw [hform]; exact preserveTail_two lb tl2 tl hw hc
              have hB : preserveBody l = lb := by
                have : l = lb ++ [tl2, tl] := by rw [hform]; simp
                rw [this]; apply preserveBody_of; rw [← this]; exact hT
              rw [hT, hB]
              refine ⟨by rw [hform]; simp, ?_⟩
              cases h5 : insertCr c lb i with
              | error e => simp [h5] at h
              | ok l2 => simp only [h5] at h; cases h; exact ⟨l2, rfl, rfl⟩
          · have hw' : isWs tl2 = false := by simpa using hw
            simp only [hw', Bool.false_eq_true, if_false, pure, Except.pure] at h
            have hform : l = la.dropLast ++ [tl2] ++ [tl] := by rw [← hla2, ← hla]
            have hT : preserveTail l = [tl] := by rw [hform]; exact preserveTail_one _ tl2 tl hw' hc
            have hB : preserveBody l = la := by
              have : l = la ++ [tl] := hla
              rw [this]; apply preserveBody_of; rw [← this]; exact hT
            rw [hT, hB]
            refine ⟨hla, ?_⟩
            cases h5 : insertCr c la i with
            | error e => simp [h5] at h
            | ok l2 => simp only [h5] at h; cases h; exact ⟨l2, rfl, rfl⟩
    · have hc' : isCommentInst tl = false := by simpa using hc
      simp only [hc', Bool.false_eq_true, if_false, pure, Except.pure] at h
      have hT : preserveTail l = [] := by rw [hl]; exact preserveTail_none _ tl hc'
      have hB : preserveBody l = l := by
        unfold preserveBody; rw [hT]; simp
      rw [hT, hB]
      refine ⟨by simp, ?_⟩
      cases h5 : insertCr c l i with
      | error e => simp [h5] at h
      | ok l2 => simp only [h5] at h; cases h; exact ⟨l2, rfl, rfl⟩

/-- the tail consists of whitespace / comment tokens -/
theorem preserveTail_shape (l : List Tok) :
    preserveTail l = [] ∨ (∃ cm, preserveTail l = [cm] ∧ isCommentInst cm = true) ∨
      (∃ w cm, preserveTail l = [w, cm] ∧ isWs w = true ∧ isCommentInst cm = true) := by
  unfold preserveTail
  cases l.getLast? with
  | none => exact Or.inl rfl
  | some cm =>
    simp only
    by_cases hc : isCommentInst cm = true
    · simp only [hc, if_true]
      cases l.dropLast.getLast? with
      | none => exact Or.inr (Or.inl ⟨cm, rfl, hc⟩)
      | some w =>
        simp only
        by_cases hw : isWs w = true
        · simp only [hw, if_true]; exact Or.inr (Or.inr ⟨w, cm, rfl, hw, hc⟩)
        · simp only [hw, Bool.false_eq_true, if_false]; exact Or.inr (Or.inl ⟨cm, rfl, hc⟩)
    · simp only [hc, Bool.false_eq_true, if_false]; exact Or.inl trivial

/-- position the preserved comment is re-inserted at, relative to the new line break: directly
    before it (`q = p`) or directly after it (`q = p + 1`: negative or too large `token_index`) -/
theorem fixNewLinePreserve_spec (c : Cls) (i : Int) (l new : List Tok) (h : fixNewLinePreserve c i l = .ok new) :
    let B := preserveBody l
    let T := preserveTail l
    let p := insPos B.length i
    l = B ++ T ∧
    (new = B.take p ++ T ++ [mkCr c] ++ B.drop p ∨ new = B.take p ++ [mkCr c] ++ T ++ B.drop p) ∧
    (0 ≤ i → i ≤ B.length → new = B.take p ++ T ++ [mkCr c] ++ B.drop p) := by
  intro B T p
  obtain ⟨hl, l2, h2, hn⟩ := fixNewLinePreserve_shape c i l new h
  refine ⟨hl, ?_⟩
  unfold insertCr at h2
  obtain ⟨_, hl2⟩ := insertToken_eq _ _ i (mkCr c) h2
  have hp : p ≤ B.length := insPos_le _ _
  have hlen2 : l2.length = B.length + 1 := by
    rw [hl2]; simp only [List.length_append, List.length_take, List.length_drop, List.length_singleton]
    show min p B.length + 1 + (B.length - p) = B.length + 1
    omega
  have hnew : new = l2.take (insPos (B.length + 1) i) ++ T ++ l2.drop (insPos (B.length + 1) i) := by
    rw [hn]; unfold pyInsertList; rw [hlen2]; rfl
  have htk : (B.take p).length = p := by rw [List.length_take]; omega
  have hl2' : l2 = B.take p ++ ([mkCr c] ++ B.drop p) := by rw [hl2]; simp [p, B]
  have caseP : insPos (B.length + 1) i = p → new = B.take p ++ T ++ [mkCr c] ++ B.drop p := by
    intro hq
    rw [hnew, hq, hl2', List.take_append_of_le_length (by omega), List.take_of_length_le (by omega),
      List.drop_append_of_le_length (by omega), List.drop_of_length_le (by omega)]
    simp
  have caseS : insPos (B.length + 1) i = p + 1 → new = B.take p ++ [mkCr c] ++ T ++ B.drop p := by
    intro hq
    have e : l2 = (B.take p ++ [mkCr c]) ++ B.drop p := by rw [hl2']; simp
    have hlen3 : (B.take p ++ [mkCr c]).length = p + 1 := by simp [htk]
    rw [hnew, hq, e, List.take_append_of_le_length (by omega), List.take_of_length_le (by omega),
      List.drop_append_of_le_length (by omega), List.drop_of_length_le (by omega)]
    simp
  constructor
  · rcases insPos_succ B.length i with hq | hq
    · exact Or.inl (caseP hq)
    · exact Or.inr (caseS hq)
  · intro h0 h1
    apply caseP
    show insPos (B.length + 1) i = insPos B.length i
    unfold insPos
    have : ¬ (i < 0) := by omega
    simp only [this, if_false]
    omega


/-! ## consequences for the code and comment sequences -/

theorem codeSeq_wsLike (fold : Str → Str) (t : Tok) (h : isWsLike t = true) : codeSeq fold [t] = [] := by
  have hc : t.isCode = false := by
    unfold isWsLike at h; unfold Tok.isCode
    cases hk : t.kind <;> simp_all
  simp [codeSeq, codeOf, hc]

theorem commentSeq_wsLike (t : Tok) (h : isWsLike t = true) (hp : t.kind ≠ .preproc) : commentSeq [t] = [] := by
  have hc : t.isCommentLike = false := by
    unfold isWsLike at h; unfold Tok.isCommentLike Kind.isCommentLike
    cases hk : t.kind <;> simp_all
  simp [commentSeq, hc]

theorem codeSeq_singleton (fold : Str → Str) (x : Tok) : codeSeq fold [x] = codeOf fold x := by
  simp [codeSeq]

/-- **exact condition for C01**: the code sequence survives a single-token move iff what the moved
    token contributes commutes with what the jumped tokens contribute -/
theorem FixOut.codeSeq_iff {l new : List Tok} {ki ii : Int} {w : Bool} {k : Nat} {x : Tok}
    (fo : FixOut l ki ii w new k x) (fold : Str → Str) :
    codeSeq fold new = codeSeq fold l ↔
      codeOf fold x ++ codeSeq fold (crossed l k (insPos (l.length - 1) ii)) =
        codeSeq fold (crossed l k (insPos (l.length - 1) ii)) ++ codeOf fold x := by
  rw [fo.proj (codeSeq fold) (blind_codeSeq fold) (fun _ t _ hw => codeSeq_wsLike fold t hw),
    moveTo_hom_iff (codeSeq fold) (codeSeq_append fold) l k x fo.get, codeSeq_singleton]

theorem FixOut.commentSeq_iff {l new : List Tok} {ki ii : Int} {w : Bool} {k : Nat} {x : Tok}
    (fo : FixOut l ki ii w new k x) (hpre : w = true → ∀ t ∈ l, t.kind ≠ .preproc) :
    commentSeq new = commentSeq l ↔
      commentSeq [x] ++ commentSeq (crossed l k (insPos (l.length - 1) ii)) =
        commentSeq (crossed l k (insPos (l.length - 1) ii)) ++ commentSeq [x] := by
  rw [fo.proj commentSeq blind_commentSeq (fun hw t ht hwl => commentSeq_wsLike t hwl (hpre hw t ht)),
    moveTo_hom_iff commentSeq commentSeq_append l k x fo.get]

theorem codeSeq_eq_nil_of_noCode (fold : Str → Str) (l : List Tok) (h : ∀ t ∈ l, t.isCode = false) :
    codeSeq fold l = [] := by
  induction l with
  | nil => rfl
  | cons t l ih =>
    have := ih (fun s hs => h s (List.mem_cons_of_mem _ hs))
    simp only [codeSeq, List.flatMap_cons] at this ⊢
    rw [this]
    simp [codeOf, h t (List.mem_cons_self ..)]

theorem commentSeq_eq_nil_of_noComment (l : List Tok) (h : ∀ t ∈ l, t.isCommentLike = false) :
    commentSeq l = [] := by
  induction l with
  | nil => rfl
  | cons t l ih =>
    have := ih (fun s hs => h s (List.mem_cons_of_mem _ hs))
    simp only [commentSeq, List.flatMap_cons] at this ⊢
    rw [this]
    simp [h t (List.mem_cons_self ..)]

/-! ## dispatch: which model an owner runs -/

theorem allOwners_not_other : ∀ o ∈ LineStruct.allOwners,
    o ∉ Base.alignOwners ∧ o ∉ Base.indentOwners ∧ o ∉ Base.blankBelowOwners ∧ o ∉ Base.blankAboveOwners ∧
    o ∉ Base.excessAboveOwners ∧ o ∉ Base.excessBelowOwners ∧ o ∉ Base.removeAboveOwners ∧ o ∉ Base.ws200Owners ∧
    o ∉ Base.betweenPairsOwners ∧ o ∉ Base.wsOwners ∧ o ∉ Base.caseTokenOwners ∧ o ∉ Base.caseFormalOwners ∧
    o ∉ Base.caseConsistentOwners ∧ o ∉ Base.caseInterfaceOwners := by decide +kernel

/-- the global dispatch hands every owner of this family to `LineStruct.fixByOwner` -/
theorem fixByOwner_lineStruct (owner : String) (p a : KV) (old : List Tok) (ho : owner ∈ LineStruct.allOwners) :
    Base.fixByOwner owner p a old = LineStruct.fixByOwner Base.lineCls owner p a old := by
  obtain ⟨h1, h2, h3, h4, h5, h6, h7, h8, h9, h10, h11, h12, h13, h14⟩ := allOwners_not_other owner ho
  unfold Base.fixByOwner
  simp only [h1, h2, h3, h4, h5, h6, h7, h8, h9, h10, h11, h12, h13, h14, ho, if_true, if_false]

theorem dispatch_move (c : Cls) (owner : String) (params action : KV) (old new : List Tok)
    (ho : owner ∈ singleMoveOwners) (h : LineStruct.fixByOwner c owner params action old = some (.ok new)) :
    ∃ ki ii w k x, moveIdx owner action = some (ki, ii) ∧ FixOut old ki ii w new k x ∧
      (w = true → owner ∈ moveLeftOwners ∧ needBool params "bRemoveTrailingWhitespace" = .ok true) := by
  simp only [singleMoveOwners, moveNextOwners, moveNextBetweenOwners, moveLeftOwners, moveRightOwners,
    moveRightOfOwners, List.mem_append, List.mem_singleton] at ho
  rcases ho with (((ho | ho) | ho) | ho) | ho <;> subst ho
  · simp [LineStruct.fixByOwner, moveNextOwners] at h
    cases h1 : needTokenValue action with
    | error e => simp [h1, bind, Except.bind] at h
    | ok i =>
      simp only [h1, bind, Except.bind] at h
      obtain ⟨k, x, fo⟩ := fixMoveNext_spec c i old new h
      exact ⟨i, 1, false, k, x, by simp [moveIdx, moveNextOwners, h1], fo, by intro hh; cases hh⟩
  · simp [LineStruct.fixByOwner, moveNextOwners, moveNextBetweenOwners] at h
    cases h1 : needInt action "moveIndex" with
    | error e => simp [h1, bind, Except.bind] at h
    | ok m =>
      cases h2 : needInt action "insertIndex" with
      | error e => simp [h1, h2, bind, Except.bind] at h
      | ok i =>
        simp only [h1, h2, bind, Except.bind] at h
        obtain ⟨k, x, fo⟩ := fixMoveNextBetween_spec c m i old new h
        exact ⟨m, i, false, k, x, by simp [moveIdx, moveNextOwners, moveNextBetweenOwners, h1, h2], fo, by intro hh; cases hh⟩
  · simp [LineStruct.fixByOwner, moveNextOwners, moveNextBetweenOwners, moveLeftOwners] at h
    cases h1 : needBool params "bInsertWhitespace" with
    | error e => simp [h1, bind, Except.bind] at h
    | ok bw =>
      cases h2 : needBool params "bRemoveTrailingWhitespace" with
      | error e => simp [h1, h2, bind, Except.bind] at h
      | ok bt =>
        simp only [h1, h2, bind, Except.bind] at h
        obtain ⟨k, x, fo⟩ := fixMoveLeft_spec c bw bt old new h
        exact ⟨-1, 1, bt, k, x, by simp [moveIdx, moveNextOwners, moveNextBetweenOwners, moveLeftOwners], fo,
          by intro hbt; subst hbt; exact ⟨by simp [moveLeftOwners], rfl⟩⟩
  · simp [LineStruct.fixByOwner, moveNextOwners, moveNextBetweenOwners, moveLeftOwners, moveRightOwners] at h
    cases h1 : needAttrInt action "_a" with
    | error e => simp [h1, bind, Except.bind] at h
    | ok i =>
      cases h2 : needBool params "bInsertWhitespace" with
      | error e => simp [h1, h2, bind, Except.bind] at h
      | ok bw =>
        simp only [h1, h2, bind, Except.bind] at h
        obtain ⟨k, x, fo⟩ := fixMoveRight_spec c bw i old new h
        exact ⟨i, -1, false, k, x,
          by simp [moveIdx, moveNextOwners, moveNextBetweenOwners, moveLeftOwners, moveRightOwners, h1], fo,
          by intro hh; cases hh⟩
  · simp [LineStruct.fixByOwner, moveNextOwners, moveNextBetweenOwners, moveLeftOwners, moveRightOwners,
      moveTokenOwners, moveRightOfOwners] at h
    cases h1 : needInt action "move_index" with
    | error e => simp [h1, bind, Except.bind] at h
    | ok m =>
      cases h2 : needInt action "insert" with
      | error e => simp [h1, h2, bind, Except.bind] at h
      | ok i =>
        cases h3 : needBool params "bInsertWhitespace" with
        | error e => simp [h1, h2, h3, bind, Except.bind] at h
        | ok bw =>
          simp only [h1, h2, h3, bind, Except.bind] at h
          obtain ⟨k, x, fo⟩ := fixMoveRightOf_spec c bw m i old new h
          exact ⟨m, i, false, k, x,
            by simp [moveIdx, moveNextOwners, moveNextBetweenOwners, moveLeftOwners, moveRightOwners,
              moveRightOfOwners, h1, h2], fo, by intro hh; cases hh⟩

/-- move_token: which of its three fixes ran -/
theorem dispatch_moveToken (c : Cls) (owner : String) (params action : KV) (old new : List Tok)
    (ho : owner ∈ moveTokenOwners) (h : LineStruct.fixByOwner c owner params action old = some (.ok new)) :
    ∃ a pc, needStr params "action" = .ok a ∧ needBool params "preserve_comment" = .ok pc ∧
      (moveTokenMode a pc = .newLine → fixSplitLine c old = .ok new) ∧
      (moveTokenMode a pc = .newLinePreserve → ∃ i, needAttrInt action "_ti" = .ok i ∧ fixNewLinePreserve c i old = .ok new) ∧
      (moveTokenMode a pc = .moveLeft → ∃ b, fixMoveTokenLeft c b old = .ok new) := by
  simp only [moveTokenOwners, List.mem_singleton] at ho
  subst ho
  simp [LineStruct.fixByOwner, moveNextOwners, moveNextBetweenOwners, moveLeftOwners, moveRightOwners,
    moveTokenOwners] at h
  cases h1 : needStr params "action" with
  | error e => simp [h1, bind, Except.bind] at h
  | ok a =>
    cases h2 : needBool params "preserve_comment" with
    | error e => simp [h1, h2, bind, Except.bind] at h
    | ok pc =>
      simp only [h1, h2, bind, Except.bind] at h
      refine ⟨a, pc, rfl, rfl, ?_, ?_, ?_⟩
      · intro hm; rw [hm] at h; exact h
      · intro hm; rw [hm] at h
        simp only at h
        cases h3 : needAttrInt action "_ti" with
        | error e => simp [h3] at h
        | ok i => simp only [h3] at h; exact ⟨i, rfl, h⟩
      · intro hm; rw [hm] at h
        simp only at h
        cases h3 : needBool action "_iw" with
        | error e => simp [h3] at h
        | ok b => simp only [h3] at h; exact ⟨b, h⟩

theorem dispatch_moveSeq (c : Cls) (owner : String) (params action : KV) (old new : List Tok)
    (ho : owner ∈ moveSeqOwners) (h : LineStruct.fixByOwner c owner params action old = some (.ok new)) :
    ∃ n, needInt action "num_tokens" = .ok n ∧ fixMoveSeq c n old = .ok new := by
  simp only [moveSeqOwners, List.mem_singleton] at ho
  subst ho
  simp [LineStruct.fixByOwner, moveNextOwners, moveNextBetweenOwners, moveLeftOwners, moveRightOwners,
    moveTokenOwners, moveRightOfOwners, moveSeqOwners] at h
  cases h1 : needInt action "num_tokens" with
  | error e => simp [h1, bind, Except.bind] at h
  | ok n => simp only [h1, bind, Except.bind] at h; exact ⟨n, rfl, h⟩

/-- the line-break inserting owners and the line-break removing owners: layout only; the former keep
    every comment at its line end, the latter do iff the comments of the region still end their
    lines once the line breaks are gone -/
theorem dispatch_layout (c : Cls) (owner : String) (params action : KV) (old new : List Tok)
    (ho : owner ∈ breakOwners ++ removeCrOwners) (h : LineStruct.fixByOwner c owner params action old = some (.ok new)) :
    LayoutOnly old new ∧
    (owner ∈ breakOwners → CelSafe old new) ∧
    (owner ∈ removeCrAfterOwners → startsCr old = false → endsLC (old.take 1) = false → CelSafe old new) ∧
    (owner ∈ removeCrPairsOwners → startsCr old = false → (∀ t ∈ old.dropLast, isLC t = false) → CelSafe old new) := by
  simp only [breakOwners, insertCrAfterOwners, splitLineOwners, splitAtOwners, removeCrOwners, removeCrAfterOwners,
    removeCrPairsOwners, List.mem_append, List.mem_cons, List.mem_singleton, List.not_mem_nil, or_false] at ho
  rcases ho with (((ho | ho | ho) | (ho | ho | ho)) | ho) | (ho | ho) <;> subst ho
  all_goals
    simp [LineStruct.fixByOwner, moveNextOwners, moveNextBetweenOwners, moveLeftOwners, moveRightOwners,
      moveTokenOwners, moveRightOfOwners, moveSeqOwners, insertCrAfterOwners, splitLineOwners, splitAtOwners,
      removeCrAfterOwners, removeCrPairsOwners] at h
  · exact ⟨(fixInsertCrAfter_spec c old new h).1, fun _ => (fixInsertCrAfter_spec c old new h).2, by simp [removeCrAfterOwners], by simp [removeCrPairsOwners]⟩
  · exact ⟨(fixInsertCrAfter_spec c old new h).1, fun _ => (fixInsertCrAfter_spec c old new h).2, by simp [removeCrAfterOwners], by simp [removeCrPairsOwners]⟩
  · exact ⟨(fixInsertCrAfter_spec c old new h).1, fun _ => (fixInsertCrAfter_spec c old new h).2, by simp [removeCrAfterOwners], by simp [removeCrPairsOwners]⟩
  · exact ⟨(fixSplitLine_spec c old new h).1, fun _ => (fixSplitLine_spec c old new h).2, by simp [removeCrAfterOwners], by simp [removeCrPairsOwners]⟩
  · exact ⟨(fixSplitLine_spec c old new h).1, fun _ => (fixSplitLine_spec c old new h).2, by simp [removeCrAfterOwners], by simp [removeCrPairsOwners]⟩
  · exact ⟨(fixSplitLine_spec c old new h).1, fun _ => (fixSplitLine_spec c old new h).2, by simp [removeCrAfterOwners], by simp [removeCrPairsOwners]⟩
  · cases h1 : needInt action "insert_index" with
    | error e => simp [h1, bind, Except.bind] at h
    | ok i =>
      simp only [h1, bind, Except.bind] at h
      exact ⟨(fixSplitAt_spec c i old new h).1, fun _ => (fixSplitAt_spec c i old new h).2, by simp [removeCrAfterOwners], by simp [removeCrPairsOwners]⟩
  · cases h1 : needBool params "bInsertSpace" with
    | error e => simp [h1, bind, Except.bind] at h
    | ok b =>
      simp only [h1, bind, Except.bind] at h
      exact ⟨(fixRemoveCrAfter_spec c b old new h).1,
        by simp [breakOwners, insertCrAfterOwners, splitLineOwners, splitAtOwners],
        fun _ => (fixRemoveCrAfter_spec c b old new h).2, by simp [removeCrPairsOwners]⟩
  · cases h1 : needBool params "bInsertSpace" with
    | error e => simp [h1, bind, Except.bind] at h
    | ok b =>
      simp only [h1, bind, Except.bind] at h
      exact ⟨(fixRemoveCr_spec c b old new h).1,
        by simp [breakOwners, insertCrAfterOwners, splitLineOwners, splitAtOwners],
        by simp [removeCrAfterOwners], fun _ => (fixRemoveCr_spec c b old new h).2⟩

/-- remove_carriage_return_after_token through the dispatch: preprocessor lines stay lines of their own -/
theorem dispatch_removeCrAfter_preproc (c : Cls) (owner : String) (params action : KV) (old new : List Tok)
    (ho : owner ∈ removeCrAfterOwners) (h : LineStruct.fixByOwner c owner params action old = some (.ok new))
    (hhead : headSolid old = true) (pre post : List Tok) (hpost : nextIsPreproc post = false)
    (hok : preprocOwnLine (pre ++ old ++ post) = true) : preprocOwnLine (pre ++ new ++ post) = true := by
  simp only [removeCrAfterOwners, List.mem_cons, List.mem_singleton, List.not_mem_nil, or_false] at ho
  subst ho
  simp [LineStruct.fixByOwner, moveNextOwners, moveNextBetweenOwners, moveLeftOwners, moveRightOwners,
    moveTokenOwners, moveRightOfOwners, moveSeqOwners, insertCrAfterOwners, splitLineOwners, splitAtOwners,
    removeCrAfterOwners, removeCrPairsOwners] at h
  cases h1 : needBool params "bInsertSpace" with
  | error e => simp [h1, bind, Except.bind] at h
  | ok b =>
    simp only [h1, bind, Except.bind] at h
    exact fixRemoveCrAfter_preprocSafe c b old new h hhead pre post hpost hok

/-! ## move_token with `preserve_comment`: consequences -/

theorem isCommentInst_nonCode {t : Tok} (h : isCommentInst t = true) : t.isCode = false := by
  unfold isCommentInst at h; unfold Tok.isCode
  cases hk : t.kind <;> simp_all

theorem isWs_nonCode {t : Tok} (h : isWs t = true) : t.isCode = false := by
  unfold isWs at h; unfold Tok.isCode
  cases hk : t.kind <;> simp_all

theorem preserveTail_noCode (l : List Tok) : ∀ t ∈ preserveTail l, t.isCode = false := by
  intro t ht
  rcases preserveTail_shape l with h | ⟨cm, h, hc⟩ | ⟨w, cm, h, hw, hc⟩
  · rw [h] at ht; cases ht
  · rw [h] at ht; simp at ht; subst ht; exact isCommentInst_nonCode hc
  · rw [h] at ht; simp at ht
    rcases ht with rfl | rfl
    · exact isWs_nonCode hw
    · exact isCommentInst_nonCode hc

/-- the comment sequence (any layout-blind projection) survives iff the trailing comment commutes
    with what it is moved over: the tokens from the new line break to the comment -/
theorem fixNewLinePreserve_hom_iff {β : Type} (π : List Tok → List β) (hπ : Blind π) (c : Cls) (i : Int)
    (l new : List Tok) (h : fixNewLinePreserve c i l = .ok new) :
    π new = π l ↔
      π (preserveTail l) ++ π ((preserveBody l).drop (insPos (preserveBody l).length i)) =
        π ((preserveBody l).drop (insPos (preserveBody l).length i)) ++ π (preserveTail l) := by
  obtain ⟨hl, hnew, _⟩ := fixNewLinePreserve_spec c i l new h
  have hcr : π [mkCr c] = [] := hπ.layout _ (mkCr_layout c)
  have hB : π (preserveBody l) = π ((preserveBody l).take (insPos (preserveBody l).length i)) ++
      π ((preserveBody l).drop (insPos (preserveBody l).length i)) := by
    rw [← hπ.hom, List.take_append_drop]
  have hnew' : π new = π ((preserveBody l).take (insPos (preserveBody l).length i)) ++ (π (preserveTail l) ++
      π ((preserveBody l).drop (insPos (preserveBody l).length i))) := by
    rcases hnew with hn | hn <;> rw [hn] <;> simp only [hπ.hom, hcr, List.append_nil, List.append_assoc, List.nil_append]
  have hl' : π l = π ((preserveBody l).take (insPos (preserveBody l).length i)) ++
      (π ((preserveBody l).drop (insPos (preserveBody l).length i)) ++ π (preserveTail l)) := by
    conv => lhs; rw [hl]
    rw [hπ.hom, hB, List.append_assoc]
  rw [hnew', hl', List.append_right_inj]

theorem fixNewLinePreserve_codeSeq (fold : Str → Str) (c : Cls) (i : Int) (l new : List Tok)
    (h : fixNewLinePreserve c i l = .ok new) : codeSeq fold new = codeSeq fold l := by
  rw [fixNewLinePreserve_hom_iff (codeSeq fold) (blind_codeSeq fold) c i l new h,
    codeSeq_eq_nil_of_noCode fold _ (preserveTail_noCode l)]
  simp

theorem preserveTail_startsCr (l post : List Tok) (hT : preserveTail l ≠ []) :
    startsCr (preserveTail l ++ post) = false := by
  rcases preserveTail_shape l with h | ⟨cm, h, hc⟩ | ⟨w, cm, h, hw, hc⟩
  · exact absurd h hT
  · rw [h]; simp only [List.singleton_append, startsCr]
    unfold isCommentInst at hc; unfold isCr
    cases hk : cm.kind <;> simp_all
  · rw [h]; simp only [List.cons_append, startsCr]
    exact isWs_nonCr hw

/-- move_token, `preserve_comment`: comments stay at their line ends when the region does not start
    with a line break, the token index is a position of the comment-free part, and (if there is a
    trailing comment to pull forward) the token before the new line break is not a comment -/
theorem fixNewLinePreserve_cel (c : Cls) (i : Int) (l new : List Tok) (h : fixNewLinePreserve c i l = .ok new)
    (hh : startsCr l = false) (h0 : 0 ≤ i) (h1 : i ≤ (preserveBody l).length)
    (ha : preserveTail l ≠ [] → endsLC ((preserveBody l).take (insPos (preserveBody l).length i)) = false) :
    CelSafe l new := by
  obtain ⟨hl, _, hnew⟩ := fixNewLinePreserve_spec c i l new h
  apply celSafe_of_right l new hh
  intro post hc
  rw [hnew h0 h1]
  have hBsplit := List.take_append_drop (insPos (preserveBody l).length i) (preserveBody l)
  rw [hl, ← hBsplit] at hc
  simp only [List.append_assoc] at hc ⊢
  by_cases hTn : preserveTail l = []
  · rw [hTn] at hc ⊢
    simp only [List.nil_append, List.singleton_append] at hc ⊢
    exact cel_insert_cr _ _ _ hc (mkCr_isCr c)
  · have hst := preserveTail_startsCr l post hTn
    rw [cel_append] at hc
    simp only [Bool.and_eq_true] at hc
    have hD := hc.1.2
    rw [cel_append, hst] at hD
    simp only [Bool.and_eq_true, Bool.or_false, Bool.not_eq_true'] at hD
    have hTp := hD.1.2
    rw [cel_append] at hTp
    simp only [Bool.and_eq_true] at hTp
    rw [cel_append, hc.1.1, ha hTn, cel_append, hTp.1.1, List.singleton_append,
      cel_cons_nonLC (isCr_nonLC (mkCr_isCr c)), cel_append, hD.1.1, hTp.1.2, hD.2]
    simp [startsCr, mkCr_isCr]


/-! ## lifting `CelSafe` through `vhdlFile.update` -/

theorem segs_celSafe (f : List Tok) (es : List (Edit Tok)) (lo : Nat) (h : Chain f.length lo es)
    (hp : ∀ e ∈ es, CelSafe (old f e) e.new) (pre : List Tok)
    (hc : commentEndsLine (pre ++ f.drop lo) = true) : commentEndsLine (pre ++ segs f lo es) = true := by
  induction es generalizing lo pre with
  | nil => exact hc
  | cons e es ih =>
    obtain ⟨h1, h2, h3, h4⟩ := h
    simp only [segs]
    rw [drop_split f lo e.start e.stop h1 h2] at hc
    have hs := hp e (List.mem_cons_self ..) (pre ++ (f.drop lo).take (e.start - lo)) (f.drop e.stop)
      (by unfold old; simpa [List.append_assoc] using hc)
    have := ih e.stop h4 (fun e' he' => hp e' (List.mem_cons_of_mem _ he'))
      (pre ++ (f.drop lo).take (e.start - lo) ++ e.new) hs
    simpa [List.append_assoc] using this

/-- **engine, C02**: if the violations of one `Rule.fix` are sorted, disjoint and in range and every
    `_fix_violation` is `CelSafe` on its own region, no `--` comment of the file swallows code after
    `vhdlFile.update` -/
theorem update_celSafe (f : List Tok) (es : List (Edit Tok)) (h : Chain f.length 0 es)
    (hp : ∀ e ∈ es, CelSafe (old f e) e.new) (hc : commentEndsLine f = true) :
    commentEndsLine (update f es) = true := by
  rw [update_segments f es h]
  have := segs_celSafe f es 0 h hp [] (by simpa using hc)
  simpa using this


/-! ## owner list inclusions -/

theorem layoutOwners_sub_all {o : String} (h : o ∈ breakOwners ++ removeCrOwners) : o ∈ allOwners := by
  simp only [allOwners, phase1Owners, List.mem_append] at h ⊢
  rcases h with h | h
  · exact Or.inl (Or.inl (Or.inr h))
  · exact Or.inl (Or.inr h)

theorem singleMove_sub_all {o : String} (h : o ∈ singleMoveOwners) : o ∈ allOwners := by
  simp only [allOwners, phase1Owners, moveOwners, singleMoveOwners, List.mem_append] at h ⊢
  rcases h with (((h | h) | h) | h) | h <;> simp [h]

theorem moveToken_sub_all {o : String} (h : o ∈ moveTokenOwners) : o ∈ allOwners := by
  simp only [allOwners, phase1Owners, moveOwners, List.mem_append]; simp [h]

theorem moveSeq_sub_all {o : String} (h : o ∈ moveSeqOwners) : o ∈ allOwners := by
  simp only [allOwners, phase1Owners, moveOwners, List.mem_append]; simp [h]

theorem removeLines_sub_all {o : String} (h : o ∈ removeLinesOwners) : o ∈ allOwners := by
  simp only [allOwners, List.mem_append]; simp [h]

end Vsgm.Base.LineStruct
