/-
  Helper lemmas for C05: forward / backward skip searches on a list are determined by the
  filtered view of the list and the rank (number of kept tokens in front) of the start index.
-/
import VsgModel.Classify.Prims
import VsgModel.Classify.PostPasses
import VsgModel.Classify.View
namespace Vsgm.Classify
open Vsgm

/-- equality of results is decidable (for the `decide` witnesses) -/
instance instDecEqExcept {ε α : Type} [DecidableEq ε] [DecidableEq α] : DecidableEq (Except ε α) := fun a b =>
  match a, b with
  | .ok x, .ok y => if h : x = y then isTrue (by rw [h]) else isFalse (by intro e; cases e; exact h rfl)
  | .error x, .error y => if h : x = y then isTrue (by rw [h]) else isFalse (by intro e; cases e; exact h rfl)
  | .ok _, .error _ => isFalse (by intro e; cases e)
  | .error _, .ok _ => isFalse (by intro e; cases e)

/-- the view of a list under a keep predicate -/
def view (p : CTok → Bool) (l : List CTok) : List CTok := l.filter p

/-- rank of index `i`: number of kept tokens strictly in front of it — the index in the view
    that position `i` corresponds to -/
def rank (p : CTok → Bool) (l : List CTok) (i : Nat) : Nat := ((l.take i).filter p).length

theorem rank_zero (p : CTok → Bool) (l : List CTok) : rank p l 0 = 0 := by simp [rank]

theorem rank_cons_succ (p : CTok → Bool) (t : CTok) (l : List CTok) (i : Nat) :
    rank p (t :: l) (i + 1) = rank p l i + (if p t then 1 else 0) := by
  simp only [rank, List.take_succ_cons, List.filter_cons]
  split <;> simp

theorem rank_succ_of_keep (p : CTok → Bool) (l : List CTok) (i : Nat) (t : CTok)
    (h : l[i]? = some t) (hp : p t = true) : rank p l (i + 1) = rank p l i + 1 := by
  induction l generalizing i with
  | nil => simp at h
  | cons a l ih =>
    cases i with
    | zero =>
      simp at h; subst h
      simp [rank, hp]
    | succ i =>
      simp at h
      rw [rank_cons_succ, rank_cons_succ, ih i h]; omega

theorem rank_succ_of_skip (p : CTok → Bool) (l : List CTok) (i : Nat)
    (h : ∀ t, l[i]? = some t → p t = false) : rank p l (i + 1) = rank p l i := by
  induction l generalizing i with
  | nil => simp [rank]
  | cons a l ih =>
    cases i with
    | zero =>
      have := h a (by simp)
      simp [rank, this]
    | succ i =>
      rw [rank_cons_succ, rank_cons_succ, ih i (by intro t ht; exact h t (by simpa using ht))]

theorem rank_le_view (p : CTok → Bool) (l : List CTok) (i : Nat) : rank p l i ≤ (view p l).length := by
  unfold rank view
  exact ((List.take_sublist i l).filter p).length_le

theorem rank_of_ge (p : CTok → Bool) (l : List CTok) (i : Nat) (h : l.length ≤ i) :
    rank p l i = (view p l).length := by
  simp [rank, view, List.take_of_length_le h]

/-- first index `≥ i` with `p`, as plain recursion (the same function as `firstFrom`) -/
theorem firstFrom_cons_succ (p : CTok → Bool) (t : CTok) (l : List CTok) (i : Nat) :
    firstFrom p (t :: l) (i + 1) = (firstFrom p l i).map (· + 1) := by
  simp only [firstFrom, List.drop_succ_cons, Option.map_map]
  congr 1; funext k; simp; omega

theorem firstFrom_cons_zero (p : CTok → Bool) (t : CTok) (l : List CTok) :
    firstFrom p (t :: l) 0 = if p t then some 0 else (firstFrom p l 0).map (· + 1) := by
  simp only [firstFrom, List.drop_zero, List.findIdx?_cons]
  split <;> simp [Option.map_map, Function.comp_def]

/-- **the token found by a forward skip search from `i` is the `rank i`-th token of the view** -/
theorem firstFrom_spec (p : CTok → Bool) (l : List CTok) (i : Nat) :
    match firstFrom p l i with
    | some r => i ≤ r ∧ rank p l r = rank p l i ∧ (∃ t, l[r]? = some t ∧ p t = true ∧ (view p l)[rank p l i]? = some t)
    | none => (view p l)[rank p l i]? = none ∧ (∀ t, l[i]? = some t → p t = false) := by
  induction l generalizing i with
  | nil => simp [firstFrom, view, rank]
  | cons a l ih =>
    cases i with
    | zero =>
      rw [firstFrom_cons_zero]
      by_cases hp : p a = true
      · simp [hp, rank, view]
      · have hp' : p a = false := by simpa using hp
        simp only [hp', Bool.false_eq_true, if_false]
        have := ih 0
        cases hf : firstFrom p l 0 with
        | none =>
          simp only [hf] at this
          simp only [Option.map_none]
          refine ⟨?_, ?_⟩
          · simpa [view, rank, hp'] using this.1
          · intro t ht; simp at ht; subst ht; exact hp'
        | some r =>
          simp only [hf] at this
          obtain ⟨_, hr, t, ht, hpt, hv⟩ := this
          simp only [Option.map_some]
          refine ⟨by omega, ?_, t, by simpa using ht, hpt, ?_⟩
          · rw [rank_cons_succ, hr]; simp [hp', rank]
          · simpa [view, rank, hp'] using hv
    | succ i =>
      rw [firstFrom_cons_succ]
      have := ih i
      cases hf : firstFrom p l i with
      | none =>
        simp only [hf] at this
        simp only [Option.map_none]
        refine ⟨?_, ?_⟩
        · rw [rank_cons_succ]
          by_cases hp : p a = true
          · simpa [view, hp] using this.1
          · have hp' : p a = false := by simpa using hp
            simpa [view, hp'] using this.1
        · intro t ht; exact this.2 t (by simpa using ht)
      | some r =>
        simp only [hf] at this
        obtain ⟨hle, hr, t, ht, hpt, hv⟩ := this
        simp only [Option.map_some]
        refine ⟨by omega, ?_, t, by simpa using ht, hpt, ?_⟩
        · rw [rank_cons_succ, rank_cons_succ, hr]
        · rw [rank_cons_succ]
          by_cases hp : p a = true
          · simpa [view, hp] using hv
          · have hp' : p a = false := by simpa using hp
            simpa [view, hp'] using hv

end Vsgm.Classify

namespace Vsgm.Classify
open Vsgm

/-! ### forward searches through the view -/

/-- result index of a forward skip search (`find_next_token`, `find_next_non_whitespace_token`) -/
def fwd (p : CTok → Bool) (l : List CTok) (i : Nat) : Nat := (firstFrom p l i).getD i

theorem fwd_rank (p : CTok → Bool) (l : List CTok) (i : Nat) : rank p l (fwd p l i) = rank p l i := by
  have := firstFrom_spec p l i
  unfold fwd
  cases h : firstFrom p l i with
  | none => simp
  | some r => simp only [h] at this; simpa using this.2.1

/-- the token at the result index, if it is a kept one, is the `rank i`-th token of the view;
    when nothing is found the index is `i` itself and holds no kept token -/
theorem fwd_get (p : CTok → Bool) (l : List CTok) (i : Nat) :
    (l[fwd p l i]?).filter p = (view p l)[rank p l i]? := by
  have := firstFrom_spec p l i
  unfold fwd
  cases h : firstFrom p l i with
  | none =>
    simp only [h] at this
    simp only [Option.getD_none, this.1]
    cases hl : l[i]? with
    | none => simp
    | some t => simp [Option.filter, this.2 t hl]
  | some r =>
    simp only [h] at this
    obtain ⟨_, _, t, ht, hpt, hv⟩ := this
    simp [ht, hv, Option.filter, hpt]

theorem fwd_found (p : CTok → Bool) (l : List CTok) (i : Nat) (t : CTok)
    (h : (view p l)[rank p l i]? = some t) : l[fwd p l i]? = some t ∧ p t = true := by
  have := firstFrom_spec p l i
  unfold fwd
  cases hf : firstFrom p l i with
  | none => simp only [hf] at this; rw [this.1] at h; cases h
  | some r =>
    simp only [hf] at this
    obtain ⟨_, _, t', ht, hpt, hv⟩ := this
    rw [hv] at h; cases h
    exact ⟨by simpa using ht, hpt⟩

theorem fwd_notfound (p : CTok → Bool) (l : List CTok) (i : Nat)
    (h : (view p l)[rank p l i]? = none) : fwd p l i = i ∧ ∀ t, l[i]? = some t → p t = false := by
  have := firstFrom_spec p l i
  unfold fwd
  cases hf : firstFrom p l i with
  | none => simp only [hf] at this; exact ⟨rfl, this.2⟩
  | some r =>
    simp only [hf] at this
    obtain ⟨_, _, t', _, _, hv⟩ := this
    rw [hv] at h; cases h

theorem findNextToken_eq_fwd (T : ClassTables) (i : Nat) (l : List CTok) :
    findNextToken T i l = fwd (isRaw T) l i := rfl

/-- keep predicate of the navigation view -/
def keepNav (T : ClassTables) : CTok → Bool := fun t => !isSkip T t

theorem findNextNonWs_eq_fwd (T : ClassTables) (i : Nat) (l : List CTok) :
    findNextNonWs T i l = fwd (keepNav T) l i := rfl

/-! ### `are_next_consecutive_token_types_ignoring_whitespace` through the view -/

def matchOpt (ty : Option Ty) (o : Option CTok) : Bool :=
  match ty with
  | none => true
  | some ty => o.any (isInst · ty)

/-- what `are_next_consecutive_token_types_ignoring_whitespace` computes, said on the view -/
def specNextTypes : List (Option Ty) → List CTok → Nat → Bool
  | [], _, _ => true
  | ty :: rest, v, k => matchOpt ty v[k]? && specNextTypes rest v (k + 1)

theorem specNextTypes_beyond (tys : List (Option Ty)) (v : List CTok) (k k' : Nat)
    (h : v.length ≤ k) (h' : v.length ≤ k') : specNextTypes tys v k = specNextTypes tys v k' := by
  induction tys generalizing k k' with
  | nil => rfl
  | cons ty rest ih =>
    simp only [specNextTypes]
    rw [List.getElem?_eq_none h, List.getElem?_eq_none h', ih (k + 1) (k' + 1) (by omega) (by omega)]

/-- a type none of whose instances is skipped by the navigation -/
def tyNoSkip (T : ClassTables) (ty : Ty) : Prop := ∀ t : CTok, isSkip T t = true → isInst t ty = false

def tysNoSkip (T : ClassTables) (tys : List (Option Ty)) : Prop := ∀ ty, some ty ∈ tys → tyNoSkip T ty

theorem areNextTypesIgnWsE_spec (T : ClassTables) (tys : List (Option Ty)) (l : List CTok) (i : Nat)
    (hty : tysNoSkip T tys) :
    exceptIndexFalse (areNextTypesIgnWsE T tys i l)
      = .ok (specNextTypes tys (view (keepNav T) l) (rank (keepNav T) l i)) := by
  induction tys generalizing i with
  | nil => simp [areNextTypesIgnWsE, specNextTypes, exceptIndexFalse]
  | cons ty rest ih =>
    have hrest : tysNoSkip T rest := fun ty h => hty ty (List.mem_cons_of_mem _ h)
    simp only [areNextTypesIgnWsE, specNextTypes, findNextNonWs_eq_fwd]
    cases hv : (view (keepNav T) l)[rank (keepNav T) l i]? with
    | some t =>
      obtain ⟨hget, hkeep⟩ := fwd_found (keepNav T) l i t hv
      have hr : rank (keepNav T) l (fwd (keepNav T) l i + 1) = rank (keepNav T) l i + 1 := by
        rw [rank_succ_of_keep _ _ _ t hget hkeep, fwd_rank]
      cases ty with
      | none =>
        simp only [matchOpt, Bool.true_and]
        have := ih (fwd (keepNav T) l i + 1) hrest
        rw [hr] at this
        exact this
      | some ty =>
        have hnat : natGet l (fwd (keepNav T) l i) = .ok t := by
          have : l[fwd (keepNav T) l i]? = some t := hget
          simp [natGet, this]
        simp only [matchOpt, Option.any_some, hnat, bind, Except.bind]
        by_cases hi : isInst t ty = true
        · have := ih (fwd (keepNav T) l i + 1) hrest
          rw [hr] at this
          simpa [hi] using this
        · have hi' : isInst t ty = false := by simpa using hi
          simp [hi', exceptIndexFalse, pure, Except.pure]
    | none =>
      obtain ⟨hfw, hskip⟩ := fwd_notfound (keepNav T) l i hv
      have hr : rank (keepNav T) l (i + 1) = rank (keepNav T) l i :=
        rank_succ_of_skip _ _ _ hskip
      have hbeyond : (view (keepNav T) l).length ≤ rank (keepNav T) l i := by
        have := hv
        rw [List.getElem?_eq_none_iff] at this
        exact this
      cases ty with
      | none =>
        simp only [matchOpt, Bool.true_and, hfw]
        have := ih (i + 1) hrest
        rw [hr] at this
        rw [this, specNextTypes_beyond rest _ _ (rank (keepNav T) l i + 1) hbeyond (by omega)]
      | some ty =>
        simp only [matchOpt, Option.any_none, Bool.false_and, hfw]
        cases hl : l[i]? with
        | none => simp [natGet, hl, bind, Except.bind, exceptIndexFalse]
        | some t =>
          have hs : isSkip T t = true := by
            have := hskip t hl
            simpa [keepNav] using this
          have hi : isInst t ty = false := hty ty (List.mem_cons_self) t hs
          simp [natGet, hl, bind, Except.bind, hi, exceptIndexFalse, pure, Except.pure]

theorem areNextTypesIgnWs_spec (T : ClassTables) (tys : List (Option Ty)) (l : List CTok) (i : Nat)
    (hty : tysNoSkip T tys) :
    areNextTypesIgnWs T tys i l = .ok (specNextTypes tys (view (keepNav T) l) (rank (keepNav T) l i)) :=
  areNextTypesIgnWsE_spec T tys l i hty

end Vsgm.Classify

namespace Vsgm.Classify
open Vsgm

/-! ### backward search through the view -/

theorem view_get_of_keep (p : CTok → Bool) (l : List CTok) (r : Nat) (t : CTok)
    (h : l[r]? = some t) (hp : p t = true) : (view p l)[rank p l r]? = some t := by
  induction l generalizing r with
  | nil => simp at h
  | cons a l ih =>
    cases r with
    | zero => simp at h; subst h; simp [view, rank, hp]
    | succ r =>
      simp at h
      rw [rank_cons_succ]
      by_cases ha : p a = true
      · simpa [view, ha] using ih r h
      · have ha' : p a = false := by simpa using ha
        simpa [view, ha'] using ih r h

theorem scanDown_spec (T : ClassTables) (l : List CTok) (k : Nat) (hk : k < l.length) :
    match scanDown T l k with
    | some r => r ≤ k ∧ rank (keepNav T) l (r + 1) = rank (keepNav T) l (k + 1)
        ∧ ∃ t, l[r]? = some t ∧ keepNav T t = true
    | none => rank (keepNav T) l (k + 1) = 0 ∧ ∀ j, j ≤ k → ∀ t, l[j]? = some t → keepNav T t = false := by
  induction k with
  | zero =>
    have : l[0]? = some l[0] := List.getElem?_eq_getElem hk
    simp only [scanDown, this]
    by_cases hs : isSkip T l[0] = true
    · simp only [hs, if_true]
      refine ⟨?_, ?_⟩
      · rw [rank_succ_of_skip _ _ _ (by intro t ht; rw [this] at ht; cases ht; simp [keepNav, hs])]
        exact rank_zero _ _
      · intro j hj t ht
        have : j = 0 := by omega
        subst this
        rw [‹l[0]? = some l[0]›] at ht; cases ht; simp [keepNav, hs]
    · have hs' : isSkip T l[0] = false := by simpa using hs
      simp only [hs', Bool.false_eq_true, if_false]
      exact ⟨Nat.le_refl _, trivial, l[0], this, by simp [keepNav, hs']⟩
  | succ k ih =>
    have hget : l[k + 1]? = some l[k + 1] := List.getElem?_eq_getElem hk
    simp only [scanDown, hget]
    by_cases hs : isSkip T l[k + 1] = true
    · simp only [hs, if_true]
      have hskip : ∀ t, l[k + 1]? = some t → keepNav T t = false := by
        intro t ht; rw [hget] at ht; cases ht; simp [keepNav, hs]
      have := ih (by omega)
      cases hsd : scanDown T l k with
      | none =>
        simp only [hsd] at this
        refine ⟨by rw [rank_succ_of_skip _ _ _ hskip]; exact this.1, ?_⟩
        intro j hj t ht
        by_cases hjk : j ≤ k
        · exact this.2 j hjk t ht
        · have : j = k + 1 := by omega
          subst this; exact hskip t ht
      | some r =>
        simp only [hsd] at this
        obtain ⟨hle, hr, t, ht, hkp⟩ := this
        exact ⟨by omega, by rw [rank_succ_of_skip _ _ (k + 1) hskip]; exact hr, t, ht, hkp⟩
    · have hs' : isSkip T l[k + 1] = false := by simpa using hs
      simp only [hs', Bool.false_eq_true, if_false]
      exact ⟨Nat.le_refl _, trivial, l[k + 1], hget, by simp [keepNav, hs']⟩

/-- what `are_previous_consecutive_token_types_ignoring_whitespace([ty], i - 1, l)` computes,
    said on the view: the kept token in front of rank `k`, if there is one -/
def specPrev (ty : Ty) (v : List CTok) : Nat → Bool
  | 0 => false
  | k + 1 => v[k]?.any (isInst · ty)

theorem pyGet_nat (l : List CTok) (n : Nat) (t : CTok) (h : l[n]? = some t) : pyGet l (n : Int) = .ok t := by
  unfold pyGet
  have h1 : ¬ ((n : Int) < 0) := by omega
  simp only [h1, if_false, Int.toNat_natCast, h]

theorem prevIs_spec (T : ClassTables) (ty : Ty) (l : List CTok) (n : Nat) (hn : n < l.length)
    (hty : tyNoSkip T ty) :
    prevIs T ty l (n + 1) = specPrev ty (view (keepNav T) l) (rank (keepNav T) l (n + 1)) := by
  have hidx : (((n + 1 : Nat) : Int) - 1) = (n : Int) := by omega
  unfold prevIs arePrevTypesIgnWs
  simp only [List.reverse_cons, List.reverse_nil, List.nil_append, arePrevTypesIgnWsE, hidx]
  have h1 : ¬ ((n : Int) < 0) := by omega
  have h2 : ¬ (l.length ≤ n) := by omega
  simp only [findPrevNonWs, h1, if_false, Int.toNat_natCast, h2]
  have := scanDown_spec T l n hn
  cases hsd : scanDown T l n with
  | some r =>
    simp only [hsd] at this
    obtain ⟨_, hr, t, ht, hkp⟩ := this
    have hv := view_get_of_keep (keepNav T) l r t ht hkp
    rw [← hr, rank_succ_of_keep _ _ _ t ht hkp]
    simp only [specPrev, hv, Option.any_some, bind, Except.bind, pyGet_nat l r t ht]
    cases hi : isInst t ty <;> simp [exceptIndexFalse, pure, Except.pure]
  | none =>
    simp only [hsd] at this
    rw [this.1]
    have hget : l[n]? = some l[n] := List.getElem?_eq_getElem hn
    have hsk : isSkip T l[n] = true := by
      have := this.2 n (Nat.le_refl _) l[n] hget
      simpa [keepNav] using this
    simp [specPrev, bind, Except.bind, pyGet_nat l n l[n] hget, hty l[n] hsk, exceptIndexFalse, pure, Except.pure]

/-- at the very first token Python's `lObjects[-1]` reads the LAST token of the list -/
theorem prevIs_zero (T : ClassTables) (ty : Ty) (l : List CTok) :
    prevIs T ty l 0 = (l.getLast?).any (isInst · ty) := by
  unfold prevIs arePrevTypesIgnWs
  simp only [List.reverse_cons, List.reverse_nil, List.nil_append, arePrevTypesIgnWsE]
  have h0 : (((0 : Nat) : Int) - 1) = -1 := by omega
  simp only [h0, findPrevNonWs, show ((-1 : Int) < 0) from by omega, if_true, bind, Except.bind]
  cases l with
  | nil => simp [pyGet, exceptIndexFalse]
  | cons a l =>
    have hlen : ((a :: l).length : Int) + -1 = ((l.length : Nat) : Int) := by simp; omega
    have hlast : (a :: l)[l.length]? = (a :: l).getLast? := by
      rw [List.getLast?_eq_getElem?]; simp
    simp only [pyGet, show ((-1 : Int) < 0) from by omega, if_true, hlen,
      show ¬ (((l.length : Nat) : Int) < 0) from by omega, if_false, Int.toNat_natCast, hlast]
    cases hgl : (a :: l).getLast? with
    | none => simp [List.getLast?_eq_none_iff] at hgl
    | some t =>
      cases hi : isInst t ty <;> simp [hi, exceptIndexFalse, pure, Except.pure]

/-- `nextIs` through the view -/
theorem nextIs_spec (T : ClassTables) (ty : Ty) (l : List CTok) (i : Nat) (hty : tyNoSkip T ty) :
    nextIs T ty l i = ((view (keepNav T) l)[rank (keepNav T) l (i + 1)]?).any (isInst · ty) := by
  unfold nextIs
  rw [areNextTypesIgnWs_spec T [some ty] l (i + 1) (by intro ty' h; simp at h; subst h; exact hty)]
  simp [specNextTypes, matchOpt]

end Vsgm.Classify
