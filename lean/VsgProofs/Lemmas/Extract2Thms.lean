/-
  Slice-exactness of the extractors of `VsgModel/Engine/Extract2.lean` (WP3).  The property
  theorems of `Properties/C18.lean` (section WP3) restate these.
-/
import VsgProofs.Lemmas.Extract2
namespace Vsgm.TM.X.Lemmas
open Vsgm Vsgm.TM Vsgm.TM.Lemmas Vsgm.TM.X

variable {α : Type}

/-! ### line below -/

theorem lineSucceeding_exact (uid : α → Option Key) (f : List α) (line num : Nat) (t : Toi α)
    (h : lineSucceeding f (processTokens uid f) line num = .ok (some t)) : t.Exact f ∧ t.line = line + 1 := by
  unfold lineSucceeding at h
  simp only [bind_ok] at h
  obtain ⟨s, hs, h⟩ := h
  split at h
  · simp [pure, Except.pure] at h
  · simp only [pure_ok, Option.some.injEq] at h
    subst h
    have := fresh_cr_lt uid f _ s hs
    exact ⟨exact_of_slice f _ ((s : Int) + 1) _ rfl (by omega) (by omega) rfl, rfl⟩

theorem lineBelowLineEndingWith_exact (uid : α → Option Key) (f : List α) (cs : List Cls) (r : List (Toi α))
    (h : lineBelowLineEndingWith f (processTokens uid f) cs = .ok r) : ∀ t ∈ r, t.Exact f := by
  intro t ht
  unfold lineBelowLineEndingWith at h
  simp only [bind_ok] at h
  obtain ⟨lines, _, h⟩ := h
  obtain ⟨l, _, hb⟩ := mem_filterMapE _ _ _ h t ht
  exact (lineSucceeding_exact uid f l 1 t hb).1

theorem lineBelowLineEndingWithHier_exact (uid : α → Option Key) (f : List α) (hier : α → Option Int) (cs : List Cls)
    (lh : List Int) (r : List (Option (Toi α)))
    (h : lineBelowLineEndingWithHier f (processTokens uid f) hier cs lh = .ok r) : ∀ t, some t ∈ r → t.Exact f := by
  intro t ht
  unfold lineBelowLineEndingWithHier at h
  simp only [bind_ok] at h
  obtain ⟨idxs, _, lines, _, h⟩ := h
  obtain ⟨l, _, hb⟩ := mem_mapE _ _ _ h (some t) ht
  exact (lineSucceeding_exact uid f l 1 t hb).1

/-! ### line above, comment-skipping mode -/

theorem linePrecedingSkip_exact (uid : α → Option Key) (f : List α) (line : Nat) (t : Toi α)
    (h : linePrecedingSkip f (processTokens uid f) line = .ok t) : t.Exact f := by
  unfold linePrecedingSkip at h
  simp only [bind_ok] at h
  obtain ⟨si, _, h⟩ := h
  split at h
  · simp only [bind_ok, pure_ok] at h
    obtain ⟨e, _, rfl⟩ := h
    exact exact_of_slice f _ 0 e rfl (by omega) (by simp) rfl
  · simp only [bind_ok, pure_ok] at h
    obtain ⟨s, hs, e, _, rfl⟩ := h
    have := fresh_cr_lt uid f _ s hs
    exact exact_of_slice f _ ((s : Int) + 1) e rfl (by omega) (by omega) rfl

/-! ### pairs -/

theorem boundedByUnless_exact (uid : α → Option Key) (f : List α) (a b : Option Key) (un : List (Option Key × Option Key))
    (r : List (Toi α)) (h : boundedByUnless f (processTokens uid f) a b un = .ok r) :
    ∀ t ∈ r, t.Exact f ∧ ∃ s : Nat, t.start = some (s : Int) ∧ t.line = lineNo uid f s := by
  intro t ht
  unfold boundedByUnless at h
  obtain ⟨x, hx, hb⟩ := mem_mapE _ _ _ h t ht
  simp only [bind_ok, pure_ok] at hb
  obtain ⟨line, hl, rfl⟩ := hb
  have hk := (List.of_mem_zip hx).1
  have hz := (List.mem_filter.mp hk).1
  have hlt := fresh_pair_lt uid f a b x.1 hz
  exact ⟨exact_of_slice f _ (x.1.1 : Int) _ rfl (by omega) (by simp; omega) rfl, x.1.1, rfl,
    by simpa using lineOf_fresh uid f x.1.1 line hl⟩

theorem storingValue_exact (uid : α → Option Key) (f : List α) (l r v : Option Key) (res : List (Toi α))
    (h : storingValue f (processTokens uid f) l r v = .ok res) :
    ∀ t ∈ res, t.Exact f ∧ ∃ s : Nat, t.start = some (s : Int) ∧ t.line = lineNo uid f s := by
  intro t ht
  unfold storingValue at h
  obtain ⟨se, hse, s0, s1, hb⟩ := mem_scanE _ _ _ _ h t ht
  unfold svStep at hb
  simp only [bind_ok, pure_ok, Prod.mk.injEq] at hb
  obtain ⟨line, hl, _, rfl⟩ := hb
  have hlt := fresh_pair_lt uid f l r se hse
  exact ⟨exact_of_slice f _ (se.1 : Int) _ rfl (by omega) (by simp; omega) rfl, se.1, rfl,
    by simpa using lineOf_fresh uid f se.1 line hl⟩

theorem boundedWhenBetween_exact (uid : α → Option Key) (f : List α) (l r a b : Option Key) (tw : Bool)
    (res : List (Toi α)) (h : boundedWhenBetween f (processTokens uid f) l r a b tw = .ok res) :
    ∀ t ∈ res, t.Exact f ∧ ∃ s : Nat, t.start = some (s : Int) ∧ t.line = lineNo uid f s := by
  intro t ht
  unfold boundedWhenBetween at h
  obtain ⟨p, hp, hb⟩ := mem_mapE _ _ _ h t ht
  simp only [bind_ok, pure_ok] at hb
  obtain ⟨line, hl, rfl⟩ := hb
  have hp' : p ∈ ((processTokens uid f).pairIndexes l r).1.zip ((processTokens uid f).pairIndexes l r).2 := by
    rcases mem_dedupGo _ [] p hp with h' | h'
    · simp at h'
    · obtain ⟨o, _, ho⟩ := List.mem_flatMap.mp h'
      exact (List.mem_filter.mp ho).1
  have hlt := fresh_pair_lt uid f l r p hp'
  exact ⟨exact_of_slice f _ (p.1 : Int) _ rfl (by omega) (by simp; omega) rfl, p.1, rfl,
    by simpa using lineOf_fresh uid f p.1 line hl⟩

/-! ### previous non-whitespace token … token -/

theorem scanDown_le (p : Nat → Bool) (n j : Nat) (h : Index.scanDown p n = some j) : j ≤ n := by
  induction n with
  | zero => simp [Index.scanDown] at h
  | succ n ih =>
    unfold Index.scanDown at h
    split at h
    · injection h with h; omega
    · have := ih h; omega

theorem betweenNonWsAndToken_exact (uid : α → Option Key) (f : List α) (right : Option Key) (r : List (Toi α))
    (h : betweenNonWsAndToken f (processTokens uid f) right = .ok r) :
    ∀ t ∈ r, t.Exact f ∧ ∃ s : Nat, t.start = some (s : Int) ∧ t.line = lineNo uid f s := by
  intro t ht
  unfold betweenNonWsAndToken at h
  obtain ⟨e, he, hb⟩ := mem_filterMapE _ _ _ h t ht
  have helt := fresh_get_lt uid f right e he
  split at hb
  · simp only [bind_ok] at hb
    obtain ⟨_, _, hb⟩ := hb
    cases hb
  · rename_i s hs
    split at hb
    · simp [pure, Except.pure] at hb
    · simp only [bind_ok, pure_ok, Option.some.injEq] at hb
      obtain ⟨line, hl, rfl⟩ := hb
      have : s ≤ ((e : Int) - 1).toNat := scanDown_le _ _ _ hs
      exact ⟨exact_of_slice f _ (s : Int) _ rfl (by omega) (by simp; omega) rfl, s, rfl,
        by simpa using lineOf_fresh uid f s line hl⟩

/-! ### a line by number -/

theorem tokensFromLine_exact (uid : α → Option Key) (f : List α) (line : Nat) (t : Toi α)
    (h : tokensFromLine f (processTokens uid f) line = .ok t) : t.Exact f ∧ t.line = line := by
  unfold tokensFromLine at h
  simp only [bind_ok, pure_ok] at h
  obtain ⟨s, hs, e, _, rfl⟩ := h
  have := fresh_cr_lt uid f _ s hs
  exact ⟨exact_of_slice f _ ((s : Int) + 1) _ rfl (by omega) (by omega) rfl, rfl⟩

/-! ### a window around a token -/

theorem nBeforeAndAfter_exact (uid : α → Option Key) (f : List α) (n : Nat) (cs : List Cls) (r : List (Toi α))
    (h : nBeforeAndAfter f (processTokens uid f) n cs = .ok r) :
    ∀ t ∈ r, t.Exact f ∧ ∃ i : Nat, n ≤ i ∧ t.start = some ((i - n : Nat) : Int) ∧ t.line = lineNo uid f i := by
  intro t ht
  unfold nBeforeAndAfter at h
  obtain ⟨i, hi, hb⟩ := mem_filterMapE _ _ _ h t ht
  have hlt := fresh_idxsOfList_lt uid f cs i hi
  simp only [bind_ok] at hb
  obtain ⟨line, hl, hb⟩ := hb
  split at hb
  · rename_i hge
    simp only [pure_ok, Option.some.injEq] at hb
    subst hb
    have hn : n ≤ i := by omega
    have e1 : (i : Int) - (n : Int) = ((i - n : Nat) : Int) := by omega
    exact ⟨exact_of_slice f _ ((i : Int) - (n : Int)) _ rfl (by omega) (by omega) rfl, i, hn, by simp; exact e1,
      by simpa using lineOf_fresh uid f i line hl⟩
  · simp [pure, Except.pure] at hb

end Vsgm.TM.X.Lemmas
