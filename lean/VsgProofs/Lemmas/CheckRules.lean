/-
  Lemmas about the model of `rule_list.check_rules`: the loop is a fold of `phaseStep` over the
  list of executed phases, and that fold has a closed form.
-/
import VsgModel.Engine.CheckRules
namespace Vsgm.Lemmas
open Vsgm

/-! ### generic list facts -/

theorem filter_map_fix {α : Type} (g : α → α) (q : α → Bool) (l : List α)
    (h1 : ∀ r, q (g r) = q r) (h2 : ∀ r, q r = true → g r = r) : (l.map g).filter q = l.filter q := by
  induction l with
  | nil => rfl
  | cons a l ih =>
    simp only [List.map_cons, List.filter_cons, h1, ih]
    by_cases h : q a = true
    · simp [h, h2 a h]
    · simp [h]

theorem sum_map_pos_iff {α : Type} (g : α → Nat) (l : List α) : 0 < (l.map g).sum ↔ ∃ x ∈ l, 0 < g x := by
  induction l with
  | nil => simp
  | cons a l ih =>
    simp only [List.map_cons, List.sum_cons, List.mem_cons, exists_eq_or_imp]
    rw [← ih]; omega

theorem sum_map_congr {α : Type} (g h : α → Nat) (l : List α) (e : ∀ x ∈ l, g x = h x) :
    (l.map g).sum = (l.map h).sum := by
  rw [List.map_congr_left e]

/-! ### one rule -/

theorem inSub_iff (r : CRule) (p s : Nat) :
    r.inSub p s = true ↔ r.cfg.phase = (p : Int) ∧ r.cfg.subphase = (s : Int) ∧ r.cfg.disabled = false := by
  simp [CRule.inSub, and_assoc]

theorem analyze_inSub (f : List Tok) (r : CRule) (p s : Nat) : (r.analyze f).inSub p s = r.inSub p s := rfl

theorem inSub_sub_unique {r : CRule} {p p' s s' : Nat} (h : r.inSub p s = true) (h' : r.inSub p' s' = true) :
    p = p' ∧ s = s' := by
  rw [inSub_iff] at h h'
  omega

theorem runsIn_iff (r : CRule) (p : Nat) :
    r.runsIn p = true ↔ r.cfg.phase = (p : Int) ∧ 0 ≤ r.cfg.subphase ∧ r.cfg.subphase ≤ 5 ∧ r.cfg.disabled = false := by
  simp only [CRule.runsIn, List.any_eq_true, List.mem_range, inSub_iff]
  constructor
  · rintro ⟨s, hs, h1, h2, h3⟩; exact ⟨h1, by omega, by omega, h3⟩
  · rintro ⟨h1, h2, h3, h4⟩
    exact ⟨r.cfg.subphase.toNat, by omega, h1, by omega, h4⟩

theorem analyze_runsIn (f : List Tok) (r : CRule) (p : Nat) : (r.analyze f).runsIn p = r.runsIn p := rfl

/-- analyse the rules selected by `c` -/
def anaIf (f : List Tok) (c : CRule → Bool) (r : CRule) : CRule := if c r then r.analyze f else r

theorem anaIf_false (f : List Tok) (c : CRule → Bool) (r : CRule) (h : c r = false) : anaIf f c r = r := by
  simp [anaIf, h]

theorem anaIf_comp (f : List Tok) (c1 c2 : CRule → Bool) (r : CRule)
    (hc : ∀ r, c2 (r.analyze f) = c2 r) (hd : c1 r = true → c2 r = false) :
    anaIf f c2 (anaIf f c1 r) = anaIf f (fun r => c1 r || c2 r) r := by
  unfold anaIf
  by_cases h1 : c1 r = true
  · simp [h1, hc, hd h1]
  · simp [h1]

/-! ### the sub-phase loop -/

theorem subStep_rules (f : List Tok) (p : Nat) (st : CheckState) (s : Nat) :
    (subStep f p st s).rules = st.rules.map (anaIf f (·.inSub p s)) := rfl

theorem subStep_nran (f : List Tok) (p : Nat) (st : CheckState) (s : Nat) :
    (subStep f p st s).nran = st.nran + (st.rules.filter (·.inSub p s)).length := rfl

theorem subStep_failures (f : List Tok) (p : Nat) (st : CheckState) (s : Nat) :
    (subStep f p st s).failures = st.failures + ((st.rules.filter (·.inSub p s)).map (errOf f)).sum := rfl

theorem subStep_lastPhase (f : List Tok) (p : Nat) (st : CheckState) (s : Nat) :
    (subStep f p st s).lastPhase = p := rfl

theorem subStep_viol (f : List Tok) (p : Nat) (st : CheckState) (s : Nat) :
    (subStep f p st s).viol = if (subStep f p st s).failures > 0 then true else st.viol := rfl

/-- `self.violations` is true exactly when `iFailures > 0` -/
def Inv (st : CheckState) : Prop := st.viol = decide (st.failures > 0)

theorem subStep_inv (f : List Tok) (p : Nat) (st : CheckState) (s : Nat) (h : Inv st) : Inv (subStep f p st s) := by
  unfold Inv at *
  rw [subStep_viol]
  by_cases hp : (subStep f p st s).failures > 0
  · simp [hp]
  · have h0 : st.failures = 0 := by rw [subStep_failures] at hp; omega
    simp [hp, h, h0]

/-- selection of sub-phase `s` is not disturbed by analysing other sub-phases of the phase -/
theorem filter_inSub_anaIf (f : List Tok) (p s : Nat) (ss : List Nat) (hs : s ∉ ss) (l : List CRule) :
    (l.map (anaIf f (fun r => ss.any (r.inSub p ·)))).filter (·.inSub p s) = l.filter (·.inSub p s) := by
  apply filter_map_fix
  · intro r; unfold anaIf; split <;> rfl
  · intro r hr
    apply anaIf_false
    rw [Bool.eq_false_iff]
    intro hany
    rw [List.any_eq_true] at hany
    obtain ⟨s', hs', h'⟩ := hany
    have := (inSub_sub_unique hr h').2
    exact hs (this ▸ hs')

theorem subFold_spec (f : List Tok) (p : Nat) (ss : List Nat) (hnd : ss.Nodup) (st : CheckState) :
    (ss.foldl (subStep f p) st).rules = st.rules.map (anaIf f (fun r => ss.any (r.inSub p ·))) ∧
    (ss.foldl (subStep f p) st).nran = st.nran + (ss.map fun s => (st.rules.filter (·.inSub p s)).length).sum ∧
    (ss.foldl (subStep f p) st).failures =
      st.failures + (ss.map fun s => ((st.rules.filter (·.inSub p s)).map (errOf f)).sum).sum := by
  induction ss generalizing st with
  | nil =>
    refine ⟨?_, by simp, by simp⟩
    simp only [List.foldl_nil, List.any_nil]
    have : anaIf f (fun _ => false) = id := by funext r; simp [anaIf]
    rw [this, List.map_id]
  | cons s ss ih =>
    have hs : s ∉ ss := (List.nodup_cons.mp hnd).1
    have hnd' : ss.Nodup := (List.nodup_cons.mp hnd).2
    obtain ⟨ih1, ih2, ih3⟩ := ih hnd' (subStep f p st s)
    simp only [List.foldl_cons]
    have hsel : ∀ s' ∈ ss, (subStep f p st s).rules.filter (·.inSub p s') = st.rules.filter (·.inSub p s') := by
      intro s' hs'
      rw [subStep_rules]
      have := filter_inSub_anaIf f p s' [s] (by simp; intro e; exact hs (e ▸ hs')) st.rules
      simpa using this
    refine ⟨?_, ?_, ?_⟩
    · rw [ih1, subStep_rules, List.map_map]
      apply List.map_congr_left
      intro r _
      simp only [Function.comp]
      rw [anaIf_comp f (·.inSub p s) (fun r => ss.any (r.inSub p ·)) r (fun _ => rfl)]
      · simp [List.any_cons]
      · intro h1
        rw [Bool.eq_false_iff]
        intro hany
        rw [List.any_eq_true] at hany
        obtain ⟨s', hs', h'⟩ := hany
        exact hs ((inSub_sub_unique h1 h').2 ▸ hs')
    · rw [ih2, subStep_nran, List.map_cons, List.sum_cons]
      rw [sum_map_congr _ (fun s => (st.rules.filter (·.inSub p s)).length) ss (fun s' hs' => by rw [hsel s' hs'])]
      omega
    · rw [ih3, subStep_failures, List.map_cons, List.sum_cons]
      rw [sum_map_congr _ (fun s => ((st.rules.filter (·.inSub p s)).map (errOf f)).sum) ss
        (fun s' hs' => by rw [hsel s' hs'])]
      omega

theorem subFold_inv (f : List Tok) (p : Nat) (ss : List Nat) (st : CheckState) (h : Inv st) :
    Inv (ss.foldl (subStep f p) st) := by
  induction ss generalizing st with
  | nil => exact h
  | cons s ss ih => exact ih _ (subStep_inv f p st s h)

theorem subFold_lastPhase (f : List Tok) (p : Nat) (ss : List Nat) (st : CheckState) (hne : ss ≠ []) :
    (ss.foldl (subStep f p) st).lastPhase = p := by
  induction ss generalizing st with
  | nil => exact absurd rfl hne
  | cons s ss ih =>
    simp only [List.foldl_cons]
    by_cases h : ss = []
    · subst h; rfl
    · exact ih _ h

/-! ### one phase -/

theorem range6_nodup : (List.range 6).Nodup := by decide

theorem phaseStep_rules (f : List Tok) (st : CheckState) (p : Nat) :
    (phaseStep f st p).rules = st.rules.map (anaIf f (·.runsIn p)) :=
  (subFold_spec f p _ range6_nodup st).1

theorem phaseStep_nran (f : List Tok) (st : CheckState) (p : Nat) :
    (phaseStep f st p).nran = st.nran + ranIn st.rules p :=
  (subFold_spec f p _ range6_nodup st).2.1

theorem phaseStep_failures (f : List Tok) (st : CheckState) (p : Nat) :
    (phaseStep f st p).failures = st.failures + errIn st.rules f p :=
  (subFold_spec f p _ range6_nodup st).2.2

theorem phaseStep_inv (f : List Tok) (st : CheckState) (p : Nat) (h : Inv st) : Inv (phaseStep f st p) :=
  subFold_inv f p _ st h

theorem phaseStep_lastPhase (f : List Tok) (st : CheckState) (p : Nat) : (phaseStep f st p).lastPhase = p :=
  subFold_lastPhase f p _ st (by decide)

/-- what is counted in phase `q` does not depend on whether another phase has been analysed -/
theorem filter_inSub_phase (f : List Tok) (p q s : Nat) (hpq : p ≠ q) (l : List CRule) :
    (l.map (anaIf f (·.runsIn p))).filter (·.inSub q s) = l.filter (·.inSub q s) := by
  apply filter_map_fix
  · intro r; unfold anaIf; split <;> rfl
  · intro r hr
    apply anaIf_false
    rw [Bool.eq_false_iff]
    intro hrun
    rw [runsIn_iff] at hrun
    rw [inSub_iff] at hr
    omega

theorem errIn_anaIf (f : List Tok) (p q : Nat) (hpq : p ≠ q) (l : List CRule) :
    errIn (l.map (anaIf f (·.runsIn p))) f q = errIn l f q := by
  unfold errIn
  apply sum_map_congr
  intro s _
  rw [filter_inSub_phase f p q s hpq]

theorem ranIn_anaIf (f : List Tok) (p q : Nat) (hpq : p ≠ q) (l : List CRule) :
    ranIn (l.map (anaIf f (·.runsIn p))) q = ranIn l q := by
  unfold ranIn
  apply sum_map_congr
  intro s _
  rw [filter_inSub_phase f p q s hpq]

/-! ### a sequence of phases -/

/-- execute the phases of `E` one after the other -/
def runPhases (f : List Tok) (E : List Nat) (st : CheckState) : CheckState := E.foldl (phaseStep f) st

theorem runsIn_phase_unique {r : CRule} {p q : Nat} (h : r.runsIn p = true) (h' : r.runsIn q = true) : p = q := by
  rw [runsIn_iff] at h h'; omega

theorem runPhases_spec (f : List Tok) (E : List Nat) (hnd : E.Nodup) (st : CheckState) :
    (runPhases f E st).rules = st.rules.map (anaIf f (fun r => E.any (r.runsIn ·))) ∧
    (runPhases f E st).nran = st.nran + (E.map (ranIn st.rules)).sum ∧
    (runPhases f E st).failures = st.failures + (E.map (errIn st.rules f)).sum := by
  unfold runPhases
  induction E generalizing st with
  | nil =>
    refine ⟨?_, by simp, by simp⟩
    simp only [List.foldl_nil, List.any_nil]
    have : anaIf f (fun _ => false) = id := by funext r; simp [anaIf]
    rw [this, List.map_id]
  | cons p E ih =>
    have hp : p ∉ E := (List.nodup_cons.mp hnd).1
    obtain ⟨ih1, ih2, ih3⟩ := ih (List.nodup_cons.mp hnd).2 (phaseStep f st p)
    simp only [List.foldl_cons]
    refine ⟨?_, ?_, ?_⟩
    · rw [ih1, phaseStep_rules, List.map_map]
      apply List.map_congr_left
      intro r _
      simp only [Function.comp]
      rw [anaIf_comp f (·.runsIn p) (fun r => E.any (r.runsIn ·)) r (fun _ => rfl)]
      · simp [List.any_cons]
      · intro h1
        rw [Bool.eq_false_iff]
        intro hany
        rw [List.any_eq_true] at hany
        obtain ⟨q, hq, h'⟩ := hany
        exact hp ((runsIn_phase_unique h1 h') ▸ hq)
    · rw [ih2, phaseStep_nran, phaseStep_rules, List.map_cons, List.sum_cons]
      rw [sum_map_congr _ (ranIn st.rules) E (fun q hq => ranIn_anaIf f p q (fun e => hp (e ▸ hq)) st.rules)]
      omega
    · rw [ih3, phaseStep_failures, phaseStep_rules, List.map_cons, List.sum_cons]
      rw [sum_map_congr _ (errIn st.rules f) E (fun q hq => errIn_anaIf f p q (fun e => hp (e ▸ hq)) st.rules)]
      omega

theorem runPhases_inv (f : List Tok) (E : List Nat) (st : CheckState) (h : Inv st) : Inv (runPhases f E st) := by
  unfold runPhases
  induction E generalizing st with
  | nil => exact h
  | cons p E ih => exact ih _ (phaseStep_inv f st p h)

theorem runPhases_lastPhase (f : List Tok) (E : List Nat) (st : CheckState) :
    (runPhases f E st).lastPhase = (E.getLast?).getD st.lastPhase := by
  unfold runPhases
  induction E generalizing st with
  | nil => rfl
  | cons p E ih =>
    simp only [List.foldl_cons]
    rw [ih]
    cases E with
    | nil => simp [phaseStep_lastPhase]
    | cons q E =>
      cases h : (q :: E).getLast? with
      | none => simp at h
      | some x => rw [List.getLast?_cons_cons, h]; rfl

/-! ### the phase loop: which phases are executed -/

/-- the phases `checkLoop` executes, computed from the per-phase error counts alone -/
def execList (allPhases : Bool) (skip : List Nat) (err : Nat → Nat) : List Nat → Nat → List Nat
  | [], _ => []
  | p :: ps, F =>
    if p ∈ skip then execList allPhases skip err ps F
    else if decide (F + err p > 0) && !allPhases then [p]
    else p :: execList allPhases skip err ps (F + err p)

theorem execList_congr (allPhases : Bool) (skip : List Nat) (e1 e2 : Nat → Nat) (ps : List Nat) (F : Nat)
    (h : ∀ p ∈ ps, e1 p = e2 p) : execList allPhases skip e1 ps F = execList allPhases skip e2 ps F := by
  induction ps generalizing F with
  | nil => rfl
  | cons p ps ih =>
    have hp := h p (List.mem_cons_self ..)
    have ih' := fun F => ih F (fun q hq => h q (List.mem_cons_of_mem _ hq))
    simp only [execList, hp, ih']

theorem checkLoop_eq_runPhases (f : List Tok) (allPhases : Bool) (skip : List Nat) (ps : List Nat)
    (hnd : ps.Nodup) (st : CheckState) (hinv : Inv st) :
    checkLoop f allPhases skip ps st =
      runPhases f (execList allPhases skip (errIn st.rules f) ps st.failures) st := by
  induction ps generalizing st with
  | nil => rfl
  | cons p ps ih =>
    have hp : p ∉ ps := (List.nodup_cons.mp hnd).1
    have hnd' := (List.nodup_cons.mp hnd).2
    unfold checkLoop execList
    by_cases hs : p ∈ skip
    · simp only [hs, if_true]
      exact ih hnd' st hinv
    · simp only [hs, if_false]
      have hinv' := phaseStep_inv f st p hinv
      have hv : (phaseStep f st p).viol = decide (st.failures + errIn st.rules f p > 0) := by
        rw [hinv', phaseStep_failures]
      rw [hv]
      by_cases hb : (decide (st.failures + errIn st.rules f p > 0) && !allPhases) = true
      · simp only [hb, if_true]
        simp [runPhases]
      · simp only [hb]
        rw [ih hnd' _ hinv', phaseStep_failures, phaseStep_rules]
        rw [execList_congr allPhases skip _ (errIn st.rules f) ps _
          (fun q hq => errIn_anaIf f p q (fun e => hp (e ▸ hq)) st.rules)]
        simp [runPhases]

theorem execList_allPhases (skip : List Nat) (err : Nat → Nat) (ps : List Nat) (F : Nat) :
    execList true skip err ps F = ps.filter (fun p => !decide (p ∈ skip)) := by
  induction ps generalizing F with
  | nil => rfl
  | cons p ps ih =>
    unfold execList
    by_cases hs : p ∈ skip
    · simp [hs, ih]
    · simp [hs, ih]

/-- in a gated run from a clean start the executed phases are the active phases up to and
    including the first one with an error-type violation -/
theorem execList_gated (skip : List Nat) (err : Nat → Nat) (ps : List Nat) (hsorted : ps.Pairwise (· < ·)) :
    execList false skip err ps 0 =
      (ps.filter (fun p => !decide (p ∈ skip))).filter
        (fun p => match (ps.filter (fun p => !decide (p ∈ skip))).find? (fun p => decide (err p > 0)) with
          | none => true
          | some q => decide (p ≤ q)) := by
  induction ps with
  | nil => rfl
  | cons p ps ih =>
    have hlt : ∀ q ∈ ps, p < q := (List.pairwise_cons.mp hsorted).1
    have ih := ih (List.pairwise_cons.mp hsorted).2
    unfold execList
    by_cases hs : p ∈ skip
    · simp only [hs, if_true]
      rw [ih]
      simp [hs]
    · simp only [hs, if_false, Nat.zero_add, Bool.not_false, Bool.and_true]
      by_cases he : err p > 0
      · simp only [he, decide_true, if_true]
        simp only [List.filter_cons, hs, decide_false, Bool.not_false, if_true, List.find?_cons, he, decide_true]
        simp only [Nat.le_refl, decide_true, if_true]
        symm
        rw [List.cons.injEq]; refine ⟨rfl, ?_⟩
        rw [List.filter_eq_nil_iff]
        intro q hq
        have := hlt q (List.mem_filter.mp hq).1
        simp; omega
      · have he0 : err p = 0 := by omega
        simp only [he, decide_false, Bool.false_eq_true, if_false]
        rw [he0, ih]
        simp only [List.filter_cons, hs, decide_false, Bool.not_false, if_true, List.find?_cons, he]
        cases hfind : (ps.filter (fun p => !decide (p ∈ skip))).find? (fun p => decide (err p > 0)) with
        | none => simp
        | some q =>
          have hq : q ∈ ps := (List.mem_filter.mp (List.mem_of_find?_eq_some hfind)).1
          have := hlt q hq
          have hle : p ≤ q := by omega
          simp [hle]

theorem allPhasesList_sorted : allPhasesList.Pairwise (· < ·) := by decide
theorem allPhasesList_nodup : allPhasesList.Nodup := by decide

theorem activePhases_nodup (skip : List Nat) : (activePhases skip).Nodup :=
  List.Nodup.sublist List.filter_sublist allPhasesList_nodup

theorem mem_activePhases (skip : List Nat) (p : Nat) :
    p ∈ activePhases skip ↔ (1 ≤ p ∧ p ≤ 7) ∧ p ∉ skip := by
  unfold activePhases allPhasesList
  simp only [List.mem_filter, Bool.not_eq_true', decide_eq_false_iff_not]
  constructor
  · rintro ⟨h, hs⟩; refine ⟨?_, hs⟩; simp at h; omega
  · rintro ⟨h, hs⟩; refine ⟨?_, hs⟩; simp; omega

def initState (rs : List CRule) (last0 : Nat) : CheckState :=
  { rules := rs, nran := 0, failures := 0, lastPhase := last0, viol := false }

theorem initState_inv (rs : List CRule) (last0 : Nat) : Inv (initState rs last0) := by
  simp [Inv, initState]

/-- phases executed by a run -/
def executed (allPhases : Bool) (skip : List Nat) (rs : List CRule) (f : List Tok) : List Nat :=
  if allPhases then activePhases skip
  else (activePhases skip).filter (fun p => uptoFirstFailing (firstFailing skip rs f) (p : Int))

theorem checkRules_eq_runPhases (allPhases : Bool) (skip : List Nat) (rs : List CRule) (f : List Tok) (last0 : Nat) :
    checkRules allPhases skip rs f last0 = runPhases f (executed allPhases skip rs f) (initState rs last0) := by
  unfold checkRules
  rw [show ({ rules := rs, nran := 0, failures := 0, lastPhase := last0, viol := false } : CheckState) = initState rs last0 from rfl]
  rw [checkLoop_eq_runPhases f allPhases skip allPhasesList allPhasesList_nodup _ (initState_inv rs last0)]
  congr 1
  unfold executed
  cases allPhases with
  | true => simp [execList_allPhases, activePhases]
  | false =>
    simp only [Bool.false_eq_true, if_false]
    show execList false skip (errIn rs f) allPhasesList 0 = _
    rw [execList_gated skip (errIn rs f) allPhasesList allPhasesList_sorted]
    unfold firstFailing activePhases
    apply List.filter_congr
    intro p _
    cases (allPhasesList.filter (fun p => !decide (p ∈ skip))).find? (fun p => decide (errIn rs f p > 0)) with
    | none => rfl
    | some q => simp [uptoFirstFailing]

theorem executed_nodup (allPhases : Bool) (skip : List Nat) (rs : List CRule) (f : List Tok) :
    (executed allPhases skip rs f).Nodup := by
  unfold executed
  split
  · exact activePhases_nodup skip
  · exact List.Nodup.sublist List.filter_sublist (activePhases_nodup skip)

/-- the rule is analysed by the run -/
def ranBy (allPhases : Bool) (skip : List Nat) (rs : List CRule) (f : List Tok) (r : CRule) : Bool :=
  (executed allPhases skip rs f).any (r.runsIn ·)

theorem checkRules_rules (allPhases : Bool) (skip : List Nat) (rs : List CRule) (f : List Tok) (last0 : Nat) :
    (checkRules allPhases skip rs f last0).rules = rs.map (anaIf f (ranBy allPhases skip rs f)) := by
  rw [checkRules_eq_runPhases]
  exact (runPhases_spec f _ (executed_nodup ..) _).1

theorem checkRules_failures (allPhases : Bool) (skip : List Nat) (rs : List CRule) (f : List Tok) (last0 : Nat) :
    (checkRules allPhases skip rs f last0).failures = ((executed allPhases skip rs f).map (errIn rs f)).sum := by
  rw [checkRules_eq_runPhases]
  have := (runPhases_spec f _ (executed_nodup allPhases skip rs f) (initState rs last0)).2.2
  simpa [initState] using this

theorem checkRules_nran (allPhases : Bool) (skip : List Nat) (rs : List CRule) (f : List Tok) (last0 : Nat) :
    (checkRules allPhases skip rs f last0).nran = ((executed allPhases skip rs f).map (ranIn rs)).sum := by
  rw [checkRules_eq_runPhases]
  have := (runPhases_spec f _ (executed_nodup allPhases skip rs f) (initState rs last0)).2.1
  simpa [initState] using this

theorem checkRules_viol (allPhases : Bool) (skip : List Nat) (rs : List CRule) (f : List Tok) (last0 : Nat) :
    (checkRules allPhases skip rs f last0).viol = decide ((checkRules allPhases skip rs f last0).failures > 0) := by
  have := runPhases_inv f (executed allPhases skip rs f) _ (initState_inv rs last0)
  rw [← checkRules_eq_runPhases] at this
  exact this

theorem ranBy_gated (skip : List Nat) (rs : List CRule) (f : List Tok) (r : CRule) :
    ranBy false skip rs f r = (ranBy true skip rs f r && uptoFirstFailing (firstFailing skip rs f) r.cfg.phase) := by
  unfold ranBy executed
  simp only [Bool.false_eq_true, if_false, if_true, List.any_filter]
  rw [Bool.eq_iff_iff]
  simp only [List.any_eq_true, Bool.and_eq_true]
  constructor
  · rintro ⟨p, hp, hu, hr⟩
    have hph : r.cfg.phase = (p : Int) := ((runsIn_iff r p).mp hr).1
    exact ⟨⟨p, hp, hr⟩, hph ▸ hu⟩
  · rintro ⟨⟨p, hp, hr⟩, hu⟩
    have hph : r.cfg.phase = (p : Int) := ((runsIn_iff r p).mp hr).1
    exact ⟨p, hp, hph ▸ hu, hr⟩

theorem ranBy_allPhases_iff (skip : List Nat) (rs : List CRule) (f : List Tok) (r : CRule) :
    ranBy true skip rs f r = true ↔
      (1 ≤ r.cfg.phase ∧ r.cfg.phase ≤ 7) ∧ (∀ p ∈ skip, (p : Int) ≠ r.cfg.phase) ∧
      (0 ≤ r.cfg.subphase ∧ r.cfg.subphase ≤ 5) ∧ r.cfg.disabled = false := by
  unfold ranBy executed
  simp only [if_true, List.any_eq_true, mem_activePhases, runsIn_iff]
  constructor
  · rintro ⟨p, ⟨hp, hs⟩, h1, h2, h3, h4⟩
    refine ⟨by omega, ?_, ⟨h2, h3⟩, h4⟩
    intro q hq e
    have : q = p := by omega
    exact hs (this ▸ hq)
  · rintro ⟨hp, hs, hsub, hd⟩
    refine ⟨r.cfg.phase.toNat, ⟨by omega, ?_⟩, by omega, hsub.1, hsub.2, hd⟩
    intro hmem
    exact hs _ hmem (by omega)

theorem clear_viols (rs : List CRule) : ∀ r ∈ clearViolations rs, r.viols = [] := by
  intro r hr
  unfold clearViolations at hr
  obtain ⟨r0, _, rfl⟩ := List.mem_map.mp hr
  rfl

end Vsgm.Lemmas
