/-
  WP2c — `token_map.extract_start_end_indexes` (closest-pair matching of start and end positions) only depends on the
  ORDER of the positions: it commutes with every strictly monotone renaming of positions.
-/
import VsgModel.Engine.TokenMap
namespace Vsgm.TM.Lemmas
open Vsgm Vsgm.TM

def SMono (φ : Nat → Nat) : Prop := ∀ x y, x < y → φ x < φ y

theorem SMono.le {φ : Nat → Nat} (h : SMono φ) {x y : Nat} (hxy : x ≤ y) : φ x ≤ φ y := by
  rcases Nat.lt_or_eq_of_le hxy with h1 | h1
  · exact Nat.le_of_lt (h x y h1)
  · rw [h1]; exact Nat.le_refl _

theorem SMono.lt_iff {φ : Nat → Nat} (h : SMono φ) {x y : Nat} : φ x < φ y ↔ x < y := by
  constructor
  · intro hl
    rcases Nat.lt_or_ge x y with h1 | h1
    · exact h1
    · have := h.le h1; omega
  · exact h x y

theorem SMono.inj {φ : Nat → Nat} (h : SMono φ) {x y : Nat} (he : φ x = φ y) : x = y := by
  rcases Nat.lt_trichotomy x y with h1 | h1 | h1
  · have := h x y h1; omega
  · exact h1
  · have := h y x h1; omega

def mp (φ : Nat → Nat) (p : Nat × Nat) : Nat × Nat := (φ p.1, φ p.2)

theorem closestPair_map {φ : Nat → Nat} (hφ : SMono φ) (s : Nat) :
    ∀ (es : List Nat) (p : Option (Nat × Nat)) (mn mn' : Nat),
      (∀ x ∈ es, s ≤ x → (x - s < mn ↔ φ x - φ s < mn')) →
      closestPair (φ s) (es.map φ) (p.map (mp φ)) mn' = (closestPair s es p mn).map (mp φ)
  | [], p, _, _, _ => rfl
  | e :: es, p, mn, mn', R => by
    simp only [List.map_cons, closestPair]
    have Rt : ∀ x ∈ es, s ≤ x → (x - s < mn ↔ φ x - φ s < mn') := fun x hx => R x (List.mem_cons_of_mem _ hx)
    by_cases h1 : s > e
    · have h1' : φ s > φ e := hφ e s h1
      simp only [h1, h1', if_true]
      exact closestPair_map hφ s es p mn mn' Rt
    · have h1' : ¬ φ s > φ e := by
        have := hφ.le (Nat.le_of_not_gt h1); omega
      simp only [h1, h1', if_false]
      have hse : s ≤ e := Nat.le_of_not_gt h1
      have hR := R e (List.mem_cons_self ..) hse
      by_cases h2 : e - s < mn
      · have h2' : φ e - φ s < mn' := hR.mp h2
        simp only [h2, h2', if_true]
        have := closestPair_map hφ s es (some (s, e)) (e - s) (φ e - φ s) (by
          intro x _ hsx
          have a1 := hφ.le hsx
          have a2 := hφ.le hse
          have a3 : φ x < φ e ↔ x < e := hφ.lt_iff
          omega)
        simpa [mp] using this
      · have h2' : ¬ φ e - φ s < mn' := fun h => h2 (hR.mpr h)
        simp only [h2, h2', if_false]
        exact closestPair_map hφ s es p mn mn' Rt

theorem le_getLast (es : List Nat) (last : Nat) (hl : es.getLast? = some last) (hs : es.Pairwise (· ≤ ·)) :
    ∀ x ∈ es, x ≤ last := by
  obtain ⟨ys, rfl⟩ := List.getLast?_eq_some_iff.mp hl
  intro x hx
  rw [List.pairwise_append] at hs
  rw [List.mem_append] at hx
  rcases hx with hx | hx
  · exact hs.2.2 x hx last (by simp)
  · simp at hx; omega

theorem fold_map {φ : Nat → Nat} (hφ : SMono φ) (es : List Nat) (last : Nat) (hle : ∀ x ∈ es, x ≤ last) :
    ∀ (ss : List Nat) (p : Option (Nat × Nat)),
      (ss.map φ).foldl (fun p s => closestPair s (es.map φ) p (φ last + 1)) (p.map (mp φ)) =
        (ss.foldl (fun p s => closestPair s es p (last + 1)) p).map (mp φ)
  | [], _ => rfl
  | s :: ss, p => by
    simp only [List.map_cons, List.foldl_cons]
    rw [closestPair_map hφ s es p (last + 1) (φ last + 1) (by
      intro x hx hsx
      have a1 := hle x hx
      have a2 := hφ.le a1
      have a3 := hφ.le hsx
      omega)]
    exact fold_map hφ es last hle ss _

theorem erase_map {φ : Nat → Nat} (hφ : SMono φ) (x : Nat) : ∀ l : List Nat, (l.map φ).erase (φ x) = (l.erase x).map φ
  | [] => rfl
  | y :: l => by
    simp only [List.map_cons, List.erase_cons]
    by_cases h : y = x
    · subst h; simp
    · have h' : φ y ≠ φ x := fun e => h (hφ.inj e)
      simp [h, h', erase_map hφ x l]

theorem extractPairsGo_map {φ : Nat → Nat} (hφ : SMono φ) :
    ∀ (n : Nat) (ss es : List Nat), es.Pairwise (· ≤ ·) →
      extractPairsGo n (ss.map φ) (es.map φ) = (extractPairsGo n ss es).map (mp φ)
  | 0, _, _, _ => rfl
  | n + 1, ss, es, hs => by
    unfold extractPairsGo
    rw [List.getLast?_map]
    cases hl : es.getLast? with
    | none => simp
    | some last =>
      cases ss with
      | nil => simp
      | cons s0 ss0 =>
        simp only [Option.map_some, List.map_cons]
        have hle := le_getLast es last hl hs
        have hf := fold_map hφ es last hle (s0 :: ss0) none
        simp only [Option.map_none, List.map_cons] at hf
        rw [hf]
        cases hr : (s0 :: ss0).foldl (fun p s => closestPair s es p (last + 1)) none with
        | none => simp
        | some se =>
          obtain ⟨s, e⟩ := se
          simp only [Option.map_some, mp, List.map_cons]
          have := extractPairsGo_map hφ n ((s0 :: ss0).erase s) (es.erase e) (hs.sublist List.erase_sublist)
          rw [← erase_map hφ s, ← erase_map hφ e] at this
          simp only [List.map_cons] at this
          rw [this]

theorem extractPairs_map {φ : Nat → Nat} (hφ : SMono φ) (ss es : List Nat) (hs : es.Pairwise (· ≤ ·)) :
    extractPairs (ss.map φ) (es.map φ) = (extractPairs ss es).map (mp φ) := by
  unfold extractPairs
  rw [List.length_map]
  exact extractPairsGo_map hφ _ ss es hs

theorem indexesFromPairs_map {φ : Nat → Nat} (hφ : SMono φ) (ps : List (Nat × Nat)) :
    indexesFromPairs (ps.map (mp φ)) = ((indexesFromPairs ps).1.map φ, (indexesFromPairs ps).2.map φ) := by
  unfold indexesFromPairs
  simp only
  have hm : ((ps.map (mp φ)).map (·.1)).mergeSort (fun a b => decide (a ≤ b)) =
      ((ps.map (·.1)).mergeSort (fun a b => decide (a ≤ b))).map φ := by
    rw [List.map_mergeSort (s := fun a b => decide (a ≤ b)) (f := φ)]
    · simp [List.map_map, Function.comp_def, mp]
    · intro a _ b _
      have : φ a ≤ φ b ↔ a ≤ b := by
        have := hφ.lt_iff (x := b) (y := a); omega
      simp [this]
  rw [hm]
  congr 1
  rw [List.flatMap_map, List.map_flatMap]
  congr 1
  funext s
  rw [List.filter_map, List.map_map, List.map_map]
  congr 1
  apply List.filter_congr
  intro p _
  have : φ p.1 = φ s ↔ p.1 = s := ⟨fun e => hφ.inj e, fun e => by rw [e]⟩
  simp only [Function.comp, mp]
  rw [Bool.eq_iff_iff]
  simp only [beq_iff_eq]
  exact this

/-- **`extract_start_end_indexes` commutes with strictly monotone renamings** (ends listed in ascending order, as
    every list of the token map is) -/
theorem startEndIndexes_map {φ : Nat → Nat} (hφ : SMono φ) (ss es : List Nat) (hs : es.Pairwise (· ≤ ·)) :
    startEndIndexes (ss.map φ) (es.map φ) = ((startEndIndexes ss es).1.map φ, (startEndIndexes ss es).2.map φ) := by
  unfold startEndIndexes
  rw [extractPairs_map hφ ss es hs, indexesFromPairs_map hφ]

end Vsgm.TM.Lemmas
