/- `fixByOwner` on the owners of the indent / vertical-spacing family: which model each owner reaches.
   Needs only that the owner lists are pairwise disjoint (re-checked by `decide +kernel`). -/
import VsgModel.Base.Dispatch
import VsgProofs.Lemmas.BaseIndent
import VsgProofs.Lemmas.BaseBlankLine
namespace Vsgm.Base
open Vsgm

/-- decidable equality of `Except` values, so that concrete witnesses can be checked by `decide` -/
instance bindDecEqExcept {ε α : Type} [DecidableEq ε] [DecidableEq α] : DecidableEq (Except ε α) :=
  fun a b =>
    match a, b with
    | .ok x, .ok y => if h : x = y then isTrue (by rw [h]) else isFalse (by intro e; cases e; exact h rfl)
    | .error x, .error y => if h : x = y then isTrue (by rw [h]) else isFalse (by intro e; cases e; exact h rfl)
    | .ok _, .error _ => isFalse (by intro e; cases e)
    | .error _, .ok _ => isFalse (by intro e; cases e)

theorem disjoint_of_all (A B : List String) (h : (A.all fun x => !B.contains x) = true) (x : String)
    (hx : x ∈ A) : x ∉ B := by
  have := List.all_eq_true.mp h x hx
  simpa using this

theorem fixByOwner_indent (owner : String) (params action : KV) (old : List Tok) (ho : owner ∈ indentOwners) :
    fixByOwner owner params action old = some (do
      let size ← needInt params "indent_size"
      let style ← needStr params "indent_style"
      Indent.fixV Gen.wsCls style size (strAction action) (indentOracle action) old) := by
  have n_alignOwners : owner ∉ alignOwners := disjoint_of_all indentOwners alignOwners (by decide +kernel) owner ho
  unfold fixByOwner
  simp only [n_alignOwners, ho, if_true, if_false]

theorem fixByOwner_below (owner : String) (params action : KV) (old : List Tok) (ho : owner ∈ blankBelowOwners) :
    fixByOwner owner params action old = some (do
      let a ← dictAction action
      BlankLine.belowFixV Gen.crCls Gen.blankCls a old) := by
  have n_alignOwners : owner ∉ alignOwners := disjoint_of_all blankBelowOwners alignOwners (by decide +kernel) owner ho
  have n_indentOwners : owner ∉ indentOwners := disjoint_of_all blankBelowOwners indentOwners (by decide +kernel) owner ho
  unfold fixByOwner
  simp only [n_alignOwners, n_indentOwners, ho, if_true, if_false]

theorem fixByOwner_above (owner : String) (params action : KV) (old : List Tok) (ho : owner ∈ blankAboveOwners) :
    fixByOwner owner params action old = some (do
      let a ← dictAction action
      BlankLine.aboveFixV Gen.crCls Gen.blankCls a old) := by
  have n_alignOwners : owner ∉ alignOwners := disjoint_of_all blankAboveOwners alignOwners (by decide +kernel) owner ho
  have n_indentOwners : owner ∉ indentOwners := disjoint_of_all blankAboveOwners indentOwners (by decide +kernel) owner ho
  have n_blankBelowOwners : owner ∉ blankBelowOwners := disjoint_of_all blankAboveOwners blankBelowOwners (by decide +kernel) owner ho
  unfold fixByOwner
  simp only [n_alignOwners, n_indentOwners, n_blankBelowOwners, ho, if_true, if_false]

theorem fixByOwner_excessAbove (owner : String) (params action : KV) (old : List Tok) (ho : owner ∈ excessAboveOwners) :
    fixByOwner owner params action old = some (do
      let i ← actBound action "index"
      BlankLine.excessAboveFixV i old) := by
  have n_alignOwners : owner ∉ alignOwners := disjoint_of_all excessAboveOwners alignOwners (by decide +kernel) owner ho
  have n_indentOwners : owner ∉ indentOwners := disjoint_of_all excessAboveOwners indentOwners (by decide +kernel) owner ho
  have n_blankBelowOwners : owner ∉ blankBelowOwners := disjoint_of_all excessAboveOwners blankBelowOwners (by decide +kernel) owner ho
  have n_blankAboveOwners : owner ∉ blankAboveOwners := disjoint_of_all excessAboveOwners blankAboveOwners (by decide +kernel) owner ho
  unfold fixByOwner
  simp only [n_alignOwners, n_indentOwners, n_blankBelowOwners, n_blankAboveOwners, ho, if_true, if_false]

theorem fixByOwner_excessBelow (owner : String) (params action : KV) (old : List Tok) (ho : owner ∈ excessBelowOwners) :
    fixByOwner owner params action old = some (do
      let r ← actTwice action "remove"
      BlankLine.excessBelowFixV r old) := by
  have n_alignOwners : owner ∉ alignOwners := disjoint_of_all excessBelowOwners alignOwners (by decide +kernel) owner ho
  have n_indentOwners : owner ∉ indentOwners := disjoint_of_all excessBelowOwners indentOwners (by decide +kernel) owner ho
  have n_blankBelowOwners : owner ∉ blankBelowOwners := disjoint_of_all excessBelowOwners blankBelowOwners (by decide +kernel) owner ho
  have n_blankAboveOwners : owner ∉ blankAboveOwners := disjoint_of_all excessBelowOwners blankAboveOwners (by decide +kernel) owner ho
  have n_excessAboveOwners : owner ∉ excessAboveOwners := disjoint_of_all excessBelowOwners excessAboveOwners (by decide +kernel) owner ho
  unfold fixByOwner
  simp only [n_alignOwners, n_indentOwners, n_blankBelowOwners, n_blankAboveOwners, n_excessAboveOwners, ho, if_true, if_false]

theorem fixByOwner_removeAbove (owner : String) (params action : KV) (old : List Tok) (ho : owner ∈ removeAboveOwners) :
    fixByOwner owner params action old = some (do
      let i ← actBound action "remove_to_index"
      BlankLine.removeAboveFixV i old) := by
  have n_alignOwners : owner ∉ alignOwners := disjoint_of_all removeAboveOwners alignOwners (by decide +kernel) owner ho
  have n_indentOwners : owner ∉ indentOwners := disjoint_of_all removeAboveOwners indentOwners (by decide +kernel) owner ho
  have n_blankBelowOwners : owner ∉ blankBelowOwners := disjoint_of_all removeAboveOwners blankBelowOwners (by decide +kernel) owner ho
  have n_blankAboveOwners : owner ∉ blankAboveOwners := disjoint_of_all removeAboveOwners blankAboveOwners (by decide +kernel) owner ho
  have n_excessAboveOwners : owner ∉ excessAboveOwners := disjoint_of_all removeAboveOwners excessAboveOwners (by decide +kernel) owner ho
  have n_excessBelowOwners : owner ∉ excessBelowOwners := disjoint_of_all removeAboveOwners excessBelowOwners (by decide +kernel) owner ho
  unfold fixByOwner
  simp only [n_alignOwners, n_indentOwners, n_blankBelowOwners, n_blankAboveOwners, n_excessAboveOwners, n_excessBelowOwners, ho, if_true, if_false]

theorem fixByOwner_ws200 (owner : String) (params action : KV) (old : List Tok) (ho : owner ∈ ws200Owners) :
    fixByOwner owner params action old = some (do
      let r ← actTwice action "remove"
      BlankLine.ws200FixV r old) := by
  have n_alignOwners : owner ∉ alignOwners := disjoint_of_all ws200Owners alignOwners (by decide +kernel) owner ho
  have n_indentOwners : owner ∉ indentOwners := disjoint_of_all ws200Owners indentOwners (by decide +kernel) owner ho
  have n_blankBelowOwners : owner ∉ blankBelowOwners := disjoint_of_all ws200Owners blankBelowOwners (by decide +kernel) owner ho
  have n_blankAboveOwners : owner ∉ blankAboveOwners := disjoint_of_all ws200Owners blankAboveOwners (by decide +kernel) owner ho
  have n_excessAboveOwners : owner ∉ excessAboveOwners := disjoint_of_all ws200Owners excessAboveOwners (by decide +kernel) owner ho
  have n_excessBelowOwners : owner ∉ excessBelowOwners := disjoint_of_all ws200Owners excessBelowOwners (by decide +kernel) owner ho
  have n_removeAboveOwners : owner ∉ removeAboveOwners := disjoint_of_all ws200Owners removeAboveOwners (by decide +kernel) owner ho
  unfold fixByOwner
  simp only [n_alignOwners, n_indentOwners, n_blankBelowOwners, n_blankAboveOwners, n_excessAboveOwners, n_excessBelowOwners, n_removeAboveOwners, ho, if_true, if_false]

theorem fixByOwner_betweenPairs (owner : String) (params action : KV) (old : List Tok) (ho : owner ∈ betweenPairsOwners) :
    fixByOwner owner params action old = some (BlankLine.betweenPairsFixV old) := by
  have n_alignOwners : owner ∉ alignOwners := disjoint_of_all betweenPairsOwners alignOwners (by decide +kernel) owner ho
  have n_indentOwners : owner ∉ indentOwners := disjoint_of_all betweenPairsOwners indentOwners (by decide +kernel) owner ho
  have n_blankBelowOwners : owner ∉ blankBelowOwners := disjoint_of_all betweenPairsOwners blankBelowOwners (by decide +kernel) owner ho
  have n_blankAboveOwners : owner ∉ blankAboveOwners := disjoint_of_all betweenPairsOwners blankAboveOwners (by decide +kernel) owner ho
  have n_excessAboveOwners : owner ∉ excessAboveOwners := disjoint_of_all betweenPairsOwners excessAboveOwners (by decide +kernel) owner ho
  have n_excessBelowOwners : owner ∉ excessBelowOwners := disjoint_of_all betweenPairsOwners excessBelowOwners (by decide +kernel) owner ho
  have n_removeAboveOwners : owner ∉ removeAboveOwners := disjoint_of_all betweenPairsOwners removeAboveOwners (by decide +kernel) owner ho
  have n_ws200Owners : owner ∉ ws200Owners := disjoint_of_all betweenPairsOwners ws200Owners (by decide +kernel) owner ho
  unfold fixByOwner
  simp only [n_alignOwners, n_indentOwners, n_blankBelowOwners, n_blankAboveOwners, n_excessAboveOwners, n_excessBelowOwners, n_removeAboveOwners, n_ws200Owners, ho, if_true, if_false]

end Vsgm.Base
