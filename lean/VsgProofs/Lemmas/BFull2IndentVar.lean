/-
  WP2b — the three extractor VARIANTS of token_indent (between / between-unless / unless, 9 rules) reduced to the
  plain rule: a variant only FILTERS the candidate positions, and a candidate that is filtered out behaves exactly
  like a candidate whose indent level is `None` (no violation in either region shape).  So the variant with oracle
  `ind` is the plain rule with the oracle masked by the selection — and every whole-rule theorem of the plain rule
  (they hold for ALL oracles) transfers, provided the selection is the same before and after the fix (`SelStable`).
-/
import VsgProofs.Lemmas.BFull2Indent
namespace Vsgm.BFull2
open Vsgm Vsgm.TM Vsgm.TM.Lemmas

variable (uid : Tok → Option Key)

def maskO (sel : Nat → Bool) (ind : Oracle) : Oracle := fun o => if sel o then ind o else none

/-- `filter_indexes_in_unless_regions` as a predicate on one position -/
def unlessOk (ix : Index) (u : List (Cls × Cls)) (i : Nat) : Bool :=
  (idxsOfPairs ix u).length == 0 || !((idxsOfPairs ix u).any fun se => decide (i ≥ se.1) && decide (i ≤ se.2))

/-- the variant's filter on one candidate position -/
def posSel (P : Params) (ix : Index) (i : Nat) : Bool :=
  match P.variant with
  | .plain => true
  | .between a b incl => isBetweenIdx i (ix.pairIndexes a.uid b.uid).1 (ix.pairIndexes a.uid b.uid).2 incl
  | .betweenUnless a b u incl =>
    unlessOk ix u i && isBetweenIdx i (ix.pairIndexes a.uid b.uid).1 (ix.pairIndexes a.uid b.uid).2 incl
  | .unlessBetween u => unlessOk ix u i

theorem filter_const_true (l : List Nat) : l.filter (fun _ => true) = l := by
  induction l with
  | nil => rfl
  | cons a r ih => simp [List.filter_cons, ih]

theorem filterUnless_eq (ix : Index) (idxs : List Nat) (u : List (Cls × Cls)) :
    filterUnless ix idxs u = idxs.filter (unlessOk ix u) := by
  unfold filterUnless unlessOk
  by_cases h : ((idxsOfPairs ix u).length == 0) = true
  · simp only [h, if_true, Bool.true_or]; exact (filter_const_true idxs).symm
  · simp [h]

theorem toisWith_eq (P : Params) (f : List Tok) (ix : Index) :
    toisWith P f ix = tokensAtBolOf f ix ((idxsOfList ix P.cs).filter (posSel P ix)) := by
  unfold toisWith posSel
  cases hv : P.variant with
  | plain => simp [tokensAtBolMatching_eq, filter_const_true]
  | between a b incl => rfl
  | betweenUnless a b u incl =>
    simp only [tokensAtBolBetweenUnless, filterUnless_eq, List.filter_filter]
    congr 1
    apply List.filter_congr
    intro i _
    rw [Bool.and_comm]
  | unlessBetween u => simp only [tokensAtBolUnless, filterUnless_eq]

/-- position of the `o`-th non-whitespace token -/
def posOfOrd : List Tok → Nat → Option Nat
  | [], _ => none
  | t :: r, o =>
    if isWsU uid t then (posOfOrd r o).map (· + 1)
    else match o with
      | 0 => some 0
      | o + 1 => (posOfOrd r o).map (· + 1)

theorem posOfOrd_take (f : List Tok) (i : Nat) (hi : i < f.length) (hw : isWsU uid f[i] = false) :
    posOfOrd uid f (ordOf uid (f.take i)) = some i := by
  induction f generalizing i with
  | nil => simp at hi
  | cons t r ih =>
    cases i with
    | zero =>
      simp only [List.getElem_cons_zero] at hw
      simp [posOfOrd, ordOf, hw]
    | succ j =>
      have hj : j < r.length := by simpa using hi
      have hw' : isWsU uid r[j] = false := by simpa using hw
      have := ih j hj hw'
      by_cases ht : isWsU uid t = true
      · simp only [List.take_succ_cons, posOfOrd, ht, if_true]
        have e : ordOf uid (t :: r.take j) = ordOf uid (r.take j) := by simp [ordOf, ht]
        rw [e, this]; rfl
      · have ht' : isWsU uid t = false := by simpa using ht
        have e : ordOf uid (t :: r.take j) = ordOf uid (r.take j) + 1 := by simp [ordOf, ht']
        simp only [List.take_succ_cons, posOfOrd, ht', Bool.false_eq_true, if_false, e]
        rw [this]; rfl

/-- the selection as a function of the token's ordinal among the non-whitespace tokens -/
def selOrd (P : Params) (f : List Tok) : Nat → Bool := fun o =>
  match posOfOrd uid f o with
  | some i => posSel P (processTokens uid f) i
  | none => false

theorem judge_none (style : Str) (size : Int) (l : List Tok) : judge style size (fun _ => none) l = none := by
  unfold judge
  match l with
  | [] => rfl
  | [_] => rfl
  | [_, _] => rfl
  | _ :: _ :: _ :: _ => rfl

variable (P : Params) (ind : Oracle)

/-- **a variant = the plain rule with the masked oracle** (fresh index, `CsOk`, documented styles) -/
theorem analyze_variant_mask (hcs : CsOk P.cs) (hs : StyleOk P) (f : List Tok) :
    (sem uid P ind).analyze f =
      (sem uid { P with variant := .plain } (maskO (selOrd uid P f) ind)).analyze f := by
  have hs' : StyleOk { P with variant := .plain } := hs
  rw [analyze_eq_scanA uid { P with variant := .plain } (maskO (selOrd uid P f) ind) rfl hcs hs' f, scanA_range]
  unfold sem
  simp only
  unfold analyzeE analyzeWith
  rw [toisWith_eq, tokensAtBolOf_fresh uid f _ (by
    intro i hi; exact fresh_idxsOfList_lt uid f P.cs i (List.mem_filter.mp hi).1), idxsOfList_fresh uid f P.cs hcs]
  simp only [liftTM]
  obtain ⟨r, hr, hrm⟩ := fmE_map_ok (violOf uid P ind f) (violOfO uid P ind f) (·.1)
    ((((List.range f.length).filter (candB uid P.cs f)).filter (posSel P (processTokens uid f))).filterMap (bolAt uid f))
    (fun t _ => violOf_ok uid P ind hs f t)
  rw [hr]
  simp only
  rw [hrm, List.filterMap_filterMap, List.filterMap_filter, List.filterMap_filter]
  apply filterMap_ext_mem
  intro i hi
  rw [List.mem_range] at hi
  simp only [List.nil_append, List.getElem?_eq_getElem hi]
  by_cases hc : candB uid P.cs f i = true
  · have hm : matchB uid P.cs f[i] = true := by
      unfold candB at hc; rw [List.getElem?_eq_getElem hi] at hc; exact hc
    have hnw := match_not_ws uid P hcs f[i] hm
    have hso : selOrd uid P f (ordOf uid (f.take i)) = posSel P (processTokens uid f) i := by
      unfold selOrd; rw [posOfOrd_take uid f i hi hnw]
    by_cases hq : posSel P (processTokens uid f) i = true
    · -- selected: same oracle value at this ordinal
      have := vAt_eq uid P ind f i hi
      simp only [hc, if_true] at this
      simp only [hc, hq, if_true]
      rw [this]
      unfold vOf mkViol maskO
      simp only [hso, hq, if_true]
    · have hq' : posSel P (processTokens uid f) i = false := by simpa using hq
      simp only [hc, hq', Bool.false_eq_true, if_false, if_true]
      unfold vOf mkViol maskO
      simp only [hso, hq', Bool.false_eq_true, if_false, judge_none]
      cases regionAt uid (f.take i) f[i] <;> simp [hm]
  · have hc' : candB uid P.cs f i = false := by simpa using hc
    have hm : matchB uid P.cs f[i] = false := by
      unfold candB at hc'; rw [List.getElem?_eq_getElem hi] at hc'; exact hc'
    simp only [hc', Bool.false_eq_true, if_false]
    unfold vOf
    simp [hm]

/-- the fix does not depend on the variant or the oracle -/
theorem fixTok_plain (v : Viol) : fixTok { P with variant := .plain } v = fixTok P v := rfl

/-- the selection of every candidate is the same before and after the fix (what remains to be proved for the
    between / unless variants: the start / end pairing of `token_map` only depends on the ORDER of the non-whitespace
    tokens, which the fix keeps) -/
def SelStable (f : List Tok) : Prop :=
  ∀ o, selOrd uid P (fixAll uid P ind f) o = selOrd uid P f o

theorem fixAll_variant_mask (hcs : CsOk P.cs) (hs : StyleOk P) (f : List Tok) :
    fixAll uid P ind f = fixAll uid { P with variant := .plain } (maskO (selOrd uid P f) ind) f := by
  unfold fixAll
  rw [analyze_variant_mask uid P ind hcs hs f]
  rfl

/-- **whole-rule idempotence for every variant**, under `SelStable` -/
theorem analyze_fixAll_variant (hcs : CsOk P.cs) (hs : StyleOk P) (hu : UidOk uid P) (f : List Tok)
    (hb : ∀ t ∈ f, t.isBof = false) (hst : SelStable uid P ind f) :
    (sem uid P ind).analyze (fixAll uid P ind f) = [] := by
  rw [analyze_variant_mask uid P ind hcs hs (fixAll uid P ind f)]
  have : selOrd uid P (fixAll uid P ind f) = selOrd uid P f := funext hst
  rw [this, fixAll_variant_mask uid P ind hcs hs f]
  exact analyze_fixAll uid { P with variant := .plain } (maskO (selOrd uid P f) ind) rfl hcs hs ⟨hu.cls, hu.ws⟩ f hb

/-- the plain variant selects everything: `SelStable` holds trivially -/
theorem selStable_plain (hv : P.variant = .plain) (f : List Tok)
    (h : ∀ o, (posOfOrd uid (fixAll uid P ind f) o).isSome = (posOfOrd uid f o).isSome) : SelStable uid P ind f := by
  intro o
  unfold selOrd posSel
  rw [hv]
  have := h o
  cases h1 : posOfOrd uid (fixAll uid P ind f) o <;> cases h2 : posOfOrd uid f o <;> simp_all

/-- layout-only / line count / any whitespace-blind projection, every variant, NO stability hypothesis -/
theorem fixAll_hom_variant {β : Type} (π : List Tok → List β) (hπ : ∀ a b, π (a ++ b) = π a ++ π b)
    (hπws : ∀ t : Tok, t.kind = .ws → π [t] = []) (hcs : CsOk P.cs) (hs : StyleOk P) (f : List Tok)
    (hb : ∀ t ∈ f, t.isBof = false) (hk : ∀ t ∈ f, isWsU uid t = true → t.kind = .ws) :
    π (fixAll uid P ind f) = π f := by
  rw [fixAll_variant_mask uid P ind hcs hs f]
  exact fixAll_hom uid { P with variant := .plain } (maskO (selOrd uid P f) ind) π hπ hπws rfl hcs hs f hb hk

end Vsgm.BFull2
