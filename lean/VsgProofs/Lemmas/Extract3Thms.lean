/-
  Slice-exactness of the extractors of `VsgModel/Engine/Extract3.lean` (WP3).
-/
import VsgModel.Engine.Extract3
import VsgProofs.Lemmas.Extract2
namespace Vsgm.TM.X.Lemmas
open Vsgm Vsgm.TM Vsgm.TM.Lemmas Vsgm.TM.X

variable {α : Type}

theorem crs_eq_get (ix : Index) (c : List Nat) (h : ix.crs = .ok c) : c = ix.get (some crKey) := by
  unfold Index.crs at h
  unfold Index.get Map.get
  cases hf : ix.dmap.find crKey with
  | none => simp [hf] at h
  | some l => simp [hf] at h; simp [hf, h]

/-- `get_index_of_carriage_return_before_index` of a fresh index stays inside the file -/
theorem crBefore_fresh_lt (uid : α → Option Key) (f : List α) (i : Nat) (s : Int) (hi : i < f.length)
    (h : (processTokens uid f).crBefore i = .ok (some s)) : 0 ≤ s ∧ s.toNat < f.length := by
  have h0 := crBefore_nonneg _ (i : Int) s (by omega) h
  refine ⟨h0, ?_⟩
  unfold Index.crBefore at h
  split at h
  · simp [pure, Except.pure] at h
  · simp only [bind_ok] at h
    obtain ⟨c, hc, x, hx, h⟩ := h
    have hm := pyIdx_mem _ _ _ hx
    rw [crs_eq_get _ c hc] at hm
    have := fresh_get_lt uid f (some crKey) x hm
    split at h <;> simp only [pure_ok, Option.some.injEq] at h <;> omega

theorem crAfter_fresh_lt (uid : α → Option Key) (f : List α) (i : Int) (e : Nat)
    (h : (processTokens uid f).crAfter i = .ok e) : e < f.length := by
  unfold Index.crAfter at h
  simp only [bind_ok] at h
  obtain ⟨c, hc, h⟩ := h
  split at h
  · rename_i x hx
    simp only [pure_ok] at h
    subst h
    have hm := List.mem_of_getElem? hx
    rw [crs_eq_get _ c hc] at hm
    exact fresh_get_lt uid f (some crKey) x hm
  · cases h

/-! ### beginning of the line … next non-whitespace token -/

theorem bolToNextNonWs_exact (uid : α → Option Key) (f : List α) (tok : Option Key) (r : List (Toi α))
    (h : bolToNextNonWs f (processTokens uid f) tok = .ok r) :
    ∀ t ∈ r, t.Exact f ∧ ∃ s v : Int, t.start = some s ∧ t.value = some v ∧ t.line = lineNo uid f (s + v).toNat := by
  intro t ht
  unfold bolToNextNonWs at h
  obtain ⟨i, hi, hb⟩ := mem_mapE _ _ _ h t ht
  have hlt := fresh_get_lt uid f tok i hi
  simp only [bind_ok] at hb
  obtain ⟨line, hl, s0, hs0, hb⟩ := hb
  split at hb
  · cases hb
  · cases hb
  · rename_i e s _
    simp only [pure_ok] at hb
    subst hb
    obtain ⟨h0, hs⟩ := crBefore_fresh_lt uid f i s hlt hs0
    refine ⟨exact_of_slice f _ s _ rfl h0 (by omega) rfl, s, (i : Int) - s, rfl, rfl, ?_⟩
    have : (s + ((i : Int) - s)).toNat = i := by omega
    rw [this]
    simpa using lineOf_fresh uid f i line hl

/-! ### windows before / after a token -/

theorem windowsBefore_exact (uid : α → Option Key) (f : List α) (n : Nat) (idxs : List Nat) (r : List (Toi α))
    (hidx : ∀ i ∈ idxs, i < f.length) (h : windowsBefore f (processTokens uid f) n idxs = .ok r) :
    ∀ t ∈ r, t.Exact f ∧ ∃ s : Nat, t.start = some (s : Int) ∧ t.line = lineNo uid f s := by
  intro t ht
  unfold windowsBefore at h
  obtain ⟨i, hi, hb⟩ := mem_filterMapE _ _ _ h t ht
  have hlt := hidx i hi
  simp only at hb
  split at hb
  · rename_i hge
    simp only [bind_ok, pure_ok, Option.some.injEq] at hb
    obtain ⟨line, hl, rfl⟩ := hb
    have e1 : (i : Int) - (n : Int) = ((i - n : Nat) : Int) := by omega
    refine ⟨exact_of_slice f _ ((i : Int) - (n : Int)) _ rfl (by omega) (by omega) rfl, i - n, by simp; exact e1, ?_⟩
    have := lineOf_fresh uid f _ line hl
    rw [e1] at this
    simpa using this
  · simp [pure, Except.pure] at hb

theorem windowsAfter_exact (uid : α → Option Key) (f : List α) (n : Nat) (idxs : List Nat) (r : List (Toi α))
    (hidx : ∀ i ∈ idxs, i < f.length) (h : windowsAfter f (processTokens uid f) n idxs = .ok r) :
    ∀ t ∈ r, t.Exact f ∧ ∃ s : Nat, t.start = some (s : Int) ∧ t.line = lineNo uid f s := by
  intro t ht
  unfold windowsAfter at h
  obtain ⟨i, hi, hb⟩ := mem_mapE _ _ _ h t ht
  have hlt := hidx i hi
  simp only [bind_ok, pure_ok] at hb
  obtain ⟨line, hl, rfl⟩ := hb
  exact ⟨exact_of_slice f _ (i : Int) _ rfl (by omega) (by simp; omega) rfl, i, rfl,
    by simpa using lineOf_fresh uid f i line hl⟩

theorem mem_filterBetweenUnlessStop (ix : Index) (cs : List Cls) (a b stop : Option Key) :
    ∀ i ∈ filterBetweenUnlessStop ix cs a b stop, ∃ c ∈ cs, i ∈ ix.get c.uid := by
  intro i hi
  unfold filterBetweenUnlessStop at hi
  obtain ⟨c, hc, hi⟩ := List.mem_flatMap.mp hi
  obtain ⟨s, _, hi⟩ := List.mem_flatMap.mp hi
  split at hi
  · unfold Index.getBetween at hi
    exact ⟨c, hc, (List.mem_filter.mp hi).1⟩
  · simp at hi

theorem fresh_filterBetweenUnlessStop_lt (uid : α → Option Key) (f : List α) (cs : List Cls) (a b stop : Option Key) :
    ∀ i ∈ filterBetweenUnlessStop (processTokens uid f) cs a b stop, i < f.length := by
  intro i hi
  obtain ⟨c, _, h⟩ := mem_filterBetweenUnlessStop _ cs a b stop i hi
  exact fresh_get_lt uid f c.uid i h

/-! ### single tokens -/

theorem singles_exact (f : List α) (ix : Index) (idxs : List Nat) (r : List (Toi α)) (h : singles f ix idxs = .ok r) :
    ∀ t ∈ r, t.Exact f := by
  intro t ht
  obtain ⟨i, _, x, hs, _, hx, htk⟩ := singles_spec f ix _ r h t ht
  exact exact_of_single f t i x hs hx htk

theorem singles_line (uid : α → Option Key) (f : List α) (idxs : List Nat) (r : List (Toi α))
    (h : singles f (processTokens uid f) idxs = .ok r) :
    ∀ t ∈ r, ∃ s : Nat, t.start = some (s : Int) ∧ t.line = lineNo uid f s := by
  intro t ht
  obtain ⟨i, _, x, hs, hl, _, _⟩ := singles_spec f _ _ r h t ht
  exact ⟨i, hs, by simpa using lineOf_fresh uid f i t.line hl⟩

/-! ### window around a token between two tokens -/

theorem nBeforeAndAfterBounded_exact (uid : α → Option Key) (f : List α) (n : Nat) (cs : List Cls)
    (a b : Option Key) (r : List (Toi α)) (h : nBeforeAndAfterBounded f (processTokens uid f) n cs a b = .ok r) :
    ∀ t ∈ r, t.Exact f ∧ ∃ i : Nat, n ≤ i ∧ t.start = some ((i - n : Nat) : Int) ∧ t.line = lineNo uid f i := by
  intro t ht
  unfold nBeforeAndAfterBounded at h
  obtain ⟨i, hi, hb⟩ := mem_filterMapE _ _ _ h t ht
  have hlt := fresh_filterBetween_lt uid f cs a b i hi
  simp only [bind_ok] at hb
  obtain ⟨line, hl, hb⟩ := hb
  split at hb
  · rename_i hge
    simp only [pure_ok, Option.some.injEq] at hb
    subst hb
    have hn : n ≤ i := by omega
    have e1 : (i : Int) - (n : Int) = ((i - n : Nat) : Int) := by omega
    exact ⟨exact_of_slice f _ ((i : Int) - (n : Int)) _ rfl (by omega) (by omega) rfl, i, hn, by simp; exact e1,
      by simpa using lineOf_fresh uid f i line hl⟩
  · simp [pure, Except.pure] at hb

/-! ### the line that includes a token -/

theorem lineWhichIncludes_exact (uid : α → Option Key) (f : List α) (cs : List Cls) (r : List (Toi α))
    (h : lineWhichIncludes f (processTokens uid f) cs = .ok r) :
    ∀ t ∈ r, t.Exact f ∧ ∃ s v : Int, t.start = some s ∧ t.value = some v ∧ t.line = lineNo uid f (s + v).toNat := by
  intro t ht
  unfold lineWhichIncludes at h
  obtain ⟨i, hi, hb⟩ := mem_mapE _ _ _ h t ht
  have hlt := fresh_idxsOfList_lt uid f cs i hi
  simp only [bind_ok, pure_ok] at hb
  obtain ⟨s0, hs0, e, _, line, hl, rfl⟩ := hb
  have hline : line = lineNo uid f i := by simpa using lineOf_fresh uid f i line hl
  cases s0 with
  | none =>
    refine ⟨exact_of_slice f _ 0 _ rfl (by omega) (by simp) rfl, 0, (i : Int) - 0, rfl, rfl, ?_⟩
    have : ((0 : Int) + ((i : Int) - 0)).toNat = i := by omega
    rw [this]; exact hline
  | some x =>
    obtain ⟨h0, hx⟩ := crBefore_fresh_lt uid f i x hlt hs0
    refine ⟨exact_of_slice f _ (x + 1) _ rfl (by omega) (by omega) rfl, x + 1, (i : Int) - (x + 1), rfl, rfl, ?_⟩
    have : ((x + 1) + ((i : Int) - (x + 1))).toNat = i := by omega
    rw [this]; exact hline

/-! ### a sequence of classes between two tokens -/

theorem sequenceMatchingBounded_exact (V : View α) (f : List α) (ix : Index) (cs : List Cls) (a b : Option Key)
    (r : List (Toi α)) (h : sequenceMatchingBounded V f ix cs a b = .ok r) : ∀ t ∈ r, t.Exact f := by
  intro t ht
  unfold sequenceMatchingBounded at h
  simp only [bind_ok] at h
  obtain ⟨idxs, hidx, h⟩ := h
  obtain ⟨i, hi, hb⟩ := mem_filterMapE _ _ _ h t ht
  simp only [bind_ok] at hb
  obtain ⟨line, _, ok, hok, hb⟩ := hb
  split at hb
  · rename_i hokt
    simp only [pure_ok, Option.some.injEq] at hb
    subst hb
    subst hokt
    cases cs with
    | nil =>
      simp only [List.head?_nil] at hidx
      split at hidx
      · injection hidx with hidx; subst hidx; simp [sortNat] at hi
      · cases hidx
    | cons c cs' =>
      obtain ⟨x, hx⟩ := seqMatches_head V f (i : Int) c cs' hok
      exact exact_of_slice f _ (i : Int) _ rfl (by omega) (Nat.le_of_lt (pyIdx_ok_lt f (i : Int) x (by omega) hx)) rfl
  · simp [pure, Except.pure] at hb

theorem sequenceMatchingBounded_line (V : View α) (f : List α) (cs : List Cls) (a b : Option Key)
    (r : List (Toi α)) (h : sequenceMatchingBounded V f (processTokens V.uid f) cs a b = .ok r) :
    ∀ t ∈ r, ∃ s : Nat, t.start = some (s : Int) ∧ t.line = lineNo V.uid f s := by
  intro t ht
  unfold sequenceMatchingBounded at h
  simp only [bind_ok] at h
  obtain ⟨idxs, _, h⟩ := h
  obtain ⟨i, _, hb⟩ := mem_filterMapE _ _ _ h t ht
  simp only [bind_ok] at hb
  obtain ⟨line, hl, ok, _, hb⟩ := hb
  split at hb
  · simp only [pure_ok, Option.some.injEq] at hb
    subst hb
    exact ⟨i, rfl, by simpa using lineOf_fresh V.uid f i line hl⟩
  · simp [pure, Except.pure] at hb

/-! ### previous non-whitespace token … token (start may be `None`) -/

theorem fromNonWsUntil_exact_partial (uid : α → Option Key) (f : List α) (cs : List Cls) (r : List (Toi α))
    (h : fromNonWsUntil f (processTokens uid f) cs = .ok r) :
    ∀ t ∈ r, t.start ≠ none → t.Exact f := by
  intro t ht hne
  unfold fromNonWsUntil at h
  obtain ⟨e, he, hb⟩ := mem_mapE _ _ _ h t ht
  obtain ⟨c, _, hc⟩ := List.mem_flatMap.mp he
  have helt := fresh_get_lt uid f c.uid e hc
  simp only [bind_ok, pure_ok] at hb
  obtain ⟨line, _, hb⟩ := hb
  split at hb
  · subst hb; simp at hne
  · rename_i s hs
    subst hb
    have : s ≤ ((e : Int) - 1).toNat := scanDown_le' _ _ _ hs
    exact exact_of_slice f _ (s : Int) _ rfl (by omega) (by simp; omega) rfl
where
  scanDown_le' (p : Nat → Bool) (n j : Nat) (h : Index.scanDown p n = some j) : j ≤ n := by
    induction n with
    | zero => simp [Index.scanDown] at h
    | succ n ih =>
      unfold Index.scanDown at h
      split at h
      · injection h with h; omega
      · have := ih h; omega

end Vsgm.TM.X.Lemmas
